import Zc.Model.Listener
import Zc.GenFacts.Listener
import Zc.Proofs.Listener
import Zc.Proofs.ListenerInv
import Zc.GenFacts.FnListener
/-! # C16 — back-to-back duplicate datagrams change nothing

Delivering a datagram twice in immediate succession on one socket is observationally the same as
delivering it once, the sole exception being a *query* that contains a QU question (it may be answered
by unicast twice).

The listener is a state machine over an **arbitrary** downstream handler `H` (record manager, registry,
query handler, every timer and API block of the host): the theorems hold for every `H`, every state and
every history.  The guard and the size test are the generated leaves `Gen.Listener.dup_guard` /
`oversize`; `GenFacts.Listener` ties them to the numbers.

The model mirrors the tree repaired by `notes/fixes/D11c.diff` (the QU exemption of the guard applies
to queries only).  On the unrepaired tree `GenFacts.Listener.dup_guard_iff` fails. -/
namespace Zc.Listener
open Zc.GenFacts.Listener

variable {σ ω β : Type} (H : Handler σ ω β)

/-- **C16, one datagram.**  For every handler, state, datagram that is not a QU query, source and instant:
the second of two back-to-back deliveries changes nothing and emits nothing (the `draw`s may differ: the
second copy never consumes one). -/
theorem C16_idempotent (s : State σ) (d : Bytes) (a : Addr) (p : Nat) (now : Ms) (r r' : Nat)
    (hq : quQuery H d = false) :
    (recv H (recv H s d a p now r).1 d a p now r').1 = (recv H s d a p now r).1
    ∧ (recv H (recv H s d a p now r).1 d a p now r').2.1 = [] := by
  have hq' : ¬((H.parse d).isQuery = true ∧ (H.parse d).hasQU = true) := by
    simpa [quQuery] using hq
  unfold recv
  by_cases hov : Gen.Listener.oversize (d.length : Int) = true
  · simp [hov]
  · simp only [hov, Bool.false_eq_true, ↓reduceIte]
    by_cases hg : guardHit s d now = true
    · simp [hg]
    · simp only [hg, Bool.false_eq_true, ↓reduceIte]
      obtain ⟨f1, f2, f3⟩ := process_fields H s d a p now r
      have := guardHit_of_fields (process H s d a p now r).1 d now now (H.parse d) f1 f2 f3 (Int.sub_lt_self now (by decide)) hq'
      simp [this]

/-- the second copy is labelled `duplicate` (or `oversize`), i.e. it was stopped by the guard, not by luck -/
theorem C16_second_copy_stopped (s : State σ) (d : Bytes) (a : Addr) (p : Nat) (now : Ms) (r r' : Nat)
    (hq : quQuery H d = false) :
    (recv H (recv H s d a p now r).1 d a p now r').2.2 = .duplicate
    ∨ (recv H (recv H s d a p now r).1 d a p now r').2.2 = .oversize := by
  have hq' : ¬((H.parse d).isQuery = true ∧ (H.parse d).hasQU = true) := by
    simpa [quQuery] using hq
  unfold recv
  by_cases hov : Gen.Listener.oversize (d.length : Int) = true
  · simp [hov]
  · simp only [hov, Bool.false_eq_true, ↓reduceIte]
    by_cases hg : guardHit s d now = true
    · simp [hg]
    · simp only [hg, Bool.false_eq_true, ↓reduceIte]
      obtain ⟨f1, f2, f3⟩ := process_fields H s d a p now r
      have := guardHit_of_fields (process H s d a p now r).1 d now now (H.parse d) f1 f2 f3 (Int.sub_lt_self now (by decide)) hq'
      simp [this]

/-- **C16 with a gap.**  If the first copy was actually processed at `now`, then after *any* blocks that
are not datagram arrivals on this socket (timers, API calls, task steps), the same bytes arriving less
than 1000 ms later — from any source — are dropped without effect. -/
theorem C16_window (s : State σ) (d : Bytes) (a a' : Addr) (p p' : Nat) (now now2 : Ms) (r r' : Nat)
    (bs : List (Block β)) (hbs : ∀ b ∈ bs, b.isRecv = false)
    (hsize : Gen.Listener.oversize (d.length : Int) = false) (hfirst : guardHit s d now = false)
    (hq : quQuery H d = false) (hw : now2 - 1000 < now)
    (s2 : State σ) (o : List ω) (hrun : run H (recv H s d a p now r).1 bs = .ok (s2, o)) :
    recv H s2 d a' p' now2 r' = (s2, [], .duplicate) := by
  have hq' : ¬((H.parse d).isQuery = true ∧ (H.parse d).hasQU = true) := by
    simpa [quQuery] using hq
  have hs1 : (recv H s d a p now r).1 = (process H s d a p now r).1 := by
    simp [recv, hsize, hfirst]
  obtain ⟨f1, f2, f3⟩ := process_fields H s d a p now r
  have g := run_nonrecv_guard H bs hbs _ s2 o hrun
  rw [hs1] at g
  obtain ⟨g1, g2, g3⟩ := g
  have hit := guardHit_of_fields s2 d now now2 (H.parse d) (g1.trans f1) (g2.trans f2) (g3.trans f3) hw hq'
  simp [recv, hsize, hit]

/-- **Truncated queries are idempotent whatever their questions** — without a QU question by the guard, with
one by the `_deferred` scan ("if we get the same packet we ignore it"): the second copy of a valid TC query
changes nothing, emits nothing, arms no new timer and consumes no random draw. -/
theorem C16_truncated_idempotent (s : State σ) (d : Bytes) (a : Addr) (p : Nat) (now : Ms) (r r' : Nat)
    (hv : (H.parse d).valid = true) (hqy : (H.parse d).isQuery = true) (htc : (H.parse d).truncated = true) :
    (recv H (recv H s d a p now r).1 d a p now r').1 = (recv H s d a p now r).1
    ∧ (recv H (recv H s d a p now r).1 d a p now r').2.1 = [] := by
  by_cases hq : quQuery H d = false
  · exact C16_idempotent H s d a p now r r' hq
  · have hqu : (H.parse d).hasQU = true := by
      simp only [quQuery, hqy, Bool.true_and, Bool.not_eq_false] at hq
      exact hq
    unfold recv
    by_cases hov : Gen.Listener.oversize (d.length : Int) = true
    · simp [hov]
    · simp only [hov, Bool.false_eq_true, ↓reduceIte]
      by_cases hg : guardHit s d now = true
      · simp [hg]
      · simp only [hg, Bool.false_eq_true, ↓reduceIte]
        obtain ⟨f1, f2, f3⟩ := process_fields H s d a p now r
        have hopen := guardHit_false_of_qu_query (process H s d a p now r).1 d now (H.parse d) f3 hqy hqu
        simp only [hopen, Bool.false_eq_true, ↓reduceIte]
        -- what the first copy did, case by case; the second copy finds its own packet in `_deferred`
        unfold process
        simp only [hv, hqy, Bool.not_true, Bool.false_eq_true, ↓reduceIte]
        by_cases he : H.hasEntries s.down = true
        · simp only [he, Bool.not_true, Bool.false_eq_true, ↓reduceIte, queryOrDefer, htc, deferred_same_packet_iff]
          by_cases hany : ((alGet a s.deferred).getD []).any (fun q => q.data == d) = true
          · simp [hany, he]
          · simp [hany, he, alGet_alSet]
        · simp [he]

/-- a history has no QU query among its datagrams -/
def Block.quiet (H : Handler σ ω β) : Block β → Bool
  | .recv d _ _ _ _ => !quQuery H d
  | _ => true

/-- **C16, whole histories.**  For every handler, initial state and history of blocks (datagram
arrivals, TC timers, any other block) none of whose datagrams is a QU query: duplicating every arrival
back-to-back yields exactly the same final state, the same emitted outputs in the same order, and the
same error (if the history raises at all). -/
theorem C16_history (h : List (Block β)) (hq : ∀ b ∈ h, b.quiet H = true) :
    ∀ s : State σ, run H s (dupAll h) = run H s h := by
  induction h with
  | nil => intro s; rfl
  | cons b rest ih =>
    intro s
    have ihr := ih (fun b hb => hq b (by simp [hb]))
    cases b with
    | recv d a p n r =>
      have hqd : quQuery H d = false := by
        have := hq (.recv d a p n r) (by simp)
        simpa [Block.quiet] using this
      obtain ⟨e1, e2⟩ := C16_idempotent H s d a p n r r hqd
      simp only [dupAll, run, step, bind, Except.bind, pure, Except.pure]
      rw [e1, e2, ihr]
      cases run H (recv H s d a p n r).1 rest <;> simp
    | tcFire a =>
      simp only [dupAll, run, bind, Except.bind]
      cases step H s (.tcFire a) with
      | error e => rfl
      | ok v => simp only [ihr]
    | other x =>
      simp only [dupAll, run, bind, Except.bind]
      cases step H s (.other x) with
      | error e => rfl
      | ok v => simp only [ihr]

/-! ## `TimerInv`: the deferred-query timer never raises, histories never raise

"A TC timer is armed only for an address that has a deferred packet."  C15 proves this for the concrete
host (`Survive.LInv.timer`); here it is proved for the listener over **every** handler, with C15's
association-list lemmas; `Proofs/ListenerBridge.lean` (`timerInv_forget`, `timerInv_of_LInv`) shows it is the same predicate. -/

/-- the invariant holds initially and is preserved by every block (arrival, TC timer, anything else) -/
theorem C16_timer_invariant :
    (∀ d : σ, TimerInv (State.init d)) ∧
    (∀ (s s' : State σ) (b : Block β) (o : List ω), TimerInv s → step H s b = .ok (s', o) → TimerInv s') :=
  ⟨TimerInv.init, fun s s' b o hs h => step_inv H s s' b o hs h⟩

/-- an armed TC timer finds its packet: `_respond_query(None, …)` → `packets[0]` does not raise `IndexError` -/
theorem C16_timer_never_raises (s : State σ) (hs : TimerInv s) (a : Addr) (t : TcTimer) (ht : alGet a s.timers = some t) :
    ∃ r, tcFire H s a = .ok r :=
  let ⟨r, hr, _⟩ := tcFire_ok H s a t hs ht
  ⟨r, hr⟩

/-- from the initial state no history whatsoever raises; the only `.error` is the marker `keyError` for a
history that fires a timer which is not armed (not a block the event loop can produce) -/
theorem C16_run_total (d0 : σ) (bs : List (Block β)) :
    (∃ s' o, run H (State.init d0) bs = .ok (s', o) ∧ TimerInv s') ∨ run H (State.init d0) bs = .error .keyError :=
  run_inv H bs (State.init d0) (TimerInv.init d0)

/-- **C16, whole histories, unconditional form.**  From the initial state, a history without QU queries and
its duplicated version both run to the end and agree on the final state and on everything emitted — or both
are the same ill-formed history (an unarmed timer fired).  The "same error" clause of `C16_history` is
thereby discharged: there is no error to agree on. -/
theorem C16_history_total (d0 : σ) (h : List (Block β)) (hq : ∀ b ∈ h, b.quiet H = true) :
    (∃ r, run H (State.init d0) h = .ok r ∧ run H (State.init d0) (dupAll h) = .ok r) ∨
    (run H (State.init d0) h = .error .keyError ∧ run H (State.init d0) (dupAll h) = .error .keyError) := by
  have he := C16_history H h hq (State.init d0)
  rcases C16_run_total H d0 h with ⟨s', o, hr, _⟩ | hr
  · exact Or.inl ⟨(s', o), hr, by rw [he, hr]⟩
  · exact Or.inr ⟨hr, by rw [he, hr]⟩

/-- **The exception is real and is exactly the guard's.**  After a QU query was processed the guard is
open: the second copy goes through `process` again (so the query handler runs again). -/
theorem C16_qu_reprocessed (s : State σ) (d : Bytes) (a : Addr) (p : Nat) (now : Ms) (r r' : Nat)
    (hsize : Gen.Listener.oversize (d.length : Int) = false) (hfirst : guardHit s d now = false)
    (hq : quQuery H d = true) :
    recv H (recv H s d a p now r).1 d a p now r' = process H (process H s d a p now r).1 d a p now r' := by
  have hs1 : (recv H s d a p now r).1 = (process H s d a p now r).1 := by
    simp [recv, hsize, hfirst]
  obtain ⟨_, _, f3⟩ := process_fields H s d a p now r
  simp only [quQuery, Bool.and_eq_true] at hq
  have := guardHit_false_of_qu_query (process H s d a p now r).1 d now (H.parse d) f3 hq.1 hq.2
  rw [hs1]
  simp [recv, hsize, this]

/-! ## histories that contain QU queries

The second copy of a QU query is processed again; what that does downstream is the handler's business.  The hypothesis
is therefore about the handler: `QueryRepeatNeutral H ok` — answering the same single packet again, right after a query
that ended with it, leaves the downstream state as it was and emits only outputs that pass `ok` (for the real responder:
unicast answers — false where findings D11/D11b apply; the harness checks exactly this on the real `QueryHandler`, on
every duplicated QU query). -/

/-- from the handler-level condition to the listener-level one: every case of the second copy — oversize, suppressed
first copy, invalid, registry empty, truncated (found in `_deferred`), answered (deferred packets already popped,
timers already cancelled: erasing again changes nothing) -/
theorem C16_second_copy_neutral (ok : ω → Bool) (hH : QueryRepeatNeutral H ok) : SecondCopyNeutral H ok := by
  intro s d a p now r r' hqu
  have hqu' := hqu
  simp only [quQuery, Bool.and_eq_true] at hqu'
  obtain ⟨hq, hu⟩ := hqu'
  by_cases hov : Gen.Listener.oversize (d.length : Int) = true
  · simp [recv, hov]
  by_cases hg : guardHit s d now = true
  · simp [recv, hov, hg]
  have hov' : Gen.Listener.oversize (d.length : Int) = false := by simpa using hov
  have hg' : guardHit s d now = false := by simpa using hg
  rw [C16_qu_reprocessed H s d a p now r r' hov' hg' hqu]
  have hs1 : (recv H s d a p now r).1 = (process H s d a p now r).1 := by simp [recv, hov', hg']
  rw [hs1]
  by_cases hv : (H.parse d).valid = true
  · by_cases he : H.hasEntries s.down = true
    · by_cases htc : (H.parse d).truncated = true
      · -- truncated: found in `_deferred`
        have := C16_truncated_idempotent H s d a p now r r' hv hq htc
        rw [C16_qu_reprocessed H s d a p now r r' hov' hg' hqu, hs1] at this
        exact ⟨this.1, by rw [this.2]; simp⟩
      · have htc' : (H.parse d).truncated = false := by simpa using htc
        rw [process_answered H s d a p now r hv hq htc' he]
        simp only
        by_cases he2 : H.hasEntries (H.onQuery s.down ((alGet a s.deferred).getD [] ++ [(⟨d, now⟩ : Packet)]) a p).1 = true
        · obtain ⟨n1, n2⟩ := hH s.down ((alGet a s.deferred).getD []) (⟨d, now⟩ : Packet) a p
          rw [process_answered H _ d a p now r' hv hq htc' he2]
          simp only [alGet_alErase_self, Option.getD_none, List.nil_append, alErase_idem]
          exact ⟨by rw [n1], n2⟩
        · simp [process, hv, hq, he2]
    · simp [process, hv, hq, he]
  · simp [process, hv]

/-- **C16, whole histories, QU queries included.**  For every handler whose reaction to the second copy of a QU query is
state-neutral (`SecondCopyNeutral`, implied by `QueryRepeatNeutral`), every state and every history — QU queries, TC
timers, any other blocks: duplicating every arrival yields the *same final state*, the same error if any, and the
same outputs except for extra outputs that pass `ok` (for the real responder: unicast answers to the querier).
`_partial`: the hypothesis on the handler is what findings D11 and D11b violate (the second answer multicasts / queues
again and so is neither `ok` nor — through the queues — state-neutral); for everything else the harness checks it on the
real handler. -/
theorem C16_history_qu_partial (ok : ω → Bool) (hN : SecondCopyNeutral H ok) (h : List (Block β)) :
    ∀ s : State σ,
      (∀ s1 o1, run H s h = .ok (s1, o1) → ∃ o2, run H s (dupAll h) = .ok (s1, o2) ∧ ExtraOf ok o1 o2) ∧
      (∀ e, run H s h = .error e → run H s (dupAll h) = .error e) := by
  induction h with
  | nil =>
    intro s
    exact ⟨fun s1 o1 hr => ⟨o1, hr, by simp only [run, Except.ok.injEq, Prod.mk.injEq] at hr; rw [← hr.2]; exact .nil⟩,
      fun e hr => by simp [run] at hr⟩
  | cons b rest ih =>
    intro s
    cases b with
    | recv d a p n r =>
      -- the second copy: a no-op (not a QU query) or state-neutral with `ok` outputs (QU query)
      have second : (recv H (recv H s d a p n r).1 d a p n r).1 = (recv H s d a p n r).1 ∧
          ∀ x ∈ (recv H (recv H s d a p n r).1 d a p n r).2.1, ok x = true := by
        by_cases hq : quQuery H d = true
        · exact hN s d a p n r r hq
        · obtain ⟨e1, e2⟩ := C16_idempotent H s d a p n r r (by simpa using hq)
          exact ⟨e1, by rw [e2]; simp⟩
      obtain ⟨ihok, iherr⟩ := ih (recv H s d a p n r).1
      simp only [dupAll, run, step, bind, Except.bind, pure, Except.pure]
      rw [second.1]
      constructor
      · intro s1 o1 hr
        cases hrest : run H (recv H s d a p n r).1 rest with
        | error e => simp [hrest] at hr
        | ok v =>
          obtain ⟨s2, o2⟩ := v
          simp only [hrest, Except.ok.injEq, Prod.mk.injEq] at hr
          obtain ⟨rfl, rfl⟩ := hr
          obtain ⟨o3, h3, x3⟩ := ihok s2 o2 hrest
          refine ⟨(recv H s d a p n r).2.1 ++ ((recv H (recv H s d a p n r).1 d a p n r).2.1 ++ o3), by simp [h3], ?_⟩
          exact ExtraOf.append ok (ExtraOf.refl ok _) (ExtraOf.extras ok _ second.2 x3)
      · intro e hr
        cases hrest : run H (recv H s d a p n r).1 rest with
        | error e' =>
          simp only [hrest, Except.error.injEq] at hr
          subst hr
          simp [iherr e' hrest]
        | ok v => simp [hrest] at hr
    | tcFire a =>
      simp only [dupAll, run, bind, Except.bind]
      cases hst : step H s (.tcFire a) with
      | error e => exact ⟨fun _ _ hr => by simp at hr, fun e' hr => hr⟩
      | ok v =>
        obtain ⟨ihok, iherr⟩ := ih v.1
        constructor
        · intro s1 o1 hr
          cases hrest : run H v.1 rest with
          | error e => simp [hrest] at hr
          | ok w =>
            simp only [hrest, pure, Except.pure, Except.ok.injEq, Prod.mk.injEq] at hr
            obtain ⟨rfl, rfl⟩ := hr
            obtain ⟨o3, h3, x3⟩ := ihok w.1 w.2 (by simp [hrest])
            exact ⟨_, by simp [h3, pure, Except.pure], ExtraOf.append ok (ExtraOf.refl ok _) x3⟩
        · intro e hr
          cases hrest : run H v.1 rest with
          | error e' =>
            simp only [hrest, Except.error.injEq] at hr
            subst hr
            simp [iherr e' hrest]
          | ok w => simp [hrest, pure, Except.pure] at hr
    | other x =>
      simp only [dupAll, run, bind, Except.bind]
      cases hst : step H s (.other x) with
      | error e => exact ⟨fun _ _ hr => by simp at hr, fun e' hr => hr⟩
      | ok v =>
        obtain ⟨ihok, iherr⟩ := ih v.1
        constructor
        · intro s1 o1 hr
          cases hrest : run H v.1 rest with
          | error e => simp [hrest] at hr
          | ok w =>
            simp only [hrest, pure, Except.pure, Except.ok.injEq, Prod.mk.injEq] at hr
            obtain ⟨rfl, rfl⟩ := hr
            obtain ⟨o3, h3, x3⟩ := ihok w.1 w.2 (by simp [hrest])
            exact ⟨_, by simp [h3, pure, Except.pure], ExtraOf.append ok (ExtraOf.refl ok _) x3⟩
        · intro e hr
          cases hrest : run H v.1 rest with
          | error e' =>
            simp only [hrest, Except.error.injEq] at hr
            subst hr
            simp [iherr e' hrest]
          | ok w => simp [hrest, pure, Except.pure] at hr

/-! ### per history: the form the real handler can be instantiated with

`SecondCopyNeutral` / `QueryRepeatNeutral` quantify over **every** state and packet; finding D11 is a state of the real
`QueryHandler` at which they fail, so `C16_history_qu_partial` says nothing about `/repo` — not even for histories that never come
near D11.  The statements below ask the same of the arrivals of *one history* only, each at the state in which it occurs: exactly
what the harness observes on the real handler at every duplicated QU query (`second_copy_findings`: downstream state unchanged, only
unicast answers to the querier). -/

/-- one arrival: from the handler-level condition **at the state the arrival finds** to `NeutralAt` — every case of the second
copy (oversize, suppressed first copy, invalid, registry empty, truncated → found in `_deferred`, answered → deferred packets
already popped and timers already cancelled) -/
theorem C16_second_copy_neutral_at (ok : ω → Bool) (s : State σ) (d : Bytes) (a : Addr) (p : Nat) (now : Ms) (r : Nat)
    (hqu : quQuery H d = true)
    (hH : (H.parse d).valid = true → (H.parse d).truncated = false → H.hasEntries s.down = true →
      QueryRepeatNeutralAt H ok s.down ((alGet a s.deferred).getD []) (⟨d, now⟩ : Packet) a p) :
    NeutralAt H ok s d a p now r := by
  have hqu' := hqu
  simp only [quQuery, Bool.and_eq_true] at hqu'
  obtain ⟨hq, hu⟩ := hqu'
  unfold NeutralAt
  by_cases hov : Gen.Listener.oversize (d.length : Int) = true
  · simp [recv, hov]
  by_cases hg : guardHit s d now = true
  · simp [recv, hov, hg]
  have hov' : Gen.Listener.oversize (d.length : Int) = false := by simpa using hov
  have hg' : guardHit s d now = false := by simpa using hg
  rw [C16_qu_reprocessed H s d a p now r r hov' hg' hqu]
  have hs1 : (recv H s d a p now r).1 = (process H s d a p now r).1 := by simp [recv, hov', hg']
  rw [hs1]
  by_cases hv : (H.parse d).valid = true
  · by_cases he : H.hasEntries s.down = true
    · by_cases htc : (H.parse d).truncated = true
      · have := C16_truncated_idempotent H s d a p now r r hv hq htc
        rw [C16_qu_reprocessed H s d a p now r r hov' hg' hqu, hs1] at this
        exact ⟨this.1, by rw [this.2]; simp⟩
      · have htc' : (H.parse d).truncated = false := by simpa using htc
        rw [process_answered H s d a p now r hv hq htc' he]
        simp only
        by_cases he2 : H.hasEntries (H.onQuery s.down ((alGet a s.deferred).getD [] ++ [(⟨d, now⟩ : Packet)]) a p).1 = true
        · obtain ⟨n1, n2⟩ := hH hv htc' he
          rw [process_answered H _ d a p now r hv hq htc' he2]
          simp only [alGet_alErase_self, Option.getD_none, List.nil_append, alErase_idem]
          exact ⟨by rw [n1], n2⟩
        · simp [process, hv, hq, he2]
    · simp [process, hv, hq, he]
  · simp [process, hv]

/-- the ∀-state hypothesis implies the per-history one, for every history -/
theorem NeutralAlong_of_secondCopyNeutral (ok : ω → Bool) (hN : SecondCopyNeutral H ok) (h : List (Block β)) :
    ∀ s : State σ, NeutralAlong H ok s h := by
  induction h with
  | nil => intro s; trivial
  | cons b rest ih =>
    intro s
    cases b with
    | recv d a p n r => exact ⟨fun hq => hN s d a p n r r hq, ih _⟩
    | tcFire a =>
      simp only [NeutralAlong]
      split
      · exact ih _
      · trivial
    | other x =>
      simp only [NeutralAlong]
      split
      · exact ih _
      · trivial

/-- **C16, whole histories, QU queries included — per history.**  For every handler, every state and every history — QU
queries, TC timers, any other blocks — *whose own QU arrivals are each neutral at the state in which they occur* (`NeutralAlong`):
duplicating every arrival yields the **same final state**, the same error if any, and the same outputs except for extra outputs
that pass `ok` (for the real responder: unicast answers to the querier).  `_partial`: for a history that contains a QU arrival in
the class of finding D11 / D11b the hypothesis fails at that arrival (the second answer multicasts / queues again:
`C16_qu_full_refuted`); for every other history of the real handler it is what the harness checks at every duplicated QU query. -/
theorem C16_history_qu_at_partial (ok : ω → Bool) (h : List (Block β)) :
    ∀ s : State σ, NeutralAlong H ok s h →
      (∀ s1 o1, run H s h = .ok (s1, o1) → ∃ o2, run H s (dupAll h) = .ok (s1, o2) ∧ ExtraOf ok o1 o2) ∧
      (∀ e, run H s h = .error e → run H s (dupAll h) = .error e) := by
  induction h with
  | nil =>
    intro s _
    exact ⟨fun s1 o1 hr => ⟨o1, hr, by simp only [run, Except.ok.injEq, Prod.mk.injEq] at hr; rw [← hr.2]; exact .nil⟩,
      fun e hr => by simp [run] at hr⟩
  | cons b rest ih =>
    intro s hn
    cases b with
    | recv d a p n r =>
      obtain ⟨hn1, hn2⟩ := hn
      have second : (recv H (recv H s d a p n r).1 d a p n r).1 = (recv H s d a p n r).1 ∧
          ∀ x ∈ (recv H (recv H s d a p n r).1 d a p n r).2.1, ok x = true := by
        by_cases hq : quQuery H d = true
        · exact hn1 hq
        · obtain ⟨e1, e2⟩ := C16_idempotent H s d a p n r r (by simpa using hq)
          exact ⟨e1, by rw [e2]; simp⟩
      obtain ⟨ihok, iherr⟩ := ih (recv H s d a p n r).1 hn2
      simp only [dupAll, run, step, bind, Except.bind, pure, Except.pure]
      rw [second.1]
      constructor
      · intro s1 o1 hr
        cases hrest : run H (recv H s d a p n r).1 rest with
        | error e => simp [hrest] at hr
        | ok v =>
          obtain ⟨s2, o2⟩ := v
          simp only [hrest, Except.ok.injEq, Prod.mk.injEq] at hr
          obtain ⟨rfl, rfl⟩ := hr
          obtain ⟨o3, h3, x3⟩ := ihok s2 o2 hrest
          refine ⟨(recv H s d a p n r).2.1 ++ ((recv H (recv H s d a p n r).1 d a p n r).2.1 ++ o3), by simp [h3], ?_⟩
          exact ExtraOf.append ok (ExtraOf.refl ok _) (ExtraOf.extras ok _ second.2 x3)
      · intro e hr
        cases hrest : run H (recv H s d a p n r).1 rest with
        | error e' =>
          simp only [hrest, Except.error.injEq] at hr
          subst hr
          simp [iherr e' hrest]
        | ok v => simp [hrest] at hr
    | tcFire a =>
      simp only [dupAll, run, bind, Except.bind]
      simp only [NeutralAlong] at hn
      cases hst : step H s (.tcFire a) with
      | error e => exact ⟨fun _ _ hr => by simp at hr, fun e' hr => hr⟩
      | ok v =>
        rw [hst] at hn
        obtain ⟨ihok, iherr⟩ := ih v.1 hn
        constructor
        · intro s1 o1 hr
          cases hrest : run H v.1 rest with
          | error e => simp [hrest] at hr
          | ok w =>
            simp only [hrest, pure, Except.pure, Except.ok.injEq, Prod.mk.injEq] at hr
            obtain ⟨rfl, rfl⟩ := hr
            obtain ⟨o3, h3, x3⟩ := ihok w.1 w.2 (by simp [hrest])
            exact ⟨_, by simp [h3, pure, Except.pure], ExtraOf.append ok (ExtraOf.refl ok _) x3⟩
        · intro e hr
          cases hrest : run H v.1 rest with
          | error e' =>
            simp only [hrest, Except.error.injEq] at hr
            subst hr
            simp [iherr e' hrest]
          | ok w => simp [hrest, pure, Except.pure] at hr
    | other x =>
      simp only [dupAll, run, bind, Except.bind]
      simp only [NeutralAlong] at hn
      cases hst : step H s (.other x) with
      | error e => exact ⟨fun _ _ hr => by simp at hr, fun e' hr => hr⟩
      | ok v =>
        rw [hst] at hn
        obtain ⟨ihok, iherr⟩ := ih v.1 hn
        constructor
        · intro s1 o1 hr
          cases hrest : run H v.1 rest with
          | error e => simp [hrest] at hr
          | ok w =>
            simp only [hrest, pure, Except.pure, Except.ok.injEq, Prod.mk.injEq] at hr
            obtain ⟨rfl, rfl⟩ := hr
            obtain ⟨o3, h3, x3⟩ := ihok w.1 w.2 (by simp [hrest])
            exact ⟨_, by simp [h3, pure, Except.pure], ExtraOf.append ok (ExtraOf.refl ok _) x3⟩
        · intro e hr
          cases hrest : run H v.1 rest with
          | error e' =>
            simp only [hrest, Except.error.injEq] at hr
            subst hr
            simp [iherr e' hrest]
          | ok w => simp [hrest, pure, Except.pure] at hr

/-- the per-history hypothesis is met by a handler that is **not** neutral at every state — like the real one: `d11H` answers
by unicast once the record has been heard on the link (downstream state `n > 0`: "recent"), by multicast before (`n = 0`: the D11
state — and again for the second copy, nothing having been heard in between).
A history whose QU query arrives after a response has been heard is `NeutralAlong`; the same query arriving first is not — and
`SecondCopyNeutral` fails for this handler, so `C16_history_qu_partial` says nothing about it while `C16_history_qu_at_partial` does. -/
def d11H : Handler Nat String Unit where
  parse d := { valid := true, isQuery := d.head? == some 0, truncated := false, hasQU := d.head? == some 0 }
  onResponse n _ := (n + 1, [])
  hasEntries _ := true
  onQuery n _ _ _ := if n = 0 then (0, ["mcast"]) else (n, ["ucast"])
  other n _ := (n, [])

example : NeutralAlong d11H (fun o => o == "ucast") (State.init 0) [.recv [1] "a" 5353 5 0, .recv [0] "b" 5353 2000 0] := by
  refine ⟨fun h => absurd h (by decide), ?_, trivial⟩
  intro _
  exact ⟨by decide, by decide⟩
example : ¬ NeutralAlong d11H (fun o => o == "ucast") (State.init 0) [.recv [0] "b" 5353 2000 0] := by
  intro h
  exact absurd ((h.1 (by decide)).2 "mcast" (by decide)) (by decide)
example : ¬ SecondCopyNeutral d11H (fun o => o == "ucast") := by
  intro h
  exact absurd ((h (State.init 0) [0] "b" 5353 2000 0 0 (by decide)).2 "mcast" (by decide)) (by decide)
-- and the conclusion is not vacuous there: the duplicated history ends in the same state with one extra unicast answer
example : (run d11H (State.init 0) (dupAll [.recv [1] "a" 5353 5 0, .recv [0] "b" 5353 2000 0])).toOption.map (·.2) = some ["ucast", "ucast"] := by decide
example : (run d11H (State.init 0) [.recv [1] "a" 5353 5 0, .recv [0] "b" 5353 2000 0]).toOption.map (·.2) = some ["ucast"] := by decide

/-! ## What the re-processed QU query emits (`_QueryResponse` routing)

`respondEmits q` is what `handle_assembled_query` does for the answer sets in `q`. -/

/-- full-strength statement: a (multicast-source, all-QU) query is answered by unicast only -/
def C16_qu_full : Prop := ∀ q : QueryIn, q.pureQU = true → (respondEmits q).all Emit.isUnicast = true

/-- **C16, the QU exception, partial.**  A query from the mDNS port all of whose answered questions are QU
emits nothing but (at most one) unicast datagram — *provided every answer was multicast within a quarter of
its TTL*.  The extra hypothesis is exactly the complement of the recorded finding D11
(`known_findings.json`, signature "query has a QU question and some answer not multicast within TTL/4");
`pureQU` excludes the second recorded finding D11b (a QM question in the same packet / unicast-source
query: its answers go through the multicast path again).  What is missing for full strength: nothing in
the proof — the code itself multicasts again (`C16_qu_full_refuted`). -/
theorem C16_qu_partial (q : QueryIn) (hp : q.pureQU = true) (hr : q.allRecent = true) :
    (respondEmits q).all Emit.isUnicast = true := by
  obtain ⟨h1, h2, h3⟩ := route_recent q hp hr
  unfold respondEmits emit
  split
  · rfl
  · simp only [h1, h2, h3, List.isEmpty_nil, ↓reduceIte, List.append_nil]
    split <;> simp [Emit.isUnicast]

/-- D11, machine-checked: one QU question, one answer the cache has never seen → it is multicast, and it
is multicast again for every further copy of the query (the routing is a function of the unchanged cache) -/
def d11Witness : QueryIn :=
  { isProbe := false, port := 5353, now := 2000000, nQuestions := 1, firstQType := 12,
    strats := [⟨true, [⟨0, none⟩]⟩] }

theorem C16_qu_full_refuted : ¬ C16_qu_full := by
  intro h
  have := h d11Witness (by decide)
  revert this
  decide

/-- composition with the guard: for every handler whose query path is the modelled routing on some view of its
state and of the packets it is handed, the second copy of an answered, untruncated QU query emits only unicast
datagrams when the view **of the state the first copy left behind and of the one packet the second copy brings** is
pure-QU and all-recent.  (The hypothesis is about that state and that packet list only; `viewH` below is a handler whose
view depends on both and meets it at one state and not at another.) -/
theorem C16_qu_second_copy_unicast_partial (H : Handler σ Emit β) (view : σ → List Packet → Addr → Nat → QueryIn)
    (hH : ∀ x ps a p, (H.onQuery x ps a p).2 = respondEmits (view x ps a p))
    (s : State σ) (d : Bytes) (a : Addr) (p : Nat) (now : Ms) (r r' : Nat)
    (hsize : Gen.Listener.oversize (d.length : Int) = false) (hfirst : guardHit s d now = false)
    (hq : quQuery H d = true) (hvalid : (H.parse d).valid = true) (htc : (H.parse d).truncated = false)
    (hent : H.hasEntries s.down = true)
    (hview : (view (H.onQuery s.down ((alGet a s.deferred).getD [] ++ [(⟨d, now⟩ : Packet)]) a p).1 [(⟨d, now⟩ : Packet)] a p).pureQU = true ∧
             (view (H.onQuery s.down ((alGet a s.deferred).getD [] ++ [(⟨d, now⟩ : Packet)]) a p).1 [(⟨d, now⟩ : Packet)] a p).allRecent = true) :
    (recv H (recv H s d a p now r).1 d a p now r').2.1.all Emit.isUnicast = true := by
  rw [C16_qu_reprocessed H s d a p now r r' hsize hfirst hq]
  have hq' := hq
  simp only [quQuery, Bool.and_eq_true] at hq'
  rw [process_answered H s d a p now r hvalid hq'.1 htc hent]
  simp only
  by_cases he2 : H.hasEntries (H.onQuery s.down ((alGet a s.deferred).getD [] ++ [(⟨d, now⟩ : Packet)]) a p).1 = true
  · rw [process_answered H _ d a p now r' hvalid hq'.1 htc he2]
    simp only [alGet_alErase_self, Option.getD_none, List.nil_append]
    rw [hH]
    exact C16_qu_partial _ hview.1 hview.2
  · simp [process, hvalid, hq'.1, he2]

/-! ### the hypotheses are satisfiable, the conclusions are not vacuous -/

/-- a concrete handler: counts what it is given -/
def demoH : Handler Nat String Unit where
  parse d := { valid := true, isQuery := d.head? == some 0, truncated := false, hasQU := d.length > 1 }
  onResponse n _ := (n + 1, ["resp"])
  hasEntries _ := true
  onQuery n ps _ _ := (n + 1, [s!"query/{ps.length}"])
  other n _ := (n, [])

-- a response (not a query) with the QU bit: processed once, the second copy is a no-op
example : quQuery demoH [1, 1] = false := by decide
example : (recv demoH (State.init 0) [1, 1] "a" 5353 7 0).2.1 = ["resp"] := by decide
example : (recv demoH (recv demoH (State.init 0) [1, 1] "a" 5353 7 0).1 [1, 1] "a" 5353 7 0).2.1 = [] := by decide
-- a QU query: both copies reach the query handler
example : quQuery demoH [0, 1] = true := by decide
example : (recv demoH (recv demoH (State.init 0) [0, 1] "a" 5353 7 0).1 [0, 1] "a" 5353 7 0).2.1 = ["query/1"] := by decide
-- outside the window the same bytes are processed again (the window theorem's bound is tight)
example : (recv demoH (recv demoH (State.init 0) [1] "a" 5353 0 0).1 [1] "a" 5353 999 0).2.2 = .duplicate := by decide
example : (recv demoH (recv demoH (State.init 0) [1] "a" 5353 0 0).1 [1] "a" 5353 1000 0).2.2 = .response := by decide
-- a suppressed copy does not move the window: 0 (processed), 999 (dropped), 1000 (processed again)
example : (recv demoH (recv demoH (recv demoH (State.init 0) [1] "a" 5353 0 0).1 [1] "a" 5353 999 0).1 [1] "a" 5353 1000 0).2.2 = .response := by decide
-- `TimerInv` is not vacuous: a state with a deferred packet and its armed timer satisfies it, and the timer fires
example : TimerInv (σ := Nat) ⟨none, 0, none, [("a", [⟨[0, 1], 5⟩])], [("a", ⟨450, 5353⟩)], 0⟩ := by
  intro x t ht
  by_cases hx : "a" = x
  · subst hx; exact ⟨_, _, rfl⟩
  · simp [alGet, hx] at ht
example : (tcFire demoH ⟨none, 0, none, [("a", [⟨[0, 1], 5⟩])], [("a", ⟨450, 5353⟩)], 0⟩ "a").toOption.map (·.2.1) = some ["query/1"] := by decide
-- without the invariant the model does raise, as the code would
example : (tcFire demoH ⟨none, 0, none, [], [("a", ⟨450, 5353⟩)], 0⟩ "a").toOption.isNone = true := by decide
-- a handler whose view depends on the downstream state (how often it has answered: the first answer finds the cache
-- empty, later ones find the record recent) and on the packets (several packets: a QM question among them)
-- meets the hypothesis of `C16_qu_second_copy_unicast_partial` at the state the first copy leaves, not at every state
example : ∃ (H : Handler Nat Emit Unit) (view : Nat → List Packet → Addr → Nat → QueryIn),
    (∀ x ps a p, (H.onQuery x ps a p).2 = respondEmits (view x ps a p)) ∧
    ((view (H.onQuery 0 [⟨[0, 1], 7⟩] "a" 5353).1 [⟨[0, 1], 7⟩] "a" 5353).pureQU = true ∧
     (view (H.onQuery 0 [⟨[0, 1], 7⟩] "a" 5353).1 [⟨[0, 1], 7⟩] "a" 5353).allRecent = true) ∧
    (view 0 [⟨[0, 1], 7⟩] "a" 5353).allRecent = false ∧ (view 1 [⟨[0, 1], 7⟩, ⟨[0, 2], 7⟩] "a" 5353).pureQU = false :=
  ⟨{ parse := fun d => { valid := true, isQuery := d.head? == some 0, truncated := false, hasQU := d.length > 1 },
     onResponse := fun n _ => (n, []), hasEntries := fun _ => true,
     onQuery := fun x ps _ p => (x + 1, respondEmits ⟨false, p, 1000, 1, 12,
       [⟨ps.length == 1, [⟨0, if x > 0 then some (900, 4500) else none⟩]⟩]⟩),
     other := fun n _ => (n, []) },
   fun x ps _ p => ⟨false, p, 1000, 1, 12, [⟨ps.length == 1, [⟨0, if x > 0 then some (900, 4500) else none⟩]⟩]⟩,
   fun _ _ _ _ => rfl, by decide, by decide, by decide⟩
-- `demoH` is not repeat-neutral (it counts), a handler that ignores repeats is: `QueryRepeatNeutral` is satisfiable and not trivial
example : QueryRepeatNeutral (σ := Nat) (ω := String) (β := Unit)
    { parse := fun _ => default, onResponse := fun n _ => (n, []), hasEntries := fun _ => true,
      onQuery := fun n ps _ _ => (max n ps.length, ["u"]), other := fun n _ => (n, []) } (fun o => o == "u") := by
  intro x ps pk a p
  simp only [List.length_append, List.length_singleton, List.mem_singleton, forall_eq, beq_self_eq_true, and_true]
  omega
-- `pureQU`/`allRecent` hold for a recent answer and the conclusion is a real unicast datagram
example : (⟨false, 5353, 1000, 1, 12, [⟨true, [⟨0, some (900, 4500)⟩]⟩]⟩ : QueryIn).pureQU = true := by decide
example : (⟨false, 5353, 1000, 1, 12, [⟨true, [⟨0, some (900, 4500)⟩]⟩]⟩ : QueryIn).allRecent = true := by decide
example : respondEmits ⟨false, 5353, 1000, 1, 12, [⟨true, [⟨0, some (900, 4500)⟩]⟩]⟩ = [.unicast [0]] := by decide
example : respondEmits d11Witness = [.multicast [0]] := by decide

/-! ## Tie: the source of `AsyncListener`'s deferral of truncated queries (`_listener.py`), translated statement by statement on every run

`Zc.GenFn.Listener` is regenerated from the *bodies* of `handle_query_or_defer`, `_cancel_any_timers_for_addr` and `_respond_query`
(`tools/gen_fn.py`, spec `tools/fnspecs/listener.py`): `random.randint` and `loop.time()` are parameters; `loop.call_at(…)`,
`handle.cancel()` and `query_handler.handle_assembled_query(…)` are returned effects.  `GenFacts/FnListener.lean` proves the model's
`queryOrDefer` / `respond` (this file's state machine behind the guard) equal to those bodies under `Rel` (the two dicts are the model's
association lists).  **What this transports**: the blocks `queryOrDefer`, `respondMsg` and `respond` of the model are the translated
code.  **What it does not**: `datagram_received` / `_process_datagram_at_time` (size test, duplicate guard, parsing, the registry
test) are tied by the generated leaves only (`GenFacts.Listener`), and the theorems of this file are about `recv` / `run`, which
compose those hand-written steps with the blocks tied here. -/
section Tie
open Zc.Py Zc.GenFn.Listener _root_.Zc.GenFacts.FnListener

/-- **Deferral of a truncated query, in the translated code**: the model's `queryOrDefer` — same `_deferred`, same `_timers`, nothing
handed to the query handler; a packet already deferred for the address changes nothing; otherwise the address's armed timer is
cancelled and a new one armed `randint(400, 500)` ms after the loop time -/
theorem C16_defer_source {s : AsyncListener} {st : State σ} (h : Rel s st)
    (m : MsgInfo) (pkt : Packet) (addr : String) (port : Nat) (rr : Int → Int → Int) (lt : Int) (draw : Nat)
    (ht : m.truncated = true) (hdraw : rr 400 500 = (draw : Int)) (hlt : lt = pkt.now) :
    ∃ s' effs, s.handle_query_or_defer (m, pkt) addr port () () rr lt = .ok (s', effs)
      ∧ Rel s' (queryOrDefer H st m pkt addr port draw).1
      ∧ (queryOrDefer H st m pkt addr port draw).2.1 = []
      ∧ (((queryOrDefer H st m pkt addr port draw).2.2 = .deferredSame ∧ effs = [])
         ∨ ((queryOrDefer H st m pkt addr port draw).2.2 = .deferred (pkt.now + draw)
            ∧ effs = (PyDict.get? strEq s.timers addr).toList.map LEffect.cancel ++ [LEffect.callAt (pkt.now + draw) addr port])) :=
  defer_eq H h m pkt addr port rr lt draw ht hdraw hlt

/-- **Answering (a complete query, or the timer of a deferred one), in the translated code**: the model's `respond` — the address's
timer cancelled, its deferred packets popped and handed, with the message if any, to the query handler -/
theorem C16_respond_source {s : AsyncListener} {st : State σ} (h : Rel s st) (msg : Option (MsgInfo × Packet)) (addr : String) (port : Nat) :
    ∃ s' pk, s.respond_query msg addr port () ()
        = .ok (s', (PyDict.get? strEq s.timers addr).toList.map LEffect.cancel ++ [LEffect.assembled pk addr port])
      ∧ Rel s' { st with timers := alErase addr st.timers, deferred := alErase addr st.deferred }
      ∧ respond H st (msg.map Prod.snd) addr port
          = runAssembled H { st with timers := alErase addr st.timers, deferred := alErase addr st.deferred } (pk.map Prod.snd) addr port :=
  respond_query_eq H h msg addr port

end Tie

end Zc.Listener
