import Zc.Proofs.Link
import Zc.GenFacts.Link
/-! # C07 — end-to-end discovery converges to the set of registered services -/
namespace Zc
open Zc.Link

/-- today's source constants give the timing parameters of the English property -/
theorem C07_constants : Cfg.gen = Cfg.paper := GenFacts.Link.cfg_gen_eq

end Zc
