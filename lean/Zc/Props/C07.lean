import Zc.Proofs.LinkConverge
import Zc.Proofs.LinkBridge
import Zc.Proofs.LinkBridgeK2
import Zc.Proofs.LinkBridgeK1
import Zc.Proofs.LinkBridgeK3
import Zc.Proofs.LinkBridgeK3b
import Zc.Proofs.LinkBridgeK5
import Zc.Proofs.LinkBridgeK4
import Zc.Proofs.LinkNaming
import Zc.Proofs.LinkBridgeCheck
import Zc.GenFacts.Link
/-! # C07 — end-to-end discovery converges to the set of registered services

*On a link of several hosts running the library, with per-datagram delay up to 100 ms, reordering, duplication and the
loss of any single datagram, every browser ends up — within a bounded settling time after the last change — reporting
exactly the instances of its type that are currently registered.*

The theorem is an **assume–guarantee** result over link traces (`Zc.Model.Link`): the behaviour of each host enters only
through the seven single-host contracts K1–K7 of DESIGN §7, each an executable monitor that the harness evaluates on every
simulated run of the real code (`harness/c07.py`; a violated contract is reported by name).  The contracts are hypotheses
here — hence `_partial`; the theorems that discharge them for the host model belong to other properties
(K1: C09 · K2/K6: C08 · K3: C10/C13 · K4: C03/C11/C12 · K5: C04/C06 · K7: the link assumption of the property itself).

Numbers (350/575/800 ms announcements, 125/250 ms goodbyes, 100 ms link delay, 20–120 ms + 1 s/5 s/14 s start-up
queries, 999 ms duplicate-question window, answers within 1.2 s, settle = 16 s) are those of the English property and
DESIGN §7; `C07_constants` shows today's source constants give exactly these. -/
namespace Zc
open Zc.Link

/-- the settling time: fourth start-up query at ≤ 14.12 s, + 0.1 s to the responder, + 1.2 s to answer, + 0.1 s back -/
def C07_settle : Int := 16000

/-- today's source constants give the timing parameters of the English property -/
theorem C07_constants : Cfg.gen = Cfg.paper := GenFacts.Link.cfg_gen_eq

/-- the seven contracts (K7 = the link assumption) and well-formedness of the observed trace, at the parameters of the
property.  `endT` is the end of the observation window: obligations whose deadline lies beyond it are not demanded. -/
structure C07_Contracts (tr : Trace) (endT : Int) : Prop where
  wf : WF Cfg.paper tr endT = true
  k1 : K1 Cfg.paper tr endT = true
  k2 : K2 Cfg.paper tr endT = true
  k3 : K3 Cfg.paper tr endT = true
  k4 : K4 Cfg.paper tr endT = true
  k5 : K5 Cfg.paper tr endT = true
  k6 : K6 Cfg.paper tr = true
  k7 : K7 Cfg.paper tr endT = true
  /-- refresh (C10): a held PTR is re-queried around 75 % and 85 % of its TTL (or, by a browser that starts when the record
  is already older, in its third and fourth start-up questions) -/
  k3b : K3b Cfg.paper tr endT = true

/-- The property, parametrised by what is known about a run: for every observation window `[0, endT]` of a run described by
`runs`, ending at least `settle` after the last API call, every browser on a host that was not closed reports exactly the
registered instances of its type.  (Every prefix of a run is a run, so this is "at every `t ≥ lastChange + settle`".)

Full strength is `C07_convergence (fun tr endT => tr is a trace of hosts running the library on a link obeying K7)`;
that needs the composed `Host` model of DESIGN §4.7, which this tree does not have. -/
def C07_convergence (runs : Trace → Int → Prop) : Prop :=
  ∀ (tr : Trace) (endT : Int), runs tr endT → lastChange tr + C07_settle ≤ endT →
    ∀ (tb : Int) (b : Br), (tb, b) ∈ browses tr → neverClosed tr b.host = true →
      ∀ s : Link.Svc, live tr b s = (registered Cfg.paper tr s && s.ty == b.ty)

/-- **C07 (partial: the single-host contracts K1–K6 are hypotheses, monitored on every simulated run).**
Convergence for every trace that satisfies the contracts and the link assumption K7.  Case analysis per (service, browser):
withdrawn ⇒ one of the 2nd/3rd goodbyes arrives after every PTR with TTL > 0; registered ⇒ the browser's host sees the 2nd
or 3rd announcement, or came up later and then the browser's 3rd and 4th start-up query opportunities each elicit a
delivered answer (directly, or through the heard question that suppressed them) — one loss kills at most one.

**Stability over long horizons.**  `held` is "the last PTR processed was positive"; what a browser reports follows the cache
*including expiry* (`K5`: `heldFresh → live → heldGrace`).  That the PTR of a registered instance never expires on a browsing host
(`KF`) is no longer a hypothesis: it is derived (`unexpired_of_refresh`, `C07_fresh`) from the refresh contract `k3b` with K4 and
K7 by the argument of `query_chain` — two exchanges at least 5 s apart (≥ 112 s in the 75 % / 85 % case), one loss.  Since `endT`
is arbitrary, convergence holds at every later instant while nothing changes.  Still `_partial` because K1–K6 and K3b are
hypotheses about the hosts (monitored on every simulated run), not theorems about a composed host model. -/
theorem C07_convergence_partial : C07_convergence C07_Contracts := by
  intro tr endT hc hsettle tb b hb hopen s
  have hwf := wf_of hc.wf
  unfold C07_settle at hsettle
  by_cases hty : s.ty = b.ty
  · have hty' : (s.ty == b.ty) = true := by simpa using hty
    rw [hty', Bool.and_true]
    cases hreg : registered Cfg.paper tr s with
    | true =>
      obtain ⟨β, t1, hA⟩ := announced_of_registered hwf hc.k1 hc.k2 hc.k7 hsettle hreg
      have hh := held_of_announced hwf hc.k3 hc.k4 hc.k7 hsettle hA hb hopen hty
      have hu := unexpired_of_refresh hwf hc.k3 hc.k3b hc.k4 hc.k7 hsettle hA hb hopen hty
      exact live_of_heldFresh hwf.le_end hc.k5 hb hopen (by unfold heldFresh; rw [hh, hu]; rfl) hty
    | false =>
      exact not_live_of_not_held hwf.le_end hc.k5 hb hopen
        (Or.inl (not_held_of_unregistered hwf hc.k2 hc.k6 hc.k7 hsettle hopen hreg))
  · have hty' : (s.ty == b.ty) = false := by simpa using hty
    rw [hty', Bool.and_false]
    exact not_live_of_not_held hwf.le_end hc.k5 hb hopen (Or.inr hty)

/-- **Freshness (the monitor `KF` can never fail when the contracts hold).**  On every never-closed browsing host the last PTR
of every registered instance of the browsed type is unexpired at the end of any window ≥ lastChange + settle: derived from K3b
(refresh questions), K4 (they are answered), K7 (one loss) and the announcement argument — not assumed. -/
theorem C07_fresh (tr : Trace) (endT : Int) (hc : C07_Contracts tr endT) (hsettle : lastChange tr + C07_settle ≤ endT) :
    KF Cfg.paper tr endT = true := by
  have hwf := wf_of hc.wf
  unfold C07_settle at hsettle
  unfold KF
  rw [List.all_eq_true]
  rintro ⟨tb, b⟩ hb
  cases hopen : neverClosed tr b.host with
  | false => rfl
  | true =>
    simp only [Bool.not_true, Bool.false_or, List.all_eq_true]
    intro s _
    cases hcond : (s.ty == b.ty && registered Cfg.paper tr s) with
    | false => rfl
    | true =>
      simp only [Bool.not_true, Bool.false_or]
      simp only [Bool.and_eq_true, beq_iff_eq] at hcond
      obtain ⟨β, t1, hA⟩ := announced_of_registered hwf hc.k1 hc.k2 hc.k7 hsettle hcond.2
      exact unexpired_of_refresh hwf hc.k3 hc.k3b hc.k4 hc.k7 hsettle hA hb hopen hcond.1

/-- **Removed direction, for every host** (no browser needed; uses only K2, K6, K7): after the settling time no host that
stays up still holds a PTR of a service that is not registered — no resurrection (D5/D6 are violations of K6). -/
theorem C07_withdrawn_not_held_partial (tr : Trace) (endT : Int) (hc : C07_Contracts tr endT)
    (hsettle : lastChange tr + C07_settle ≤ endT) (h : Nat) (hopen : neverClosed tr h = true) (s : Link.Svc)
    (hreg : registered Cfg.paper tr s = false) : held tr h s = false :=
  not_held_of_unregistered (wf_of hc.wf) hc.k2 hc.k6 hc.k7 hsettle hopen hreg

/-- **Added direction at the cache level**: a registered service is held by every browsing host of its type that stays up -/
theorem C07_registered_held_partial (tr : Trace) (endT : Int) (hc : C07_Contracts tr endT)
    (hsettle : lastChange tr + C07_settle ≤ endT) (tb : Int) (b : Br) (hb : (tb, b) ∈ browses tr)
    (hopen : neverClosed tr b.host = true) (s : Link.Svc) (hty : s.ty = b.ty) (hreg : registered Cfg.paper tr s = true) :
    held tr b.host s = true := by
  have hwf := wf_of hc.wf
  obtain ⟨β, t1, hA⟩ := announced_of_registered hwf hc.k1 hc.k2 hc.k7 hsettle hreg
  exact held_of_announced hwf hc.k3 hc.k4 hc.k7 hsettle hA hb hopen hty

/-- **Lookup from Added (partial: the contracts are hypotheses; the resolution itself — `async_request` answering from the
cache — is C18's and is checked here by the harness oracle only).**  When `Added(b, s)` fires, the browser's host has already
processed a datagram carrying PTR(`s`) together with SRV, TXT and an address of the target, so the records a lookup needs
were in one processed datagram (K5: the cache is filled before the callback).  Uses K7 (deliveries are of sent datagrams),
`K6full` (every positive PTR a host sends is complete) and `K5added` (Added is caused by a processed positive PTR); both are outside
`C07_Contracts` and monitored as `K6f`, `K5a`.  The harness oracle accepts the port / TXT / host of any version advertised up to the end of
the lookup (after an `update` caches converge, not instantaneously) and any address set between the service's own and the host name's. -/
theorem C07_lookup_partial (tr : Trace) (endT : Int) (h7 : K7 Cfg.paper tr endT = true) (h6 : K6full tr = true)
    (h5 : K5added tr = true) (t : Int) (b : Br) (s : Link.Svc) (ha : (⟨t, .added b s⟩ : TEv) ∈ tr) :
    ∃ e ∈ dlvs tr, e.h = b.host ∧ e.t ≤ t ∧ posFull s e.items = true :=
  added_complete h7 h6 h5 ha

/-- **One lost datagram kills at most one opportunity**: two deliveries that K7 owes and that did not happen are deliveries of the
same datagram (same send, hence same send time) — whether it was lost for one receiver or for all of them -/
theorem C07_single_loss (tr : Trace) (endT : Int) (h7 : K7 Cfg.paper tr endT = true) (o1 o2 : Obl)
    (h1 : o1 ∈ missing Cfg.paper tr endT) (h2 : o2 ∈ missing Cfg.paper tr endT) : o1.d = o2.d ∧ o1.t = o2.t :=
  k7b_same h7 h1 h2

/-- the same statements hold with the parameters computed from the source (what the driver evaluates) -/
theorem C07_convergence_gen (tr : Trace) (endT : Int)
    (hc : WF Cfg.gen tr endT = true ∧ K1 Cfg.gen tr endT = true ∧ K2 Cfg.gen tr endT = true ∧ K3 Cfg.gen tr endT = true
      ∧ K4 Cfg.gen tr endT = true ∧ K5 Cfg.gen tr endT = true ∧ K6 Cfg.gen tr = true ∧ K7 Cfg.gen tr endT = true
      ∧ K3b Cfg.gen tr endT = true)
    (hsettle : lastChange tr + C07_settle ≤ endT) (tb : Int) (b : Br) (hb : (tb, b) ∈ browses tr)
    (hopen : neverClosed tr b.host = true) (s : Link.Svc) :
    convergedFor Cfg.gen tr b s = true := by
  rw [C07_constants] at hc ⊢
  obtain ⟨h0, h1, h2, h3, h4, h5, h6, h7, h8⟩ := hc
  have := C07_convergence_partial tr endT ⟨h0, h1, h2, h3, h4, h5, h6, h7, h8⟩ hsettle tb b hb hopen s
  unfold convergedFor
  rw [this]
  simp

/-! ### discharging contracts from the host models

`Zc.Bridge` projects the timed runs of a host model to link events.  A contract that is proved for the projection of *every*
run of a model is no longer a hypothesis about the hosts: it is replaced by "this host's part of the trace is the projection of
a run of the model" (`GeneratedK6`) — the residual assumption is that the model describes the code, which is what the model's
own property (here C08) checks by correspondence. -/

/-- **K6 from C08's host machine** (`Zc.Goodbye.Host`: registry, both multicast queues, broadcast tasks, close sequence, after the
D5/D6 repairs).  For every timed run from the initial state under the API discipline (`Disc`, `Spaced`), on the projected link
trace a PTR with TTL > 0 is only sent ≥ 350 ms after the `reg` of its service and with no `unreg` since. -/
theorem C07_K6_from_C08 (lower : String → String) (N : Bridge.Naming) (hty : Function.Injective N.tyId)
    (hsv : Function.Injective N.svcId) (steps : List Bridge.Step) (T0 : Int)
    (hrun : Bridge.IsRun lower Goodbye.Host.init T0 steps) (hd : ∀ st ∈ steps, Bridge.Disc lower st)
    (hsp : Bridge.Spaced lower N [] steps) : K6 Cfg.paper (Bridge.events lower N steps) = true :=
  Bridge.K6_of_run lower N hty hsv steps T0 hrun hd hsp

/-- **K2, liveness half, from C08's host machine — under the event-loop axiom** (partial).  `Zc.Goodbye.Host.run` accepts every
list of enabled blocks, so "three goodbyes are sent" does not follow from the machine alone: a run in which a pending task step
never happens is a run.  With the liveness half of the loop axiom made explicit (`Bridge.Fair`: a broadcast task / close sequence
pending after a step and due within the window is executed by a later step, at its due time) and the instance not yet closed
(`Bridge.Open`), every `unreg` at `t` on the projected trace is followed by multicast goodbyes for that service at `t`, `t+125`,
`t+250`: `C08_goodbyes` / `C08_goodbyes_all` executed step by step.  Missing for all of K2: the safety half `K2s` (a TTL-0 PTR
is *only* sent within 250 ms of an `unreg`), which needs an invariant the C08 proofs do not have (every queued / live record has
a non-zero TTL, i.e. services are registered with `other_ttl > 0`). -/
theorem C07_K2l_from_C08_partial (lower : String → String) (N : Bridge.Naming) (steps : List Bridge.Step) (T0 endT : Int)
    (hrun : Bridge.IsRun lower Goodbye.Host.init T0 steps) (hd : ∀ st ∈ steps, Bridge.Disc lower st)
    (hfair : Bridge.Fair steps endT) (hopen : Bridge.Open steps) :
    K2l Cfg.paper (Bridge.events lower N steps) endT = true :=
  Bridge.K2l_of_run lower N steps T0 endT hrun hd hfair hopen

/-- **K2, safety half, from C08's host machine.**  On the projected trace of every disciplined timed run a PTR with TTL 0 is sent
only within 250 ms after an `unreg` of its service.  The invariant (`Bridge.Inv2`) is the one C08's own theorems do not need: every
record in the registry, the queues and the announcing tasks has a non-zero TTL (`Disc2`: services are registered with
`other_ttl, host_ttl > 0`), and every goodbye task / close sequence descends from a step that took the service out of the
registry (`Disc2`: `unregister` is called on registered names). -/
theorem C07_K2s_from_C08 (lower : String → String) (N : Bridge.Naming) (hsv : Function.Injective N.svcId)
    (steps : List Bridge.Step) (T0 : Int) (hrun : Bridge.IsRun lower Goodbye.Host.init T0 steps)
    (hd : ∀ st ∈ steps, Bridge.Disc lower st ∧ Bridge.Disc2 lower st) :
    K2s Cfg.paper (Bridge.events lower N steps) = true :=
  Bridge.K2s_of_run lower N hsv steps T0 hrun hd

/-- **K1 from the C08/C09 host machine — under the event-loop axiom** (partial).  The `register` / `update` blocks of
`Zc.Goodbye.Host` spawn C09's `announceTask`; `C09_announce_*` say what one task step emits.  As for K2l, "three announcements are
sent" is a liveness statement that the block machine does not make, so the event-loop axiom `Bridge.Fair` (a pending task due
within the window is executed by a later step at its due time) and `Bridge.Open` are hypotheses.  The rest is proved: the registry
entry of the service persists, under its info object, from the `register` / `update` step to each of the three task steps
(`Bridge.Ent_along`: a step that removes or replaces it would be an `unreg` / `upd` event inside the window, which K1 excludes), so
`registeredAs` holds when the task runs and the step emits `broadcastPkt s none true`, whose projection is exactly one PTR with
TTL `other_ttl > 0` accompanied by SRV, TXT and an address (`Bridge.posFull_broadcast`).  API-discipline hypotheses, each a fact
about how the calls are made and not about the responder: `Disc` (update with the registered type), `Disc2` (`other_ttl`,
`host_ttl > 0`), `Disc3` (at least one address — **clause of K1 that does not follow otherwise**: a service registered without
addresses is announced with PTR, SRV, TXT and an NSEC record only, which the link model does not count as a complete
announcement), `DistinctCalls` (two calls for one service do not share an instant — the link model's `WF`), injective instance
numbering. -/
theorem C07_K1_from_C09_partial (lower : String → String) (N : Bridge.Naming) (hsv : Function.Injective N.svcId)
    (steps : List Bridge.Step) (T0 endT : Int) (hrun : Bridge.IsRun lower Goodbye.Host.init T0 steps)
    (hd : ∀ st ∈ steps, Bridge.Disc lower st ∧ Bridge.Disc2 lower st ∧ Bridge.Disc3 st)
    (hfair : Bridge.Fair steps endT) (hopen : Bridge.Open steps) (hdist : Bridge.DistinctCalls lower N steps) :
    K1 Cfg.paper (Bridge.events lower N steps) endT = true :=
  Bridge.K1_of_run lower N hsv steps T0 endT hrun hd hfair hopen hdist

/-- **K3 from C10's two-container scheduler model** (`Zc.Sched2`, through `C10_startup2`).  The scheduler model says when the
scheduler asks for which types; what that puts on the wire (known answers from the cache, the question left out because the host
asked or heard it less than a second ago) is C13's `generate_service_query` + question history, which enters as the mapping
`Bridge.WireAsk` from a scheduler send to "the question is on the wire or was suppressed by one that is".  Liveness needs no extra
axiom here: C10's `exec2` accepts only histories in which no due timer is passed, so "the history goes beyond the end of the window"
(`BrowserRun.ex`: `endT < lastTime`) forces the four start-up passes to have run. -/
theorem C07_K3_from_C10 (tr : Trace) (endT : Int)
    (hb : ∀ x ∈ browses tr, neverClosed tr x.2.host = true → Bridge.BrowserRun tr endT x.1 x.2) :
    K3 Cfg.paper tr endT = true :=
  Bridge.K3_of_browsers tr endT hb

/-- **K3b from C10's model — every branch of the contract, record by record** (partial: K3b stays a monitored hypothesis of
`C07_convergence_from_models_partial` because the last step — that the scheduler history of every browser is the projection of the
PTRs its host processes, block by block — is not assembled into the monitor yet; what is proved is each window).

*Early branch* of `refreshWindow` (the browser had finished its start-up phase 10 s before the record's 75 % point).  For **any**
pointer update of a started browser — a record new to the scheduler or a refresh, the schedule kept ("avoid churn") or replaced —
`Bridge.refresh_two_sends_any` gives the 75 % query in `[t + 75 % − 10 s, t + 75 % + 20 s]` and the 85 % query 10 % of the TTL after
it, at most 10 s late, hence in `[t + 85 % − 10 s, t + 85 % + 30 s]`: `reschedule_entry` (the one live entry of the instance is
within `minDelay` of the new 75 % point, on either side) composed with `chain_core` / `chain_pre`.  With C13's mapping for a stale
record (`Bridge.WireAskWithout`) these are K3b's two refresh opportunities (`Bridge.K3b_windows_of_sends`).  This closes the residual
clauses (i) — **the contract was too tight: 85 % + 30 s, not + 25 s; `refreshWin` is 30 s now, in the Lean and the Python monitor, and
`unexpired_of_refresh` closes with it** — and (iii): the type asked on a kept schedule is the type under which the instance was first
scheduled, and `Bridge.nameOK_exec` shows it is the record's type whenever every pointer record of the instance in the history names
one type (`Bridge.OneName`, a property of the history: instance names determine their type).  A record handed to the scheduler
before `start` (warm cache) is `Bridge.refresh_two_sends_before_start`. -/
theorem C07_K3b_from_C10_partial (tr : Trace) (b : Br) (s : Link.Svc) (types : List String) (tS : Int)
    (pre0 : List (Int × Sched.Op)) (tb : Int) (d : Nat) (pre : List (Int × Sched.Op)) (t : Int) (a n : String) (ttl : Nat)
    (evsA : List (Int × Sched.Op)) (tn : Int) (opn : Sched.Op) (rest : List (Int × Sched.Op)) (s' : Sched2.S2)
    (outs : List Sched.Send)
    (hidle : C10.IdleOps pre0) (hpre : C10.Active pre) (hact : C10.Active evsA) (hun : C10.Untouched a evsA)
    (hname : Bridge.OneName a n (pre0 ++ pre)) (hd : d ≤ 120)
    (httl : 1125 ≤ ttl) (htb : tb + 120 + 14000 + 10000 ≤ t + 750 * ttl)
    (hbeyond : t + 850 * ttl + 30000 < tn)
    (hex : Sched2.exec2 (C10.browserCfg types 10000 none) {} tS
      (pre0 ++ (tb, .start d) :: (pre ++ (t, .ptr a n ttl t) :: (evsA ++ (tn, opn) :: rest))) = .ok (s', outs))
    (hwire : ∀ o ∈ outs, n ∈ o.types → t + 750 * ttl - 10000 ≤ o.t → Bridge.WireAskWithout tr b s o) :
    refreshOpp tr b.host b.ty s (refreshWindow Cfg.paper t ttl tb false).1 (refreshWindow Cfg.paper t ttl tb false).2 = true
    ∧ refreshOpp tr b.host b.ty s (refreshWindow Cfg.paper t ttl tb true).1 (refreshWindow Cfg.paper t ttl tb true).2 = true := by
  apply Bridge.K3b_windows_of_sends tr b s n outs tb t ttl htb _ hwire
  have := Bridge.refresh_two_sends_any types 10000 tS pre0 tb d pre t a n ttl t evsA tn opn rest s' outs hidle hpre hact hun hname
    (by omega) (by omega) (by omega) (by omega) hex
  simpa using this

/-- **K3b, start-up branch** of `refreshWindow`: the browser started after the record's 75 % point (residual clause (iv)) or less
than a start-up phase plus 10 s before it (residual clause (ii): the scheduler serves no refresh during the start-up phase — C10's
chain theorems exclude this case, `hlate` — so the contract now asks what the code does there).  Its third and fourth start-up
questions (K3: `C10_startup2`, no liveness axiom: the history goes beyond `tb + 14.12 s`) are on the wire without listing the record,
which is past half its life by then (C13: `Bridge.WireAskWithout`). -/
theorem C07_K3b_startup_from_C10 (tr : Trace) (b : Br) (s : Link.Svc) (types : List String) (n : String) (hn : n ∈ types)
    (tS : Int) (pre0 : List (Int × Sched.Op)) (tb : Int) (d : Nat) (evs : List (Int × Sched.Op)) (s' : Sched2.S2)
    (outs : List Sched.Send) (t : Int) (ttl : Int) (hidle : C10.IdleOps pre0) (hact : C10.Active evs)
    (hex : Sched2.exec2 (C10.browserCfg types 10000 none) {} tS (pre0 ++ (tb, .start d) :: evs) = .ok (s', outs))
    (hlast : tb + 120 + 14000 < Sched.lastTime tb evs) (hlate : ¬ tb + 120 + 14000 + 10000 ≤ t + 750 * ttl)
    (hwire : ∀ o ∈ outs, n ∈ o.types → tb + 5000 ≤ o.t → Bridge.WireAskWithout tr b s o) :
    refreshOpp tr b.host b.ty s (refreshWindow Cfg.paper t ttl tb false).1 (refreshWindow Cfg.paper t ttl tb false).2 = true
    ∧ refreshOpp tr b.host b.ty s (refreshWindow Cfg.paper t ttl tb true).1 (refreshWindow Cfg.paper t ttl tb true).2 = true :=
  Bridge.K3b_windows_startup tr b s types n hn 10000 tS pre0 tb d evs s' outs t ttl hidle hact hex hlast hlate hwire

/-- a refreshed record whose schedule is kept: the browser (started at 1 s, start-up passes at 1050 / 2050 / 6050 / 15050 ms, first
running pass at 25 050 ms) learns `a._x._tcp.local.` at 30 s (TTL 1125 s: 75 % point 873 750 ms) and sees it refreshed at 35 s (new
75 % point 878 750 ms, within 10 s of the schedule: kept).  The 75 % query goes out at 873 750 ms — 5 s *before* the refreshed
record's 75 % point — and the 85 % query 112.5 s later. -/
def C07_keptHistory : List (Int × Sched.Op) :=
  [(1000, .start 50), (1050, .fire false), (2050, .fire false), (6050, .fire false), (15050, .fire false), (25050, .fire false),
   (30000, .ptr "a._x._tcp.local." "_x._tcp.local." 1125 30000), (35000, .ptr "a._x._tcp.local." "_x._tcp.local." 1125 35000),
   (35050, .fire false), (873750, .fire false), (986250, .fire false), (1098750, .fire false)]

example : (Sched2.exec2 (C10.browserCfg ["_x._tcp.local."] 10000 none) {} 0 C07_keptHistory).toOption.map (fun r => r.2.map (·.t)) =
    some [1050, 2050, 6050, 15050, 873750, 986250, 1098750] := by decide

/-- … and `Bridge.refresh_two_sends_any` applies to it (non-vacuity of its hypotheses, `OneName` included): the record refreshed at
35 s is asked for in `[35 s + 75 % − 10 s, … + 20 s]` and again 10 % of the TTL later -/
example : ∃ s' outs, Sched2.exec2 (C10.browserCfg ["_x._tcp.local."] 10000 none) {} 0 C07_keptHistory = .ok (s', outs) ∧
    ∃ o1 ∈ outs, (35000 : Int) + 750 * (1125 : Nat) - (10000 : Nat) ≤ o1.t ∧ o1.t ≤ 35000 + 750 * (1125 : Nat) + 2 * (10000 : Nat) ∧
      "_x._tcp.local." ∈ o1.types ∧
      ∃ o2 ∈ outs, o1.t + 100 * (1125 : Nat) ≤ o2.t ∧ o2.t ≤ o1.t + 100 * (1125 : Nat) + (10000 : Nat) ∧ "_x._tcp.local." ∈ o2.types := by
  have hok : (Sched2.exec2 (C10.browserCfg ["_x._tcp.local."] 10000 none) {} 0 C07_keptHistory).toBool = true := by decide
  cases hx : Sched2.exec2 (C10.browserCfg ["_x._tcp.local."] 10000 none) {} 0 C07_keptHistory with
  | error e => rw [hx] at hok; cases hok
  | ok r =>
    obtain ⟨s', outs⟩ := r
    refine ⟨s', outs, rfl, ?_⟩
    refine Bridge.refresh_two_sends_any ["_x._tcp.local."] 10000 0 [] 1000 50
      [(1050, .fire false), (2050, .fire false), (6050, .fire false), (15050, .fire false), (25050, .fire false),
       (30000, .ptr "a._x._tcp.local." "_x._tcp.local." 1125 30000)] 35000 "a._x._tcp.local." "_x._tcp.local." 1125 35000
      [(35050, .fire false), (873750, .fire false), (986250, .fire false)] 1098750 (.fire false) [] s' outs
      (by intro e he; cases he) (by unfold C10.Active; decide) (by unfold C10.Active; decide) (by unfold C10.Untouched; decide) ?_
      (by decide) (by decide) (by decide) (by decide) hx
    intro e he a' n' ttl cr hop _
    simp only [List.nil_append, List.mem_cons, List.not_mem_nil, or_false] at he
    rcases he with rfl | rfl | rfl | rfl | rfl | rfl <;> cases hop
    rfl

/-- **K5 from the C04 / C05 / C06 models.**  `C04_live_eq_cache` (for every history — datagrams and purges before the browser
exists, its creation with purge and replay, any datagrams and purges after — "reported Added and not since Removed" = "the cache
holds the pointer record") composed with `Bridge.cache_track`, which folds C05's per-datagram `PostState` and `C05_purge_exact`
along the history into a closed form for "the cache holds the pointer record" (`Bridge.track`: set by the last datagram with a live
copy, cleared by a goodbye copy and by a purge at or after created + 1000·TTL; `Bridge.live_eq_track`).  The projection
(`Bridge.CacheRun`) identifies the browser's Added / Removed events in the link trace with the callbacks of the run, instant by
instant, and states C05/C06's expiry semantics in link terms: `heldFresh ⇒ track runs ⇒ heldGrace` (the second arrow is where
the periodic purge — at most one cleanup period after the expiry — enters; K5's "one cleanup period of grace").  Hypotheses on
the datagrams: `WFHistory` (C04's quantifier) and no cache-flush record on a browsed type name (`NoFlush`; pointer records are
shared records). -/
theorem C07_K5_from_C04 (tr : Trace) (endT : Int) (hruns : ∀ x ∈ browses tr, Bridge.CacheRun tr endT x.1 x.2) :
    K5 Cfg.paper tr endT = true :=
  Bridge.K5_of_cacheRuns tr endT hruns

/-- **the `cache` clause of `Bridge.CacheRun` from finer hypotheses** (`Bridge.CacheRunFine`): the PTRs the link trace shows the
host processing are, instant by instant, the datagrams of the history that carry a copy of the pointer record (`Bridge.scan`); at
most one copy per datagram; the history is sorted in time; and **the periodic purge runs** — after any instant `x ≥ tb` there is a
purge within one cleanup period.  The last one is the liveness K5's grace clause needs and the cache model does not state (a
history without purges is a history of the model); the purge at the browser's creation covers expiries before it. -/
theorem C07_K5_cache_clause (tr : Trace) (endT : Int) (hle : ∀ e ∈ tr, e.t ≤ endT) (tb : Int) (b : Br)
    (h : Bridge.CacheRunFine tr endT tb b) : Bridge.CacheRun tr endT tb b :=
  Bridge.CacheRun_of_fine tr endT hle tb b h

/-- `Bridge.track` / `Bridge.scan` at work: a pointer record with TTL 120 s (stored with the 1125 s floor) learned at 1 s is held;
a purge after its expiry, or a goodbye, ends its life; a purge before the expiry does not -/
example :
    let p : Rec := ⟨"_x._tcp.local.", 12, 1, false, 120, 0, .ptr "a._x._tcp.local."⟩
    Bridge.track id p [.datagram 1000 [p]] = some (1000, 1125)
    ∧ Bridge.track id p [.datagram 1000 [p], .purge 1125999] = some (1000, 1125)
    ∧ Bridge.track id p [.datagram 1000 [p], .purge 1126000] = none
    ∧ Bridge.track id p [.datagram 1000 [p], .datagram 3000 [{ p with ttl := 0 }]] = none
    ∧ Bridge.scan id p [.datagram 1000 [p], .purge 1126000] = some (120, 1000, true)
    ∧ Bridge.scan id p [.datagram 1000 [p], .datagram 3000 [{ p with ttl := 0 }]] = some (0, 3000, false) := by decide

/-- **K4 from C03 + C11 + C12** (partial: histories without truncated queries; liveness as in C12 — an accepted history, i.e. one that
satisfies the event-loop facts `Reply.LoopAx`, that goes beyond the window).  If every host's responder, as the link trace shows it,
is the projection of an accepted history of the C11/C12 reply model `Zc.Reply.Host` extended with the D5 purge of the outgoing queues
(`Bridge.KRun`: `async_unregister_service` strikes the withdrawn records from both queues — a block the reply model does not have,
without which a real run with an unregister is not a run of the model), and the candidates of every query are what C03's
`strategiesFor` / `Strategy.answer` yield on a state of C03's registry model (`Bridge.FromRegistry`), then K4's monitor holds on the
trace.  Proved, not assumed: the duplicate guard (a datagram it drops follows a *processed* datagram with the same bytes and no QU
question less than a second earlier, whose answer — a multicast — lies in `[a − 1000, a + 1200]`: `KRun.dup_source`); C03's
completeness for a pointer question and that the pointer travels with SRV, TXT and an address (`pointer_offered`,
`strategy_ptrFull`, every registered service having an address); C11's routing (`query_routes`: multicast, or unicast to the asker
of a QU question from port 5353); C12's windows with liveness (`KRun.fresh_answered`: at once, by `a + 500` from the aggregation
queue, by `a + 1200` from the protected queue — the history going beyond `a + 1200` forces the timer blocks); that the purges of
other services' records spare the answer (`KRun.live`).  The projection glue that remains is `Bridge.ResponderRun`, clause by
clause (see `Proofs/LinkBridgeK4.lean`): `rx`, `isQuery`, `query` + `item`, `outs`, `purge`, `NoTC`, `PurgeKeeps`, `covers`.
**Not covered**: queries spread over several datagrams (TC bit) — the link item `query ty known qu` describes one packet, and the
held query is answered up to 500 ms later, outside K4's window. -/
theorem C07_K4_from_C03_C11_C12_partial (lower : String → String) (tr : Trace) (endT : Int)
    (hR : Bridge.Responders lower tr endT) : K4 Cfg.paper tr endT = true :=
  Bridge.K4_of_responders lower tr endT hR

/-- the contracts that are still hypotheses once K1, K2, K6 (C08/C09 host machine), K3 (C10 scheduler), K4 (C03 answer computation,
C11/C12 reply model) and K5 (C04 browser over the C05/C06 cache) are discharged -/
structure C07_ContractsFromModels (lower : String → String) (tr : Trace) (endT : Int) : Prop where
  wf : WF Cfg.paper tr endT = true
  k7 : K7 Cfg.paper tr endT = true
  k3b : K3b Cfg.paper tr endT = true
  /-- instead of K1, K2 and K6: every host's sends — instant, items and destination — and `reg` / `upd` / `unreg` events are those of a
  disciplined, fair run of the C08/C09 host machine that is not closed before the end of the window (`Bridge.HostRun`).  The
  projection carries the route of every block (`Bridge.dstOf`: announcements, goodbyes, the close sequence and the queues' batches
  are sent with `async_send(out)` alone, to the multicast group — generated leaves `Zc.Gen.Link`), so "what a broadcast task sends
  is multicast" and "goodbyes are multicast" are theorems (`Bridge.AnnAt_mcast_tr`, `Bridge.byeMulticast_of_generated`). -/
  hosts : Bridge.Hosts lower tr endT
  /-- instead of K3: every browser on a never-closed host is a history of C10's scheduler that goes beyond the window, its queries
  on the wire as C13 describes (`Bridge.WireAsk`) -/
  browsers : ∀ x ∈ browses tr, neverClosed tr x.2.host = true → Bridge.BrowserRun tr endT x.1 x.2
  /-- instead of K4: every host's responder is an accepted history of the C11/C12 reply model with the D5 purge, its candidates
  computed by C03's answer computation on a state of C03's registry model (`Bridge.ResponderRun`) -/
  responders : Bridge.Responders lower tr endT
  /-- instead of K5: every browser with the cache of its host is a run of the C04 model over the C05/C06 cache -/
  caches : ∀ x ∈ browses tr, Bridge.CacheRun tr endT x.1 x.2

/-- **C07 with K1, K2, K3, K4, K5 and K6 discharged** (partial: WF, K3b, K7 remain monitored hypotheses; K5 is a theorem
about the C04 browser model over the C05/C06 cache; K1, K2 and K6 are theorems about the C08/C09 host machine — K1 and K2's liveness
half under the event-loop axiom `Fair`, which the block machines do not state; K3 is a theorem about C10's scheduler model, C13's
question generation entering as the mapping `WireAsk`; K4 is a theorem about the C11/C12 reply model with the D5 purge, fed by
C03's answer computation, for histories without truncated queries). -/
theorem C07_convergence_from_models_partial (lower : String → String) :
    C07_convergence (C07_ContractsFromModels lower) := by
  intro tr endT hc
  have hg := Bridge.Hosts_Generated lower tr endT hc.hosts
  exact C07_convergence_partial tr endT
    ⟨hc.wf, Bridge.K1_of_hosts lower tr endT hc.hosts, Bridge.K2_of_generated lower tr endT hg,
     Bridge.K3_of_browsers tr endT hc.browsers, Bridge.K4_of_responders lower tr endT hc.responders,
     Bridge.K5_of_cacheRuns tr endT hc.caches,
     Bridge.K6_of_generated lower tr (Bridge.Generated_K6 lower tr endT hg), hc.k7, hc.k3b⟩

/-- non-vacuity of the bridge: C08's example history (register, three announcements, a pointer answer queued in the protected
queue, unregister 30 ms later, three goodbyes, the queue timer) is a timed run; its projection has a `reg` at 0, an `unreg`
at 1130, three sends with the pointer at TTL 4500 and three at TTL 0, and K6 evaluates to true on it -/
def C07_bridgeExample : Option (List Bridge.Step) :=
  let s : Register.Svc :=
    { type := "_http._tcp.local.", name := "svc._http._tcp.local.", server := "host.local.", port := 80, weight := 0, priority := 0,
      text := [], v4 := [[10, 0, 0, 1]], v6 := [], hostTtl := 120, otherTtl := 4500 }
  Bridge.mkRun id Goodbye.Host.init 0
    [(350, .register s 1 350), (350, .task 1 none true 350), (575, .task 1 none true 575), (800, .task 1 none true 800),
     (1100, .enqueue true 1100 60 [(s.ptr none, [s.srv none, s.txt none] ++ s.addrNsec none)]),
     (1130, .unregister s 1 1130), (1130, .task 1 (some 0) true 1130), (1255, .task 1 (some 0) true 1255),
     (1380, .task 1 (some 0) true 1380), (2160, .ready true 2160)]

def C07_bridgeTrace : Option Trace :=
  C07_bridgeExample.map fun steps => Bridge.events id ⟨0, String.length, String.length⟩ steps

example : C07_bridgeTrace.map regs = some [(0, ⟨0, 17, 21⟩)] := by decide
example : C07_bridgeTrace.map unregs = some [(1130, ⟨0, 17, 21⟩)] := by decide
example : C07_bridgeTrace.map (fun tr => (sends tr).map (fun sd =>
      (sd.t, sd.items.map (fun it => match it with | .ptr _ ttl full => (ttl, full) | _ => (0, false))))) =
    some [(350, [(4500, true)]), (575, [(4500, true)]), (800, [(4500, true)]), (1130, [(0, true)]), (1255, [(0, true)]),
          (1380, [(0, true)])] := by decide
example : C07_bridgeTrace.map (K6 Cfg.paper) = some true := by decide
/-- … and the three goodbyes of K2 are there (the example history executes every task step at its due time) -/
example : C07_bridgeTrace.map (fun tr => K2 Cfg.paper tr 3000) = some true := by decide
/-- … and the three announcements of K1 -/
example : C07_bridgeTrace.map (fun tr => K1 Cfg.paper tr 3000) = some true := by decide

/-- … and every datagram of this history — announcements, goodbyes, the queue's batch — goes to the multicast group: the projection
carries the blocks' routes (`Bridge.dstOf`, generated leaves `Zc.Gen.Link`) -/
example : C07_bridgeTrace.map (fun tr => (sends tr).all (fun sd => sd.dst.isNone)) = some true := by decide
/-- the query handler's immediate answer is the one block whose destination is an input -/
example : Bridge.dstOf (.answer []) (some 1) = some 1 ∧ Bridge.dstOf (.task 1 none true 0) (some 1) = none
    ∧ Bridge.dstOf (.ready true 0) (some 1) = none ∧ Bridge.dstOf (.allStep 0) (some 1) = none := by decide

/-- an `update` of a registered service: `upd` at 2000, announcements at 2000 / 2225 / 2450, K1 holds — and fails if the last
announcement is not executed (the run is still a run of the machine: K1 needs `Fair`) -/
def C07_bridgeExampleUpd (last : Bool) : Option (List Bridge.Step) :=
  let s : Register.Svc :=
    { type := "_http._tcp.local.", name := "svc._http._tcp.local.", server := "host.local.", port := 80, weight := 0, priority := 0,
      text := [], v4 := [[10, 0, 0, 1]], v6 := [], hostTtl := 120, otherTtl := 4500 }
  Bridge.mkRun id Goodbye.Host.init 0
    ([(350, .register s 1 350), (350, .task 1 none true 350), (575, .task 1 none true 575), (800, .task 1 none true 800),
      (2000, .update { s with port := 81 } 2 2000), (2000, .task 2 none true 2000), (2225, .task 2 none true 2225)]
     ++ (if last then [(2450, .task 2 none true 2450)] else []))

def C07_bridgeTraceUpd (last : Bool) : Option Trace :=
  (C07_bridgeExampleUpd last).map fun steps => Bridge.events id ⟨0, String.length, String.length⟩ steps

example : (C07_bridgeTraceUpd true).map upds = some [(2000, ⟨0, 17, 21⟩)] := by decide
example : (C07_bridgeTraceUpd true).map (fun tr => K1 Cfg.paper tr 3000) = some true := by decide
example : (C07_bridgeTraceUpd false).map (fun tr => K1 Cfg.paper tr 3000) = some false := by decide

/-! ### non-vacuity: a concrete run satisfies every contract, and the conclusion is not trivial on it

Host 0 comes up, registers `s` (announcements at 350/575/800 ms, looped back to itself), unregisters a second service `u`
at 5 s (goodbyes at 5000/5125/5250), and starts a browser at 1 s which finds `s` in the cache and asks at 1050 (QU), 2050,
6050 and 15050 ms listing what it knows. -/
namespace C07ex
def s : Link.Svc := ⟨0, 0, 0⟩
def u : Link.Svc := ⟨0, 0, 1⟩
def b : Br := ⟨0, 0, 0⟩
def ann (x : Link.Svc) : List Item := [.ptr x 4500 true]
def gb (x : Link.Svc) : List Item := [.ptr x 0 false]
def q (k : List Link.Svc) (qu : Bool) : List Item := [.query 0 k qu]
def tr : Trace :=
  [⟨0, .up 0⟩, ⟨0, .reg s⟩, ⟨10, .reg u⟩,
   ⟨350, .send 0 0 none (ann s)⟩, ⟨350, .dlv 0 0 0 true (ann s)⟩,
   ⟨360, .send 0 1 none (ann u)⟩, ⟨360, .dlv 1 0 0 true (ann u)⟩,
   ⟨575, .send 0 2 none (ann s)⟩, ⟨575, .dlv 2 0 0 true (ann s)⟩,
   ⟨585, .send 0 3 none (ann u)⟩, ⟨600, .dlv 3 0 0 true (ann u)⟩,
   ⟨800, .send 0 4 none (ann s)⟩, ⟨810, .send 0 5 none (ann u)⟩, ⟨900, .dlv 4 0 0 true (ann s)⟩,
   ⟨1000, .browse b⟩, ⟨1000, .added b s⟩, ⟨1000, .added b u⟩,
   ⟨1050, .send 0 6 none (q [s, u] true)⟩, ⟨1060, .dlv 6 0 0 true (q [s, u] true)⟩,
   ⟨2050, .send 0 7 none (q [s, u] false)⟩, ⟨2050, .dlv 7 0 0 true (q [s, u] false)⟩,
   ⟨5000, .unreg u⟩, ⟨5000, .send 0 8 none (gb u)⟩, ⟨5001, .dlv 8 0 0 true (gb u)⟩, ⟨5001, .removed b u⟩,
   ⟨5125, .send 0 9 none (gb u)⟩, ⟨5130, .dlv 9 0 0 true (gb u)⟩,
   ⟨5250, .send 0 10 none (gb u)⟩, ⟨5250, .dlv 10 0 0 true (gb u)⟩,
   ⟨6050, .send 0 11 none (q [s] false)⟩, ⟨6050, .dlv 11 0 0 true (q [s] false)⟩,
   ⟨15050, .send 0 12 none (q [s] false)⟩, ⟨15050, .dlv 12 0 0 true (q [s] false)⟩]

/-- every contract holds on it (the third announcement of `u` is the one lost delivery) -/
theorem contracts : C07_Contracts tr 31000 :=
  ⟨by decide, by decide, by decide, by decide, by decide, by decide, by decide, by decide, by decide⟩

example : K6full tr = true ∧ K5added tr = true := by decide
example : (missing Cfg.paper tr 31000).length = 1 := by decide
example : lastChange tr + C07_settle ≤ 31000 := by decide
/-- … and the conclusion is the non-trivial one: `s` (registered) is reported, `u` (withdrawn) is not -/
example : live tr b s = true ∧ registered Cfg.paper tr s = true ∧ live tr b u = false ∧ registered Cfg.paper tr u = false := by
  decide
example : (1000, b) ∈ browses tr ∧ neverClosed tr b.host = true := by decide
end C07ex

/-! A second run exercises the query path (K3, K4): host 1 comes up at 2 s, after every announcement of `s`, and starts a
browser; its first (QU) question is answered by unicast, the later QM questions list `s`. -/
namespace C07ex2
def s : Link.Svc := ⟨0, 0, 0⟩
def b : Br := ⟨1, 0, 0⟩
def ann : List Item := [.ptr s 4500 true]
def q (k : List Link.Svc) (qu : Bool) : List Item := [.query 0 k qu]
def tr : Trace :=
  [⟨0, .up 0⟩, ⟨0, .reg s⟩,
   ⟨350, .send 0 0 none ann⟩, ⟨350, .dlv 0 0 0 true ann⟩,
   ⟨575, .send 0 1 none ann⟩, ⟨580, .dlv 1 0 0 true ann⟩,
   ⟨800, .send 0 2 none ann⟩, ⟨800, .dlv 2 0 0 true ann⟩,
   ⟨2000, .up 1⟩, ⟨2000, .browse b⟩,
   ⟨2050, .send 1 3 none (q [] true)⟩, ⟨2050, .dlv 3 1 1 true (q [] true)⟩, ⟨2060, .dlv 3 1 0 true (q [] true)⟩,
   ⟨2060, .send 0 4 (some 1) ann⟩, ⟨2070, .dlv 4 0 1 false ann⟩, ⟨2070, .added b s⟩,
   ⟨3050, .send 1 5 none (q [s] false)⟩, ⟨3050, .dlv 5 1 0 true (q [s] false)⟩, ⟨3050, .dlv 5 1 1 true (q [s] false)⟩,
   ⟨7050, .send 1 6 none (q [s] false)⟩, ⟨7050, .dlv 6 1 0 true (q [s] false)⟩, ⟨7100, .dlv 6 1 1 true (q [s] false)⟩,
   ⟨16050, .send 1 7 none (q [s] false)⟩, ⟨16050, .dlv 7 1 0 true (q [s] false)⟩, ⟨16050, .dlv 7 1 1 true (q [s] false)⟩]

theorem contracts : C07_Contracts tr 20000 :=
  ⟨by decide, by decide, by decide, by decide, by decide, by decide, by decide, by decide, by decide⟩

example : lastChange tr + C07_settle ≤ 20000 := by decide
example : upBefore tr b.host (350 + 225) = false := by decide   -- the browser's host missed every announcement
example : live tr b s = true ∧ registered Cfg.paper tr s = true ∧ K6full tr = true ∧ K5added tr = true := by decide

/-- non-vacuity of `Bridge.BrowserRun`: the browser of this run is a history of C10's scheduler — start with the draw 50, the four
start-up passes, and the first running-phase pass at 26 050 ms (beyond the window) — whose four queries are the questions at 2050
(QU), 3050, 7050 and 16050 ms of the trace -/
theorem browserRun : Bridge.BrowserRun tr 20000 2000 b := by
  have h : (Sched2.exec2 (C10.browserCfg ["_x._tcp.local."] 10000 none) {} 0
      ([] ++ (2000, Sched.Op.start 50) :: [(2050, .fire false), (3050, .fire false), (7050, .fire false), (16050, .fire false),
        (26050, .fire false)])).toOption.map (·.2) =
      some [⟨2050, true, some true, ["_x._tcp.local."]⟩, ⟨3050, false, none, ["_x._tcp.local."]⟩,
            ⟨7050, false, none, ["_x._tcp.local."]⟩, ⟨16050, false, none, ["_x._tcp.local."]⟩] := by decide
  cases hx : Sched2.exec2 (C10.browserCfg ["_x._tcp.local."] 10000 none) {} 0
      ([] ++ (2000, Sched.Op.start 50) :: [(2050, .fire false), (3050, .fire false), (7050, .fire false), (16050, .fire false),
        (26050, .fire false)]) with
  | error e => rw [hx] at h; cases h
  | ok r =>
    obtain ⟨s', outs⟩ := r
    rw [hx] at h
    simp only [Except.toOption, Option.map_some, Option.some.injEq] at h
    subst h
    refine ⟨⟨["_x._tcp.local."], "_x._tcp.local.", 10000, 0, [], 50, _, s', _, by decide, ?_, ?_, hx, by decide, ?_⟩⟩
    · intro e he; cases he
    · unfold C10.Active; decide
    · unfold Bridge.WireAsk; decide
end C07ex2

/-! A third run exercises the refresh path (K3b) over a long horizon: the browser on host 1 learns `s` from the announcements
(last one processed at 800 ms, TTL 4500 s).  At 75 % of its life (3 375 800 ms) it asks again without listing `s`; the owner's
answer to host 1 is the one lost delivery, so the record is still un-refreshed 25 s later and K3b's first window is *demanded*
(and met by that question).  At 85 % (3 825 800 ms) it asks again, the answer arrives at 3 825 950 ms.  The window ends at
4 600 000 ms — after the original record would have expired (4 500 800 ms): the instance is still reported. -/
namespace C07ex3
def s : Link.Svc := ⟨0, 0, 0⟩
def b : Br := ⟨1, 0, 0⟩
def ann : List Item := [.ptr s 4500 true]
def q (k : List Link.Svc) (qu : Bool) : List Item := [.query 0 k qu]
def tr : Trace :=
  [⟨0, .up 0⟩, ⟨0, .up 1⟩, ⟨0, .reg s⟩, ⟨100, .browse b⟩,
   ⟨150, .send 1 0 none (q [] true)⟩, ⟨150, .dlv 0 1 1 true (q [] true)⟩, ⟨160, .dlv 0 1 0 true (q [] true)⟩,
   ⟨350, .send 0 1 none ann⟩, ⟨350, .dlv 1 0 0 true ann⟩, ⟨360, .dlv 1 0 1 true ann⟩, ⟨360, .added b s⟩,
   ⟨575, .send 0 2 none ann⟩, ⟨575, .dlv 2 0 0 true ann⟩, ⟨600, .dlv 2 0 1 true ann⟩,
   ⟨800, .send 0 3 none ann⟩, ⟨800, .dlv 3 0 0 true ann⟩, ⟨800, .dlv 3 0 1 true ann⟩,
   ⟨1150, .send 1 4 none (q [s] false)⟩, ⟨1150, .dlv 4 1 0 true (q [s] false)⟩, ⟨1150, .dlv 4 1 1 true (q [s] false)⟩,
   ⟨5150, .send 1 5 none (q [s] false)⟩, ⟨5150, .dlv 5 1 0 true (q [s] false)⟩, ⟨5150, .dlv 5 1 1 true (q [s] false)⟩,
   ⟨14150, .send 1 6 none (q [s] false)⟩, ⟨14150, .dlv 6 1 0 true (q [s] false)⟩, ⟨14150, .dlv 6 1 1 true (q [s] false)⟩,
   ⟨30000, .obs⟩,
   ⟨3375800, .send 1 7 none (q [] false)⟩, ⟨3375800, .dlv 7 1 1 true (q [] false)⟩, ⟨3375850, .dlv 7 1 0 true (q [] false)⟩,
   ⟨3375900, .send 0 8 none ann⟩, ⟨3375900, .dlv 8 0 0 true ann⟩,
   ⟨3600000, .obs⟩,
   ⟨3825800, .send 1 9 none (q [] false)⟩, ⟨3825800, .dlv 9 1 1 true (q [] false)⟩, ⟨3825850, .dlv 9 1 0 true (q [] false)⟩,
   ⟨3825900, .send 0 10 none ann⟩, ⟨3825900, .dlv 10 0 0 true ann⟩, ⟨3825950, .dlv 10 0 1 true ann⟩,
   ⟨4550000, .obs⟩]

theorem contracts : C07_Contracts tr 4600000 :=
  ⟨by decide, by decide, by decide, by decide, by decide, by decide, by decide, by decide, by decide⟩

example : lastChange tr + C07_settle ≤ 4600000 := by decide
/-- the lost answer is the only missing delivery, and K3b's first window for the record processed at 800 ms is demanded:
the record is un-refreshed at the end of that window, which lies inside the observation -/
example : (missing Cfg.paper tr 4600000).length = 1
    ∧ (refreshWindow Cfg.paper 800 4500 100 false).2 ≤ 4600000
    ∧ noPtrBetween tr 1 s 800 (refreshWindow Cfg.paper 800 4500 100 false).2 = true
    ∧ refreshOpp tr 1 0 s (refreshWindow Cfg.paper 800 4500 100 false).1 (refreshWindow Cfg.paper 800 4500 100 false).2 = true := by
  decide
/-- past the expiry of the original record (800 + 4 500 000 < 4 600 000) the instance is still held, fresh and reported -/
example : (800 : Int) + effTtl Cfg.paper 4500 < 4600000 ∧ heldFresh Cfg.paper tr 1 s 4600000 = true ∧ live tr b s = true
    ∧ registered Cfg.paper tr s = true ∧ KF Cfg.paper tr 4600000 = true := by decide
end C07ex3

/-! A fourth run exercises the responder bridge (K4): non-vacuity of `Bridge.ResponderRun` / `Bridge.Responders`.  Host 0 has
registered `a._x._tcp.local.`; host 1's QM question for the type reaches it at 3000 ms (no known answers).  C03's answer computation
on the registry after `register z` offers the pointer with SRV, TXT, A and NSEC as additionals; the reply model (no cache sighting,
one PTR question) aggregates it with draw 50; the queue timer multicasts it, complete, at 3050 ms.  A second datagram with the same
bytes arrives at 3400 ms and is dropped by the duplicate guard — its answer is the send at 3050.  A purge of an unrelated id at 5 s
shows the D5 block.  The numbering of names is the injective `Bridge.encS`. -/
namespace C07ex4
open Zc.Bridge Zc.Reply

/-- the registered service, as C03's registry holds it -/
def z : Zc.Svc := { type := "_x._tcp.local.", name := "a._x._tcp.local.", server := "h0.local.", port := 80, weight := 0, priority := 0,
                    text := [], hostTtl := 120, otherTtl := 4500, v4 := [[10, 0, 0, 1]], v6 := [] }
def N : Naming := ⟨0, encS, encS⟩
/-- its link identity -/
def s : Link.Svc := sigmaZ id N z
def ops : List RegOp := [.register z]
def qs : List Question := [⟨"_x._tcp.local.", 12, 1, false⟩]
/-- the table of record objects: PTR, SRV, TXT, A, NSEC of the service -/
def tbl : List Rec := [RespSpec.ptrOf z, RespSpec.srvOf z, RespSpec.txtOf z] ++ RespSpec.addrsOf z ++ RespSpec.nsecOf z
/-- the question packet as the reply model reads it: one strategy (the type's bucket), one candidate (the pointer, with SRV, TXT, A,
NSEC as additionals) -/
def p : Pkt := { dataId := 1, now := 3000, id := 0, flags := 0, numAuth := 0, nq := 1, q0type := 12,
                 items := [{ qu := false, cands := [{ id := 0, ttl := 4500, adds := [1, 2, 3, 4], sup := false }] }], known := [] }

def ks : List KEv :=
  [.blk (.rx 3000 1 5353 1 40 false (.query p) [] [50]), .blk (.qfire 3050 false),
   .blk (.rx 3400 1 5353 1 40 false (.query p) [] []), .purge 5000 [7]]

def rt : List (Host × KEv × StepOut) := match krun {} 0 ks with | .ok (_, _, rt) => rt | .error _ => []
def hEnd : Host := match krun {} 0 ks with | .ok (h, _, _) => h | .error _ => {}
def cEnd : Int := match krun {} 0 ks with | .ok (_, c, _) => c | .error _ => 0

theorem krun_ok : krun {} 0 ks = .ok (hEnd, cEnd, rt) := by
  unfold hEnd cEnd rt
  cases h : krun {} 0 ks with
  | ok v => rfl
  | error m =>
    exfalso
    have : (krun {} 0 ks).toBool = true := by decide
    rw [h] at this
    cases this


def ann : List Item := [.ptr s 4500 true]
def qy : List Item := [.query s.ty [] false]
/-- host 1's QM question for the type reaches host 0 at 3000 ms; the pointer is aggregated (draw 50) and multicast, complete, at
3050 ms; a second datagram with the same bytes arrives at 3400 ms and is dropped by the duplicate guard; an unrelated purge at 5 s -/
def tr : Trace :=
  [⟨0, .up 0⟩, ⟨0, .up 1⟩, ⟨0, .reg s⟩,
   ⟨3000, .send 1 0 none qy⟩, ⟨3000, .dlv 0 1 0 true qy⟩,
   ⟨3050, .send 0 1 none ann⟩,
   ⟨3400, .send 1 2 none qy⟩, ⟨3400, .dlv 2 1 0 true qy⟩]

def content (d : Nat) : List Item := if d = 1 then qy else []

theorem mem_ks {k : KEv} (h : k ∈ ks) :
    k = .blk (.rx 3000 1 5353 1 40 false (.query p) [] [50]) ∨ k = .blk (.qfire 3050 false) ∨
    k = .blk (.rx 3400 1 5353 1 40 false (.query p) [] []) ∨ k = .purge 5000 [7] := by
  simpa [ks] using h

theorem run : KRun {} 0 ks hEnd cEnd rt := KRun.of_krun _ _ _ _ _ _ krun_ok

/-- times, outputs and queue lengths of the blocks -/
theorem rt_view : rt.map (fun x => (x.2.1.time, x.2.2.outs, x.1.outQ.groups.length, x.1.delayQ.groups.length)) =
    [(3000, [], 0, 0), (3050, [Out.mcast [0] [1, 2, 3, 4]], 1, 0), (3400, [], 0, 0), (5000, [], 0, 0)] := by decide


theorem view_of {x : Host × KEv × StepOut} (hx : x ∈ rt) :
    (x.2.1.time = 3000 ∧ x.2.2.outs = []) ∨ (x.2.1.time = 3050 ∧ x.2.2.outs = [Out.mcast [0] [1, 2, 3, 4]]) ∨
    (x.2.1.time = 3400 ∧ x.2.2.outs = []) ∨
    (x.2.1.time = 5000 ∧ x.2.2.outs = [] ∧ x.1.outQ.groups.length = 0 ∧ x.1.delayQ.groups.length = 0) := by
  have := List.mem_map_of_mem (f := fun x : Host × KEv × StepOut => (x.2.1.time, x.2.2.outs, x.1.outQ.groups.length, x.1.delayQ.groups.length)) hx
  rw [rt_view] at this
  simp only [List.mem_cons, Prod.mk.injEq, List.not_mem_nil, or_false] at this
  rcases this with ⟨h1, h2, _, _⟩ | ⟨h1, h2, _, _⟩ | ⟨h1, h2, _, _⟩ | ⟨h1, h2, h3, h4⟩
  · exact Or.inl ⟨h1, h2⟩
  · exact Or.inr (Or.inl ⟨h1, h2⟩)
  · exact Or.inr (Or.inr (Or.inl ⟨h1, h2⟩))
  · exact Or.inr (Or.inr (Or.inr ⟨h1, h2, h3, h4⟩))

theorem fromRegistry : FromRegistry id 4500 tbl p ops qs [] where
  clean := by decide
  addr := by unfold AllAddr; decide
  items := rfl
  known := rfl
  inTable := by decide

/-- the pointer question of the datagram, as the link model reads it, describes the packet; the registry holds the service -/
theorem itemOf (t : Int) : ItemOf id tr N 4500 t false ops qs [] s.ty [] false where
  quFlag := by intro h; cases h
  question := ⟨⟨"_x._tcp.local.", 12, 1, false⟩, by simp [qs], rfl, rfl, rfl⟩
  knownListed := by intro o ho; cases ho
  registered := by
    intro s' hs' _ _ _
    have : s' = s := by simpa [svcsOf, regs, tr] using hs'
    subst this
    exact ⟨z, by decide, rfl, by decide, by decide⟩

/-- **non-vacuity of `Bridge.ResponderRun`**: host 0 of this run is a responder run — the history is accepted by the reply model
(`krun_ok`), its one query is aggregated and flushed, the second copy is dropped by the duplicate guard, the candidates are C03's on
the registry after `register z` -/
theorem responderRun : ResponderRun id tr 4600 N 4500 tbl (fun a => a) content 0 ks hEnd cEnd rt := by
  have hev := run.evs
  have mem_ev : ∀ x ∈ rt, x.2.1 ∈ ks := fun x hx => by rw [← hev]; exact List.mem_map_of_mem hx
  have ex_ev : ∀ k ∈ ks, ∃ x ∈ rt, x.2.1 = k := by
    intro k hk
    rw [← hev, List.mem_map] at hk
    exact hk
  refine { tyInj := encS_inj, svInj := encS_inj, run := run, covers := by decide, noTC := ?_, purgeKeeps := ?_, rx := ?_,
           isQuery := ?_, query := ?_, outs := ?_, purge := ?_ }
  · intro t addr port dataId size hasQu p' seen draws hm
    rcases mem_ks hm with h | h | h | h <;> cases h <;> decide
  · intro x hx t W hxe d g hg
    exfalso
    have hk := mem_ev x hx
    rw [hxe] at hk
    rcases mem_ks hk with h | h | h | h <;> cases h
    rcases view_of hx with ⟨h1, _⟩ | ⟨h1, _⟩ | ⟨h1, _⟩ | ⟨_, _, h3, h4⟩
    · rw [hxe] at h1; cases h1
    · rw [hxe] at h1; cases h1
    · rw [hxe] at h1; cases h1
    · cases d
      · have : x.1.outQ.groups = [] := List.eq_nil_of_length_eq_zero h3
        simp only [Host.q, Bool.false_eq_true, if_false, this] at hg
        cases hg
      · have : x.1.delayQ.groups = [] := List.eq_nil_of_length_eq_zero h4
        simp only [Host.q, if_true, this] at hg
        cases hg
  · intro e he _
    have he' : e = ⟨3000, 0, 1, 0, true, qy⟩ ∨ e = ⟨3400, 2, 1, 0, true, qy⟩ := by simpa [dlvs, tr] using he
    rcases he' with rfl | rfl
    · obtain ⟨x, hx, hxe⟩ := ex_ev (.blk (.rx 3000 1 5353 1 40 false (.query p) [] [50])) (by simp [ks])
      exact ⟨x, hx, 1, 5353, 1, 40, false, .query p, [], [50], hxe, rfl, rfl, by decide⟩
    · obtain ⟨x, hx, hxe⟩ := ex_ev (.blk (.rx 3400 1 5353 1 40 false (.query p) [] [])) (by simp [ks])
      exact ⟨x, hx, 1, 5353, 1, 40, false, .query p, [], [], hxe, rfl, rfl, by decide⟩
  · intro x hx t addr port dataId size hasQu kind seen draws hxe ty known qu _
    have hk := mem_ev x hx
    rw [hxe] at hk
    rcases mem_ks hk with h | h | h | h <;> cases h <;> exact ⟨p, rfl⟩
  · intro x hx t addr port dataId size hasQu p' seen draws hxe
    have hk := mem_ev x hx
    rw [hxe] at hk
    have item : ∀ (t : Int), ∀ ty known qu, Link.Item.query ty known qu ∈ content 1 →
        ItemOf id tr N 4500 t false ops qs [] ty known qu := by
      intro t ty known qu hq
      have : ty = s.ty ∧ known = [] ∧ qu = false := by simpa [content, qy] using hq
      obtain ⟨rfl, rfl, rfl⟩ := this
      exact itemOf t
    rcases mem_ks hk with h | h | h | h <;> cases h
    · exact ⟨ops, qs, [], fromRegistry, item 3000⟩
    · exact ⟨ops, qs, [], fromRegistry, item 3400⟩
  · intro x hx _ o ho
    rcases view_of hx with ⟨_, h2⟩ | ⟨h1, h2⟩ | ⟨_, h2⟩ | ⟨_, h2, _⟩
    · rw [h2] at ho; cases ho
    · rw [h2] at ho
      simp only [List.mem_singleton] at ho
      subst ho
      refine ⟨⟨3050, 0, 1, none, ann⟩, by decide,
        ⟨0x8400, [], [RespSpec.ptrOf z], [], [RespSpec.srvOf z, RespSpec.txtOf z] ++ RespSpec.addrsOf z ++ RespSpec.nsecOf z⟩,
        rfl, h1.symm, rfl, by decide, ⟨by decide, by decide⟩, by decide⟩
    · rw [h2] at ho; cases ho
    · rw [h2] at ho; cases ho
  · intro x hx t W hxe i hi r alias hr
    have hk := mem_ev x hx
    rw [hxe] at hk
    rcases mem_ks hk with h | h | h | h <;> cases h
    simp only [List.mem_singleton] at hi
    subst hi
    have : tbl[7]? = none := by decide
    rw [this] at hr
    cases hr

/-- every host of the trace is a responder run (hosts other than 0 process no delivery and send no reply: the empty history) -/
theorem responders : Responders id tr 4600 := by
  intro hid
  by_cases h0 : hid = 0
  · subst h0
    exact ⟨N, 4500, tbl, fun a => a, content, 0, ks, hEnd, cEnd, rt, rfl, responderRun⟩
  · refine ⟨⟨hid, encS, encS⟩, 4500, [], fun a => a, fun _ => [], 4601, [], {}, 4601, [], rfl,
      { tyInj := encS_inj, svInj := encS_inj, run := KRun.nil _ _, covers := by decide, noTC := ?_, purgeKeeps := ?_, rx := ?_,
        isQuery := ?_, query := ?_, outs := ?_, purge := ?_ }⟩
    · intro _ _ _ _ _ _ _ _ _ hm; cases hm
    · intro x hx; cases hx
    · intro e he heh
      have he' : e = ⟨3000, 0, 1, 0, true, qy⟩ ∨ e = ⟨3400, 2, 1, 0, true, qy⟩ := by simpa [dlvs, tr] using he
      rcases he' with rfl | rfl <;> exact absurd heh.symm h0
    · intro x hx; cases hx
    · intro x hx; cases hx
    · intro x hx; cases hx
    · intro x hx; cases hx

/-- … so K4 holds on the trace by `C07_K4_from_C03_C11_C12_partial` — and the monitor evaluates to true (the send at 3050 ms answers
both deliveries) -/
example : K4 Cfg.paper tr 4600 = true := C07_K4_from_C03_C11_C12_partial id tr 4600 responders
example : K4 Cfg.paper tr 4600 = true := by decide

end C07ex4

/-! A fifth run is the **joint non-vacuity example of `C07_convergence_from_models_partial`**: one registering host (0) and one browsing
host (1) that sends its own questions, and *every* hypothesis of `C07_ContractsFromModels` holds of it at once — WF, K7, K3b by
`decide`; `Hosts` (host 0 is a run of the C08/C09 machine built with `mkRunD` — register, three announcement steps, the unicast
answer — with `Fair`, `Spaced`, `DistinctCalls`, `Open`, `Disc*` evaluated by the checkers of `Proofs/LinkBridgeCheck.lean`; the
other hosts register nothing: the empty run, which is admissible because the machine only owns the sends that carry a pointer
record); `BrowserRun` (C10's scheduler, start-up queries on the wire as C13 says); `Responders` (host 0: the accepted reply-model
history of its seven deliveries, candidates from C03 on the registry after `register z`, the QU question answered by unicast because
the cache saw the pointer within a quarter of its TTL; host 1: empty registry, no strategies); `CacheRun` (the C04 browser over the
cache that ingests the unicast answer at 2070 ms).  An earlier version of `HostRun.sendsIn` claimed *all* sends of a host for the
C08 machine, which contradicted `BrowserRun` as soon as a browser existed (independent review, round 2): this example is what keeps
that from recurring.  Names are numbered by the injective `Bridge.encS`. -/
namespace C07ex5
open Zc.Bridge

def T : String := "_x._tcp.local."
def A : String := "a._x._tcp.local."
/-- the registered service as the C08/C09 machine holds it … -/
def z0 : Register.Svc :=
  { type := T, name := A, server := "h0.local.", port := 80, weight := 0, priority := 0, text := [], v4 := [[10, 0, 0, 1]], v6 := [],
    hostTtl := 120, otherTtl := 4500 }
/-- … and as C03's registry holds it -/
def z : Zc.Svc :=
  { type := T, name := A, server := "h0.local.", port := 80, weight := 0, priority := 0, text := [], hostTtl := 120, otherTtl := 4500,
    v4 := [[10, 0, 0, 1]], v6 := [] }
def N0 : Naming := ⟨0, encS, encS⟩
def N1 : Naming := ⟨1, encS, encS⟩
def s : Link.Svc := ⟨0, encS T, encS A⟩
def b : Br := ⟨1, encS T, 0⟩
def ann : List Item := [.ptr s 4500 true]
def q (k : List Link.Svc) (qu : Bool) : List Item := [.query (encS T) k qu]

/-- host 0 registers `a._x._tcp.local.` at 0 (announcements at 350 / 575 / 800 ms, looped back); host 1 comes up at 2 s, after every
announcement, and starts a browser: its QU question at 2050 ms reaches host 0 at 2060 ms and is answered by unicast (host 0 saw its own
announcement 1.26 s ago: within a quarter of the TTL), Added at 2070 ms; its QM questions at 3050 / 7050 / 16050 ms list the instance -/
def tr : Trace :=
  [⟨0, .up 0⟩, ⟨0, .reg s⟩,
   ⟨350, .send 0 0 none ann⟩, ⟨350, .dlv 0 0 0 true ann⟩,
   ⟨575, .send 0 1 none ann⟩, ⟨580, .dlv 1 0 0 true ann⟩,
   ⟨800, .send 0 2 none ann⟩, ⟨800, .dlv 2 0 0 true ann⟩,
   ⟨2000, .up 1⟩, ⟨2000, .browse b⟩,
   ⟨2050, .send 1 3 none (q [] true)⟩, ⟨2050, .dlv 3 1 1 true (q [] true)⟩, ⟨2060, .dlv 3 1 0 true (q [] true)⟩,
   ⟨2060, .send 0 4 (some 1) ann⟩, ⟨2070, .dlv 4 0 1 false ann⟩, ⟨2070, .added b s⟩,
   ⟨3050, .send 1 5 none (q [s] false)⟩, ⟨3050, .dlv 5 1 0 true (q [s] false)⟩, ⟨3050, .dlv 5 1 1 true (q [s] false)⟩,
   ⟨7050, .send 1 6 none (q [s] false)⟩, ⟨7050, .dlv 6 1 0 true (q [s] false)⟩, ⟨7100, .dlv 6 1 1 true (q [s] false)⟩,
   ⟨16050, .send 1 7 none (q [s] false)⟩, ⟨16050, .dlv 7 1 0 true (q [s] false)⟩, ⟨16050, .dlv 7 1 1 true (q [s] false)⟩]

theorem contracts : C07_Contracts tr 20000 :=
  ⟨by decide, by decide, by decide, by decide, by decide, by decide, by decide, by decide, by decide⟩

/-! #### host 0 as a run of the C08/C09 machine -/

def sched0 : List (Int × Goodbye.Block × Option Nat) :=
  [(350, .register z0 1 350, none), (350, .task 1 none true 350, none), (575, .task 1 none true 575, none),
   (800, .task 1 none true 800, none), (2060, .answer (Goodbye.recs z0), some 1)]

def steps0 : List Step := (mkRunD id Goodbye.Host.init 0 sched0).getD []

theorem steps0_run : IsRun id Goodbye.Host.init 0 steps0 := by
  apply mkRunD_isRun id sched0
  unfold steps0
  cases h : mkRunD id Goodbye.Host.init 0 sched0 with
  | some l => rfl
  | none =>
    exfalso
    have : (mkRunD id Goodbye.Host.init 0 sched0).isSome = true := by decide
    rw [h] at this; cases this

theorem sends0 : sends (events id N0 steps0) =
    [⟨350, 0, 0, none, ann⟩, ⟨575, 0, 0, none, ann⟩, ⟨800, 0, 0, none, ann⟩, ⟨2060, 0, 0, some 1, ann⟩] := by decide
theorem regs0 : regs (events id N0 steps0) = [(0, s)] := by decide
theorem upds0 : upds (events id N0 steps0) = [] := by decide
theorem unregs0 : unregs (events id N0 steps0) = [] := by decide


theorem sends_of_host0 {sd : SendE} (h : sd ∈ sends tr) (hh : sd.h = 0) :
    sd = ⟨350, 0, 0, none, ann⟩ ∨ sd = ⟨575, 0, 1, none, ann⟩ ∨ sd = ⟨800, 0, 2, none, ann⟩ ∨ sd = ⟨2060, 0, 4, some 1, ann⟩ := by
  have hs : sends tr = [⟨350, 0, 0, none, ann⟩, ⟨575, 0, 1, none, ann⟩, ⟨800, 0, 2, none, ann⟩, ⟨2050, 1, 3, none, q [] true⟩,
      ⟨2060, 0, 4, some 1, ann⟩, ⟨3050, 1, 5, none, q [s] false⟩, ⟨7050, 1, 6, none, q [s] false⟩, ⟨16050, 1, 7, none, q [s] false⟩] := by
    decide
  rw [hs] at h
  simp only [List.mem_cons, List.not_mem_nil, or_false] at h
  rcases h with rfl | rfl | rfl | rfl | rfl | rfl | rfl | rfl <;> simp at hh <;> simp

/-- host 0's pointer-carrying sends, registrations … are those of the run `steps0` -/
theorem hostRun0 : HostRun id tr 20000 N0 steps0 0 where
  tyInj := encS_inj
  svInj := encS_inj
  run := steps0_run
  disc := by decide
  spaced := spaced_of_spacedB id N0 [] steps0 (by decide)
  distinct := distinctCalls_of_B id N0 steps0 (by decide)
  fair := fair_of_fairB steps0 20000 (by decide)
  opened := open_of_openB steps0 (by decide)
  sendsIn := by
    intro sd hsd hh _
    rw [sends0]
    rcases sends_of_host0 hsd hh with rfl | rfl | rfl | rfl
    · exact ⟨_, by simp, rfl, rfl, rfl⟩
    · exact ⟨⟨575, 0, 0, none, ann⟩, by simp, rfl, rfl, rfl⟩
    · exact ⟨⟨800, 0, 0, none, ann⟩, by simp, rfl, rfl, rfl⟩
    · exact ⟨⟨2060, 0, 0, some 1, ann⟩, by simp, rfl, rfl, rfl⟩
  sendsOut := by
    intro sd' hsd'
    rw [sends0] at hsd'
    simp only [List.mem_cons, List.not_mem_nil, or_false] at hsd'
    rcases hsd' with rfl | rfl | rfl | rfl
    · exact ⟨⟨350, 0, 0, none, ann⟩, by decide, rfl, rfl, rfl, rfl⟩
    · exact ⟨⟨575, 0, 1, none, ann⟩, by decide, rfl, rfl, rfl, rfl⟩
    · exact ⟨⟨800, 0, 2, none, ann⟩, by decide, rfl, rfl, rfl, rfl⟩
    · exact ⟨⟨2060, 0, 4, some 1, ann⟩, by decide, rfl, rfl, rfl, rfl⟩
  regsIn := by
    intro x hx _
    rw [regs0]
    have : regs tr = [(0, s)] := by decide
    rw [this] at hx; exact hx
  regsOut := by
    intro x hx
    rw [regs0] at hx
    have : regs tr = [(0, s)] := by decide
    rw [this]; exact hx
  updsIn := by
    intro x hx _
    have : upds tr = [] := by decide
    rw [this] at hx; cases hx
  updsOut := by intro x hx; rw [upds0] at hx; cases hx
  unregsIn := by
    intro x hx _
    have : unregs tr = [] := by decide
    rw [this] at hx; cases hx
  unregsOut := by intro x hx; rw [unregs0] at hx; cases hx

/-- a host that registers nothing: the empty run (its sends carry questions only) -/
theorem hostRunIdle (hid : Nat) (h0 : hid ≠ 0) : HostRun id tr 20000 ⟨hid, encS, encS⟩ [] 0 where
  tyInj := encS_inj
  svInj := encS_inj
  run := IsRun.nil _ _
  disc := by intro st hst; cases hst
  spaced := by intro pre st post h; cases pre <;> simp at h
  distinct := by intro pre st post h; cases pre <;> simp at h
  fair := ⟨by intro pre st post h; cases pre <;> simp at h, by intro pre st post h; cases pre <;> simp at h⟩
  opened := by intro st hst; cases hst
  sendsIn := by
    intro sd hsd hh hne
    exfalso
    have hs : sends tr = [⟨350, 0, 0, none, ann⟩, ⟨575, 0, 1, none, ann⟩, ⟨800, 0, 2, none, ann⟩, ⟨2050, 1, 3, none, q [] true⟩,
        ⟨2060, 0, 4, some 1, ann⟩, ⟨3050, 1, 5, none, q [s] false⟩, ⟨7050, 1, 6, none, q [s] false⟩, ⟨16050, 1, 7, none, q [s] false⟩] := by
      decide
    rw [hs] at hsd
    simp only [List.mem_cons, List.not_mem_nil, or_false] at hsd
    rcases hsd with rfl | rfl | rfl | rfl | rfl | rfl | rfl | rfl <;>
      first
        | exact h0 hh.symm
        | exact hne (by decide)
  sendsOut := by intro sd' hsd'; simp [events_nil, sends] at hsd'
  regsIn := by
    intro x hx hown
    have : regs tr = [(0, s)] := by decide
    rw [this] at hx
    simp only [List.mem_singleton] at hx
    subst hx
    exact absurd hown.symm h0
  regsOut := by intro x hx; simp [events_nil, regs] at hx
  updsIn := by
    intro x hx _
    have : upds tr = [] := by decide
    rw [this] at hx; cases hx
  updsOut := by intro x hx; simp [events_nil, upds] at hx
  unregsIn := by
    intro x hx _
    have : unregs tr = [] := by decide
    rw [this] at hx; cases hx
  unregsOut := by intro x hx; simp [events_nil, unregs] at hx

theorem hosts : Hosts id tr 20000 := by
  intro hid
  by_cases h0 : hid = 0
  · subst h0; exact ⟨N0, steps0, 0, rfl, hostRun0⟩
  · exact ⟨⟨hid, encS, encS⟩, [], 0, rfl, hostRunIdle hid h0⟩


/-! #### the browser as a history of C10's scheduler -/

theorem browserRun : Bridge.BrowserRun tr 20000 2000 b := by
  have h : (Sched2.exec2 (C10.browserCfg [T] 10000 none) {} 0
      ([] ++ (2000, Sched.Op.start 50) :: [(2050, .fire false), (3050, .fire false), (7050, .fire false), (16050, .fire false),
        (26050, .fire false)])).toOption.map (·.2) =
      some [⟨2050, true, some true, [T]⟩, ⟨3050, false, none, [T]⟩, ⟨7050, false, none, [T]⟩, ⟨16050, false, none, [T]⟩] := by decide
  cases hx : Sched2.exec2 (C10.browserCfg [T] 10000 none) {} 0
      ([] ++ (2000, Sched.Op.start 50) :: [(2050, .fire false), (3050, .fire false), (7050, .fire false), (16050, .fire false),
        (26050, .fire false)]) with
  | error e => rw [hx] at h; cases h
  | ok r =>
    obtain ⟨s', outs⟩ := r
    rw [hx] at h
    simp only [Except.toOption, Option.map_some, Option.some.injEq] at h
    subst h
    refine ⟨⟨[T], T, 10000, 0, [], 50, _, s', _, by decide, ?_, ?_, hx, by decide, ?_⟩⟩
    · intro e he; cases he
    · unfold C10.Active; decide
    · unfold Bridge.WireAsk; decide

theorem browsers : ∀ x ∈ browses tr, neverClosed tr x.2.host = true → Bridge.BrowserRun tr 20000 x.1 x.2 := by
  intro x hx _
  have : browses tr = [(2000, b)] := by decide
  rw [this] at hx
  simp only [List.mem_singleton] at hx
  subst hx
  exact browserRun


/-! #### the responders: host 0 (one registered service), host 1 (none) -/

open Zc.Reply in
/-- the table of record objects: PTR, SRV, TXT, A, NSEC of the service -/
def tbl : List Rec := [RespSpec.ptrOf z, RespSpec.srvOf z, RespSpec.txtOf z] ++ RespSpec.addrsOf z ++ RespSpec.nsecOf z
def ops0 : List RegOp := [.register z]
def qsQU : List Question := [⟨T, 12, 1, true⟩]
def qsQM : List Question := [⟨T, 12, 1, false⟩]
/-- the known answer the browser lists from 3050 ms on: the pointer, with more than half of its TTL left -/
def kn : Rec := ⟨T, 12, 1, false, 4498, 0, .ptr A⟩
/-- the QU question at 2060 ms as the reply model reads it: one strategy, the pointer with SRV, TXT, A, NSEC as additionals -/
def p1 : Reply.Pkt := { dataId := 3, now := 2060, id := 0, flags := 0, numAuth := 0, nq := 1, q0type := 12,
                        items := [{ qu := true, cands := [{ id := 0, ttl := 4500, adds := [1, 2, 3, 4], sup := false }] }], known := [] }
/-- a QM question listing the pointer: the strategy's answer is suppressed inside C03's `Strategy.answer` -/
def p2 (d : Nat) (now : Int) : Reply.Pkt :=
  { dataId := d, now := now, id := 0, flags := 0, numAuth := 0, nq := 1, q0type := 12, items := [{ qu := false, cands := [] }],
    known := [] }
/-- a question on a host with an empty registry: no strategy -/
def pE (d : Nat) (now : Int) : Reply.Pkt :=
  { dataId := d, now := now, id := 0, flags := 0, numAuth := 0, nq := 1, q0type := 12, items := [], known := [] }

def content (d : Nat) : List Item :=
  if d = 10 then ann else if d = 3 then q [] true else if d = 5 ∨ d = 6 ∨ d = 7 then q [s] false else if d = 20 then ann else []

def ks0 : List KEv :=
  [.blk (.rx 350 0 5353 10 100 false .response [] []), .blk (.rx 580 0 5353 10 100 false .response [] []),
   .blk (.rx 800 0 5353 10 100 false .response [] []),
   .blk (.rx 2060 1 5353 3 40 true (.query p1) [(0, { created := 800, ttl := 4500 })] []),
   .blk (.rx 3050 1 5353 5 60 false (.query (p2 5 3050)) [] []), .blk (.rx 7050 1 5353 6 60 false (.query (p2 6 7050)) [] []),
   .blk (.rx 16050 1 5353 7 60 false (.query (p2 7 16050)) [] []), .purge 20001 []]

def rt0 : List (Reply.Host × KEv × Reply.StepOut) := match krun {} 0 ks0 with | .ok (_, _, rt) => rt | .error _ => []
def hEnd0 : Reply.Host := match krun {} 0 ks0 with | .ok (h, _, _) => h | .error _ => {}
def cEnd0 : Int := match krun {} 0 ks0 with | .ok (_, c, _) => c | .error _ => 0

theorem krun0 : krun {} 0 ks0 = .ok (hEnd0, cEnd0, rt0) := by
  unfold hEnd0 cEnd0 rt0
  cases h : krun {} 0 ks0 with
  | ok v => rfl
  | error m =>
    exfalso
    have : (krun {} 0 ks0).toBool = true := by decide
    rw [h] at this
    cases this

theorem run0 : KRun {} 0 ks0 hEnd0 cEnd0 rt0 := KRun.of_krun _ _ _ _ _ _ krun0

theorem rt0_view : rt0.map (fun x => (x.2.1.time, x.2.2.outs)) =
    [(350, []), (580, []), (800, []), (2060, [Reply.Out.ucast 1 5353 0 0 [0] [1, 2, 3, 4]]), (3050, []), (7050, []), (16050, []),
     (20001, [])] := by decide

theorem fromRegistryQU : FromRegistry id 4500 tbl p1 ops0 qsQU [] where
  clean := by decide
  addr := by unfold AllAddr; decide
  items := rfl
  known := rfl
  inTable := by decide

theorem fromRegistryQM (d : Nat) (now : Int) : FromRegistry id 4500 tbl (p2 d now) ops0 qsQM [kn] where
  clean := by decide
  addr := by unfold AllAddr; decide
  items := rfl
  known := rfl
  inTable := by decide

theorem svcs_tr : svcsOf tr = [s] := by decide

theorem itemOf0 (t : Int) (hasQu : Bool) (qs : List Question) (k : List Rec) (known : List Link.Svc) (qu : Bool)
    (hq : ⟨T, 12, 1, qu⟩ ∈ qs) (hqu : qu = true → hasQu = true) (hk : ∀ o ∈ k, s ∈ known) :
    ItemOf id tr N0 4500 t hasQu ops0 qs k (encS T) known qu where
  quFlag := hqu
  question := ⟨⟨T, 12, 1, qu⟩, hq, rfl, by simp [N0], rfl⟩
  knownListed := by
    intro o ho alias _ _ s' hs' _ _ _
    rw [svcs_tr] at hs'
    simp only [List.mem_singleton] at hs'
    subst hs'
    exact hk o ho
  registered := by
    intro s' hs' _ _ _
    rw [svcs_tr] at hs'
    simp only [List.mem_singleton] at hs'
    subst hs'
    exact ⟨z, by decide, rfl, by decide, by decide⟩

theorem mem_ks0 {k : KEv} (h : k ∈ ks0) :
    k = .blk (.rx 350 0 5353 10 100 false .response [] []) ∨ k = .blk (.rx 580 0 5353 10 100 false .response [] []) ∨
    k = .blk (.rx 800 0 5353 10 100 false .response [] []) ∨
    k = .blk (.rx 2060 1 5353 3 40 true (.query p1) [(0, { created := 800, ttl := 4500 })] []) ∨
    k = .blk (.rx 3050 1 5353 5 60 false (.query (p2 5 3050)) [] []) ∨ k = .blk (.rx 7050 1 5353 6 60 false (.query (p2 6 7050)) [] []) ∨
    k = .blk (.rx 16050 1 5353 7 60 false (.query (p2 7 16050)) [] []) ∨ k = .purge 20001 [] := by
  simpa [ks0] using h

theorem dlvs_tr : dlvs tr =
    [⟨350, 0, 0, 0, true, ann⟩, ⟨580, 1, 0, 0, true, ann⟩, ⟨800, 2, 0, 0, true, ann⟩, ⟨2050, 3, 1, 1, true, q [] true⟩,
     ⟨2060, 3, 1, 0, true, q [] true⟩, ⟨2070, 4, 0, 1, false, ann⟩, ⟨3050, 5, 1, 0, true, q [s] false⟩, ⟨3050, 5, 1, 1, true, q [s] false⟩,
     ⟨7050, 6, 1, 0, true, q [s] false⟩, ⟨7100, 6, 1, 1, true, q [s] false⟩, ⟨16050, 7, 1, 0, true, q [s] false⟩,
     ⟨16050, 7, 1, 1, true, q [s] false⟩] := by decide

theorem responderRun0 : ResponderRun id tr 20000 N0 4500 tbl (fun a => a) content 0 ks0 hEnd0 cEnd0 rt0 := by
  have hev := run0.evs
  have mem_ev : ∀ x ∈ rt0, x.2.1 ∈ ks0 := fun x hx => by rw [← hev]; exact List.mem_map_of_mem hx
  have ex_ev : ∀ k ∈ ks0, ∃ x ∈ rt0, x.2.1 = k := by
    intro k hk
    rw [← hev, List.mem_map] at hk
    exact hk
  refine { tyInj := encS_inj, svInj := encS_inj, run := run0, covers := by decide, noTC := ?_, purgeKeeps := ?_, rx := ?_,
           isQuery := ?_, query := ?_, outs := ?_, purge := ?_ }
  · intro t addr port dataId size hasQu p' seen draws hm
    rcases mem_ks0 hm with h | h | h | h | h | h | h | h <;> cases h <;> decide
  · intro x hx t W hxe d g _ e _ _ i _
    have hk := mem_ev x hx
    rw [hxe] at hk
    rcases mem_ks0 hk with h | h | h | h | h | h | h | h <;> cases h
    simp
  · intro e he heh
    rw [dlvs_tr] at he
    simp only [List.mem_cons, List.not_mem_nil, or_false] at he
    rcases he with rfl | rfl | rfl | rfl | rfl | rfl | rfl | rfl | rfl | rfl | rfl | rfl <;> first
      | (exfalso; revert heh; decide)
      | (obtain ⟨x, hx, hxe⟩ := ex_ev (.blk (.rx 350 0 5353 10 100 false .response [] [])) (by simp [ks0])
         exact ⟨x, hx, 0, 5353, 10, 100, false, .response, [], [], hxe, rfl, rfl, by decide⟩)
      | (obtain ⟨x, hx, hxe⟩ := ex_ev (.blk (.rx 580 0 5353 10 100 false .response [] [])) (by simp [ks0])
         exact ⟨x, hx, 0, 5353, 10, 100, false, .response, [], [], hxe, rfl, rfl, by decide⟩)
      | (obtain ⟨x, hx, hxe⟩ := ex_ev (.blk (.rx 800 0 5353 10 100 false .response [] [])) (by simp [ks0])
         exact ⟨x, hx, 0, 5353, 10, 100, false, .response, [], [], hxe, rfl, rfl, by decide⟩)
      | (obtain ⟨x, hx, hxe⟩ := ex_ev (.blk (.rx 2060 1 5353 3 40 true (.query p1) [(0, { created := 800, ttl := 4500 })] []))
           (by simp [ks0])
         exact ⟨x, hx, 1, 5353, 3, 40, true, .query p1, _, [], hxe, rfl, rfl, by decide⟩)
      | (obtain ⟨x, hx, hxe⟩ := ex_ev (.blk (.rx 3050 1 5353 5 60 false (.query (p2 5 3050)) [] [])) (by simp [ks0])
         exact ⟨x, hx, 1, 5353, 5, 60, false, .query (p2 5 3050), [], [], hxe, rfl, rfl, by decide⟩)
      | (obtain ⟨x, hx, hxe⟩ := ex_ev (.blk (.rx 7050 1 5353 6 60 false (.query (p2 6 7050)) [] [])) (by simp [ks0])
         exact ⟨x, hx, 1, 5353, 6, 60, false, .query (p2 6 7050), [], [], hxe, rfl, rfl, by decide⟩)
      | (obtain ⟨x, hx, hxe⟩ := ex_ev (.blk (.rx 16050 1 5353 7 60 false (.query (p2 7 16050)) [] [])) (by simp [ks0])
         exact ⟨x, hx, 1, 5353, 7, 60, false, .query (p2 7 16050), [], [], hxe, rfl, rfl, by decide⟩)
  · intro x hx t addr port dataId size hasQu kind seen draws hxe ty known qu hq
    have hk := mem_ev x hx
    rw [hxe] at hk
    rcases mem_ks0 hk with h | h | h | h | h | h | h | h <;> cases h <;> first
      | (exfalso; revert hq; simp [content, ann]; done)
      | exact ⟨_, rfl⟩
  · intro x hx t addr port dataId size hasQu p' seen draws hxe
    have hk := mem_ev x hx
    rw [hxe] at hk
    rcases mem_ks0 hk with h | h | h | h | h | h | h | h <;> cases h
    · refine ⟨ops0, qsQU, [], fromRegistryQU, ?_⟩
      intro ty known qu hq
      have : ty = encS T ∧ known = [] ∧ qu = true := by simpa [content, q] using hq
      obtain ⟨rfl, rfl, rfl⟩ := this
      exact itemOf0 2060 true qsQU [] [] true (by simp [qsQU]) (fun _ => rfl) (by intro o ho; cases ho)
    all_goals
      refine ⟨ops0, qsQM, [kn], fromRegistryQM _ _, ?_⟩
      intro ty known qu hq
      have : ty = encS T ∧ known = [s] ∧ qu = false := by simpa [content, q] using hq
      obtain ⟨rfl, rfl, rfl⟩ := this
      exact itemOf0 _ false qsQM [kn] [s] false (by simp [qsQM]) (by intro h; cases h) (by intro o _; simp)
  · intro x hx _ o ho
    have hv := List.mem_map_of_mem (f := fun x : Reply.Host × KEv × Reply.StepOut => (x.2.1.time, x.2.2.outs)) hx
    rw [rt0_view] at hv
    simp only [List.mem_cons, Prod.mk.injEq, List.not_mem_nil, or_false] at hv
    have one : x.2.1.time = 2060 ∧ x.2.2.outs = [Reply.Out.ucast 1 5353 0 0 [0] [1, 2, 3, 4]] := by
      rcases hv with ⟨_, h2⟩ | ⟨_, h2⟩ | ⟨_, h2⟩ | ⟨h1, h2⟩ | ⟨_, h2⟩ | ⟨_, h2⟩ | ⟨_, h2⟩ | ⟨_, h2⟩
      · rw [h2] at ho; cases ho
      · rw [h2] at ho; cases ho
      · rw [h2] at ho; cases ho
      · exact ⟨h1, h2⟩
      · rw [h2] at ho; cases ho
      · rw [h2] at ho; cases ho
      · rw [h2] at ho; cases ho
      · rw [h2] at ho; cases ho
    obtain ⟨h1, h2⟩ := one
    rw [h2] at ho
    simp only [List.mem_singleton] at ho
    subst ho
    refine ⟨⟨2060, 0, 4, some 1, ann⟩, by decide,
      ⟨0x8400, [], [RespSpec.ptrOf z], [], [RespSpec.srvOf z, RespSpec.txtOf z] ++ RespSpec.addrsOf z ++ RespSpec.nsecOf z⟩,
      rfl, h1.symm, rfl, by decide, ⟨by decide, by decide⟩, by decide⟩
  · intro x hx t W hxe i hi
    have hk := mem_ev x hx
    rw [hxe] at hk
    rcases mem_ks0 hk with h | h | h | h | h | h | h | h <;> cases h
    cases hi


def ks1 : List KEv :=
  [.blk (.rx 2050 1 5353 3 40 true (.query (pE 3 2050)) [] []), .blk (.rx 2070 0 5353 20 100 false .response [] []),
   .blk (.rx 3050 1 5353 5 60 false (.query (pE 5 3050)) [] []), .blk (.rx 7100 1 5353 6 60 false (.query (pE 6 7100)) [] []),
   .blk (.rx 16050 1 5353 7 60 false (.query (pE 7 16050)) [] []), .purge 20001 []]

def rt1 : List (Reply.Host × KEv × Reply.StepOut) := match krun {} 0 ks1 with | .ok (_, _, rt) => rt | .error _ => []
def hEnd1 : Reply.Host := match krun {} 0 ks1 with | .ok (h, _, _) => h | .error _ => {}
def cEnd1 : Int := match krun {} 0 ks1 with | .ok (_, c, _) => c | .error _ => 0

theorem krun1 : krun {} 0 ks1 = .ok (hEnd1, cEnd1, rt1) := by
  unfold hEnd1 cEnd1 rt1
  cases h : krun {} 0 ks1 with
  | ok v => rfl
  | error m =>
    exfalso
    have : (krun {} 0 ks1).toBool = true := by decide
    rw [h] at this
    cases this

theorem run1 : KRun {} 0 ks1 hEnd1 cEnd1 rt1 := KRun.of_krun _ _ _ _ _ _ krun1

theorem rt1_outs : rt1.map (fun x => x.2.2.outs) = [[], [], [], [], [], []] := by decide

theorem fromRegistryE (d : Nat) (now : Int) (qs : List Question) (k : List Rec) (hq : ∀ q ∈ qs, q.type = 12 ∧ q.name = T) :
    FromRegistry id 4500 [] (pE d now) [] qs k where
  clean := by decide
  addr := by intro x hx; cases hx
  items := by
    induction qs with
    | nil => rfl
    | cons q0 r ih =>
      obtain ⟨h1, h2⟩ := hq q0 (by simp)
      have hr := ih (fun q' hq' => hq q' (List.mem_cons_of_mem _ hq'))
      obtain ⟨n, ty, c, u⟩ := q0
      simp only at h1 h2
      subst h1 h2
      simp only [itemsOfQuestions, hr]
      rfl
  known := rfl
  inTable := by
    intro q0 hq0 st hst
    obtain ⟨h1, h2⟩ := hq q0 hq0
    obtain ⟨n, ty, c, u⟩ := q0
    simp only at h1 h2
    subst h1 h2
    have hnil : pureStrategies id (Registry.run id 4500 []) ⟨T, 12, c, u⟩ = [] := by rfl
    rw [hnil] at hst
    cases hst

theorem itemOf1 (t : Int) (hasQu : Bool) (qs : List Question) (k : List Rec) (known : List Link.Svc) (qu : Bool)
    (hq : ⟨T, 12, 1, qu⟩ ∈ qs) (hqu : qu = true → hasQu = true) :
    ItemOf id tr N1 4500 t hasQu [] qs k (encS T) known qu where
  quFlag := hqu
  question := ⟨⟨T, 12, 1, qu⟩, hq, rfl, by simp [N1], rfl⟩
  knownListed := by
    intro o _ alias _ _ s' hs' hown
    rw [svcs_tr] at hs'
    simp only [List.mem_singleton] at hs'
    subst hs'
    cases hown
  registered := by
    intro s' hs' hown
    rw [svcs_tr] at hs'
    simp only [List.mem_singleton] at hs'
    subst hs'
    cases hown

theorem mem_ks1 {k : KEv} (h : k ∈ ks1) :
    k = .blk (.rx 2050 1 5353 3 40 true (.query (pE 3 2050)) [] []) ∨ k = .blk (.rx 2070 0 5353 20 100 false .response [] []) ∨
    k = .blk (.rx 3050 1 5353 5 60 false (.query (pE 5 3050)) [] []) ∨ k = .blk (.rx 7100 1 5353 6 60 false (.query (pE 6 7100)) [] []) ∨
    k = .blk (.rx 16050 1 5353 7 60 false (.query (pE 7 16050)) [] []) ∨ k = .purge 20001 [] := by
  simpa [ks1] using h

theorem responderRun1 : ResponderRun id tr 20000 N1 4500 [] (fun a => a) content 0 ks1 hEnd1 cEnd1 rt1 := by
  have hev := run1.evs
  have mem_ev : ∀ x ∈ rt1, x.2.1 ∈ ks1 := fun x hx => by rw [← hev]; exact List.mem_map_of_mem hx
  have ex_ev : ∀ k ∈ ks1, ∃ x ∈ rt1, x.2.1 = k := by
    intro k hk
    rw [← hev, List.mem_map] at hk
    exact hk
  refine { tyInj := encS_inj, svInj := encS_inj, run := run1, covers := by decide, noTC := ?_, purgeKeeps := ?_, rx := ?_,
           isQuery := ?_, query := ?_, outs := ?_, purge := ?_ }
  · intro t addr port dataId size hasQu p' seen draws hm
    rcases mem_ks1 hm with h | h | h | h | h | h <;> cases h <;> decide
  · intro x hx t W hxe d g _ e _ _ i _
    have hk := mem_ev x hx
    rw [hxe] at hk
    rcases mem_ks1 hk with h | h | h | h | h | h <;> cases h
    simp
  · intro e he heh
    rw [dlvs_tr] at he
    simp only [List.mem_cons, List.not_mem_nil, or_false] at he
    rcases he with rfl | rfl | rfl | rfl | rfl | rfl | rfl | rfl | rfl | rfl | rfl | rfl <;> first
      | (exfalso; revert heh; decide)
      | (obtain ⟨x, hx, hxe⟩ := ex_ev (.blk (.rx 2050 1 5353 3 40 true (.query (pE 3 2050)) [] [])) (by simp [ks1])
         exact ⟨x, hx, 1, 5353, 3, 40, true, .query (pE 3 2050), [], [], hxe, rfl, rfl, by decide⟩)
      | (obtain ⟨x, hx, hxe⟩ := ex_ev (.blk (.rx 2070 0 5353 20 100 false .response [] [])) (by simp [ks1])
         exact ⟨x, hx, 0, 5353, 20, 100, false, .response, [], [], hxe, rfl, rfl, by decide⟩)
      | (obtain ⟨x, hx, hxe⟩ := ex_ev (.blk (.rx 3050 1 5353 5 60 false (.query (pE 5 3050)) [] [])) (by simp [ks1])
         exact ⟨x, hx, 1, 5353, 5, 60, false, .query (pE 5 3050), [], [], hxe, rfl, rfl, by decide⟩)
      | (obtain ⟨x, hx, hxe⟩ := ex_ev (.blk (.rx 7100 1 5353 6 60 false (.query (pE 6 7100)) [] [])) (by simp [ks1])
         exact ⟨x, hx, 1, 5353, 6, 60, false, .query (pE 6 7100), [], [], hxe, rfl, rfl, by decide⟩)
      | (obtain ⟨x, hx, hxe⟩ := ex_ev (.blk (.rx 16050 1 5353 7 60 false (.query (pE 7 16050)) [] [])) (by simp [ks1])
         exact ⟨x, hx, 1, 5353, 7, 60, false, .query (pE 7 16050), [], [], hxe, rfl, rfl, by decide⟩)
  · intro x hx t addr port dataId size hasQu kind seen draws hxe ty known qu hq
    have hk := mem_ev x hx
    rw [hxe] at hk
    rcases mem_ks1 hk with h | h | h | h | h | h <;> cases h <;> first
      | (exfalso; revert hq; simp [content, ann]; done)
      | exact ⟨_, rfl⟩
  · intro x hx t addr port dataId size hasQu p' seen draws hxe
    have hk := mem_ev x hx
    rw [hxe] at hk
    rcases mem_ks1 hk with h | h | h | h | h | h <;> cases h
    · refine ⟨[], qsQU, [], fromRegistryE _ _ qsQU [] (by intro q0 h0; simp [qsQU] at h0; subst h0; exact ⟨rfl, rfl⟩), ?_⟩
      intro ty known qu hq
      have : ty = encS T ∧ known = [] ∧ qu = true := by simpa [content, q] using hq
      obtain ⟨rfl, rfl, rfl⟩ := this
      exact itemOf1 2050 true qsQU [] [] true (by simp [qsQU]) (fun _ => rfl)
    all_goals
      refine ⟨[], qsQM, [kn], fromRegistryE _ _ qsQM [kn] (by intro q0 h0; simp [qsQM] at h0; subst h0; exact ⟨rfl, rfl⟩), ?_⟩
      intro ty known qu hq
      have : ty = encS T ∧ known = [s] ∧ qu = false := by simpa [content, q] using hq
      obtain ⟨rfl, rfl, rfl⟩ := this
      exact itemOf1 _ false qsQM [kn] [s] false (by simp [qsQM]) (by intro h; cases h)
  · intro x hx _ o ho
    exfalso
    have hv := List.mem_map_of_mem (f := fun x : Reply.Host × KEv × Reply.StepOut => x.2.2.outs) hx
    rw [rt1_outs] at hv
    have : x.2.2.outs = [] := by simpa using hv
    rw [this] at ho
    cases ho
  · intro x hx t W hxe i hi
    have hk := mem_ev x hx
    rw [hxe] at hk
    rcases mem_ks1 hk with h | h | h | h | h | h <;> cases h
    cases hi

/-- every host of the trace is a responder run (hosts other than 0 and 1 process no delivery) -/
theorem responders : Responders id tr 20000 := by
  intro hid
  by_cases h0 : hid = 0
  · subst h0
    exact ⟨N0, 4500, tbl, fun a => a, content, 0, ks0, hEnd0, cEnd0, rt0, rfl, responderRun0⟩
  by_cases h1 : hid = 1
  · subst h1
    exact ⟨N1, 4500, [], fun a => a, content, 0, ks1, hEnd1, cEnd1, rt1, rfl, responderRun1⟩
  refine ⟨⟨hid, encS, encS⟩, 4500, [], fun a => a, fun _ => [], 20001, [], {}, 20001, [], rfl,
    { tyInj := encS_inj, svInj := encS_inj, run := KRun.nil _ _, covers := by decide, noTC := ?_, purgeKeeps := ?_, rx := ?_,
      isQuery := ?_, query := ?_, outs := ?_, purge := ?_ }⟩
  · intro _ _ _ _ _ _ _ _ _ hm; cases hm
  · intro x hx; cases hx
  · intro e he heh
    exfalso
    rw [dlvs_tr] at he
    simp only [List.mem_cons, List.not_mem_nil, or_false] at he
    rcases he with rfl | rfl | rfl | rfl | rfl | rfl | rfl | rfl | rfl | rfl | rfl | rfl <;> simp at heh <;> omega
  · intro x hx; cases hx
  · intro x hx; cases hx
  · intro x hx; cases hx
  · intro x hx; cases hx


/-! #### the browser over the cache of its host -/

/-- the pointer record host 1 caches at 2070 ms -/
def pr : Rec := ⟨T, 12, 1, false, 4500, 2070, .ptr A⟩
def aliasOf (σ : Link.Svc) : String := if σ = s then A else "-"

theorem cacheRun : CacheRun tr 20000 2000 b := by
  refine ⟨⟨id, fun n => [n], [T], T, aliasOf, [], [.datagram 2070 [pr]], by simp, ?_, ?_, by decide, by decide, by decide⟩⟩
  · refine ⟨⟨by decide, by decide⟩, ?_⟩
    intro ev hev
    simp only [List.nil_append, List.mem_singleton] at hev
    subst hev
    constructor
    · intro r' hr' _
      simp only [List.mem_singleton] at hr'; subst hr'
      exact Or.inl ⟨⟨_, rfl⟩, rfl, by simp [pr]⟩
    · intro r1 h1 r2 h2 a a' _ _ hl; exact hl
  · intro σ ev hev
    simp only [List.nil_append, List.cons_append, List.mem_cons, List.not_mem_nil, or_false] at hev
    rcases hev with rfl | rfl
    · trivial
    · intro u hu huniq
      simp only [List.mem_singleton] at hu
      subst hu
      cases huniq

theorem caches : ∀ x ∈ browses tr, CacheRun tr 20000 x.1 x.2 := by
  intro x hx
  have : browses tr = [(2000, b)] := by decide
  rw [this] at hx
  simp only [List.mem_singleton] at hx
  subst hx
  exact cacheRun

/-- **all hypotheses of `C07_convergence_from_models_partial` at once**: this trace — one registering host, one browsing host that
sends its own questions — satisfies WF, K7, K3b and is, host by host and browser by browser, the projection of runs of the C08/C09
machine, C10's scheduler, the C11/C12 reply model fed by C03, and the C04 browser over the C05/C06 cache -/
theorem fromModels : C07_ContractsFromModels id tr 20000 where
  wf := contracts.wf
  k7 := contracts.k7
  k3b := contracts.k3b
  hosts := hosts
  browsers := browsers
  responders := responders
  caches := caches

/-- … so the theorem applies and its conclusion is the non-trivial one: the browser on host 1 reports the registered instance -/
example : live tr b s = true :=
  (C07_convergence_from_models_partial id tr 20000 fromModels (by decide) 2000 b (by decide) (by decide) s).trans (by decide)

end C07ex5

end Zc
