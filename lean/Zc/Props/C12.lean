import Zc.Proofs.QueueRun
import Zc.Proofs.Classify
import Zc.Proofs.Response
/-! # C12 — reply timing: jitter, aggregation, one-second protection, truncated queries

Numbers in the statements (20, 120, 500, 1000, 1020, 1200, 400) come from the English property;
`Zc.GenFacts.Reply` proves that today's constants imply them.

Quantification: the queue theorems hold for **every** run `Run p q₀ …` — every finite sequence of
`add`/`fire` events that satisfies the event-loop axioms (`QEv.enabled`: monotone clock, a timer
fires exactly when due, the clock never passes a due timer, every draw lies in the interval the code
asked for, a stamp is not in the future) — by induction over the run.  The classification theorems
hold for every cache state, clock value and question mix.

Reading of "arrival" for the queue: an `add` carries the stamp `now` the code passes
(`first_packet.now`) and the loop time `clock` at which it is executed; for an ordinary query the two
coincide (`t`), for a reassembled truncated query the stamp is the arrival of its first packet and
`clock` the instant the hold timer fired.  Lower bounds are relative to the stamp, upper bounds to
the clock. -/
namespace Zc.Reply
open GenFacts

/-! ## C12_window — jitter and aggregation bounds -/

/-- Every record multicast from a queue at `s` answers an `add` (a query) stamped `t`, executed at
`c ≤ s`, with `t + 20 + addl ≤ s ≤ c + agg + addl`; the batch carries no record twice. -/
theorem C12_window {p : QP} (hp : p.ok) {c0 : Int} {evs : List QEv} {q' : Queue} {c' : Int} {outs : List (Int × Dict)}
    (h : Run p {} c0 evs q' c' outs) :
    ∀ o ∈ outs, o.2.keys.Nodup ∧ ∀ r ∈ o.2.keys, ∃ a ∈ addsOf evs,
      r ∈ a.keys ∧ a.clock ≤ o.1 ∧ a.now + 20 + p.addl ≤ o.1 ∧ o.1 ≤ a.clock + p.agg + p.addl := by
  intro o ho
  obtain ⟨hn, hw⟩ := (h.safe hp [] (QInv.init p c0)).2 o ho
  refine ⟨hn, fun r hr => ?_⟩
  obtain ⟨a, ha, h1, h2, h3, h4⟩ := hw r hr
  have := drawLo_eq
  exact ⟨a, by simpa using ha, h1, h2, by omega, h4⟩

/-- the aggregation queue (`out_queue`): no earlier than 20 ms after the query arrived, no later than 500 ms -/
theorem C12_window_aggregate {c0 : Int} {evs : List QEv} {q' : Queue} {c' : Int} {outs : List (Int × Dict)}
    (h : Run outQP {} c0 evs q' c' outs) :
    ∀ o ∈ outs, ∀ r ∈ o.2.keys, ∃ a ∈ addsOf evs, r ∈ a.keys ∧ a.clock ≤ o.1 ∧ a.now + 20 ≤ o.1 ∧ o.1 ≤ a.clock + 500 := by
  intro o ho r hr
  obtain ⟨a, ha, h1, h2, h3, h4⟩ := (C12_window outQP_ok h o ho).2 r hr
  have e1 := outQP_addl; have e2 := outQP_agg
  exact ⟨a, ha, h1, h2, by omega, by omega⟩

/-- the protected queue (`out_delay_queue`): no earlier than 1000 + 20 ms, no later than 1000 + 200 ms -/
theorem C12_window_protected {c0 : Int} {evs : List QEv} {q' : Queue} {c' : Int} {outs : List (Int × Dict)}
    (h : Run delayQP {} c0 evs q' c' outs) :
    ∀ o ∈ outs, ∀ r ∈ o.2.keys, ∃ a ∈ addsOf evs, r ∈ a.keys ∧ a.clock ≤ o.1 ∧ a.now + 1020 ≤ o.1 ∧ o.1 ≤ a.clock + 1200 := by
  intro o ho r hr
  obtain ⟨a, ha, h1, h2, h3, h4⟩ := (C12_window delayQP_ok h o ho).2 r hr
  have e1 := delayQP_addl; have e2 := delayQP_agg
  exact ⟨a, ha, h1, h2, by omega, by omega⟩

/-- Every queued answer is on the wire in time: after any reachable state, an `add` executed at `c`
is followed — whatever happens next — by a batch containing each of its records at some
`s ∈ [c, c + agg + addl]`, unless the run stops before `c + agg + addl`. -/
theorem C12_on_wire {p : QP} (hp : p.ok) {c0 : Int} {pre : List QEv} {q1 : Queue} {c1 : Int} {outs1 : List (Int × Dict)}
    (hpre : Run p {} c0 pre q1 c1 outs1)
    {c now draw : Int} {answers : Dict} {post : List QEv} {q' : Queue} {c' : Int} {outs : List (Int × Dict)}
    (hrun : Run p q1 c1 (.add c now draw answers :: post) q' c' outs) :
    ∀ r ∈ answers.keys,
      (∃ o ∈ outs, r ∈ o.2.keys ∧ c ≤ o.1 ∧ o.1 ≤ c + p.agg + p.addl) ∨ c' ≤ c + p.agg + p.addl := by
  intro r hr
  have hI1 := (hpre.safe hp [] (QInv.init p c0)).1
  cases hrun with
  | cons he hrest =>
    obtain ⟨hI2, _⟩ := hI1.step hp he
    obtain ⟨g', hg', hr', hb⟩ := Queue.add_has p q1 hI1 c now draw he.1 answers hr
    have htimes := hrest.times
    rcases hrest.live hp _ hI2 r (c + p.agg + p.addl) ⟨g', hg', hr', by omega⟩ with ⟨o, ho, h1, h2⟩ | ⟨g, hg, _, hD⟩
    · exact Or.inl ⟨o, by simpa [Queue.stepQ] using ho, h1, htimes.2 o ho, h2⟩
    · have := (hrest.safe hp _ hI2).1.not_late hg
      exact Or.inr (by omega)

/-- ... within 500 ms for the aggregation queue -/
theorem C12_on_wire_aggregate {c0 : Int} {pre : List QEv} {q1 : Queue} {c1 : Int} {outs1 : List (Int × Dict)}
    (hpre : Run outQP {} c0 pre q1 c1 outs1)
    {c now draw : Int} {answers : Dict} {post : List QEv} {q' : Queue} {c' : Int} {outs : List (Int × Dict)}
    (hrun : Run outQP q1 c1 (.add c now draw answers :: post) q' c' outs) :
    ∀ r ∈ answers.keys, (∃ o ∈ outs, r ∈ o.2.keys ∧ c ≤ o.1 ∧ o.1 ≤ c + 500) ∨ c' ≤ c + 500 := by
  intro r hr
  have e1 := outQP_addl; have e2 := outQP_agg
  rcases C12_on_wire outQP_ok hpre hrun r hr with ⟨o, ho, h1, h2, h3⟩ | h
  · exact Or.inl ⟨o, ho, h1, h2, by omega⟩
  · exact Or.inr (by omega)

/-- ... within 1.2 s for the protected queue -/
theorem C12_on_wire_protected {c0 : Int} {pre : List QEv} {q1 : Queue} {c1 : Int} {outs1 : List (Int × Dict)}
    (hpre : Run delayQP {} c0 pre q1 c1 outs1)
    {c now draw : Int} {answers : Dict} {post : List QEv} {q' : Queue} {c' : Int} {outs : List (Int × Dict)}
    (hrun : Run delayQP q1 c1 (.add c now draw answers :: post) q' c' outs) :
    ∀ r ∈ answers.keys, (∃ o ∈ outs, r ∈ o.2.keys ∧ c ≤ o.1 ∧ o.1 ≤ c + 1200) ∨ c' ≤ c + 1200 := by
  intro r hr
  have e1 := delayQP_addl; have e2 := delayQP_agg
  rcases C12_on_wire delayQP_ok hpre hrun r hr with ⟨o, ho, h1, h2, h3⟩ | h
  · exact Or.inl ⟨o, ho, h1, h2, by omega⟩
  · exact Or.inr (by omega)

/-- the invariant behind both: in every reachable state there is exactly one armed timer iff the
queue is non-empty, and it is due inside the head group's window and not in the past -/
theorem C12_one_timer {p : QP} (hp : p.ok) {c0 : Int} {evs : List QEv} {q' : Queue} {c' : Int} {outs : List (Int × Dict)}
    (h : Run p {} c0 evs q' c' outs) :
    (q'.groups = [] → q'.timer = none) ∧
    (∀ g ∈ q'.groups, ∃ d, q'.timer = some d ∧ c' ≤ d ∧ d ≤ g.born + p.agg + p.addl) := by
  have hI := (h.safe hp [] (QInv.init p c0)).1
  constructor
  · intro hnil
    have := hI.sk.timer
    rw [hnil] at this
    exact this
  · intro g hg
    have hne : q'.groups.map Group.sk ≠ [] := by
      intro h'; rw [List.map_eq_nil_iff] at h'; rw [h'] at hg; cases hg
    obtain ⟨d, hd⟩ := hI.sk.nonempty_timer hne
    have := hI.sk.timer_le hd g.sk (List.mem_map_of_mem hg)
    exact ⟨d, hd, this.2, by simpa [Sk.deadline, Group.sk] using this.1⟩

/-! ## C12_nodup — a batch never contains a record twice -/

theorem additionalsOf_spec (d : Dict) : (additionalsOf d).Nodup ∧ ∀ x ∈ additionalsOf d, x ∉ d.keys := by
  unfold additionalsOf
  have key : ∀ (l acc : List RecId), acc.Nodup → (∀ x ∈ acc, x ∉ d.keys) →
      (l.foldl (fun acc a => if d.keys.contains a || acc.contains a then acc else acc ++ [a]) acc).Nodup ∧
      ∀ x ∈ l.foldl (fun acc a => if d.keys.contains a || acc.contains a then acc else acc ++ [a]) acc, x ∉ d.keys := by
    intro l
    induction l with
    | nil => intro acc h1 h2; exact ⟨h1, h2⟩
    | cons a l ih =>
      intro acc h1 h2
      simp only [List.foldl_cons]
      split
      · exact ih acc h1 h2
      · rename_i hc
        simp only [Bool.or_eq_true, List.contains_eq_mem, decide_eq_true_eq, not_or] at hc
        apply ih
        · rw [List.nodup_append]
          refine ⟨h1, by simp, ?_⟩
          intro x hx y hy
          simp at hy; subst hy
          intro hxy; subst hxy; exact hc.2 hx
        · intro x hx
          rcases List.mem_append.mp hx with hx | hx
          · exact h2 x hx
          · simp at hx; subst hx; exact hc.1
  exact key _ [] List.nodup_nil (by simp)

/-- the datagram built from a batch (`_add_answers_additionals`): answers and additionals together
contain no record twice -/
theorem C12_nodup_wire (b : Dict) (hb : b.keys.Nodup) :
    match Out.ofMcast b with
    | .mcast answers adds => (answers ++ adds).Nodup
    | _ => True := by
  simp only [Out.ofMcast]
  obtain ⟨h1, h2⟩ := additionalsOf_spec b
  rw [List.nodup_append]
  refine ⟨hb, h1, ?_⟩
  intro x hx y hy hxy
  subst hxy
  exact h2 x hy hx

/-- every batch of every run is duplicate free on the wire -/
theorem C12_nodup {p : QP} (hp : p.ok) {c0 : Int} {evs : List QEv} {q' : Queue} {c' : Int} {outs : List (Int × Dict)}
    (h : Run p {} c0 evs q' c' outs) :
    ∀ o ∈ outs, match Out.ofMcast o.2 with
      | .mcast answers adds => (answers ++ adds).Nodup
      | _ => True :=
  fun o ho => C12_nodup_wire o.2 (C12_window hp h o ho).1

/-- records just sent are removed from the groups that stay queued -/
theorem C12_nodup_removed {p : QP} (hp : p.ok) {c0 : Int} {evs : List QEv} {q : Queue} {c : Int} {outs : List (Int × Dict)}
    (h : Run p {} c0 evs q c outs) {now : Int} (hc : c ≤ now) (ht : q.timer = some now) {b : Dict}
    (hb : (q.ready now).2 = some b) :
    ∀ g ∈ (q.ready now).1.groups, ∀ r ∈ b.keys, r ∉ g.answers.keys :=
  (((h.safe hp [] (QInv.init p c0)).1.ready hc ht).2 b hb).2.2

/-! ## C12_immediate — probes and single SRV/A/AAAA/NSEC questions are answered at once -/

/-- An answer of a QM question goes to `_mcast_now` — the set `handle_assembled_query` multicasts in
the arrival block — exactly when the query is a probe, or the record was not seen in the last second
and the query consists of a single SRV, A, AAAA or NSEC question. -/
theorem C12_immediate (probe : Bool) (seen : SeenMap) (now : Int) (nq q0 : Nat) (answers : Dict) (r : RecId)
    (hr : r ∈ answers.keys) :
    r ∈ (({} : QR).addMcast probe seen now nq q0 answers).mcastNow ↔
      probe = true ∨ (inLastSecond (seen.get r) now = false ∧ nq = 1 ∧ immediateType q0) := by
  rw [(addMcast_sets probe seen now nq q0 answers {} r).1, mcRoute_now]
  simp [hr]

/-- ... and everything else is aggregated (not sent at once, not protected) -/
theorem C12_aggregated (probe : Bool) (seen : SeenMap) (now : Int) (nq q0 : Nat) (answers : Dict) (r : RecId)
    (hr : r ∈ answers.keys) :
    r ∈ (({} : QR).addMcast probe seen now nq q0 answers).mcastAgg ↔
      probe = false ∧ inLastSecond (seen.get r) now = false ∧ ¬ (nq = 1 ∧ immediateType q0) := by
  rw [(addMcast_sets probe seen now nq q0 answers {} r).2.2.1, mcRoute_aggregate]
  simp [hr]

/-! ## C12_one_sec — one-second protection -/

/-- QM path, no TTL hypothesis needed: a record seen multicast less than one second before `now`
(the query's arrival) is — probe replies excepted — routed to the protected queue and to nothing
else that multicasts. -/
theorem C12_one_sec_qm (seen : SeenMap) (now : Int) (nq q0 : Nat) (answers : Dict) (r : RecId) (s : Seen)
    (hr : r ∈ answers.keys) (hs : seen.get r = some s) (hage : now - s.created < 1000) :
    let qr := ({} : QR).addMcast false seen now nq q0 answers
    r ∈ qr.mcastLast ∧ r ∉ qr.mcastNow ∧ r ∉ qr.mcastAgg := by
  have hin : inLastSecond (seen.get r) now = true := (inLastSecond_iff _ _).mpr ⟨s, hs, hage⟩
  obtain ⟨h1, h2, h3, _⟩ := addMcast_sets false seen now nq q0 answers {} r
  refine ⟨h2.mpr (Or.inr ⟨hr, (mcRoute_lastSecond _ _ _ _).mpr ⟨rfl, hin⟩⟩), ?_, ?_⟩
  · rw [h1, mcRoute_now]; simp [hin]
  · rw [h3, mcRoute_aggregate]; simp [hin]

/-- the full-strength statement for the QU path: a non-probe QU question never causes an immediate
multicast of a record seen less than one second ago -/
def C12_one_sec_qu_full : Prop :=
  ∀ (seen : SeenMap) (now : Int) (answers : Dict) (r : RecId) (s : Seen),
    r ∈ answers.keys → seen.get r = some s → s.created ≤ now → now - s.created < 1000 →
    r ∉ (({} : QR).addQu false seen now answers).mcastNow

/-- QU path (D12): holds when the cached copy's TTL is at least 4 s, because then a quarter of the TTL
is at least one second; the record is unicast instead. -/
theorem C12_one_sec_qu_partial (seen : SeenMap) (now : Int) (answers : Dict) (r : RecId) (s : Seen)
    (hr : r ∈ answers.keys) (hs : seen.get r = some s) (hage : now - s.created < 1000) (httl : 4 ≤ s.ttl) :
    r ∉ (({} : QR).addQu false seen now answers).mcastNow ∧ r ∈ (({} : QR).addQu false seen now answers).ucast := by
  have hq : withinQuarter (seen.get r) now = true := by
    rw [withinQuarter_iff]; exact ⟨s, hs, by omega⟩
  obtain ⟨h1, h2, _, _⟩ := addQu_sets false seen now answers {} r
  refine ⟨?_, h1.mpr (Or.inr ⟨hr, Or.inr hq⟩)⟩
  rw [h2]; simp [hq]

/-- D12, the excluded point: TTL 3 s, seen 800 ms ago, QU question ⇒ multicast again at once -/
theorem C12_one_sec_qu_refuted : ¬ C12_one_sec_qu_full := by
  intro h
  have := h [(0, { created := 0, ttl := 3 })] 800 [(0, [])] 0 { created := 0, ttl := 3 } (by decide) (by decide) (by decide) (by decide)
  exact this (by decide)

/-- Timing of the protected reply: a record classified at stamp `t` because of a sighting at
`created ≤ t` goes out, from the protected queue, no earlier than one second after that sighting and
no later than 1.2 s after the query was handled (`c`; `= t` for an ordinary query). -/
theorem C12_one_sec_timing {c0 : Int} {evs : List QEv} {q' : Queue} {c' : Int} {outs : List (Int × Dict)}
    (h : Run delayQP {} c0 evs q' c' outs) (created : Int) :
    ∀ o ∈ outs, ∀ r ∈ o.2.keys, ∃ a ∈ addsOf evs, r ∈ a.keys ∧
      (created ≤ a.now → created + 1000 ≤ o.1) ∧ o.1 ≤ a.clock + 1200 := by
  intro o ho r hr
  obtain ⟨a, ha, h1, _, h3, h4⟩ := C12_window_protected h o ho r hr
  exact ⟨a, ha, h1, fun hc => by omega, h4⟩

/-- "answered in the arrival block": whatever `async_response` put into `_mcast_now` (and `_ucast`)
is sent by `handle_assembled_query` itself — in the block in which the query is handled — as one
multicast datagram; the listener's state is untouched and each queue receives at most one `add`
stamped with the first packet's arrival, with a draw in 20..120 ms. -/
theorem C12_immediate_block {h : Host} {clock : Int} {pkts : List Pkt} {addr port : Nat} {seen : SeenMap} {draws : List Int}
    {r : StepOut} {rest : List Int} (hs : h.assemble clock pkts addr port seen draws = .ok (r, rest))
    {qa : QA} (hqa : asyncResponse pkts (Gen.Reply.ucast_source port) seen = some qa) :
    (qa.mcastNow.isEmpty = false → Out.ofMcast qa.mcastNow ∈ r.outs) ∧
    (∀ o ∈ r.outs, ∀ a b, o = Out.mcast a b → o = Out.ofMcast qa.mcastNow) ∧
    ∃ first, pkts.head? = some first ∧
      (r.host.outQ = h.outQ ∨ ∃ d, 20 ≤ d ∧ d ≤ 120 ∧ r.host.outQ = h.outQ.add outQP clock first.now d qa.mcastAgg) ∧
      (r.host.delayQ = h.delayQ ∨ ∃ d, 20 ≤ d ∧ d ≤ 120 ∧ r.host.delayQ = h.delayQ.add delayQP clock first.now d qa.mcastLast) := by
  obtain ⟨first, hf, ho, _, hq1, hq2⟩ := assemble_spec hs hqa
  have e1 := drawLo_eq; have e2 := drawHi_eq
  refine ⟨?_, ?_, first, hf, ?_, ?_⟩
  · intro hne; rw [ho]; simp [immediateOuts, hne]
  · intro o hmem a b hob
    rw [ho] at hmem
    simp only [immediateOuts, List.mem_append] at hmem
    rcases hmem with hmem | hmem
    · split at hmem
      · cases hmem
      · simp at hmem; rw [hmem] at hob; cases hob
    · split at hmem
      · cases hmem
      · simpa using hmem
  · rcases hq1 with h1 | ⟨d, h1, h2, h3⟩
    · exact Or.inl h1
    · exact Or.inr ⟨d, by omega, by omega, h3⟩
  · rcases hq2 with h1 | ⟨d, h1, h2, h3⟩
    · exact Or.inl h1
    · exact Or.inr ⟨d, by omega, by omega, h3⟩

/-! ## C12_tc — truncated queries -/

/-- A truncated packet is not answered in its own block: it is stored, any timer of the same source
address is cancelled, and exactly one timer for that address is armed, due 400–500 ms after this
packet (the draw `d` is the one `takeDraw tcLo tcHi` accepted); timers of other addresses are
untouched. -/
theorem C12_tc_hold (l : Listener) (t : Int) (addr port : Nat) (p : Pkt) {draws : List Int} {d : Int} {rest : List Int}
    (hd : takeDraw tcLo tcHi draws = .ok (d, rest)) :
    (∃ tm, (l.defer t addr port p d).timers.filter (fun x => x.addr == addr) = [tm] ∧ t + 400 ≤ tm.due ∧ tm.due ≤ t + 500) ∧
    (∀ a, a ≠ addr → (l.defer t addr port p d).timers.filter (fun x => x.addr == a) = l.timers.filter (fun x => x.addr == a)) := by
  obtain ⟨h1, h2, _⟩ := takeDraw_ok hd
  have e1 := tcLo_eq; have e2 := tcHi_eq
  refine ⟨⟨_, Listener.defer_timer l t addr port p d, ?_, ?_⟩, fun a ha => Listener.defer_other l t addr port p d a ha⟩ <;>
    (simp only; omega)

/-- When the timer fires (or an untruncated packet of the same source arrives: `msg = some _`) **all**
deferred packets of the address are answered by one `handle_assembled_query`, after which nothing is
deferred and no timer is armed for the address: each packet is answered once. -/
theorem C12_tc_once {h : Host} {clock : Int} {msg : Option Pkt} {addr port : Nat} {seen : SeenMap} {draws : List Int}
    {r : StepOut} {rest : List Int} (hs : h.respond clock msg addr port seen draws = .ok (r, rest)) :
    ({ h with lis := (h.lis.cancelTimer addr).popDeferred addr } : Host).assemble clock
        (h.lis.deferredOf addr ++ msg.toList) addr port seen draws = .ok (r, rest) ∧
    (r.host.lis.deferredOf addr = [] ∧ r.host.lis.timers.filter (fun x => x.addr == addr) = []) := by
  have ha := respond_spec hs
  refine ⟨ha, ?_⟩
  have hl : r.host.lis = (h.lis.cancelTimer addr).popDeferred addr := by
    cases hqa : asyncResponse (h.lis.deferredOf addr ++ msg.toList) (Gen.Reply.ucast_source port) seen with
    | none => rw [(assemble_none ha hqa).2]
    | some qa => obtain ⟨_, _, _, hlis, _⟩ := assemble_spec ha hqa; exact hlis
  rw [hl]
  exact ⟨Listener.popDeferred_deferredOf _ _, by
    simpa [Listener.popDeferred] using Listener.cancelTimer_none h.lis addr⟩

/-- ... using the union of all their known answers: every record the assembled reply hands out —
unicast, at once, aggregated or protected — is a candidate answer of a question of one of the
packets that **no** known answer of **any** (non-probe) packet of the train suppresses. -/
theorem C12_tc_union {pkts : List Pkt} {us : Bool} {seen : SeenMap} {qa : QA}
    (h : asyncResponse pkts us seen = some qa) (r : RecId)
    (hr : r ∈ qa.ucast.keys ∨ r ∈ qa.mcastNow.keys ∨ r ∈ qa.mcastAgg.keys ∨ r ∈ qa.mcastLast.keys) :
    ∃ p ∈ pkts, ∃ it ∈ p.items, ∃ c ∈ it.cands, c.id = r ∧ suppresses (unionKnown pkts) c = false :=
  asyncResponse_sources h r hr

/-- what "suppresses" means: the record is one the known answers can suppress at all and the *last*
known answer equal to it carries more than half its TTL -/
theorem C12_suppresses_iff (known : List (RecId × Nat)) (c : Cand) :
    suppresses known c = true ↔
      c.sup = true ∧ ∃ k, known.reverse.find? (fun k => k.1 == c.id) = some k ∧ (c.ttl : Int) < 2 * (k.2 : Int) := by
  unfold suppresses
  cases hf : known.reverse.find? (fun k => k.1 == c.id) with
  | none => simp
  | some k => simp [GenFacts.rrset_suppresses]

/-! ## non-vacuity: a concrete legal run in which both branches (merge, wait-for-send_before) occur -/

example : Run outQP {} 0 [.add 0 0 20 [(1, [2])], .fire 20] {} 20 [(20, [(1, [2])])] := by
  refine Run.cons (e := .add 0 0 20 [(1, [2])]) ?_ (Run.cons (e := .fire 20) ?_ (Run.nil _ _))
  · refine ⟨by decide, by decide, by decide, by decide, ?_⟩
    intro d hd; cases hd
  · exact ⟨by decide, by decide⟩

/-- the hypotheses of `C12_one_sec_qu_partial` are satisfiable (TTL exactly 4 s, seen 999 ms ago) -/
example : ∃ (seen : SeenMap) (now : Int) (answers : Dict) (r : RecId) (s : Seen),
    r ∈ answers.keys ∧ seen.get r = some s ∧ now - s.created < 1000 ∧ 4 ≤ s.ttl :=
  ⟨[(0, { created := 0, ttl := 4 })], 999, [(0, [])], 0, { created := 0, ttl := 4 }, by decide, by decide, by decide, by decide⟩

example : ((({} : QR).addMcast false [(7, { created := 100, ttl := 120 })] 1099 1 33 [(7, [])]).mcastLast = [7]) := by decide
example : ((({} : QR).addMcast false [(7, { created := 100, ttl := 120 })] 1100 1 33 [(7, [])]).mcastNow = [7]) := by decide
example : ((({} : QR).addMcast false [(7, { created := 100, ttl := 120 })] 1100 2 33 [(7, [])]).mcastAgg = [7]) := by decide

end Zc.Reply
