import Zc.Proofs.QueueRun
import Zc.Proofs.Classify
import Zc.Proofs.Response
import Zc.Proofs.ResponseComplete
import Zc.Props.C12Host
/-! # C12 — reply timing: jitter, aggregation, one-second protection, truncated queries

Numbers in the statements (20, 120, 500, 1000, 1020, 1200, 400) come from the English property;
`Zc.GenFacts.Reply` proves that today's constants imply them.

Quantification: the queue theorems hold for **every** run `Run p q₀ …` — every finite sequence of
`add`/`fire` events that satisfies the event-loop axioms (`QEv.enabled`: monotone clock, a timer
fires exactly when due, the clock never passes a due timer, every draw lies in the interval the code
asked for, a stamp is not in the future) — by induction over the run.  The classification theorems
hold for every cache state, clock value and question mix.

Reading of "arrival" for the queue: an `add` carries the stamp `now` the code passes
(`first_packet.now`) and the loop time `clock` at which it is executed; for an ordinary query the two
coincide (`t`), for a reassembled truncated query the stamp is the arrival of its first packet and
`clock` the instant the hold timer fired.  Lower bounds are relative to the stamp, upper bounds to
the clock. -/
namespace Zc.Reply
open GenFacts

/-! ## C12_window — jitter and aggregation bounds -/

/-- Every record multicast from a queue at `s` answers an `add` (a query) stamped `t`, executed at
`c ≤ s`, with `t + 20 + addl ≤ s ≤ c + agg + addl`; the batch carries no record twice. -/
theorem C12_window {p : QP} (hp : p.ok) {c0 : Int} {evs : List QEv} {q' : Queue} {c' : Int} {outs : List (Int × Dict)}
    (h : Run p {} c0 evs q' c' outs) :
    ∀ o ∈ outs, o.2.keys.Nodup ∧ ∀ r ∈ o.2.keys, ∃ a ∈ addsOf evs,
      r ∈ a.keys ∧ a.clock ≤ o.1 ∧ a.now + 20 + p.addl ≤ o.1 ∧ o.1 ≤ a.clock + p.agg + p.addl := by
  intro o ho
  obtain ⟨hn, hw⟩ := (h.safe hp [] (QInv.init p c0)).2 o ho
  refine ⟨hn, fun r hr => ?_⟩
  obtain ⟨a, ha, h1, h2, h3, h4⟩ := hw r hr
  have := drawLo_eq
  exact ⟨a, by simpa using ha, h1, h2, by omega, h4⟩

/-- the aggregation queue (`out_queue`): no earlier than 20 ms after the query arrived, no later than 500 ms -/
theorem C12_window_aggregate {c0 : Int} {evs : List QEv} {q' : Queue} {c' : Int} {outs : List (Int × Dict)}
    (h : Run outQP {} c0 evs q' c' outs) :
    ∀ o ∈ outs, ∀ r ∈ o.2.keys, ∃ a ∈ addsOf evs, r ∈ a.keys ∧ a.clock ≤ o.1 ∧ a.now + 20 ≤ o.1 ∧ o.1 ≤ a.clock + 500 := by
  intro o ho r hr
  obtain ⟨a, ha, h1, h2, h3, h4⟩ := (C12_window outQP_ok h o ho).2 r hr
  have e1 := outQP_addl; have e2 := outQP_agg
  exact ⟨a, ha, h1, h2, by omega, by omega⟩

/-- the protected queue (`out_delay_queue`): no earlier than 1000 + 20 ms, no later than 1000 + 200 ms -/
theorem C12_window_protected {c0 : Int} {evs : List QEv} {q' : Queue} {c' : Int} {outs : List (Int × Dict)}
    (h : Run delayQP {} c0 evs q' c' outs) :
    ∀ o ∈ outs, ∀ r ∈ o.2.keys, ∃ a ∈ addsOf evs, r ∈ a.keys ∧ a.clock ≤ o.1 ∧ a.now + 1020 ≤ o.1 ∧ o.1 ≤ a.clock + 1200 := by
  intro o ho r hr
  obtain ⟨a, ha, h1, h2, h3, h4⟩ := (C12_window delayQP_ok h o ho).2 r hr
  have e1 := delayQP_addl; have e2 := delayQP_agg
  exact ⟨a, ha, h1, h2, by omega, by omega⟩

/-- Every queued answer is on the wire in time: after any reachable state, an `add` executed at `c`
is followed — whatever happens next, **registry changes included** (`QEv.remove`: `async_remove_answers`, the repair of D5,
called when a service is unregistered) — by a batch containing each of its records at some `s ∈ [c, c + agg + addl]`, unless
the run stops before `c + agg + addl` or the record is withdrawn by such a change (`withdrawnIn post r`: then it must *not*
go out any more, C08).  Records of other services are not affected by a withdrawal (`Queue.remove_keeps`). -/
theorem C12_on_wire {p : QP} (hp : p.ok) {c0 : Int} {pre : List QEv} {q1 : Queue} {c1 : Int} {outs1 : List (Int × Dict)}
    (hpre : Run p {} c0 pre q1 c1 outs1)
    {c now draw : Int} {answers : Dict} {post : List QEv} {q' : Queue} {c' : Int} {outs : List (Int × Dict)}
    (hrun : Run p q1 c1 (.add c now draw answers :: post) q' c' outs) :
    ∀ r ∈ answers.keys,
      (∃ o ∈ outs, r ∈ o.2.keys ∧ c ≤ o.1 ∧ o.1 ≤ c + p.agg + p.addl) ∨ c' ≤ c + p.agg + p.addl ∨ withdrawnIn post r := by
  intro r hr
  have hI1 := (hpre.safe hp [] (QInv.init p c0)).1
  cases hrun with
  | cons he hrest =>
    obtain ⟨hI2, _⟩ := hI1.step hp he
    obtain ⟨g', hg', hr', hb⟩ := Queue.add_has p q1 hI1 c now draw he.1 answers hr
    have htimes := hrest.times
    rcases hrest.live hp _ hI2 r (c + p.agg + p.addl) ⟨g', hg', hr', by omega⟩ with ⟨o, ho, h1, h2⟩ | ⟨g, hg, _, hD⟩ | hw
    · exact Or.inl ⟨o, by simpa [Queue.stepQ] using ho, h1, htimes.2 o ho, h2⟩
    · have := (hrest.safe hp _ hI2).1.not_late hg
      exact Or.inr (Or.inl (by omega))
    · exact Or.inr (Or.inr hw)

/-- ... within 500 ms for the aggregation queue -/
theorem C12_on_wire_aggregate {c0 : Int} {pre : List QEv} {q1 : Queue} {c1 : Int} {outs1 : List (Int × Dict)}
    (hpre : Run outQP {} c0 pre q1 c1 outs1)
    {c now draw : Int} {answers : Dict} {post : List QEv} {q' : Queue} {c' : Int} {outs : List (Int × Dict)}
    (hrun : Run outQP q1 c1 (.add c now draw answers :: post) q' c' outs) :
    ∀ r ∈ answers.keys, (∃ o ∈ outs, r ∈ o.2.keys ∧ c ≤ o.1 ∧ o.1 ≤ c + 500) ∨ c' ≤ c + 500 ∨ withdrawnIn post r := by
  intro r hr
  have e1 := outQP_addl; have e2 := outQP_agg
  rcases C12_on_wire outQP_ok hpre hrun r hr with ⟨o, ho, h1, h2, h3⟩ | h | h
  · exact Or.inl ⟨o, ho, h1, h2, by omega⟩
  · exact Or.inr (Or.inl (by omega))
  · exact Or.inr (Or.inr h)

/-- ... within 1.2 s for the protected queue -/
theorem C12_on_wire_protected {c0 : Int} {pre : List QEv} {q1 : Queue} {c1 : Int} {outs1 : List (Int × Dict)}
    (hpre : Run delayQP {} c0 pre q1 c1 outs1)
    {c now draw : Int} {answers : Dict} {post : List QEv} {q' : Queue} {c' : Int} {outs : List (Int × Dict)}
    (hrun : Run delayQP q1 c1 (.add c now draw answers :: post) q' c' outs) :
    ∀ r ∈ answers.keys, (∃ o ∈ outs, r ∈ o.2.keys ∧ c ≤ o.1 ∧ o.1 ≤ c + 1200) ∨ c' ≤ c + 1200 ∨ withdrawnIn post r := by
  intro r hr
  have e1 := delayQP_addl; have e2 := delayQP_agg
  rcases C12_on_wire delayQP_ok hpre hrun r hr with ⟨o, ho, h1, h2, h3⟩ | h | h
  · exact Or.inl ⟨o, ho, h1, h2, by omega⟩
  · exact Or.inr (Or.inl (by omega))
  · exact Or.inr (Or.inr h)

/-- the invariant behind both: in every reachable state there is exactly one armed timer iff the
queue is non-empty, and it is due inside the head group's window and not in the past -/
theorem C12_one_timer {p : QP} (hp : p.ok) {c0 : Int} {evs : List QEv} {q' : Queue} {c' : Int} {outs : List (Int × Dict)}
    (h : Run p {} c0 evs q' c' outs) :
    (q'.groups = [] → q'.timer = none) ∧
    (∀ g ∈ q'.groups, ∃ d, q'.timer = some d ∧ c' ≤ d ∧ d ≤ g.born + p.agg + p.addl) := by
  have hI := (h.safe hp [] (QInv.init p c0)).1
  constructor
  · intro hnil
    have := hI.sk.timer
    rw [hnil] at this
    exact this
  · intro g hg
    have hne : q'.groups.map Group.sk ≠ [] := by
      intro h'; rw [List.map_eq_nil_iff] at h'; rw [h'] at hg; cases hg
    obtain ⟨d, hd⟩ := hI.sk.nonempty_timer hne
    have := hI.sk.timer_le hd g.sk (List.mem_map_of_mem hg)
    exact ⟨d, hd, this.2, by simpa [Sk.deadline, Group.sk] using this.1⟩

/-! ## registry changes while answers are queued (`async_remove_answers`, the repair of D5) -/

/-- what a withdrawal does to the queue, exactly: afterwards no pending group carries a withdrawn record, neither as an answer
nor as an additional; every other pending answer is still there, in a group with the same window; timer and group windows are
untouched (so the bounds of `C12_window` / `C12_on_wire` go on for the records that stay) -/
theorem C12_remove_exact (q : Queue) (rm : List RecId) :
    (∀ g ∈ (q.removeRecords rm).groups, ∀ r ∈ rm, r ∉ g.answers.keys ∧ ∀ e ∈ g.answers, r ∉ e.2) ∧
    (∀ g ∈ q.groups, ∀ r ∈ g.answers.keys, r ∉ rm → ∃ g' ∈ (q.removeRecords rm).groups, r ∈ g'.answers.keys ∧ g'.sa = g.sa ∧ g'.sb = g.sb) ∧
    (q.removeRecords rm).timer = q.timer ∧ (q.removeRecords rm).groups.map Group.sk = q.groups.map Group.sk := by
  refine ⟨?_, ?_, rfl, map_sk_removeRecords q rm⟩
  · intro g' hg' r hr
    simp only [Queue.removeRecords, List.mem_map] at hg'
    obtain ⟨g, _, rfl⟩ := hg'
    refine ⟨fun h => ((Dict.keys_withdraw _ _ _).mp h).2 hr, ?_⟩
    intro e he hre
    simp only [Dict.withdraw, List.mem_map, List.mem_filter] at he
    obtain ⟨e0, _, rfl⟩ := he
    simp only [List.mem_filter, Bool.not_eq_true', List.contains_eq_mem, decide_eq_false_iff_not] at hre
    exact hre.2 hr
  · intro g hg r hr hnr
    refine ⟨{ g with answers := g.answers.withdraw rm }, ?_, (Dict.keys_withdraw _ _ _).mpr ⟨hr, hnr⟩, rfl, rfl⟩
    simp only [Queue.removeRecords, List.mem_map]
    exact ⟨g, hg, rfl⟩

/-- a legal run with a registry change while answers are queued: records 1 and 3 (additional 2) are queued at 0, record 1 and
its additional 2 are withdrawn at 10; the batch at 20 carries record 3 alone -/
example : Run outQP {} 0 [.add 0 0 20 [(1, [2]), (3, [2])], .remove 10 [1, 2], .fire 20] {} 20 [(20, [(3, [])])] := by
  refine Run.cons (e := .add 0 0 20 [(1, [2]), (3, [2])]) ?_ (Run.cons (e := .remove 10 [1, 2]) ?_ (Run.cons (e := .fire 20) ?_ (Run.nil _ _)))
  · refine ⟨by decide, by decide, by decide, by decide, ?_⟩
    intro d hd; cases hd
  · refine ⟨by decide, ?_⟩
    intro d hd
    have h2 : some (20 : Int) = some d := hd
    cases h2; decide
  · exact ⟨by decide, by decide⟩

/-! ## "aggregated with other pending answers" -/

/-- a later query whose jittered `send_after` is not after the last pending group's joins that group: no new group, no
new timer, its answers leave with the answers that were already waiting -/
theorem C12_aggregates_into_pending (p : QP) (q : Queue) (init : List Group) (last : Group) (hq : q.groups = init ++ [last])
    (clock now draw : Int) (answers : Dict) (hle : now + (draw + p.addl) ≤ last.sa) :
    q.add p clock now draw answers = { q with groups := init ++ [{ last with answers := last.answers.update answers }] } := by
  rcases Queue.add_spec p q clock now draw answers with ⟨hnil, _⟩ | ⟨init', last', hq', _, heq⟩ | ⟨init', last', hq', hlt, _⟩
  · rw [hq] at hnil; simp at hnil
  · rw [hq] at hq'
    obtain ⟨h1, h2⟩ := List.append_inj' hq' rfl
    simp only [List.cons.injEq, and_true] at h2
    subst h1; subst h2
    exact heq
  · rw [hq] at hq'
    obtain ⟨_, h2⟩ := List.append_inj' hq' rfl
    simp only [List.cons.injEq, and_true] at h2
    subst h2
    omega

/-- when the timer fires and something is sent, **everything that is due** (`send_after ≤ now`) is in that one batch -/
theorem C12_batch_takes_all_due {p : QP} {hist : List AddRec} {clock : Int} {q : Queue} (hI : QInv p hist clock q)
    {now : Int} {b : Dict} (hb : (q.ready now).2 = some b) :
    ∀ g ∈ q.groups, g.sa ≤ now → ∀ r ∈ g.answers.keys, r ∈ b.keys := by
  intro g hg hdue r hr
  rcases Queue.ready_spec q now with ⟨_, heq⟩ | ⟨_, _, _, _, heq⟩ | ⟨rest, batch, _, hp, heq⟩
  · rw [heq] at hb; cases hb
  · rw [heq] at hb; cases hb
  · rw [heq] at hb
    obtain ⟨popped, h1, _, h3, _, h5⟩ := popReady_spec now _ _ _ _ hp
    have hbb : b = batch := by
      simp only [readyResult] at hb
      split at hb
      · cases hb
      · simpa using hb.symm
    subst hbb
    rw [h1] at hg
    rcases List.mem_append.mp hg with hg | hg
    · exact (h3 r).mpr (Or.inr ⟨g, hg, hr⟩)
    · -- a group that stays queued has `send_after > now`: the head of the rest has, and the rest is sorted
      exfalso
      have hs := hI.sk.sorted
      rw [h1, List.map_append] at hs
      have hsr := (List.pairwise_append.mp hs).2.1
      cases rest with
      | nil => cases hg
      | cons h0 rs =>
        have h0lt := h5 h0 rfl
        rcases List.mem_cons.mp hg with rfl | hg
        · omega
        · have := (List.pairwise_cons.mp hsr).1 g.sk (List.mem_map_of_mem hg)
          simp only [Group.sk] at this
          omega

/-! ## C12_nodup — a batch never contains a record twice -/

theorem additionalsOf_spec (d : Dict) : (additionalsOf d).Nodup ∧ ∀ x ∈ additionalsOf d, x ∉ d.keys := by
  unfold additionalsOf
  have key : ∀ (l acc : List RecId), acc.Nodup → (∀ x ∈ acc, x ∉ d.keys) →
      (l.foldl (fun acc a => if d.keys.contains a || acc.contains a then acc else acc ++ [a]) acc).Nodup ∧
      ∀ x ∈ l.foldl (fun acc a => if d.keys.contains a || acc.contains a then acc else acc ++ [a]) acc, x ∉ d.keys := by
    intro l
    induction l with
    | nil => intro acc h1 h2; exact ⟨h1, h2⟩
    | cons a l ih =>
      intro acc h1 h2
      simp only [List.foldl_cons]
      split
      · exact ih acc h1 h2
      · rename_i hc
        simp only [Bool.or_eq_true, List.contains_eq_mem, decide_eq_true_eq, not_or] at hc
        apply ih
        · rw [List.nodup_append]
          refine ⟨h1, by simp, ?_⟩
          intro x hx y hy
          simp at hy; subst hy
          intro hxy; subst hxy; exact hc.2 hx
        · intro x hx
          rcases List.mem_append.mp hx with hx | hx
          · exact h2 x hx
          · simp at hx; subst hx; exact hc.1
  exact key _ [] List.nodup_nil (by simp)

/-- the datagram built from a batch (`_add_answers_additionals`): answers and additionals together
contain no record twice -/
theorem C12_nodup_wire (b : Dict) (hb : b.keys.Nodup) :
    match Out.ofMcast b with
    | .mcast answers adds => (answers ++ adds).Nodup
    | _ => True := by
  simp only [Out.ofMcast]
  obtain ⟨h1, h2⟩ := additionalsOf_spec b
  rw [List.nodup_append]
  refine ⟨hb, h1, ?_⟩
  intro x hx y hy hxy
  subst hxy
  exact h2 x hy hx

/-- every batch of every run is duplicate free on the wire -/
theorem C12_nodup {p : QP} (hp : p.ok) {c0 : Int} {evs : List QEv} {q' : Queue} {c' : Int} {outs : List (Int × Dict)}
    (h : Run p {} c0 evs q' c' outs) :
    ∀ o ∈ outs, match Out.ofMcast o.2 with
      | .mcast answers adds => (answers ++ adds).Nodup
      | _ => True :=
  fun o ho => C12_nodup_wire o.2 (C12_window hp h o ho).1

/-- records just sent are removed from the groups that stay queued -/
theorem C12_nodup_removed {p : QP} (hp : p.ok) {c0 : Int} {evs : List QEv} {q : Queue} {c : Int} {outs : List (Int × Dict)}
    (h : Run p {} c0 evs q c outs) {now : Int} (hc : c ≤ now) (ht : q.timer = some now) {b : Dict}
    (hb : (q.ready now).2 = some b) :
    ∀ g ∈ (q.ready now).1.groups, ∀ r ∈ b.keys, r ∉ g.answers.keys :=
  (((h.safe hp [] (QInv.init p c0)).1.ready hc ht).2 b hb).2.2

/-! ## C12_immediate — probes and single SRV/A/AAAA/NSEC questions are answered at once -/

/-- An answer of a QM question goes to `_mcast_now` — the set `handle_assembled_query` multicasts in
the arrival block — exactly when the query is a probe, or the record was not seen in the last second
and the query consists of a single SRV, A, AAAA or NSEC question. -/
theorem C12_immediate (probe : Bool) (seen : SeenMap) (now : Int) (nq q0 : Nat) (answers : Dict) (r : RecId)
    (hr : r ∈ answers.keys) :
    r ∈ (({} : QR).addMcast probe seen now nq q0 answers).mcastNow ↔
      probe = true ∨ (inLastSecond (seen.get r) now = false ∧ nq = 1 ∧ immediateType q0) := by
  rw [(addMcast_sets probe seen now nq q0 answers {} r).1, mcRoute_now]
  simp [hr]

/-- ... and everything else is aggregated (not sent at once, not protected) -/
theorem C12_aggregated (probe : Bool) (seen : SeenMap) (now : Int) (nq q0 : Nat) (answers : Dict) (r : RecId)
    (hr : r ∈ answers.keys) :
    r ∈ (({} : QR).addMcast probe seen now nq q0 answers).mcastAgg ↔
      probe = false ∧ inLastSecond (seen.get r) now = false ∧ ¬ (nq = 1 ∧ immediateType q0) := by
  rw [(addMcast_sets probe seen now nq q0 answers {} r).2.2.1, mcRoute_aggregate]
  simp [hr]

/-! ## C12_one_sec — one-second protection -/

/-- QM path, no TTL hypothesis needed: a record seen multicast less than one second before `now`
(the query's arrival) is — probe replies excepted — routed to the protected queue and to nothing
else that multicasts. -/
theorem C12_one_sec_qm (seen : SeenMap) (now : Int) (nq q0 : Nat) (answers : Dict) (r : RecId) (s : Seen)
    (hr : r ∈ answers.keys) (hs : seen.get r = some s) (hage : now - s.created < 1000) :
    let qr := ({} : QR).addMcast false seen now nq q0 answers
    r ∈ qr.mcastLast ∧ r ∉ qr.mcastNow ∧ r ∉ qr.mcastAgg := by
  have hin : inLastSecond (seen.get r) now = true := (inLastSecond_iff _ _).mpr ⟨s, hs, hage⟩
  obtain ⟨h1, h2, h3, _⟩ := addMcast_sets false seen now nq q0 answers {} r
  refine ⟨h2.mpr (Or.inr ⟨hr, (mcRoute_lastSecond _ _ _ _).mpr ⟨rfl, hin⟩⟩), ?_, ?_⟩
  · rw [h1, mcRoute_now]; simp [hin]
  · rw [h3, mcRoute_aggregate]; simp [hin]

/-- the full-strength statement for the QU path: a non-probe QU question never causes an immediate
multicast of a record seen less than one second ago -/
def C12_one_sec_qu_full : Prop :=
  ∀ (seen : SeenMap) (now : Int) (answers : Dict) (r : RecId) (s : Seen),
    r ∈ answers.keys → seen.get r = some s → s.created ≤ now → now - s.created < 1000 →
    r ∉ (({} : QR).addQu false seen now answers).mcastNow

/-- QU path (D12): holds when the cached copy's TTL is at least 4 s, because then a quarter of the TTL
is at least one second; the record is unicast instead. -/
theorem C12_one_sec_qu_partial (seen : SeenMap) (now : Int) (answers : Dict) (r : RecId) (s : Seen)
    (hr : r ∈ answers.keys) (hs : seen.get r = some s) (hage : now - s.created < 1000) (httl : 4 ≤ s.ttl) :
    r ∉ (({} : QR).addQu false seen now answers).mcastNow ∧ r ∈ (({} : QR).addQu false seen now answers).ucast := by
  have hq : withinQuarter (seen.get r) now = true := by
    rw [withinQuarter_iff]; exact ⟨s, hs, by omega⟩
  obtain ⟨h1, h2, _, _⟩ := addQu_sets false seen now answers {} r
  refine ⟨?_, h1.mpr (Or.inr ⟨hr, Or.inr hq⟩)⟩
  rw [h2]; simp [hq]

/-- D12, the excluded point: TTL 3 s, seen 800 ms ago, QU question ⇒ multicast again at once -/
theorem C12_one_sec_qu_refuted : ¬ C12_one_sec_qu_full := by
  intro h
  have := h [(0, { created := 0, ttl := 3 })] 800 [(0, [])] 0 { created := 0, ttl := 3 } (by decide) (by decide) (by decide) (by decide)
  exact this (by decide)

/-- Timing of the protected reply (`_partial`).  A batch of the protected queue is no earlier than one second after every
sighting that **precedes the stamp of the `add`** (`created ≤ a.now`), and no later than 1.2 s after the query was handled.
For an ordinary query the stamp is its arrival, and a sighting the classification can have seen is never later than that: the
hypothesis is then always met.  For a reassembled truncated query the stamp is the arrival of the **first** packet while the
classification (`C12_one_sec_qm`) looks at the age at the **last** packet's arrival: a sighting in between is classified
"seen less than a second ago" and yet is *not* covered — see `C12_one_sec_timing_refuted`.
Reading of the English clause adopted (notes/agents/C12.md, O1): a query has arrived when its last packet has; so the clause
binds for such sightings and the implementation falsifies it (stage O: `C12:held-query-remulticast-within-1s`). -/
theorem C12_one_sec_timing_partial {c0 : Int} {evs : List QEv} {q' : Queue} {c' : Int} {outs : List (Int × Dict)}
    (h : Run delayQP {} c0 evs q' c' outs) (created : Int) :
    ∀ o ∈ outs, ∀ r ∈ o.2.keys, ∃ a ∈ addsOf evs, r ∈ a.keys ∧
      (created ≤ a.now → created + 1000 ≤ o.1) ∧ o.1 ≤ a.clock + 1200 := by
  intro o ho r hr
  obtain ⟨a, ha, h1, _, h3, h4⟩ := C12_window_protected h o ho r hr
  exact ⟨a, ha, h1, fun hc => by omega, h4⟩

/-- the full-strength statement: the protection holds for every sighting made before the `add` is *executed* (i.e. before the
query — all its packets — has been handled), not only before its stamp -/
def C12_one_sec_timing_full : Prop :=
  ∀ (c0 : Int) (evs : List QEv) (q' : Queue) (c' : Int) (outs : List (Int × Dict)), Run delayQP {} c0 evs q' c' outs →
    ∀ (created : Int), ∀ o ∈ outs, ∀ r ∈ o.2.keys, ∃ a ∈ addsOf evs, r ∈ a.keys ∧ (created ≤ a.clock → created + 1000 ≤ o.1)

/-- a legal run of the protected queue: an ordinary query at 0 (record 1), then at loop time 450 the reply to a truncated
query whose first packet arrived at 0 (record 2; stamp 0, draw 20 ⇒ merged into the pending group), sent together at 1020 -/
theorem heldRun : Run delayQP {} 0 [.add 0 0 20 [(1, [])], .add 450 0 20 [(2, [])], .fire 1020] {} 1020 [(1020, [(1, []), (2, [])])] := by
  refine Run.cons (e := .add 0 0 20 [(1, [])]) ?_ (Run.cons (e := .add 450 0 20 [(2, [])]) ?_ (Run.cons (e := .fire 1020) ?_ (Run.nil _ _)))
  · refine ⟨by decide, by decide, by decide, by decide, ?_⟩
    intro d hd; cases hd
  · refine ⟨by decide, by decide, by decide, by decide, ?_⟩
    intro d hd
    have h2 : some (1020 : Int) = some d := hd
    cases h2; decide
  · exact ⟨by decide, by decide⟩

/-- **refuted**: record 2 was seen multicast at 445 — five milliseconds before the truncated query was handled (450), during
its hold — and is multicast again at 1020, 575 ms after that sighting -/
theorem C12_one_sec_timing_refuted : ¬ C12_one_sec_timing_full := by
  intro h
  obtain ⟨a, ha, hr, hb⟩ := h _ _ _ _ _ heldRun 445 (1020, [(1, []), (2, [])]) (by simp) 2 (by decide)
  simp only [addsOf, List.mem_cons, List.not_mem_nil, or_false] at ha
  rcases ha with rfl | rfl
  · simp [Dict.keys] at hr
  · have := hb (by decide)
    omega

/-- "answered in the arrival block": whatever `async_response` put into `_mcast_now` (and `_ucast`)
is sent by `handle_assembled_query` itself — in the block in which the query is handled — as one
multicast datagram; the listener's state is untouched and each queue receives at most one `add`
stamped with the first packet's arrival, with a draw in 20..120 ms. -/
theorem C12_immediate_block {h : Host} {clock : Int} {pkts : List Pkt} {addr port : Nat} {seen : SeenMap} {draws : List Int}
    {r : StepOut} {rest : List Int} (hs : h.assemble clock pkts addr port seen draws = .ok (r, rest))
    {qa : QA} (hqa : asyncResponse pkts (Gen.Reply.ucast_source port) seen = some qa) :
    (qa.mcastNow.isEmpty = false → Out.ofMcast qa.mcastNow ∈ r.outs) ∧
    (∀ o ∈ r.outs, ∀ a b, o = Out.mcast a b → o = Out.ofMcast qa.mcastNow) ∧
    ∃ first, pkts.head? = some first ∧
      (qa.mcastAgg.isEmpty = true → r.host.outQ = h.outQ) ∧
      (qa.mcastAgg.isEmpty = false → ∃ d, 20 ≤ d ∧ d ≤ 120 ∧ r.host.outQ = h.outQ.add outQP clock first.now d qa.mcastAgg) ∧
      (qa.mcastLast.isEmpty = true → r.host.delayQ = h.delayQ) ∧
      (qa.mcastLast.isEmpty = false → ∃ d, 20 ≤ d ∧ d ≤ 120 ∧ r.host.delayQ = h.delayQ.add delayQP clock first.now d qa.mcastLast) := by
  obtain ⟨first, hf, ho, _, hq1, hq2⟩ := assemble_spec hs hqa
  have e1 := drawLo_eq; have e2 := drawHi_eq
  refine ⟨?_, ?_, first, hf, hq1.1, ?_, hq2.1, ?_⟩
  · intro hne; rw [ho]; simp [immediateOuts, hne]
  · intro o hmem a b hob
    rw [ho] at hmem
    simp only [immediateOuts, List.mem_append] at hmem
    rcases hmem with hmem | hmem
    · split at hmem
      · cases hmem
      · simp at hmem; rw [hmem] at hob; cases hob
    · split at hmem
      · cases hmem
      · simpa using hmem
  · intro hne
    obtain ⟨d, h1, h2, h3⟩ := hq1.2 hne
    exact ⟨d, by omega, by omega, h3⟩
  · intro hne
    obtain ⟨d, h1, h2, h3⟩ := hq2.2 hne
    exact ⟨d, by omega, by omega, h3⟩

/-- **From classification to the wire (aggregation).**  If `async_response` classified `rid` as aggregate for the query
handled at loop time `clock`, then `handle_assembled_query` *does* hand it to `out_queue` (one `add`, stamp = first
packet, draw 20..120), and — the queue being in a reachable state and the block respecting the loop axioms (time does not
run backwards, the stamp is not in the future, no due timer was skipped: what `Host.step` checks) — whatever happens
afterwards `rid` is multicast at some `s ∈ [clock, clock + 500]` unless the run stops earlier.  With `C12_window_aggregate`
(every batch of such a run lies in `[stamp + 20, clock + 500]` of an `add` of each of its records) this is the sentence
"sent no earlier than 20 ms and no later than 500 ms after the query arrives, aggregated with other pending answers". -/
theorem C12_aggregated_on_wire {h : Host} {clock : Int} {pkts : List Pkt} {addr port : Nat} {seen : SeenMap} {draws : List Int}
    {r : StepOut} {rest : List Int} (hs : h.assemble clock pkts addr port seen draws = .ok (r, rest))
    {qa : QA} (hqa : asyncResponse pkts (Gen.Reply.ucast_source port) seen = some qa) {rid : RecId} (hr : rid ∈ qa.mcastAgg.keys)
    {c0 c1 : Int} {pre : List QEv} {outs1 : List (Int × Dict)} (hpre : Run outQP {} c0 pre h.outQ c1 outs1)
    (hclock : c1 ≤ clock) (hstamp : ∀ first, pkts.head? = some first → first.now ≤ clock)
    (hdue : ∀ d, h.outQ.timer = some d → clock ≤ d)
    {post : List QEv} {q' : Queue} {c' : Int} {outs : List (Int × Dict)} (hpost : Run outQP r.host.outQ clock post q' c' outs) :
    (∃ o ∈ outs, rid ∈ o.2.keys ∧ clock ≤ o.1 ∧ o.1 ≤ clock + 500) ∨ c' ≤ clock + 500 ∨ withdrawnIn post rid := by
  obtain ⟨first, hf, _, _, hq1, _⟩ := assemble_spec hs hqa
  obtain ⟨d, hd1, hd2, heq⟩ := hq1.2 (Dict.isEmpty_false_of_mem hr)
  rw [heq] at hpost
  have hrun : Run outQP h.outQ c1 (.add clock first.now d qa.mcastAgg :: post) q' c' ([] ++ outs) :=
    Run.cons (e := .add clock first.now d qa.mcastAgg) ⟨hclock, hstamp first hf, hd1, hd2, hdue⟩ hpost
  simpa using C12_on_wire_aggregate hpre hrun rid hr

/-- **From classification to the wire (protected).**  Likewise for a record classified "seen in the last second": it is
handed to `out_delay_queue` and is multicast at some `s ∈ [clock, clock + 1200]`; by `C12_window_protected` no batch of that
queue carries it earlier than `stamp + 1020`. -/
theorem C12_protected_on_wire {h : Host} {clock : Int} {pkts : List Pkt} {addr port : Nat} {seen : SeenMap} {draws : List Int}
    {r : StepOut} {rest : List Int} (hs : h.assemble clock pkts addr port seen draws = .ok (r, rest))
    {qa : QA} (hqa : asyncResponse pkts (Gen.Reply.ucast_source port) seen = some qa) {rid : RecId} (hr : rid ∈ qa.mcastLast.keys)
    {c0 c1 : Int} {pre : List QEv} {outs1 : List (Int × Dict)} (hpre : Run delayQP {} c0 pre h.delayQ c1 outs1)
    (hclock : c1 ≤ clock) (hstamp : ∀ first, pkts.head? = some first → first.now ≤ clock)
    (hdue : ∀ d, h.delayQ.timer = some d → clock ≤ d)
    {post : List QEv} {q' : Queue} {c' : Int} {outs : List (Int × Dict)} (hpost : Run delayQP r.host.delayQ clock post q' c' outs) :
    (∃ o ∈ outs, rid ∈ o.2.keys ∧ clock ≤ o.1 ∧ o.1 ≤ clock + 1200) ∨ c' ≤ clock + 1200 ∨ withdrawnIn post rid := by
  obtain ⟨first, hf, _, _, _, hq2⟩ := assemble_spec hs hqa
  obtain ⟨d, hd1, hd2, heq⟩ := hq2.2 (Dict.isEmpty_false_of_mem hr)
  rw [heq] at hpost
  have hrun : Run delayQP h.delayQ c1 (.add clock first.now d qa.mcastLast :: post) q' c' ([] ++ outs) :=
    Run.cons (e := .add clock first.now d qa.mcastLast) ⟨hclock, hstamp first hf, hd1, hd2, hdue⟩ hpost
  simpa using C12_on_wire_protected hpre hrun rid hr

/-! ## C12_tc — truncated queries -/

/-- A truncated packet is not answered in its own block: it is stored, any timer of the same source
address is cancelled, and exactly one timer for that address is armed, due 400–500 ms after this
packet (the draw `d` is the one `takeDraw tcLo tcHi` accepted); timers of other addresses are
untouched. -/
theorem C12_tc_hold (l : Listener) (t : Int) (addr port : Nat) (p : Pkt) {draws : List Int} {d : Int} {rest : List Int}
    (hd : takeDraw tcLo tcHi draws = .ok (d, rest)) :
    (∃ tm, (l.defer t addr port p d).timers.filter (fun x => x.addr == addr) = [tm] ∧ t + 400 ≤ tm.due ∧ tm.due ≤ t + 500) ∧
    (∀ a, a ≠ addr → (l.defer t addr port p d).timers.filter (fun x => x.addr == a) = l.timers.filter (fun x => x.addr == a)) := by
  obtain ⟨h1, h2, _⟩ := takeDraw_ok hd
  have e1 := tcLo_eq; have e2 := tcHi_eq
  refine ⟨⟨_, Listener.defer_timer l t addr port p d, ?_, ?_⟩, fun a ha => Listener.defer_other l t addr port p d a ha⟩ <;>
    (simp only; omega)

/-- a truncated packet is never answered in its own block: whatever `datagram_received` does with it (drops it as oversize /
duplicate / already deferred, or defers it), it sends nothing -/
theorem C12_tc_silent {h : Host} {t : Int} {addr port dataId size : Nat} {hasQu : Bool} {p : Pkt} {seen : SeenMap} {draws : List Int} {r : StepOut}
    (hs : h.step (.rx t addr port dataId size hasQu (.query p) seen draws) = .ok r) (htc : p.truncated = true) : r.outs = [] := by
  have hnt : Gen.Reply.l_not_truncated p.truncated = false := by rw [GenFacts.l_not_truncated, htc]; rfl
  obtain ⟨a, hd, hp⟩ := step_decide hs
  cases a with
  | idle lis => exact (perform_idle hp).2
  | defer lis d => exact (perform_defer hp).2
  | ready d => obtain ⟨t', he⟩ := decide_ready hd; cases he
  | remove d recs => exact (perform_remove hp).1
  | answer lis pkts addr' port' =>
    exfalso
    simp only [Host.decide, hnt, Bool.false_eq_true, if_false] at hd
    repeat' split at hd
    all_goals cases hd

/-- When the timer fires (or an untruncated packet of the same source arrives: `msg = some _`) **all**
deferred packets of the address are answered by one `handle_assembled_query`, after which nothing is
deferred and no timer is armed for the address: each packet is answered once. -/
theorem C12_tc_once {h : Host} {clock : Int} {msg : Option Pkt} {addr port : Nat} {seen : SeenMap} {draws : List Int}
    {r : StepOut} {rest : List Int} (hs : h.respond clock msg addr port seen draws = .ok (r, rest)) :
    ({ h with lis := (h.lis.cancelTimer addr).popDeferred addr } : Host).assemble clock
        (h.lis.deferredOf addr ++ msg.toList) addr port seen draws = .ok (r, rest) ∧
    (r.host.lis.deferredOf addr = [] ∧ r.host.lis.timers.filter (fun x => x.addr == addr) = []) := by
  have ha := respond_spec hs
  refine ⟨ha, ?_⟩
  have hl : r.host.lis = (h.lis.cancelTimer addr).popDeferred addr := by
    cases hqa : asyncResponse (h.lis.deferredOf addr ++ msg.toList) (Gen.Reply.ucast_source port) seen with
    | none => rw [(assemble_none ha hqa).2]
    | some qa => obtain ⟨_, _, _, hlis, _⟩ := assemble_spec ha hqa; exact hlis
  rw [hl]
  exact ⟨Listener.popDeferred_deferredOf _ _, by
    simpa [Listener.popDeferred] using Listener.cancelTimer_none h.lis addr⟩

/-- ... using the union of all their known answers: every record the assembled reply hands out —
unicast, at once, aggregated or protected — is a candidate answer of a question of one of the
packets that **no** known answer of **any** (non-probe) packet of the train suppresses. -/
theorem C12_tc_union {pkts : List Pkt} {us : Bool} {seen : SeenMap} {qa : QA}
    (h : asyncResponse pkts us seen = some qa) (r : RecId)
    (hr : r ∈ qa.ucast.keys ∨ r ∈ qa.mcastNow.keys ∨ r ∈ qa.mcastAgg.keys ∨ r ∈ qa.mcastLast.keys) :
    ∃ p ∈ pkts, ∃ it ∈ p.items, ∃ c ∈ it.cands, c.id = r ∧ suppresses (unionKnown pkts) c = false :=
  asyncResponse_sources h r hr

/-- … and **every** question of **every** packet of the train is answered: each candidate answer that the union of the known
answers does not suppress is in one of the four sets of the reply (unicast, at once, aggregated, protected) — the
completeness half of "answered once using the union of all their known answers" -/
theorem C12_tc_complete {pkts : List Pkt} {us : Bool} {seen : SeenMap} {qa : QA}
    (h : asyncResponse pkts us seen = some qa) {p : Pkt} (hp : p ∈ pkts) {it : QItem} (hit : it ∈ p.items)
    (r : RecId) (hr : r ∈ (answerSet (unionKnown pkts) it).keys) :
    r ∈ qa.ucast.keys ∨ r ∈ qa.mcastNow.keys ∨ r ∈ qa.mcastAgg.keys ∨ r ∈ qa.mcastLast.keys := by
  obtain ⟨first, last, _, _, rfl⟩ := asyncResponse_eq h
  obtain ⟨k1, k2, k3, k4⟩ := answers_keys
    (List.foldl (fun (qr : QR) it => qr.route us (pkts.any (·.isProbe)) seen last.now first.nq first.q0type it.qu
      (answerSet (unionKnown pkts) it)) {} (pkts.flatMap (·.items)))
  rw [k1, k2, k3, k4]
  exact foldl_establish
    (fun (qr : QR) it => qr.route us (pkts.any (·.isProbe)) seen last.now first.nq first.q0type it.qu (answerSet (unionKnown pkts) it))
    (fun qr => qr.mem r)
    (fun a b hq => by
      obtain ⟨m1, m2, m3, m4⟩ := route_mono us (pkts.any (·.isProbe)) seen last.now first.nq first.q0type a b.qu (answerSet (unionKnown pkts) b) r
      rcases hq with hq | hq | hq | hq
      · exact Or.inl (m1 hq)
      · exact Or.inr (Or.inl (m2 hq))
      · exact Or.inr (Or.inr (Or.inl (m3 hq)))
      · exact Or.inr (Or.inr (Or.inr (m4 hq))))
    (fun a => route_covers us _ seen last.now first.nq first.q0type a it.qu _ r hr) _ {} (List.mem_flatMap.mpr ⟨p, hp, hit⟩)

/-- an unsuppressed candidate is one the union does not suppress -/
theorem C12_answerSet_complete (known : List (RecId × Nat)) (it : QItem) (c : Cand) (hc : c ∈ it.cands) (hs : suppresses known c = false) :
    c.id ∈ (answerSet known it).keys := by
  unfold answerSet
  have key : ∀ (l : List Cand) (d : Dict), c ∈ l → c.id ∈ (l.foldl (fun d c => d.set c.id c.adds) d).keys := by
    intro l
    induction l with
    | nil => intro d h; cases h
    | cons x l ih =>
      intro d h
      simp only [List.foldl_cons]
      rcases List.mem_cons.mp h with rfl | h
      · have keep : ∀ (l : List Cand) (d : Dict), c.id ∈ d.keys → c.id ∈ (l.foldl (fun d c => d.set c.id c.adds) d).keys := by
          intro l
          induction l with
          | nil => intro d h; exact h
          | cons y l ih2 => intro d h; exact ih2 _ ((Dict.keys_set _ _ _ _).mpr (Or.inl h))
        exact keep l _ ((Dict.keys_set _ _ _ _).mpr (Or.inr rfl))
      · exact ih _ h
  exact key _ _ (List.mem_filter.mpr ⟨hc, by simp [hs]⟩)

/-- what "suppresses" means: the record is one the known answers can suppress at all and the *last*
known answer equal to it carries more than half its TTL -/
theorem C12_suppresses_iff (known : List (RecId × Nat)) (c : Cand) :
    suppresses known c = true ↔
      c.sup = true ∧ ∃ k, known.reverse.find? (fun k => k.1 == c.id) = some k ∧ (c.ttl : Int) < 2 * (k.2 : Int) := by
  unfold suppresses
  cases hf : known.reverse.find? (fun k => k.1 == c.id) with
  | none => simp
  | some k => simp [GenFacts.rrset_suppresses]

/-! ## non-vacuity: concrete legal runs (`heldRun` above takes the merge branch of `async_add` on the protected queue; the run
below appends a second group, so `async_ready` first waits for the head's `send_before` and then sends both groups in one batch) -/

example : Run outQP {} 0 [.add 0 0 20 [(1, [2])], .add 10 10 120 [(3, [])], .fire 20, .fire 500] {} 500 [(500, [(1, [2]), (3, [])])] := by
  refine Run.cons (e := .add 0 0 20 [(1, [2])]) ?_ (Run.cons (e := .add 10 10 120 [(3, [])]) ?_
    (Run.cons (e := .fire 20) ?_ (Run.cons (e := .fire 500) ?_ (Run.nil _ _))))
  · refine ⟨by decide, by decide, by decide, by decide, ?_⟩
    intro d hd; cases hd
  · refine ⟨by decide, by decide, by decide, by decide, ?_⟩
    intro d hd
    have h2 : some (20 : Int) = some d := hd
    cases h2; decide
  · exact ⟨by decide, by decide⟩
  · exact ⟨by decide, by decide⟩


example : Run outQP {} 0 [.add 0 0 20 [(1, [2])], .fire 20] {} 20 [(20, [(1, [2])])] := by
  refine Run.cons (e := .add 0 0 20 [(1, [2])]) ?_ (Run.cons (e := .fire 20) ?_ (Run.nil _ _))
  · refine ⟨by decide, by decide, by decide, by decide, ?_⟩
    intro d hd; cases hd
  · exact ⟨by decide, by decide⟩

/-- the hypotheses of `C12_one_sec_qu_partial` are satisfiable (TTL exactly 4 s, seen 999 ms ago) -/
example : ∃ (seen : SeenMap) (now : Int) (answers : Dict) (r : RecId) (s : Seen),
    r ∈ answers.keys ∧ seen.get r = some s ∧ now - s.created < 1000 ∧ 4 ≤ s.ttl :=
  ⟨[(0, { created := 0, ttl := 4 })], 999, [(0, [])], 0, { created := 0, ttl := 4 }, by decide, by decide, by decide, by decide⟩

example : ((({} : QR).addMcast false [(7, { created := 100, ttl := 120 })] 1099 1 33 [(7, [])]).mcastLast = [7]) := by decide
example : ((({} : QR).addMcast false [(7, { created := 100, ttl := 120 })] 1100 1 33 [(7, [])]).mcastNow = [7]) := by decide
example : ((({} : QR).addMcast false [(7, { created := 100, ttl := 120 })] 1100 2 33 [(7, [])]).mcastAgg = [7]) := by decide

end Zc.Reply
