import Zc.Proofs.QueueRun
import Zc.Proofs.Classify
import Zc.Proofs.Response
import Zc.Proofs.ResponseComplete
import Zc.Proofs.HostLive
import Zc.GenFacts.FnQueue
import Zc.GenFacts.FnQueueRun
/-! # C12 — reply timing: jitter, aggregation, one-second protection, truncated queries

Numbers in the statements (20, 120, 500, 1000, 1020, 1200, 400) come from the English property;
`Zc.GenFacts.Reply` proves that today's constants imply them.

Quantification: the queue theorems hold for **every** run `Run p q₀ …` — every finite sequence of
`add`/`fire` events that satisfies the event-loop axioms (`QEv.enabled`: monotone clock, a timer
fires exactly when due, the clock never passes a due timer, every draw lies in the interval the code
asked for, a stamp is not in the future) — by induction over the run.  The classification theorems
hold for every cache state, clock value and question mix.

Readings (second review): a truncated train is one query and has *arrived when its last packet has* (section "Truncated trains"
at the end); the one-second clause is read on its words — every multicast of the record, as answer or additional, by whichever
block (section "The one-second clause on the wire"); deviations of the code from these readings are findings, not tolerances.

The queue theorems speak about the two instants the code handles: an `add` carries the stamp `now` the code passes
(`first_packet.now`) and the loop time `clock` at which it is executed; for an ordinary query the two
coincide (`t`), for a reassembled truncated query the stamp is the arrival of its first packet and
`clock` the instant the hold timer fired.  Lower bounds are relative to the stamp, upper bounds to
the clock. -/
namespace Zc.Reply
open GenFacts

/-! ## C12_window — jitter and aggregation bounds -/

/-- Every record multicast from a queue at `s` answers an `add` (a query) stamped `t`, executed at
`c ≤ s`, with `t + 20 + addl ≤ s ≤ c + agg + addl`; the batch carries no record twice. -/
theorem C12_window {p : QP} (hp : p.ok) {c0 : Int} {evs : List QEv} {q' : Queue} {c' : Int} {outs : List (Int × Dict)}
    (h : Run p {} c0 evs q' c' outs) :
    ∀ o ∈ outs, o.2.keys.Nodup ∧ ∀ r ∈ o.2.keys, ∃ a ∈ addsOf evs,
      r ∈ a.keys ∧ a.clock ≤ o.1 ∧ a.now + 20 + p.addl ≤ o.1 ∧ o.1 ≤ a.clock + p.agg + p.addl := by
  intro o ho
  obtain ⟨hn, hw⟩ := (h.safe hp [] (QInv.init p c0)).2 o ho
  refine ⟨hn, fun r hr => ?_⟩
  obtain ⟨a, ha, h1, h2, h3, h4⟩ := hw r hr
  have := drawLo_eq
  exact ⟨a, by simpa using ha, h1, h2, by omega, h4⟩

/-- the aggregation queue (`out_queue`): no earlier than 20 ms after the query arrived, no later than 500 ms -/
theorem C12_window_aggregate {c0 : Int} {evs : List QEv} {q' : Queue} {c' : Int} {outs : List (Int × Dict)}
    (h : Run outQP {} c0 evs q' c' outs) :
    ∀ o ∈ outs, ∀ r ∈ o.2.keys, ∃ a ∈ addsOf evs, r ∈ a.keys ∧ a.clock ≤ o.1 ∧ a.now + 20 ≤ o.1 ∧ o.1 ≤ a.clock + 500 := by
  intro o ho r hr
  obtain ⟨a, ha, h1, h2, h3, h4⟩ := (C12_window outQP_ok h o ho).2 r hr
  have e1 := outQP_addl; have e2 := outQP_agg
  exact ⟨a, ha, h1, h2, by omega, by omega⟩

/-- the protected queue (`out_delay_queue`): no earlier than 1000 + 20 ms, no later than 1000 + 200 ms -/
theorem C12_window_protected {c0 : Int} {evs : List QEv} {q' : Queue} {c' : Int} {outs : List (Int × Dict)}
    (h : Run delayQP {} c0 evs q' c' outs) :
    ∀ o ∈ outs, ∀ r ∈ o.2.keys, ∃ a ∈ addsOf evs, r ∈ a.keys ∧ a.clock ≤ o.1 ∧ a.now + 1020 ≤ o.1 ∧ o.1 ≤ a.clock + 1200 := by
  intro o ho r hr
  obtain ⟨a, ha, h1, h2, h3, h4⟩ := (C12_window delayQP_ok h o ho).2 r hr
  have e1 := delayQP_addl; have e2 := delayQP_agg
  exact ⟨a, ha, h1, h2, by omega, by omega⟩

/-- Every queued answer is on the wire in time: after any reachable state, an `add` executed at `c`
is followed — whatever happens next, **registry changes included** (`QEv.remove`: `async_remove_answers`, the repair of D5,
called when a service is unregistered) — by a batch containing each of its records at some `s ∈ [c, c + agg + addl]`, unless
the run stops before `c + agg + addl` or the record is withdrawn by such a change **before `c + agg + addl`**
(`withdrawnIn post r D`: a `remove` event naming it at a time `≤ D`; then it must *not* go out any more, C08).  Records of other services are not affected by a withdrawal (`Queue.remove_keeps`). -/
theorem C12_on_wire {p : QP} (hp : p.ok) {c0 : Int} {pre : List QEv} {q1 : Queue} {c1 : Int} {outs1 : List (Int × Dict)}
    (hpre : Run p {} c0 pre q1 c1 outs1)
    {c now draw : Int} {answers : Dict} {post : List QEv} {q' : Queue} {c' : Int} {outs : List (Int × Dict)}
    (hrun : Run p q1 c1 (.add c now draw answers :: post) q' c' outs) :
    ∀ r ∈ answers.keys,
      (∃ o ∈ outs, r ∈ o.2.keys ∧ c ≤ o.1 ∧ o.1 ≤ c + p.agg + p.addl) ∨ c' ≤ c + p.agg + p.addl ∨ withdrawnIn post r (c + p.agg + p.addl) := by
  intro r hr
  have hI1 := (hpre.safe hp [] (QInv.init p c0)).1
  cases hrun with
  | cons he hrest =>
    obtain ⟨hI2, _⟩ := hI1.step hp he
    obtain ⟨g', hg', hr', hb⟩ := Queue.add_has p q1 hI1 c now draw he.1 answers hr
    have htimes := hrest.times
    rcases hrest.live hp _ hI2 r (c + p.agg + p.addl) ⟨g', hg', hr', by omega⟩ with ⟨o, ho, h1, h2⟩ | ⟨g, hg, _, hD⟩ | hw
    · exact Or.inl ⟨o, by simpa [Queue.stepQ] using ho, h1, htimes.2 o ho, h2⟩
    · have := (hrest.safe hp _ hI2).1.not_late hg
      exact Or.inr (Or.inl (by omega))
    · exact Or.inr (Or.inr hw)

/-- ... within 500 ms for the aggregation queue -/
theorem C12_on_wire_aggregate {c0 : Int} {pre : List QEv} {q1 : Queue} {c1 : Int} {outs1 : List (Int × Dict)}
    (hpre : Run outQP {} c0 pre q1 c1 outs1)
    {c now draw : Int} {answers : Dict} {post : List QEv} {q' : Queue} {c' : Int} {outs : List (Int × Dict)}
    (hrun : Run outQP q1 c1 (.add c now draw answers :: post) q' c' outs) :
    ∀ r ∈ answers.keys, (∃ o ∈ outs, r ∈ o.2.keys ∧ c ≤ o.1 ∧ o.1 ≤ c + 500) ∨ c' ≤ c + 500 ∨ withdrawnIn post r (c + 500) := by
  intro r hr
  have e1 := outQP_addl; have e2 := outQP_agg
  rcases C12_on_wire outQP_ok hpre hrun r hr with ⟨o, ho, h1, h2, h3⟩ | h | h
  · exact Or.inl ⟨o, ho, h1, h2, by omega⟩
  · exact Or.inr (Or.inl (by omega))
  · exact Or.inr (Or.inr (withdrawnIn_mono h (by omega)))

/-- ... within 1.2 s for the protected queue -/
theorem C12_on_wire_protected {c0 : Int} {pre : List QEv} {q1 : Queue} {c1 : Int} {outs1 : List (Int × Dict)}
    (hpre : Run delayQP {} c0 pre q1 c1 outs1)
    {c now draw : Int} {answers : Dict} {post : List QEv} {q' : Queue} {c' : Int} {outs : List (Int × Dict)}
    (hrun : Run delayQP q1 c1 (.add c now draw answers :: post) q' c' outs) :
    ∀ r ∈ answers.keys, (∃ o ∈ outs, r ∈ o.2.keys ∧ c ≤ o.1 ∧ o.1 ≤ c + 1200) ∨ c' ≤ c + 1200 ∨ withdrawnIn post r (c + 1200) := by
  intro r hr
  have e1 := delayQP_addl; have e2 := delayQP_agg
  rcases C12_on_wire delayQP_ok hpre hrun r hr with ⟨o, ho, h1, h2, h3⟩ | h | h
  · exact Or.inl ⟨o, ho, h1, h2, by omega⟩
  · exact Or.inr (Or.inl (by omega))
  · exact Or.inr (Or.inr (withdrawnIn_mono h (by omega)))

/-- the invariant behind both: in every reachable state there is exactly one armed timer iff the
queue is non-empty, and it is due inside the head group's window and not in the past -/
theorem C12_one_timer {p : QP} (hp : p.ok) {c0 : Int} {evs : List QEv} {q' : Queue} {c' : Int} {outs : List (Int × Dict)}
    (h : Run p {} c0 evs q' c' outs) :
    (q'.groups = [] → q'.timer = none) ∧
    (∀ g ∈ q'.groups, ∃ d, q'.timer = some d ∧ c' ≤ d ∧ d ≤ g.born + p.agg + p.addl) := by
  have hI := (h.safe hp [] (QInv.init p c0)).1
  constructor
  · intro hnil
    have := hI.sk.timer
    rw [hnil] at this
    exact this
  · intro g hg
    have hne : q'.groups.map Group.sk ≠ [] := by
      intro h'; rw [List.map_eq_nil_iff] at h'; rw [h'] at hg; cases hg
    obtain ⟨d, hd⟩ := hI.sk.nonempty_timer hne
    have := hI.sk.timer_le hd g.sk (List.mem_map_of_mem hg)
    exact ⟨d, hd, this.2, by simpa [Sk.deadline, Group.sk] using this.1⟩

/-! ## registry changes while answers are queued (`async_remove_answers`, the repair of D5) -/

/-- what a withdrawal does to the queue, exactly: afterwards no pending group carries a withdrawn record, neither as an answer
nor as an additional; every other pending answer is still there, in a group with the same window; timer and group windows are
untouched (so the bounds of `C12_window` / `C12_on_wire` go on for the records that stay) -/
theorem C12_remove_exact (q : Queue) (rm : List RecId) :
    (∀ g ∈ (q.removeRecords rm).groups, ∀ r ∈ rm, r ∉ g.answers.keys ∧ ∀ e ∈ g.answers, r ∉ e.2) ∧
    (∀ g ∈ q.groups, ∀ r ∈ g.answers.keys, r ∉ rm → ∃ g' ∈ (q.removeRecords rm).groups, r ∈ g'.answers.keys ∧ g'.sa = g.sa ∧ g'.sb = g.sb) ∧
    (q.removeRecords rm).timer = q.timer ∧ (q.removeRecords rm).groups.map Group.sk = q.groups.map Group.sk := by
  refine ⟨?_, ?_, rfl, map_sk_removeRecords q rm⟩
  · intro g' hg' r hr
    simp only [Queue.removeRecords, List.mem_map] at hg'
    obtain ⟨g, _, rfl⟩ := hg'
    refine ⟨fun h => ((Dict.keys_withdraw _ _ _).mp h).2 hr, ?_⟩
    intro e he hre
    simp only [Dict.withdraw, List.mem_map, List.mem_filter] at he
    obtain ⟨e0, _, rfl⟩ := he
    simp only [List.mem_filter, Bool.not_eq_true', List.contains_eq_mem, decide_eq_false_iff_not] at hre
    exact hre.2 hr
  · intro g hg r hr hnr
    refine ⟨{ g with answers := g.answers.withdraw rm }, ?_, (Dict.keys_withdraw _ _ _).mpr ⟨hr, hnr⟩, rfl, rfl⟩
    simp only [Queue.removeRecords, List.mem_map]
    exact ⟨g, hg, rfl⟩

/-- a legal run with a registry change while answers are queued: records 1 and 3 (additional 2) are queued at 0, record 1 and
its additional 2 are withdrawn at 10; the batch at 20 carries record 3 alone -/
example : Run outQP {} 0 [.add 0 0 20 [(1, [2]), (3, [2])], .remove 10 [1, 2], .fire 20] {} 20 [(20, [(3, [])])] := by
  refine Run.cons (e := .add 0 0 20 [(1, [2]), (3, [2])]) ?_ (Run.cons (e := .remove 10 [1, 2]) ?_ (Run.cons (e := .fire 20) ?_ (Run.nil _ _)))
  · refine ⟨by decide, by decide, by decide, by decide, ?_⟩
    intro d hd; cases hd
  · refine ⟨by decide, ?_⟩
    intro d hd
    have h2 : some (20 : Int) = some d := hd
    cases h2; decide
  · exact ⟨by decide, by decide⟩

/-! ## "aggregated with other pending answers" -/

/-- a later query whose jittered `send_after` is not after the last pending group's joins that group: no new group, no
new timer, its answers leave with the answers that were already waiting -/
theorem C12_aggregates_into_pending (p : QP) (q : Queue) (init : List Group) (last : Group) (hq : q.groups = init ++ [last])
    (clock now draw : Int) (answers : Dict) (hle : now + (draw + p.addl) ≤ last.sa) :
    q.add p clock now draw answers = { q with groups := init ++ [{ last with answers := last.answers.update answers }] } := by
  rcases Queue.add_spec p q clock now draw answers with ⟨hnil, _⟩ | ⟨init', last', hq', _, heq⟩ | ⟨init', last', hq', hlt, _⟩
  · rw [hq] at hnil; simp at hnil
  · rw [hq] at hq'
    obtain ⟨h1, h2⟩ := List.append_inj' hq' rfl
    simp only [List.cons.injEq, and_true] at h2
    subst h1; subst h2
    exact heq
  · rw [hq] at hq'
    obtain ⟨_, h2⟩ := List.append_inj' hq' rfl
    simp only [List.cons.injEq, and_true] at h2
    subst h2
    omega

/-- when the timer fires and something is sent, **everything that is due** (`send_after ≤ now`) is in that one batch -/
theorem C12_batch_takes_all_due {p : QP} {hist : List AddRec} {clock : Int} {q : Queue} (hI : QInv p hist clock q)
    {now : Int} {b : Dict} (hb : (q.ready now).2 = some b) :
    ∀ g ∈ q.groups, g.sa ≤ now → ∀ r ∈ g.answers.keys, r ∈ b.keys := by
  intro g hg hdue r hr
  rcases Queue.ready_spec q now with ⟨_, heq⟩ | ⟨_, _, _, _, heq⟩ | ⟨rest, batch, _, hp, heq⟩
  · rw [heq] at hb; cases hb
  · rw [heq] at hb; cases hb
  · rw [heq] at hb
    obtain ⟨popped, h1, _, h3, _, h5⟩ := popReady_spec now _ _ _ _ hp
    have hbb : b = batch := by
      simp only [readyResult] at hb
      split at hb
      · cases hb
      · simpa using hb.symm
    subst hbb
    rw [h1] at hg
    rcases List.mem_append.mp hg with hg | hg
    · exact (h3 r).mpr (Or.inr ⟨g, hg, hr⟩)
    · -- a group that stays queued has `send_after > now`: the head of the rest has, and the rest is sorted
      exfalso
      have hs := hI.sk.sorted
      rw [h1, List.map_append] at hs
      have hsr := (List.pairwise_append.mp hs).2.1
      cases rest with
      | nil => cases hg
      | cons h0 rs =>
        have h0lt := h5 h0 rfl
        rcases List.mem_cons.mp hg with rfl | hg
        · omega
        · have := (List.pairwise_cons.mp hsr).1 g.sk (List.mem_map_of_mem hg)
          simp only [Group.sk] at this
          omega

/-! ## C12_nodup — a batch never contains a record twice -/

theorem additionalsOf_spec (d : Dict) : (additionalsOf d).Nodup ∧ ∀ x ∈ additionalsOf d, x ∉ d.keys := by
  unfold additionalsOf
  have key : ∀ (l acc : List RecId), acc.Nodup → (∀ x ∈ acc, x ∉ d.keys) →
      (l.foldl (fun acc a => if d.keys.contains a || acc.contains a then acc else acc ++ [a]) acc).Nodup ∧
      ∀ x ∈ l.foldl (fun acc a => if d.keys.contains a || acc.contains a then acc else acc ++ [a]) acc, x ∉ d.keys := by
    intro l
    induction l with
    | nil => intro acc h1 h2; exact ⟨h1, h2⟩
    | cons a l ih =>
      intro acc h1 h2
      simp only [List.foldl_cons]
      split
      · exact ih acc h1 h2
      · rename_i hc
        simp only [Bool.or_eq_true, List.contains_eq_mem, decide_eq_true_eq, not_or] at hc
        apply ih
        · rw [List.nodup_append]
          refine ⟨h1, by simp, ?_⟩
          intro x hx y hy
          simp at hy; subst hy
          intro hxy; subst hxy; exact hc.2 hx
        · intro x hx
          rcases List.mem_append.mp hx with hx | hx
          · exact h2 x hx
          · simp at hx; subst hx; exact hc.1
  exact key _ [] List.nodup_nil (by simp)

/-- the datagram built from a batch (`_add_answers_additionals`): answers and additionals together
contain no record twice -/
theorem C12_nodup_wire (b : Dict) (hb : b.keys.Nodup) :
    match Out.ofMcast b with
    | .mcast answers adds => (answers ++ adds).Nodup
    | _ => True := by
  simp only [Out.ofMcast]
  obtain ⟨h1, h2⟩ := additionalsOf_spec b
  rw [List.nodup_append]
  refine ⟨hb, h1, ?_⟩
  intro x hx y hy hxy
  subst hxy
  exact h2 x hy hx

/-- every batch of every run is duplicate free on the wire -/
theorem C12_nodup {p : QP} (hp : p.ok) {c0 : Int} {evs : List QEv} {q' : Queue} {c' : Int} {outs : List (Int × Dict)}
    (h : Run p {} c0 evs q' c' outs) :
    ∀ o ∈ outs, match Out.ofMcast o.2 with
      | .mcast answers adds => (answers ++ adds).Nodup
      | _ => True :=
  fun o ho => C12_nodup_wire o.2 (C12_window hp h o ho).1

/-- records just sent are removed from the groups that stay queued -/
theorem C12_nodup_removed {p : QP} (hp : p.ok) {c0 : Int} {evs : List QEv} {q : Queue} {c : Int} {outs : List (Int × Dict)}
    (h : Run p {} c0 evs q c outs) {now : Int} (hc : c ≤ now) (ht : q.timer = some now) {b : Dict}
    (hb : (q.ready now).2 = some b) :
    ∀ g ∈ (q.ready now).1.groups, ∀ r ∈ b.keys, r ∉ g.answers.keys :=
  (((h.safe hp [] (QInv.init p c0)).1.ready hc ht).2 b hb).2.2

/-! ## C12_immediate — probes and single SRV/A/AAAA/NSEC questions are answered at once -/

/-- An answer of a QM question goes to `_mcast_now` — the set `handle_assembled_query` multicasts in
the arrival block — exactly when the query is a probe, or the record was not seen in the last second
and the query consists of a single SRV, A, AAAA or NSEC question. -/
theorem C12_immediate (probe : Bool) (seen : SeenMap) (now : Int) (nq q0 : Nat) (answers : Dict) (r : RecId)
    (hr : r ∈ answers.keys) :
    r ∈ (({} : QR).addMcast probe seen now nq q0 answers).mcastNow ↔
      probe = true ∨ (inLastSecond (seen.get r) now = false ∧ nq = 1 ∧ immediateType q0) := by
  rw [(addMcast_sets probe seen now nq q0 answers {} r).1, mcRoute_now]
  simp [hr]

/-- ... and everything else is aggregated (not sent at once, not protected) -/
theorem C12_aggregated (probe : Bool) (seen : SeenMap) (now : Int) (nq q0 : Nat) (answers : Dict) (r : RecId)
    (hr : r ∈ answers.keys) :
    r ∈ (({} : QR).addMcast probe seen now nq q0 answers).mcastAgg ↔
      probe = false ∧ inLastSecond (seen.get r) now = false ∧ ¬ (nq = 1 ∧ immediateType q0) := by
  rw [(addMcast_sets probe seen now nq q0 answers {} r).2.2.1, mcRoute_aggregate]
  simp [hr]

/-! ## C12_one_sec — one-second protection -/

/-- QM path, no TTL hypothesis needed: a record seen multicast less than one second before `now`
(the query's arrival) is — probe replies excepted — routed to the protected queue and to nothing
else that multicasts. -/
theorem C12_one_sec_qm (seen : SeenMap) (now : Int) (nq q0 : Nat) (answers : Dict) (r : RecId) (s : Seen)
    (hr : r ∈ answers.keys) (hs : seen.get r = some s) (hage : now - s.created < 1000) :
    let qr := ({} : QR).addMcast false seen now nq q0 answers
    r ∈ qr.mcastLast ∧ r ∉ qr.mcastNow ∧ r ∉ qr.mcastAgg := by
  have hin : inLastSecond (seen.get r) now = true := (inLastSecond_iff _ _).mpr ⟨s, hs, hage⟩
  obtain ⟨h1, h2, h3, _⟩ := addMcast_sets false seen now nq q0 answers {} r
  refine ⟨h2.mpr (Or.inr ⟨hr, (mcRoute_lastSecond _ _ _ _).mpr ⟨rfl, hin⟩⟩), ?_, ?_⟩
  · rw [h1, mcRoute_now]; simp [hin]
  · rw [h3, mcRoute_aggregate]; simp [hin]

/-- the full-strength statement for the QU path: a non-probe QU question never causes an immediate
multicast of a record seen less than one second ago -/
def C12_one_sec_qu_full : Prop :=
  ∀ (seen : SeenMap) (now : Int) (answers : Dict) (r : RecId) (s : Seen),
    r ∈ answers.keys → seen.get r = some s → s.created ≤ now → now - s.created < 1000 →
    r ∉ (({} : QR).addQu false seen now answers).mcastNow

/-- QU path (D12): holds when the cached copy's TTL is at least 4 s, because then a quarter of the TTL
is at least one second; the record is unicast instead. -/
theorem C12_one_sec_qu_partial (seen : SeenMap) (now : Int) (answers : Dict) (r : RecId) (s : Seen)
    (hr : r ∈ answers.keys) (hs : seen.get r = some s) (hage : now - s.created < 1000) (httl : 4 ≤ s.ttl) :
    r ∉ (({} : QR).addQu false seen now answers).mcastNow ∧ r ∈ (({} : QR).addQu false seen now answers).ucast := by
  have hq : withinQuarter (seen.get r) now = true := by
    rw [withinQuarter_iff]; exact ⟨s, hs, by omega⟩
  obtain ⟨h1, h2, _, _⟩ := addQu_sets false seen now answers {} r
  refine ⟨?_, h1.mpr (Or.inr ⟨hr, Or.inr hq⟩)⟩
  rw [h2]; simp [hq]

/-- D12, the excluded point: TTL 3 s, seen 800 ms ago, QU question ⇒ multicast again at once -/
theorem C12_one_sec_qu_refuted : ¬ C12_one_sec_qu_full := by
  intro h
  have := h [(0, { created := 0, ttl := 3 })] 800 [(0, [])] 0 { created := 0, ttl := 3 } (by decide) (by decide) (by decide) (by decide)
  exact this (by decide)

/-- Timing of the protected reply (`_partial`).  A batch of the protected queue is no earlier than one second after every
sighting that **precedes the stamp of the `add`** (`created ≤ a.now`), and no later than 1.2 s after the query was handled.
For an ordinary query the stamp is its arrival, and a sighting the classification can have seen is never later than that: the
hypothesis is then always met.  For a reassembled truncated query the stamp is the arrival of the **first** packet while the
classification (`C12_one_sec_qm`) looks at the age at the **last** packet's arrival: a sighting in between is classified
"seen less than a second ago" and yet is *not* covered — see `C12_one_sec_timing_refuted`.
Reading of the English clause adopted (notes/agents/C12.md, O1): a query has arrived when its last packet has; so the clause
binds for such sightings and the implementation falsifies it (stage O: `C12:held-query-remulticast-within-1s`). -/
theorem C12_one_sec_timing_partial {c0 : Int} {evs : List QEv} {q' : Queue} {c' : Int} {outs : List (Int × Dict)}
    (h : Run delayQP {} c0 evs q' c' outs) (created : Int) :
    ∀ o ∈ outs, ∀ r ∈ o.2.keys, ∃ a ∈ addsOf evs, r ∈ a.keys ∧
      (created ≤ a.now → created + 1000 ≤ o.1) ∧ o.1 ≤ a.clock + 1200 := by
  intro o ho r hr
  obtain ⟨a, ha, h1, _, h3, h4⟩ := C12_window_protected h o ho r hr
  exact ⟨a, ha, h1, fun hc => by omega, h4⟩

/-- the full-strength statement: the protection holds for every sighting made before the `add` is *executed* (i.e. before the
query — all its packets — has been handled), not only before its stamp -/
def C12_one_sec_timing_full : Prop :=
  ∀ (c0 : Int) (evs : List QEv) (q' : Queue) (c' : Int) (outs : List (Int × Dict)), Run delayQP {} c0 evs q' c' outs →
    ∀ (created : Int), ∀ o ∈ outs, ∀ r ∈ o.2.keys, ∃ a ∈ addsOf evs, r ∈ a.keys ∧ (created ≤ a.clock → created + 1000 ≤ o.1)

/-- a legal run of the protected queue: an ordinary query at 0 (record 1), then at loop time 450 the reply to a truncated
query whose first packet arrived at 0 (record 2; stamp 0, draw 20 ⇒ merged into the pending group), sent together at 1020 -/
theorem heldRun : Run delayQP {} 0 [.add 0 0 20 [(1, [])], .add 450 0 20 [(2, [])], .fire 1020] {} 1020 [(1020, [(1, []), (2, [])])] := by
  refine Run.cons (e := .add 0 0 20 [(1, [])]) ?_ (Run.cons (e := .add 450 0 20 [(2, [])]) ?_ (Run.cons (e := .fire 1020) ?_ (Run.nil _ _)))
  · refine ⟨by decide, by decide, by decide, by decide, ?_⟩
    intro d hd; cases hd
  · refine ⟨by decide, by decide, by decide, by decide, ?_⟩
    intro d hd
    have h2 : some (1020 : Int) = some d := hd
    cases h2; decide
  · exact ⟨by decide, by decide⟩

/-- **refuted**: record 2 was seen multicast at 445 — five milliseconds before the truncated query was handled (450), during
its hold — and is multicast again at 1020, 575 ms after that sighting -/
theorem C12_one_sec_timing_refuted : ¬ C12_one_sec_timing_full := by
  intro h
  obtain ⟨a, ha, hr, hb⟩ := h _ _ _ _ _ heldRun 445 (1020, [(1, []), (2, [])]) (by simp) 2 (by decide)
  simp only [addsOf, List.mem_cons, List.not_mem_nil, or_false] at ha
  rcases ha with rfl | rfl
  · simp [Dict.keys] at hr
  · have := hb (by decide)
    omega

/-- "answered in the arrival block": whatever `async_response` put into `_mcast_now` (and `_ucast`)
is sent by `handle_assembled_query` itself — in the block in which the query is handled — as one
multicast datagram; the listener's state is untouched and each queue receives at most one `add`
stamped with the first packet's arrival, with a draw in 20..120 ms. -/
theorem C12_immediate_block {h : Host} {clock : Int} {pkts : List Pkt} {addr port : Nat} {seen : SeenMap} {draws : List Int}
    {r : StepOut} {rest : List Int} (hs : h.assemble clock pkts addr port seen draws = .ok (r, rest))
    {qa : QA} (hqa : asyncResponse pkts (Gen.Reply.ucast_source port) seen = some qa) :
    (qa.mcastNow.isEmpty = false → Out.ofMcast qa.mcastNow ∈ r.outs) ∧
    (∀ o ∈ r.outs, ∀ a b, o = Out.mcast a b → o = Out.ofMcast qa.mcastNow) ∧
    ∃ first, pkts.head? = some first ∧
      (qa.mcastAgg.isEmpty = true → r.host.outQ = h.outQ) ∧
      (qa.mcastAgg.isEmpty = false → ∃ d, 20 ≤ d ∧ d ≤ 120 ∧ r.host.outQ = h.outQ.add outQP clock first.now d qa.mcastAgg) ∧
      (qa.mcastLast.isEmpty = true → r.host.delayQ = h.delayQ) ∧
      (qa.mcastLast.isEmpty = false → ∃ d, 20 ≤ d ∧ d ≤ 120 ∧ r.host.delayQ = h.delayQ.add delayQP clock first.now d qa.mcastLast) := by
  obtain ⟨first, hf, ho, _, hq1, hq2⟩ := assemble_spec hs hqa
  have e1 := drawLo_eq; have e2 := drawHi_eq
  refine ⟨?_, ?_, first, hf, hq1.1, ?_, hq2.1, ?_⟩
  · intro hne; rw [ho]; simp [immediateOuts, hne]
  · intro o hmem a b hob
    rw [ho] at hmem
    simp only [immediateOuts, List.mem_append] at hmem
    rcases hmem with hmem | hmem
    · split at hmem
      · cases hmem
      · simp at hmem; rw [hmem] at hob; cases hob
    · split at hmem
      · cases hmem
      · simpa using hmem
  · intro hne
    obtain ⟨d, h1, h2, h3⟩ := hq1.2 hne
    exact ⟨d, by omega, by omega, h3⟩
  · intro hne
    obtain ⟨d, h1, h2, h3⟩ := hq2.2 hne
    exact ⟨d, by omega, by omega, h3⟩

/-- **From classification to the wire (aggregation).**  If `async_response` classified `rid` as aggregate for the query
handled at loop time `clock`, then `handle_assembled_query` *does* hand it to `out_queue` (one `add`, stamp = first
packet, draw 20..120), and — the queue being in a reachable state and the block respecting the loop axioms (time does not
run backwards, the stamp is not in the future, no due timer was skipped: what `Host.step` checks) — whatever happens
afterwards `rid` is multicast at some `s ∈ [clock, clock + 500]` unless the run stops earlier.  With `C12_window_aggregate`
(every batch of such a run lies in `[stamp + 20, clock + 500]` of an `add` of each of its records) this is the sentence
"sent no earlier than 20 ms and no later than 500 ms after the query arrives, aggregated with other pending answers". -/
theorem C12_aggregated_on_wire {h : Host} {clock : Int} {pkts : List Pkt} {addr port : Nat} {seen : SeenMap} {draws : List Int}
    {r : StepOut} {rest : List Int} (hs : h.assemble clock pkts addr port seen draws = .ok (r, rest))
    {qa : QA} (hqa : asyncResponse pkts (Gen.Reply.ucast_source port) seen = some qa) {rid : RecId} (hr : rid ∈ qa.mcastAgg.keys)
    {c0 c1 : Int} {pre : List QEv} {outs1 : List (Int × Dict)} (hpre : Run outQP {} c0 pre h.outQ c1 outs1)
    (hclock : c1 ≤ clock) (hstamp : ∀ first, pkts.head? = some first → first.now ≤ clock)
    (hdue : ∀ d, h.outQ.timer = some d → clock ≤ d)
    {post : List QEv} {q' : Queue} {c' : Int} {outs : List (Int × Dict)} (hpost : Run outQP r.host.outQ clock post q' c' outs) :
    (∃ o ∈ outs, rid ∈ o.2.keys ∧ clock ≤ o.1 ∧ o.1 ≤ clock + 500) ∨ c' ≤ clock + 500 ∨ withdrawnIn post rid (clock + 500) := by
  obtain ⟨first, hf, _, _, hq1, _⟩ := assemble_spec hs hqa
  obtain ⟨d, hd1, hd2, heq⟩ := hq1.2 (Dict.isEmpty_false_of_mem hr)
  rw [heq] at hpost
  have hrun : Run outQP h.outQ c1 (.add clock first.now d qa.mcastAgg :: post) q' c' ([] ++ outs) :=
    Run.cons (e := .add clock first.now d qa.mcastAgg) ⟨hclock, hstamp first hf, hd1, hd2, hdue⟩ hpost
  simpa using C12_on_wire_aggregate hpre hrun rid hr

/-- **From classification to the wire (protected).**  Likewise for a record classified "seen in the last second": it is
handed to `out_delay_queue` and is multicast at some `s ∈ [clock, clock + 1200]`; by `C12_window_protected` no batch of that
queue carries it earlier than `stamp + 1020`. -/
theorem C12_protected_on_wire {h : Host} {clock : Int} {pkts : List Pkt} {addr port : Nat} {seen : SeenMap} {draws : List Int}
    {r : StepOut} {rest : List Int} (hs : h.assemble clock pkts addr port seen draws = .ok (r, rest))
    {qa : QA} (hqa : asyncResponse pkts (Gen.Reply.ucast_source port) seen = some qa) {rid : RecId} (hr : rid ∈ qa.mcastLast.keys)
    {c0 c1 : Int} {pre : List QEv} {outs1 : List (Int × Dict)} (hpre : Run delayQP {} c0 pre h.delayQ c1 outs1)
    (hclock : c1 ≤ clock) (hstamp : ∀ first, pkts.head? = some first → first.now ≤ clock)
    (hdue : ∀ d, h.delayQ.timer = some d → clock ≤ d)
    {post : List QEv} {q' : Queue} {c' : Int} {outs : List (Int × Dict)} (hpost : Run delayQP r.host.delayQ clock post q' c' outs) :
    (∃ o ∈ outs, rid ∈ o.2.keys ∧ clock ≤ o.1 ∧ o.1 ≤ clock + 1200) ∨ c' ≤ clock + 1200 ∨ withdrawnIn post rid (clock + 1200) := by
  obtain ⟨first, hf, _, _, _, hq2⟩ := assemble_spec hs hqa
  obtain ⟨d, hd1, hd2, heq⟩ := hq2.2 (Dict.isEmpty_false_of_mem hr)
  rw [heq] at hpost
  have hrun : Run delayQP h.delayQ c1 (.add clock first.now d qa.mcastLast :: post) q' c' ([] ++ outs) :=
    Run.cons (e := .add clock first.now d qa.mcastLast) ⟨hclock, hstamp first hf, hd1, hd2, hdue⟩ hpost
  simpa using C12_on_wire_protected hpre hrun rid hr

/-! ## C12_tc — truncated queries -/

/-- A truncated packet is not answered in its own block: it is stored, any timer of the same source
address is cancelled, and exactly one timer for that address is armed, due 400–500 ms after this
packet (the draw `d` is the one `takeDraw tcLo tcHi` accepted); timers of other addresses are
untouched. -/
theorem C12_tc_hold (l : Listener) (t : Int) (addr port : Nat) (p : Pkt) {draws : List Int} {d : Int} {rest : List Int}
    (hd : takeDraw tcLo tcHi draws = .ok (d, rest)) :
    (∃ tm, (l.defer t addr port p d).timers.filter (fun x => x.addr == addr) = [tm] ∧ t + 400 ≤ tm.due ∧ tm.due ≤ t + 500) ∧
    (∀ a, a ≠ addr → (l.defer t addr port p d).timers.filter (fun x => x.addr == a) = l.timers.filter (fun x => x.addr == a)) := by
  obtain ⟨h1, h2, _⟩ := takeDraw_ok hd
  have e1 := tcLo_eq; have e2 := tcHi_eq
  refine ⟨⟨_, Listener.defer_timer l t addr port p d, ?_, ?_⟩, fun a ha => Listener.defer_other l t addr port p d a ha⟩ <;>
    (simp only; omega)

/-- a truncated packet is never answered in its own block: whatever `datagram_received` does with it (drops it as oversize /
duplicate / already deferred, or defers it), it sends nothing -/
theorem C12_tc_silent {h : Host} {t : Int} {addr port dataId size : Nat} {hasQu : Bool} {p : Pkt} {seen : SeenMap} {draws : List Int} {r : StepOut}
    (hs : h.step (.rx t addr port dataId size hasQu (.query p) seen draws) = .ok r) (htc : p.truncated = true) : r.outs = [] := by
  have hnt : Gen.Reply.l_not_truncated p.truncated = false := by rw [GenFacts.l_not_truncated, htc]; rfl
  obtain ⟨a, hd, hp⟩ := step_decide hs
  cases a with
  | idle lis => exact (perform_idle hp).2
  | defer lis d => exact (perform_defer hp).2
  | ready d => obtain ⟨t', he⟩ := decide_ready hd; cases he
  | remove d recs => exact (perform_remove hp).1
  | answer lis pkts addr' port' =>
    exfalso
    simp only [Host.decide, hnt, Bool.false_eq_true, if_false] at hd
    repeat' split at hd
    all_goals cases hd

/-- When the timer fires (or an untruncated packet of the same source arrives: `msg = some _`) **all**
deferred packets of the address are answered by one `handle_assembled_query`, after which nothing is
deferred and no timer is armed for the address: each packet is answered once. -/
theorem C12_tc_once {h : Host} {clock : Int} {msg : Option Pkt} {addr port : Nat} {seen : SeenMap} {draws : List Int}
    {r : StepOut} {rest : List Int} (hs : h.respond clock msg addr port seen draws = .ok (r, rest)) :
    ({ h with lis := (h.lis.cancelTimer addr).popDeferred addr } : Host).assemble clock
        (h.lis.deferredOf addr ++ msg.toList) addr port seen draws = .ok (r, rest) ∧
    (r.host.lis.deferredOf addr = [] ∧ r.host.lis.timers.filter (fun x => x.addr == addr) = []) := by
  have ha := respond_spec hs
  refine ⟨ha, ?_⟩
  have hl : r.host.lis = (h.lis.cancelTimer addr).popDeferred addr := by
    cases hqa : asyncResponse (h.lis.deferredOf addr ++ msg.toList) (Gen.Reply.ucast_source port) seen with
    | none => rw [(assemble_none ha hqa).2]
    | some qa => obtain ⟨_, _, _, hlis, _⟩ := assemble_spec ha hqa; exact hlis
  rw [hl]
  exact ⟨Listener.popDeferred_deferredOf _ _, by
    simpa [Listener.popDeferred] using Listener.cancelTimer_none h.lis addr⟩

/-- ... using the union of all their known answers: every record the assembled reply hands out —
unicast, at once, aggregated or protected — is a candidate answer of a question of one of the
packets that **no** known answer of **any** (non-probe) packet of the train suppresses. -/
theorem C12_tc_union {pkts : List Pkt} {us : Bool} {seen : SeenMap} {qa : QA}
    (h : asyncResponse pkts us seen = some qa) (r : RecId)
    (hr : r ∈ qa.ucast.keys ∨ r ∈ qa.mcastNow.keys ∨ r ∈ qa.mcastAgg.keys ∨ r ∈ qa.mcastLast.keys) :
    ∃ p ∈ pkts, ∃ it ∈ p.items, ∃ c ∈ it.cands, c.id = r ∧ suppresses (unionKnown pkts) c = false :=
  asyncResponse_sources h r hr

/-- … and **every** question of **every** packet of the train is answered: each candidate answer that the union of the known
answers does not suppress is in one of the four sets of the reply (unicast, at once, aggregated, protected) — the
completeness half of "answered once using the union of all their known answers" -/
theorem C12_tc_complete {pkts : List Pkt} {us : Bool} {seen : SeenMap} {qa : QA}
    (h : asyncResponse pkts us seen = some qa) {p : Pkt} (hp : p ∈ pkts) {it : QItem} (hit : it ∈ p.items)
    (r : RecId) (hr : r ∈ (answerSet (unionKnown pkts) it).keys) :
    r ∈ qa.ucast.keys ∨ r ∈ qa.mcastNow.keys ∨ r ∈ qa.mcastAgg.keys ∨ r ∈ qa.mcastLast.keys := by
  obtain ⟨first, last, _, _, rfl⟩ := asyncResponse_eq h
  obtain ⟨k1, k2, k3, k4⟩ := answers_keys
    (List.foldl (fun (qr : QR) it => qr.route us (pkts.any (·.isProbe)) seen last.now first.nq first.q0type it.qu
      (answerSet (unionKnown pkts) it)) {} (pkts.flatMap (·.items)))
  rw [k1, k2, k3, k4]
  exact foldl_establish
    (fun (qr : QR) it => qr.route us (pkts.any (·.isProbe)) seen last.now first.nq first.q0type it.qu (answerSet (unionKnown pkts) it))
    (fun qr => qr.mem r)
    (fun a b hq => by
      obtain ⟨m1, m2, m3, m4⟩ := route_mono us (pkts.any (·.isProbe)) seen last.now first.nq first.q0type a b.qu (answerSet (unionKnown pkts) b) r
      rcases hq with hq | hq | hq | hq
      · exact Or.inl (m1 hq)
      · exact Or.inr (Or.inl (m2 hq))
      · exact Or.inr (Or.inr (Or.inl (m3 hq)))
      · exact Or.inr (Or.inr (Or.inr (m4 hq))))
    (fun a => route_covers us _ seen last.now first.nq first.q0type a it.qu _ r hr) _ {} (List.mem_flatMap.mpr ⟨p, hp, hit⟩)

/-- an unsuppressed candidate is one the union does not suppress -/
theorem C12_answerSet_complete (known : List (RecId × Nat)) (it : QItem) (c : Cand) (hc : c ∈ it.cands) (hs : suppresses known c = false) :
    c.id ∈ (answerSet known it).keys := by
  unfold answerSet
  have key : ∀ (l : List Cand) (d : Dict), c ∈ l → c.id ∈ (l.foldl (fun d c => d.set c.id c.adds) d).keys := by
    intro l
    induction l with
    | nil => intro d h; cases h
    | cons x l ih =>
      intro d h
      simp only [List.foldl_cons]
      rcases List.mem_cons.mp h with rfl | h
      · have keep : ∀ (l : List Cand) (d : Dict), c.id ∈ d.keys → c.id ∈ (l.foldl (fun d c => d.set c.id c.adds) d).keys := by
          intro l
          induction l with
          | nil => intro d h; exact h
          | cons y l ih2 => intro d h; exact ih2 _ ((Dict.keys_set _ _ _ _).mpr (Or.inl h))
        exact keep l _ ((Dict.keys_set _ _ _ _).mpr (Or.inr rfl))
      · exact ih _ h
  exact key _ _ (List.mem_filter.mpr ⟨hc, by simp [hs]⟩)

/-- what "suppresses" means: the record is one the known answers can suppress at all and the *last*
known answer equal to it carries more than half its TTL -/
theorem C12_suppresses_iff (known : List (RecId × Nat)) (c : Cand) :
    suppresses known c = true ↔
      c.sup = true ∧ ∃ k, known.reverse.find? (fun k => k.1 == c.id) = some k ∧ (c.ttl : Int) < 2 * (k.2 : Int) := by
  unfold suppresses
  cases hf : known.reverse.find? (fun k => k.1 == c.id) with
  | none => simp
  | some k => simp [GenFacts.rrset_suppresses]

/-! ## non-vacuity: concrete legal runs (`heldRun` above takes the merge branch of `async_add` on the protected queue; the run
below appends a second group, so `async_ready` first waits for the head's `send_before` and then sends both groups in one batch) -/

example : Run outQP {} 0 [.add 0 0 20 [(1, [2])], .add 10 10 120 [(3, [])], .fire 20, .fire 500] {} 500 [(500, [(1, [2]), (3, [])])] := by
  refine Run.cons (e := .add 0 0 20 [(1, [2])]) ?_ (Run.cons (e := .add 10 10 120 [(3, [])]) ?_
    (Run.cons (e := .fire 20) ?_ (Run.cons (e := .fire 500) ?_ (Run.nil _ _))))
  · refine ⟨by decide, by decide, by decide, by decide, ?_⟩
    intro d hd; cases hd
  · refine ⟨by decide, by decide, by decide, by decide, ?_⟩
    intro d hd
    have h2 : some (20 : Int) = some d := hd
    cases h2; decide
  · exact ⟨by decide, by decide⟩
  · exact ⟨by decide, by decide⟩


example : Run outQP {} 0 [.add 0 0 20 [(1, [2])], .fire 20] {} 20 [(20, [(1, [2])])] := by
  refine Run.cons (e := .add 0 0 20 [(1, [2])]) ?_ (Run.cons (e := .fire 20) ?_ (Run.nil _ _))
  · refine ⟨by decide, by decide, by decide, by decide, ?_⟩
    intro d hd; cases hd
  · exact ⟨by decide, by decide⟩

/-- the hypotheses of `C12_one_sec_qu_partial` are satisfiable (TTL exactly 4 s, seen 999 ms ago) -/
example : ∃ (seen : SeenMap) (now : Int) (answers : Dict) (r : RecId) (s : Seen),
    r ∈ answers.keys ∧ seen.get r = some s ∧ now - s.created < 1000 ∧ 4 ≤ s.ttl :=
  ⟨[(0, { created := 0, ttl := 4 })], 999, [(0, [])], 0, { created := 0, ttl := 4 }, by decide, by decide, by decide, by decide⟩

example : ((({} : QR).addMcast false [(7, { created := 100, ttl := 120 })] 1099 1 33 [(7, [])]).mcastLast = [7]) := by decide
example : ((({} : QR).addMcast false [(7, { created := 100, ttl := 120 })] 1100 1 33 [(7, [])]).mcastNow = [7]) := by decide
example : ((({} : QR).addMcast false [(7, { created := 100, ttl := 120 })] 1100 2 33 [(7, [])]).mcastAgg = [7]) := by decide

/-! ## C12 over runs of the whole host (formerly `Props/C12Host.lean`; moved here so that the evidence lists these theorems)

`Zc.Props.C12` proves the timing bounds for one `MulticastOutgoingQueue` in isolation (`Run`) and links a classified query to
them under hypotheses about the block.  Here the same bounds are theorems about **every run of the host model** — datagrams,
truncated-query timers and both queue timers interleaved in any way — that satisfies the event-loop facts `LoopAx`
(`Zc.Proofs.HostRun`): loop time is monotone, no block runs after a pending timer's due time, a timer callback runs exactly
when due; blocks are atomic.  `Host.step` checks these facts, so every accepted run (`Host.run … = .ok …`, what trace acceptance
establishes for every replayed simulator trace) is such a run: `C12_host_accepted`.

Each `add` of a run is identified as an assembled query of that run (`Assembled`): the block's time is the handling time `c`,
the stamp is the arrival of the query's first packet, the records are what `async_response` classified.  Numbers are the English
property's. -/

/-- every run the model accepts satisfies the loop facts at every block -/
theorem C12_host_accepted (evs : List Ev) (h : Host) (clock : Int) (h' : Host) (outs : List (Int × List Out × List Draw))
    (hr : Host.run h clock evs = .ok (h', outs)) :
    ∃ c' tr, HRun h clock evs h' c' tr ∧ outs = tr.map (fun p => (p.1.time, p.2.outs, p.2.draws)) :=
  HRun.of_run evs h clock h' outs hr

/-- **Run-level invariant** (from the initial state, along every run): both queues satisfy C12's timed invariant, every deferred
packet is older than the clock, and **there is at most one truncated-query timer per source address, armed only while
packets of that address are deferred** -/
theorem C12_host_invariant {c0 : Int} {evs : List Ev} {h' : Host} {c' : Int} {tr : List (Ev × StepOut)} (hr : HRun {} c0 evs h' c' tr) :
    (∃ hO hD, HInv hO hD c' h') ∧
    ∀ a, (h'.lis.timers.filter (fun tm => tm.addr == a)).length ≤ 1 ∧
      (h'.lis.timers.filter (fun tm => tm.addr == a) ≠ [] → h'.lis.deferredOf a ≠ []) := by
  have hI := hr.inv [] [] (HInv.init c0)
  exact ⟨⟨_, _, hI⟩, hI.timers⟩

/-- **Window, aggregation queue, over host runs.**  Whatever `out_queue`'s timer callback multicasts at `s` in a run from the
initial state: no record twice, and each record `x` answers a query assembled in an earlier block of the same run — handled at
`c ≤ s`, first packet arrived at `t`, `x` classified *aggregate* by `async_response` — with `t + 20 ≤ s ≤ c + 500`. -/
theorem C12_host_window_aggregate {c0 : Int} {evs : List Ev} {h' : Host} {c' : Int} {tr : List (Ev × StepOut)}
    (hr : HRun {} c0 evs h' c' tr) :
    ∀ p ∈ tr, ∀ s, p.1 = .qfire s false → ∀ o ∈ p.2.outs, ∃ b, o = Out.ofMcast b ∧ b.keys.Nodup ∧
      ∀ x ∈ b.keys, ∃ st ∈ traceStates {} tr, ∃ pkts port first qa, Assembled st.1 st.2.1 pkts port first qa ∧
        x ∈ qa.mcastAgg.keys ∧ st.2.1.time ≤ s ∧ first.now + 20 ≤ s ∧ s ≤ st.2.1.time + 500 := by
  intro p hp s hps o ho
  obtain ⟨b, hb, hn, hw⟩ := hr.safe false [] [] (HInv.init c0) p hp s hps o ho
  refine ⟨b, hb, hn, fun x hx => ?_⟩
  obtain ⟨ad, had, h1, h2, h3, h4⟩ := hw x hx
  simp only [Bool.false_eq_true, if_false, List.nil_append] at had
  obtain ⟨st, hst, pkts, port, first, qa, hasm, rfl⟩ := traceAdds_origin false tr {} ad had
  have e1 := drawLo_eq; have e2 := outQP_addl; have e3 := outQP_agg
  simp only [qpOf, Bool.false_eq_true, if_false] at h1 h2 h3 h4
  exact ⟨st, hst, pkts, port, first, qa, hasm, h1, h2, by omega, by omega⟩

/-- **Window, protected queue, over host runs**: `t + 1020 ≤ s ≤ c + 1200`, the record classified *seen in the last second*. -/
theorem C12_host_window_protected {c0 : Int} {evs : List Ev} {h' : Host} {c' : Int} {tr : List (Ev × StepOut)}
    (hr : HRun {} c0 evs h' c' tr) :
    ∀ p ∈ tr, ∀ s, p.1 = .qfire s true → ∀ o ∈ p.2.outs, ∃ b, o = Out.ofMcast b ∧ b.keys.Nodup ∧
      ∀ x ∈ b.keys, ∃ st ∈ traceStates {} tr, ∃ pkts port first qa, Assembled st.1 st.2.1 pkts port first qa ∧
        x ∈ qa.mcastLast.keys ∧ st.2.1.time ≤ s ∧ first.now + 1020 ≤ s ∧ s ≤ st.2.1.time + 1200 := by
  intro p hp s hps o ho
  obtain ⟨b, hb, hn, hw⟩ := hr.safe true [] [] (HInv.init c0) p hp s hps o ho
  refine ⟨b, hb, hn, fun x hx => ?_⟩
  obtain ⟨ad, had, h1, h2, h3, h4⟩ := hw x hx
  simp only [if_true, List.nil_append] at had
  obtain ⟨st, hst, pkts, port, first, qa, hasm, rfl⟩ := traceAdds_origin true tr {} ad had
  have e1 := drawLo_eq; have e2 := delayQP_addl; have e3 := delayQP_agg
  simp only [qpOf, if_true] at h1 h2 h3 h4
  exact ⟨st, hst, pkts, port, first, qa, hasm, h1, h2, by omega, by omega⟩

/-- **One-second clause, timing, over host runs** (`_partial`, D12b): a protected batch at `s` is at least one second after
every sighting `created` that precedes the arrival of the *first* packet of the query that caused it (for an ordinary query:
its arrival) — the hypothesis `created ≤ first.now` is what `C12_one_sec_timing_refuted` shows cannot be dropped — and at most
1.2 s after that query was handled. -/
theorem C12_host_one_sec_timing_partial {c0 : Int} {evs : List Ev} {h' : Host} {c' : Int} {tr : List (Ev × StepOut)}
    (hr : HRun {} c0 evs h' c' tr) (created : Int) :
    ∀ p ∈ tr, ∀ s, p.1 = .qfire s true → ∀ o ∈ p.2.outs, ∃ b, o = Out.ofMcast b ∧
      ∀ x ∈ b.keys, ∃ st ∈ traceStates {} tr, ∃ pkts port first qa, Assembled st.1 st.2.1 pkts port first qa ∧
        x ∈ qa.mcastLast.keys ∧ (created ≤ first.now → created + 1000 ≤ s) ∧ s ≤ st.2.1.time + 1200 := by
  intro p hp s hps o ho
  obtain ⟨b, hb, _, hw⟩ := C12_host_window_protected hr p hp s hps o ho
  refine ⟨b, hb, fun x hx => ?_⟩
  obtain ⟨st, hst, pkts, port, first, qa, hasm, h1, _, h3, h4⟩ := hw x hx
  exact ⟨st, hst, pkts, port, first, qa, hasm, h1, fun hc => by omega, h4⟩

/-- **From classification to the wire, over host runs.**  In any state reached by a run from the initial state (`HInv`), let
a block assemble a query and `async_response` classify `x` as aggregate (`d = false`) or seen-in-the-last-second
(`d = true`).  Then in *every* continuation of the run, `x` is multicast by that queue's timer callback at some
`s ∈ [c, c + 500]` (`[c, c + 1200]`), `c` the block's time — or the run ends before that, or a later block of the run withdraws
`x` from that queue **no later than `c + 500` (`c + 1200`)** (`Ev.qremove`: `async_remove_answers`, its service was unregistered —
that the block stems from an unregistration is the harness's tie, not the model's).  No hypothesis about the block
beyond the loop facts that `HRun` carries; registry changes may occur anywhere in the run. -/
theorem C12_host_on_wire (d : Bool) {hO hD : List AddRec} {clock : Int} {h : Host} (hI : HInv hO hD clock h)
    {e : Ev} {es : List Ev} {h' : Host} {c' : Int} {r : StepOut} {tr : List (Ev × StepOut)}
    (hr : HRun h clock (e :: es) h' c' ((e, r) :: tr))
    {pkts : List Pkt} {port : Nat} {first : Pkt} {qa : QA} (hasm : Assembled h e pkts port first qa)
    {x : RecId} (hx : x ∈ (if d then qa.mcastLast else qa.mcastAgg).keys) :
    (∃ p ∈ tr, ∃ s b, p.1 = .qfire s d ∧ Out.ofMcast b ∈ p.2.outs ∧ x ∈ b.keys ∧ e.time ≤ s ∧
        s ≤ e.time + (if d then 1200 else 500)) ∨
      c' ≤ e.time + (if d then 1200 else 500) ∨ withdrawnInTrace d tr x (e.time + (if d then 1200 else 500)) := by
  cases hr with
  | cons hax hs hrest =>
    obtain ⟨a, hd, hperf⟩ := step_decide hs
    obtain ⟨⟨lis, addr, hdec⟩, hf, hqa⟩ := hasm
    rw [hdec] at hd
    cases hd
    have hI' := hI.step hax hdec hperf
    obtain ⟨rest, hasm'⟩ := perform_answer hperf
    obtain ⟨first', hf', _, _, hq1, hq2⟩ := assemble_spec hasm' hqa
    rw [hf] at hf'; cases hf'
    -- the record sits in queue `d` after the block, in a group created no later than the block
    have hqueued : ∃ g ∈ (r.host.q d).groups, x ∈ g.answers.keys ∧ g.born + (qpOf d).agg + (qpOf d).addl ≤ e.time + (qpOf d).agg + (qpOf d).addl := by
      cases d
      · simp only [Bool.false_eq_true, if_false] at hx
        obtain ⟨dr, _, _, heq⟩ := hq1.2 (Dict.isEmpty_false_of_mem hx)
        obtain ⟨g', hg', hx', hb⟩ := Queue.add_has outQP h.outQ hI.outQ e.time first.now dr hax.monotone qa.mcastAgg hx
        exact ⟨g', by simp only [Host.q, Bool.false_eq_true, if_false]; rw [heq]; exact hg', hx', by omega⟩
      · simp only [if_true] at hx
        obtain ⟨dr, _, _, heq⟩ := hq2.2 (Dict.isEmpty_false_of_mem hx)
        obtain ⟨g', hg', hx', hb⟩ := Queue.add_has delayQP h.delayQ hI.delayQ e.time first.now dr hax.monotone qa.mcastLast hx
        exact ⟨g', by simp only [Host.q, if_true]; rw [heq]; exact hg', hx', by omega⟩
    have hnum : e.time + (qpOf d).agg + (qpOf d).addl = e.time + (if d then 1200 else 500) := by
      have e2 := outQP_addl; have e3 := outQP_agg; have e4 := delayQP_addl; have e5 := delayQP_agg
      cases d <;> simp only [qpOf, Bool.false_eq_true, if_false, if_true] <;> omega
    rw [hnum] at hqueued
    rcases hrest.live d _ _ hI' x _ hqueued with ⟨p, hp, s, b, h1, h2, h3, h4⟩ | ⟨g, hg, _, hD⟩ | hw
    · have ht := hrest.times.2 p hp
      rw [h1] at ht
      exact Or.inl ⟨p, hp, s, b, h1, h2, h3, ht, h4⟩
    · right; left
      have hend := (hrest.inv _ _ hI').q d
      have := hend.not_late hg
      omega
    · exact Or.inr (Or.inr hw)

/-- **answered once, together** (block level, as `Host.step` does it): whenever a block calls `handle_assembled_query` for an
address, it is called with *all* packets deferred for that address (plus the packet at hand, if the block is an arrival), and
afterwards nothing is deferred and no timer is armed for the address; with `C12_host_invariant` (at most one timer per
address) no second call for the same packets can follow -/
theorem C12_host_answers_once {h : Host} {e : Ev} {lis : Listener} {pkts : List Pkt} {addr port : Nat}
    (hd : h.decide e = .ok (.answer lis pkts addr port)) :
    lis.deferredOf addr = [] ∧ lis.timers.filter (fun tm => tm.addr == addr) = [] ∧
    ∃ msg : Option Pkt, pkts = h.lis.deferredOf addr ++ msg.toList := by
  obtain ⟨lis1, msg, h1, _, rfl, rfl, _⟩ := decide_answer hd
  refine ⟨take_deferredOf_same _ _ _, take_timers_same _ _ _, msg, ?_⟩
  rw [take_pkts, deferredOf_congr h1 addr]

/-! ## The one-second clause on the wire: what holds per cause, and the two ways the literal sentence fails (second review, item 3)

English: "a record the host saw multicast less than one second before the query arrived is not multicast again until at least one
second after that sighting".  Read on its words it speaks about **every** multicast transmission of the record — as an answer or as
an additional, by whichever block — once a query has arrived for whose reply the record is wanted.  The code implements the rule
per *cause* and for *answers* only: `_has_mcast_record_in_last_second` is asked for the answers of the query being assembled; the
additionals of an answer are never tested, and a group already pending in a queue is not re-examined when the record is seen in
the meantime.  Decision: these are **findings** (deviations from the sentence), not readings —
`C12:additional-remulticast-within-1s` and `C12:pending-batch-remulticast-within-1s` in `known_findings.json`; each has a
`…_refuted` witness below.  What IS proved of the sentence is `C12_one_sec_wire_partial`: the one-second distance for a record
multicast *as an answer*, *from the protected queue*, measured from sightings that precede the *first packet of the query that queued
it*.  `C12_host_answer_cause` only says that every multicast answer has a causing query and lies in that cause's window; for the
"now" and "aggregate" routes no distance from any sighting follows from it (that is where D12 and the pending-batch finding live). -/

/-- each block of a run comes with the state it started from, in which the model accepts it -/
theorem HRun.mem_states {h : Host} {c : Int} {evs : List Ev} {h' : Host} {c' : Int} {tr : List (Ev × StepOut)}
    (hr : HRun h c evs h' c' tr) : ∀ p ∈ tr, ∃ st, (st, p.1, p.2) ∈ traceStates h tr ∧ st.step p.1 = .ok p.2 := by
  induction hr with
  | nil h c => intro p hp; cases hp
  | @cons h clock e es r h' c' tr hax hs _ ih =>
    intro p hp
    rcases List.mem_cons.mp hp with rfl | hp
    · exact ⟨h, List.mem_cons_self, hs⟩
    · obtain ⟨st, h1, h2⟩ := ih p hp
      exact ⟨st, List.mem_cons_of_mem _ h1, h2⟩

theorem mcast_mem_immediateOuts {qa : QA} {addr port id nq : Nat} {us : Bool} {ans adds : List RecId}
    (h : Out.mcast ans adds ∈ immediateOuts qa addr port id nq us) : Out.mcast ans adds = Out.ofMcast qa.mcastNow := by
  simp only [immediateOuts, List.mem_append] at h
  rcases h with h | h
  · split at h
    · cases h
    · simp at h
  · split at h
    · cases h
    · simpa using h

/-- **Every multicast answer has a cause, and lies in that cause's window.**  In a run from the initial state, whenever a block
multicasts a record `x` **as an answer**, some query assembled in the run put it there: either this very block assembled it and
`async_response` put `x` into `_mcast_now` — **nothing about sightings follows from this disjunct**: `_mcast_now` is filled by probes,
by the QU route (quarter-TTL rule: D12) and by the single-question rule — or an earlier block did and classified `x` aggregate (then
`first + 20 ≤ m ≤ c + 500`; no distance from a sighting either: the pending-batch finding) or seen-in-the-last-second (then
`first + 1020 ≤ m ≤ c + 1200`).  This is a statement about *windows per cause*; the one-second distance is
`C12_one_sec_wire_partial`. -/
theorem C12_host_answer_cause {c0 : Int} {evs : List Ev} {h' : Host} {c' : Int} {tr : List (Ev × StepOut)}
    (hr : HRun {} c0 evs h' c' tr) :
    ∀ p ∈ tr, ∀ ans adds, Out.mcast ans adds ∈ p.2.outs → ∀ x ∈ ans,
      ∃ st ∈ traceStates {} tr, ∃ pkts port first qa, Assembled st.1 st.2.1 pkts port first qa ∧
        ( (st.2.1 = p.1 ∧ st.2.2 = p.2 ∧ x ∈ qa.mcastNow.keys)
        ∨ (x ∈ qa.mcastAgg.keys ∧ st.2.1.time ≤ p.1.time ∧ first.now + 20 ≤ p.1.time ∧ p.1.time ≤ st.2.1.time + 500)
        ∨ (x ∈ qa.mcastLast.keys ∧ st.2.1.time ≤ p.1.time ∧ first.now + 1020 ≤ p.1.time ∧ p.1.time ≤ st.2.1.time + 1200) ) := by
  intro p hp ans adds ho x hx
  obtain ⟨st, hst, hstep⟩ := hr.mem_states p hp
  obtain ⟨a, hd, hperf⟩ := step_decide hstep
  cases a with
  | idle lis => rw [(perform_idle hperf).2] at ho; cases ho
  | defer lis d => rw [(perform_defer hperf).2] at ho; cases ho
  | remove d recs => rw [(perform_remove hperf).1] at ho; cases ho
  | ready d =>
    obtain ⟨s, hs⟩ := decide_ready hd
    cases d
    · obtain ⟨b, hb, _, hw⟩ := C12_host_window_aggregate hr p hp s hs _ ho
      have hans : ans = b.keys := by simp only [Out.ofMcast, Out.mcast.injEq] at hb; exact hb.1
      obtain ⟨st', hst', pkts, port, first, qa, hasm, h1, h2, h3, h4⟩ := hw x (hans ▸ hx)
      have ht : p.1.time = s := by rw [hs]; rfl
      exact ⟨st', hst', pkts, port, first, qa, hasm, Or.inr (Or.inl ⟨h1, by omega, by omega, by omega⟩)⟩
    · obtain ⟨b, hb, _, hw⟩ := C12_host_window_protected hr p hp s hs _ ho
      have hans : ans = b.keys := by simp only [Out.ofMcast, Out.mcast.injEq] at hb; exact hb.1
      obtain ⟨st', hst', pkts, port, first, qa, hasm, h1, h2, h3, h4⟩ := hw x (hans ▸ hx)
      have ht : p.1.time = s := by rw [hs]; rfl
      exact ⟨st', hst', pkts, port, first, qa, hasm, Or.inr (Or.inr ⟨h1, by omega, by omega, by omega⟩)⟩
  | answer lis pkts addr port =>
    obtain ⟨rest, hasm⟩ := perform_answer hperf
    cases hqa : asyncResponse pkts (Gen.Reply.ucast_source port) p.1.seen with
    | none => rw [(assemble_none hasm hqa).1] at ho; cases ho
    | some qa =>
      obtain ⟨first, hf, houts, _⟩ := assemble_spec hasm hqa
      rw [houts] at ho
      have heq := mcast_mem_immediateOuts ho
      have hans : ans = qa.mcastNow.keys := by simp only [Out.ofMcast, Out.mcast.injEq] at heq; exact heq.1
      exact ⟨(st, p.1, p.2), hst, pkts, port, first, qa, ⟨⟨lis, addr, hd⟩, hf, hqa⟩, Or.inl ⟨rfl, rfl, hans ▸ hx⟩⟩

/-- **`_partial` of `C12_one_sec_wire_full`** — what is proved of "not multicast again until at least one second after that
sighting": a record `x` multicast **as an answer** by the **protected queue's** callback at `m` was queued by an assembled query of
the run that classified it "seen in the last second" (`x ∈ qa.mcastLast`), and `m` is at least one second after **every sighting
that precedes that query's first packet** (`created ≤ first.now`), and at most 1.2 s after the query was handled.  Each restriction
is needed (none is claimed to be the exact complement of a finding — the hypotheses are sufficient conditions):
additionals — `C12_one_sec_additional_refuted`; transmissions caused by another, earlier query (aggregate or protected group already
pending) — `C12_one_sec_pending_batch_refuted`; sightings between the first and the last packet of the causing query — D12b,
`C12_one_sec_timing_refuted`; the "now" route for QU questions — D12, `C12_one_sec_qu_refuted`. -/
theorem C12_one_sec_wire_partial {c0 : Int} {evs : List Ev} {h' : Host} {c' : Int} {tr : List (Ev × StepOut)}
    (hr : HRun {} c0 evs h' c' tr) (created : Int) :
    ∀ p ∈ tr, ∀ s, p.1 = .qfire s true → ∀ o ∈ p.2.outs, ∃ b, o = Out.ofMcast b ∧
      ∀ x ∈ b.keys, ∃ st ∈ traceStates {} tr, ∃ pkts port first qa, Assembled st.1 st.2.1 pkts port first qa ∧
        x ∈ qa.mcastLast.keys ∧ (created ≤ first.now → created + 1000 ≤ s) ∧ s ≤ st.2.1.time + 1200 :=
  C12_host_one_sec_timing_partial hr created

/-- not a packet of a truncated train and not a probe: in a run of such events every assembly is the one packet at hand -/
def Ev.plain : Ev → Bool
  | .rx _ _ _ _ _ _ (.query p) _ _ => !p.truncated && !p.isProbe
  | _ => true

/-- the records a reply multicasts, at once or from a queue: answers and their additionals -/
def QA.mcastRecords (qa : QA) : List RecId :=
  (qa.mcastNow ++ qa.mcastAgg ++ qa.mcastLast).keys ++ (qa.mcastNow ++ qa.mcastAgg ++ qa.mcastLast).flatMap (·.2)

/-- **the one-second clause as the English has it** (for ordinary, non-probe queries; no truncated trains anywhere in the run):
once a query has arrived at `t` for whose reply record `x` is wanted — as an answer or as an additional — and the host saw `x`
multicast at `s.created`, less than a second before, no block of the run multicasts `x` again (in either section) before
`s.created + 1000` -/
def C12_one_sec_wire_full : Prop :=
  ∀ (c0 : Int) (pre : List Ev) (t : Int) (addr port dataId size : Nat) (hasQu : Bool) (p : Pkt) (seen : SeenMap) (draws : List Int)
    (post : List Ev) (h' : Host) (outs : List (Int × List Out × List Draw)),
    (∀ e ∈ pre ++ post, e.plain = true) → p.truncated = false → p.isProbe = false →
    Host.run {} c0 (pre ++ .rx t addr port dataId size hasQu (.query p) seen draws :: post) = .ok (h', outs) →
    ∀ qa, asyncResponse [p] (Gen.Reply.ucast_source port) seen = some qa →
    ∀ x s, seen.get x = some s → s.created ≤ t → t - s.created < 1000 → x ∈ qa.mcastRecords →
    ∀ o ∈ outs.drop pre.length, ∀ ans adds, Out.mcast ans adds ∈ o.2.1 → x ∈ ans ++ adds → s.created + 1000 ≤ o.1

/-- a PTR question (one candidate answer, record 1, with `adds` as its additionals) as datagram `dataId` arriving at `now` -/
def ptrQuery (dataId : Nat) (now : Int) (adds : List RecId) : Pkt :=
  { dataId, now, id := 7, flags := 0, numAuth := 0, nq := 1, q0type := 12,
    items := [{ qu := false, cands := [{ id := 1, ttl := 4500, adds }] }], known := [] }

/-- **`_refuted`, additionals** (`C12:additional-remulticast-within-1s`): record 2 (say, the SRV) was seen multicast at 700; a PTR
question arrives at 1000; its answer (record 1) is aggregated and goes out at 1020 **with record 2 as an additional** — 320 ms
after the sighting.  (Real responder: SRV answered at 5800, PTR question at 6100, reply at 6124 carries the SRV again.) -/
theorem C12_one_sec_additional_refuted : ¬ C12_one_sec_wire_full := by
  intro h
  have hrun : (Host.run {} 1000 ([] ++ Ev.rx 1000 1 5353 1 50 false (.query (ptrQuery 1 1000 [2])) [(2, { created := 700, ttl := 120 })] [20] ::
      [Ev.qfire 1020 false])).toOption.map (·.2) = some [(1000, [], [Draw.mk 20 120 20]), (1020, [Out.mcast [1] [2]], [])] := by decide
  cases hx : Host.run {} 1000 ([] ++ Ev.rx 1000 1 5353 1 50 false (.query (ptrQuery 1 1000 [2])) [(2, { created := 700, ttl := 120 })] [20] ::
      [Ev.qfire 1020 false]) with
  | error m => rw [hx] at hrun; cases hrun
  | ok v =>
    obtain ⟨h', outs⟩ := v
    rw [hx] at hrun
    simp only [Except.toOption, Option.map_some, Option.some.injEq] at hrun
    have := h 1000 [] 1000 1 5353 1 50 false (ptrQuery 1 1000 [2]) [(2, { created := 700, ttl := 120 })] [20] [Ev.qfire 1020 false] h' outs
      (by decide) (by decide) (by decide) hx _ (by decide : asyncResponse [ptrQuery 1 1000 [2]] (Gen.Reply.ucast_source 5353)
        [(2, { created := 700, ttl := 120 })] = some { ucast := [], mcastNow := [], mcastAgg := [(1, [2])], mcastLast := [] })
      2 { created := 700, ttl := 120 } (by decide) (by decide) (by decide) (by decide)
      (1020, [Out.mcast [1] [2]], []) (by rw [hrun]; decide) [1] [2] (by decide) (by decide)
    revert this; decide

/-- **`_refuted`, a batch that was already pending** (`C12:pending-batch-remulticast-within-1s`): query A (PTR) arrives at 1000, its
answer (record 1) is aggregated with draw 120 and waits; the host sees record 1 multicast at 1005; query B for the same record
arrives at 1010 and is classified "seen in the last second" (protected queue, not before 2030) — but A's pending batch multicasts
record 1 at 1120, 115 ms after the sighting.  (Real responder: sighting 5805, query 5810, multicast 6300.) -/
theorem C12_one_sec_pending_batch_refuted : ¬ C12_one_sec_wire_full := by
  intro h
  have hrun : (Host.run {} 1000 ([Ev.rx 1000 1 5353 1 50 false (.query (ptrQuery 1 1000 [])) [] [120]] ++
      Ev.rx 1010 2 5353 2 50 false (.query (ptrQuery 2 1010 [])) [(1, { created := 1005, ttl := 4500 })] [20] ::
      [Ev.qfire 1120 false])).toOption.map (·.2) =
      some [(1000, [], [Draw.mk 20 120 120]), (1010, [], [Draw.mk 20 120 20]), (1120, [Out.mcast [1] []], [])] := by decide
  cases hx : Host.run {} 1000 ([Ev.rx 1000 1 5353 1 50 false (.query (ptrQuery 1 1000 [])) [] [120]] ++
      Ev.rx 1010 2 5353 2 50 false (.query (ptrQuery 2 1010 [])) [(1, { created := 1005, ttl := 4500 })] [20] ::
      [Ev.qfire 1120 false]) with
  | error m => rw [hx] at hrun; cases hrun
  | ok v =>
    obtain ⟨h', outs⟩ := v
    rw [hx] at hrun
    simp only [Except.toOption, Option.map_some, Option.some.injEq] at hrun
    have := h 1000 [Ev.rx 1000 1 5353 1 50 false (.query (ptrQuery 1 1000 [])) [] [120]] 1010 2 5353 2 50 false (ptrQuery 2 1010 [])
      [(1, { created := 1005, ttl := 4500 })] [20] [Ev.qfire 1120 false] h' outs
      (by decide) (by decide) (by decide) hx _ (by decide : asyncResponse [ptrQuery 2 1010 []] (Gen.Reply.ucast_source 5353)
        [(1, { created := 1005, ttl := 4500 })] = some { ucast := [], mcastNow := [], mcastAgg := [], mcastLast := [(1, [])] })
      1 { created := 1005, ttl := 4500 } (by decide) (by decide) (by decide) (by decide)
      (1120, [Out.mcast [1] []], []) (by rw [hrun]; decide) [1] [] (by decide) (by decide)
    revert this; decide


/-! ## Truncated trains: one query, which arrives with its last packet (second review, item 4)

**Reading, fixed here and used by the oracle** (`harness/c12.py::spec_classes`): a truncated train is *one* query ("held … for
continuation packets from the same source and then answered once"); its questions are the questions of all its packets; it has
**arrived when its last packet has**.  Hence (i) "a query consisting of a single SRV, A, AAAA or NSEC question" is judged on the
whole train; (ii) lower bounds — the 20 ms jitter, the one-second rule (D12b) — are relative to the last packet's arrival and to
sightings before it; (iii) upper bounds (500 ms, 1.2 s) count from the instant the query is handled, which for a train that nobody
completes is the end of its 400–500 ms hold ("and *then* answered").  Before the review the oracle took "arrival" to be the last
packet for D12b and the first packet for the 20 ms bound, and copied the code's first-packet question test.

The code deviates in two ways, both listed findings: `async_response` tests the question list of the **first packet only**
(`C12:train-first-packet-question-rule`), and `handle_assembled_query` stamps the queued answers with the **first packet's**
arrival, so a train completed by an untruncated packet can be answered less than 20 ms after it is complete
(`C12:train-reply-before-jitter`; same root cause as D12b). -/

/-- number of questions of a train -/
def trainNq (pkts : List Pkt) : Nat := (pkts.map (·.nq)).sum

/-- type of the first question of the train (of the first packet that carries a question) -/
def trainQ0 (pkts : List Pkt) : Option Nat := (pkts.find? (fun p => decide (0 < p.nq))).map (·.q0type)

/-- hypothesis "only the first packet carries questions" — true of every train `DNSOutgoing.packets()` emits (continuation packets
carry known answers only) and of every single-packet query -/
def TailNoQuestions (pkts : List Pkt) : Prop := ∀ p ∈ pkts.tail, p.nq = 0

/-- full statement: what `async_response` tests (the first packet: `asyncResponse` hands `first.nq`, `first.q0type` to
`mcRoute`, see `C12_immediate`) is the test on the whole train -/
def C12_train_question_rule_full : Prop :=
  ∀ (pkts : List Pkt) (first : Pkt), pkts.head? = some first →
    ((first.nq = 1 ∧ immediateType first.q0type) ↔ (trainNq pkts = 1 ∧ ∃ t, trainQ0 pkts = some t ∧ immediateType t))

theorem sum_nq_zero {l : List Pkt} (h : ∀ p ∈ l, p.nq = 0) : (l.map (·.nq)).sum = 0 := by
  induction l with
  | nil => rfl
  | cons x xs ih =>
    simp only [List.map_cons, List.sum_cons]
    rw [h x List.mem_cons_self, ih (fun p hp => h p (List.mem_cons_of_mem _ hp))]

/-- **`_partial`**: under `TailNoQuestions` the first-packet test *is* the whole-train test, so `C12_immediate` (with
`nq := first.nq`, `q0 := first.q0type`, as `asyncResponse` calls it) states the sentence for the train.  `TailNoQuestions` is a
sufficient condition, broader than the complement of the finding `C12:train-first-packet-question-rule` (it also excludes trains with
a question in a later packet for which both tests happen to agree). -/
theorem C12_train_question_rule_partial (pkts : List Pkt) (first : Pkt) (hf : pkts.head? = some first) (ht : TailNoQuestions pkts) :
    ((first.nq = 1 ∧ immediateType first.q0type) ↔ (trainNq pkts = 1 ∧ ∃ t, trainQ0 pkts = some t ∧ immediateType t)) := by
  cases pkts with
  | nil => cases hf
  | cons p rest =>
    simp only [List.head?_cons, Option.some.injEq] at hf
    subst hf
    have hsum : trainNq (p :: rest) = p.nq := by
      simp only [trainNq, List.map_cons, List.sum_cons]
      rw [sum_nq_zero (fun x hx => ht x (by simpa using hx))]; rfl
    rw [hsum]
    constructor
    · rintro ⟨h1, h2⟩
      refine ⟨h1, p.q0type, ?_, h2⟩
      simp [trainQ0, h1]
    · rintro ⟨h1, t, h2, h3⟩
      refine ⟨h1, ?_⟩
      simp [trainQ0, h1] at h2
      rw [h2]; exact h3

/-- a truncated packet with the single question SRV (candidate answer: record 1) and the untruncated packet that completes the
train with a PTR question (candidate answer: record 2) -/
def srvThenPtr : List Pkt :=
  [ { dataId := 1, now := 0, id := 7, flags := 512, numAuth := 0, nq := 1, q0type := 33,
      items := [{ qu := false, cands := [{ id := 1, ttl := 120, adds := [] }] }], known := [] },
    { dataId := 2, now := 100, id := 8, flags := 0, numAuth := 0, nq := 1, q0type := 12,
      items := [{ qu := false, cands := [{ id := 2, ttl := 4500, adds := [] }] }], known := [] } ]

/-- **`_refuted`**: the train `srvThenPtr` has two questions, its first packet one SRV question -/
theorem C12_train_question_rule_refuted : ¬ C12_train_question_rule_full := by
  intro h
  have := (h srvThenPtr _ rfl).mp ⟨rfl, Or.inl rfl⟩
  revert this
  simp [trainNq, srvThenPtr]

/-- … and the model (like the code) then sends **both** answers at once, the PTR included: nothing is aggregated -/
example : asyncResponse srvThenPtr false [] = some { ucast := [], mcastNow := [(1, []), (2, [])], mcastAgg := [], mcastLast := [] } := by
  decide

/-- `TailNoQuestions` is satisfiable by a real two-packet train (a question packet and a continuation) -/
example : TailNoQuestions [ptrQuery 1 0 [], { ptrQuery 2 30 [] with nq := 0, items := [] }] := by
  intro p hp; simp at hp; subst hp; rfl

/-- full statement of the jitter's lower bound **from the arrival of the complete query**: the loop time `a.clock` at which the `add`
is executed is the arrival of the last packet for every query that is not left to its hold timer -/
def C12_jitter_from_arrival_full : Prop :=
  ∀ (c0 : Int) (evs : List QEv) (q' : Queue) (c' : Int) (outs : List (Int × Dict)), Run outQP {} c0 evs q' c' outs →
    ∀ o ∈ outs, ∀ r ∈ o.2.keys, ∃ a ∈ addsOf evs, r ∈ a.keys ∧ a.clock + 20 ≤ o.1 ∧ o.1 ≤ a.clock + 500

/-- **`_partial`**: the bound holds from the *stamp* (`C12_window_aggregate`), hence from the arrival whenever stamp and handling time
coincide — every single-packet query.  (A train left to its hold timer is handled 400–500 ms after its last packet, so its reply is
trivially later than 20 ms after the arrival: `C12_tc_hold`.)  The hypothesis `a.now = a.clock` is sufficient, not the complement of
the finding `C12:train-reply-before-jitter`: it excludes every stale stamp, also those whose reply does wait 20 ms. -/
theorem C12_jitter_from_arrival_partial {c0 : Int} {evs : List QEv} {q' : Queue} {c' : Int} {outs : List (Int × Dict)}
    (h : Run outQP {} c0 evs q' c' outs) :
    ∀ o ∈ outs, ∀ r ∈ o.2.keys, ∃ a ∈ addsOf evs, r ∈ a.keys ∧ (a.now = a.clock → a.clock + 20 ≤ o.1) ∧ a.now + 20 ≤ o.1 ∧ o.1 ≤ a.clock + 500 := by
  intro o ho r hr
  obtain ⟨a, ha, h1, _, h3, h4⟩ := C12_window_aggregate h o ho r hr
  exact ⟨a, ha, h1, fun he => by omega, h3, h4⟩

/-- a legal run: a query at 0 (record 1, draw 120: group and timer due at 120); at loop time 119 the reply to a train whose first
packet arrived at 50 and whose last, untruncated, packet arrives now (record 2; stamp 50, draw 20 ⇒ `send_after` 70, merged into the
pending group); both go out at 120 -/
theorem earlyTrainRun : Run outQP {} 0 [.add 0 0 120 [(1, [])], .add 119 50 20 [(2, [])], .fire 120] {} 120 [(120, [(1, []), (2, [])])] := by
  refine Run.cons (e := .add 0 0 120 [(1, [])]) ?_ (Run.cons (e := .add 119 50 20 [(2, [])]) ?_ (Run.cons (e := .fire 120) ?_ (Run.nil _ _)))
  · refine ⟨by decide, by decide, by decide, by decide, ?_⟩
    intro d hd; cases hd
  · refine ⟨by decide, by decide, by decide, by decide, ?_⟩
    intro d hd
    have h2 : some (120 : Int) = some d := hd
    cases h2; decide
  · exact ⟨by decide, by decide⟩

/-- **`_refuted`**: record 2 is multicast at 120, one millisecond after its query was complete (119) -/
theorem C12_jitter_from_arrival_refuted : ¬ C12_jitter_from_arrival_full := by
  intro h
  obtain ⟨a, ha, hr, hb, _⟩ := h _ _ _ _ _ earlyTrainRun (120, [(1, []), (2, [])]) (by simp) 2 (by decide)
  simp only [addsOf, List.mem_cons, List.not_mem_nil, or_false] at ha
  rcases ha with rfl | rfl
  · simp [Dict.keys] at hr
  · revert hb; decide

/-! ## Tie: the source of `_handlers/multicast_outgoing_queue.py`, translated statement by statement on every run

`Zc.GenFn.Queue` is regenerated from the *bodies* of `MulticastOutgoingQueue.async_add`, `async_remove_answers`,
`_remove_answers_from_queue` and `async_ready` (`tools/gen_fn.py`; `random.randint`, `loop.time()`, `current_time_millis()` are parameters, `loop.call_at` and
`zc.async_send` returned effects); `GenFacts/FnQueue.lean` proves that the `Queue` model above computes what those bodies
compute.  **What this transports**: the container operations of the model (`Queue.add`, `Queue.removeRecords`, `Queue.popReady`) are the
translated bodies, along every sequence of calls (`C12_queue_is_source`), so an edit of one of the four bodies that changes what it
computes breaks a named lemma of `FnQueue` at stage P.  **Along every legal run** (`Run`, the event-loop axioms on the queue's timer):
`GenFacts/FnQueueRun.lean` drives the *generated* queue with the run's events (`runGenEv`: per event one translated `async_add` /
`async_ready` / `async_remove_answers`) and proves it never raises, stays the model's queue and sends exactly the run's batches at the
run's instants (`run_source`); hence the `_source` twins below — `C12_window_source`, `C12_window_aggregate_source`,
`C12_window_protected_source`, `C12_on_wire_source` (+ the two queues) speak about the batches the translated code sends.
`C12_aggregated_on_wire_source` / `C12_protected_on_wire_source`: the `async_add` that `handle_assembled_query` performs for a classified
record and what the queue does afterwards are translated calls (the dicts handed over are dicts: `asyncResponse_wf`).
**What it does not**: the `HRun`-level theorems (`C12_host_*`) compose the two queues with the listener and the classification inside the
hand-written dispatcher `Host.step`; each of its queue steps is a `Queue.add` / `ready` / `removeRecords`, i.e. a translated call by
`C12_queue_is_source`, its listener steps and its classification are the translated bodies by `C16_*_source` / `C11_response_is_source`,
but no host-level run over the generated components together is built here. -/
section Tie
open Zc.Py Zc.GenFn.Queue Zc.GenFacts.FnQueue _root_.Zc.GenFacts.FnQueueRun

/-- **The model queue is the translated queue, along every history of calls.**  For any sequence of `async_add` (with any draw
and loop time), `async_ready` (clock reading = loop time, as in the model), `_remove_answers_from_queue` and `async_remove_answers`
(the D5 repair: `Queue.removeRecords`) calls on a fresh queue,
handed well-formed dicts: the translated code never raises (`queue[0]`, `queue[-1]`, `popleft` always find an element; the `while`
bound suffices), its deque is the model's group list, each `call_at` it performs is the model's new timer and each transmission the
model's batch, in order. -/
theorem C12_queue_is_source (addl agg : Int) (ops : List QOp) (hops : ∀ op ∈ ops, op.WF) :
    ∃ s', runGen ops (MulticastOutgoingQueue.init () addl agg) = .ok (s', (runModel { addl := addl, agg := agg } ops {}).2)
      ∧ s'.queue = (runModel { addl := addl, agg := agg } ops {}).1.groups.map strip := by
  obtain ⟨s', h1, h2, _⟩ := run_eq ops hops (s := MulticastOutgoingQueue.init () addl agg) (q := {})
    ⟨rfl, fun g hg => by cases hg⟩
  exact ⟨s', h1, h2.groups⟩

/-- non-vacuity (the aggregation queue): two queries 10 ms apart, draws 100 and 20 — the second merges into the pending group
(its `send_after` 1130 is not later than 1200), one timer is armed at 1100, the flush at 1100 sends both records in one batch -/
example :
    (runGen [.add 1000 [(1, [])] 100 1000, .add 1010 [(2, [7])] 20 1010, .ready 1100] (MulticastOutgoingQueue.init () 0 500)).toOption.map
        (fun p => (p.1.queue.length, p.2.length))
      = some (0, 2)
    ∧ (runModel outQP [.add 1000 [(1, [])] 100 1000, .add 1010 [(2, [7])] 20 1010, .ready 1100] {}).2
      = [QEffect.callAt 1100, QEffect.send [(1, []), (2, [7])]] := by
  decide

/-- **Every legal run, in the translated code.**  The generated queue (constructed with the queue's two delays), driven by the
run's events — each an `async_add`, an `async_ready` at the armed instant, or an `async_remove_answers` — never raises, ends as the
model's queue, and the batches it hands to `async_send`, with the instants of the calls, are exactly the run's `outs` -/
theorem C12_run_is_source {p : QP} {c0 : Int} {evs : List QEv} {q' : Queue} {c' : Int} {outs : List (Int × Dict)}
    (h : Run p {} c0 evs q' c' outs) (hwf : ∀ e ∈ evs, evWF e) :
    ∃ s', runGenEv evs (MulticastOutgoingQueue.init () p.addl p.agg) = .ok (s', outs) ∧ s'.queue = q'.groups.map strip := by
  obtain ⟨s', h1, h2, _⟩ := run_source h hwf (s := MulticastOutgoingQueue.init () p.addl p.agg) (q := {})
    ⟨rfl, fun g hg => by cases hg⟩ rfl
  exact ⟨s', h1, h2.groups⟩

/-- **C12_window, for the batches the translated code sends** along any legal run -/
theorem C12_window_source {p : QP} (hp : p.ok) {c0 : Int} {evs : List QEv} {q' : Queue} {c' : Int} {outs : List (Int × Dict)}
    (h : Run p {} c0 evs q' c' outs) (hwf : ∀ e ∈ evs, evWF e) :
    ∃ s', runGenEv evs (MulticastOutgoingQueue.init () p.addl p.agg) = .ok (s', outs)
      ∧ ∀ o ∈ outs, o.2.keys.Nodup ∧ ∀ r ∈ o.2.keys, ∃ a ∈ addsOf evs,
          r ∈ a.keys ∧ a.clock ≤ o.1 ∧ a.now + 20 + p.addl ≤ o.1 ∧ o.1 ≤ a.clock + p.agg + p.addl := by
  obtain ⟨s', h1, _⟩ := C12_run_is_source h hwf
  exact ⟨s', h1, C12_window hp h⟩

/-- the aggregation queue of the translated code (`MulticastOutgoingQueue(zc, 0, 500)`): 20 ms … 500 ms -/
theorem C12_window_aggregate_source {c0 : Int} {evs : List QEv} {q' : Queue} {c' : Int} {outs : List (Int × Dict)}
    (h : Run outQP {} c0 evs q' c' outs) (hwf : ∀ e ∈ evs, evWF e) :
    ∃ s', runGenEv evs (MulticastOutgoingQueue.init () outQP.addl outQP.agg) = .ok (s', outs)
      ∧ ∀ o ∈ outs, ∀ r ∈ o.2.keys, ∃ a ∈ addsOf evs, r ∈ a.keys ∧ a.clock ≤ o.1 ∧ a.now + 20 ≤ o.1 ∧ o.1 ≤ a.clock + 500 := by
  obtain ⟨s', h1, _⟩ := C12_run_is_source h hwf
  exact ⟨s', h1, C12_window_aggregate h⟩

/-- the protected queue of the translated code (`MulticastOutgoingQueue(zc, 1000, 200)`): 1020 ms … 1200 ms -/
theorem C12_window_protected_source {c0 : Int} {evs : List QEv} {q' : Queue} {c' : Int} {outs : List (Int × Dict)}
    (h : Run delayQP {} c0 evs q' c' outs) (hwf : ∀ e ∈ evs, evWF e) :
    ∃ s', runGenEv evs (MulticastOutgoingQueue.init () delayQP.addl delayQP.agg) = .ok (s', outs)
      ∧ ∀ o ∈ outs, ∀ r ∈ o.2.keys, ∃ a ∈ addsOf evs, r ∈ a.keys ∧ a.clock ≤ o.1 ∧ a.now + 1020 ≤ o.1 ∧ o.1 ≤ a.clock + 1200 := by
  obtain ⟨s', h1, _⟩ := C12_run_is_source h hwf
  exact ⟨s', h1, C12_window_protected h⟩

/-- **C12_on_wire, for the translated code**: after any legal prefix, an `async_add` of the generated queue is followed by an
`async_send` of each of its records inside the window — the batches are the ones the translated `async_ready` hands over -/
theorem C12_on_wire_source {p : QP} (hp : p.ok) {c0 : Int} {pre : List QEv} {q1 : Queue} {c1 : Int} {outs1 : List (Int × Dict)}
    (hpre : Run p {} c0 pre q1 c1 outs1) (hwf1 : ∀ e ∈ pre, evWF e)
    {c now draw : Int} {answers : Dict} {post : List QEv} {q' : Queue} {c' : Int} {outs : List (Int × Dict)}
    (hrun : Run p q1 c1 (.add c now draw answers :: post) q' c' outs) (hwf2 : ∀ e ∈ QEv.add c now draw answers :: post, evWF e) :
    ∃ s1 s', runGenEv pre (MulticastOutgoingQueue.init () p.addl p.agg) = .ok (s1, outs1)
      ∧ runGenEv (.add c now draw answers :: post) s1 = .ok (s', outs)
      ∧ ∀ r ∈ answers.keys,
          (∃ o ∈ outs, r ∈ o.2.keys ∧ c ≤ o.1 ∧ o.1 ≤ c + p.agg + p.addl) ∨ c' ≤ c + p.agg + p.addl ∨ withdrawnIn post r (c + p.agg + p.addl) := by
  obtain ⟨s1, h1, hr1, hq1⟩ := run_source hpre hwf1 (s := MulticastOutgoingQueue.init () p.addl p.agg) (q := {})
    ⟨rfl, fun g hg => by cases hg⟩ rfl
  obtain ⟨s', h2, _, _⟩ := run_source hrun hwf2 hr1 hq1
  exact ⟨s1, s', h1, h2, C12_on_wire hp hpre hrun⟩

/-- … within 500 ms for the aggregation queue, 1.2 s for the protected queue -/
theorem C12_on_wire_queues_source {c0 : Int} {pre : List QEv} {q1 : Queue} {c1 : Int} {outs1 : List (Int × Dict)}
    {c now draw : Int} {answers : Dict} {post : List QEv} {q' : Queue} {c' : Int} {outs : List (Int × Dict)}
    (hwf1 : ∀ e ∈ pre, evWF e) (hwf2 : ∀ e ∈ QEv.add c now draw answers :: post, evWF e) :
    (Run outQP {} c0 pre q1 c1 outs1 → Run outQP q1 c1 (.add c now draw answers :: post) q' c' outs →
      ∃ s1 s', runGenEv pre (MulticastOutgoingQueue.init () outQP.addl outQP.agg) = .ok (s1, outs1)
        ∧ runGenEv (.add c now draw answers :: post) s1 = .ok (s', outs)
        ∧ ∀ r ∈ answers.keys, (∃ o ∈ outs, r ∈ o.2.keys ∧ c ≤ o.1 ∧ o.1 ≤ c + 500) ∨ c' ≤ c + 500 ∨ withdrawnIn post r (c + 500))
    ∧ (Run delayQP {} c0 pre q1 c1 outs1 → Run delayQP q1 c1 (.add c now draw answers :: post) q' c' outs →
      ∃ s1 s', runGenEv pre (MulticastOutgoingQueue.init () delayQP.addl delayQP.agg) = .ok (s1, outs1)
        ∧ runGenEv (.add c now draw answers :: post) s1 = .ok (s', outs)
        ∧ ∀ r ∈ answers.keys, (∃ o ∈ outs, r ∈ o.2.keys ∧ c ≤ o.1 ∧ o.1 ≤ c + 1200) ∨ c' ≤ c + 1200 ∨ withdrawnIn post r (c + 1200)) := by
  constructor
  · intro hpre hrun
    obtain ⟨s1, s', h1, h2, _⟩ := C12_on_wire_source outQP_ok hpre hwf1 hrun hwf2
    exact ⟨s1, s', h1, h2, C12_on_wire_aggregate hpre hrun⟩
  · intro hpre hrun
    obtain ⟨s1, s', h1, h2, _⟩ := C12_on_wire_source delayQP_ok hpre hwf1 hrun hwf2
    exact ⟨s1, s', h1, h2, C12_on_wire_protected hpre hrun⟩

/-- **From classification to the wire, through the translated queue (aggregated).**  The `async_add` that `handle_assembled_query`
performs on `out_queue` for a record classified "aggregate", and everything the queue does afterwards, are calls of the translated
functions: the generated queue after the prefix is the host's `outQ`, and the batch carrying the record is one it hands to `async_send` -/
theorem C12_aggregated_on_wire_source {h : Host} {clock : Int} {pkts : List Pkt} {addr port : Nat} {seen : SeenMap} {draws : List Int}
    {r : StepOut} {rest : List Int} (hs : h.assemble clock pkts addr port seen draws = .ok (r, rest))
    {qa : QA} (hqa : asyncResponse pkts (Gen.Reply.ucast_source port) seen = some qa) {rid : RecId} (hr : rid ∈ qa.mcastAgg.keys)
    {c0 c1 : Int} {pre : List QEv} {outs1 : List (Int × Dict)} (hpre : Run outQP {} c0 pre h.outQ c1 outs1) (hwf1 : ∀ e ∈ pre, evWF e)
    (hclock : c1 ≤ clock) (hstamp : ∀ first, pkts.head? = some first → first.now ≤ clock)
    (hdue : ∀ d, h.outQ.timer = some d → clock ≤ d)
    {post : List QEv} {q' : Queue} {c' : Int} {outs : List (Int × Dict)} (hpost : Run outQP r.host.outQ clock post q' c' outs)
    (hwf2 : ∀ e ∈ post, evWF e) :
    ∃ first d s1 s', pkts.head? = some first
      ∧ runGenEv pre (MulticastOutgoingQueue.init () outQP.addl outQP.agg) = .ok (s1, outs1)
      ∧ runGenEv (.add clock first.now d qa.mcastAgg :: post) s1 = .ok (s', outs)
      ∧ ((∃ o ∈ outs, rid ∈ o.2.keys ∧ clock ≤ o.1 ∧ o.1 ≤ clock + 500) ∨ c' ≤ clock + 500 ∨ withdrawnIn post rid (clock + 500)) := by
  obtain ⟨first, hf, _, _, hq1, _⟩ := assemble_spec hs hqa
  obtain ⟨d, hd1, hd2, heq⟩ := hq1.2 (Dict.isEmpty_false_of_mem hr)
  rw [heq] at hpost
  have hrun : Run outQP h.outQ c1 (.add clock first.now d qa.mcastAgg :: post) q' c' ([] ++ outs) :=
    Run.cons (e := .add clock first.now d qa.mcastAgg) ⟨hclock, hstamp first hf, hd1, hd2, hdue⟩ hpost
  rw [List.nil_append] at hrun
  obtain ⟨s1, h1, hr1, hq1'⟩ := run_source hpre hwf1 (s := MulticastOutgoingQueue.init () outQP.addl outQP.agg) (q := {})
    ⟨rfl, fun g hg => by cases hg⟩ rfl
  have hwfadd : ∀ e ∈ QEv.add clock first.now d qa.mcastAgg :: post, evWF e := by
    intro e he
    rcases List.mem_cons.1 he with rfl | he
    · exact (asyncResponse_wf hqa).2.2.1
    · exact hwf2 e he
  obtain ⟨s', h2, _, _⟩ := run_source hrun hwfadd hr1 hq1'
  exact ⟨first, d, s1, s', hf, h1, h2, by simpa using C12_on_wire_aggregate hpre hrun rid hr⟩

/-- **From classification to the wire, through the translated queue (protected)** -/
theorem C12_protected_on_wire_source {h : Host} {clock : Int} {pkts : List Pkt} {addr port : Nat} {seen : SeenMap} {draws : List Int}
    {r : StepOut} {rest : List Int} (hs : h.assemble clock pkts addr port seen draws = .ok (r, rest))
    {qa : QA} (hqa : asyncResponse pkts (Gen.Reply.ucast_source port) seen = some qa) {rid : RecId} (hr : rid ∈ qa.mcastLast.keys)
    {c0 c1 : Int} {pre : List QEv} {outs1 : List (Int × Dict)} (hpre : Run delayQP {} c0 pre h.delayQ c1 outs1) (hwf1 : ∀ e ∈ pre, evWF e)
    (hclock : c1 ≤ clock) (hstamp : ∀ first, pkts.head? = some first → first.now ≤ clock)
    (hdue : ∀ d, h.delayQ.timer = some d → clock ≤ d)
    {post : List QEv} {q' : Queue} {c' : Int} {outs : List (Int × Dict)} (hpost : Run delayQP r.host.delayQ clock post q' c' outs)
    (hwf2 : ∀ e ∈ post, evWF e) :
    ∃ first d s1 s', pkts.head? = some first
      ∧ runGenEv pre (MulticastOutgoingQueue.init () delayQP.addl delayQP.agg) = .ok (s1, outs1)
      ∧ runGenEv (.add clock first.now d qa.mcastLast :: post) s1 = .ok (s', outs)
      ∧ ((∃ o ∈ outs, rid ∈ o.2.keys ∧ clock ≤ o.1 ∧ o.1 ≤ clock + 1200) ∨ c' ≤ clock + 1200 ∨ withdrawnIn post rid (clock + 1200)) := by
  obtain ⟨first, hf, _, _, _, hq2⟩ := assemble_spec hs hqa
  obtain ⟨d, hd1, hd2, heq⟩ := hq2.2 (Dict.isEmpty_false_of_mem hr)
  rw [heq] at hpost
  have hrun : Run delayQP h.delayQ c1 (.add clock first.now d qa.mcastLast :: post) q' c' ([] ++ outs) :=
    Run.cons (e := .add clock first.now d qa.mcastLast) ⟨hclock, hstamp first hf, hd1, hd2, hdue⟩ hpost
  rw [List.nil_append] at hrun
  obtain ⟨s1, h1, hr1, hq1'⟩ := run_source hpre hwf1 (s := MulticastOutgoingQueue.init () delayQP.addl delayQP.agg) (q := {})
    ⟨rfl, fun g hg => by cases hg⟩ rfl
  have hwfadd : ∀ e ∈ QEv.add clock first.now d qa.mcastLast :: post, evWF e := by
    intro e he
    rcases List.mem_cons.1 he with rfl | he
    · exact (asyncResponse_wf hqa).2.2.2
    · exact hwf2 e he
  obtain ⟨s', h2, _, _⟩ := run_source hrun hwfadd hr1 hq1'
  exact ⟨first, d, s1, s', hf, h1, h2, by simpa using C12_on_wire_protected hpre hrun rid hr⟩

end Tie

end Zc.Reply
