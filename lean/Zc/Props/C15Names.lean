import Zc.Proofs.SurviveNames
import Zc.Proofs.SurviveApi
import Zc.Proofs.NameTextGlue
/-! # C15 — `RegSafe` from the API: what the validator guarantees, and where nothing does

`C15_history_closed_partial` assumes `SvcSafe` of every service handed to `async_register_service` / `async_update_service`
(`TypesSafe` of browsed types, `NameTextSafe` of looked-up names): every record the service can be asked for is accepted by the
encoder.  The library runs `service_type_name` (C19's model `Name.serviceTypeName`, proved equal to the documented grammar) on the
**instance name** only.  This file says what that buys:

* `C15_strict_name_labels_short`: in strict mode (the default of `async_register_service`) every label `write_name` writes for an
  accepted name is at most 63 bytes — the `NamePartTooLongException` site is closed for the instance name;
* `C15_nonstrict_name_refuted`: in non-strict mode (`strict=False`; also what `ServiceInfo.__init__`, `ServiceBrowser.__init__` and
  `AsyncServiceInfo` use) it is not: `_` + 70 × `a` + `._tcp.local.` is accepted and has a 71-byte label;
* `C15_server_not_validated_before_D28`: before the D28 repair the validation does not look at `server` (nor at TXT, port, weight, priority, addresses), and looks at
  `type_` only through `type_.endswith(service_type)`: any server name registers;
* `C15_unencodable_server_refuted`: a 64-byte server label falsifies `SvcSafe`.

On the real code (`notes/agents/C15.md`, findings F-R1 … F-R3, replays `corpus/C15/finding-*.json`): such a service *is* added to
the registry (the encoder exception surfaces only in the broadcast task), and from then on every SRV query for it makes
`datagram_received` raise `NamePartTooLongException` into the event loop; a browser for the non-strict witness type raises out of
its first query timer and never queries again. -/
namespace Zc
open Zc.Name Zc.Name.Spec Zc.Survive Zc.Survive.Comp Zc.Survive.Api

/-- **Strict validation implies encodable labels.**  If `service_type_name(s, strict=True)` returns, every piece of `s.split('.')`
— every label `DNSOutgoing.write_name(s)` writes — encodes to at most 63 bytes of UTF-8. -/
theorem C15_strict_name_labels_short (s t : Str) (h : serviceTypeName s true = .ok t) :
    ∀ piece ∈ splitDot s, utf8Len piece ≤ 63 :=
  valid_strict_pieces ((C19_validate_spec s true t).mp h).2

/-- … and the whole name is at most 256 characters long -/
theorem C15_strict_name_length (s t : Str) (strict : Bool) (h : serviceTypeName s strict = .ok t) : s.length ≤ 256 :=
  ((C19_validate_spec s strict t).mp h).1

/-- the non-strict witness: `_aaaa…a` (70 × `a`) `._tcp.local.` -/
def longServiceName : Str := '_' :: List.replicate 70 'a' ++ "._tcp.local.".toList

/-- **Non-strict validation does not**: the witness is accepted (as its own service type) and its first label is 71 bytes long. -/
theorem C15_nonstrict_name_refuted :
    ¬ ∀ (s t : Str), serviceTypeName s false = .ok t → ∀ piece ∈ splitDot s, utf8Len piece ≤ 63 := by
  intro h
  have hsome : (serviceTypeName longServiceName false).toOption.isSome = true := by decide +kernel
  cases hacc : serviceTypeName longServiceName false with
  | error e => rw [hacc] at hsome; cases hsome
  | ok t =>
    have := h longServiceName t hacc ('_' :: List.replicate 70 'a') (by decide +kernel)
    revert this
    decide +kernel

/-- the text-layer identity for application-supplied names: the labels `write_name(s)` writes are the UTF-8 encodings of pieces of
`s.split('.')`.  Formerly a named hypothesis; with the text layer modelled (`Zc.NameText`, wp-TEXTGLUE) it is the theorem `textGlueS`. -/
def TextGlueS : Prop := ∀ s : String, ∀ l ∈ labelsOfText s, ∃ piece ∈ Name.splitDot s.toList, l.length = Name.utf8Len piece

/-- C19's `split('.')` is the text layer's -/
theorem nameSplitDot_eq (s : Str) : Name.splitDot s = NameText.splitDot s := by
  unfold NameText.splitDot
  induction s with
  | nil => rfl
  | cons c r ih =>
    unfold Name.splitDot NameText.splitOn
    rw [ih]
    by_cases hc : c = '.'
    · subst hc; simp [NameText.dot]
    · simp only [hc, NameText.dot, if_false]
      cases NameText.splitOn '.' r <;> rfl

/-- C19's `len(s.encode('utf-8'))` is the length of the text layer's encoding -/
theorem nameUtf8Len_eq (s : Str) : Name.utf8Len s = (NameText.encodeText s).length := by
  unfold NameText.encodeText
  rw [Survive.encode_length]
  induction s with
  | nil => rfl
  | cons c r ih => simp only [Name.utf8Len, List.map_cons, List.sum_cons, Utf8.encLen, ih]

/-- **`TextGlueS` holds**: dropping one trailing dot only drops the final empty piece -/
theorem textGlueS : TextGlueS := by
  intro s l hl
  unfold labelsOfText NameText.labelsOfText at hl
  obtain ⟨piece, hp, rfl⟩ := List.mem_map.mp hl
  refine ⟨piece, ?_, (nameUtf8Len_eq piece).symm⟩
  rw [nameSplitDot_eq]
  unfold NameText.stripTrailingDot at hp
  split at hp
  · rename_i hdot
    obtain ⟨t, ht⟩ := (NameText.endsWithDot_iff s.toList).mp hdot
    rw [ht, List.dropLast_concat] at hp
    rw [ht]
    show piece ∈ NameText.splitOn NameText.dot (t ++ [NameText.dot])
    rw [show t ++ [NameText.dot] = t ++ NameText.dot :: [] from rfl, NameText.splitOn_append_sep]
    exact List.mem_append_left _ hp
  · exact hp

/-- **the name part of `SvcSafe` follows from the validator in strict mode**: a service that passed the name check of
`async_register_service(strict=True)` has an instance name all of whose labels the encoder accepts -/
theorem C15_registered_name_encodable (s : Svc) (h : checkName s true = .ok ()) :
    ∀ l ∈ labelsOfText s.name, l.length ≤ 63 := by
  unfold checkName at h
  split at h
  · cases h
  · rename_i t ht
    intro l hl
    obtain ⟨piece, hp, hlen⟩ := textGlueS s.name l hl
    rw [hlen]
    exact C15_strict_name_labels_short _ t ht piece hp

/-- **before the D28 repair the server name is not validated** (nor is anything but the instance name and the type's suffix): on a
tree whose `async_register_service` does not encode the records first (translated leaf `register_encodes_first = false`), the name
check and the registry's verdict are the same for every server name.  (With the repair the dry-run encode rejects it: the leaf is
`true` and this theorem's hypothesis fails.) -/
theorem C15_server_not_validated_before_D28 (hleaf : Gen.SurviveApi.register_encodes_first = false)
    (lower : String → String) {υ : Type} (d : CS υ) (s : Svc) (srv : String) (strict : Bool) :
    checkName { s with server := srv } strict = checkName s strict ∧
    ((registerE lower d { s with server := srv } strict).toOption.isSome = (registerE lower d s strict).toOption.isSome) := by
  refine ⟨rfl, ?_⟩
  unfold registerE
  have : checkName { s with server := srv } strict = checkName s strict := rfl
  rw [this, hleaf]
  cases checkName s strict with
  | error e => rfl
  | ok u =>
    dsimp only
    simp only [encodesFirst, Registry.add, Svc.key]
    by_cases hc : (sget lower (lower s.name) d.reg.services).isSome = true <;> simp [hc, Except.toOption]

/-- **with the D28 repair an unencodable service is refused before the registry holds it**: when the tree encodes first
(`register_encodes_first = true`) and the encoder raises on the service's records, `async_register_service` raises that exception to
the caller and the composite state is untouched (the `register` block is a no-op) -/
theorem C15_unencodable_registration_refused_after_D28 (hleaf : Gen.SurviveApi.register_encodes_first = true)
    (lower : String → String) {υ : Type} (d : CS υ) (s : Svc) (strict : Bool) (e : PyExc)
    (henc : Wire.Encode.packets (multicastMsg ⟨(broadcastRecs s).map wireOfRec, []⟩) = .error e) :
    (∃ e', registerE lower d s strict = .error e') := by
  unfold registerE
  cases checkName s strict with
  | error e' => exact ⟨e', rfl⟩
  | ok u =>
    dsimp only
    rw [hleaf]
    simp only [encodesFirst, henc, if_true]
    exact ⟨e, rfl⟩

/-- **every service the registry takes from `async_register_service` has passed the dry-run encode** (no hypothesis on the leaf: the
proof is `register_leaf_on : register_encodes_first = true := rfl`, so on a tree where D28 is reverted this theorem — and with it
`register_ok`, `apiStep_ok`, `C15_history_closed_partial` — no longer builds).  `ApiSafe` of a `register` / `update` block is therefore
only `ArgsInRange` (numeric fields and sizes; see `C15_registered_service_encodable`): that no label of any name of the service is longer
than 63 bytes — D28's class — is derived from the dry run. -/
theorem C15_registered_service_passed_dry_run (lower : String → String) {υ : Type} {d d' : CS υ} {s : Svc} {strict : Bool}
    (h : registerE lower d s strict = .ok d') : DryRun s := registerE_dryRun lower h

theorem C15_updated_service_passed_dry_run (lower : String → String) {υ : Type} {d d' : CS υ} {s : Svc}
    (h : updateE lower d s = .ok d') : DryRun s := updateE_dryRun lower h

/-- a 64-byte label (`h` × 64) in front of `local` -/
def longHost : Wire.WName := [List.replicate 64 104, [108, 111, 99, 97, 108]]

/-- **an unencodable server name falsifies `SvcSafe`** (by the text-layer identity `textGlue`): the SRV record's target has a 64-byte label.
Together with `C15_server_not_validated_before_D28`: the API accepts services that violate the data invariant of C15's survival theorems. -/
theorem C15_unencodable_server_refuted (lower : String → String) (ettl : Nat) (s : Svc)
    (hs : s.server = textOfName longHost) : ¬ SvcSafe lower ettl s := by
  intro h
  have hsrv : RespSpec.srvOf s ∈ RespSpec.own lower ettl s := by simp [RespSpec.own]
  have := (h _ hsrv).2.2.2.2
  simp only [wireOfRec, RespSpec.srvOf, RDataSafe] at this
  have hlab := this.2.2.2.1
  rw [hs, textGlue longHost] at hlab
  have hbad : ∃ l ∈ reencName longHost, ¬ l.length ≤ 63 := by decide +kernel
  obtain ⟨l, hl, hn⟩ := hbad
  exact hn (hlab l hl)

/-- a service whose server name has a 64-byte label -/
def longSvc : Svc :=
  { type := "_a._tcp.local.", name := "x._a._tcp.local.", server := textOfName longHost, port := 80, weight := 0, priority := 0,
    text := [0], hostTtl := 120, otherTtl := 4500, v4 := [[10, 0, 0, 1]], v6 := [] }

/-- non-vacuity of `DryRunSound`, premise false: the dry run refuses the service with a 64-byte server label
(so `DryRunSound` asks nothing of it, where `SvcSafe` used to exclude it by assumption) -/
theorem longSvc_refused : ¬ DryRun longSvc := by
  unfold DryRun
  intro h
  have : (encodesFirst true longSvc).toOption.isSome = false := by decide +kernel
  rw [h] at this
  exact absurd this (by decide)

/-- an ordinary service -/
def okSvc : Svc :=
  { type := "_a._tcp.local.", name := "x._a._tcp.local.", server := "h.local.", port := 80, weight := 0, priority := 0,
    text := [0], hostTtl := 120, otherTtl := 4500, v4 := [[10, 0, 0, 1]], v6 := [] }

theorem okSvc_dryRun : DryRun okSvc := by
  unfold DryRun
  have h : (encodesFirst true okSvc).toOption.isSome = true := by decide +kernel
  cases hr : encodesFirst true okSvc with
  | ok u => rfl
  | error e => rw [hr] at h; simp [Except.toOption] at h

/-- **`DryRunSound` is false as it was stated** (for every case folding `lower` and every enumeration TTL `ettl` of the model): the
enumeration pointer `_services._dns-sd._udp.local. PTR lower(type)` is one of the service's own records but not part of the announcement
the dry run encodes; with a `lower` that lengthens a label … -/
theorem dryRunSound_refuted_lower : ¬ DryRunSound (fun _ => textOfName longHost) 4500 okSvc := by
  intro h
  have hs := h okSvc_dryRun
  have hmem : RespSpec.enumPtr 4500 (textOfName longHost) ∈ RespSpec.own (fun _ => textOfName longHost) 4500 okSvc := by
    simp [RespSpec.own]
  have := (hs _ hmem).2.2.2.2
  simp only [wireOfRec, RespSpec.enumPtr, RDataSafe] at this
  have hlab := this.1
  rw [textGlue longHost] at hlab
  have hbad : ∃ l ∈ reencName longHost, ¬ l.length ≤ 63 := by decide +kernel
  obtain ⟨l, hl, hn⟩ := hbad
  exact hn (hlab l hl)

/-- … or with an enumeration TTL that does not fit 32 bits, the ordinary service passes the dry run and `SvcSafe` fails.  (Artefacts of the
model's parameters; the witness on the real code is the *shielded* record — a record that alone exceeds 8 966 bytes ends `packets()`
without raising, the records behind it are never encoded: `notes/fixes/C15RES-FR4-dry-run-shielded.py`.) -/
theorem dryRunSound_refuted_ettl : ¬ DryRunSound id 4294967296 okSvc := by
  intro h
  have hs := h okSvc_dryRun
  have hmem : RespSpec.enumPtr 4294967296 (id okSvc.type) ∈ RespSpec.own id 4294967296 okSvc := by simp [RespSpec.own]
  have := (hs _ hmem).2.2.2.1
  simp [wireOfRec, RespSpec.enumPtr, Wire.Encode.wireTtl] at this

/-- **the dry run is sound for arguments in range** (property level): a service the registry took from `async_register_service` /
`async_update_service` has passed the dry run (by the translated leaves), and if its arguments are in range — `ArgsInRange`: numeric fields and
sizes within the encoder's bounds, every announcement record alone fits a datagram — all its own records are encodable: in particular
every label of its instance, type and `server` name is at most 63 bytes.  This is `RegSafe` for the new registry, derived, not assumed. -/
theorem C15_registered_service_encodable (lower : String → String) (ettl : Nat) {υ : Type} {d d' : CS υ} {s : Svc} {strict : Bool}
    (hr : ArgsInRange lower ettl s) (h : registerE lower d s strict = .ok d') : SvcSafe lower ettl s :=
  dryRun_sound lower ettl hr (registerE_dryRun lower h)

theorem C15_updated_service_encodable (lower : String → String) (ettl : Nat) {υ : Type} {d d' : CS υ} {s : Svc}
    (hr : ArgsInRange lower ettl s) (h : updateE lower d s = .ok d') : SvcSafe lower ettl s :=
  dryRun_sound lower ettl hr (updateE_dryRun lower h)

end Zc
