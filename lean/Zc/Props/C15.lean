import Zc.Proofs.SurviveHost
import Zc.Proofs.SurviveComp
import Zc.Proofs.SurviveLive
import Zc.Proofs.SurviveTimersC
import Zc.Proofs.SurviveFlush
import Zc.Proofs.BitmapIters
import Zc.Proofs.NameTextGlue
import Zc.Props.C15Route
import Zc.Props.C15Closed
import Zc.Props.C15ClosedQ
import Zc.Props.C15Names
import Zc.Props.C02
/-! # C15 — a running instance survives any datagram stream

The host as one arriving datagram sees it is `Zc.Survive` (`Model/Survive.lean`):
`datagram_received` → size guard → duplicate guard → `DNSIncoming(data)` (the decoder model of C02,
run on the *real bytes*) → remember → invalid / response → record manager / query → registry empty /
truncated → defer with a 400–500 ms timer / else `handle_assembled_query` → answer sets →
`DNSOutgoing.packets()` (the encoder model of C01) for the unicast reply — with the decoded questions
echoed when the source port is not 5353 — and for the immediate multicast.  Exceptions are explicit
(`Except PyExc`); nothing between the socket and the event loop catches anything, so `.error` is an
exception reaching the loop.

Two genuine defects sit on this path.  **D2** (`RecursionError` out of the decoder) is C02's.
**D8/D8b**: a label that is not valid UTF-8 decodes with `'replace'` to text that re-encodes to three
bytes per bad byte, so a name the decoder returned could not be written back
(`NamePartTooLongException` out of the legacy-unicast echo, or later out of a browser's known-answer
list).  The repair makes the decoder reject such labels; `C15_encodable` is the theorem that the
repair closes the hole for *every* name on *every* object, and it only builds on the repaired tree
(`GenFacts.Survive.label_encodable`). -/
namespace Zc
open Zc.Wire Zc.Wire.DecodeLib Zc.Survive
open Zc.Listener (Addr alGet TcTimer)

variable {σ ω : Type}

/-- **Oversize datagrams are ignored.**  A datagram longer than 8966 bytes changes nothing — not even
the duplicate-suppression memory — and emits nothing, whatever the downstream components are. -/
theorem C15_oversize (D : Down σ ω) (s : State σ) (data : Bytes) (addr : Addr) (port : Nat) (now : Ms) (draw : Nat)
    (h : data.length > 8966) : recv D s data addr port now draw = .ok (s, [], .oversize) := by
  unfold recv
  rw [if_pos ((GenFacts.Survive.oversize_iff _).mpr (by omega))]

/-- the guard is exact: 8966 bytes are not oversize (they reach the duplicate guard and the decoder) -/
theorem C15_at_limit (D : Down σ ω) (s : State σ) (data : Bytes) (addr : Addr) (port : Nat) (now : Ms) (draw : Nat)
    (h : data.length ≤ 8966) :
    recv D s data addr port now draw =
      if guardHit s data now then .ok (s, [], .duplicate) else process D s data addr port now draw := by
  unfold recv
  have : Gen.Listener.oversize (data.length : Int) = false := by
    cases hb : Gen.Listener.oversize (data.length : Int)
    · rfl
    · have := (GenFacts.Survive.oversize_iff _).mp hb; omega
  rw [this]
  rfl

/-- **Decoding never escapes** (C02_no_escape, composed): for every byte string the constructor returns
an object and `answers()` returns; so in `process` the two decoder-exception branches are dead. -/
theorem C15_decode_total (data : Bytes) : ∃ p, (parse data).out = .ok p ∧ (parse data).escaped = none :=
  let ⟨p, hp⟩ := C02_object_exists data
  ⟨p, hp, C02_no_escape data⟩

/-- **Every name the decoder returns can be written back** — questions, owner names, PTR/CNAME/SRV
targets, NSEC next names, of valid and invalid objects alike: each label's decoded text re-encodes
to at most 63 bytes of UTF-8.  (False on the unrepaired tree: D8.) -/
theorem C15_encodable (data : Bytes) (p : Parsed) (h : (parse data).parsed? = some p) : encodable p = true :=
  parseWith_encodable libCfg_enc data p h

/-- the same, label by label, in the numbers of the property -/
theorem C15_encodable_each (data : Bytes) (p : Parsed) (h : (parse data).parsed? = some p) :
    ∀ n ∈ DecodeSpec.namesOf p, ∀ l ∈ n, Utf8.reencodedLen l ≤ 63 := by
  have := C15_encodable data p h
  simp only [encodable, nameOK, labelOK, List.all_eq_true, decide_eq_true_eq] at this
  exact this

/-- consequently the labels `write_name` writes for such a name (the decoded text split at dots and
UTF-8 encoded) are at most 63 bytes long … -/
theorem C15_written_labels_short (data : Bytes) (p : Parsed) (h : (parse data).parsed? = some p) :
    ∀ n ∈ DecodeSpec.namesOf p, ∀ x ∈ reencName n, x.length ≤ 63 := by
  intro n hn
  have := C15_encodable data p h
  simp only [encodable, List.all_eq_true] at this
  exact reencName_short n (this n hn)

/-- … so writing it back **never raises `NamePartTooLongException`**, at any position of any packet
under construction: the only exception `write_name` has left is the `IndexError` of a compression
pointer beyond 0x3FFF, which needs a packet larger than the encoder ever builds. -/
theorem C15_writeback (data : Bytes) (p : Parsed) (h : (parse data).parsed? = some p)
    (n : WName) (hn : n ∈ DecodeSpec.namesOf p) (size : Nat) (names : Encode.Names) (e : PyExc)
    (he : writeBack size names n = .error e) : e = .indexError :=
  writeName_err _ size names e (C15_written_labels_short data p h n hn) he

/-- in particular the D8 symptom is gone for every decoded name -/
theorem C15_no_name_part_too_long (data : Bytes) (p : Parsed) (h : (parse data).parsed? = some p) :
    ∀ n ∈ DecodeSpec.namesOf p, writeBackRaises n = false := by
  intro n hn
  unfold writeBackRaises
  split
  · rename_i he
    have := C15_writeback data p h n hn 12 [] _ he
    simp at this
  · rfl

/-- **D8, machine-checked**: on the decoder without the label test (the unrepaired tree) the
83-byte legacy query `?<40 × 0xFF>.local PTR, ?_a._tcp.local PTR` yields a valid object whose first
question name cannot be written back: `write_name` raises `NamePartTooLongException`. -/
def noLabelCfg : Cfg := ⟨Gen.Incoming.hop_limit_reached, fun _ _ => false, 900⟩

def d8Datagram : Bytes :=
  [0, 7, 0, 0, 0, 2, 0, 0, 0, 0, 0, 0, 40] ++ List.replicate 40 0xFF ++ [5, 108, 111, 99, 97, 108, 0, 0, 12, 0, 1] ++
  [2, 95, 97, 4, 95, 116, 99, 112, 5, 108, 111, 99, 97, 108, 0, 0, 12, 0, 1]

theorem C15_encodable_refuted_without_label_test :
    ¬ ∀ (data : Bytes) (p : Parsed), (parseWith noLabelCfg data).parsed? = some p →
        ∀ n ∈ DecodeSpec.namesOf p, writeBackRaises n = false := by
  intro h
  have : ((parseWith noLabelCfg d8Datagram).parsed?.map
      (fun p => p.valid && (DecodeSpec.namesOf p).any writeBackRaises)) = some true := by decide +kernel
  cases hp : (parseWith noLabelCfg d8Datagram).parsed? with
  | none => rw [hp] at this; simp at this
  | some p =>
    rw [hp] at this
    simp only [Option.map_some, Option.some.injEq, Bool.and_eq_true, List.any_eq_true] at this
    obtain ⟨_, n, hn, hr⟩ := this
    have := h d8Datagram p hp n hn
    rw [this] at hr
    simp at hr

/-- the repaired decoder rejects that datagram as an invalid message (and the listener drops it) -/
example : (parse d8Datagram).parsed?.map (·.valid) = some false := by decide +kernel

/-- **The encoder is total on safe messages**: `DNSOutgoing.packets()` raises nothing — not
`NamePartTooLongException`, not `struct.error`, not the `IndexError` of a compression pointer beyond
0x3FFF (every names-table entry stays below 8966 + 2·1100 + 16), not `ValueError` of an NSEC bitmap —
when every label is ≤ 63 bytes, every name ≤ 1100 bytes on the wire, 16/32-bit fields are in range,
character strings ≤ 255 bytes and NSEC type lists well formed (`MsgSafe`). -/
theorem C15_encoder_total (m : Encode.Msg) (hm : MsgSafe m) : ∃ pks, Encode.packets m = .ok pks :=
  packets_total m hm

/-- **The legacy-unicast reply can always be built**: whatever datagram (of at most 8966 bytes, what the listener lets through) the query came in, echoing
the questions of the decoded object next to any safe answer set yields datagrams — the D8 raise
site is unreachable, and so is every other raise site of the encoder. -/
theorem C15_echo_total (data : Bytes) (hlen : data.length ≤ 8966) (p : Parsed) (h : (parse data).out = .ok p) (a : AnswerSet) (ha : SetSafe a) (u : Bool) :
    ∃ pks, Encode.packets (unicastMsg a u p.questions p.hdr.id) = .ok pks := by
  obtain ⟨p', hp', hk⟩ := parse_pkt data 0 hlen
  rw [h] at hp'
  cases hp'
  exact packets_total _ (unicastMsg_safe a u p.questions p.hdr.id ha (questions_ok hk) hk.2.2.2.1)

/-- **Survival, one block** (`_partial`: the record manager with its listeners, the answer
computation and the queues are uninterpreted; `DownOK` names what is assumed of them — they accept
every decoder product (`PktOK`: names encodable and ≤ 253 characters, 16-bit id and question types,
`answers()` returned), preserve their invariant `I`, and the records they hand to the encoder are
safe (`QASafe`, a data invariant of the registry)).  Under the host invariant (`I` downstream;
`LInv`: a TC timer is armed only for an address with a deferred packet, every deferred packet is a
decoder product) **`datagram_received` returns normally for every byte string, source address,
source port, clock reading and random draw, and re-establishes the invariant.**  Every raise site
inside the modelled part is discharged: decoder exceptions (C02), the lazy `answers()`,
`packets[0]`, and the whole encoder — including `NamePartTooLongException` of the echoed questions
(`C15_encodable`) — by `C15_encoder_total`. -/
theorem C15_total_partial {D : Down σ ω} {I : σ → Prop} (hD : DownOK D I QASafe)
    (s : State σ) (hI : I s.down) (hL : LInv s) (data : Bytes) (addr : Addr) (port : Nat) (now : Ms) (draw : Nat) :
    ∃ s' out tag, recv D s data addr port now draw = .ok (s', out, tag) ∧ I s'.down ∧ LInv s' :=
  recv_ok hD sendOK_safe s data addr port now draw hI hL

/-- the deferred-query timer of an address with an armed timer likewise: `packets[0]` exists because
`LInv` holds (this is the invariant C16 left open as `TimerInv`) -/
theorem C15_timer_partial {D : Down σ ω} {I : σ → Prop} (hD : DownOK D I QASafe)
    (s : State σ) (hI : I s.down) (hL : LInv s) (addr : Addr) (t : TcTimer) (ht : alGet addr s.timers = some t) :
    ∃ s' out tag, tcFire D s addr = .ok (s', out, tag) ∧ I s'.down ∧ LInv s' :=
  tcFire_ok hD sendOK_safe s addr t ht hI hL

/-- **Survival, every history** (`_partial`, same hypotheses, plus: every other block of the host
preserves `I` without raising).  From the initial state, any finite interleaving of datagram
arrivals (any bytes, source, port, time), deferred-query timers and other blocks runs to the end
without an exception and ends in a state satisfying the invariant — the only `.error` is the
marker for a history that fires a timer which is not armed, which the event loop never does. -/
theorem C15_history_partial {β : Type} {D : Down σ ω} {I : σ → Prop} (hD : DownOK D I QASafe)
    (other : σ → β → Except PyExc (σ × List ω)) (hO : ∀ d b, I d → ∃ d' o, other d b = .ok (d', o) ∧ I d')
    (d0 : σ) (h0 : I d0) (bs : List (Survive.Block β)) :
    (∃ s' out, run D other (State.init d0) bs = .ok (s', out) ∧ I s'.down ∧ LInv s') ∨
      run D other (State.init d0) bs = .error .keyError :=
  run_ok hD sendOK_safe other hO bs (State.init d0) h0 (LInv.init d0)

/-! ### `DownOK` discharged for the composition of the other properties' models

`Survive.Comp.down` instantiates the downstream with the record manager + cache of C05/C06
(`Zc.ingest` over `Cache.ops`), the browser callbacks of C04 (`Browser.updateRecords`/`complete`), the
registry and answer computation of C03 (`Zc.respond`), `_add_answers_additionals` (`packetize`) and
the text ↔ wire conversion of names, the lookups of C18 (`Lookup.processAll`) and the browsers' scheduler
bookkeeping of C10 (`Sched2.reschedule2` / `cancel2`).  What remains uninterpreted is `Survive.Comp.Rest`: the
listeners that are neither browsers nor lookups (user listeners, `notify_all`), the
`_QueryResponse` routing with the question history, and `async_add` of the two queues. -/

section composed
open Zc.Survive.Comp
variable (lower : String → String) (possible : String → List String) (ettl : Nat)
variable {ρ ω' : Type} (R : Rest ρ ω') (Iρ : ρ → Prop)

/-- **No `KeyError` out of the cache, for any records** (C05/C06 composed): on a cache that refines a
duplicate-free store `async_updates_from_response` returns and the cache refines such a store again.
The `_remove_key` sites (`del cache[key][record]` for a record that is not there) are unreachable. -/
theorem C15_cache_total {c : Cache} (h : ∃ s, Refines lower c s ∧ Flat.WF lower s) (now : Ms) (recs : List Rec) :
    ∃ out, Zc.ingest lower (Cache.ops lower) c now recs = .ok out ∧ ∃ s', Refines lower out.cache s' ∧ Flat.WF lower s' :=
  cache_ingest_ok lower h now recs

/-- **The browsers' scheduler bookkeeping never raises** (C10's two-container model `Sched2` composed in):
for every list of `(new, old)` pairs handed to `async_update_records`, every scheduler satisfying the
dict/heap invariant `HD` runs all its `reschedule_ptr_first_refresh` / `cancel_ptr_refresh` calls without
`KeyError` (the `del self._next_scheduled_for_alias[alias]` site) and satisfies `HD` again. -/
theorem C15_scheduler_total (now : Ms) (pairs : List (Rec × Option Rec)) (ss : List (Sched.Cfg × Sched2.S2))
    (h : ∀ cs ∈ ss, Sched2.Inv2 cs.2) :
    ∃ ss', schedsStep lower possible now pairs ss = .ok ss' ∧ ∀ cs ∈ ss', Sched2.Inv2 cs.2 :=
  schedsStep_ok lower possible now pairs ss h

/-- **The three component obligations of `DownOK` hold of the composition**, given the three residual
assumptions about `Rest` (`ListenersOK`, `RouteOK`, `QueueOK`).  Discharged here: the record manager
loop and every cache operation (C05/C06), the browsers' callbacks (C04; the invariant also
re-establishes C04's hypothesis `pending = []`), the registry lookups and answer computation (C03:
`respond_ok`, `warmed_inv`), packetising, and — through `QASafe` from the registry's data invariant
`RegSafe` — the encoder. -/
theorem C15_down_composed (hL : ListenersOK R Iρ) (hR : RouteOK R Iρ) (hQ : QueueOK R Iρ) :
    DownOK (Comp.down lower possible ettl R) (CInv lower ettl Iρ) QASafe :=
  comp_downOK lower possible ettl R Iρ hL hR hQ

/-- **Survival, one block, composed** (`_partial`: assumes only `ListenersOK`, `RouteOK`, `QueueOK`
and the invariant `CInv` — cache refines a duplicate-free store, C03's `IndexInv`, the data
invariant `RegSafe`, no browser callback pending, `Iρ` of the residue). -/
theorem C15_total_composed_partial (hL : ListenersOK R Iρ) (hR : RouteOK R Iρ) (hQ : QueueOK R Iρ)
    (s : State (CState ρ)) (hI : CInv lower ettl Iρ s.down) (hLi : LInv s)
    (data : Bytes) (addr : Addr) (port : Nat) (now : Ms) (draw : Nat) :
    ∃ s' out tag, recv (Comp.down lower possible ettl R) s data addr port now draw = .ok (s', out, tag) ∧
      CInv lower ettl Iρ s'.down ∧ LInv s' :=
  C15_total_partial (C15_down_composed lower possible ettl R Iρ hL hR hQ) s hI hLi data addr port now draw

theorem C15_timer_composed_partial (hL : ListenersOK R Iρ) (hR : RouteOK R Iρ) (hQ : QueueOK R Iρ)
    (s : State (CState ρ)) (hI : CInv lower ettl Iρ s.down) (hLi : LInv s) (addr : Addr) (t : TcTimer)
    (ht : alGet addr s.timers = some t) :
    ∃ s' out tag, tcFire (Comp.down lower possible ettl R) s addr = .ok (s', out, tag) ∧
      CInv lower ettl Iρ s'.down ∧ LInv s' :=
  C15_timer_partial (C15_down_composed lower possible ettl R Iρ hL hR hQ) s hI hLi addr t ht

/-- **Survival, every history, composed** (`_partial`): from any composite state satisfying `CInv`
(e.g. the initial one, `CInv.init`), every interleaving of arrivals, deferred-query timers and other
blocks that preserve `CInv` (registration API, browser start/stop, cache purge, queue timers …) runs
without an exception. -/
theorem C15_history_composed_partial {β : Type} (hL : ListenersOK R Iρ) (hR : RouteOK R Iρ) (hQ : QueueOK R Iρ)
    (other : CState ρ → β → Except PyExc (CState ρ × List (COut ω')))
    (hO : ∀ d b, CInv lower ettl Iρ d → ∃ d' o, other d b = .ok (d', o) ∧ CInv lower ettl Iρ d')
    (d0 : CState ρ) (h0 : CInv lower ettl Iρ d0) (bs : List (Survive.Block β)) :
    (∃ s' out, run (Comp.down lower possible ettl R) other (State.init d0) bs = .ok (s', out) ∧
        CInv lower ettl Iρ s'.down ∧ LInv s') ∨
      run (Comp.down lower possible ettl R) other (State.init d0) bs = .error .keyError :=
  C15_history_partial (C15_down_composed lower possible ettl R Iρ hL hR hQ) other hO d0 h0 bs

/-- the residual assumptions are satisfiable (a residue with no further listeners, a router that
selects nothing for the block, a queue that swallows; a router that hands the whole answer map to the
unicast reply satisfies `RouteOK` as well), and the initial composite state satisfies `CInv` -/
def exRest : Rest Unit String where
  listeners r _ _ _ _ _ := .ok (r, [])
  route r _ _ _ _ := .ok (r, ⟨[], [], [], []⟩)
  enqueue r _ _ := (r, [])

example : ListenersOK exRest (fun _ => True) ∧ RouteOK exRest (fun _ => True) ∧ QueueOK exRest (fun _ => True) :=
  ⟨fun r0 _ _ _ _ _ _ => ⟨r0, [], rfl, trivial⟩,
   fun r0 _ _ _ _ _ => ⟨r0, _, rfl, trivial, by intro x hx; simp [dictRecords] at hx⟩,
   fun _ _ _ _ => trivial⟩

/-- a router that hands the whole answer map to the unicast reply -/
def exRestAll : Rest Unit String := { exRest with route := fun r _ _ _ dict => .ok (r, ⟨dict, [], [], []⟩) }

example : RouteOK exRestAll (fun _ => True) :=
  fun r0 _ _ _ _ _ => ⟨r0, _, rfl, trivial, by intro x hx; simpa [dictRecords, exRestAll] using hx⟩

example : CInv lower ettl (fun _ : Unit => True) ⟨{}, [], [], [], {}, [], [], none, ()⟩ := CInv.init lower ettl _ () trivial

end composed

/-! ## The third clause: "the instance keeps working"

"… a well-formed query sent afterwards is still answered and an announcement sent afterwards still
reaches its browsers."  The theorems above conclude survival (`.ok` and the invariants); the ones below
say what the *next* datagram does in any state the invariants describe — in particular after any
history (`C15_after_history`).  What a hostile stream can leave behind in the listener is the
duplicate-guard memory and the deferral tables; neither can keep a fresh datagram from its handler. -/

section keeps_working
variable {σ ω : Type}

/-- the invariants hold after every history that ran to its end -/
theorem C15_after_history {β : Type} {D : Down σ ω} {I : σ → Prop} (hD : DownOK D I QASafe)
    (other : σ → β → Except PyExc (σ × List ω)) (hO : ∀ d b, I d → ∃ d' o, other d b = .ok (d', o) ∧ I d')
    (d0 : σ) (h0 : I d0) (bs : List (Survive.Block β)) (s1 : State σ) (o1 : List (Out ω))
    (h : run D other (State.init d0) bs = .ok (s1, o1)) : I s1.down ∧ LInv s1 :=
  run_inv hD sendOK_safe other hO bs (State.init d0) s1 o1 h0 (LInv.init d0) h

/-- **every history, the illegal ones named** (replaces the `KeyError` marker of
`C15_history_partial` by what it stands for): a history either runs to its end with the invariants in
force, or it contains a deferred-query timer block for an address whose timer is not armed at that
point, everything before it having run normally.  No other block can stop a history. -/
theorem C15_history_legal_partial {β : Type} {D : Down σ ω} {I : σ → Prop} (hD : DownOK D I QASafe)
    (other : σ → β → Except PyExc (σ × List ω)) (hO : ∀ d b, I d → ∃ d' o, other d b = .ok (d', o) ∧ I d')
    (d0 : σ) (h0 : I d0) (bs : List (Survive.Block β)) :
    (∃ s' out, run D other (State.init d0) bs = .ok (s', out) ∧ I s'.down ∧ LInv s') ∨
      (∃ pre addr post s1 o1, bs = pre ++ Survive.Block.tcFire addr :: post ∧
        run D other (State.init d0) pre = .ok (s1, o1) ∧ alGet addr s1.timers = none) :=
  run_ok' hD sendOK_safe other hO bs (State.init d0) h0 (LInv.init d0)

/-- the duplicate guard only fires for the remembered bytes … -/
theorem C15_guard_needs_same_bytes (s : State σ) (data : Bytes) (now : Ms) (h : s.data ≠ some data) :
    guardHit s data now = false := guardHit_false_of_ne s data now h

/-- … and only within 1000 ms of the last datagram that was *processed* (a dropped duplicate does not
move the window: `recv` returns the state unchanged for it) -/
theorem C15_guard_needs_recent (s : State σ) (data : Bytes) (now : Ms) (h : s.lastTime + 1000 ≤ now) :
    guardHit s data now = false := guardHit_false_of_old s data now h

/-- **A well-formed query sent afterwards is still answered** (`_partial`: generic in the downstream,
`DownOK`).  In every state satisfying the invariants, a valid untruncated query of at most 8966 bytes
that the duplicate guard does not drop — different bytes, or ≥ 1 s since the last processed datagram —
is handed to the answer computation (together with what was deferred for its address),
`datagram_received` returns with tag `responded`, and the unicast and immediate-multicast answer
sets the computation returns are sent inside the block (`Sent`). -/
theorem C15_query_still_answered_partial {D : Down σ ω} {I : σ → Prop} (hD : DownOK D I QASafe)
    (s : State σ) (hI : I s.down) (hL : LInv s) (data : Bytes) (addr : Addr) (port : Nat) (now : Ms) (draw : Nat) (p : Parsed)
    (hsize : data.length ≤ 8966) (hg : guardHit s data now = false) (hp : (parse data).out = .ok p)
    (hv : p.valid = true) (hq : Gen.Listener.is_query p.hdr.flags = true) (htc : Gen.Listener.truncated p.hdr.flags = false)
    (he : D.hasEntries s.down = true) :
    ∃ d1 qa s' out,
      D.answer s.down ((alGet addr s.deferred).getD [] ++ [⟨data, now, p, none⟩]) (Gen.Listener.ucast_source port) = .ok (d1, qa) ∧
      recv D s data addr port now draw = .ok (s', out, .responded ((alGet addr s.deferred).getD [] ++ [(⟨data, now, p, none⟩ : Pkt)]).length) ∧
      I s'.down ∧ LInv s' ∧ Sent addr port qa out :=
  recv_query_answered hD sendOK_safe s hI hL data addr port now draw p hsize hg hp hv hq htc he

/-- **An announcement sent afterwards still reaches the record manager** (`_partial`, same): a valid
response the duplicate guard does not drop is ingested, and everything the ingestion emits — the
listeners' callbacks — is what the block emits. -/
theorem C15_response_still_ingested_partial {D : Down σ ω} {I : σ → Prop} (hD : DownOK D I QASafe)
    (s : State σ) (hI : I s.down) (hL : LInv s) (data : Bytes) (addr : Addr) (port : Nat) (now : Ms) (draw : Nat) (p : Parsed)
    (hsize : data.length ≤ 8966) (hg : guardHit s data now = false) (hp : (parse data).out = .ok p)
    (hv : p.valid = true) (hq : Gen.Listener.is_query p.hdr.flags = false) :
    ∃ d' o s', D.ingest s.down ⟨data, now, p, none⟩ = .ok (d', o) ∧
      recv D s data addr port now draw = .ok (s', o.map Out.down, .response) ∧ s'.down = d' ∧ I d' ∧ LInv s' :=
  recv_response_ingested hD s hI hL data addr port now draw p hsize hg hp hv hq

end keeps_working

section keeps_working_composed
open Zc.Survive.Comp
variable (lower : String → String) (possible : String → List String) (ettl : Nat)
variable {ρ ω' : Type} (R : Rest ρ ω') (Iρ : ρ → Prop)

/-- **Every cached name can be written back** (the D8b clause of `CInv`, spelled out): after any
history, each name of each record object in the cache is the text of a wire name of at most 253
characters on which `write_name` can only raise the pointer `IndexError`, never
`NamePartTooLongException`. -/
theorem C15_cached_names_writeback {d : CState ρ} (hI : CInv lower ettl Iρ d) :
    ∀ kb ∈ d.cache.cache ++ d.cache.svc, ∀ r ∈ kb.2, ∀ s ∈ recNames r,
      ∃ n : WName, s = textOfName n ∧ nameLen n ≤ 253 ∧
        ∀ (size : Nat) (names : Encode.Names) (e : PyExc), writeBack size names n = .error e → e = .indexError :=
  cached_names_writeback lower ettl Iρ hI

/-- **D8b's site is covered**: the known-answer section the browsers' scheduler timer and the lookups
build from cache content never makes `packets()` raise `NamePartTooLongException`.  (The text-layer identity
`write_name(text of n)` = `reencName n`, formerly the hypothesis `TextGlue`, is the theorem `textGlue` of
`Proofs/NameTextGlue.lean` since the text layer is modelled: `Zc.NameText`.) -/
theorem C15_known_answers_no_name_part_too_long {d : CState ρ} (hI : CInv lower ettl Iρ d)
    (flags id : Nat) (mc : Bool) (qs : List Encode.EQuestion) (hq : ∀ q ∈ qs, ∀ x ∈ q.name, x.length ≤ 63)
    (known : List (Rec × Ms))
    (hk : ∀ x ∈ known, (∃ kb ∈ d.cache.cache ++ d.cache.svc, x.1 ∈ kb.2) ∧ x.1.rdata.kind ≠ .hinfo) :
    Encode.packets ⟨flags, id, mc, qs, known.map (fun x => (wireOfRec x.1, x.2)), [], []⟩ ≠ .error .namePartTooLong :=
  known_answers_no_npl lower ettl Iρ textGlue hI flags id mc qs hq known hk

/-- **A query for a registered record is offered to the routing** (composed; C03's completeness).
Under `CInv`: if a question of the assembled query asks for a record `r` of a registered service and the
known answers do not suppress it, the answer computation returns a map containing `r` (up to identity),
and `async_response` is the routing applied to that map.  What is *not* proved here and is named:
`_QueryResponse` places every key of the map into one of its four sets (C12_immediate / C12_aggregated /
C12_one_sec_qm classify them), and the two queues put the aggregated sets on the wire within 500 / 1200 ms
(C12_on_wire). -/
theorem C15_query_offered_composed {d : CState ρ} (hI : CInv lower ettl Iρ d) (ks : List Pkt) (u : Bool)
    {q : Question} (hq : q ∈ questionsOf (ks.map msgOf)) {s : Svc} (hs : s ∈ d.reg.services) {r : Rec}
    (hr : r ∈ RespSpec.candidates lower ettl s q)
    (hk : RespSpec.isNsec r = true ∨ suppresses lower (knownOf (ks.map msgOf)) r = false) :
    ∃ dict reg', Zc.respond lower ettl d.reg (ks.map msgOf) = .ok (some dict, reg') ∧
      (∃ a ∈ dict.map (·.1), a.beq lower r = true) ∧
      Comp.answer lower ettl R d ks u =
        match R.route d.rest d.cache ks u dict with
        | .error e => .error e
        | .ok (rest', sel) =>
          .ok ({ d with reg := reg', rest := rest', pending := some sel },
               some ⟨setOf lower sel.ucast, setOf lower sel.mcastNow, !sel.aggregate.isEmpty, !sel.aggregateLast.isEmpty⟩) :=
  comp_answer_offers lower ettl R Iρ hI ks u hq hs hr hk

/-- **An announcement sent afterwards still reaches its browsers** (composed, `_partial`:
`ListenersOK`, `RouteOK`, `QueueOK`).  After ANY history of blocks from a state satisfying `CInv`: a
valid response of at most 8966 bytes that the duplicate guard does not drop and that carries a pointer
record which is alive after the PTR TTL floor, is not cached, and whose owner matches a type `t` browsed
by a registered browser makes `datagram_received` return normally **with that browser's `Added(t, alias)`
callback among the block's outputs**. -/
theorem C15_announcement_reaches_browser_partial {β : Type} (hL : ListenersOK R Iρ) (hR : RouteOK R Iρ) (hQ : QueueOK R Iρ)
    (other : CState ρ → β → Except PyExc (CState ρ × List (COut ω')))
    (hO : ∀ d b, CInv lower ettl Iρ d → ∃ d' o, other d b = .ok (d', o) ∧ CInv lower ettl Iρ d')
    (d0 : CState ρ) (h0 : CInv lower ettl Iρ d0) (bs : List (Survive.Block β)) (s1 : State (CState ρ)) (o1 : List (Out (COut ω')))
    (hrun : run (Comp.down lower possible ettl R) other (State.init d0) bs = .ok (s1, o1))
    (data : Bytes) (addr : Addr) (port : Nat) (now : Ms) (draw : Nat) (p : Parsed)
    (hsize : data.length ≤ 8966) (hg : guardHit s1 data now = false) (hp : (parse data).out = .ok p)
    (hv : p.valid = true) (hq : Gen.Listener.is_query p.hdr.flags = false)
    {w : Rec} (hw : w ∈ recsOf ⟨data, now, p, none⟩) {alias t : String}
    (hty : w.type = Gen.typePtr) (hrd : w.rdata = .ptr alias)
    (hlive : (floorPtr (w.setLife now w.ttl)).isExpired now = false)
    (hnew : Cache.getUnique lower s1.down.cache (floorPtr (w.setLife now w.ttl)) = none)
    {b : Browser} (hb : b ∈ s1.down.browsers) (ht : t ∈ b.types) (hposs : (possible w.name).contains t = true) :
    ∃ s' out i, recv (Comp.down lower possible ettl R) s1 data addr port now draw = .ok (s', out, .response) ∧
      Out.down (COut.callback i ⟨.added, t, alias⟩) ∈ out := by
  have hD := C15_down_composed lower possible ettl R Iρ hL hR hQ
  obtain ⟨hI1, hL1⟩ := C15_after_history hD other hO d0 h0 bs s1 o1 hrun
  obtain ⟨p', hp', hk⟩ := parse_pkt data now hsize
  rw [hp] at hp'
  cases hp'
  obtain ⟨d', out, i, hi, hmem⟩ := comp_ingest_added lower possible ettl R Iρ hL hI1 ⟨data, now, p, none⟩ hk hw hty hrd hlive hnew hb ht hposs
  have heq := recv_response_eq (Comp.down lower possible ettl R) s1 data addr port now draw p hsize hg hp hv hq
  have hi' : (Comp.down lower possible ettl R).ingest s1.down ⟨data, now, p, none⟩ = .ok (d', out) := hi
  rw [hi'] at heq
  exact ⟨_, _, i, heq, List.mem_map_of_mem hmem⟩

/-- **A well-formed query sent afterwards is still answered** (composed, `_partial`, same residue).
After ANY history from a state satisfying `CInv`: a valid untruncated query the duplicate guard does not
drop, one of whose questions asks for a record `r` of a registered service (not suppressed by its known
answers), makes `datagram_received` return normally with tag `responded`; the answer computation has
offered `r` to the routing, and the unicast / immediate-multicast sets the routing selected are sent
inside the block.  (That the routing selects `r` for one of its four sets, and that the queued sets
leave within their windows, is C12's — named in `C15_query_offered_composed`.) -/
theorem C15_query_reaches_responder_partial {β : Type} (hL : ListenersOK R Iρ) (hR : RouteOK R Iρ) (hQ : QueueOK R Iρ)
    (other : CState ρ → β → Except PyExc (CState ρ × List (COut ω')))
    (hO : ∀ d b, CInv lower ettl Iρ d → ∃ d' o, other d b = .ok (d', o) ∧ CInv lower ettl Iρ d')
    (d0 : CState ρ) (h0 : CInv lower ettl Iρ d0) (bs : List (Survive.Block β)) (s1 : State (CState ρ)) (o1 : List (Out (COut ω')))
    (hrun : run (Comp.down lower possible ettl R) other (State.init d0) bs = .ok (s1, o1))
    (data : Bytes) (addr : Addr) (port : Nat) (now : Ms) (draw : Nat) (p : Parsed)
    (hsize : data.length ≤ 8966) (hg : guardHit s1 data now = false) (hp : (parse data).out = .ok p)
    (hv : p.valid = true) (hq : Gen.Listener.is_query p.hdr.flags = true) (htc : Gen.Listener.truncated p.hdr.flags = false)
    (he : s1.down.reg.hasEntries = true)
    {q : Question} (hqq : q ∈ (msgOf ⟨data, now, p, none⟩).questions) {s : Svc} (hs : s ∈ s1.down.reg.services) {r : Rec}
    (hr : r ∈ RespSpec.candidates lower ettl s q)
    (hk : RespSpec.isNsec r = true ∨
      suppresses lower (knownOf (((alGet addr s1.deferred).getD [] ++ [(⟨data, now, p, none⟩ : Pkt)]).map msgOf)) r = false) :
    ∃ dict reg' d1 qa s' out,
      Zc.respond lower ettl s1.down.reg (((alGet addr s1.deferred).getD [] ++ [(⟨data, now, p, none⟩ : Pkt)]).map msgOf) = .ok (some dict, reg') ∧
      (∃ a ∈ dict.map (·.1), a.beq lower r = true) ∧
      Comp.answer lower ettl R s1.down ((alGet addr s1.deferred).getD [] ++ [⟨data, now, p, none⟩]) (Gen.Listener.ucast_source port) = .ok (d1, qa) ∧
      recv (Comp.down lower possible ettl R) s1 data addr port now draw =
        .ok (s', out, .responded ((alGet addr s1.deferred).getD [] ++ [(⟨data, now, p, none⟩ : Pkt)]).length) ∧
      Sent addr port qa out := by
  have hD := C15_down_composed lower possible ettl R Iρ hL hR hQ
  obtain ⟨hI1, hL1⟩ := C15_after_history hD other hO d0 h0 bs s1 o1 hrun
  obtain ⟨d1, qa, s', out, ha, hrecv, _, _, hsent⟩ :=
    C15_query_still_answered_partial hD s1 hI1 hL1 data addr port now draw p hsize hg hp hv hq htc he
  have hqmem : q ∈ questionsOf (((alGet addr s1.deferred).getD [] ++ [(⟨data, now, p, none⟩ : Pkt)]).map msgOf) := by
    unfold questionsOf
    rw [List.mem_flatMap]
    exact ⟨msgOf ⟨data, now, p, none⟩, by simp, hqq⟩
  obtain ⟨dict, reg', hresp, hkey, _⟩ := comp_answer_offers lower ettl R Iρ hI1 _ (Gen.Listener.ucast_source port) hqmem hs hr hk
  exact ⟨dict, reg', d1, qa, s', out, hresp, hkey, ha, hrecv, hsent⟩

end keeps_working_composed

/-! ## The timer blocks that build packets from cache content

`C15_history_*` above take `hO`: every block that is not a datagram arrival or a deferred-query timer
preserves the invariant without raising.  Two of those blocks write what datagrams left in the cache into
new packets and are therefore part of "no exception escapes into the event loop, whatever datagrams
arrive" (D8b raised in the first).  They are modelled (`Model/SurviveTimers.lean`) from C10's scheduler
(`Sched2.step2 … fire`), C13's `QueryGen.serviceQuery` + bucket grouping, C18's `Lookup.genQuery` and C01's
encoder, and proved total.  (The third, the multicast answer queue flush, lives on the routing residue:
`Props/C15Route.lean`.) -/

section timers
open Zc.Survive.Comp
variable (lower : String → String) (possible : String → List String) (ettl : Nat)
variable {ρ ω' : Type} (R : Rest ρ ω') (Iρ : ρ → Prop) (sz : QueryGen.QOut → Nat)

/-- **A browser's query timer never raises.**  Under `CInv` (names and numeric fields of every cached record
are what the decoder produces: `names`, `fields`; the scheduler's dict/heap invariant: `scheds`) and `TInv`
(the browsed types are encodable names — data invariant —, and so are the names in the scheduler's heap),
with the text-layer identity and a clock that has not run backwards past a cached record's creation:
`_process_startup_queries` / `_process_ready_types`, `generate_service_query` with its known answers from the
cache, the bucket grouping and `packets()` of every bucket all return, for every scheduler index, `done` flag,
clock reading and bucket-size estimate; both invariants hold afterwards. -/
theorem C15_browser_timer_total {d : CState ρ} (hI : CInv lower ettl Iρ d) (hT : TInv d)
    (i : Nat) (done : Bool) (now : Ms) (hclock : ∀ r ∈ d.cache.allRecs, r.created ≤ QueryGen.browserAnswerTime now) :
    ∃ d' pks, browserFire lower sz d i done now = .ok (d', pks) ∧ CInv lower ettl Iρ d' ∧ TInv d' :=
  browserFire_ok lower ettl Iρ sz textGlue hI hT i done now hclock

/-- **A lookup's query transmission never raises** (same hypotheses; `TInv.lookups`: the names the lookup's
`ServiceInfo` holds — given by the application or learnt from SRV records — are encodable). -/
theorem C15_lookup_query_total {d : CState ρ} (hI : CInv lower ettl Iρ d) (hT : TInv d)
    (j : Nat) (now : Ms) (qu : Bool) (hclock : ∀ r ∈ d.cache.allRecs, r.created ≤ QueryGen.lookupAnswerTime now) :
    ∃ d' pks, lookupQuery lower d j now qu = .ok (d', pks) ∧ CInv lower ettl Iρ d' ∧ TInv d' :=
  lookupQuery_ok lower ettl Iρ textGlue hI hT j now qu hclock

/-- **Survival, every history, with the packet-building timer blocks inside the quantifier** (`_partial`:
`ListenersOK`, `RouteOK`, `QueueOK` (`TextGlue` is discharged: `textGlue`), and `hO` now only for the *residual* blocks — registration API,
browser / lookup start and stop, cache purge, the queues' timers).  From any state satisfying `CInv ∧ TInv`,
every finite interleaving of datagram arrivals (any bytes, source, port, time), deferred-query timers, browser
query timers, lookup query transmissions and residual blocks either runs to its end with both invariants in
force, or contains a deferred-query timer block for an address whose timer is not armed at that point. -/
theorem C15_history_timers_partial {β : Type} (hL : ListenersOK R Iρ) (hR : RouteOK R Iρ) (hQ : QueueOK R Iρ)
    (other' : CState ρ → β → Except PyExc (CState ρ × List (COut ω')))
    (hO : ∀ d b, CTInv lower ettl Iρ d → ∃ d' o, other' d b = .ok (d', o) ∧ CTInv lower ettl Iρ d')
    (d0 : CState ρ) (h0 : CTInv lower ettl Iρ d0) (bs : List (Survive.Block (TimerBlock ⊕ β))) :
    (∃ s' out, run (Comp.down lower possible ettl R) (otherT lower sz other') (State.init d0) bs = .ok (s', out) ∧
        CTInv lower ettl Iρ s'.down ∧ LInv s') ∨
      (∃ pre addr post s1 o1, bs = pre ++ Survive.Block.tcFire addr :: post ∧
        run (Comp.down lower possible ettl R) (otherT lower sz other') (State.init d0) pre = .ok (s1, o1) ∧
        alGet addr s1.timers = none) :=
  run_ok' (comp_downOK_T lower possible ettl R Iρ textGlue hL hR hQ) sendOK_safe (otherT lower sz other')
    (otherT_ok lower ettl Iρ sz textGlue other' hO) bs (State.init d0) h0 (LInv.init d0)

/-- the extended invariant holds initially -/
example (r0 : ρ) (h : Iρ r0) : CTInv lower ettl Iρ ⟨{}, [], [], [], {}, [], [], none, r0⟩ :=
  ⟨CInv.init lower ettl Iρ r0 h,
   ⟨by intro cs hcs; simp at hcs, by intro cs hcs; simp at hcs, by intro i hi; simp at hi⟩⟩

end timers

/-! ### the multicast answer queue flush, on the routing residue of C12 -/

section flush
open Zc.Survive.Comp Zc.Survive.Route
variable (lower : String → String) (possible : String → List String) (ettl : Nat)
variable (attrib : Question → Rec → Bool) (orc : Route.Oracle)
variable {ρ₀ ω' : Type} (B : Route.Base ρ₀ ω') (I₀ : ρ₀ → Prop) (sz : QueryGen.QOut → Nat)

/-- **The multicast answer queue flush never raises** (`MulticastOutgoingQueue.async_ready` = C12's `Queue.ready`, then
`_add_answers_additionals` + `packets()`): under the full invariant — `FInv`: every record object behind an id of the queues was
handed out by the registry while `RegSafe` held — the batch is a safe message; the table is unchanged, both queues keep C12's
clock-free invariant `QShape` (one timer iff non-empty, strictly increasing `send_after`). -/
theorem C15_queue_flush_total {d : CState (ρ₀ × Route.RState)} (hI : CFInv lower ettl I₀ d) (delay : Bool) (now : Ms) :
    ∃ d' pks, flushStep lower d delay now = .ok (d', pks) ∧ CFInv lower ettl I₀ d' :=
  flushStep_ok lower ettl I₀ hI delay now

/-- **Survival, every history, all three packet-building timer blocks inside the quantifier** (`_partial`).  Over the
composite whose residue is C12's reply model: assumptions left are `BaseOK` (user `RecordUpdateListener`s, waking lookup
futures, `async_notify_all`), the data invariants inside `CFInv` (`RegSafe`, `TypesSafe`,
the lookups' given names) and `hO` for the *residual* blocks (registration API, browser / lookup start and stop, cache purge).
Every finite interleaving of datagram arrivals, deferred-query timers, browser query timers, lookup query transmissions,
queue flushes and residual blocks runs to its end with the invariant in force — or contains a deferred-query timer block for
an address whose timer is not armed at that point. -/
theorem C15_history_all_timers_partial {β : Type} (hB : Route.BaseOK B I₀)
    (other' : CState (ρ₀ × Route.RState) → β → Except PyExc (CState (ρ₀ × Route.RState) × List (COut ω')))
    (hO : ∀ d b, CFInv lower ettl I₀ d → ∃ d' o, other' d b = .ok (d', o) ∧ CFInv lower ettl I₀ d')
    (d0 : CState (ρ₀ × Route.RState)) (h0 : CFInv lower ettl I₀ d0)
    (bs : List (Survive.Block (TimerBlock ⊕ (FlushBlock ⊕ β)))) :
    (∃ s' out, run (Comp.down lower possible ettl (Route.rest lower attrib orc B)) (otherF lower sz other') (State.init d0) bs = .ok (s', out) ∧
        CFInv lower ettl I₀ s'.down ∧ LInv s') ∨
      (∃ pre addr post s1 o1, bs = pre ++ Survive.Block.tcFire addr :: post ∧
        run (Comp.down lower possible ettl (Route.rest lower attrib orc B)) (otherF lower sz other') (State.init d0) pre = .ok (s1, o1) ∧
        alGet addr s1.timers = none) :=
  run_ok' (comp_downOK_F lower possible ettl attrib orc B I₀ textGlue hB) sendOK_safe (otherF lower sz other')
    (otherF_ok lower ettl I₀ sz textGlue other' hO) bs (State.init d0) h0 (LInv.init d0)

end flush

/-- **`_read_bitmap` does linear work per call** (C02 review F5): entered at offset `off` of a datagram of `len` bytes it runs
its `while` loop at most `(len − off)/2 + 1` times and its inner byte loop at most `len − off` times in total, whatever `end` the
rdlength field claims.  Stage C compares both counters with the real code on every `_read_bitmap` call of the fuzz streams. -/
theorem C15_bitmap_work (buf : Bytes) (off end_ : Nat) :
    (DecodeLib.bitmapWork buf off end_).1 ≤ (buf.length - off) / 2 + 1 ∧ (DecodeLib.bitmapWork buf off end_).2 ≤ buf.length - off :=
  DecodeLib.readBitmapC_bound buf end_ (buf.length + 1) { off := off }

/-- the full-strength statement of DESIGN §7 (no hypotheses on the downstream components): not proved
here — it needs the C03/C05/C06/C04/C12 models composed into one `Down` instance. -/
def C15_total_full (D : Down σ ω) (I : σ → Prop) : Prop :=
  ∀ s, I s.down → LInv s → ∀ data addr port now draw,
    ∃ s' out tag, recv D s data addr port now draw = .ok (s', out, tag) ∧ I s'.down ∧ LInv s'

/-! ### non-vacuity -/

/-- a registry record (`ha.local. A 10.0.0.1`, cache-flush, TTL 120) and a downstream that answers
every query with it, by unicast and by immediate multicast -/
def exRec : Encode.ERecord := ⟨[[104, 97], [108, 111, 99, 97, 108]], 1, 1, true, 120, 0, .addr [10, 0, 0, 1]⟩

def exDown : Down Unit String where
  ingest s _ := .ok (s, ["R"])
  hasEntries _ := true
  answer s _ _ := .ok (s, some ⟨⟨[exRec], []⟩, ⟨[exRec], []⟩, false, false⟩)
  enqueue s _ _ := (s, [])

/-- `DownOK` is satisfiable by a downstream that really answers -/
example : DownOK exDown (fun _ => True) QASafe :=
  ⟨fun d _ _ _ => ⟨d, ["R"], rfl, trivial⟩,
   fun d _ _ _ _ _ => ⟨d, _, rfl, trivial, by
     intro q hq
     cases hq
     exact ⟨⟨by decide, by decide⟩, ⟨by decide, by decide⟩⟩⟩,
   fun _ _ _ _ => trivial⟩

/-- and on it a legacy-unicast query (port 40000, question `?_a._tcp.local PTR`) is answered inside
the block by one unicast datagram carrying the echoed question, plus one multicast -/
example : (match recv exDown (State.init ()) ([0, 7, 0, 0, 0, 1, 0, 0, 0, 0, 0, 0] ++
      [2, 95, 97, 4, 95, 116, 99, 112, 5, 108, 111, 99, 97, 108, 0, 0, 12, 0, 1]) "10.9.9.9" 40000 1000 0 with
    | .ok (_, [Out.unicast _ 40000 [pk], Out.multicast [_]], .responded 1) => pk.take 6 == [0, 7, 0x84, 0, 0, 1]
    | _ => false) = true := by decide +kernel

/-- the invariant is not empty: a state with a deferred packet and its armed timer satisfies `LInv` -/
example : ∃ k : Pkt, PktOK k ∧ LInv (σ := Unit) ⟨none, 0, none, [("10.0.0.9", [k])], [("10.0.0.9", ⟨450, 5353⟩)], ()⟩ := by
  obtain ⟨p, _, hk⟩ := parse_pkt [0, 0, 2, 0, 0, 0, 0, 0, 0, 0, 0, 0] 0 (by decide)
  refine ⟨_, hk, ⟨?_, ?_⟩⟩
  · intro a t ht
    by_cases ha : "10.0.0.9" = a
    · subst ha; exact ⟨⟨[0, 0, 2, 0, 0, 0, 0, 0, 0, 0, 0, 0], 0, p, none⟩, [], by simp [alGet]⟩
    · simp [alGet, ha] at ht
  · intro q hq k' hk'
    simp at hq; subst hq
    simp at hk'; subst hk'
    exact hk

end Zc
