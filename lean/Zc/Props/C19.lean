import Zc.Model.Name
import Zc.Model.Txt
/-! # C19 — service names are validated per RFC 6763 and TXT properties round-trip (placeholder; theorems follow) -/
namespace Zc
end Zc
