import Zc.Proofs.Name
import Zc.Proofs.Txt
/-! # C19 — service names are validated per RFC 6763 and TXT properties round-trip

*Names.*  `Name.serviceTypeName` is the statement-by-statement model of
`_utils/name.py: service_type_name` (its numeric tests and its four regular expressions are
read from the working tree by the translator on every run); `Name.Spec.Accepts strict s t`
is the documented grammar, written independently as "`s` is a concatenation of one of the
documented forms and `t` is its service type" (`Zc/Model/NameSpec.lean`).  The theorems
hold for **every** string (list of Unicode scalar values) and both modes.

*TXT.*  `Txt.encode` / `Txt.decodeLib` model `ServiceInfo._set_properties` /
`_unpack_text_into_properties`; `Txt.Spec.parse` is an independent RFC 6763 §6 reader.
The round-trip theorems hold for **every** dictionary that satisfies RFC 6763 §6.4
(`WFProps`); outside it the exact behaviour is characterised by the error-branch lemmas. -/
namespace Zc
open Zc.Name Zc.Name.Spec

/-! ## Names -/

private theorem valid_inv {strict : Bool} {s t : Str} (h : Valid strict s t) :
    (∃ svc tr, tr ∈ protoTrailers ∧ SvcLabel strict svc ∧ s = svc ++ tr ∧ t = svc ++ tr)
    ∨ (∃ p svc tr, tr ∈ protoTrailers ∧ SvcLabel strict svc ∧ p ≠ [] ∧ PrefixOk p ∧ s = (p ++ '.' :: svc) ++ tr ∧ t = svc ++ tr)
    ∨ (strict = false ∧ ∃ p, (∀ tr ∈ protoTrailers, ¬ tr <:+ s) ∧ PrefixOk p ∧ s = p ++ localTrailer ∧ t = localType) := by
  cases h with
  | service a b => exact Or.inl ⟨_, _, a, b, rfl, rfl⟩
  | prefixed a b c d => exact Or.inr (Or.inl ⟨_, _, _, a, b, c, d, by simp, rfl⟩)
  | bareLocal a b c => exact Or.inr (Or.inr ⟨a, _, b, c, rfl, rfl⟩)

private theorem split_trailer {a b tr tr' : Str} (h1 : tr ∈ protoTrailers) (h2 : tr' ∈ protoTrailers) (h : a ++ tr = b ++ tr') :
    a = b ∧ tr = tr' :=
  List.append_inj' h (by rw [proto_length h1, proto_length h2])

/-- **The validator accepts exactly the documented forms and returns the service type.**
For every string `s`, both modes and every `t`: `service_type_name(s, strict=strict)` returns `t`
if and only if `s` is at most 256 characters long and is `<service>._tcp|_udp.local.`,
`<Instance>.<service>.…` or `<sub>._sub.<service>.…` (non-strict: also a bare `….local.`) under the
documented rules, with `t` its service type. -/
theorem C19_validate_spec (s : Str) (strict : Bool) (t : Str) :
    serviceTypeName s strict = .ok t ↔ Accepts strict s t := by
  by_cases hlen : s.length ≤ 256
  case neg =>
    rw [serviceTypeName_long s strict (by omega)]
    constructor
    · intro h; cases h
    · rintro ⟨h, _⟩; exact absurd h hlen
  by_cases hp : ∃ tr ∈ protoTrailers, tr <:+ s
  · obtain ⟨tr, htr, body, hs⟩ := hp
    rw [serviceTypeName_proto s body tr strict hlen htr hs.symm]
    rcases exists_last_dot body with hd | ⟨q, l, hb, hl⟩
    · rw [withService_no_dot strict body tr hd]
      constructor
      · intro h
        split at h
        · rename_i hsvc; injection h with h; subst h
          exact ⟨hlen, by rw [← hs]; exact Valid.service htr hsvc⟩
        · cases h
      · rintro ⟨_, hv⟩
        rcases valid_inv hv with ⟨svc, tr', h1, h2, h3, h4⟩ | ⟨p, svc, tr', h1, h2, _, _, h3, _⟩ | ⟨_, p, h1, _⟩
        · obtain ⟨rfl, rfl⟩ := split_trailer htr h1 (hs.trans h3)
          rw [if_pos h2, h4]
        · obtain ⟨rfl, _⟩ := split_trailer htr h1 (hs.trans h3)
          exact absurd (by simp) hd
        · exact absurd ⟨body, hs⟩ (h1 tr htr)
    · subst hb
      rw [withService_dot strict q l tr hl]
      constructor
      · intro h
        split at h
        · rename_i hc; injection h with h; subst h
          refine ⟨hlen, ?_⟩
          have := Valid.prefixed htr hc.2.1 hc.1 hc.2.2
          rw [← hs]; simpa using this
        · cases h
      · rintro ⟨_, hv⟩
        rcases valid_inv hv with ⟨svc, tr', h1, h2, h3, h4⟩ | ⟨p, svc, tr', h1, h2, h5, h6, h3, h4⟩ | ⟨_, p, h1, _⟩
        · obtain ⟨rfl, rfl⟩ := split_trailer htr h1 (hs.trans h3)
          exact absurd (by simp) (svcLabel_no_dot h2)
        · obtain ⟨hb, rfl⟩ := split_trailer htr h1 (hs.trans h3)
          obtain ⟨rfl, rfl⟩ := last_dot_unique hl (svcLabel_no_dot h2) hb
          rw [if_pos ⟨h5, h2, h6⟩, h4]
        · exact absurd ⟨q ++ '.' :: l, hs⟩ (h1 tr htr)
  · have noProto : ∀ {t}, Valid strict s t → strict = false ∧ ∃ p, PrefixOk p ∧ s = p ++ localTrailer ∧ t = localType := by
      intro t hv
      rcases valid_inv hv with ⟨svc, tr', h1, _, h3, _⟩ | ⟨p, svc, tr', h1, _, _, _, h3, _⟩ | ⟨h0, p, _, h2, h3, h4⟩
      · exact absurd ⟨tr', h1, svc, h3.symm⟩ hp
      · exact absurd ⟨tr', h1, _, h3.symm⟩ hp
      · exact ⟨h0, p, h2, h3, h4⟩
    cases strict with
    | true =>
      rw [serviceTypeName_strict_noproto s hlen hp]
      constructor
      · intro h; cases h
      · rintro ⟨_, hv⟩; have := (noProto hv).1; cases this
    | false =>
      by_cases hl : localTrailer <:+ s
      · obtain ⟨p, rfl⟩ := hl
        rw [serviceTypeName_bare p hlen hp, finish_splitDot]
        constructor
        · intro h
          split at h
          · rename_i hc; injection h with h; subst h
            exact ⟨hlen, Valid.bareLocal rfl (fun tr htr hsuf => hp ⟨tr, htr, hsuf⟩) hc⟩
          · cases h
        · rintro ⟨_, hv⟩
          obtain ⟨_, p', h2, h3, h4⟩ := noProto hv
          have := List.append_cancel_right h3
          subst this
          rw [if_pos h2, h4]
      · rw [serviceTypeName_nolocal s hlen hp hl]
        constructor
        · intro h; cases h
        · rintro ⟨_, hv⟩
          obtain ⟨_, p', _, h3, _⟩ := noProto hv
          exact absurd ⟨p', h3.symm⟩ hl

/-- **Everything else is rejected with `BadTypeInNameException` and no other error** (in particular
never `IndexError`: the model's indexing `s[0]`, `s[-1]`, `pop()` are partial operations) -/
theorem C19_only_badtype (s : Str) (strict : Bool) (e : PyExc) (h : serviceTypeName s strict = .error e) :
    e = .badType := by
  have fin : ∀ {c : Prop} {_ : Decidable c} {t : Str}, (if c then Except.ok t else Except.error PyExc.badType) = Except.error e → e = .badType := by
    intro c _ t h; split at h
    · cases h
    · injection h with h; exact h.symm
  by_cases hlen : s.length ≤ 256
  case neg => rw [serviceTypeName_long s strict (by omega)] at h; injection h with h; exact h.symm
  by_cases hp : ∃ tr ∈ protoTrailers, tr <:+ s
  · obtain ⟨tr, htr, body, hs⟩ := hp
    rw [serviceTypeName_proto s body tr strict hlen htr hs.symm] at h
    rcases exists_last_dot body with hd | ⟨q, l, hb, hl⟩
    · rw [withService_no_dot strict body tr hd] at h; exact fin h
    · subst hb; rw [withService_dot strict q l tr hl] at h; exact fin h
  · cases strict with
    | true => rw [serviceTypeName_strict_noproto s hlen hp] at h; injection h with h; exact h.symm
    | false =>
      by_cases hl : localTrailer <:+ s
      · obtain ⟨p, rfl⟩ := hl
        rw [serviceTypeName_bare p hlen hp, finish_splitDot] at h; exact fin h
      · rw [serviceTypeName_nolocal s hlen hp hl] at h; injection h with h; exact h.symm

/-- acceptance and rejection are the only outcomes: a name is of a documented form, or the call raises
`BadTypeInNameException` -/
theorem C19_accept_or_badtype (s : Str) (strict : Bool) :
    (∃ t, serviceTypeName s strict = .ok t ∧ Accepts strict s t) ∨
    (serviceTypeName s strict = .error .badType ∧ ∀ t, ¬ Accepts strict s t) := by
  match h : serviceTypeName s strict with
  | .ok t => exact Or.inl ⟨t, rfl, (C19_validate_spec s strict t).1 h⟩
  | .error e =>
    right
    refine ⟨by rw [C19_only_badtype s strict e h], fun t ht => ?_⟩
    rw [(C19_validate_spec s strict t).2 ht] at h; cases h

/-- the service type is determined by the name -/
theorem C19_type_unique (s : Str) (strict : Bool) (t t' : Str) (h : Accepts strict s t) (h' : Accepts strict s t') : t = t' := by
  have a := (C19_validate_spec s strict t).2 h
  have b := (C19_validate_spec s strict t').2 h'
  rw [a] at b; injection b

/-- the returned service type is the tail of the name: `<service>.<proto>.local.`, or `local.` for the bare form -/
theorem C19_type_is_suffix (s : Str) (strict : Bool) (t : Str) (h : Accepts strict s t) : t <:+ s := by
  rcases valid_inv h.2 with ⟨svc, tr, _, _, h3, h4⟩ | ⟨p, svc, tr, _, _, _, _, h3, h4⟩ | ⟨_, p, _, _, h3, h4⟩
  · rw [h3, h4]; exact List.suffix_refl _
  · rw [h3, h4]; exact ⟨p ++ ['.'], by simp⟩
  · rw [h3, h4]; exact ⟨p ++ ['.'], by simp [localTrailer, localType]⟩

/-- strict mode only removes names: whatever strict mode accepts, non-strict mode accepts with the same type -/
theorem C19_strict_implies_nonstrict (s t : Str) (h : Accepts true s t) : Accepts false s t := by
  have svc : ∀ {l}, SvcLabel true l → SvcLabel false l := by
    rintro l ⟨b, rfl, hb⟩
    refine ⟨b, rfl, hb.nonempty, fun c hc => ?_, hb.noLeadingHyphen, hb.noTrailingHyphen, hb.noDoubleHyphen, hb.hasLetter, fun h => by cases h⟩
    rcases hb.chars c hc with h | h | h | ⟨h, _⟩
    · exact Or.inl h
    · exact Or.inr (Or.inl h)
    · exact Or.inr (Or.inr (Or.inl h))
    · cases h
  refine ⟨h.1, ?_⟩
  rcases valid_inv h.2 with ⟨svc', tr, h1, h2, h3, h4⟩ | ⟨p, svc', tr, h1, h2, h5, h6, h3, h4⟩ | ⟨h0, _⟩
  · rw [h3, h4]; exact Valid.service h1 (svc h2)
  · rw [h3, h4]; simpa using Valid.prefixed h1 (svc h2) h5 h6
  · cases h0

/-- the `ServiceInfo` constructor (info.py:183-184) accepts `(type_, name)` exactly when `name` is a valid
non-strict name whose service type is the tail of `type_`; otherwise `BadTypeInNameException`, nothing else -/
theorem C19_constructor (type_ name : Str) :
    (ctorCheck type_ name = .ok () ↔ ∃ t, Accepts false name t ∧ t <:+ type_)
    ∧ (∀ e, ctorCheck type_ name = .error e → e = .badType) := by
  cases h : serviceTypeName name false with
  | ok t =>
    have ht := (C19_validate_spec name false t).1 h
    have hc : ctorCheck type_ name = if t <:+ type_ then .ok () else .error .badType := by simp only [ctorCheck, h]
    rw [hc]
    constructor
    · constructor
      · intro h2; split at h2
        · rename_i hs; exact ⟨t, ht, hs⟩
        · cases h2
      · rintro ⟨t', ht', hs⟩
        rw [C19_type_unique name false t' t ht' ht] at hs
        rw [if_pos hs]
    · intro e h2; split at h2
      · cases h2
      · injection h2 with h2; exact h2.symm
  | error e =>
    have hc : ctorCheck type_ name = .error e := by simp only [ctorCheck, h]
    rw [hc]
    constructor
    · constructor
      · intro h2; cases h2
      · rintro ⟨t', ht', _⟩
        rw [(C19_validate_spec name false t').2 ht'] at h; cases h
    · intro e' h2; injection h2 with h2; rw [← h2]; exact C19_only_badtype name false e h

/-! ### the two repaired defects, on the model (which follows the working tree) -/

/-- D9: a service label that is only an underscore is *rejected with `BadTypeInNameException`*
(the unrepaired tree raised `IndexError` here) -/
example : serviceTypeName "_._tcp.local.".toList true = .error .badType := by rfl
example : serviceTypeName "x._._udp.local.".toList false = .error .badType := by rfl

/-- D10: a newline after the service label is rejected (the unrepaired `…+$` accepted it) -/
example : serviceTypeName "_ab\n._tcp.local.".toList true = .error .badType := by rfl
example : ∀ t, ¬ Accepts false "_ab\n._tcp.local.".toList t := fun t h => by
  have := (C19_validate_spec _ _ _).2 h
  exact absurd this (by rw [show serviceTypeName "_ab\n._tcp.local.".toList false = .error .badType from rfl]; intro h; cases h)

/-- the mechanism of D10: Python's `$` matches before a final newline, `\Z` does not -/
theorem C19_dollar_matches_before_newline :
    reSearch ⟨true, [(97, 122)], true, .dollar⟩ ['a', 'b', '\n'] = true
    ∧ reSearch ⟨true, [(97, 122)], true, .absZ⟩ ['a', 'b', '\n'] = false := by decide

/-! ### non-vacuity: every documented form is inhabited, in both modes -/

example : Accepts true "_http._tcp.local.".toList "_http._tcp.local.".toList := (C19_validate_spec _ _ _).1 rfl
example : Accepts true "My Printer.Büro._ipp._tcp.local.".toList "_ipp._tcp.local.".toList := (C19_validate_spec _ _ _).1 rfl
example : Accepts true "_printer._sub._http._udp.local.".toList "_http._udp.local.".toList := (C19_validate_spec _ _ _).1 rfl
example : Accepts false "_my_long_service_name_x._tcp.local.".toList "_my_long_service_name_x._tcp.local.".toList :=
  (C19_validate_spec _ _ _).1 rfl
example : ∀ t, ¬ Accepts true "_my_long_service_name_x._tcp.local.".toList t := fun t h => by
  have := (C19_validate_spec _ _ _).2 h
  exact absurd this (by rw [show serviceTypeName "_my_long_service_name_x._tcp.local.".toList true = .error .badType from rfl]; intro h; cases h)
example : Accepts false "host.local.".toList "local.".toList := (C19_validate_spec _ _ _).1 rfl
example : Accepts false ".local.".toList "local.".toList := (C19_validate_spec _ _ _).1 rfl

end Zc
