import Zc.Proofs.Name
import Zc.Proofs.Txt
import Zc.Proofs.TxtEntry
/-! # C19 — service names are validated per RFC 6763 and TXT properties round-trip

*Names.*  `Name.serviceTypeName` is the statement-by-statement model of
`_utils/name.py: service_type_name` (its numeric tests and its four regular expressions are
read from the working tree by the translator on every run); `Name.Spec.Accepts strict s t`
is the documented grammar, written independently as "`s` is a concatenation of one of the
documented forms and `t` is its service type" (`Zc/Model/NameSpec.lean`).  The theorems
hold for **every** string (list of Unicode scalar values) and both modes.

*TXT.*  `Txt.encode` / `Txt.decodeLib` model `ServiceInfo._set_properties` /
`_unpack_text_into_properties`; `Txt.Spec.parse` is an independent RFC 6763 §6 reader.
The whole-dictionary round-trip theorems (`…_partial`) hold for every dictionary without `=` in a key and
with keys distinct after encoding (`WFProps`; this is *weaker* than RFC 6763 §6.4, which also wants
non-empty keys, distinct up to ASCII case: that is `WFPropsRfc`, needed for the RFC reader).  Outside
them: `C19_txt_wire_transparent` (what both readers see, no hypothesis) and `C19_txt_entry_roundtrip`
(entry by entry: a forbidden entry spoils only its own key and the key it is split into).
`str`s are Unicode text throughout; a `str` with a lone surrogate is rejected with `UnicodeEncodeError`
(`C19_txt_unicode_error_iff`, a finding).  `.properties` is compared when the object is built: for an
all-bytes dictionary it is the caller's own object (`C19_txt_alias`, a reading). -/
namespace Zc
open Zc.Name Zc.Name.Spec

/-! ## Names -/

/-- **The validator accepts exactly the documented forms and returns the service type.**
For every string `s`, both modes and every `t`: `service_type_name(s, strict=strict)` returns `t`
if and only if `s` is at most 256 characters long and is `<service>._tcp|_udp.local.`,
`<Instance>.<service>.…` or `<sub>._sub.<service>.…` (non-strict: also a bare `….local.`) under the
documented rules, with `t` its service type. -/
theorem C19_validate_spec (s : Str) (strict : Bool) (t : Str) :
    serviceTypeName s strict = .ok t ↔ Accepts strict s t := by
  by_cases hlen : s.length ≤ 256
  case neg =>
    rw [serviceTypeName_long s strict (by omega)]
    constructor
    · intro h; cases h
    · rintro ⟨h, _⟩; exact absurd h hlen
  by_cases hp : ∃ tr ∈ protoTrailers, tr <:+ s
  · obtain ⟨tr, htr, body, hs⟩ := hp
    rw [serviceTypeName_proto s body tr strict hlen htr hs.symm]
    rcases exists_last_dot body with hd | ⟨q, l, hb, hl⟩
    · rw [withService_no_dot strict body tr hd]
      constructor
      · intro h
        split at h
        · rename_i hsvc; injection h with h; subst h
          exact ⟨hlen, by rw [← hs]; exact Valid.service htr hsvc⟩
        · cases h
      · rintro ⟨_, hv⟩
        rcases valid_inv hv with ⟨svc, tr', h1, h2, h3, h4⟩ | ⟨p, svc, tr', h1, h2, _, _, h3, _⟩ | ⟨_, p, h1, _⟩
        · obtain ⟨rfl, rfl⟩ := split_trailer htr h1 (hs.trans h3)
          rw [if_pos h2, h4]
        · obtain ⟨rfl, _⟩ := split_trailer htr h1 (hs.trans h3)
          exact absurd (by simp) hd
        · exact absurd ⟨body, hs⟩ (h1 tr htr)
    · subst hb
      rw [withService_dot strict q l tr hl]
      constructor
      · intro h
        split at h
        · rename_i hc; injection h with h; subst h
          refine ⟨hlen, ?_⟩
          have := Valid.prefixed htr hc.2.1 hc.1 hc.2.2
          rw [← hs]; simpa using this
        · cases h
      · rintro ⟨_, hv⟩
        rcases valid_inv hv with ⟨svc, tr', h1, h2, h3, h4⟩ | ⟨p, svc, tr', h1, h2, h5, h6, h3, h4⟩ | ⟨_, p, h1, _⟩
        · obtain ⟨rfl, rfl⟩ := split_trailer htr h1 (hs.trans h3)
          exact absurd (by simp) (svcLabel_no_dot h2)
        · obtain ⟨hb, rfl⟩ := split_trailer htr h1 (hs.trans h3)
          obtain ⟨rfl, rfl⟩ := last_dot_unique hl (svcLabel_no_dot h2) hb
          rw [if_pos ⟨h5, h2, h6⟩, h4]
        · exact absurd ⟨q ++ '.' :: l, hs⟩ (h1 tr htr)
  · have noProto : ∀ {t}, Valid strict s t → strict = false ∧ ∃ p, PrefixOk p ∧ s = p ++ localTrailer ∧ t = localType := by
      intro t hv
      rcases valid_inv hv with ⟨svc, tr', h1, _, h3, _⟩ | ⟨p, svc, tr', h1, _, _, _, h3, _⟩ | ⟨h0, p, _, h2, h3, h4⟩
      · exact absurd ⟨tr', h1, svc, h3.symm⟩ hp
      · exact absurd ⟨tr', h1, _, h3.symm⟩ hp
      · exact ⟨h0, p, h2, h3, h4⟩
    cases strict with
    | true =>
      rw [serviceTypeName_strict_noproto s hlen hp]
      constructor
      · intro h; cases h
      · rintro ⟨_, hv⟩; have := (noProto hv).1; cases this
    | false =>
      by_cases hl : localTrailer <:+ s
      · obtain ⟨p, rfl⟩ := hl
        rw [serviceTypeName_bare p hlen hp, finish_splitDot]
        constructor
        · intro h
          split at h
          · rename_i hc; injection h with h; subst h
            exact ⟨hlen, Valid.bareLocal rfl (fun tr htr hsuf => hp ⟨tr, htr, hsuf⟩) hc⟩
          · cases h
        · rintro ⟨_, hv⟩
          obtain ⟨_, p', h2, h3, h4⟩ := noProto hv
          have := List.append_cancel_right h3
          subst this
          rw [if_pos h2, h4]
      · rw [serviceTypeName_nolocal s hlen hp hl]
        constructor
        · intro h; cases h
        · rintro ⟨_, hv⟩
          obtain ⟨_, p', _, h3, _⟩ := noProto hv
          exact absurd ⟨p', h3.symm⟩ hl

/-- **Everything else is rejected with `BadTypeInNameException` and no other error** (in particular
never `IndexError`: the model's indexing `s[0]`, `s[-1]`, `pop()` are partial operations).

`_partial`: proved for every string of Unicode scalar values (`List Char`), i.e. every `str` that is Unicode
text.  Missing: a Python `str` can also hold lone surrogates, which `Char` cannot represent.  There the code used
to raise `UnicodeEncodeError` from `remaining[0].encode('utf-8')`; since the repair b0b9659 (try/except around that
`encode`, name.py:155-158) it raises `BadTypeInNameException`.  That branch has no counterpart in the model
(`checkInst` cannot fail to encode); it is guarded only by the harness's surrogate streams (stage O, signature
`C19:name-raises-UnicodeEncodeError:lone-surrogate`).  The same domain restriction applies to every theorem of this file. -/
theorem C19_only_badtype_partial (s : Str) (strict : Bool) (e : PyExc) (h : serviceTypeName s strict = .error e) :
    e = .badType := by
  have fin : ∀ {c : Prop} {_ : Decidable c} {t : Str}, (if c then Except.ok t else Except.error PyExc.badType) = Except.error e → e = .badType := by
    intro c _ t h; split at h
    · cases h
    · injection h with h; exact h.symm
  by_cases hlen : s.length ≤ 256
  case neg => rw [serviceTypeName_long s strict (by omega)] at h; injection h with h; exact h.symm
  by_cases hp : ∃ tr ∈ protoTrailers, tr <:+ s
  · obtain ⟨tr, htr, body, hs⟩ := hp
    rw [serviceTypeName_proto s body tr strict hlen htr hs.symm] at h
    rcases exists_last_dot body with hd | ⟨q, l, hb, hl⟩
    · rw [withService_no_dot strict body tr hd] at h; exact fin h
    · subst hb; rw [withService_dot strict q l tr hl] at h; exact fin h
  · cases strict with
    | true => rw [serviceTypeName_strict_noproto s hlen hp] at h; injection h with h; exact h.symm
    | false =>
      by_cases hl : localTrailer <:+ s
      · obtain ⟨p, rfl⟩ := hl
        rw [serviceTypeName_bare p hlen hp, finish_splitDot] at h; exact fin h
      · rw [serviceTypeName_nolocal s hlen hp hl] at h; injection h with h; exact h.symm

/-- acceptance and rejection are the only outcomes: a name is of a documented form, or the call raises
`BadTypeInNameException` -/
theorem C19_accept_or_badtype (s : Str) (strict : Bool) :
    (∃ t, serviceTypeName s strict = .ok t ∧ Accepts strict s t) ∨
    (serviceTypeName s strict = .error .badType ∧ ∀ t, ¬ Accepts strict s t) := by
  match h : serviceTypeName s strict with
  | .ok t => exact Or.inl ⟨t, rfl, (C19_validate_spec s strict t).1 h⟩
  | .error e =>
    right
    refine ⟨by rw [C19_only_badtype_partial s strict e h], fun t ht => ?_⟩
    rw [(C19_validate_spec s strict t).2 ht] at h; cases h

/-- the service type is determined by the name -/
theorem C19_type_unique (s : Str) (strict : Bool) (t t' : Str) (h : Accepts strict s t) (h' : Accepts strict s t') : t = t' := by
  have a := (C19_validate_spec s strict t).2 h
  have b := (C19_validate_spec s strict t').2 h'
  rw [a] at b; injection b

/-- the returned service type is the tail of the name: `<service>.<proto>.local.`, or `local.` for the bare form -/
theorem C19_type_is_suffix (s : Str) (strict : Bool) (t : Str) (h : Accepts strict s t) : t <:+ s := by
  rcases valid_inv h.2 with ⟨svc, tr, _, _, h3, h4⟩ | ⟨p, svc, tr, _, _, _, _, h3, h4⟩ | ⟨_, p, _, _, h3, h4⟩
  · rw [h3, h4]; exact List.suffix_refl _
  · rw [h3, h4]; exact ⟨p ++ ['.'], by simp⟩
  · rw [h3, h4]; exact ⟨p ++ ['.'], by simp [localTrailer, localType]⟩

/-- strict mode only removes names: whatever strict mode accepts, non-strict mode accepts with the same type -/
theorem C19_strict_implies_nonstrict (s t : Str) (h : Accepts true s t) : Accepts false s t := by
  have svc : ∀ {l}, SvcLabel true l → SvcLabel false l := by
    rintro l ⟨b, rfl, hb⟩
    refine ⟨b, rfl, hb.nonempty, fun c hc => ?_, hb.noLeadingHyphen, hb.noTrailingHyphen, hb.noDoubleHyphen, hb.hasLetter, fun h => by cases h⟩
    rcases hb.chars c hc with h | h | h | ⟨h, _⟩
    · exact Or.inl h
    · exact Or.inr (Or.inl h)
    · exact Or.inr (Or.inr (Or.inl h))
    · cases h
  refine ⟨h.1, ?_⟩
  rcases valid_inv h.2 with ⟨svc', tr, h1, h2, h3, h4⟩ | ⟨p, svc', tr, h1, h2, h5, h6, h3, h4⟩ | ⟨h0, _⟩
  · rw [h3, h4]; exact Valid.service h1 (svc h2)
  · rw [h3, h4]; simpa using Valid.prefixed h1 (svc h2) h5 h6
  · cases h0

/-- the `ServiceInfo` constructor (info.py:183-184) accepts `(type_, name)` exactly when `name` is a valid
non-strict name whose service type is the tail of `type_`; otherwise `BadTypeInNameException`, nothing else -/
theorem C19_constructor (type_ name : Str) :
    (ctorCheck type_ name = .ok () ↔ ∃ t, Accepts false name t ∧ t <:+ type_)
    ∧ (∀ e, ctorCheck type_ name = .error e → e = .badType) := by
  cases h : serviceTypeName name false with
  | ok t =>
    have ht := (C19_validate_spec name false t).1 h
    have hc : ctorCheck type_ name = if t <:+ type_ then .ok () else .error .badType := by simp only [ctorCheck, h]
    rw [hc]
    constructor
    · constructor
      · intro h2; split at h2
        · rename_i hs; exact ⟨t, ht, hs⟩
        · cases h2
      · rintro ⟨t', ht', hs⟩
        rw [C19_type_unique name false t' t ht' ht] at hs
        rw [if_pos hs]
    · intro e h2; split at h2
      · cases h2
      · injection h2 with h2; exact h2.symm
  | error e =>
    have hc : ctorCheck type_ name = .error e := by simp only [ctorCheck, h]
    rw [hc]
    constructor
    · constructor
      · intro h2; cases h2
      · rintro ⟨t', ht', _⟩
        rw [(C19_validate_spec name false t').2 ht'] at h; cases h
    · intro e' h2; injection h2 with h2; rw [← h2]; exact C19_only_badtype_partial name false e h

/-! ### the two repaired defects, on the model (which follows the working tree) -/

/-- D9: a service label that is only an underscore is *rejected with `BadTypeInNameException`*
(the unrepaired tree raised `IndexError` here) -/
example : serviceTypeName "_._tcp.local.".toList true = .error .badType := by rfl
example : serviceTypeName "x._._udp.local.".toList false = .error .badType := by rfl

/-- D10: a newline after the service label is rejected (the unrepaired `…+$` accepted it) -/
example : serviceTypeName "_ab\n._tcp.local.".toList true = .error .badType := by rfl
example : ∀ t, ¬ Accepts false "_ab\n._tcp.local.".toList t := fun t h => by
  have := (C19_validate_spec _ _ _).2 h
  exact absurd this (by rw [show serviceTypeName "_ab\n._tcp.local.".toList false = .error .badType from rfl]; intro h; cases h)

/-- the mechanism of D10: Python's `$` matches before a final newline, `\Z` does not -/
theorem C19_dollar_matches_before_newline :
    reSearch ⟨true, [(97, 122)], true, .dollar⟩ ['a', 'b', '\n'] = true
    ∧ reSearch ⟨true, [(97, 122)], true, .absZ⟩ ['a', 'b', '\n'] = false := by decide

/-! ### non-vacuity: every documented form is inhabited, in both modes -/

example : Accepts true "_http._tcp.local.".toList "_http._tcp.local.".toList := (C19_validate_spec _ _ _).1 rfl
example : Accepts true "My Printer.Büro._ipp._tcp.local.".toList "_ipp._tcp.local.".toList := (C19_validate_spec _ _ _).1 rfl
example : Accepts true "_printer._sub._http._udp.local.".toList "_http._udp.local.".toList := (C19_validate_spec _ _ _).1 rfl
example : Accepts false "_my_long_service_name_x._tcp.local.".toList "_my_long_service_name_x._tcp.local.".toList :=
  (C19_validate_spec _ _ _).1 rfl
example : ∀ t, ¬ Accepts true "_my_long_service_name_x._tcp.local.".toList t := fun t h => by
  have := (C19_validate_spec _ _ _).2 h
  exact absurd this (by rw [show serviceTypeName "_my_long_service_name_x._tcp.local.".toList true = .error .badType from rfl]; intro h; cases h)
example : Accepts false "host.local.".toList "local.".toList := (C19_validate_spec _ _ _).1 rfl
example : Accepts false ".local.".toList "local.".toList := (C19_validate_spec _ _ _).1 rfl

/-! ### non-vacuity of `C19_constructor` -/

example : ctorCheck "_http._tcp.local.".toList "foo._http._tcp.local.".toList = .ok () := by rfl
/-- a valid name whose service type is not the tail of `type_` -/
example : ctorCheck "_ipp._tcp.local.".toList "foo._http._tcp.local.".toList = .error .badType := by rfl
/-- the test is `endswith`: a longer `type_` passes -/
example : ctorCheck "_printer._sub._http._tcp.local.".toList "foo._http._tcp.local.".toList = .ok () := by rfl
example : ctorCheck "local.".toList "host.local.".toList = .ok () := by rfl

/-! ### readings the English sentence leaves open, as the (repaired) code and `Spec` fix them

`<Instance>` may contain dots anywhere, even leading or trailing ones, but is not empty when a dot precedes the
service label; `<sub>` is non-empty and does not start with a dot, but is otherwise free; a prefix that is exactly
`_sub` is rejected; the bare `.local.` form accepts the empty prefix.  `Spec`, the model and the harness oracle share
this reading (it is the code's), so these are pinned here as named facts rather than discovered by disagreement. -/

example : Accepts true ".._a._tcp.local.".toList "_a._tcp.local.".toList := (C19_validate_spec _ _ _).1 rfl
example : Accepts true ".a._x._tcp.local.".toList "_x._tcp.local.".toList := (C19_validate_spec _ _ _).1 rfl
example : Accepts true "a.._x._tcp.local.".toList "_x._tcp.local.".toList := (C19_validate_spec _ _ _).1 rfl
example : Accepts true "x.._sub._a._tcp.local.".toList "_a._tcp.local.".toList := (C19_validate_spec _ _ _).1 rfl
example : Accepts true "a._sub._sub._a._tcp.local.".toList "_a._tcp.local.".toList := (C19_validate_spec _ _ _).1 rfl
example : serviceTypeName "._a._tcp.local.".toList true = .error .badType := by rfl
example : serviceTypeName "_sub._a._tcp.local.".toList true = .error .badType := by rfl
example : serviceTypeName "._sub._a._tcp.local.".toList false = .error .badType := by rfl
example : serviceTypeName ".x._sub._a._tcp.local.".toList false = .error .badType := by rfl
/-- characters that only *case-map* to ASCII are not letters of the service-name alphabet (review F1):
KELVIN SIGN U+212A, LATIN SMALL LETTER LONG S U+017F -/
example : serviceTypeName "_\u212a._tcp.local.".toList true = .error .badType := by rfl
example : serviceTypeName "_a\u017f._tcp.local.".toList false = .error .badType := by rfl

/-! ## TXT properties -/
open Zc.Txt

/-- RFC 6763 §6.4, what makes a properties dictionary unambiguous as a TXT record: no `=` in a key,
keys distinct (after `str` keys have been encoded), every `key[=value]` item at most 255 bytes -/
structure WFProps (ps : Txt.Props) : Prop where
  noEqInKey : ∀ e ∈ ps, Txt.eqByte ∉ e.1
  distinctKeys : (ps.map (·.1)).Nodup
  itemsFit : ∀ e ∈ ps, (Txt.itemOf e).length ≤ 255

/-- … and, for a reader that follows RFC 6763 §6.4 to the letter (keys are case-insensitive, a string without
a key is ignored): keys non-empty and distinct up to ASCII case -/
structure WFPropsRfc (ps : Txt.Props) : Prop extends WFProps ps where
  keysNonempty : ∀ e ∈ ps, e.1 ≠ []
  distinctFolded : (ps.map (fun e => Txt.Spec.foldKey e.1)).Nodup

/-- The sentence as worded, for *all* dictionaries whose items fit: both readers give back the dictionary.
It is **false** (`C19_txt_roundtrip_all_refuted`): TXT cannot carry a key containing `=`, two keys that encode to the
same bytes, (for an RFC reader) an empty key or keys differing only in ASCII case.  These four classes are reported by
the harness as known findings; the `_partial` theorems below assume exactly their absence (`WFProps`, `WFPropsRfc`), and
`C19_txt_wire_transparent` says what happens for every dictionary without any hypothesis. -/
def C19_txt_roundtrip_all : Prop :=
  ∀ ps : Txt.Props, (∀ e ∈ ps, (Txt.itemOf e).length ≤ 255) →
    ∃ text, Txt.encode ps = .ok text ∧ Txt.decodeLib text = Txt.normalise ps ∧ Txt.Spec.parse text = some ps

/-- **No hypothesis on the dictionary (beyond the 255-byte item limit).**  The length-prefixed framing is transparent for
both readers: the library decode of the encoder's output is "split every item at its first `=`, empty value = none,
first key wins" over the items, and the RFC reader's is "`attr` of every item, first key (case-insensitively) wins". -/
theorem C19_txt_wire_transparent (ps : Txt.Props) (h : ∀ e ∈ ps, (Txt.itemOf e).length ≤ 255) :
    ∃ text, Txt.encode ps = .ok text
      ∧ Txt.decodeLib text = (ps.map Txt.itemOf).foldl (fun d it => Txt.insertNew d (Txt.partitionEq it).1 (Txt.libVal (Txt.partitionEq it).2)) []
      ∧ Txt.Spec.parse text = some (Txt.Spec.firstWins [] ((ps.map Txt.itemOf).filterMap Txt.Spec.attr)) :=
  ⟨_, encode_wf h, decodeLib_encode_general h, parse_encode_general h⟩

theorem C19_txt_refute_of_witness {ps : Txt.Props} (hf : ∀ e ∈ ps, (Txt.itemOf e).length ≤ 255)
    (hbad : (ps.map Txt.itemOf).foldl (fun d it => Txt.insertNew d (Txt.partitionEq it).1 (Txt.libVal (Txt.partitionEq it).2)) [] ≠ Txt.normalise ps
      ∨ Txt.Spec.firstWins [] ((ps.map Txt.itemOf).filterMap Txt.Spec.attr) ≠ ps) : ¬ C19_txt_roundtrip_all := by
  intro hall
  obtain ⟨t, h1, h2, h3⟩ := hall ps hf
  obtain ⟨t', g1, g2, g3⟩ := C19_txt_wire_transparent ps hf
  rw [h1] at g1; injection g1 with g1; subst g1
  rcases hbad with hb | hb
  · exact hb (g2.symm.trans h2)
  · rw [g3] at h3; injection h3 with h3; exact hb h3

/-- `{'a=b': 'c'}`: the library reads `{b'a': b'b=c'}` -/
theorem C19_txt_roundtrip_all_refuted : ¬ C19_txt_roundtrip_all :=
  C19_txt_refute_of_witness (ps := [([97, 61, 98], some [99])]) (by decide) (Or.inl (by decide))

/-- each hypothesis of the `_partial` theorems is needed: two keys with the same bytes (`'a'` and `b'a'`) … -/
theorem C19_txt_colliding_keys_refuted : ¬ C19_txt_roundtrip_all :=
  C19_txt_refute_of_witness (ps := [([97], some [49]), ([97], some [50])]) (by decide) (Or.inl (by decide))

/-- … an empty key (ignored by an RFC 6763 reader, kept by the library) … -/
theorem C19_txt_empty_key_refuted : ¬ C19_txt_roundtrip_all :=
  C19_txt_refute_of_witness (ps := [([], some [120])]) (by decide) (Or.inr (by decide))

/-- … keys that differ only in ASCII case (one attribute for an RFC 6763 reader, two for the library) -/
theorem C19_txt_case_colliding_keys_refuted : ¬ C19_txt_roundtrip_all :=
  C19_txt_refute_of_witness (ps := [([97], some [49]), ([65], some [50])]) (by decide) (Or.inr (by decide))

/-- **Library round trip.**  For every well-formed dictionary, `_set_properties` succeeds and decoding the resulting
TXT bytes with `_unpack_text_into_properties` gives back the same keys, in order, with the same values — an empty
value read back as no value.

`_partial`: `WFProps` (no `=` in a key, keys distinct after encoding) is not in the English quantifier; without it the
sentence is false (`C19_txt_roundtrip_all_refuted`, `C19_txt_colliding_keys_refuted`). -/
theorem C19_txt_roundtrip_library_partial (ps : Txt.Props) (h : WFProps ps) :
    ∃ text, Txt.encode ps = .ok text ∧ Txt.decodeLib text = Txt.normalise ps :=
  ⟨_, encode_wf h.itemsFit, decodeLib_wire h.noEqInKey h.distinctKeys h.itemsFit⟩

/-- **Independent RFC 6763 §6 reader.**  The same bytes, read by a parser written from the RFC (length-prefixed
strings, first `=` separates key and value, no `=` means "present without value", empty value kept, keys
case-insensitive, first occurrence wins), give back exactly the dictionary — empty values included.

`_partial`: additionally needs non-empty keys, distinct up to ASCII case (`C19_txt_empty_key_refuted`,
`C19_txt_case_colliding_keys_refuted`). -/
theorem C19_txt_roundtrip_rfc6763_partial (ps : Txt.Props) (h : WFPropsRfc ps) :
    ∃ text, Txt.encode ps = .ok text ∧ Txt.Spec.parse text = some ps := by
  refine ⟨_, encode_wf h.itemsFit, ?_⟩
  rw [Txt.Spec.parse, strings_wire _ (items_fit h.itemsFit)]
  simp only [Option.map_some, filterMap_attr ps h.noEqInKey h.keysNonempty]
  rw [firstWins_fresh ps [] (fun _ _ => by simp) h.distinctFolded]

/-- both readers on the same bytes (the statement of DESIGN §7, which names `WFProps`) -/
theorem C19_txt_roundtrip_partial (ps : Txt.Props) (h : WFPropsRfc ps) :
    ∃ text, Txt.encode ps = .ok text ∧ Txt.decodeLib text = Txt.normalise ps ∧ Txt.Spec.parse text = some ps := by
  obtain ⟨t1, h1, h2⟩ := C19_txt_roundtrip_library_partial ps h.toWFProps
  obtain ⟨t2, h3, h4⟩ := C19_txt_roundtrip_rfc6763_partial ps h
  rw [h1] at h3; injection h3 with h3; subst h3
  exact ⟨t1, h1, h2, h4⟩

/-- **"(as bytes …)".**  Whatever dictionary of `str`/`bytes` keys and `str`/`bytes`/`None` values is *accepted* (the
hypothesis `setProperties d = .ok …`: every item fits 255 bytes; `str`s are Unicode text, see `C19_txt_unicode_error_iff`),
what `ServiceInfo(properties=d).properties` returns when the object is built contains no `str`: either a `str` was involved
and the decoded text is returned, or none was and the caller's dictionary — all bytes — is returned as it is (the very
object: `C19_txt_alias`).  No hypothesis on the keys. -/
theorem C19_txt_properties_are_bytes (d : Txt.PyDict) (text : Bytes) (obs : Txt.PyDict)
    (h : Txt.setProperties d = .ok (text, obs)) : Txt.allBytes obs = true := by
  unfold Txt.setProperties at h
  split at h
  · cases h
  · injection h with h
    injection h with h1 h2
    by_cases hc : Txt.containsStr d = true
    · rw [if_pos hc] at h2; subst h2
      simp only [Txt.allBytes, Txt.containsStr, Txt.asBytesDict, Bool.not_eq_true', List.any_eq_false]
      intro e he
      obtain ⟨x, _, rfl⟩ := List.mem_map.1 he
      cases hx : x.2 <;> simp [Txt.entryHasStr, Txt.PyVal.isStr, hx]
    · rw [if_neg hc] at h2; subst h2
      simpa [Txt.allBytes] using hc

/-- … and it is the dictionary that was given (as bytes; empty value = no value), for every well-formed one.
`_partial` for the same reason as `C19_txt_roundtrip_library_partial`. -/
theorem C19_txt_properties_observed_partial (d : Txt.PyDict) (h : WFProps (Txt.coerce d)) :
    ∃ text obs, Txt.setProperties d = .ok (text, obs) ∧ Txt.allBytes obs = true
      ∧ Txt.normalise (Txt.coerce obs) = Txt.normalise (Txt.coerce d) := by
  have he := encode_wf h.itemsFit
  have hs : Txt.setProperties d = .ok (wireOf ((Txt.coerce d).map Txt.itemOf),
      if Txt.containsStr d then Txt.asBytesDict (Txt.decodeLib (wireOf ((Txt.coerce d).map Txt.itemOf))) else d) := by
    simp only [Txt.setProperties, he]
  refine ⟨_, _, hs, C19_txt_properties_are_bytes d _ _ hs, ?_⟩
  by_cases hc : Txt.containsStr d = true
  · rw [if_pos hc, decodeLib_wire h.noEqInKey h.distinctKeys h.itemsFit]
    rw [coerce_asBytesDict]
    simp [Txt.normalise, Txt.normVal, libVal_idem]
  · rw [if_neg hc]

/-- the only way `_set_properties` fails: some `key[=value]` item is longer than 255 bytes, and then it is `ValueError`
(from `bytes((len(item),))`) -/
theorem C19_txt_encode_error (ps : Txt.Props) (e : PyExc) :
    Txt.encode ps = .error e ↔ e = .valueError ∧ ∃ p ∈ ps, 255 < (Txt.itemOf p).length := by
  rw [Txt.encode, encodeItems_error]
  constructor
  · rintro ⟨h1, it, hit, hl⟩
    obtain ⟨p, hp, rfl⟩ := List.mem_map.1 hit
    exact ⟨h1, p, hp, hl⟩
  · rintro ⟨h1, p, hp, hl⟩
    exact ⟨h1, _, List.mem_map_of_mem hp, hl⟩

/-- outside `WFProps`, part 1: a key containing `=` is split at its first `=` when read back -/
theorem C19_txt_key_with_eq (k1 k2 : Bytes) (v : Option Bytes) (h : Txt.eqByte ∉ k1) :
    (Txt.partitionEq (Txt.itemOf (k1 ++ Txt.eqByte :: k2, v))).1 = k1 := by
  cases v with
  | none => simp [Txt.itemOf, partitionEq_key_value k1 k2 h]
  | some v =>
    have : Txt.itemOf (k1 ++ Txt.eqByte :: k2, some v) = k1 ++ Txt.eqByte :: (k2 ++ Txt.eqByte :: v) := by simp [Txt.itemOf]
    rw [this, partitionEq_key_value k1 _ h]

/-- outside `WFProps`, part 2: of two items with the same key the first one wins -/
theorem C19_txt_first_key_wins (k : Bytes) (v w : Option Bytes) (d : Txt.Props) :
    Txt.insertNew (Txt.insertNew d k v) k w = Txt.insertNew d k v := by
  have : Txt.hasKey (Txt.insertNew d k v) k = true := by
    unfold Txt.insertNew
    split
    · assumption
    · simp [Txt.hasKey]
  rw [Txt.insertNew, if_pos this]

/-! ### entry by entry: what a forbidden entry can and cannot spoil

`WFProps` is a hypothesis on the *whole* dictionary.  The following needs none beyond the item limit: an entry whose own
key has no `=` is read back — by the library whenever no **earlier** entry's item yields the same key (`effKey`: the part
of `key[=value]` before the first `=`; for a well-formed entry its key), by the RFC reader whenever its key is non-empty and
no earlier item yields a key equal to it up to ASCII case — whatever else the dictionary contains (keys with `=`, empty
keys, colliding keys elsewhere); the decoded keys are distinct and each is the `effKey` of some entry, so nothing else
appears.  This is the statement behind the harness's per-entry oracle (`must_entries` in `harness/c19.py`): the entries
excluded here are exactly the ones the harness does not demand (`must_entries`): an entry with `=` in its key, and an entry
whose key an *earlier* item yields (the second of two colliding keys; a key shadowed by an earlier key with `=`) — never the
first of two colliding keys, never a key that only a *later* entry collides with, never the rest of the dictionary. -/
theorem C19_txt_entry_roundtrip (ps pre post : Txt.Props) (k : Bytes) (v : Option Bytes)
    (hfit : ∀ e ∈ ps, (Txt.itemOf e).length ≤ 255) (hps : ps = pre ++ (k, v) :: post) (hk : Txt.eqByte ∉ k) :
    ∃ text, Txt.encode ps = .ok text
      ∧ ((∀ e ∈ pre, Txt.effKey e ≠ k) → (k, Txt.normVal v) ∈ Txt.decodeLib text)
      ∧ ((k ≠ [] ∧ ∀ e ∈ pre, ∀ a, Txt.Spec.attr (Txt.itemOf e) = some a → Txt.Spec.foldKey a.1 ≠ Txt.Spec.foldKey k) →
          ∃ d, Txt.Spec.parse text = some d ∧ (k, v) ∈ d)
      ∧ ((Txt.decodeLib text).map (·.1)).Nodup
      ∧ (∀ x ∈ Txt.decodeLib text, ∃ e ∈ ps, Txt.effKey e = x.1)
      ∧ (∀ d, Txt.Spec.parse text = some d → ∀ x ∈ d, ∃ e ∈ ps, Txt.Spec.attr (Txt.itemOf e) = some x) := by
  refine ⟨_, encode_wf hfit, ?_, ?_, ?_, ?_, ?_⟩
  · intro hpre
    rw [decodeLib_encode_steps hfit, hps]
    exact entry_in_fold pre post k v hk hpre
  · rintro ⟨hne, hpre⟩
    refine ⟨_, parse_encode_general hfit, ?_⟩
    rw [hps]
    exact entry_in_parse pre post k v hk hne hpre
  · rw [decodeLib_encode_steps hfit]
    exact nodup_foldl_libStep _ [] (by simp)
  · intro x hx
    rw [decodeLib_encode_steps hfit] at hx
    rcases keys_foldl_libStep _ [] x hx with h | ⟨it, hit, he⟩
    · simp at h
    · obtain ⟨e, he', rfl⟩ := List.mem_map.1 hit
      exact ⟨e, he', he⟩
  · intro d hd x hx
    rw [parse_encode_general hfit] at hd
    injection hd with hd
    subst hd
    have := firstWins_subset _ _ x hx
    obtain ⟨it, hit, ha⟩ := List.mem_filterMap.1 this
    obtain ⟨e, he', rfl⟩ := List.mem_map.1 hit
    exact ⟨e, he', ha⟩

/-- a well-formed entry's effective key is its key; an entry with `=` in its key yields the part before that `=`
(`C19_txt_key_with_eq`), which is how it can shadow a later well-formed entry -/
theorem C19_txt_effKey_wellformed (e : Bytes × Option Bytes) (h : Txt.eqByte ∉ e.1) : Txt.effKey e = e.1 := effKey_clean e h

/-! ### `str` keys / values that are not Unicode text (lone surrogates)

The sentence as worded — *every* dictionary with `str`/`bytes` keys and `str`/`bytes`/`None` values whose items fit is
encoded — is **false** for a `str` that holds a lone surrogate: it has no UTF-8 form and the constructor raises
`UnicodeEncodeError` (reproduced: `D33, notes/fixes/D33-repro.py`; recorded as a finding,
`C19:txt-str-with-lone-surrogate`; the analogous escape for *names* was repaired because the property names the only
exception allowed there).  Every other TXT theorem of this file is about `Txt.PyDict`, i.e. about dictionaries whose
`str`s are text; `C19_txt_raw_partial` says that this is the only restriction. -/

/-- the sentence for raw dictionaries: whatever `str`s they hold, a dictionary whose items fit is accepted -/
def C19_txt_every_dict_accepted : Prop :=
  ∀ d : Txt.PyDictRaw, (∀ e ∈ Txt.coerce (Txt.textOf d), (Txt.itemOf e).length ≤ 255) → ∃ r, Txt.setPropertiesRaw d = .ok r

/-- `{'\ud800': None}` is rejected with `UnicodeEncodeError` -/
theorem C19_txt_lone_surrogate_refuted : ¬ C19_txt_every_dict_accepted := by
  intro h
  obtain ⟨r, hr⟩ := h [(.surrogateStr, none)] (by decide)
  simp [Txt.setPropertiesRaw, Txt.Encodable, Txt.entryEncodable, Txt.PyObj.encodable] at hr

/-- A restatement of the model's **definition** (`setPropertiesRaw := if Encodable d then … else .error .unicodeEncodeError`),
not a result about the code: `UnicodeEncodeError` exactly for the dictionaries with such a `str`, before anything else (in
particular before the `ValueError` of an oversize item).  That the code behaves like this definition is a *reading* of
info.py:372-387 (first loop encodes, second loop frames), tied only by the correspondence run (`c19t` lines with type tag 2). -/
theorem C19_txt_unicode_error_iff (d : Txt.PyDictRaw) :
    Txt.setPropertiesRaw d = .error .unicodeEncodeError ↔ Txt.Encodable d = false := by
  unfold Txt.setPropertiesRaw
  cases h : Txt.Encodable d
  · simp
  · simp only [if_true]
    cases Txt.setProperties (Txt.textOf d) <;> simp [Txt.liftPy]

/-- `_partial` (hypothesis = the finding's class, `Encodable`): for every dictionary whose `str`s are Unicode text the
constructor does what `setProperties` says of the dictionary's text form — the theorems above then apply -/
theorem C19_txt_raw_partial (d : Txt.PyDictRaw) (h : Txt.Encodable d = true) :
    Txt.setPropertiesRaw d = Txt.liftPy (Txt.setProperties (Txt.textOf d)) := by
  simp [Txt.setPropertiesRaw, h]

/-- the hypothesis is satisfiable and not trivial -/
example : Txt.Encodable [(.val (.str [107]), some (.val (.bytes [118])))] = true
    ∧ Txt.Encodable [(.val (.str [107]), some .surrogateStr)] = false := by decide

/-! ### a reading: `.properties` of an all-bytes dictionary is the caller's own object

`setProperties` returns the dictionary itself when no `str` is involved (`returnsCallersDict`); the real object is an
*alias* of the caller's dictionary (the harness compares `info.properties is <given>` with this bit), so a caller who
mutates the dictionary afterwards sees `.properties` change while `.text` does not.  The property speaks of the dictionary
*given* to the service description; what later mutation does is outside it and outside the model (value semantics).
`C19_txt_alias` unfolds the definition `returnsCallersDict := !containsStr`; it records the reading, it proves nothing about the
code — the tie is the `A` bit of the `c19t` line. -/
theorem C19_txt_alias (d : Txt.PyDict) (text : Bytes) (obs : Txt.PyDict) (h : Txt.setProperties d = .ok (text, obs)) :
    (Txt.returnsCallersDict d = true → obs = d)
    ∧ (Txt.returnsCallersDict d = false → obs = Txt.asBytesDict (Txt.decodeLib text)) := by
  unfold Txt.setProperties at h
  split at h
  · cases h
  · injection h with h
    injection h with h1 h2
    subst h1 h2
    constructor
    · intro hc
      have : Txt.containsStr d = false := by simpa [Txt.returnsCallersDict] using hc
      simp [this]
    · intro hc
      have : Txt.containsStr d = true := by simpa [Txt.returnsCallersDict] using hc
      simp [this]

/-! ### non-vacuity -/

/-- `{'a=b': 'c', 'path': '/x'}`: the forbidden first entry does not stop `path` from being read back by both readers
(an implementation that gave up on the whole dictionary would falsify `C19_txt_entry_roundtrip`) -/
example : ([112, 97, 116, 104], some [47, 120]) ∈ Txt.decodeLib [5, 97, 61, 98, 61, 99, 7, 112, 97, 116, 104, 61, 47, 120] := by
  simp [Txt.decodeLib, decodeLoop_cons, Txt.decodeLoop, Txt.partitionEq, Txt.insertNew, Txt.hasKey, Txt.libVal, Txt.eqByte]

/-- … obtained from the theorem: its hypotheses (item limit, the entry's position, no `=` in its key, no earlier item with
its key) are met by the second entry of `{'a=b': 'c', 'path': '/x'}` -/
example : ∃ text, Txt.encode [([97, 61, 98], some [99]), ([112, 97, 116, 104], some [47, 120])] = .ok text
    ∧ ([112, 97, 116, 104], some [47, 120]) ∈ Txt.decodeLib text := by
  obtain ⟨text, h1, h2, _⟩ := C19_txt_entry_roundtrip _ [([97, 61, 98], some [99])] [] [112, 97, 116, 104] (some [47, 120])
    (by decide) rfl (by decide)
  exact ⟨text, h1, h2 (by decide)⟩

/-- `{'path': '/x', 'flag': None, 'empty': ''}` is well-formed -/
example : WFPropsRfc [([112, 97, 116, 104], some [47, 120]), ([102], none), ([101], some [])] where
  noEqInKey := by decide
  distinctKeys := by decide
  itemsFit := by decide
  keysNonempty := by decide
  distinctFolded := by decide

/-- … and its TXT form is `\x07path=/x\x01f\x02e=`; the library reads the empty value back as `None`,
the RFC reader keeps it -/
example : Txt.encode [([112, 97, 116, 104], some [47, 120]), ([102], none), ([101], some [])]
    = .ok [7, 112, 97, 116, 104, 61, 47, 120, 1, 102, 2, 101, 61] := by rfl

/-- a well-formed dictionary with an item of exactly 255 bytes (`'k'*253 + '=' + 'v'`) -/
example : WFPropsRfc [(List.replicate 253 (107 : UInt8), some [118])] := by
  generalize hk : List.replicate 253 (107 : UInt8) = k
  have hl : k.length = 253 := by rw [← hk, List.length_replicate]
  have hm : ∀ b ∈ k, b = 107 := fun b hb => by rw [← hk] at hb; exact (List.mem_replicate.1 hb).2
  have hne : k ≠ [] := fun h => by rw [h] at hl; cases hl
  refine { noEqInKey := ?_, distinctKeys := by simp, itemsFit := ?_, keysNonempty := ?_, distinctFolded := by simp }
  · intro e he h
    rw [List.mem_singleton.1 he] at h
    exact absurd (hm _ h) (by decide)
  · intro e he
    rw [List.mem_singleton.1 he]
    simp [Txt.itemOf, hl]
  · intro e he
    rw [List.mem_singleton.1 he]
    exact hne

/-- … one byte more and `_set_properties` raises `ValueError` -/
example : Txt.encode [(List.replicate 254 (107 : UInt8), some [118])] = .error .valueError := by
  rw [C19_txt_encode_error]
  exact ⟨rfl, _, List.mem_singleton.2 rfl, by simp only [Txt.itemOf, List.length_append, List.length_replicate, List.length_cons, List.length_nil]; omega⟩

/-- `{b'k': 'v'}` (bytes key, str value): a `str` is involved, so `.properties` is the decoded text `{b'k': b'v'}`;
`{b'k': b'v'}` is returned as it is; both are all bytes -/
example : Txt.setProperties [(.bytes [107], some (.str [118]))] = .ok ([3, 107, 61, 118], [(.bytes [107], some (.bytes [118]))]) := by
  simp [Txt.setProperties, Txt.coerce, Txt.encode, Txt.encodeItems, Txt.itemOf, Txt.containsStr, Txt.entryHasStr, Txt.PyVal.isStr, Txt.PyVal.enc,
    Txt.eqByte, Txt.asBytesDict, Txt.decodeLib, decodeLoop_cons, Txt.decodeLoop, Txt.partitionEq, Txt.insertNew, Txt.hasKey, Txt.libVal]
example : Txt.setProperties [(.bytes [107], some (.bytes [118]))] = .ok ([3, 107, 61, 118], [(.bytes [107], some (.bytes [118]))]) := by
  simp [Txt.setProperties, Txt.coerce, Txt.encode, Txt.encodeItems, Txt.itemOf, Txt.containsStr, Txt.entryHasStr, Txt.PyVal.isStr, Txt.PyVal.enc, Txt.eqByte]

/-- `{'a': 1, 'A': 2}` is well-formed for the library but not for a case-insensitive RFC reader -/
example : WFProps [([97], some [49]), ([65], some [50])] ∧ ¬ WFPropsRfc [([97], some [49]), ([65], some [50])] :=
  ⟨⟨by decide, by decide, by decide⟩, fun h => absurd h.distinctFolded (by decide)⟩

end Zc
