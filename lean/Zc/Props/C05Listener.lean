import Zc.Props.C05
import Zc.Model.CacheListener
import Zc.GenFacts.Listener
/-! # C05 behind the listener — which datagrams reach the cache, and the one lookup that reads the clock

`Zc/Model/CacheListener.lean` puts the duplicate-packet guard of `AsyncListener._process_datagram_at_time` (C16's generated test
`dup_guard`) in front of C05/C06's `ingest`.  Reading (named; `harness/cachecommon.py:WireRef` is its Python twin): the "response
datagrams" of C05's sentence are the datagrams that get past that guard, and the guard drops a datagram only when it is
byte-identical to the last **processed** datagram of the socket and arrives less than 1000 ms after it.  So

* `C05_wire_suppressed_iff` — the guard in the property's numbers;
* `C05_wire_suppressed_changes_nothing` — a dropped copy changes nothing, in particular not `last_time`: the interval is not
  restarted (seeded defect C05-w4-seed1 added `self.last_time = now` there: a payload repeated every 0.9 s was processed once and
  its record expired although refreshed in time);
* `C05_wire_cache` — the cache after a history of datagrams on the socket and purges is the cache after the record-manager history of
  the *processed* datagrams (`wireProcessed`), with their own arrival times; hence every theorem of `Props/C05.lean` applies to it;
* `C05_wire_refresh_safe` — refresh safety in terms of what arrives on the socket;
* `C05_current_entry` / `C05_current_entry_spec` — `current_entry_with_name_and_alias`, the by-name-and-alias lookup that filters
  expired records with the wall clock, agrees with the reference and returns the latest unexpired pointer record or nothing. -/
namespace Zc

section
variable (lower : String → String)

/-- **the duplicate guard, in the property's numbers**: a response datagram is dropped iff the socket's last processed datagram
had the same bytes and lies less than 1000 ms back -/
theorem C05_wire_suppressed_iff (s : WireState) (payload : Nat) (now : Int) :
    s.suppresses payload now = true ↔ (s.data = some payload ∧ now - (s.lastTime : Int) < 1000) := by
  unfold WireState.suppresses
  rw [GenFacts.Listener.dup_guard_iff]
  constructor
  · rintro ⟨h1, h2, _, _⟩
    have h2' : now - 1000 < (s.lastTime : Int) := h2
    exact ⟨by simpa using h1, by omega⟩
  · rintro ⟨h1, h2⟩
    have h2' : now - 1000 < (s.lastTime : Int) := by omega
    exact ⟨by simp [h1], h2', by simp [h1], by simp⟩

/-- a dropped copy changes nothing — not the cache, not the remembered bytes, **not `last_time`** -/
theorem C05_wire_suppressed_changes_nothing (s : WireState) (payload : Nat) (now : Ms) (recs : List Rec)
    (h : s.suppresses payload now = true) :
    wireStep lower s payload now recs = .ok (s, none) ∧ wireStepEvent lower s (.datagram now payload recs) = s := by
  simp [wireStepEvent, wireStep, h]

/-- a datagram that passes the guard is ingested with its own arrival time, and becomes the remembered one -/
theorem wireStepEvent_processed (s : WireState) (payload : Nat) (now : Ms) (recs : List Rec)
    (h : s.suppresses payload now = false) :
    wireStepEvent lower s (.datagram now payload recs)
      = match ingest lower (Cache.ops lower) s.cache now recs with
        | .ok out => { cache := out.cache, data := some payload, lastTime := now }
        | .error _ => s := by
  simp only [wireStepEvent, wireStep, h, Bool.false_eq_true, if_false]
  cases ingest lower (Cache.ops lower) s.cache now recs <;> rfl

/-- one event on the socket does to the cache what the corresponding record-manager event (if any) does -/
theorem wireStepEvent_cache (s : WireState) (ev : WireEvent) :
    (wireStepEvent lower s ev).cache = runEvents lower (Cache.ops lower) s.cache (wireProcessed lower s [ev]) := by
  cases ev with
  | purge now =>
    simp only [wireProcessed, runEvents, List.foldl_cons, List.foldl_nil, stepEvent, wireStepEvent]
    cases expire (Cache.ops lower) s.cache now <;> rfl
  | datagram now payload recs =>
    cases h : s.suppresses payload now with
    | true =>
      rw [(C05_wire_suppressed_changes_nothing lower s payload now recs h).2]
      simp [wireProcessed, h, runEvents]
    | false =>
      rw [wireStepEvent_processed lower s payload now recs h]
      simp only [wireProcessed, h, Bool.false_eq_true, if_false, runEvents, List.foldl_cons, List.foldl_nil, stepEvent]
      cases ingest lower (Cache.ops lower) s.cache now recs <;> rfl

theorem wireProcessed_cons (s : WireState) (ev : WireEvent) (t : List WireEvent) :
    wireProcessed lower s (ev :: t) = wireProcessed lower s [ev] ++ wireProcessed lower (wireStepEvent lower s ev) t := by
  cases ev with
  | purge now => simp [wireProcessed]
  | datagram now payload recs =>
    cases h : s.suppresses payload now with
    | true => simp [wireProcessed, h, (C05_wire_suppressed_changes_nothing lower s payload now recs h).2]
    | false => simp [wireProcessed, h]

/-- **C05 behind the listener.**  From any listener state, the cache after any history of datagrams on the socket and purges is
the cache after the record-manager history of the datagrams that pass the guard, each with its own arrival time. -/
theorem C05_wire_cache_from (s : WireState) (evs : List WireEvent) :
    (evs.foldl (wireStepEvent lower) s).cache = runEvents lower (Cache.ops lower) s.cache (wireProcessed lower s evs) := by
  induction evs generalizing s with
  | nil => rfl
  | cons ev t ih =>
    rw [List.foldl_cons, ih, wireStepEvent_cache, wireProcessed_cons lower s ev t]
    unfold runEvents
    rw [List.foldl_append]

/-- … started with an empty cache and a listener that has seen nothing: every theorem about `cacheAfter` (`C05_inv`,
`C05_paths_agree`, `C05_purge_exact`, `C05_refresh_safe`, C06's and C04's) applies to what arrives on the socket -/
theorem C05_wire_cache (evs : List WireEvent) :
    (wireRun lower evs).cache = cacheAfter lower (wireProcessed lower {} evs) :=
  C05_wire_cache_from lower {} evs

/-- **C05 (refresh safety, on the socket).**  If the datagrams of a socket history that pass the duplicate guard are
`pre`, then a datagram at `t` with a live copy of a record and no goodbye for it, then `later` which neither mentions the record nor
flushes it nor purges at or after `t + 1000·T` — then the record is cached with creation time `t` and TTL `T` at the end.  (A
byte-identical re-announcement 1 s or more after the last processed copy *does* pass the guard — `C05_wire_suppressed_iff` — so it is
the refreshing datagram here.) -/
theorem C05_wire_refresh_safe (evs : List WireEvent) (pre later : List Event) (t : Ms) (recs : List Rec) (q r : Rec)
    (hproc : wireProcessed lower {} evs = pre ++ [.datagram t recs] ++ later)
    (hlive : lastLive lower recs q = some r) (hng : hasGoodbye lower recs q = false)
    (hquiet : ∀ ev ∈ later, Quiet lower q (t + 1000 * (storedTtl r.type r.ttl : Int)) ev) :
    ∃ e, (wireRun lower evs).cache.getUnique lower q = some e ∧ e.created = t ∧ e.ttl = storedTtl r.type r.ttl := by
  rw [C05_wire_cache, hproc]
  exact C05_refresh_safe lower pre t recs q r hlive hng later hquiet

/-! ### `current_entry_with_name_and_alias` -/

/-- the by-name-and-alias lookup agrees with the reference after any history, at any reading of the wall clock -/
theorem C05_current_entry (evs : List Event) (name alias : String) (now : Ms) :
    (cacheAfter lower evs).currentEntryWithNameAndAlias lower name alias now
      = Flat.currentEntryWithNameAndAlias lower (specAfter lower evs) name alias now := by
  unfold Cache.currentEntryWithNameAndAlias Flat.currentEntryWithNameAndAlias
  rw [(C05_paths_agree lower evs).entriesWithName]
  rfl

/-- … and what it returns is an unexpired pointer record of that name and alias held by the reference — with the reference's
creation time and TTL — or nothing when the reference holds none -/
theorem C05_current_entry_spec (evs : List Event) (name alias : String) (now : Ms) :
    (∀ e, (cacheAfter lower evs).currentEntryWithNameAndAlias lower name alias now = some e →
        e ∈ specAfter lower evs ∧ lower e.name = lower name ∧ e.type = 12 ∧ e.rdata = .ptr alias
        ∧ ¬ (e.created + 1000 * (e.ttl : Int) ≤ now))
    ∧ ((cacheAfter lower evs).currentEntryWithNameAndAlias lower name alias now = none →
        ∀ e ∈ specAfter lower evs, lower e.name = lower name → e.type = 12 → e.rdata = .ptr alias →
          e.created + 1000 * (e.ttl : Int) ≤ now) := by
  rw [C05_current_entry]
  unfold Flat.currentEntryWithNameAndAlias Flat.entriesWithName
  constructor
  · intro e he
    have hm := List.mem_of_find?_eq_some he
    have hp := List.find?_some he
    rw [List.mem_reverse, List.mem_filter] at hm
    simp only [Bool.and_eq_true, decide_eq_true_eq, Bool.not_eq_true'] at hp
    obtain ⟨⟨ht, hx⟩, ha⟩ := hp
    refine ⟨hm.1, by simpa using hm.2, by rw [ht]; rfl, ?_, ?_⟩
    · cases hr : e.rdata <;> simp_all
    · intro hle
      have := (isExpired_iff e now).2 hle
      rw [this] at hx; cases hx
  · intro hn e he hname ht hr
    rw [List.find?_eq_none] at hn
    have := hn e (by rw [List.mem_reverse, List.mem_filter]; exact ⟨he, by simpa using hname⟩)
    simp only [Bool.and_eq_true, decide_eq_true_eq, Bool.not_eq_true', not_and, Bool.not_eq_true] at this
    cases hx : e.isExpired now with
    | true => exact (isExpired_iff e now).1 hx
    | false =>
      have h1 := this ⟨by rw [ht]; rfl, hx⟩
      rw [hr] at h1
      simp at h1

/-! non-vacuity -/

/-- one payload (TXT, TTL 2 s) at 1 000, 1 900 and 2 800 ms: the second copy is dropped, the third — 1 800 ms after the last
*processed* one — is ingested (a guard that slid its window on the dropped copy would drop it too), so the purge at 3 000 ms, the
first copy's deadline, finds the record alive with creation time 2 800 -/
example :
    let txt : Rec := ⟨"a.local.", 16, 1, false, 2, 0, .txt [1]⟩
    let evs : List WireEvent := [.datagram 1000 7 [txt], .datagram 1900 7 [txt], .datagram 2800 7 [txt], .purge 3000]
    (wireProcessed id {} evs).map (fun e => match e with | .datagram t _ => ("datagram", t) | .purge t => ("purge", t))
      = [("datagram", 1000), ("datagram", 2800), ("purge", 3000)]
    ∧ ((wireRun id evs).cache.getUnique id txt).map (fun e => (e.created, e.ttl)) = some (2800, 2)
    ∧ (wireRun id evs).lastTime = 2800 := by
  decide

/-- `current_entry_with_name_and_alias` at work: a pointer (TTL floored to 1125 s) received at 1 000 ms is returned one
millisecond before its deadline and not at it, although it is still in the cache (no purge has run) -/
example :
    let p : Rec := ⟨"_x._tcp.local.", 12, 1, false, 120, 0, .ptr "a._x._tcp.local."⟩
    let c := cacheAfter id [.datagram 1000 [p]]
    (c.currentEntryWithNameAndAlias id "_x._tcp.local." "a._x._tcp.local." 1125999).isSome = true
    ∧ c.currentEntryWithNameAndAlias id "_x._tcp.local." "a._x._tcp.local." 1126000 = none
    ∧ (c.getUnique id p).isSome = true
    ∧ c.currentEntryWithNameAndAlias id "_x._tcp.local." "A._x._tcp.local." 2000 = none := by
  decide

end
end Zc
