import Zc.Proofs.SurviveClock
import Zc.Proofs.SurviveLive
import Zc.Proofs.SurviveHandlers
import Zc.Proofs.NameTextGlue
/-! # C15 — survival over the closed composite: every block kind, no residual-block hypothesis

`C15_history_all_timers_partial` (`Props/C15.lean`) still assumed, by name: `BaseOK` (user `RecordUpdateListener`s, waking lookup
futures, `async_notify_all`), "the residual blocks preserve the invariant" (`hO`: registration API, browser / lookup start and stop,
periodic purge), the data invariants `RegSafe` / `TypesSafe` *of every state*, and a clock that never reads earlier than a cached
record's creation (built into the timer blocks as an enabledness test).  Here:

* the residue is interpreted (`Model/SurviveUser`): iterating over the listeners, waking futures and `async_notify_all` are library
  code and proved total; `BaseOK` shrinks to **`UserOK`** — the application's own callbacks return — and that is exactly what the
  code needs: `C15_user_listener_exception_escapes`;
* the residual blocks are blocks of the composite (`Model/SurviveApi`), each proved to preserve the invariant
  (`C15_api_block_total`): **`hO` is gone**;
* `RegSafe` / `TypesSafe` / the lookups' names are invariants established by the blocks that introduce the data; what is assumed is a
  property of the *arguments* the application hands to the API (`ApiSafe`: `SvcSafe`, `TypesSafe`, `NameTextSafe`) —
  `Props/C15Names.lean` says how much of it the library's own validator guarantees and where it does not (findings);
* the clock hypothesis is an invariant (`C15_clock_invariant`) of every history whose clock readings do not decrease (`Mono`, the
  `monotone` clause of C12's `LoopAx`); the timer blocks run unguarded.

What is still assumed, all named: `UserOK`, `ApiSafe` of the API arguments, `Mono` (the text-layer identity `TextGlue` is the theorem
`textGlue` of `Proofs/NameTextGlue.lean` since wp-TEXTGLUE and is no longer a hypothesis); and the
reading that a `ServiceListener` handler of a browser is an *output* of the model (`COut.callback`), i.e. returns (finding F-U2). -/
namespace Zc
open Zc.Wire Zc.Wire.DecodeLib Zc.Survive Zc.Survive.Comp Zc.Survive.Route Zc.Survive.User Zc.Survive.Api Zc.Survive.Closed
open Zc.Listener (Addr alGet TcTimer)

section closed
variable (lower : String → String) (possible : String → List String) (ettl : Nat)
variable (attrib : Question → Rec → Bool) (orc : Route.Oracle) (sz : QueryGen.QOut → Nat)
variable {υ ω : Type} (U : UserL υ ω) (upd : Ms → List (Rec × Option Rec) → Nat → Bool) (Iυ : υ → Prop)

/-- **`_resolve_all_futures_to_none` never raises**: the `InvalidStateError` site of `fut.set_result(None)` is guarded by
`if not fut.done()`, for every set of futures in every state (done, cancelled, pending) — so waking the lookups' futures and
`async_notify_all` are total. -/
theorem C15_futures_total (fs : List Fut) : ∃ r, resolveAll fs = .ok r ∧ ∀ f ∈ r, f.done = true :=
  resolveAll_ok fs

/-- **`BaseOK` reduced to the application's code**: the library part of both listener rounds returns for every record list, cache and
`notify` flag; the residue's invariant is "every registered user listener satisfies its own invariant". -/
theorem C15_base_from_users (hU : UserOK U Iυ) : Route.BaseOK (userBase U upd) (UInv Iυ) :=
  userBase_ok U upd Iυ hU

/-- **"User callbacks do not raise" is exactly the hypothesis the code needs.**  In any state satisfying the invariants, a valid
response that the duplicate guard does not drop and that produces at least one record update: if the `async_update_records` of a
registered user listener raises `e` (the listeners before it returning), **`e` leaves `datagram_received`** — nothing between
`RecordManager.async_updates` and the event loop catches it (and the cache adds, the second round, every browser callback and
`async_notify_all` of this datagram are skipped).  Observed on the real code: `corpus/C15/finding-user-listener-raises.json`. -/
theorem C15_user_listener_exception_escapes {c : Ms} {s : State (CS υ)} (hI : HInv lower ettl Iυ c s)
    (data : Bytes) (addr : Addr) (port : Nat) (now : Ms) (draw : Nat) (p : Parsed)
    (hsize : data.length ≤ 8966) (hg : guardHit s data now = false) (hp : (parse data).out = .ok p)
    (hv : p.valid = true) (hq : Gen.Listener.is_query p.hdr.flags = false)
    {out : IngestOut Cache} (ho : Zc.ingest lower (Cache.ops lower) s.down.cache now (recsOf ⟨data, now, p, none⟩) = .ok out)
    {call : List (Rec × Option Rec) × Cache} (hcall : out.call1 = some call)
    (pre : List υ) (u : υ) (post : List υ) (e : PyExc) (hr : s.down.rest.1.users = pre ++ u :: post)
    (hpre : ∀ x ∈ pre, ∃ x' o, U.update x now call.1 call.2 = .ok (x', o)) (hu : U.update u now call.1 call.2 = .error e) :
    recv (down lower possible ettl attrib orc U upd) s data addr port now draw = .error e := by
  have heq := recv_response_eq (down lower possible ettl attrib orc U upd) s data addr port now draw p hsize hg hp hv hq
  rw [heq]
  have hing : (down lower possible ettl attrib orc U upd).ingest s.down ⟨data, now, p, none⟩ = .error e := by
    show Comp.ingest lower possible (Route.rest lower attrib orc (userBase U upd)) s.down ⟨data, now, p, none⟩ = .error e
    unfold Comp.ingest
    simp only [ho, hcall]
    obtain ⟨ss', hss, _⟩ := schedsStep_ok lower possible now call.1 s.down.scheds hI.full.1.1.scheds
    simp only [hss]
    have hl : (Route.rest lower attrib orc (userBase U upd)).listeners s.down.rest now call.1 call.2 out.cache out.notify = .error e := by
      simp only [Route.rest]
      rw [listeners_raises U upd s.down.rest.1 now call.1 call.2 out.cache out.notify pre u post e hr hpre hu]
    rw [hl]
  rw [hing]

/-- **Every residual block is total and keeps the invariant** — registration (`register` / `update` / `unregister` / a transmission of
the broadcast task), browser start (purge with notifications, replay, scheduler bookkeeping), scheduler start, browser cancel, lookup
start (cache load) and finish, the periodic purge (both listener rounds), user-listener and future bookkeeping.  This is the former
hypothesis `hO`.  Assumed: `UserOK` (purge and browser start call the user listeners) and `ApiSafe` of the
block's own argument. -/
theorem C15_api_block_total (hU : UserOK U Iυ) {d : CS υ} (hI : Full lower ettl Iυ d) (b : ApiBlock υ)
    (hb : ApiSafe lower ettl Iυ b) :
    ∃ d' o, apiStep lower possible U upd d b = .ok (d', o) ∧ Full lower ettl Iυ d' :=
  let ⟨d', o, h, hI', _⟩ := apiStep_ok lower possible ettl U upd Iυ textGlue hU hI b hb
  ⟨d', o, h, hI'⟩

/-- under the data invariant a transmission of the registration / goodbye task always encodes: the broadcast task cannot die of an
encoder exception while `RegSafe` holds -/
theorem C15_service_broadcast_encodes {d : CS υ} (hI : Full lower ettl Iυ d) (key : String) : ∃ pks, serviceSendE lower d key = .ok pks :=
  serviceSend_encodes lower ettl Iυ hI key

/-- **The clock hypothesis is an invariant.**  After any closed history whose clock readings do not decrease, no cached record object
(in either index) was created after the last reading: records are stamped with their block's `now`. -/
theorem C15_clock_invariant (hU : UserOK U Iυ) (bs : List (HBlock υ)) (c : Ms) (s s' : State (CS υ))
    (out : List (Out (COut ω))) (hI : HInv lower ettl Iυ c s) (hm : Mono c bs) (hs : ∀ b ∈ bs, HSafe lower ettl Iυ b)
    (h : hrun lower possible ettl attrib orc sz U upd s bs = .ok (s', out)) :
    ∀ r ∈ s'.down.cache.allRecs, r.created ≤ lastTime c bs :=
  (hrun_inv lower possible ettl sz U upd Iυ textGlue hU (down_closed lower possible ettl attrib orc U upd Iυ textGlue hU) bs c s s' out hI hm hs h).clock.allRecs

/-- **Survival, every history, every block kind** (`_partial`: `UserOK`, `ApiSafe` of the API arguments, `Mono`).  From
any state satisfying the invariant — e.g. the initial one — every finite interleaving of

* datagram arrivals (any bytes, any source address and port, any draw),
* deferred-query timers, browser query timers, lookup query transmissions, flushes of both multicast answer queues,
* `async_register_service` / `async_update_service` / `async_unregister_service` entry blocks and transmissions of their tasks,
* browser starts (with the purge and the cache replay), scheduler starts, browser cancels, lookup starts and finishes,
* periodic cache purges, additions and removals of user listeners, futures parked and timed out by waiting coroutines,

whose clock readings do not decrease runs to its end **without an exception reaching the event loop** and with the invariant in
force at the last clock reading — or it contains a deferred-query timer block for an address whose timer is not armed at that point
(not a block the loop can run).  No hypothesis is made about any intermediate state or about any block preserving anything. -/
theorem C15_history_closed_partial (hU : UserOK U Iυ) (bs : List (HBlock υ)) (c : Ms) (s : State (CS υ))
    (hI : HInv lower ettl Iυ c s) (hm : Mono c bs) (hs : ∀ b ∈ bs, HSafe lower ettl Iυ b) :
    (∃ s' out, hrun lower possible ettl attrib orc sz U upd s bs = .ok (s', out) ∧ HInv lower ettl Iυ (lastTime c bs) s') ∨
    (∃ pre addr post s1 o1, bs = pre ++ HBlock.tcFire addr :: post ∧
      hrun lower possible ettl attrib orc sz U upd s pre = .ok (s1, o1) ∧ alGet addr s1.timers = none) :=
  hrun_ok lower possible ettl sz U upd Iυ textGlue hU (down_closed lower possible ettl attrib orc U upd Iυ textGlue hU) bs c s hI hm hs

/-- the initial state of a started instance — empty cache, registry, queues, histories, no browsers, lookups, listeners or futures —
satisfies the invariant at every clock reading -/
theorem C15_closed_init (c : Ms) :
    HInv lower ettl Iυ c (State.init (⟨{}, [], [], [], {}, [], [], none, ({}, {})⟩ : CS υ)) := by
  refine ⟨⟨⟨CInv.init lower ettl _ (({}, {}) : UState υ × RState) ⟨?_, Route.QShape.init, Route.QShape.init⟩, ?_⟩, ?_⟩, LInv.init _, ClockInv.empty c⟩
  · intro u hu; cases hu
  · exact ⟨(fun cs hcs => nomatch hcs), (fun cs hcs => nomatch hcs), (fun i hi => nomatch hi)⟩
  · exact ⟨(fun r hr => nomatch hr), (fun sel hs => nomatch hs)⟩

end closed

/-! ### non-vacuity of the hypotheses -/

/-- a user listener that counts its calls and reports each of them (it really runs: not the trivial listener) -/
def exUser : UserL Nat String where
  update n _ pairs _ := .ok (n + 1, [s!"update:{pairs.length}"])
  complete n _ := .ok (n, ["complete"])

example : UserOK exUser (fun _ => True) :=
  ⟨fun u _ pairs _ _ => ⟨u + 1, _, rfl, trivial⟩, fun u _ _ => ⟨u, _, rfl, trivial⟩⟩

/-- a user listener whose first callback raises: `UserOK` fails for it (and `C15_user_listener_exception_escapes` applies) -/
def exBadUser : UserL Nat String where
  update _ _ _ _ := .error .valueError
  complete n _ := .ok (n, [])

example : ¬ UserOK exBadUser (fun _ => True) := by
  intro h
  obtain ⟨u', o, hu, _⟩ := h.1 0 0 [] {} trivial
  cases hu

/-- the type `_a._tcp.local.` as the text of a wire name -/
def exTypeA : String := textOfName [[95, 97], [95, 116, 99, 112], [108, 111, 99, 97, 108]]

theorem exTypeA_safe : NameTextSafe exTypeA :=
  fromWire_safe textGlue ⟨_, by decide +kernel, by decide +kernel, rfl⟩

/-- a history with blocks of several kinds — a purge, a datagram, a browser start for `_a._tcp.local.`, its scheduler start, a lookup
start, a second purge — has non-decreasing clock readings and safe API arguments -/
def exHistory : List (HBlock Nat) :=
  [.api (.purge 10), .recv [0, 0, 0, 0, 0, 0, 0, 0, 0, 0, 0, 0] "10.0.0.2" 5353 20 0,
   .api (.browserStart ⟨[exTypeA], 1000, none, 20, 120⟩ 30), .api (.schedStart 0 50 30), .tcFire "10.0.0.9",
   .api (.lookupStart exTypeA 40), .api (.addUser 0), .api (.purge 10030)]

example : Mono 0 exHistory :=
  ⟨by decide, by decide, by decide, by decide, by decide, by decide, trivial⟩

example (lower : String → String) (ettl : Nat) : ∀ b ∈ exHistory, HSafe lower ettl (fun _ : Nat => True) b := by
  intro b hb
  simp only [exHistory, List.mem_cons, List.not_mem_nil, or_false] at hb
  rcases hb with rfl | rfl | rfl | rfl | rfl | rfl | rfl | rfl
  all_goals first
    | trivial
    | (show TypesSafe [exTypeA]; intro t ht; simp only [List.mem_singleton] at ht; subst ht; exact exTypeA_safe)
    | exact exTypeA_safe

/-- a service all of whose names are texts of encodable wire names satisfies `SvcSafe` (for `lower = id`) -/
def exSvcSafe : Svc :=
  { type := exTypeA, name := textOfName [[120], [95, 97], [95, 116, 99, 112], [108, 111, 99, 97, 108]],
    server := textOfName [[104, 49], [108, 111, 99, 97, 108]], port := 80, weight := 0, priority := 0, text := [3, 107, 61, 118],
    hostTtl := 120, otherTtl := 4500, v4 := [[10, 0, 0, 1]], v6 := [] }

/-- the enumeration name `_services._dns-sd._udp.local.` is encodable (kernel-evaluated through the text layer) -/
theorem enumName_safe : NameTextSafe RespSpec.enumName := by
  unfold NameTextSafe labelsOfText
  decide +kernel

/-- non-vacuity of `DryRunSound`, premise true: the dry-run encode of the D28 repair accepts the example service … -/
theorem exSvcSafe_dryRun : (encodesFirst true exSvcSafe).toOption.isSome = true := by decide +kernel

/-- … every record of its announcement fits a datagram … -/
theorem exSvcSafe_fits : Wire.Encode.FitAll (dryMsg exSvcSafe) := by
  refine ⟨by decide +kernel, by decide +kernel, by decide +kernel, by decide +kernel⟩

/-- … and its own records are encodable -/
theorem exSvcSafe_safe : SvcSafe id 4500 exSvcSafe := by
  have henum := enumName_safe
  have hT : NameTextSafe exSvcSafe.type := exTypeA_safe
  have hN : NameTextSafe exSvcSafe.name := fromWire_safe textGlue ⟨_, by decide +kernel, by decide +kernel, rfl⟩
  have hS : NameTextSafe exSvcSafe.server := fromWire_safe textGlue ⟨_, by decide +kernel, by decide +kernel, rfl⟩
  intro r hr
  simp only [RespSpec.own, RespSpec.enumPtr, RespSpec.ptrOf, RespSpec.srvOf, RespSpec.txtOf, RespSpec.addrsOf, RespSpec.nsecOf,
    RespSpec.missing, exSvcSafe, List.map_cons, List.map_nil, List.isEmpty_cons, List.isEmpty_nil, List.cons_append, List.nil_append,
    List.append_nil, if_true, if_false, Bool.false_eq_true, List.mem_cons, List.not_mem_nil, or_false, id] at hr
  rcases hr with rfl | rfl | rfl | rfl | rfl | rfl
  · exact ⟨henum, by decide, by decide, by decide, hT⟩
  · exact ⟨hT, by decide, by decide, by decide, hN⟩
  · exact ⟨hN, by decide, by decide, by decide, by decide, by decide, by decide, hS⟩
  · exact ⟨hN, by decide, by decide, by decide, by decide⟩
  · exact ⟨hS, by decide, by decide, by decide, by decide⟩
  · exact ⟨hN, by decide, by decide, by decide, hN, by decide⟩

/-! ### the invariant is not only the empty state's: a populated instance, reached through the modelled blocks

(review 2, finding 1: the only witness of `CInv`/`CTInv`/`CFInv` used to be the empty state, and registration / browser start /
lookup start were `other` blocks under `hO`.)  From the initial state, the API blocks `update` (a service with address, TXT, SRV),
`browserStart` for `_a._tcp.local.`, `schedStart`, `lookupStart`, `addUser` run — evaluated by the kernel — to a state with one
registered service (`has_entries`), one browser with its armed scheduler, one lookup in progress and one user listener; by
`hrun_inv` that state satisfies the full invariant, so every theorem of this file applies to it and to everything reachable from it. -/

def exPopulate : List (HBlock Nat) :=
  [.api (.update exSvcSafe), .api (.browserStart ⟨[exTypeA], 1000, none, 20, 120⟩ 30), .api (.schedStart 0 50 30),
   .api (.lookupStart exTypeA 40), .api (.addUser 0)]

def exEmpty : CS Nat := ⟨{}, [], [], [], {}, [], [], none, ({}, {})⟩

/-- the parameters of the kernel-evaluated run (no API block looks at them) -/
abbrev exRun (s : State (CS Nat)) (bs : List (HBlock Nat)) :=
  hrun id possibleTypes 4500 (fun _ _ => true) (fun _ t => (20, 20, t)) (fun _ => 0) exUser (fun _ _ _ => false) s bs

theorem C15_populated_instance :
    ∃ s out, exRun (State.init exEmpty) exPopulate = .ok (s, out) ∧ HInv id 4500 (fun _ : Nat => True) 40 s ∧
      s.down.reg.services.length = 1 ∧ s.down.reg.hasEntries = true ∧ s.down.browsers.length = 1 ∧ s.down.scheds.length = 1 ∧
      s.down.lookups.length = 1 ∧ s.down.rest.1.users.length = 1 := by
  have hev : (match exRun (State.init exEmpty) exPopulate with
      | .ok (s, _) => (s.down.reg.services.length, s.down.reg.hasEntries, s.down.browsers.length, s.down.scheds.length,
                       s.down.lookups.length, s.down.rest.1.users.length)
      | .error _ => (0, false, 0, 0, 0, 0)) = (1, true, 1, 1, 1, 1) := by decide +kernel
  have hsafe : ∀ b ∈ exPopulate, HSafe id 4500 (fun _ : Nat => True) b := by
    intro b hb
    simp only [exPopulate, List.mem_cons, List.not_mem_nil, or_false] at hb
    rcases hb with rfl | rfl | rfl | rfl | rfl
    · exact ArgsInRange.of_safe id 4500 exSvcSafe_safe exSvcSafe_fits
    · show TypesSafe [exTypeA]
      intro t ht; simp only [List.mem_singleton] at ht; subst ht; exact exTypeA_safe
    · trivial
    · exact exTypeA_safe
    · trivial
  have hmono : Mono 0 exPopulate := ⟨by decide, by decide, by decide, trivial⟩
  cases hr : exRun (State.init exEmpty) exPopulate with
  | error e => rw [hr] at hev; cases hev
  | ok v =>
    obtain ⟨s, out⟩ := v
    rw [hr] at hev
    simp only [Prod.mk.injEq] at hev
    have hUok : UserOK exUser (fun _ : Nat => True) := ⟨fun u _ _ _ _ => ⟨u + 1, _, rfl, trivial⟩, fun u _ _ => ⟨u, _, rfl, trivial⟩⟩
    have hI := hrun_inv id possibleTypes 4500 (fun _ => 0) exUser (fun _ _ _ => false) (fun _ : Nat => True) textGlue hUok
      (down_closed id possibleTypes 4500 (fun _ _ => true) (fun _ t => (20, 20, t)) exUser (fun _ _ _ => false) (fun _ : Nat => True) textGlue hUok)
      exPopulate 0 (State.init exEmpty) s out (C15_closed_init id 4500 (fun _ : Nat => True) 0) hmono hsafe hr
    exact ⟨s, out, rfl, hI, hev.1, hev.2.1, hev.2.2.1, hev.2.2.2.1, hev.2.2.2.2.1, hev.2.2.2.2.2⟩

/-! ## Browser handlers: the model's callbacks are calls that return (review 2, finding 2)

The composite emits what a browser fires as data (`COut.callback`); the handlers (`ServiceListener.add_service` …, or callables) are
application code called from inside `datagram_received` with no containment (`Signal.fire`).  Named: `HandlersOK`. -/

/-- **`HandlersOK` is what the callback outputs of the model stand for**: when the handlers return, the code's
`async_update_records_complete` (handlers as a parameter, `Model/SurviveHandlers.completeE`) is exactly C04's `Browser.complete`
that the composite runs. -/
theorem C15_handlers_return_is_the_model {h : Handlers.Handler} (hok : Handlers.HandlersOK h) (b : Browser) :
    Handlers.completeE h b = ((Browser.complete b).1, .ok (Browser.complete b).2) :=
  Handlers.completeE_eq_complete hok b

/-- **before the D24b repair (aa04e95) a raising handler wedged its browser** (F-U2; a theorem about the old
`async_update_records_complete`, `Handlers.completeBeforeD24b`): if the handlers raise for `Added(t, n)` while that event is pending,
the call raised — out of `async_updates_complete`, `async_updates_from_response`, `datagram_received` — left `_pending_handlers` as it
was and, since nothing overwrites a pending `Added`, **every later call raised again**, whatever updates arrived in between. -/
theorem C15_raising_handler_wedged_browser_before_fix (lower : String → String) (possible : String → List String)
    {h : Handlers.Handler} {t n : String} (hraise : ∃ e, h ⟨.added, t, n⟩ = .error e) {b : Browser}
    (hp : Handlers.PendingAdded (n, t) b) :
    ((Handlers.completeBeforeD24b h b).1 = b ∧ ∃ e, (Handlers.completeBeforeD24b h b).2 = .error e) ∧
    ∀ rounds : List (Cache × Ms × List (Rec × Option Rec)),
      ∃ e, (Handlers.completeBeforeD24b h (rounds.foldl (fun b r => Browser.updateRecords lower possible r.1 r.2.1 b r.2.2) b)).2 = .error e :=
  Handlers.raising_handler_wedged_before_fix lower possible hraise hp

/-- **since the repair it raises once**: the dict is detached before the first handler runs, so the call that fires the event raises
(user code: outside the property's quantifier) and the event is gone — the browser goes on receiving every later event
(`corpus/C15/d24b-browser-handler-raises-once.json` replays it on the real code and reports a violation should the wedge return). -/
theorem C15_raising_handler_raises_once {h : Handlers.Handler} {t n : String} (hraise : ∃ e, h ⟨.added, t, n⟩ = .error e) {b : Browser}
    (hp : Handlers.PendingAdded (n, t) b) :
    (∃ e, (Handlers.completeE h b).2 = .error e) ∧ ¬ Handlers.PendingAdded (n, t) (Handlers.completeE h b).1 :=
  Handlers.raising_handler_raises_once hraise hp

/-- the hypothesis is satisfiable and can fail: a handler that raises for one name only, with that event pending -/
example : ∃ h : Handlers.Handler, ¬ Handlers.HandlersOK h ∧
    Handlers.PendingAdded ("evil._b._tcp.local.", "_b._tcp.local.")
      (({ types := ["_b._tcp.local."] } : Browser).enqueue .added "_b._tcp.local." "evil._b._tcp.local.") :=
  ⟨fun cb => if cb.name = "evil._b._tcp.local." then .error .valueError else .ok (),
   fun hok => by have := hok ⟨.added, "_b._tcp.local.", "evil._b._tcp.local."⟩; simp at this,
   by simp [Handlers.PendingAdded, Browser.enqueue, pendingGet, pendingSet, enqueue_test_iff]⟩

/-! ## The browsed types come from the API only (review 2, finding 3)

`TypesSafe` of a scheduler's configuration is not enforced by the code (`ServiceBrowser.__init__` validates with `strict=False`:
`C15_nonstrict_name_refuted`, finding F-R3).  But no datagram can put a type there: -/

/-- **a datagram block leaves every scheduler's configuration (its browsed types) as it was**: whatever bytes arrive, each scheduler
afterwards has the configuration of a scheduler before.  `TypesSafe` can only be broken by the application, at `browserStart`. -/
theorem C15_browsed_types_only_from_api (lower : String → String) (possible : String → List String) (ettl : Nat)
    (attrib : Question → Rec → Bool) (orc : Route.Oracle) {υ ω : Type} (U : UserL υ ω) (upd : Ms → List (Rec × Option Rec) → Nat → Bool)
    (s s' : State (CS υ)) (data : Bytes) (addr : Addr) (port : Nat) (now : Ms) (draw : Nat) (out : List (Out (COut ω))) (tag : Tag)
    (h : recv (down lower possible ettl attrib orc U upd) s data addr port now draw = .ok (s', out, tag)) :
    ∀ cs' ∈ s'.down.scheds, ∃ cs ∈ s.down.scheds, cs'.1 = cs.1 :=
  recv_frame (cfgs_frame lower possible ettl (Route.rest lower attrib orc (userBase U upd)))
    (fun _ _ _ _ _ hi => ingest_cfgs lower possible ettl _ hi) h

/-! ## The third clause over the closed composite -/

section keeps_working
variable (lower : String → String) (possible : String → List String) (ettl : Nat)
variable (attrib : Question → Rec → Bool) (orc : Route.Oracle) (sz : QueryGen.QOut → Nat)
variable {υ ω : Type} (U : UserL υ ω) (upd : Ms → List (Rec × Option Rec) → Nat → Bool) (Iυ : υ → Prop)

/-- **`PtrNotCached`** — the hypothesis of the two announcement theorems that limits them to *first* announcements (review 3): the
cache does not hold the announced pointer (same name, class, alias).  Inside the theorem: a pointer announced for the first time, and a
pointer announced again **after a goodbye** (the record manager removes a goodbye'd record from the cache in the goodbye's own block, so
the next announcement finds nothing).  **Outside**: a pointer that is still in the cache — alive, or *run out by time but not yet purged*
(the 10 s cleanup has not fired), or left there by a datagram that carried the goodbye and a live copy together (seeded defect
C15-seed2's class; canary 2b and `corpus/C15/ptr-goodbye-then-live-cached.json` observe it on the implementation).  For such a pointer
the record manager hands the browser `(record, old)` with `old ≠ None`, and the browser — model `Browser.updateOne` and code alike —
enqueues nothing for a live record: no `Added` is due, because none was ever taken back (`Removed` is enqueued only by a goodbye or by
the purge, and both remove the entry).  The theorems make no statement for that case; what holds there (the entry is refreshed, the
browser's last callback for it stays `Added`) is checked on the implementation only. -/
def PtrNotCached (lower : String → String) (c : Cache) (w : Rec) (now : Ms) : Prop :=
  Cache.getUnique lower c (floorPtr (w.setLife now w.ttl)) = none

/-- non-vacuity: an instance that has heard nothing yet -/
example (w : Rec) (now : Ms) : PtrNotCached id ({} : Cache) w now := rfl

/-- **An announcement sent after any closed history still reaches its browsers** (`_partial`: `UserOK`, `ApiSafe`, `Mono`).
After ANY history of blocks of every kind: a valid response of at most 8966 bytes that the duplicate guard does not drop and that
carries a pointer record alive after the PTR TTL floor, not cached, whose owner matches a type `t` browsed by a registered browser
makes `datagram_received` return normally with that browser's `Added(t, alias)` callback among the block's outputs. -/
theorem C15_announcement_reaches_browser_closed_partial (hU : UserOK U Iυ) (bs : List (HBlock υ)) (c : Ms)
    (s0 s1 : State (CS υ)) (o1 : List (Out (COut ω)))
    (hI : HInv lower ettl Iυ c s0) (hm : Mono c bs) (hs : ∀ b ∈ bs, HSafe lower ettl Iυ b)
    (hrun' : hrun lower possible ettl attrib orc sz U upd s0 bs = .ok (s1, o1))
    (data : Bytes) (addr : Addr) (port : Nat) (now : Ms) (draw : Nat) (p : Parsed)
    (hsize : data.length ≤ 8966) (hg : guardHit s1 data now = false) (hp : (parse data).out = .ok p)
    (hv : p.valid = true) (hq : Gen.Listener.is_query p.hdr.flags = false)
    {w : Rec} (hw : w ∈ recsOf ⟨data, now, p, none⟩) {alias t : String}
    (hty : w.type = Gen.typePtr) (hrd : w.rdata = .ptr alias)
    (hlive : (floorPtr (w.setLife now w.ttl)).isExpired now = false)
    (hnew : PtrNotCached lower s1.down.cache w now)
    {b : Browser} (hb : b ∈ s1.down.browsers) (ht : t ∈ b.types) (hposs : (possible w.name).contains t = true) :
    ∃ s' out i, recv (down lower possible ettl attrib orc U upd) s1 data addr port now draw = .ok (s', out, .response) ∧
      Out.down (COut.callback i ⟨.added, t, alias⟩) ∈ out := by
  have hI1 := hrun_inv lower possible ettl sz U upd Iυ textGlue hU (down_closed lower possible ettl attrib orc U upd Iυ textGlue hU) bs c s0 s1 o1 hI hm hs hrun'
  obtain ⟨p', hp', hk⟩ := parse_pkt data now hsize
  rw [hp] at hp'
  cases hp'
  have hL := Route.listenersOK lower attrib orc (userBase U upd) (UInv Iυ) (userBase_ok U upd Iυ hU)
  obtain ⟨d', out, i, hi, hmem⟩ := comp_ingest_added lower possible ettl (Route.rest lower attrib orc (userBase U upd))
    (Route.Inv (UInv Iυ)) hL hI1.full.1.1 ⟨data, now, p, none⟩ hk hw hty hrd hlive hnew hb ht hposs
  have heq := recv_response_eq (down lower possible ettl attrib orc U upd) s1 data addr port now draw p hsize hg hp hv hq
  have hi' : (down lower possible ettl attrib orc U upd).ingest s1.down ⟨data, now, p, none⟩ = .ok (d', out) := hi
  rw [hi'] at heq
  exact ⟨_, _, i, heq, List.mem_map_of_mem hmem⟩

end keeps_working

end Zc
