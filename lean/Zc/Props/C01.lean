import Zc.Model.Wire.Encode
import Zc.Model.Wire.Strict
namespace Zc
open Zc.Wire Zc.Wire.Encode

/-- placeholder while the round-trip proof is being built -/
theorem C01_fresh_size : St.fresh.size = 12 := by decide

end Zc
