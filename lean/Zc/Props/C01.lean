import Zc.Proofs.Wire.Message
import Zc.Props.C02
/-! # C01 — wire codec round trip

Every question and record handed to the message builder is recovered unchanged — name spelling,
type, class, cache-flush/QU bit (multicast messages only), TTL (or remaining TTL) and rdata — by
decoding the emitted datagram(s) with an **independent strict RFC 1035 decoder**
(`Wire.Strict.decode`), per section, in order, none lost, duplicated or invented, however name
compression and packet splitting fall; labels longer than 63 bytes are rejected with
`NamePartTooLongException`.

The encoder model `Wire.Encode.packets` is byte-exact against `DNSOutgoing.packets()` on every run
(correspondence harness).  The statement for the library's own decoder, `C01_roundtrip_lib`, composes
the strict round trip with C02 (`C02_agrees_strict`).

All seven record kinds (A/AAAA, PTR/CNAME, TXT, SRV, HINFO, NSEC) are inside `WFMsg`. -/
namespace Zc
open Zc.Wire Zc.Wire.Encode

/-- what the whole message looks like on the wire, per section -/
def onWireQuestions (m : Msg) : List WQuestion := m.questions.map (EQuestion.onWire m.multicast)
def onWireAnswers (m : Msg) : List WRecord := m.answers.map (fun x => x.1.onWire m.multicast x.2)
def onWireAuthorities (m : Msg) : List WRecord := m.authorities.map (fun r => r.onWire m.multicast 0)
def onWireAdditionals (m : Msg) : List WRecord := m.additionals.map (fun r => r.onWire m.multicast 0)

/-- **Round trip.**  For every message inside the quantifier (`WFMsg`: names of 1..128 labels of
1..63 bytes and ≤ 253 characters, 16-bit types, 15-bit classes, TTL < 2³², character-strings ≤ 255,
rdata matching the record type, NSEC types non-empty, increasing, ≤ 255; `FitAll`: every entry alone fits 8966 bytes), every datagram the
builder emits is accepted by the strict decoder, and concatenating what it decodes gives back each
section exactly: same entries, same order, nothing lost, duplicated or invented. -/
theorem C01_roundtrip_strict (m : Msg) (hwf : WFMsg m) (hfit : FitAll m) (pks : List Bytes)
    (h : packets m = .ok pks) :
    ∃ msgs : List WMsg, pks.map Strict.decode = msgs.map some ∧
      msgs.flatMap (·.questions) = onWireQuestions m ∧
      msgs.flatMap (·.answers) = onWireAnswers m ∧
      msgs.flatMap (·.authorities) = onWireAuthorities m ∧
      msgs.flatMap (·.additionals) = onWireAdditionals m := by
  unfold packets at h
  obtain ⟨msgs, e, _, s1, s2, s3, s4, _⟩ := packetsLoop_spec m hwf hfit _ ⟨0, 0, 0, 0⟩ pks
    ⟨Nat.zero_le _, Nat.zero_le _, Nat.zero_le _, Nat.zero_le _⟩ (by simp [remaining]) h
  exact ⟨msgs, e, by simpa [onWireQuestions] using s1, by simpa [onWireAnswers] using s2,
    by simpa [onWireAuthorities] using s3, by simpa [onWireAdditionals] using s4⟩

/-- the id of every datagram is the message id, or 0 for multicast messages -/
theorem C01_id (m : Msg) (hwf : WFMsg m) (hfit : FitAll m) (pks : List Bytes) (h : packets m = .ok pks) :
    ∀ p ∈ pks, ∃ w, Strict.decode p = some w ∧ w.id = (if m.multicast then 0 else m.id) := by
  unfold packets at h
  obtain ⟨msgs, e, _, _, _, _, _, _, _, hid, _⟩ := packetsLoop_spec m hwf hfit _ ⟨0, 0, 0, 0⟩ pks
    ⟨Nat.zero_le _, Nat.zero_le _, Nat.zero_le _, Nat.zero_le _⟩ (by simp [remaining]) h
  intro p hp
  have : Strict.decode p ∈ pks.map Strict.decode := List.mem_map_of_mem hp
  rw [e] at this
  simp only [List.mem_map] at this
  obtain ⟨w, hw, hw2⟩ := this
  exact ⟨w, hw2.symm, hid w hw⟩

/-- **Label limit** (D1): a label is written iff it is at most 63 bytes long; a longer one raises
`NamePartTooLongException`.  (On the unrepaired tree the guard was `> 64`: this theorem does not build.) -/
theorem C01_label_limit (l : Label) :
    (l.length ≤ 63 → utfOf l = .ok (l.length.toUInt8 :: l)) ∧ (63 < l.length → utfOf l = .error .namePartTooLong) := by
  constructor
  · intro h
    unfold utfOf
    rw [GenFacts.Outgoing.label_short_accepted _ h, byteOf_ok _ (by omega)]
    rfl
  · intro h
    unfold utfOf
    rw [GenFacts.Outgoing.label_long_rejected _ h]
    rfl

/-- the class field carries the unique/QU bit only for multicast messages -/
theorem C01_flush_bit_multicast_only (c : Nat) (u : Bool) (hc : c < 32768) :
    classField c u false = c ∧ classField c u true = (if u then c + 32768 else c) := by
  rw [classField_eq _ _ _ hc, classField_eq _ _ _ hc]
  cases u <;> simp [wireClass]

/-! ### the library's own decoder (through C02) -/

/-- every name handed to the builder: question names, owner names, names inside rdata -/
def erdataNames : ERData → List WName
  | .ptr t => [t]
  | .srv _ _ _ t => [t]
  | .nsec n _ => [n]
  | _ => []

def msgNamesE (m : Msg) : List WName :=
  m.questions.map (·.name)
    ++ (m.answers.map (·.1) ++ m.authorities ++ m.additionals).flatMap (fun r => r.name :: erdataNames r.rdata)

/-- names are text: each label is what `str.encode('utf-8')` produced, so decoding it and encoding it
again yields the same at most 63 bytes -/
def TextLabels (m : Msg) : Prop := ∀ n ∈ msgNamesE m, ∀ l ∈ n, Utf8.reencodedLen l ≤ 63

instance (m : Msg) : Decidable (TextLabels m) := by unfold TextLabels; infer_instance

theorem onWire_not_other (rd : ERData) : (match rd.onWire with | .other _ => false | _ => true) = true := by
  cases rd <;> rfl

theorem rdataNames_onWire (rd : ERData) : DecodeSpec.rdataNames rd.onWire = erdataNames rd := by
  cases rd <;> rfl

/-- **Round trip through the library's own decoder.**  Every emitted datagram is parsed by the model of
`DNSIncoming` (C02) into a valid object that carries exactly what the strict decoder reads — so the
round trip of `C01_roundtrip_strict` holds for the library's decoder too. -/
theorem C01_roundtrip_lib (m : Msg) (hwf : WFMsg m) (hfit : FitAll m) (htext : TextLabels m) (pks : List Bytes)
    (h : packets m = .ok pks) :
    ∃ msgs : List WMsg, pks.map Strict.decode = msgs.map some ∧
      msgs.flatMap (·.questions) = onWireQuestions m ∧
      msgs.flatMap (·.answers) = onWireAnswers m ∧
      msgs.flatMap (·.authorities) = onWireAuthorities m ∧
      msgs.flatMap (·.additionals) = onWireAdditionals m ∧
      ∀ p ∈ pks, ∃ w q, Strict.decode p = some w ∧ (DecodeLib.parse p).out = .ok q ∧ DecodeSpec.agrees q w = true := by
  obtain ⟨msgs, e, s1, s2, s3, s4⟩ := C01_roundtrip_strict m hwf hfit pks h
  refine ⟨msgs, e, s1, s2, s3, s4, ?_⟩
  intro p hp
  have hm : Strict.decode p ∈ pks.map Strict.decode := List.mem_map_of_mem hp
  rw [e] at hm
  simp only [List.mem_map] at hm
  obtain ⟨w, hw, hw2⟩ := hm
  -- every entry of `w` is the wire form of an entry of `m`
  have qsub : ∀ q ∈ w.questions, ∃ x ∈ m.questions, q = x.onWire m.multicast := by
    intro q hq
    have : q ∈ msgs.flatMap (·.questions) := List.mem_flatMap.mpr ⟨w, hw, hq⟩
    rw [s1] at this
    simp only [onWireQuestions, List.mem_map] at this
    obtain ⟨x, hx, rfl⟩ := this; exact ⟨x, hx, rfl⟩
  have rsub : ∀ r ∈ w.answers ++ w.authorities ++ w.additionals,
      ∃ x now, x ∈ m.answers.map (·.1) ++ m.authorities ++ m.additionals ∧ r = x.onWire m.multicast now := by
    intro r hr
    simp only [List.mem_append] at hr
    rcases hr with (hr | hr) | hr
    · have : r ∈ msgs.flatMap (·.answers) := List.mem_flatMap.mpr ⟨w, hw, hr⟩
      rw [s2] at this
      simp only [onWireAnswers, List.mem_map] at this
      obtain ⟨x, hx, rfl⟩ := this
      exact ⟨x.1, x.2, by simp only [List.mem_append, List.mem_map]; exact Or.inl (Or.inl ⟨x, hx, rfl⟩), rfl⟩
    · have : r ∈ msgs.flatMap (·.authorities) := List.mem_flatMap.mpr ⟨w, hw, hr⟩
      rw [s3] at this
      simp only [onWireAuthorities, List.mem_map] at this
      obtain ⟨x, hx, rfl⟩ := this
      exact ⟨x, 0, by simp only [List.mem_append]; exact Or.inl (Or.inr hx), rfl⟩
    · have : r ∈ msgs.flatMap (·.additionals) := List.mem_flatMap.mpr ⟨w, hw, hr⟩
      rw [s4] at this
      simp only [onWireAdditionals, List.mem_map] at this
      obtain ⟨x, hx, rfl⟩ := this
      exact ⟨x, 0, by simp only [List.mem_append]; exact Or.inr hx, rfl⟩
  have hsup : Strict.supportedOnly w = true := by
    simp only [Strict.supportedOnly, List.all_eq_true]
    intro r hr
    obtain ⟨x, now, _, rfl⟩ := rsub r hr
    exact onWire_not_other x.rdata
  have hre : DecodeSpec.reencodable w = true := by
    simp only [DecodeSpec.reencodable, DecodeSpec.msgNames, List.all_eq_true, List.mem_append, List.mem_map, List.mem_flatMap,
      decide_eq_true_eq]
    intro n hn l hl
    apply htext n _ l hl
    simp only [msgNamesE, List.mem_append, List.mem_map, List.mem_flatMap]
    rcases hn with ⟨q, hq, rfl⟩ | ⟨r, hr, hnr⟩
    · obtain ⟨x, hx, rfl⟩ := qsub q hq
      exact Or.inl ⟨x, hx, rfl⟩
    · obtain ⟨x, now, hx, rfl⟩ := rsub r (by simp only [List.mem_append]; exact hr)
      right
      refine ⟨x, by simp only [List.mem_append, List.mem_map] at hx ⊢; exact hx, ?_⟩
      simpa [ERecord.onWire, rdataNames_onWire] using hnr
  obtain ⟨q, hq1, hq2⟩ := C02_agrees_strict p w hw2.symm hsup hre
  exact ⟨w, q, hw2.symm, hq1, hq2⟩

/-! ### non-vacuity: a concrete message with compression (PTR + SRV + A sharing suffixes) meets the
hypotheses, and the theorem's conclusion can be observed on it -/
def exType : WName := [[95, 104], [95, 116], [108]]          -- _h._t.l
def exInst : WName := [70, 111] :: exType                     -- Fo._h._t.l
def exHost : WName := [[104], [108]]                          -- h.l

def exMsg : Msg :=
  { flags := 0x8400, id := 0, multicast := true, questions := [⟨exType, 12, 1, false⟩],
    answers := [(⟨exType, 12, 1, false, 4500, 0, .ptr exInst⟩, 0)],
    authorities := [],
    additionals := [⟨exInst, 33, 1, true, 120, 0, .srv 0 0 80 exHost⟩, ⟨exHost, 1, 1, true, 120, 0, .addr [10, 0, 0, 1]⟩,
                    ⟨exHost, 47, 1, true, 120, 0, .nsec exHost [1, 28, 47]⟩] }

example : WFMsg exMsg := ⟨by decide, by decide, by decide, by decide⟩
example : FitAll exMsg := ⟨by decide, by decide, by decide, by decide⟩
example : TextLabels exMsg := by decide
/-- the datagram really uses compression pointers: pointers for every repeated suffix -/
example : (packets exMsg).toOption.map (fun pks => pks.map List.length) = some [102] := by decide

end Zc
