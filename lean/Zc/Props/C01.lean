import Zc.Proofs.Wire.Message
import Zc.Proofs.Wire.Total
import Zc.Proofs.Wire.Reject
import Zc.Props.C02
import Zc.Proofs.NameTextWF
/-! # C01 — wire codec round trip

Every question and record handed to the message builder is recovered unchanged — name spelling,
type, class, cache-flush/QU bit (multicast messages only), TTL (or remaining TTL) and rdata — by
decoding the emitted datagram(s) with an **independent strict RFC 1035 decoder**
(`Wire.Strict.decode`), per section, in order, none lost, duplicated or invented, however name
compression and packet splitting fall; labels longer than 63 bytes are rejected with
`NamePartTooLongException`.

The encoder model `Wire.Encode.packets` is byte-exact against `DNSOutgoing.packets()` on every run
(correspondence harness).  The statement for the library's own decoder, `C01_roundtrip_lib`, composes
the strict round trip with C02 (`C02_agrees_strict`).

All seven record kinds (A/AAAA, PTR/CNAME, TXT, SRV, HINFO, NSEC) are inside `WFMsg`. -/
namespace Zc
open Zc.Wire Zc.Wire.Encode

/-- what the whole message looks like on the wire, per section -/
def onWireQuestions (m : Msg) : List WQuestion := m.questions.map (EQuestion.onWire m.multicast)
def onWireAnswers (m : Msg) : List WRecord := m.answers.map (fun x => x.1.onWire m.multicast x.2)
def onWireAuthorities (m : Msg) : List WRecord := m.authorities.map (fun r => r.onWire m.multicast 0)
def onWireAdditionals (m : Msg) : List WRecord := m.additionals.map (fun r => r.onWire m.multicast 0)

/-- **Round trip.**  For every message inside the quantifier (`WFMsg`: names of 1..128 labels of
1..63 bytes, ≤ 253 characters **and ≤ 255 octets on the wire** — the last clause narrows the property's
quantifier, see `C01_long_utf8_name_refuted` / finding D21 — 16-bit types, 15-bit classes, TTL < 2³², character-strings ≤ 255,
rdata matching the record type, NSEC types non-empty, increasing, ≤ 255; `FitAll`: every entry alone fits 8966 bytes), every datagram the
builder emits is accepted by the strict decoder, and concatenating what it decodes gives back each
section exactly: same entries, same order, nothing lost, duplicated or invented. -/
theorem C01_roundtrip_strict (m : Msg) (hwf : WFMsg m) (hfit : FitAll m) (pks : List Bytes)
    (h : packets m = .ok pks) :
    ∃ msgs : List WMsg, pks.map Strict.decode = msgs.map some ∧
      msgs.flatMap (·.questions) = onWireQuestions m ∧
      msgs.flatMap (·.answers) = onWireAnswers m ∧
      msgs.flatMap (·.authorities) = onWireAuthorities m ∧
      msgs.flatMap (·.additionals) = onWireAdditionals m := by
  unfold packets at h
  obtain ⟨msgs, e, _, s1, s2, s3, s4, _⟩ := packetsLoop_spec m hwf hfit _ ⟨0, 0, 0, 0⟩ pks
    ⟨Nat.zero_le _, Nat.zero_le _, Nat.zero_le _, Nat.zero_le _⟩ (by simp [remaining]) h
  exact ⟨msgs, e, by simpa [onWireQuestions] using s1, by simpa [onWireAnswers] using s2,
    by simpa [onWireAuthorities] using s3, by simpa [onWireAdditionals] using s4⟩

/-- the id of every datagram is the message id, or 0 for multicast messages -/
theorem C01_id (m : Msg) (hwf : WFMsg m) (hfit : FitAll m) (pks : List Bytes) (h : packets m = .ok pks) :
    ∀ p ∈ pks, ∃ w, Strict.decode p = some w ∧ w.id = (if m.multicast then 0 else m.id) := by
  unfold packets at h
  obtain ⟨msgs, e, _, _, _, _, _, _, _, hid, _⟩ := packetsLoop_spec m hwf hfit _ ⟨0, 0, 0, 0⟩ pks
    ⟨Nat.zero_le _, Nat.zero_le _, Nat.zero_le _, Nat.zero_le _⟩ (by simp [remaining]) h
  intro p hp
  have : Strict.decode p ∈ pks.map Strict.decode := List.mem_map_of_mem hp
  rw [e] at this
  simp only [List.mem_map] at this
  obtain ⟨w, hw, hw2⟩ := this
  exact ⟨w, hw2.symm, hid w hw⟩

/-- **Label limit** (D1): a label is written iff it is at most 63 bytes long; a longer one raises
`NamePartTooLongException`.  (On the unrepaired tree the guard was `> 64`: this theorem does not build.) -/
theorem C01_label_limit (l : Label) :
    (l.length ≤ 63 → utfOf l = .ok (l.length.toUInt8 :: l)) ∧ (63 < l.length → utfOf l = .error .namePartTooLong) := by
  constructor
  · intro h
    unfold utfOf
    rw [GenFacts.Outgoing.label_short_accepted _ h, byteOf_ok _ (by omega)]
    rfl
  · intro h
    unfold utfOf
    rw [GenFacts.Outgoing.label_long_rejected _ h]
    rfl

/-- the class field carries the unique/QU bit only for multicast messages -/
theorem C01_flush_bit_multicast_only (c : Nat) (u : Bool) (hc : c < 32768) :
    classField c u false = c ∧ classField c u true = (if u then c + 32768 else c) := by
  rw [classField_eq _ _ _ hc, classField_eq _ _ _ hc]
  cases u <;> simp [wireClass]

/-! ### the library's own decoder (through C02) -/

/-- every name handed to the builder: question names, owner names, names inside rdata -/
def erdataNames : ERData → List WName
  | .ptr t => [t]
  | .srv _ _ _ t => [t]
  | .nsec n _ => [n]
  | _ => []

def msgNamesE (m : Msg) : List WName :=
  m.questions.map (·.name)
    ++ (m.answers.map (·.1) ++ m.authorities ++ m.additionals).flatMap (fun r => r.name :: erdataNames r.rdata)

/-- names are text: each label is what `str.encode('utf-8')` produced, so decoding it and encoding it
again yields the same at most 63 bytes -/
def TextLabels (m : Msg) : Prop := ∀ n ∈ msgNamesE m, ∀ l ∈ n, Utf8.reencodedLen l ≤ 63

instance (m : Msg) : Decidable (TextLabels m) := by unfold TextLabels; infer_instance

theorem onWire_not_other (rd : ERData) : (match rd.onWire with | .other _ => false | _ => true) = true := by
  cases rd <;> rfl

theorem rdataNames_onWire (rd : ERData) : DecodeSpec.rdataNames rd.onWire = erdataNames rd := by
  cases rd <;> rfl

/-- **Round trip through the library's own decoder.**  Every emitted datagram is parsed by the model of
`DNSIncoming` (C02) into a valid object that carries exactly what the strict decoder reads — so the
round trip of `C01_roundtrip_strict` holds for the library's decoder too. -/
theorem C01_roundtrip_lib (m : Msg) (hwf : WFMsg m) (hfit : FitAll m) (htext : TextLabels m) (pks : List Bytes)
    (h : packets m = .ok pks) :
    ∃ msgs : List WMsg, pks.map Strict.decode = msgs.map some ∧
      msgs.flatMap (·.questions) = onWireQuestions m ∧
      msgs.flatMap (·.answers) = onWireAnswers m ∧
      msgs.flatMap (·.authorities) = onWireAuthorities m ∧
      msgs.flatMap (·.additionals) = onWireAdditionals m ∧
      ∀ p ∈ pks, ∃ w q, Strict.decode p = some w ∧ (DecodeLib.parse p).out = .ok q ∧ DecodeSpec.agrees q w = true := by
  obtain ⟨msgs, e, s1, s2, s3, s4⟩ := C01_roundtrip_strict m hwf hfit pks h
  refine ⟨msgs, e, s1, s2, s3, s4, ?_⟩
  intro p hp
  have hm : Strict.decode p ∈ pks.map Strict.decode := List.mem_map_of_mem hp
  rw [e] at hm
  simp only [List.mem_map] at hm
  obtain ⟨w, hw, hw2⟩ := hm
  -- every entry of `w` is the wire form of an entry of `m`
  have qsub : ∀ q ∈ w.questions, ∃ x ∈ m.questions, q = x.onWire m.multicast := by
    intro q hq
    have : q ∈ msgs.flatMap (·.questions) := List.mem_flatMap.mpr ⟨w, hw, hq⟩
    rw [s1] at this
    simp only [onWireQuestions, List.mem_map] at this
    obtain ⟨x, hx, rfl⟩ := this; exact ⟨x, hx, rfl⟩
  have rsub : ∀ r ∈ w.answers ++ w.authorities ++ w.additionals,
      ∃ x now, x ∈ m.answers.map (·.1) ++ m.authorities ++ m.additionals ∧ r = x.onWire m.multicast now := by
    intro r hr
    simp only [List.mem_append] at hr
    rcases hr with (hr | hr) | hr
    · have : r ∈ msgs.flatMap (·.answers) := List.mem_flatMap.mpr ⟨w, hw, hr⟩
      rw [s2] at this
      simp only [onWireAnswers, List.mem_map] at this
      obtain ⟨x, hx, rfl⟩ := this
      exact ⟨x.1, x.2, by simp only [List.mem_append, List.mem_map]; exact Or.inl (Or.inl ⟨x, hx, rfl⟩), rfl⟩
    · have : r ∈ msgs.flatMap (·.authorities) := List.mem_flatMap.mpr ⟨w, hw, hr⟩
      rw [s3] at this
      simp only [onWireAuthorities, List.mem_map] at this
      obtain ⟨x, hx, rfl⟩ := this
      exact ⟨x, 0, by simp only [List.mem_append]; exact Or.inl (Or.inr hx), rfl⟩
    · have : r ∈ msgs.flatMap (·.additionals) := List.mem_flatMap.mpr ⟨w, hw, hr⟩
      rw [s4] at this
      simp only [onWireAdditionals, List.mem_map] at this
      obtain ⟨x, hx, rfl⟩ := this
      exact ⟨x, 0, by simp only [List.mem_append]; exact Or.inr hx, rfl⟩
  have hsup : Strict.supportedOnly w = true := by
    simp only [Strict.supportedOnly, List.all_eq_true]
    intro r hr
    obtain ⟨x, now, _, rfl⟩ := rsub r hr
    exact onWire_not_other x.rdata
  have hre : DecodeSpec.reencodable w = true := by
    simp only [DecodeSpec.reencodable, DecodeSpec.msgNames, List.all_eq_true, List.mem_append, List.mem_map, List.mem_flatMap,
      decide_eq_true_eq]
    intro n hn l hl
    apply htext n _ l hl
    simp only [msgNamesE, List.mem_append, List.mem_map, List.mem_flatMap]
    rcases hn with ⟨q, hq, rfl⟩ | ⟨r, hr, hnr⟩
    · obtain ⟨x, hx, rfl⟩ := qsub q hq
      exact Or.inl ⟨x, hx, rfl⟩
    · obtain ⟨x, now, hx, rfl⟩ := rsub r (by simp only [List.mem_append]; exact hr)
      right
      refine ⟨x, by simp only [List.mem_append, List.mem_map] at hx ⊢; exact hx, ?_⟩
      simpa [ERecord.onWire, rdataNames_onWire] using hnr
  obtain ⟨q, hq1, hq2⟩ := C02_agrees_strict p w hw2.symm hsup hre
  exact ⟨w, q, hw2.symm, hq1, hq2⟩

/-! ### the dichotomy: either datagrams come out (and round-trip), or `NamePartTooLongException` -/

/-- **Totality.**  A message inside the quantifier with 16-bit flags and id (and TXT payloads of a size the
16-bit rdlength can carry — anything that fits a datagram is far below) is accepted by the builder:
`packets()` returns datagrams, no raise site is reached. -/
theorem C01_total (m : Msg) (hwf : WFMsg m) (hf : m.flags < 65536) (hi : m.id < 65536) (ht : TxtOK m) :
    ∃ pks, packets m = .ok pks :=
  Zc.Survive.packets_total m (hwf.safe hf hi ht)

/-- totality and round trip together: the datagrams exist and decode back to the message -/
theorem C01_roundtrip_total (m : Msg) (hwf : WFMsg m) (hfit : FitAll m) (hf : m.flags < 65536) (hi : m.id < 65536)
    (ht : TxtOK m) :
    ∃ (pks : List Bytes) (msgs : List WMsg), packets m = .ok pks ∧ pks.map Strict.decode = msgs.map some ∧
      msgs.flatMap (·.questions) = onWireQuestions m ∧ msgs.flatMap (·.answers) = onWireAnswers m ∧
      msgs.flatMap (·.authorities) = onWireAuthorities m ∧ msgs.flatMap (·.additionals) = onWireAdditionals m := by
  obtain ⟨pks, h⟩ := C01_total m hwf hf hi ht
  obtain ⟨msgs, h1, h2, h3, h4, h5⟩ := C01_roundtrip_strict m hwf hfit pks h
  exact ⟨pks, msgs, h, h1, h2, h3, h4, h5⟩

/-- **Rejection.**  A name with a label of more than 63 bytes makes `write_name` raise
`NamePartTooLongException` — nothing else, and nothing is written — for every names table whose keys no
longer than the name have short labels only (hypothesis `hnames`; that every table the builder can hold
satisfies it is `ShortKeys`, an invariant proved below: `C01_table_short_keys`, `C01_reach_*`).
Records, every reachable state and whole messages follow: `C01_record_rejected`, `C01_question_rejected_reachable`,
`C01_message_rejected`, `C01_rejected_iff_partial`. -/
theorem C01_name_rejected (n : WName) (size : Nat) (names : Names) (hbad : ∃ l ∈ n, 63 < l.length)
    (hnames : ∀ p ∈ names, p.1.length ≤ n.length → ∀ l ∈ p.1, l.length ≤ 63) :
    writeName size names n = .error .namePartTooLong :=
  writeName_rejects n size names hbad hnames

/-- the first question of a datagram (empty names table, offset 12) -/
theorem C01_question_rejected (mc : Bool) (q : EQuestion) (hbad : ∃ l ∈ q.name, 63 < l.length) :
    encQuestion mc 12 [] q = .error .namePartTooLong :=
  encQuestion_rejects mc 12 [] q hbad (by intro p hp; simp at hp)

/-! #### … from every state the builder can be in

`C01_name_rejected` asks that the table's keys no longer than the name have short labels; `C01_question_rejected` is
the first question of a datagram.  What closes the gap is the invariant `ShortKeys` ("every key of the names table has
labels of at most 63 bytes only") of `Reach` ("what is true of the packet under construction while `packets()` has not
raised": size ≤ 8966, table offsets < 16384, `ShortKeys`): it holds of the fresh packet and is preserved by every
question / record the builder writes or rolls back (`C01_reach_*`), and from every such state a question **or record**
with an over-long label — in the owner name or in the name its rdata carries — raises `NamePartTooLongException`. -/

theorem C01_reach_fresh : Reach St.fresh := Reach.fresh

/-- whatever a question does to the packet under construction (written, or rolled back), `Reach` is kept -/
theorem C01_reach_question (mc : Bool) (st st' : St) (q : EQuestion) (ok : Bool) (hr : Reach st) (hq : Zc.Survive.QSafe q)
    (hw : writeQuestion mc st q = .ok (st', ok)) : Reach st' := by
  obtain ⟨st1, ok1, h1, hr1, _⟩ := (stepOK_question mc).good st q hr hq
  rw [h1] at hw
  cases hw
  exact hr1

/-- the same for a record -/
theorem C01_reach_record (mc : Bool) (st st' : St) (r : ERecord) (now : Ms) (ok : Bool) (hr : Reach st)
    (hs : Zc.Survive.RecSafe r now) (hw : writeRecord mc st r now = .ok (st', ok)) : Reach st' := by
  obtain ⟨st1, ok1, h1, hr1, _⟩ := (stepOK_record mc).good st (r, now) hr hs
  rw [h1] at hw
  cases hw
  exact hr1

/-- the invariant needs no hypothesis on the entry when the write returns at all: a names table with short keys only
keeps short keys only (an over-long label makes the write raise, it never gets registered and survive) -/
theorem C01_table_short_keys (mc : Bool) (st st' : St) (r : ERecord) (now : Ms) (ok : Bool) (hk : ShortKeys st.names)
    (hw : writeRecord mc st r now = .ok (st', ok)) : ShortKeys st'.names :=
  writeRecord_shortKeys mc st st' r now ok hk hw

/-- **a question with an over-long label is rejected from every reachable state** (any offset, any table) -/
theorem C01_question_rejected_reachable (mc : Bool) (st : St) (q : EQuestion) (hr : Reach st) (hbad : HasLong q.name) :
    writeQuestion mc st q = .error .namePartTooLong :=
  writeQuestion_rejects mc st q hr hbad

/-- **a record with an over-long label is rejected from every reachable state**: `RecLong` = the owner name has a
label of more than 63 bytes, or (owner name, type, class, TTL being in range, so that the builder gets that far) the
PTR/CNAME target, SRV target or NSEC next name has one.  `NamePartTooLongException` and nothing else is raised. -/
theorem C01_record_rejected (mc : Bool) (st : St) (r : ERecord) (now : Ms) (hr : Reach st) (hbad : RecLong r now) :
    writeRecord mc st r now = .error .namePartTooLong :=
  writeRecord_rejects mc st r now hr hbad

/-- … and from every names table with short keys at every offset a datagram can have (the statement on `encRecord`) -/
theorem C01_record_rejected_table (mc : Bool) (size : Nat) (names : Names) (r : ERecord) (now : Ms) (hbad : RecLong r now)
    (hs : Zc.Survive.NamesSmall names) (hk : ShortKeys names) (hsz : size ≤ 8966) :
    encRecord mc size names r now = .error .namePartTooLong :=
  encRecord_rejects mc size names r now hbad hs hk hsz

/-! #### … and the whole message

`MsgMixed m`: every entry is either acceptable to the encoder (`QSafe` / `RecSafe`: labels ≤ 63 bytes, names ≤ 1100
octets, 16-bit / 32-bit fields in range, char-strings ≤ 255, NSEC types well formed — wider than `WFMsg`, in particular
**not** narrowed by D21) or has an over-long label (`HasLong` / `RecLong`); `FitAll m`: every acceptable entry alone
fits 8966 bytes (an entry that does not is outside the property's quantifier; placed in front of the offending entry in
the same section it ends the loop — "no progress" — before the offending entry is tried: `C01_rejected_iff_refuted`). -/

/-- the message-level dichotomy at full strength, without the `FitAll` proviso -/
def C01_rejected_iff : Prop :=
  ∀ m : Msg, MsgMixed m → (packets m = .error .namePartTooLong ↔ HasLongEntry m)

/-- **a message with an over-long label is rejected** with `NamePartTooLongException` -/
theorem C01_message_rejected (m : Msg) (hm : MsgMixed m) (hfit : FitAll m) (hbad : HasLongEntry m) :
    packets m = .error .namePartTooLong :=
  packets_rejects m hm hfit hbad

theorem msgSafe_of_mixed (m : Msg) (hm : MsgMixed m) (hno : ¬ HasLongEntry m) : Zc.Survive.MsgSafe m := by
  simp only [HasLongEntry, LongRemains, List.drop_zero, not_or, not_exists, not_and] at hno
  obtain ⟨n1, n2, n3, n4⟩ := hno
  exact ⟨hm.flags, hm.id,
    fun q hq => (hm.questions q hq).resolve_right (n1 q hq),
    fun x hx => (hm.answers x hx).resolve_right (n2 x hx),
    fun r hr => (hm.authorities r hr).resolve_right (n3 r hr),
    fun r hr => (hm.additionals r hr).resolve_right (n4 r hr)⟩

/-- **the dichotomy, message level** (`C01_rejected_iff` under `FitAll`): the builder raises
`NamePartTooLongException` exactly when some entry has an over-long label, and returns datagrams otherwise — no other
exception, no third outcome.  (For the datagrams returned, `C01_roundtrip_strict` is the round trip.) -/
theorem C01_rejected_iff_partial (m : Msg) (hm : MsgMixed m) (hfit : FitAll m) :
    (packets m = .error .namePartTooLong ↔ HasLongEntry m) ∧ (¬ HasLongEntry m → ∃ pks, packets m = .ok pks) := by
  have hok : ¬ HasLongEntry m → ∃ pks, packets m = .ok pks :=
    fun hno => Zc.Survive.packets_total m (msgSafe_of_mixed m hm hno)
  refine ⟨⟨fun he => ?_, C01_message_rejected m hm hfit⟩, hok⟩
  apply Classical.byContradiction
  intro hno
  obtain ⟨pks, hp⟩ := hok hno
  rw [hp] at he
  cases he

/-- witness that `FitAll` cannot be dropped: a 9000-byte TXT answer (alone 9033 bytes > 8966) in front of an answer
whose owner name has a 64-byte label; the builder tries the TXT, finds it too large, stops the answer section, has made
no progress and **returns** one empty datagram — the over-long label is never looked at -/
def exHidden : Msg :=
  { flags := 0x8400, id := 0, multicast := true, questions := [],
    answers := [(⟨[[97], [108]], 16, 1, true, 4500, 0, .txt (List.replicate 9000 1)⟩, 0),
                (⟨[List.replicate 64 97, [108]], 1, 1, true, 120, 0, .addr [10, 0, 0, 1]⟩, 0)],
    authorities := [], additionals := [] }

theorem exHidden_mixed : MsgMixed exHidden :=
  ⟨by decide, by decide, by decide, by decide +kernel, by decide, by decide⟩

theorem exHidden_long : HasLongEntry exHidden := by decide +kernel

theorem exHidden_returns : (packets exHidden).toOption.map (fun pks => pks.map List.length) = some [12] := by decide +kernel

theorem C01_rejected_iff_refuted : ¬ C01_rejected_iff := by
  intro h
  have h1 := (h exHidden exHidden_mixed).mpr exHidden_long
  have h2 := exHidden_returns
  rw [h1] at h2
  simp [Except.toOption] at h2

/-- non-vacuity of the rejection theorems: an SRV record whose *target* has a 64-byte label, behind an ordinary
question and answer (the names table is not empty when the builder reaches it) -/
def exBadTarget : Msg :=
  { flags := 0x8400, id := 0, multicast := true, questions := [⟨[[95, 104], [108]], 12, 1, false⟩],
    answers := [(⟨[[95, 104], [108]], 12, 1, false, 4500, 0, .ptr [[70], [95, 104], [108]]⟩, 0)],
    authorities := [],
    additionals := [⟨[[70], [95, 104], [108]], 33, 1, true, 120, 0, .srv 0 0 80 [List.replicate 64 104, [108]]⟩] }

theorem exBadTarget_mixed : MsgMixed exBadTarget :=
  ⟨by decide, by decide, by decide +kernel, by decide +kernel, by decide +kernel, by decide +kernel⟩

theorem exBadTarget_fit : FitAll exBadTarget :=
  ⟨by decide +kernel, by decide +kernel, by decide +kernel, by decide +kernel⟩

theorem exBadTarget_long : HasLongEntry exBadTarget := by decide +kernel

example : packets exBadTarget = .error .namePartTooLong :=
  C01_message_rejected exBadTarget exBadTarget_mixed exBadTarget_fit exBadTarget_long

/-! #### remaining TTL: `now` is not before the record was created

`WFRec` asks that the TTL *as transmitted* (`wireTtl`) fits 32 bits.  For a TTL of 0..2³²−1 that is automatic when
the record is written with its own TTL (`now = 0`) or with the TTL remaining at a time **not before its creation**
(`created ≤ now`: what "remaining TTL" means).  A record "from the future" (`now < created`) with a TTL near 2³² has a
"remaining" TTL above 2³²−1 and `_write_int` raises `struct.error` — outside the quantifier (reading). -/

/-- the reading of "remaining TTL" -/
def NowNotBeforeCreated (r : ERecord) (now : Ms) : Prop := now = 0 ∨ r.created ≤ now

instance (r : ERecord) (now : Ms) : Decidable (NowNotBeforeCreated r now) := by unfold NowNotBeforeCreated; infer_instance

theorem C01_remaining_ttl_le (r : ERecord) (now : Ms) (h : NowNotBeforeCreated r now) : wireTtl r now ≤ r.ttl := by
  unfold NowNotBeforeCreated at h
  unfold wireTtl
  by_cases h0 : now = 0
  · simp [h0]
  · have hc : @LE.le Int _ r.created now := by
      rcases h with h | h
      · exact absurd h h0
      · exact h
    simp only [h0, if_false]
    by_cases hneg : r.created + 1000 * (r.ttl : Int) - now < 0
    · simp [hneg]
    · simp only [hneg, if_false]
      have hdiv : (r.created + 1000 * (r.ttl : Int) - now) / 1000 ≤ (r.ttl : Int) :=
        Int.ediv_le_of_le_mul (by omega) (by omega)
      omega

/-- the extra conjunct of `WFRec` is implied by the property's quantifier (TTL 0..2³²−1) under that reading -/
theorem C01_wire_ttl_in_range (r : ERecord) (now : Ms) (h : NowNotBeforeCreated r now) (httl : r.ttl < 4294967296) :
    wireTtl r now < 4294967296 :=
  Nat.lt_of_le_of_lt (C01_remaining_ttl_le r now h) httl

/-- a record as the property's quantifier describes it: the **TTL** is 0..2³²−1 and the time it is written at is not
before its creation (`WFRec` asks instead that the TTL *as transmitted* fits 32 bits) -/
def WFRecQ (r : ERecord) (now : Ms) : Prop :=
  WFName r.name ∧ r.rtype < 65536 ∧ r.rclass < 32768 ∧ r.ttl < 4294967296 ∧ NowNotBeforeCreated r now ∧ WFRData r.rtype r.rdata

instance (r : ERecord) (now : Ms) : Decidable (WFRecQ r now) := by unfold WFRecQ; infer_instance

theorem WFRecQ.wf {r : ERecord} {now : Ms} (h : WFRecQ r now) : WFRec r now :=
  ⟨h.1, h.2.1, h.2.2.1, C01_wire_ttl_in_range r now h.2.2.2.2.1 h.2.2.2.1, h.2.2.2.2.2⟩

/-- the message as the quantifier describes it (TTLs, not transmitted TTLs; 16-bit flags and id) -/
structure WFMsgQ (m : Msg) : Prop where
  flags : m.flags < 65536
  id : m.id < 65536
  questions : ∀ q ∈ m.questions, WFQuestion q
  answers : ∀ x ∈ m.answers, WFRecQ x.1 x.2
  authorities : ∀ r ∈ m.authorities, WFRecQ r 0
  additionals : ∀ r ∈ m.additionals, WFRecQ r 0

theorem WFMsgQ.wf {m : Msg} (h : WFMsgQ m) : WFMsg m :=
  ⟨h.questions, fun x hx => (h.answers x hx).wf, fun r hr => (h.authorities r hr).wf, fun r hr => (h.additionals r hr).wf⟩

/-- **Totality and round trip with the quantifier's own hypotheses** (`C01_roundtrip_total` composed with the
remaining-TTL reading): TTL 0..2³²−1, written with its own TTL or at a time not before its creation — no hypothesis on
the TTL as transmitted. -/
theorem C01_roundtrip_total_q (m : Msg) (hq : WFMsgQ m) (hfit : FitAll m) (ht : TxtOK m) :
    ∃ (pks : List Bytes) (msgs : List WMsg), packets m = .ok pks ∧ pks.map Strict.decode = msgs.map some ∧
      msgs.flatMap (·.questions) = onWireQuestions m ∧ msgs.flatMap (·.answers) = onWireAnswers m ∧
      msgs.flatMap (·.authorities) = onWireAuthorities m ∧ msgs.flatMap (·.additionals) = onWireAdditionals m :=
  C01_roundtrip_total m hq.wf hfit hq.flags hq.id ht

/-- non-vacuity: an answer written 5 s after its creation with TTL 2³²−1 (remaining TTL 2³²−6) -/
example : WFRecQ ⟨[[97], [108]], 1, 1, true, 4294967295, 1000000, .addr [1, 2, 3, 4]⟩ 1005000 := by decide +kernel

/-- outside that reading: TTL 2³²−1, created at 1 000 000 ms, written with `now = 1` → `struct.error` (as the library) -/
example : (match encRecord true 12 [] ⟨[[97], [108]], 1, 1, true, 4294967295, 1000000, .addr [1, 2, 3, 4]⟩ 1 with
    | .error e => e.name | .ok _ => "ok") = "struct.error" := by
  decide +kernel

/-! ### D21 (finding): the builder never checks the total encoded length of a name

The property's quantifier admits every name of at most 253 *characters* with labels of any byte length and
non-ASCII text.  A name of 5 labels of 31 × 'é' has 160 characters, labels of 62 bytes, and 316 octets on the
wire: it is neither rejected nor can an RFC 1035 decoder (names ≤ 255 octets, §2.3.4) accept the datagram. -/

/-- the clause at full strength: every message whose names have 1..63-byte labels and ≤ 253 characters … -/
def C01_roundtrip_strict_any_253_char_name : Prop :=
  ∀ (q : EQuestion), q.name ≠ [] → (∀ l ∈ q.name, WFLabel l) → q.name.length ≤ 128 → nameLen q.name ≤ 253 →
    q.qtype < 65536 → q.qclass < 32768 →
    ∀ pks, packets { flags := 0, id := 0, multicast := false, questions := [q], answers := [], authorities := [], additionals := [] } = .ok pks →
      ∀ p ∈ pks, (Strict.decode p).isSome

def exLongLabel : Label := (List.replicate 31 [(0xC3 : UInt8), 0xA9]).flatten
def exLongName : WName := List.replicate 5 exLongLabel
def exLongQ : EQuestion := ⟨exLongName, 12, 1, false⟩
def exLongMsg : Msg := { flags := 0, id := 0, multicast := false, questions := [exLongQ], answers := [], authorities := [], additionals := [] }

/-- the one datagram the builder emits for `exLongMsg` -/
def exLongPk : Bytes := match packets exLongMsg with | .ok [pk] => pk | _ => []

theorem exLong_emitted : packets exLongMsg = .ok [exLongPk] := by
  have h : (packets exLongMsg).toOption = some [exLongPk] := by decide +kernel
  cases hp : packets exLongMsg with
  | error e => rw [hp] at h; exact absurd h (by simp [Except.toOption])
  | ok pks => rw [hp] at h; simp only [Except.toOption, Option.some.injEq] at h; rw [h]

theorem exLong_undecodable : Strict.decode exLongPk = none := by decide +kernel

theorem C01_long_utf8_name_refuted : ¬ C01_roundtrip_strict_any_253_char_name := by
  intro h
  have := h exLongQ (by decide +kernel) (by decide +kernel) (by decide +kernel) (by decide +kernel) (by decide) (by decide)
    [exLongPk] exLong_emitted exLongPk (by simp)
  rw [exLong_undecodable] at this
  exact absurd this (by decide)

/-- … and the witness is inside the property's quantifier in every other respect, outside `WFName` only by its
wire length -/
example : nameLen exLongName = 160 ∧ wireLen exLongName = 316 ∧ (∀ l ∈ exLongName, l.length = 62) := by decide +kernel

/-! ### non-vacuity: a concrete message with compression (PTR + SRV + A sharing suffixes) meets the
hypotheses, and the theorem's conclusion can be observed on it -/
def exType : WName := [[95, 104], [95, 116], [108]]          -- _h._t.l
def exInst : WName := [70, 111] :: exType                     -- Fo._h._t.l
def exHost : WName := [[104], [108]]                          -- h.l

def exMsg : Msg :=
  { flags := 0x8400, id := 0, multicast := true, questions := [⟨exType, 12, 1, false⟩],
    answers := [(⟨exType, 12, 1, false, 4500, 0, .ptr exInst⟩, 0)],
    authorities := [],
    additionals := [⟨exInst, 33, 1, true, 120, 0, .srv 0 0 80 exHost⟩, ⟨exHost, 1, 1, true, 120, 0, .addr [10, 0, 0, 1]⟩,
                    ⟨exHost, 47, 1, true, 120, 0, .nsec exHost [1, 28, 47]⟩] }

example : WFMsg exMsg := ⟨by decide, by decide, by decide, by decide⟩
example : FitAll exMsg := ⟨by decide, by decide, by decide, by decide⟩
example : TextLabels exMsg := by decide
/-- the datagram really uses compression pointers: pointers for every repeated suffix -/
example : (packets exMsg).toOption.map (fun pks => pks.map List.length) = some [102] := by decide

/-- a message that splits: a query with two 900-byte TXT known answers sharing their owner-name suffix goes out as two
datagrams (the second answer is rolled back from the first datagram together with its names-table entries), and both
decode strictly -/
def exTxt (c : UInt8) : Bytes := List.replicate 900 c
def exSplitMsg : Msg :=
  { flags := 0, id := 0, multicast := true, questions := [⟨exType, 12, 1, false⟩],
    answers := [(⟨[97] :: exType, 16, 1, true, 4500, 0, .txt (exTxt 1)⟩, 0), (⟨[98] :: exType, 16, 1, true, 4500, 0, .txt (exTxt 2)⟩, 0)],
    authorities := [], additionals := [] }

example : WFMsg exSplitMsg := ⟨by decide +kernel, by decide +kernel, by decide +kernel, by decide +kernel⟩
example : (packets exSplitMsg).toOption.map (fun pks => pks.map (fun p => (p.length, (Strict.decode p).map (·.flags)))) =
    some [(939, some 512), (933, some 0)] := by decide +kernel

/-- **`TextLabels` holds of names that came from `str`s**: if every label handed to the builder is
well-formed (1..63 bytes, part of `WFName`) and is text — the UTF-8 encoding of Unicode scalar values,
which is what `str.encode('utf-8')` produces for every `str` without lone surrogates — then the message
satisfies `TextLabels` (`Utf8.decode_encode`, proved in `Proofs/Utf8RoundTrip.lean`; added by the C02 owner). -/
theorem C01_text_of_str (m : Msg) (h : ∀ n ∈ msgNamesE m, ∀ l ∈ n, WFLabel l ∧ Utf8.IsText l) : TextLabels m :=
  names_text_of_str (msgNamesE m) (fun n hn l hl => ⟨(h n hn l hl).2, (h n hn l hl).1.2⟩)

/-! ## text layer: names as `str` (work package TEXTGLUE)

The theorems above carry a name as its list of labels.  The library is handed `str`s: `write_name` drops one
trailing dot, `split('.')`s, UTF-8 encodes each piece, and keys its compression table by the text of each suffix;
`DNSIncoming` decodes each label with `'replace'`, joins with dots and appends one.  `Zc.NameText` models exactly
that (`Model/NameText.lean`; source statements pinned in `GenFacts/NameText.lean`), and this section states the
round trip on the **strings**. -/
section text_layer
open Zc.NameText

/-- **`'.'.join(s.split('.')) == s`** for every `str` -/
theorem C01_join_split (s : Text) : joinDot (splitDot s) = s := joinDot_splitDot s

/-- **`'.'.join(ls).split('.') == ls` iff `ls` is non-empty and no label contains a dot**: a dot inside an instance
label is a label boundary as far as the text is concerned -/
theorem C01_split_join_iff (ls : List Text) : splitDot (joinDot ls) = ls ↔ ls ≠ [] ∧ ∀ l ∈ ls, dot ∉ l :=
  splitDot_joinDot_iff ls

/-- **Text round trip of one name, for every `str`**: what `write_name` splits and encodes, `_read_name` decodes and
joins back to the same string with exactly one trailing dot — whatever the string (empty labels, no trailing dot,
dots anywhere, any non-ASCII text) -/
theorem C01_name_text_roundtrip (s : Text) : textOfLabels (labelsOfText s) = canonical s := textOfLabels_labelsOfText s

/-- **Compression-table key agreement** (the assumption under which `Wire.Encode` keys its names table by label
lists): `write_name` run with the library's `str`-keyed `dict` — key = text of the stripped name and of each
`'.'.join(labels[count:])`, offset = `start_size + len(name.encode()) - len(partial_name.encode())` — appends the same
bytes, raises the same exception and leaves the same table (keys translated by the injective
`k ↦ [p.encode() for p in k.split('.')]`, `keyLabels_injective`) as `Encode.writeName` on `labelsOfText name`. -/
theorem C01_names_table_text_keys (size : Nat) (names : TNames) (name : Text) :
    onTbl (writeNameText size names name) = writeName size (tblOf names) (labelsOfText name) :=
  writeNameText_refines size names name

/-- the text-level quantifier implies the label-level one -/
theorem C01_text_name_wf {s : Text} (h : TextName s) : WFName (labelsOfText s) := h.wfName

/-- … and such a name comes back spelled as given -/
theorem C01_text_name_spelling {s : Text} (h : TextName s) : canonical s = s := h.canonical

theorem msgNamesE_toE (m : TMsg) : ∀ n ∈ msgNamesE m.toE, ∃ s ∈ m.names, n = labelsOfText s := by
  intro n hn
  simp only [msgNamesE, TMsg.toE, TMsg.names, List.mem_append, List.mem_map, List.mem_flatMap, List.mem_cons] at hn ⊢
  rcases hn with ⟨q, ⟨q', hq', rfl⟩, rfl⟩ | ⟨r, hr, hn⟩
  · exact ⟨q'.name, Or.inl ⟨q', hq', rfl⟩, rfl⟩
  · have hr' : ∃ r' ∈ m.answers.map (·.1) ++ m.authorities ++ m.additionals, r = r'.toE := by
      simp only [List.mem_append, List.mem_map]
      rcases hr with (⟨x, ⟨y, hy, rfl⟩, rfl⟩ | ⟨x, hx, rfl⟩) | ⟨x, hx, rfl⟩
      · exact ⟨y.1, Or.inl (Or.inl ⟨y, hy, rfl⟩), rfl⟩
      · exact ⟨x, Or.inl (Or.inr hx), rfl⟩
      · exact ⟨x, Or.inr hx, rfl⟩
    obtain ⟨r', hr'm, rfl⟩ := hr'
    have hmem : ∃ s ∈ r'.name :: r'.rdata.names, n = labelsOfText s := by
      rcases hn with rfl | hn
      · exact ⟨r'.name, List.mem_cons_self, rfl⟩
      · cases hrd : r'.rdata <;> simp only [TRecord.toE, hrd, TRData.toE, erdataNames, List.mem_singleton, List.not_mem_nil] at hn
        all_goals (subst hn; exact ⟨_, List.mem_cons_of_mem _ (by simp [TRData.names]), rfl⟩)
    obtain ⟨s, hs, rfl⟩ := hmem
    refine ⟨s, Or.inr ⟨r', ?_, List.mem_cons.mp hs⟩, rfl⟩
    simpa only [List.mem_append, List.mem_map] using hr'm

/-- **Round trip on the strings.**  For every message whose names are text inside the quantifier (`WFTMsg`: each name a
`str` with trailing dot, no empty label, labels ≤ 63 bytes of UTF-8, ≤ 253 characters, ≤ 255 octets — `TextName`; the rest
as `WFMsg`) and whose entries each fit a datagram: every datagram the builder emits is accepted by the strict decoder
and by the model of the library's decoder (a *valid* object carrying the same questions and records), and reading the
names back as `_read_name` does — each label decoded, joined with dots, one dot appended — gives, per section, in order,
exactly the entries handed to the builder with **the same strings** as names (owner names, PTR/CNAME targets, SRV
targets, NSEC next names), the same type, class (+ unique bit when multicast), TTL and rdata.  Dots inside instance
labels, mixed case and non-ASCII text are inside the quantifier; label boundaries are *not* recovered (they are not part
of the string), the spelling is.  Composes `C01_roundtrip_lib`, `Utf8.decode_encode` and the split/join lemmas. -/
theorem C01_roundtrip_text (m : TMsg) (hwf : WFTMsg m) (hfit : FitAll m.toE) (pks : List Bytes)
    (h : packets m.toE = .ok pks) :
    ∃ msgs : List WMsg, pks.map Strict.decode = msgs.map some ∧
      msgs.flatMap (fun w => w.questions.map seenQuestion) = m.questions.map (TQuestion.expect m.multicast) ∧
      msgs.flatMap (fun w => w.answers.map seenRecord) = m.answers.map (fun x => x.1.expect m.multicast x.2) ∧
      msgs.flatMap (fun w => w.authorities.map seenRecord) = m.authorities.map (fun r => r.expect m.multicast 0) ∧
      msgs.flatMap (fun w => w.additionals.map seenRecord) = m.additionals.map (fun r => r.expect m.multicast 0) ∧
      (∀ s ∈ m.names, canonical s = s) ∧
      ∀ p ∈ pks, ∃ w q, Strict.decode p = some w ∧ (DecodeLib.parse p).out = .ok q ∧ q.valid = true ∧
        q.questions.map seenQuestion = w.questions.map seenQuestion ∧
        q.records.map seenRecord = (DecodeSpec.flat w).map seenRecord := by
  obtain ⟨htn, hwfm⟩ := hwf
  have htext : TextLabels m.toE := by
    apply C01_text_of_str
    intro n hn l hl
    obtain ⟨s, hs, rfl⟩ := msgNamesE_toE m n hn
    exact ⟨(htn s hs).wfName.2.1 l hl, labelsOfText_isText s l hl⟩
  obtain ⟨msgs, e, s1, s2, s3, s4, hlib⟩ := C01_roundtrip_lib m.toE hwfm hfit htext pks h
  refine ⟨msgs, e, ?_, ?_, ?_, ?_, fun s hs => (htn s hs).canonical, ?_⟩
  · rw [map_flatMap', s1]
    simp only [onWireQuestions, TMsg.toE, List.map_map]
    apply List.map_congr_left
    intro q _
    exact seenQuestion_onWire m.multicast q
  · rw [map_flatMap', s2]
    simp only [onWireAnswers, TMsg.toE, List.map_map]
    apply List.map_congr_left
    intro x _
    exact seenRecord_onWire m.multicast x.1 x.2
  · rw [map_flatMap', s3]
    simp only [onWireAuthorities, TMsg.toE, List.map_map]
    apply List.map_congr_left
    intro r _
    exact seenRecord_onWire m.multicast r 0
  · rw [map_flatMap', s4]
    simp only [onWireAdditionals, TMsg.toE, List.map_map]
    apply List.map_congr_left
    intro r _
    exact seenRecord_onWire m.multicast r 0
  · intro p hp
    obtain ⟨w, q, h1, h2, h3⟩ := hlib p hp
    simp only [DecodeSpec.agrees, Bool.and_eq_true, decide_eq_true_eq] at h3
    obtain ⟨⟨⟨⟨⟨⟨⟨⟨hv, _⟩, _⟩, _⟩, _⟩, _⟩, _⟩, hq⟩, hr⟩ := h3
    exact ⟨w, q, h1, h2, hv, by rw [hq], by rw [hr]⟩

/-! ### non-vacuity of the text-level quantifier -/

/-- `My.Service é日本._http._tcp.local.` — a dot inside the instance label, a space, non-ASCII text — is inside -/
def exTextName : Text := "My.Service é日本._http._tcp.local.".toList
def exTextType : Text := "_http._tcp.local.".toList

example : TextName exTextName ∧ TextName exTextType := by decide
/-- … `write_name` writes it as five labels (the dot inside the instance label `My.Service é日本` is a boundary) … -/
example : (labelsOfText exTextName).map List.length = [2, 16, 5, 4, 5] := by decide
/-- … and the string comes back -/
example : textOfLabels (labelsOfText exTextName) = exTextName := by decide

def exTextMsg : TMsg :=
  { flags := 0x8400, id := 0, multicast := true, questions := [⟨exTextType, 12, 1, false⟩],
    answers := [(⟨exTextType, 12, 1, false, 4500, 0, .ptr exTextName⟩, 0)], authorities := [],
    additionals := [⟨exTextName, 33, 1, true, 120, 0, .srv 0 0 80 "é.local.".toList⟩] }

example : WFTMsg exTextMsg := ⟨by decide, ⟨by decide, by decide, by decide, by decide⟩⟩
example : FitAll exTextMsg.toE := ⟨by decide, by decide, by decide, by decide⟩
/-- the datagram exists, compresses (the SRV owner is a pointer to the PTR's rdata) and both decoders return the strings -/
example : (packets exTextMsg.toE).toOption.map (fun pks => pks.map (fun p =>
    ((Strict.decode p).map (fun w => (w.answers.map seenRecord, w.additionals.map seenRecord))) ==
      some ([(⟨exTextType, 12, 1, false, 4500, 0, .ptr exTextName⟩ : TRecord).expect true 0],
            [(⟨exTextName, 33, 1, true, 120, 0, .srv 0 0 80 "é.local.".toList⟩ : TRecord).expect true 0]))) = some [true] := by
  decide +kernel

/-- names outside the text-level quantifier: no trailing dot, an empty label, the root, a 64-byte label, 254 characters -/
example : ¬ TextName "a.local".toList ∧ ¬ TextName "a..local.".toList ∧ ¬ TextName ".".toList ∧ ¬ TextName [] := by decide

end text_layer

end Zc
