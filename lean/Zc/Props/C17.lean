import Zc.Model.Shutdown
import Zc.GenFacts.Shutdown
import Zc.Proofs.Shutdown
/-! # C17 — shutdown is complete and quiet

After `async_close` has returned nothing is transmitted and no callback fires, whatever was in progress;
registered services were withdrawn with goodbyes before the transports closed; closing again is a no-op.

`Host` abstracts the instance to the flags and counters that decide whether something can leave it; what
each block *wants* to emit is an arbitrary argument of the block, so the theorems quantify over every
in-flight state (probing, announcing, queued answers, deferred TC queries, browser timers, lookups) and
every later block sequence.  The gates are the generated leaves `Gen.Shutdown.*`. -/
namespace Zc.Shutdown
open Zc.GenFacts.Shutdown

/-- **C17, quiet (one block).**  In a closed host every block that can occur at all — timer, task
resumption, even a further `close` — emits nothing, and the host stays closed. -/
theorem C17_quiet (h : Host) (hc : Closed h) (b : Block) (h' : Host) (o : List Out)
    (hs : step h b = some (h', o)) : o = [] ∧ Closed h' := by
  obtain ⟨hd, ht, hcl, hst⟩ := hc
  have hg : ∀ l, gated h l = [] := gated_of_done h hd
  cases b with
  | recv s q d u => simp [step, ht] at hs
  | outqFire r =>
    simp only [step] at hs
    split at hs
    · simp at hs
    · simp only [Option.some.injEq, Prod.mk.injEq] at hs
      obtain ⟨rfl, rfl⟩ := hs
      exact ⟨hg _, hd, ht, hcl, hst⟩
  | tcFire s q =>
    simp only [step] at hs
    split at hs
    · simp at hs
    · simp only [Option.some.injEq, Prod.mk.injEq] at hs
      obtain ⟨rfl, rfl⟩ := hs
      exact ⟨hg _, hd, ht, hcl, hst⟩
  | schedFire i q =>
    simp only [step] at hs
    split at hs
    · simp at hs
    · split at hs
      · simp at hs
      · simp only [hd, sched_blocked_of_done, ↓reduceIte, Option.some.injEq, Prod.mk.injEq] at hs
        obtain ⟨rfl, rfl⟩ := hs
        exact ⟨rfl, by simp [Closed, ht, hcl, hst]⟩
  | cleanupFire e => simp [step, hcl] at hs
  | probeStep l =>
    simp only [step] at hs
    split at hs
    · simp at hs
    · simp only [Option.some.injEq, Prod.mk.injEq] at hs
      obtain ⟨rfl, rfl⟩ := hs
      refine ⟨hg _, ?_⟩
      split <;> exact ⟨hd, ht, hcl, hst⟩
  | announceStep l =>
    simp only [step] at hs
    split at hs
    · simp at hs
    · simp only [Option.some.injEq, Prod.mk.injEq] at hs
      obtain ⟨rfl, rfl⟩ := hs
      refine ⟨hg _, ?_⟩
      split <;> exact ⟨hd, ht, hcl, hst⟩
  | lookupStep s f =>
    simp only [step] at hs
    split at hs
    · simp at hs
    · simp only [Option.some.injEq, Prod.mk.injEq] at hs
      obtain ⟨rfl, rfl⟩ := hs
      refine ⟨hg _, ?_⟩
      split <;> exact ⟨hd, ht, hcl, hst⟩
  | closeCall =>
    simp only [step, hst, Option.some.injEq, Prod.mk.injEq] at hs
    obtain ⟨rfl, rfl⟩ := hs
    refine ⟨?_, hd, ht, hcl, rfl⟩
    split
    · rfl
    · exact hg _
  | closeGoodbye =>
    simp only [step, hst, Option.some.injEq, Prod.mk.injEq] at hs
    obtain ⟨rfl, rfl⟩ := hs
    exact ⟨hg _, hd, ht, hcl, hst⟩
  | closeShutdown =>
    simp only [step, hst, Option.some.injEq, Prod.mk.injEq] at hs
    obtain ⟨rfl, rfl⟩ := hs
    exact ⟨rfl, by simp [Closed, hd, hcl]⟩
  | closeFinish =>
    simp only [step, hst, Option.some.injEq, Prod.mk.injEq] at hs
    obtain ⟨rfl, rfl⟩ := hs
    exact ⟨rfl, by simp [Closed, hd, ht]⟩

/-- **C17, quiet (forever).**  After close, every sequence of blocks — hours of timers, task wake-ups,
further closes — emits nothing at all. -/
theorem C17_quiet_run (bs : List Block) : ∀ (h : Host), Closed h → ∀ h' o, run h bs = some (h', o) → o = [] ∧ Closed h' := by
  induction bs with
  | nil =>
    intro h hc h' o hr
    simp only [run, Option.some.injEq, Prod.mk.injEq] at hr
    obtain ⟨rfl, rfl⟩ := hr
    exact ⟨rfl, hc⟩
  | cons b rest ih =>
    intro h hc h' o hr
    simp only [run, bind, Option.bind] at hr
    cases h1 : step h b with
    | none => simp [h1] at hr
    | some v1 =>
      obtain ⟨s1, o1⟩ := v1
      simp only [h1] at hr
      cases h2 : run s1 rest with
      | none => simp [h2] at hr
      | some v2 =>
        obtain ⟨s2, o2⟩ := v2
        simp only [h2, pure, Option.some.injEq, Prod.mk.injEq] at hr
        obtain ⟨rfl, rfl⟩ := hr
        obtain ⟨e1, c1⟩ := C17_quiet h hc b s1 o1 h1
        obtain ⟨e2, c2⟩ := ih s1 c1 s2 o2 h2
        exact ⟨by simp [e1, e2], c2⟩

/-- datagrams can no longer even arrive: a closed host rejects `recv`; nor can the cleanup timer fire -/
theorem C17_no_input_after_close (h : Host) (hc : Closed h) (s q : Nat) (d u e : Bool) :
    step h (.recv s q d u) = none ∧ step h (.cleanupFire e) = none := by
  obtain ⟨_, ht, hcl, _⟩ := hc
  simp [step, ht, hcl]

/-! ## the close sequence -/

/-- **C17, goodbyes first (partial).**  Close is called on a running host with `n > 0` registered services,
whatever else is in flight; any blocks may be interleaved with the close *except the completion of a
registration*.  Then, by the time the close is about to shut the transports, exactly three goodbye datagrams
have been emitted, the transports are still open, and the registry is empty.
Missing for full strength: a registration completing during the goodbye phase (`probeStep true` among the
interleaved blocks) adds a service that is announced and never withdrawn — finding D15
(`known_findings.json`, signature "registration completes during close"); see `C17_goodbye_full_refuted`. -/
theorem C17_goodbye_first_partial (h : Host) (hidle : h.stage = .idle) (hnd : h.done = false)
    (hopen : h.transportsClosed = false) (hreg : 0 < h.registry)
    (m1 m2 m3 : List Block) (hm1 : ∀ b ∈ m1, b.mid = true) (hm2 : ∀ b ∈ m2, b.mid = true) (hm3 : ∀ b ∈ m3, b.mid = true)
    (h' : Host) (o : List Out)
    (hr : run h (.closeCall :: m1 ++ (.closeGoodbye :: m2 ++ .closeGoodbye :: m3)) = some (h', o)) :
    count isGoodbye o = 3 ∧ h'.transportsClosed = false ∧ h'.registry = 0 ∧ h'.done = false ∧ h'.stage = .unregistering 0 := by
  have hreg' : h.registry ≠ 0 := by omega
  rw [run_append] at hr
  cases ha : run h (.closeCall :: m1) with
  | none => simp [ha] at hr
  | some va =>
    obtain ⟨ha', oa⟩ := va
    simp only [ha, Option.bind] at hr
    obtain ⟨s1, p1, q1, e1, r1, rfl⟩ := run_cons_mid h .closeCall m1 ha' oa ha
    simp only [step, hidle, hreg', ↓reduceIte, Option.some.injEq, Prod.mk.injEq] at e1
    obtain ⟨rfl, rfl⟩ := e1
    obtain ⟨d1, st1, g1, t1, c1⟩ := mid_run m1 hm1 _ ha' q1 r1
    simp only at d1 st1 g1 t1
    rw [run_append] at hr
    cases hb : run ha' (.closeGoodbye :: m2) with
    | none => simp [hb] at hr
    | some vb =>
      obtain ⟨hb', ob⟩ := vb
      simp only [hb, Option.bind] at hr
      obtain ⟨s2, p2, q2, e2, r2, rfl⟩ := run_cons_mid ha' .closeGoodbye m2 hb' ob hb
      simp only [step, st1, moreGoodbyes, register_broadcasts] at e2
      obtain ⟨rfl, rfl⟩ := e2
      obtain ⟨d2, st2, g2, t2, c2⟩ := mid_run m2 hm2 _ hb' q2 r2
      simp only at d2 st2 g2 t2
      cases hc : run hb' (.closeGoodbye :: m3) with
      | none => simp [hc] at hr
      | some vc =>
        obtain ⟨hc', oc⟩ := vc
        simp only [hc, Option.some.injEq, Prod.mk.injEq] at hr
        obtain ⟨rfl, rfl⟩ := hr
        obtain ⟨s3, p3, q3, e3, r3, rfl⟩ := run_cons_mid hb' .closeGoodbye m3 hc' oc hc
        simp only [step, st2, Option.some.injEq, Prod.mk.injEq] at e3
        obtain ⟨rfl, rfl⟩ := e3
        obtain ⟨d3, st3, g3, t3, c3⟩ := mid_run m3 hm3 _ hc' q3 r3
        simp only at d3 st3 g3 t3
        have dA : ha'.done = false := d1.trans hnd
        have dB : hb'.done = false := d2.trans dA
        refine ⟨?_, ?_, ?_, d3.trans dB, st3⟩
        · simp only [count_append, c1, c2, c3, gated_of_not_done h hnd, gated_of_not_done ha' dA, gated_of_not_done hb' dB]
          decide
        · rw [t3, t2, t1]; exact hopen
        · rw [g3, g2, g1]

/-- **C17, close completes.**  From the state the goodbye phase ends in (or from an idle host with an
empty registry after `closeCall`), shutting down and finishing — again with any mid blocks interleaved —
reaches `Closed`. -/
theorem C17_close_completes (h : Host) (hst : h.stage = .unregistering 0)
    (m4 : List Block) (hm4 : ∀ b ∈ m4, b.mid = true) (h' : Host) (o : List Out)
    (hr : run h (.closeShutdown :: m4 ++ [.closeFinish]) = some (h', o)) : Closed h' := by
  rw [run_append] at hr
  cases ha : run h (.closeShutdown :: m4) with
  | none => simp [ha] at hr
  | some va =>
    obtain ⟨ha', oa⟩ := va
    simp only [ha, Option.bind] at hr
    obtain ⟨s1, p1, q1, e1, r1, rfl⟩ := run_cons_mid h .closeShutdown m4 ha' oa ha
    simp only [step, hst, Option.some.injEq, Prod.mk.injEq] at e1
    obtain ⟨rfl, rfl⟩ := e1
    obtain ⟨d1, st1, _, t1, _⟩ := mid_run m4 hm4 _ ha' q1 r1
    simp only at d1 st1 t1
    cases hb : run ha' [.closeFinish] with
    | none => simp [hb] at hr
    | some vb =>
      obtain ⟨hb', ob⟩ := vb
      simp only [hb, Option.some.injEq, Prod.mk.injEq] at hr
      obtain ⟨rfl, _⟩ := hr
      simp only [run, step, st1, bind, Option.bind, pure, Option.some.injEq, Prod.mk.injEq] at hb
      obtain ⟨rfl, _⟩ := hb
      exact ⟨d1, t1, rfl, rfl⟩

/-- **C17, closing again is a no-op**: on a closed host the whole close sequence is enabled, emits
nothing, and leaves every flag as it was. -/
theorem C17_idempotent (h : Host) (hc : Closed h) :
    ∃ h', run h [.closeCall, .closeGoodbye, .closeGoodbye, .closeShutdown, .closeFinish] = some (h', [])
      ∧ Closed h' ∧ h'.done = h.done ∧ h'.transportsClosed = h.transportsClosed ∧ h'.cleanupArmed = h.cleanupArmed := by
  have hst := hc.2.2.2
  have hsome : (run h [.closeCall, .closeGoodbye, .closeGoodbye, .closeShutdown, .closeFinish]).isSome = true := by
    simp only [run, step, hst, bind, Option.bind, pure]
    by_cases hr : h.registry = 0 <;> simp [hr]
  obtain ⟨⟨h', o⟩, hrun⟩ := Option.isSome_iff_exists.mp hsome
  obtain ⟨ho, hc'⟩ := C17_quiet_run _ h hc h' o hrun
  subst ho
  exact ⟨h', hrun, hc', by rw [hc'.1, hc.1], by rw [hc'.2.1, hc.2.1], by rw [hc'.2.2.1, hc.2.2.1]⟩

/-- full-strength goodbye statement: *any* non-close block may be interleaved (registrations completing
included) and the registry is still empty when the transports are about to close -/
def C17_goodbye_full : Prop :=
  ∀ (h : Host) (m1 : List Block), h.stage = .idle → h.done = false → 0 < h.registry → (∀ b ∈ m1, b.isClose = false) →
    ∀ h' o, run h (.closeCall :: m1 ++ [.closeGoodbye, .closeGoodbye]) = some (h', o) → h'.registry = 0

/-- D15, machine-checked: one service registered, a second one finishing its probes between the first and
the second goodbye → it sits in the registry when the transports close -/
def d14Host : Host :=
  { done := false, running := true, transportsClosed := false, cleanupArmed := true, registry := 1, browsers := [],
    outq := 0, tc := 0, lookups := 0, probing := 1, announcing := 0, stage := .idle }

theorem C17_goodbye_full_refuted : ¬ C17_goodbye_full := by
  intro hf
  have := hf d14Host [.probeStep true] rfl rfl (by decide) (by decide)
  exact absurd (this _ _ rfl) (by decide)

/-! ### non-vacuity -/

/-- a busy host: a service registered, another being probed, one announcing, queued answers, a deferred TC
query, a tracked and an untracked browser with armed timers, a lookup -/
def busy : Host :=
  { done := false, running := true, transportsClosed := false, cleanupArmed := true, registry := 1,
    browsers := [⟨true, false, true, true⟩, ⟨false, false, true, true⟩], outq := 2, tc := 1, lookups := 1,
    probing := 1, announcing := 1, stage := .idle }

def closeSeq : List Block :=
  [.closeCall, .recv 1 1 false true, .closeGoodbye, .outqFire true, .probeStep false, .closeGoodbye, .announceStep true,
   .closeShutdown, .closeFinish]

-- the close sequence runs on `busy`, is not silent (goodbyes, an answer, callbacks, a probe, an announcement) …
example : (run busy closeSeq).map (fun r => count isGoodbye r.2) = some 3 := by decide
example : (run busy closeSeq).map (fun r => r.2.length) = some 9 := by decide
-- … and ends closed, with things still in flight (timers armed, tasks pending)
example : ∃ r, run busy closeSeq = some r ∧ Closed r.1 ∧ r.1.outq = 2 ∧ r.1.tc = 1 ∧ r.1.probing = 1 ∧ r.1.lookups = 1 := by decide
-- after which the very same kinds of blocks are silent
example : (run busy (closeSeq ++ [.outqFire true, .tcFire 2 1, .schedFire 1 1, .probeStep true, .announceStep true,
    .lookupStep 1 true, .closeCall])).map (fun r => r.2.length) = some 9 := by decide
-- before the close they are not
example : (run busy [.outqFire true, .tcFire 2 1, .schedFire 1 1, .probeStep true, .lookupStep 1 true]).map (fun r => r.2.length) = some 6 := by decide
-- hypotheses of the goodbye theorem hold for `busy`
example : busy.stage = .idle ∧ busy.done = false ∧ busy.transportsClosed = false ∧ 0 < busy.registry := by decide
example : Block.mid (.recv 1 1 false true) = true ∧ Block.mid (.probeStep false) = true ∧ Block.mid (.probeStep true) = false := by decide

end Zc.Shutdown
