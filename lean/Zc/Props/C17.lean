import Zc.Model.Shutdown
import Zc.GenFacts.Shutdown
import Zc.Proofs.Shutdown
/-! # C17 — shutdown is complete and quiet

After `close()` / `async_close()` has returned nothing is transmitted and no callback fires, whatever was
in progress; registered services were withdrawn with goodbyes before the transports closed; closing again
is a no-op.

`Host` abstracts the instance to the flags and counters that decide whether something can leave it, plus
**every close call made so far with its own program counter**: any number of `async_close()` / `close()`
calls may overlap and are interleaved with each other and with everything else at block boundaries.  What
each block *wants* to emit is an arbitrary argument of the block, so the theorems quantify over every
in-flight state (probing, announcing, queued answers, deferred TC queries, browser timers, lookups), every
interleaving and every later block sequence.  The gates are the generated leaves `Gen.Shutdown.*`.  The
raise sites of the close path are explicit outcomes (`Out.raised`): `NotRunningException` out of
`async_wait_for_start`, `CancelledError` at a suspension point of `async_close`. -/
namespace Zc.Shutdown
open Zc.GenFacts.Shutdown

/-- **The flags follow the program counters** — an invariant of the machine, for every interleaving: a close
that reached its shutdown has set `done` and closed the transports, one that returned has also cancelled the
cleanup timer.  It holds when no close has been called and is preserved by every block. -/
theorem C17_wf_invariant :
    (∀ h : Host, h.closes = [] → WF h) ∧
    (∀ (h h' : Host) (b : Block) (o : List Out), WF h → step h b = some (h', o) → WF h') ∧
    (∀ (bs : List Block) (h h' : Host) (o : List Out), WF h → run h bs = some (h', o) → WF h') :=
  ⟨fun h he c hc => by simp [he] at hc, fun h h' b o hw hs => WF_step h b h' o hw hs, WF_run⟩

/-- **"Some close call has returned" means closed**, whichever of the overlapping calls it was and whatever
the others are doing. -/
theorem C17_returned_closed (h : Host) (hw : WF h) (hr : h.closes.any Close.isReturned = true) : Closed h := by
  obtain ⟨c, hc, hret⟩ := List.any_eq_true.mp hr
  have hst : c.stage = .returned := by
    unfold Close.isReturned at hret
    split at hret
    · assumption
    · simp at hret
  obtain ⟨hd, ht, hcu⟩ := (hw c hc).2.2 hst
  exact ⟨hd, ht, hcu, hr⟩

/-- **C17, quiet (one block).**  In a closed host every block that can occur at all — timer, task
resumption, a further close call or a step of a close still in progress, an API call — emits nothing
(no datagram, no goodbye, no callback), and the host stays closed. -/
theorem C17_quiet (h : Host) (hw : WF h) (hc : Closed h) (b : Block) (hnb : b.isBrowse = false) (h' : Host) (o : List Out)
    (hs : step h b = some (h', o)) : (∀ x ∈ o, x.isEmission = false) ∧ Closed h' := by
  obtain ⟨hd, ht, hcl, hret⟩ := hc
  have sm := step_summary h b h' o hw hs
  refine ⟨?_, sm.done_mono hd, sm.tc_mono ht, sm.cu_mono hcl, sm.ret_mono hret⟩
  have hg : ∀ l, gated h l = [] := gated_of_done h hd
  have hbody : ∀ s, (closeBody h s).2.1 = [] := by
    intro s
    simp only [closeBody]
    split
    · rfl
    · exact hg _
  cases b with
  | recv s q d u da => simp [step, ht] at hs
  | apiBrowse tr rp => simp [Block.isBrowse] at hnb
  | connectionLost =>
    simp only [step] at hs
    split at hs
    · simp at hs
    · simp only [Option.some.injEq, Prod.mk.injEq] at hs
      obtain ⟨_, rfl⟩ := hs
      simp
  | outqFire r =>
    simp only [step] at hs
    split at hs
    · simp at hs
    · simp only [Option.some.injEq, Prod.mk.injEq] at hs
      obtain ⟨_, rfl⟩ := hs
      simp [hg]
  | tcFire s q ti =>
    simp only [step] at hs
    split at hs
    · simp at hs
    · simp only [Option.some.injEq, Prod.mk.injEq] at hs
      obtain ⟨_, rfl⟩ := hs
      simp [Out.isEmission]
    · simp only [Option.some.injEq, Prod.mk.injEq] at hs
      obtain ⟨_, rfl⟩ := hs
      simp [hg]
  | schedFire i q =>
    simp only [step] at hs
    split at hs
    · simp at hs
    · split at hs
      · simp at hs
      · simp only [hd, sched_blocked_of_done, ↓reduceIte, Option.some.injEq, Prod.mk.injEq] at hs
        obtain ⟨_, rfl⟩ := hs
        simp
  | cleanupFire e => simp [step, hcl] at hs
  | probeStep l =>
    simp only [step] at hs
    split at hs
    · simp at hs
    · simp only [Option.some.injEq, Prod.mk.injEq] at hs
      obtain ⟨_, rfl⟩ := hs
      simp [hg]
  | announceStep l =>
    simp only [step] at hs
    split at hs
    · simp at hs
    · simp only [Option.some.injEq, Prod.mk.injEq] at hs
      obtain ⟨_, rfl⟩ := hs
      simp [hg]
  | lookupStep s f =>
    simp only [step] at hs
    split at hs
    · simp at hs
    · simp only [Option.some.injEq, Prod.mk.injEq] at hs
      obtain ⟨_, rfl⟩ := hs
      simp [hg]
  | startUp => simp [step, hd] at hs
  | apiCall k =>
    simp only [step, hd, wait_raises_of_done, ↓reduceIte, Option.some.injEq, Prod.mk.injEq] at hs
    obtain ⟨_, rfl⟩ := hs
    simp [Out.isEmission]
  | closeCall sync =>
    simp only [step] at hs
    split at hs
    · simp only [Option.some.injEq, Prod.mk.injEq] at hs
      obtain ⟨_, rfl⟩ := hs
      simp
    · simp only [Option.some.injEq, Prod.mk.injEq] at hs
      obtain ⟨_, rfl⟩ := hs
      simp [hbody]
  | closeWake i t =>
    simp only [step] at hs
    split at hs
    · split at hs
      · simp only [Option.some.injEq, Prod.mk.injEq] at hs
        obtain ⟨_, rfl⟩ := hs
        simp [hbody]
      · split at hs
        · simp at hs
        · split at hs
          · simp only [Option.some.injEq, Prod.mk.injEq] at hs
            obtain ⟨_, rfl⟩ := hs
            simp [Out.isEmission]
          · simp only [Option.some.injEq, Prod.mk.injEq] at hs
            obtain ⟨_, rfl⟩ := hs
            simp [hbody]
    · simp at hs
  | closeGoodbye i =>
    simp only [step] at hs
    split at hs
    · simp only [Option.some.injEq, Prod.mk.injEq] at hs
      obtain ⟨_, rfl⟩ := hs
      simp [hg]
    · simp at hs
  | closeMarkDone i =>
    simp only [step] at hs
    split at hs
    · simp only [Option.some.injEq, Prod.mk.injEq] at hs
      obtain ⟨_, rfl⟩ := hs
      simp
    · simp at hs
  | closeShutdown i =>
    simp only [step] at hs
    split at hs
    · simp only [Option.some.injEq, Prod.mk.injEq] at hs
      obtain ⟨_, rfl⟩ := hs
      simp
    · simp only [Option.some.injEq, Prod.mk.injEq] at hs
      obtain ⟨_, rfl⟩ := hs
      simp
    · simp at hs
  | closeFinish i =>
    simp only [step] at hs
    split at hs
    · simp only [Option.some.injEq, Prod.mk.injEq] at hs
      obtain ⟨_, rfl⟩ := hs
      simp
    · simp at hs
  | closeAbort i =>
    simp only [step] at hs
    split at hs
    all_goals first
      | (simp only [Option.some.injEq, Prod.mk.injEq] at hs
         obtain ⟨_, rfl⟩ := hs
         simp [Out.isEmission])
      | simp at hs

/-- **C17, quiet (forever).**  After some close call has returned, every sequence of blocks — hours of
timers, task wake-ups, the remaining steps of overlapping closes, further closes, API calls — emits nothing
at all. -/
theorem C17_quiet_run (bs : List Block) (hnb : ∀ b ∈ bs, b.isBrowse = false) : ∀ (h : Host), WF h → Closed h → ∀ h' o, run h bs = some (h', o) →
    (∀ x ∈ o, x.isEmission = false) ∧ Closed h' ∧ WF h' := by
  induction bs with
  | nil =>
    intro h hw hc h' o hr
    simp only [run, Option.some.injEq, Prod.mk.injEq] at hr
    obtain ⟨rfl, rfl⟩ := hr
    exact ⟨by simp, hc, hw⟩
  | cons b rest ih =>
    intro h hw hc h' o hr
    obtain ⟨s1, o1, o2, h1, h2, rfl⟩ := run_cons h b rest h' o hr
    obtain ⟨e1, c1⟩ := C17_quiet h hw hc b (hnb b (by simp)) s1 o1 h1
    obtain ⟨e2, c2, w2⟩ := ih (fun x hx => hnb x (by simp [hx])) s1 (WF_step h b s1 o1 hw h1) c1 h' o2 h2
    refine ⟨?_, c2, w2⟩
    intro x hx
    rcases List.mem_append.mp hx with hx | hx
    · exact e1 x hx
    · exact e2 x hx

/-- the same, starting from "a close call has returned" -/
theorem C17_quiet_after_return (bs : List Block) (hnb : ∀ b ∈ bs, b.isBrowse = false) (h : Host) (hw : WF h)
    (hr : h.closes.any Close.isReturned = true)
    (h' : Host) (o : List Out) (hrun : run h bs = some (h', o)) : ∀ x ∈ o, x.isEmission = false :=
  (C17_quiet_run bs hnb h hw (C17_returned_closed h hw hr) h' o hrun).1

/-- datagrams can no longer even arrive: a closed host rejects `recv`; nor can the cleanup timer fire, nor
can start-up complete -/
theorem C17_no_input_after_close (h : Host) (hc : Closed h) (s q : Nat) (d u e : Bool) :
    step h (.recv s q d u) = none ∧ step h (.cleanupFire e) = none ∧ step h .startUp = none := by
  obtain ⟨hd, ht, hcl, _⟩ := hc
  simp [step, ht, hcl, hd]

/-- the blocks of close calls (sync and async) and of start-up — everything a close does except being cancelled -/
def Block.plainClose : Block → Bool
  | .closeCall _ | .closeWake _ _ | .closeGoodbye _ | .closeMarkDone _ | .closeShutdown _ | .closeFinish _ | .startUp => true
  | _ => false

/-- **The raise sites.**  In any state, the only blocks that hand an exception to a caller are: an API call on a done
instance (`NotRunningException`) and the cancellation, by its caller, of the task awaiting a close (`CancelledError`).
No step of any close call does.  (Exceptions that reach the *loop* from timer callbacks are a different outcome,
`Out.loopError`; see `C17_loop_error_site` / `C17_no_timer_raises` below.) -/
theorem C17_raise_sites (h : Host) (b : Block) (h' : Host) (o : List Out) (hs : step h b = some (h', o))
    (e : Exc) (he : Out.raised e ∈ o) :
    (e = .notRunning ∧ ∃ k, b = .apiCall k) ∨ (e = .cancelled ∧ ∃ i, b = .closeAbort i) := by
  have hgr : ∀ l : List Out, (∀ x ∈ l, ∀ e', x ≠ Out.raised e') → ∀ e', Out.raised e' ∉ gated h l := by
    intro l hl e' hm
    rcases gated_sub h l with g | g <;> rw [g] at hm
    · simp at hm
    · exact hl _ hm e' rfl
  have hrep : ∀ n e', Out.raised e' ∉ gated h (List.replicate n Out.send) := by
    intro n e'
    exact hgr _ (by intro x hx; simp only [List.mem_replicate] at hx; rw [hx.2]; intro e'' hh; cases hh) e'
  have hone : ∀ (y : Out) e', (∀ e'', y ≠ .raised e'') → Out.raised e' ∉ gated h [y] := by
    intro y e' hy
    exact hgr _ (by intro x hx; simp only [List.mem_singleton] at hx; rw [hx]; exact hy) e'
  have hnot : ∀ u e', Out.raised e' ∉ notify h u := by
    intro u e' hm
    unfold notify at hm
    split at hm
    · simp only [List.mem_append, List.mem_map, List.mem_replicate] at hm
      rcases hm with ⟨_, _, hh⟩ | ⟨_, hh⟩ <;> cases hh
    · simp at hm
  have hbody : ∀ s e', Out.raised e' ∉ (closeBody h s).2.1 := by
    intro s e' hm
    simp only [closeBody] at hm
    split at hm
    · simp at hm
    · exact hone .goodbye e' (by intro e'' hh; cases hh) hm
  cases b with
  | recv s q d u da =>
    simp only [step] at hs
    split at hs
    · simp at hs
    · simp only [Option.some.injEq, Prod.mk.injEq] at hs
      obtain ⟨_, rfl⟩ := hs
      rcases List.mem_append.mp he with hm | hm
      · exact absurd hm (hrep _ _)
      · exact absurd hm (hnot _ _)
  | outqFire r =>
    simp only [step] at hs
    split at hs
    · simp at hs
    · simp only [Option.some.injEq, Prod.mk.injEq] at hs
      obtain ⟨_, rfl⟩ := hs
      exfalso
      split at he
      · exact hone .send e (by intro e'' hh; cases hh) he
      · exact hgr [] (by simp) e he
  | tcFire s q ti =>
    simp only [step] at hs
    split at hs
    · simp at hs
    · simp only [Option.some.injEq, Prod.mk.injEq] at hs
      obtain ⟨_, rfl⟩ := hs
      simp at he
    · simp only [Option.some.injEq, Prod.mk.injEq] at hs
      obtain ⟨_, rfl⟩ := hs
      exact absurd he (hrep _ _)
  | connectionLost =>
    simp only [step] at hs
    split at hs
    · simp at hs
    · simp only [Option.some.injEq, Prod.mk.injEq] at hs
      obtain ⟨_, rfl⟩ := hs
      simp at he
  | apiBrowse tr rp =>
    simp only [step, Option.some.injEq, Prod.mk.injEq] at hs
    obtain ⟨_, rfl⟩ := hs
    simp only [List.mem_replicate] at he
    exact absurd he.2 (by intro hh; cases hh)
  | schedFire i q =>
    simp only [step] at hs
    split at hs
    · simp at hs
    · split at hs
      · simp at hs
      · split at hs
        · simp only [Option.some.injEq, Prod.mk.injEq] at hs
          obtain ⟨_, rfl⟩ := hs
          simp at he
        · simp only [Option.some.injEq, Prod.mk.injEq] at hs
          obtain ⟨_, rfl⟩ := hs
          exact absurd he (hrep _ _)
  | cleanupFire x =>
    simp only [step] at hs
    split at hs
    · simp at hs
    · simp only [Option.some.injEq, Prod.mk.injEq] at hs
      obtain ⟨_, rfl⟩ := hs
      exact absurd he (hnot _ _)
  | probeStep l =>
    simp only [step] at hs
    split at hs
    · simp at hs
    · simp only [Option.some.injEq, Prod.mk.injEq] at hs
      obtain ⟨_, rfl⟩ := hs
      exact absurd he (hone .send e (by intro e'' hh; cases hh))
  | announceStep l =>
    simp only [step] at hs
    split at hs
    · simp at hs
    · simp only [Option.some.injEq, Prod.mk.injEq] at hs
      obtain ⟨_, rfl⟩ := hs
      exact absurd he (hone .send e (by intro e'' hh; cases hh))
  | lookupStep s f =>
    simp only [step] at hs
    split at hs
    · simp at hs
    · simp only [Option.some.injEq, Prod.mk.injEq] at hs
      obtain ⟨_, rfl⟩ := hs
      exact absurd he (hrep _ _)
  | startUp =>
    simp only [step] at hs
    split at hs
    · simp at hs
    · simp only [Option.some.injEq, Prod.mk.injEq] at hs
      obtain ⟨_, rfl⟩ := hs
      simp at he
  | apiCall k =>
    simp only [step] at hs
    split at hs
    · simp only [Option.some.injEq, Prod.mk.injEq] at hs
      obtain ⟨_, rfl⟩ := hs
      simp only [List.mem_singleton, Out.raised.injEq] at he
      exact Or.inl ⟨he, k, rfl⟩
    · split at hs
      · simp at hs
      · cases k <;>
        · simp only [Option.some.injEq, Prod.mk.injEq] at hs
          obtain ⟨_, rfl⟩ := hs
          simp at he
  | closeCall sync =>
    simp only [step] at hs
    split at hs
    · simp only [Option.some.injEq, Prod.mk.injEq] at hs
      obtain ⟨_, rfl⟩ := hs
      simp at he
    · simp only [Option.some.injEq, Prod.mk.injEq] at hs
      obtain ⟨_, rfl⟩ := hs
      exact absurd he (hbody _ _)
  | closeWake i t =>
    simp only [step] at hs
    split at hs
    · split at hs
      · simp only [Option.some.injEq, Prod.mk.injEq] at hs
        obtain ⟨_, rfl⟩ := hs
        exact absurd he (hbody _ _)
      · split at hs
        · simp at hs
        · split at hs
          · rename_i hr
            rw [wakeRaises_suppressed] at hr
            exact absurd hr (by decide)
          · simp only [Option.some.injEq, Prod.mk.injEq] at hs
            obtain ⟨_, rfl⟩ := hs
            exact absurd he (hbody _ _)
    · simp at hs
  | closeGoodbye i =>
    simp only [step] at hs
    split at hs
    · simp only [Option.some.injEq, Prod.mk.injEq] at hs
      obtain ⟨_, rfl⟩ := hs
      exact absurd he (hone .goodbye e (by intro e'' hh; cases hh))
    · simp at hs
  | closeMarkDone i =>
    simp only [step] at hs
    split at hs
    · simp only [Option.some.injEq, Prod.mk.injEq] at hs
      obtain ⟨_, rfl⟩ := hs
      simp at he
    · simp at hs
  | closeShutdown i =>
    simp only [step] at hs
    split at hs
    · simp only [Option.some.injEq, Prod.mk.injEq] at hs
      obtain ⟨_, rfl⟩ := hs
      simp at he
    · simp only [Option.some.injEq, Prod.mk.injEq] at hs
      obtain ⟨_, rfl⟩ := hs
      simp at he
    · simp at hs
  | closeFinish i =>
    simp only [step] at hs
    split at hs
    · simp only [Option.some.injEq, Prod.mk.injEq] at hs
      obtain ⟨_, rfl⟩ := hs
      simp at he
    · simp at hs
  | closeAbort i =>
    simp only [step] at hs
    split at hs
    all_goals first
      | (simp only [Option.some.injEq, Prod.mk.injEq] at hs
         obtain ⟨_, rfl⟩ := hs
         simp only [List.mem_singleton, Out.raised.injEq] at he
         exact Or.inr ⟨he, i, rfl⟩)
      | simp at hs

/-- **No close call ever hands an exception to its caller** (other than the `CancelledError` of its own cancellation):
every block of every `async_close()` — called on a running instance, during start-up, overlapping any number of other
closes, woken by the start-up event or by its own 1 s timeout, after another close has finished — and every block of
the modelled sync `close()` from a non-loop thread.  (Not covered: `EventLoopBlocked` out of sync `close()` on a blocked
loop — outside the loop axioms.)  False before fix 25230c1: `C17_wake_raised_before_fix`. -/
theorem C17_close_never_raises (h : Host) (b : Block) (hb : b.plainClose = true) (h' : Host) (o : List Out)
    (hs : step h b = some (h', o)) (e : Exc) : Out.raised e ∉ o := by
  intro he
  rcases C17_raise_sites h b h' o hs e he with ⟨_, k, rfl⟩ | ⟨_, i, rfl⟩ <;> simp [Block.plainClose] at hb

/-- the same for whole histories: with no API call and no cancellation by a caller among the blocks, nothing raises —
whatever interleaving of any number of sync/async closes, start-up, timers, tasks and traffic -/
theorem C17_nothing_raises_run (bs : List Block) (hapi : ∀ b ∈ bs, ∀ k, b ≠ .apiCall k) (hab : ∀ b ∈ bs, ∀ i, b ≠ .closeAbort i) :
    ∀ (h h' : Host) (o : List Out), run h bs = some (h', o) → ∀ e, Out.raised e ∉ o := by
  induction bs with
  | nil =>
    intro h h' o hr e
    simp only [run, Option.some.injEq, Prod.mk.injEq] at hr
    obtain ⟨_, rfl⟩ := hr
    simp
  | cons b rest ih =>
    intro h h' o hr e he
    obtain ⟨s1, o1, o2, h1, h2, rfl⟩ := run_cons h b rest h' o hr
    rcases List.mem_append.mp he with hm | hm
    · rcases C17_raise_sites h b s1 o1 h1 e hm with ⟨_, k, rfl⟩ | ⟨_, i, rfl⟩
      · exact hapi _ (by simp) k rfl
      · exact hab _ (by simp) i rfl
    · exact ih (fun x hx => hapi x (by simp [hx])) (fun x hx => hab x (by simp [hx])) s1 h' o2 h2 e hm

/-- a close that was parked waiting for start-up always proceeds when woken: it reaches its goodbye phase -/
theorem C17_wake_proceeds (h : Host) (i : Nat) (t : Bool) (h' : Host) (o : List Out)
    (hs : step h (.closeWake i t) = some (h', o)) : ∃ k, h'.closes[i]? = some ⟨false, .unregistering k⟩ := by
  simp only [step] at hs
  split at hs
  · rename_i hi
    have hlt : i < h.closes.length := (List.getElem?_eq_some_iff.mp hi).1
    have body : ∀ h2 o2, (let r := closeBody h false; some (r.1.setStage i false r.2.2, r.2.1)) = some (h2, o2) →
        ∃ k, h2.closes[i]? = some ⟨false, .unregistering k⟩ := by
      intro h2 o2 he
      simp only [Option.some.injEq, Prod.mk.injEq] at he
      obtain ⟨rfl, _⟩ := he
      obtain ⟨k, hk⟩ := closeBody_stage h false
      refine ⟨k, ?_⟩
      simp [Host.setStage, closeBody, hlt] at hk ⊢
      exact hk
    split at hs
    · exact body _ _ hs
    · split at hs
      · simp at hs
      · split at hs
        · rename_i hr
          rw [wakeRaises_suppressed] at hr
          exact absurd hr (by decide)
        · exact body _ _ hs
  · simp at hs

/-- the witness of finding D17, kept as a fact about the *old* `async_close` (whose `suppress` did not list
`NotRunningException`): a close woken by the start-up event raised exactly when the instance was no longer running or
already done -/
theorem C17_wake_raised_before_fix (r d : Bool) : wakeRaises false r d = true ↔ (r = false ∨ d = true) := by
  simp [wakeRaises, wait_raises_after_iff]

/-! ## timers that outlive the close

What the close path cancels, closes or leaves alone is read off the source by statement-level leaves
(`GenFacts.Shutdown.*_holds`): `_async_close` cancels the cleanup timer; `_async_shutdown` closes (not aborts) every
transport; `async_close` cancels the tracked browsers, whose `_async_cancel` stops the scheduler (which cancels its timer)
and removes the listener; `connection_lost` — scheduled by `transport.close()` — does nothing.  What is *not* cancelled —
the listener's deferred-TC timers, the aggregation-queue timers, the scheduler timers of untracked browsers, lookups and
registration tasks in progress — keeps firing after the close; the theorems say what then happens. -/

/-- **`TcInv`** — every armed deferred-TC timer has a packet to answer — holds with no timer armed and is preserved by
every block, `connection_lost` included.  It is the flag-machine form of C16's `TimerInv`
(`C16_timer_invariant`, proved there for the listener over every handler). -/
theorem C17_tc_invariant :
    (∀ h : Host, h.tcs = [] → TcInv h) ∧
    (∀ (h h' : Host) (b : Block) (o : List Out), TcInv h → step h b = some (h', o) → TcInv h') ∧
    (∀ (bs : List Block) (h h' : Host) (o : List Out), TcInv h → run h bs = some (h', o) → TcInv h') :=
  ⟨fun h he n hn => by simp [he] at hn, fun h h' b o hi hs => TcInv_step h b h' o hi hs, TcInv_run⟩

/-- **the one place where a surviving timer can raise into the loop**: a deferred-TC timer firing for an address
with nothing deferred (`packets[0]` on an empty list).  No other block — queue timers, scheduler timers, the cleanup
timer, `connection_lost`, task resumptions, close steps — has a raising outcome in the code paths modelled. -/
theorem C17_loop_error_site (h : Host) (b : Block) (h' : Host) (o : List Out) (hs : step h b = some (h', o))
    (he : Out.loopError ∈ o) : ∃ s q i, b = .tcFire s q i ∧ h.tcs[i]? = some 0 :=
  loopError_site h b h' o hs he

/-- **No timer left behind raises.**  Under `TcInv` no block hands an exception to the event loop — before, during or
after the close.  It holds *because* nothing on the close path empties `_deferred` while leaving `_timers` armed:
`connection_lost` is a no-op (leaf `connection_lost_is_noop`; with any other body the model's `connectionLost` block drops
the packets and this theorem's proof — `TcInv_step` — fails). -/
theorem C17_no_timer_raises (h : Host) (hi : TcInv h) (b : Block) (h' : Host) (o : List Out) (hs : step h b = some (h', o)) :
    Out.loopError ∉ o := by
  intro he
  obtain ⟨s, q, i, _, hz⟩ := loopError_site h b h' o hs he
  exact absurd (hi 0 (List.mem_of_getElem? hz)) (by decide)

/-- … for whole histories: from a host whose armed TC timers all have packets (in particular a fresh one), no sequence
of blocks ever raises into the loop, and the invariant still holds at the end -/
theorem C17_no_timer_raises_run (bs : List Block) : ∀ (h h' : Host) (o : List Out), TcInv h → run h bs = some (h', o) →
    Out.loopError ∉ o ∧ TcInv h' := by
  induction bs with
  | nil =>
    intro h h' o hi hr
    simp only [run, Option.some.injEq, Prod.mk.injEq] at hr
    obtain ⟨rfl, rfl⟩ := hr
    exact ⟨by simp, hi⟩
  | cons b rest ih =>
    intro h h' o hi hr
    obtain ⟨s1, o1, o2, h1, h2, rfl⟩ := run_cons h b rest h' o hr
    obtain ⟨e2, i2⟩ := ih s1 h' o2 (TcInv_step h b s1 o1 hi h1) h2
    refine ⟨?_, i2⟩
    intro hm
    rcases List.mem_append.mp hm with hm | hm
    · exact C17_no_timer_raises h hi b s1 o1 h1 hm
    · exact e2 hm

/-- the invariant is what carries the proof: with a packet-less armed timer (what a `connection_lost` that clears
`_deferred` would leave behind) the timer does raise into the loop — closed host or not -/
theorem C17_timer_raises_without_invariant (h : Host) (rest : List Nat) (s q : Nat) :
    ∃ h', step { h with tcs := 0 :: rest } (.tcFire s q 0) = some (h', [.loopError]) :=
  ⟨_, rfl⟩

/-- the cleanup timer is cancelled by the close (`_async_close`: `self._cleanup_timer.cancel()`, leaf), so it cannot fire
afterwards; the transports are closed, so nothing arrives; start-up cannot complete -/
theorem C17_cancelled_timers_cannot_fire (h : Host) (hw : WF h) (hr : h.closes.any Close.isReturned = true) (e : Bool) (s q : Nat) (d u : Bool) (da : Nat) :
    step h (.cleanupFire e) = none ∧ step h (.recv s q d u da) = none := by
  obtain ⟨_, ht, hcl, _⟩ := C17_returned_closed h hw hr
  simp [step, ht, hcl]

/-- the tracked browsers are cancelled by the close call itself: scheduler timer disarmed, listener removed — their
`schedFire` is not enabled afterwards and record updates no longer reach them -/
theorem C17_tracked_browsers_cancelled (h : Host) (hrun : h.running = true) (h' : Host) (o : List Out)
    (hs : step h (.closeCall false) = some (h', o)) : ∀ b ∈ h'.browsers, b.tracked = true → b.timer = false ∧ b.listening = false := by
  simp only [step, hrun, Bool.not_true, Bool.and_false, Bool.false_eq_true, ↓reduceIte, Option.some.injEq, Prod.mk.injEq] at hs
  obtain ⟨rfl, _⟩ := hs
  intro b hb ht
  simp only [closeBody, cancelTracked, Bool.false_eq_true, ↓reduceIte, List.mem_map] at hb
  obtain ⟨b0, _, rfl⟩ := hb
  by_cases hb0 : b0.tracked = true <;> simp_all

/-- the scheduler timer of a browser that was *not* cancelled fires at most once more after `done`: the pass returns
without sending and without re-arming -/
theorem C17_untracked_scheduler_stops (h : Host) (hd : h.done = true) (i q : Nat) (h' : Host) (o : List Out)
    (hs : step h (.schedFire i q) = some (h', o)) : o = [] ∧ step h' (.schedFire i q) = none := by
  simp only [step] at hs
  split at hs
  · simp at hs
  · rename_i b hb
    split at hs
    · simp at hs
    · simp only [hd, sched_blocked_of_done, ↓reduceIte, Option.some.injEq, Prod.mk.injEq] at hs
      obtain ⟨rfl, rfl⟩ := hs
      refine ⟨rfl, ?_⟩
      have hlt : i < h.browsers.length := (List.getElem?_eq_some_iff.mp hb).1
      simp [step, setTimer, List.getElem?_mapIdx, hb]

/-- `running` implies the transports are open — an invariant (start-up sets `running` only on open transports, the
shutdown clears it when it closes them) -/
theorem C17_running_open_invariant (h : Host) (b : Block) (h' : Host) (o : List Out)
    (hi : h.running = true → h.transportsClosed = false) (hs : step h b = some (h', o)) :
    h'.running = true → h'.transportsClosed = false := by
  cases b with
  | startUp =>
    simp only [step] at hs
    split at hs
    · simp at hs
    · rename_i hc
      simp only [Option.some.injEq, Prod.mk.injEq] at hs
      obtain ⟨rfl, _⟩ := hs
      intro _
      simp only [Bool.or_eq_true, not_or, Bool.not_eq_true] at hc
      exact hc.2
  | _ =>
    simp only [step] at hs <;> (repeat' split at hs) <;>
      first
      | (simp at hs; done)
      | (simp only [Option.some.injEq, Prod.mk.injEq] at hs
         obtain ⟨rfl, _⟩ := hs
         first
         | exact hi
         | (intro hh; simp at hh; done)
         | (simp only [closeBody, Host.setStage]; exact hi))

/-! ## every close call ends -/

/-- **progress**: in any state, the next block of a close call that has not ended (sync or async; a parked call is
woken at the latest by its own 1 s timeout) is enabled, and performing it moves the call strictly closer to its end
(`Close.rank`) — whatever the other closes, timers and tasks are doing -/
theorem C17_close_progress (h : Host) (k : Nat) (c : Close) (b : Block) (hc : h.closes[k]? = some c) (hn : c.next k = some b) :
    ∃ h' o c', step h b = some (h', o) ∧ h'.closes[k]? = some c' ∧ c'.rank < c.rank :=
  close_progress h k c b hc hn

/-- **frame**: blocks that are not steps of close `k` — other closes' steps included — leave its program counter alone.
With `C17_close_progress` (rank ≤ 10) this gives: under any interleaving in which a close call gets its turn at most
ten times, it has returned (or was cancelled by its caller); and by `C17_close_returns_closed` the block in which it
returns ends `Closed`. -/
theorem C17_close_frame (h : Host) (b : Block) (h' : Host) (o : List Out) (hs : step h b = some (h', o)) (k : Nat)
    (hb : b.closeIndex ≠ some k) (hk : k < h.closes.length) : h'.closes[k]? = h.closes[k]? :=
  closes_frame h b h' o hs k hb hk

/-! ## the goodbyes -/

/-- **C17, goodbyes first — every interleaving (partial).**  A close call (sync or async) on a running,
not-done host with `n > 0` registered services: the goodbye datagram for all of them is transmitted **in
that very block**, while the transports are open; and whatever follows — other close calls overlapping it and
shutting the instance down early, cancellations, timers, traffic — the registry is empty ever after,
*provided no registration completes meanwhile*.  The proviso is exactly the signature of finding D15
(`C17_goodbye_full_refuted`). -/
theorem C17_goodbye_once_partial (h : Host) (sync : Bool) (hnd : h.done = false) (hrun : h.running = true)
    (hopen : h.transportsClosed = false) (hreg : 0 < h.registry) (bs : List Block) (hb : ∀ b ∈ bs, b.noCompletion = true)
    (h' : Host) (o : List Out) (hr : run h (.closeCall sync :: bs) = some (h', o)) :
    (∃ h1 o1, step h (.closeCall sync) = some (h1, o1) ∧ count isGoodbye o1 = 1 ∧
        h1.transportsClosed = false ∧ h1.done = false) ∧
    h'.registry = 0 ∧ 1 ≤ count isGoodbye o := by
  have hreg' : h.registry ≠ 0 := by omega
  obtain ⟨s1, o1, o2, h1, h2, rfl⟩ := run_cons h (.closeCall sync) bs h' o hr
  have hstep := h1
  simp only [step, hrun, Bool.not_true, Bool.and_false, Bool.false_eq_true, ↓reduceIte, Option.some.injEq,
    Prod.mk.injEq] at h1
  obtain ⟨rfl, rfl⟩ := h1
  have hc1 : count isGoodbye (closeBody h sync).2.1 = 1 := by
    simp only [closeBody, hreg', ↓reduceIte, gated_of_not_done h hnd]
    rfl
  refine ⟨⟨_, _, hstep, hc1, by simp [closeBody, hopen], by simp [closeBody, hnd]⟩, ?_, ?_⟩
  · exact noCompletion_run bs hb _ h' o2 h2 (by simp [closeBody])
  · rw [count_append, hc1]; omega

/-- **C17, goodbyes first — three of them (partial).**  The first close call (sync or async) on a running host
with `n > 0` registered services; anything may be interleaved — traffic, timers, tasks, *further close calls
starting, waking, finishing or being cancelled* — except a completing registration (D15) and another close
reaching its shutdown before this one's goodbyes are out.  Then when this close is about to shut the transports
exactly three goodbye datagrams have been emitted, the transports are still open, the registry is empty. -/
theorem C17_goodbye_first_partial (h : Host) (sync : Bool) (hfirst : h.closes = []) (hnd : h.done = false)
    (hrun : h.running = true) (hopen : h.transportsClosed = false) (hreg : 0 < h.registry)
    (m1 m2 m3 : List Block) (hm1 : ∀ b ∈ m1, b.mid3 = true) (hm2 : ∀ b ∈ m2, b.mid3 = true) (hm3 : ∀ b ∈ m3, b.mid3 = true)
    (h' : Host) (o : List Out)
    (hr : run h (.closeCall sync :: m1 ++ (.closeGoodbye 0 :: m2 ++ .closeGoodbye 0 :: m3)) = some (h', o)) :
    count isGoodbye o = 3 ∧ h'.transportsClosed = false ∧ h'.registry = 0 ∧ h'.done = false ∧
      h'.closes[0]? = some ⟨sync, .unregistering 0⟩ := by
  have hreg' : h.registry ≠ 0 := by omega
  rw [run_append] at hr
  cases ha : run h (.closeCall sync :: m1) with
  | none => simp [ha] at hr
  | some va =>
    obtain ⟨ha', oa⟩ := va
    simp only [ha, Option.bind] at hr
    obtain ⟨s1, p1, q1, e1, r1, rfl⟩ := run_cons h (.closeCall sync) m1 ha' oa ha
    simp only [step, hrun, Bool.not_true, Bool.and_false, Bool.false_eq_true, ↓reduceIte, Option.some.injEq,
      Prod.mk.injEq] at e1
    obtain ⟨rfl, rfl⟩ := e1
    have hc0 : ({ (closeBody h sync).1 with closes := h.closes ++ [⟨sync, (closeBody h sync).2.2⟩] } : Host).closes[0]?
        = some ⟨sync, .unregistering moreGoodbyes⟩ := by
      simp [hfirst, closeBody, hreg']
    obtain ⟨d1, t1, g1, k1, c1⟩ := mid_run m1 hm1 _ _ ha' q1 r1 hc0 (by simp [closeBody])
    simp only [closeBody] at d1 t1
    rw [run_append] at hr
    cases hb : run ha' (.closeGoodbye 0 :: m2) with
    | none => simp [hb] at hr
    | some vb =>
      obtain ⟨hb', ob⟩ := vb
      simp only [hb, Option.bind] at hr
      obtain ⟨s2, p2, q2, e2, r2, rfl⟩ := run_cons ha' (.closeGoodbye 0) m2 hb' ob hb
      simp only [step, k1, moreGoodbyes, register_broadcasts] at e2
      obtain ⟨rfl, rfl⟩ := e2
      have hk2 : (ha'.setStage 0 sync (.unregistering 1)).closes[0]? = some ⟨sync, .unregistering 1⟩ := by
        simp only [Host.setStage]
        cases hl : ha'.closes with
        | nil => simp [hl] at k1
        | cons a r => simp [List.set]
      obtain ⟨d2, t2, g2, k2, c2⟩ := mid_run m2 hm2 _ _ hb' q2 r2 hk2 (by simpa [Host.setStage] using g1)
      simp only [Host.setStage] at d2 t2
      cases hc : run hb' (.closeGoodbye 0 :: m3) with
      | none => simp [hc] at hr
      | some vc =>
        obtain ⟨hc', oc⟩ := vc
        simp only [hc, Option.some.injEq, Prod.mk.injEq] at hr
        obtain ⟨rfl, rfl⟩ := hr
        obtain ⟨s3, p3, q3, e3, r3, rfl⟩ := run_cons hb' (.closeGoodbye 0) m3 hc' oc hc
        simp only [step, k2, Option.some.injEq, Prod.mk.injEq] at e3
        obtain ⟨rfl, rfl⟩ := e3
        have hk3 : (hb'.setStage 0 sync (.unregistering 0)).closes[0]? = some ⟨sync, .unregistering 0⟩ := by
          simp only [Host.setStage]
          cases hl : hb'.closes with
          | nil => simp [hl] at k2
          | cons a r => simp [List.set]
        obtain ⟨d3, t3, g3, k3, c3⟩ := mid_run m3 hm3 _ _ hc' q3 r3 hk3 (by simpa [Host.setStage] using g2)
        simp only [Host.setStage] at d3 t3
        have dA : ha'.done = false := d1.trans hnd
        have dB : hb'.done = false := d2.trans dA
        refine ⟨?_, ?_, g3, d3.trans dB, k3⟩
        · simp only [count_append, c1, c2, c3, closeBody, hreg', ↓reduceIte, gated_of_not_done h hnd,
            gated_of_not_done ha' dA, gated_of_not_done hb' dB]
          decide
        · rw [t3, t2, t1]; exact hopen

/-- **C17, a returning close leaves the host closed** — whichever of the overlapping calls it is, whatever
happened in between: the block in which a close call returns ends in `Closed` and emits nothing. -/
theorem C17_close_returns_closed (h : Host) (hw : WF h) (i : Nat) (h' : Host) (o : List Out)
    (hs : step h (.closeFinish i) = some (h', o)) : Closed h' ∧ o = [] := by
  have hw' := WF_step h _ h' o hw hs
  simp only [step] at hs
  split at hs
  · rename_i sync hi
    simp only [Option.some.injEq, Prod.mk.injEq] at hs
    obtain ⟨rfl, rfl⟩ := hs
    refine ⟨C17_returned_closed _ hw' ?_, rfl⟩
    simp only [Host.setStage]
    apply List.any_eq_true.mpr
    refine ⟨⟨sync, .returned⟩, ?_, rfl⟩
    exact List.mem_set (List.getElem?_eq_some_iff.mp hi).1 _
  · simp at hs

/-- full-strength goodbye statement: *any* blocks may follow the close call (registrations completing
included) and the registry is still empty afterwards -/
def C17_goodbye_full : Prop :=
  ∀ (h : Host) (bs : List Block), h.closes = [] → h.done = false → h.running = true → 0 < h.registry →
    ∀ h' o, run h (.closeCall false :: bs) = some (h', o) → h'.registry = 0

/-- D15, machine-checked: one service registered, a second one finishing its probes between the first and
the second goodbye → it sits in the registry when the transports close -/
def d15Host : Host :=
  { done := false, running := true, transportsClosed := false, cleanupArmed := true, registry := 1, browsers := [],
    outq := 0, tcs := [], lookups := 0, probing := 1, announcing := 0, closes := [] }

theorem C17_goodbye_full_refuted : ¬ C17_goodbye_full := by
  intro hf
  have := hf d15Host [.probeStep true, .closeGoodbye 0, .closeGoodbye 0] rfl rfl rfl (by decide)
  exact absurd (this _ _ rfl) (by decide)

/-- the blocks of one more `async_close()` on a host on which `k` close calls were made so far -/
def reclose (h : Host) : List Block :=
  .closeCall false :: ((if h.registry = 0 then [] else [.closeGoodbye h.closes.length, .closeGoodbye h.closes.length]) ++
    [.closeShutdown h.closes.length, .closeFinish h.closes.length])

/-- what a further `async_close()` leaves behind on a closed host: tracked browsers added meanwhile are cancelled, the
registry is emptied (silently), one more returned call is on record; the flags are as they were -/
def recloseResult (h : Host) : Host :=
  { done := true, running := false, transportsClosed := true, cleanupArmed := false, registry := 0,
    browsers := cancelTracked h.browsers, outq := h.outq, tcs := h.tcs, lookups := h.lookups, probing := h.probing,
    announcing := h.announcing, closes := h.closes ++ [⟨false, .returned⟩] }

/-- **C17, closing again is a no-op**: on a closed host a further `async_close()` runs through all its blocks,
emits nothing at all — no datagram, no callback, no exception — and leaves every flag as it was. -/
theorem C17_idempotent (h : Host) (hc : Closed h) :
    ∃ h', run h (reclose h) = some (h', []) ∧ Closed h' ∧ h'.done = h.done ∧ h'.transportsClosed = h.transportsClosed ∧
      h'.cleanupArmed = h.cleanupArmed := by
  obtain ⟨hd, ht, hcl, hret⟩ := hc
  have hcl' : Closed (recloseResult h) := by
    simp [Closed, recloseResult, hret]
  refine ⟨recloseResult h, ?_, hcl', by simp [recloseResult, hd], by simp [recloseResult, ht], by simp [recloseResult, hcl]⟩
  by_cases hr : h.registry = 0
  · simp [reclose, recloseResult, hr, run, step, close_no_wait_of_done, transportsAfterShutdown_eq, cleanupAfterClose_eq, closeBody, Host.setStage, bind, Option.bind, pure, hd, ht, hcl]
  · simp [reclose, recloseResult, hr, run, step, close_no_wait_of_done, transportsAfterShutdown_eq, cleanupAfterClose_eq, closeBody, Host.setStage, moreGoodbyes, register_broadcasts, bind,
      Option.bind, pure, gated, hd, ht, hcl, send_blocked_of_done]

/-- the remaining blocks of an `async_close()` that was parked waiting for start-up as call `i` -/
def rewake (h : Host) (i : Nat) : List Block :=
  .closeWake i false :: ((if h.registry = 0 then [] else [.closeGoodbye i, .closeGoodbye i]) ++ [.closeShutdown i, .closeFinish i])

def rewakeResult (h : Host) (i : Nat) : Host :=
  { done := true, running := false, transportsClosed := true, cleanupArmed := false, registry := 0,
    browsers := cancelTracked h.browsers, outq := h.outq, tcs := h.tcs, lookups := h.lookups, probing := h.probing,
    announcing := h.announcing, closes := h.closes.set i ⟨false, .returned⟩ }

/-- **C17, closing again is a no-op — also for closes that overlapped start-up.**  A close call that was parked in
`wait_for(async_wait_for_start(), 1)` while another close finished (the D17 situation) wakes on a closed host, runs
through all its blocks, emits nothing — no datagram, no callback, **no exception** — returns, and leaves every flag as it
was.  Together with `C17_idempotent` (a close *called* on a closed host) this makes "closing again is a no-op" hold for
every async close, whenever it was called. -/
theorem C17_idempotent_waiting (h : Host) (hc : Closed h) (i : Nat) (hi : h.closes[i]? = some ⟨false, .waitingStart⟩) :
    ∃ h', run h (rewake h i) = some (h', []) ∧ Closed h' ∧ h'.done = h.done ∧ h'.transportsClosed = h.transportsClosed ∧
      h'.cleanupArmed = h.cleanupArmed := by
  obtain ⟨hd, ht, hcl, hret⟩ := hc
  obtain ⟨hlt, hget⟩ := List.getElem?_eq_some_iff.mp hi
  have hcl' : Closed (rewakeResult h i) := by
    refine ⟨rfl, rfl, rfl, ?_⟩
    simp only [rewakeResult]
    exact any_set_of_not _ i _ _ hi rfl hret
  refine ⟨rewakeResult h i, ?_, hcl', by simp [rewakeResult, hd], by simp [rewakeResult, ht], by simp [rewakeResult, hcl]⟩
  by_cases hr : h.registry = 0
  · simp [rewake, rewakeResult, hr, run, step, hget, wakeRaises_suppressed, transportsAfterShutdown_eq, cleanupAfterClose_eq, closeBody, Host.setStage, bind, Option.bind, pure,
      hd, ht, hcl, hlt]
  · simp [rewake, rewakeResult, hr, run, step, hget, wakeRaises_suppressed, transportsAfterShutdown_eq, cleanupAfterClose_eq, closeBody, Host.setStage, moreGoodbyes,
      register_broadcasts, bind, Option.bind, pure, gated, hd, ht, hcl, hlt, send_blocked_of_done]

/-- two `async_close()` calls made before the engine finished starting (the D17 scenario) -/
def d17Host : Host :=
  { done := false, running := false, transportsClosed := false, cleanupArmed := true, registry := 0, browsers := [],
    outq := 0, tcs := [], lookups := 0, probing := 0, announcing := 0, closes := [] }

def d17Blocks : List Block :=
  [.closeCall false, .closeCall false, .startUp, .closeWake 0 false, .closeShutdown 0, .closeWake 1 false, .closeFinish 0,
   .closeShutdown 1, .closeFinish 1]

/-! ### non-vacuity -/

/-- a busy host: a service registered, another being probed, one announcing, queued answers, a deferred TC
query, a tracked and an untracked browser with armed timers, a lookup -/
def busy : Host :=
  { done := false, running := true, transportsClosed := false, cleanupArmed := true, registry := 1,
    browsers := [⟨true, false, true, true⟩, ⟨false, false, true, true⟩], outq := 2, tcs := [1], lookups := 1,
    probing := 1, announcing := 1, closes := [] }

/-- one close with traffic interleaved -/
def closeSeq : List Block :=
  [.closeCall false, .recv 1 1 false true, .closeGoodbye 0, .outqFire true, .probeStep false, .closeGoodbye 0, .announceStep true,
   .closeShutdown 0, .closeFinish 0]

/-- three overlapping closes: async, sync (`close()` from a thread), async; the third cuts in after the first
goodbye and shuts the instance down; the first is cancelled while it sleeps; the second returns last -/
def overlapSeq : List Block :=
  [.closeCall false, .closeCall true, .recv 1 0 false true, .closeCall false, .closeShutdown 2, .closeGoodbye 0, .closeAbort 0,
   .closeFinish 2, .outqFire true, .closeMarkDone 1, .closeShutdown 1, .closeFinish 1]

-- the close sequence runs on `busy`, is not silent (goodbyes, an answer, callbacks, a probe, an announcement) …
example : (run busy closeSeq).map (fun r => count isGoodbye r.2) = some 3 := by decide
example : (run busy closeSeq).map (fun r => r.2.length) = some 9 := by decide
-- … and ends closed, with things still in flight (timers armed, tasks pending)
example : ∃ r, run busy closeSeq = some r ∧ Closed r.1 ∧ r.1.outq = 2 ∧ r.1.tcs = [1] ∧ r.1.probing = 1 ∧ r.1.lookups = 1 := by decide
-- after which the very same kinds of blocks are silent, and an API call raises to its caller only
example : (run busy (closeSeq ++ [.outqFire true, .tcFire 2 1 0, .schedFire 1 1, .probeStep true, .announceStep true,
    .lookupStep 1 true, .closeCall false, .apiCall .register])).map (fun r => r.2.drop 9) = some [.raised .notRunning] := by decide
-- before the close they are not
example : (run busy [.outqFire true, .tcFire 2 1 0, .schedFire 1 1, .probeStep true, .lookupStep 1 true]).map (fun r => r.2.length) = some 6 := by decide
-- overlapping closes: one goodbye reaches the wire (D-free: the others are gated), the cancelled close raises to its caller,
-- everything after the first return is silent, the host ends closed with two calls returned and one aborted
example : (run busy overlapSeq).map (fun r => (count isGoodbye r.2, r.2.contains (.raised .cancelled))) = some (1, true) := by decide
example : ∃ r, run busy overlapSeq = some r ∧ Closed r.1 ∧ WF r.1 ∧
    r.1.closes.map (·.stage) = [.aborted, .returned, .returned] := by
  refine ⟨_, rfl, by decide, ?_, by decide⟩
  exact (C17_wf_invariant.2.2 overlapSeq busy _ _ (C17_wf_invariant.1 busy rfl) rfl)
-- the hypotheses of the goodbye theorems hold for `busy`, and the interleavable blocks include other closes' steps
example : busy.closes = [] ∧ busy.done = false ∧ busy.running = true ∧ busy.transportsClosed = false ∧ 0 < busy.registry := by decide
example : Block.mid3 (.recv 1 1 false true) = true ∧ Block.mid3 (.closeCall true) = true ∧ Block.mid3 (.closeAbort 1) = true
    ∧ Block.mid3 (.probeStep true) = false ∧ Block.mid3 (.closeShutdown 1) = false ∧ Block.mid3 (.closeAbort 0) = false := by decide
-- the D17 scenario on the repaired tree: the overtaken close wakes after the other one shut the instance down, proceeds,
-- and both return; nothing is emitted, nothing raises
example : (run d17Host d17Blocks).map (fun r => (r.2, r.1.closes.map (·.stage))) = some ([], [.returned, .returned]) := by decide
example : ∃ r, run d17Host d17Blocks = some r ∧ Closed r.1 := by decide

-- creating a browser on a closed host *does* call back (cache replay): the one block `C17_quiet` excludes, and why
example : ∃ r, run busy (closeSeq ++ [.apiBrowse false 2]) = some r ∧ r.2.drop 9 = [.callback, .callback] := by decide
-- `TcInv` holds on `busy` (one armed TC timer with one packet); a second truncated query for the same address adds a packet,
-- the timer then answers — no exception — also after the close, and `connection_lost` in between changes nothing
example : TcInv busy := by decide
example : (run busy ([.recv 0 0 true false 0] ++ closeSeq ++ [.connectionLost, .tcFire 1 0 0])).map
    (fun r => (r.1.tcs, r.2.contains .loopError)) = some ([], false) := by decide
-- every close call of `overlapSeq` has ended, and `Close.next` says so
example : (run busy overlapSeq).map (fun r => r.1.closes.map (fun c => c.next 0)) = some [none, none, none] := by decide

end Zc.Shutdown
