import Zc.Model.Shutdown
import Zc.GenFacts.Shutdown
import Zc.Proofs.Shutdown
/-! # C17 — shutdown is complete and quiet

After `close()` / `async_close()` has returned nothing is transmitted and no callback fires, whatever was
in progress; registered services were withdrawn with goodbyes before the transports closed; closing again
is a no-op.

`Host` abstracts the instance to the flags and counters that decide whether something can leave it, plus
**every close call made so far with its own program counter**: any number of `async_close()` / `close()`
calls may overlap and are interleaved with each other and with everything else at block boundaries.  What
each block *wants* to emit is an arbitrary argument of the block, so the theorems quantify over every
in-flight state (probing, announcing, queued answers, deferred TC queries, browser timers, lookups, state
changes queued for the listener of a thread-based browser), every interleaving and every later block sequence.
The gates are the generated leaves `Gen.Shutdown.*`; what each step of the close path cancels / closes / joins /
forgets is a translated statement-level leaf used by the model (`GenFacts.Shutdown.*_holds`).  The raise sites
of the close path are explicit outcomes (`Out.raised`): `NotRunningException` out of `async_wait_for_start`,
`CancelledError` at a suspension point of `async_close`, and — sync `close()` from a non-loop thread —
`RuntimeError` out of `Thread.join()` (finding D30) and `TimeoutError` out of `shutdown_loop` (finding D34).

Three findings bound what can be proved (each: full statement as a `def`, `_refuted` at a witness, `_partial` with the
finding's input class as hypothesis): **D15** a registration completing during the close's goodbye phase; **D30**
`close()` called on the callback thread of a browser made by `add_service_listener`; **D31** a thread-based
`ServiceBrowser` the instance does not track still has state changes queued when `close()` returns; **D34** two sync
`close()` calls overlapping inside `_shutdown_threads()`. -/
namespace Zc.Shutdown
open Zc.GenFacts.Shutdown

/-- **The flags follow the program counters** — an invariant of the machine, for every interleaving: a close
that reached its shutdown has set `done` and closed the transports, one that is back from the engine's close or has
returned has also cancelled the cleanup timer, and a loop that no longer runs was stopped by such a close.  It holds
when no close has been called on a running loop and is preserved by every block. -/
theorem C17_wf_invariant :
    (∀ h : Host, h.closes = [] → h.loopRunning = true → WF h) ∧
    (∀ (h h' : Host) (b : Block) (o : List Out), WF h → step h b = some (h', o) → WF h') ∧
    (∀ (bs : List Block) (h h' : Host) (o : List Out), WF h → run h bs = some (h', o) → WF h') :=
  ⟨fun h he hl => ⟨fun c hc => by simp [he] at hc, fun hf => by rw [hl] at hf; cases hf⟩,
   fun h h' b o hw hs => WF_step h b h' o hw hs, WF_run⟩

/-- **"Some close call has returned" means closed**, whichever of the overlapping calls it was — sync or async — and
whatever the others are doing. -/
theorem C17_returned_closed (h : Host) (hw : WF h) (hr : h.closes.any Close.isReturned = true) : Closed h := by
  obtain ⟨c, hc, hret⟩ := List.any_eq_true.mp hr
  have hst : c.stage = .returned := by
    unfold Close.isReturned at hret
    split at hret
    · assumption
    · simp at hret
  obtain ⟨hd, ht, hcu⟩ := (hw.1 c hc).2.2 (Or.inr (Or.inr hst))
  exact ⟨hd, ht, hcu, hr⟩

/-- full-strength statement of "quiet": in a closed host every block that can occur at all (other than the creation of
a browser, an API call made after the close) emits nothing.  **Reading**: a callback *fires* when it starts; the one callback a
browser thread may already be running when `close()` returns started before the return (blocks are atomic here: a
`browserThread` block before the returning block). -/
def C17_quiet_full : Prop :=
  ∀ (h : Host), WF h → Closed h → ∀ (b : Block), b.isBrowse = false → ∀ (h' : Host) (o : List Out),
    step h b = some (h', o) → (∀ x ∈ o, x.isEmission = false) ∧ Closed h'

/-- every browser thread that finds something in its queue stops instead of delivering it: true when the queues are empty
(`QueuesEmpty`), and true on a done instance when `ServiceBrowser.run()` looks at the instance's `done` flag (the D31 repair) -/
def ThreadsStop (h : Host) : Prop :=
  ∀ (i : Nat) (b : Browser), h.browsers[i]? = some b → b.threaded = true → b.queued ≠ 0 →
    Gen.Shutdown.thread_run_stops false h.done b.cancelled = true

theorem threadsStop_of_queuesEmpty (h : Host) (hq : QueuesEmpty h) : ThreadsStop h :=
  fun _ b hb ht hne => absurd (hq b (List.mem_of_getElem? hb) ht) hne

theorem threadsStop_of_repaired (h : Host) (hd : h.done = true) (hfix : ∀ c, Gen.Shutdown.thread_run_stops false true c = true) :
    ThreadsStop h := fun _ b _ _ _ => by rw [hd]; exact hfix _

/-- quiet, one block, over `ThreadsStop`, "no socket was opened behind the shutdown" and: either start-up had completed when the
instance was shut (the complement of R3-C17-a's class) or `_async_setup` looks at `done` (its repair) -/
theorem C17_quiet_core' (h : Host) (hw : WF h) (hc : Closed h) (hts : ThreadsStop h) (hls : h.lateSockets = false)
    (hsu : h.startPending = false ∨ Gen.Shutdown.startup_closes_when_done true = true) (b : Block) (hnb : b.isBrowse = false)
    (h' : Host) (o : List Out) (hs : step h b = some (h', o)) : (∀ x ∈ o, x.isEmission = false) ∧ Closed h' := by
  obtain ⟨hd, ht, hcl, hret⟩ := hc
  have sm := step_summary h b h' o hw hs
  refine ⟨?_, ⟨sm.done_mono hd, sm.tc_mono ht, sm.cu_mono hcl, sm.ret_mono hret⟩⟩
  have hg : ∀ l, gated h l = [] := gated_of_done h hd
  have hbody : ∀ s, (closeBody h s).2.1 = [] := by
    intro s
    simp only [closeBody]
    split
    · rfl
    · exact hg _
  have hz : (zcClose h).2 = [] := by rw [zcClose_of_done h hd]
  cases b with
  | recv s q d u da aa => simp [step, ht, hls] at hs
  | apiBrowse tr rp th zt => simp [Block.isBrowse] at hnb
  | cleanupFire e => simp [step, hcl] at hs
  | startUp =>
    cases hsp : h.startPending with
    | false => simp [step, hd, hsp] at hs
    | true =>
      rcases hsu with hsu | hfix
      · rw [hsp] at hsu; cases hsu
      · -- the endpoints have just been created on an instance closed meanwhile: they are shut down again, nothing is emitted
        simp only [step, hsp, hd, hfix, ↓reduceIte, Option.some.injEq, Prod.mk.injEq] at hs
        obtain ⟨_, rfl⟩ := hs
        simp
  | browserThread i =>
    simp only [step] at hs
    split at hs
    · simp at hs
    · rename_i b0 hb0
      split at hs
      · simp at hs
      · rename_i hen
        simp only [Bool.or_eq_true, Bool.not_eq_true', decide_eq_true_eq, not_or, Bool.not_eq_false] at hen
        -- something is queued: the thread stops
        rw [hts i b0 hb0 hen.1 hen.2] at hs
        simp only [↓reduceIte, Option.some.injEq, Prod.mk.injEq] at hs
        obtain ⟨_, rfl⟩ := hs
        simp
  | schedFire i q =>
    simp only [step] at hs
    split at hs
    · simp at hs
    · split at hs
      · simp at hs
      · simp only [hd, sched_blocked_of_done, ↓reduceIte, Option.some.injEq, Prod.mk.injEq] at hs
        obtain ⟨_, rfl⟩ := hs
        simp
  | apiCall k =>
    simp only [step, hd, wait_raises_of_done, ↓reduceIte, Option.some.injEq, Prod.mk.injEq] at hs
    obtain ⟨_, rfl⟩ := hs
    simp [Out.isEmission]
  | _ =>
    simp only [step] at hs <;> (repeat' split at hs) <;>
      first
      | (simp at hs; done)
      | (simp only [Option.some.injEq, Prod.mk.injEq] at hs
         obtain ⟨_, rfl⟩ := hs
         first
         | (simp [hg, hbody, hz, Out.isEmission, timerOnFinished_eq, notifyOnFinished_eq]; done)
         | (split <;> simp [hg, hbody, hz, Out.isEmission, timerOnFinished_eq, notifyOnFinished_eq]; done))

/-- quiet, one block, over `ThreadsStop` and `NoLateStart` (start-up had completed when the instance was shut: the complement of
finding R3-C17-a) -/
theorem C17_quiet_core (h : Host) (hw : WF h) (hc : Closed h) (hts : ThreadsStop h) (hns : NoLateStart h) (b : Block) (hnb : b.isBrowse = false)
    (h' : Host) (o : List Out) (hs : step h b = some (h', o)) : (∀ x ∈ o, x.isEmission = false) ∧ Closed h' ∧ NoLateStart h' := by
  obtain ⟨e, c⟩ := C17_quiet_core' h hw hc hts hns.2 (Or.inl hns.1) b hnb h' o hs
  exact ⟨e, c, NoLateStart_step h b h' o hns hs⟩

/-- **C17, quiet (one block), partial (D31, R3-C17-a).**  In a closed host whose start-up had completed (`NoLateStart`) and in which
no thread-based browser has state changes waiting in its queue (`QueuesEmpty`), every block that can occur at all — timer, task
resumption, a further close call (sync or async) or a step of a close still in progress, an API call, a browser thread looking at its
queue — emits nothing (no datagram, no goodbye, no callback), and the host stays closed, with empty queues and no late start.
`QueuesEmpty` is the complement of finding **D31** (not needed on a tree whose `ServiceBrowser.run()` looks at `zc.done`:
`C17_quiet_startup_partial`); `NoLateStart` is the complement of finding **R3-C17-a**: `close()` does not wait for start-up, an
instance closed while its endpoints were being created opens them afterwards (`C17_quiet_full_refuted_late_start`). -/
theorem C17_quiet_partial (h : Host) (hw : WF h) (hc : Closed h) (hq : QueuesEmpty h) (hns : NoLateStart h) (b : Block) (hnb : b.isBrowse = false)
    (h' : Host) (o : List Out) (hs : step h b = some (h', o)) :
    (∀ x ∈ o, x.isEmission = false) ∧ Closed h' ∧ QueuesEmpty h' ∧ NoLateStart h' := by
  have hq' := QueuesEmpty_step h b h' o hq ⟨hc.1, hc.2.1, hc.2.2.1⟩ hns.2 hnb hs
  obtain ⟨e, c, n⟩ := C17_quiet_core h hw hc (threadsStop_of_queuesEmpty h hq) hns b hnb h' o hs
  exact ⟨e, c, hq', n⟩

/-- **C17, quiet (one block), partial (R3-C17-a only) on a tree with the D31 repair**: if `ServiceBrowser.run()` returns when the
instance is done (`hfix`), whatever is still queued for whichever thread-based browser is dropped, not delivered; what remains is
`NoLateStart`. -/
theorem C17_quiet_repaired (hfix : ∀ c, Gen.Shutdown.thread_run_stops false true c = true) (h : Host) (hw : WF h) (hc : Closed h)
    (hns : NoLateStart h) (b : Block) (hnb : b.isBrowse = false) (h' : Host) (o : List Out) (hs : step h b = some (h', o)) :
    (∀ x ∈ o, x.isEmission = false) ∧ Closed h' ∧ NoLateStart h' :=
  C17_quiet_core h hw hc (threadsStop_of_repaired h hc.1 hfix) hns b hnb h' o hs

/-- **C17, quiet (forever), partial (D31, R3-C17-a).** -/
theorem C17_quiet_run_partial (bs : List Block) (hnb : ∀ b ∈ bs, b.isBrowse = false) : ∀ (h : Host), WF h → Closed h → QueuesEmpty h →
    NoLateStart h → ∀ h' o, run h bs = some (h', o) → (∀ x ∈ o, x.isEmission = false) ∧ Closed h' ∧ WF h' ∧ QueuesEmpty h' ∧ NoLateStart h' := by
  induction bs with
  | nil =>
    intro h hw hc hq hns h' o hr
    simp only [run, Option.some.injEq, Prod.mk.injEq] at hr
    obtain ⟨rfl, rfl⟩ := hr
    exact ⟨by simp, hc, hw, hq, hns⟩
  | cons b rest ih =>
    intro h hw hc hq hns h' o hr
    obtain ⟨s1, o1, o2, h1, h2, rfl⟩ := run_cons h b rest h' o hr
    obtain ⟨e1, c1, q1, n1⟩ := C17_quiet_partial h hw hc hq hns b (hnb b (by simp)) s1 o1 h1
    obtain ⟨e2, c2, w2, q2, n2⟩ := ih (fun x hx => hnb x (by simp [hx])) s1 (WF_step h b s1 o1 hw h1) c1 q1 n1 h' o2 h2
    refine ⟨?_, c2, w2, q2, n2⟩
    intro x hx
    rcases List.mem_append.mp hx with hx | hx
    · exact e1 x hx
    · exact e2 x hx

/-- **C17, quiet (forever), partial (R3-C17-a) on a tree with the D31 repair.** -/
theorem C17_quiet_run_repaired (hfix : ∀ c, Gen.Shutdown.thread_run_stops false true c = true) (bs : List Block)
    (hnb : ∀ b ∈ bs, b.isBrowse = false) : ∀ (h : Host), WF h → Closed h → NoLateStart h →
    ∀ h' o, run h bs = some (h', o) → (∀ x ∈ o, x.isEmission = false) ∧ Closed h' ∧ WF h' ∧ NoLateStart h' := by
  induction bs with
  | nil =>
    intro h hw hc hns h' o hr
    simp only [run, Option.some.injEq, Prod.mk.injEq] at hr
    obtain ⟨rfl, rfl⟩ := hr
    exact ⟨by simp, hc, hw, hns⟩
  | cons b rest ih =>
    intro h hw hc hns h' o hr
    obtain ⟨s1, o1, o2, h1, h2, rfl⟩ := run_cons h b rest h' o hr
    obtain ⟨e1, c1, n1⟩ := C17_quiet_repaired hfix h hw hc hns b (hnb b (by simp)) s1 o1 h1
    obtain ⟨e2, c2, w2, n2⟩ := ih (fun x hx => hnb x (by simp [hx])) s1 (WF_step h b s1 o1 hw h1) c1 n1 h' o2 h2
    refine ⟨?_, c2, w2, n2⟩
    intro x hx
    rcases List.mem_append.mp hx with hx | hx
    · exact e1 x hx
    · exact e2 x hx

/-- **C17, quiet — partial (R3-C17-a)** (the D31 repair is in the tree: `GenFacts.Shutdown.thread_run_stops_when_done`): in a host
closed **after its start-up had completed**, every block that can occur at all emits nothing, forever — browser threads included,
whatever is still in their queues.  The full statement `C17_quiet_full` is false of the tree: `C17_quiet_full_refuted_late_start`. -/
theorem C17_quiet_startup_partial (h : Host) (hw : WF h) (hc : Closed h) (hns : NoLateStart h) (b : Block) (hnb : b.isBrowse = false)
    (h' : Host) (o : List Out) (hs : step h b = some (h', o)) : (∀ x ∈ o, x.isEmission = false) ∧ Closed h' ∧ NoLateStart h' :=
  C17_quiet_repaired thread_run_stops_when_done h hw hc hns b hnb h' o hs

theorem C17_quiet_run_startup_partial (bs : List Block) (hnb : ∀ b ∈ bs, b.isBrowse = false) (h : Host) (hw : WF h) (hc : Closed h)
    (hns : NoLateStart h) (h' : Host) (o : List Out) (hr : run h bs = some (h', o)) :
    (∀ x ∈ o, x.isEmission = false) ∧ Closed h' ∧ WF h' ∧ NoLateStart h' :=
  C17_quiet_run_repaired thread_run_stops_when_done bs hnb h hw hc hns h' o hr

/-- the same, starting from "a close call has returned" -/
theorem C17_quiet_after_return_partial (bs : List Block) (hnb : ∀ b ∈ bs, b.isBrowse = false) (h : Host) (hw : WF h)
    (hr : h.closes.any Close.isReturned = true) (hq : QueuesEmpty h) (hns : NoLateStart h)
    (h' : Host) (o : List Out) (hrun : run h bs = some (h', o)) : ∀ x ∈ o, x.isEmission = false :=
  (C17_quiet_run_partial bs hnb h hw (C17_returned_closed h hw hr) hq hns h' o hrun).1

/-- **`_close()` joins the browsers it tracks**: after the block in which a close runs `Zeroconf._close()` on an instance
that was not done (sync: `closeMarkDone` from a thread that is no browser's; async: `closeShutdown`), the only thread-based
browsers with something left in their queue are ones the instance does not track, and they had it before — what was queued
for the tracked ones has been delivered *in that block*, before any close returns. -/
theorem C17_close_joins_tracked_thread_browsers (h : Host) (hd : h.done = false) :
    ∀ b ∈ (zcClose h).1.browsers, b.threaded = true → b.queued ≠ 0 → b ∈ h.browsers ∧ b.zcTracked = false :=
  zcClose_joins h hd

/-! ### The repaired tree (R3-C17-a fixed, 609d2f3): quiet without `NoLateStart`

`AsyncEngine._async_setup` now looks at `zc.done` once the endpoints exist and shuts them down again (translated leaf
`startup_closes_when_done`, `GenFacts.Shutdown.startup_closes_when_done_on`).  In the model a start-up that completes on a closed
instance no longer opens late sockets, so `lateSockets = false` is an invariant of every run (`C17_no_late_sockets_invariant`) and the
quiet theorems hold for **every** closed host of every run, whether start-up had completed when the close came or not. -/

/-- **No socket is ever opened behind a shutdown** — an invariant of the machine on the current tree: it holds initially (`lateSockets`
is `false` in every host that has not run a block) and is preserved by every block. -/
theorem C17_no_late_sockets_invariant :
    (∀ (h h' : Host) (b : Block) (o : List Out), h.lateSockets = false → step h b = some (h', o) → h'.lateSockets = false) ∧
    (∀ (bs : List Block) (h h' : Host) (o : List Out), h.lateSockets = false → run h bs = some (h', o) → h'.lateSockets = false) :=
  ⟨fun h h' b o => lateSockets_step startup_closes_when_done_on h b h' o, lateSockets_run startup_closes_when_done_on⟩

/-- full-strength statement of "quiet" over the states runs can reach: in a closed host every block that can occur at all (other than the
creation of a browser) emits nothing and the host stays closed.  (`C17_quiet_full` above also quantifies over hosts with sockets opened
behind the shutdown, which no run reaches on the repaired tree — and every run could on the unrepaired one.) -/
def C17_quiet_reachable_full : Prop :=
  ∀ (h : Host), WF h → h.lateSockets = false → Closed h → ∀ (b : Block), b.isBrowse = false → ∀ (h' : Host) (o : List Out),
    step h b = some (h', o) → (∀ x ∈ o, x.isEmission = false) ∧ Closed h' ∧ h'.lateSockets = false

theorem C17_quiet_of_fixes (hfixT : ∀ c, Gen.Shutdown.thread_run_stops false true c = true)
    (hfixS : Gen.Shutdown.startup_closes_when_done true = true) : C17_quiet_reachable_full := by
  intro h hw hls hc b hnb h' o hs
  obtain ⟨e, c⟩ := C17_quiet_core' h hw hc (threadsStop_of_repaired h hc.1 hfixT) hls (Or.inr hfixS) b hnb h' o hs
  exact ⟨e, c, lateSockets_step hfixS h b h' o hls hs⟩

/-- **C17, quiet (one block) — full strength on the current tree** (D31 and R3-C17-a repaired: both hypotheses discharged from the
translated leaves).  In a closed host — closed after start-up, during start-up, before it — every block that can occur at all emits
nothing: no datagram, no goodbye, no callback; the start-up block of an instance closed meanwhile shuts the endpoints it created. -/
theorem C17_quiet : C17_quiet_reachable_full :=
  C17_quiet_of_fixes thread_run_stops_when_done startup_closes_when_done_on

theorem C17_quiet_run_closed_of_fixes (hfixT : ∀ c, Gen.Shutdown.thread_run_stops false true c = true)
    (hfixS : Gen.Shutdown.startup_closes_when_done true = true) (bs : List Block) (hnb : ∀ b ∈ bs, b.isBrowse = false) :
    ∀ (h : Host), WF h → Closed h → h.lateSockets = false →
    ∀ h' o, run h bs = some (h', o) → (∀ x ∈ o, x.isEmission = false) ∧ Closed h' ∧ WF h' ∧ h'.lateSockets = false := by
  induction bs with
  | nil =>
    intro h hw hc hls h' o hr
    simp only [run, Option.some.injEq, Prod.mk.injEq] at hr
    obtain ⟨rfl, rfl⟩ := hr
    exact ⟨by simp, hc, hw, hls⟩
  | cons b rest ih =>
    intro h hw hc hls h' o hr
    obtain ⟨s1, o1, o2, h1, h2, rfl⟩ := run_cons h b rest h' o hr
    obtain ⟨e1, c1, l1⟩ := C17_quiet_of_fixes hfixT hfixS h hw hls hc b (hnb b (by simp)) s1 o1 h1
    obtain ⟨e2, c2, w2, l2⟩ := ih (fun x hx => hnb x (by simp [hx])) s1 (WF_step h b s1 o1 hw h1) c1 l1 h' o2 h2
    refine ⟨?_, c2, w2, l2⟩
    intro x hx
    rcases List.mem_append.mp hx with hx | hx
    · exact e1 x hx
    · exact e2 x hx

/-- full-strength statement of "quiet, forever", over whole runs: start anywhere no socket has been opened behind a shutdown (every
fresh host), run any blocks — closes called during start-up included — until some close call has returned; whatever blocks follow
(no browser created after the close) emit nothing, and the host stays closed. -/
def C17_quiet_run_full : Prop :=
  ∀ (h0 : Host) (bs1 bs2 : List Block), WF h0 → h0.lateSockets = false → (∀ b ∈ bs2, b.isBrowse = false) →
    ∀ (h : Host) (o1 : List Out), run h0 bs1 = some (h, o1) → h.closes.any Close.isReturned = true →
    ∀ (h' : Host) (o2 : List Out), run h bs2 = some (h', o2) → (∀ x ∈ o2, x.isEmission = false) ∧ Closed h'

theorem C17_quiet_run_of_fixes (hfixT : ∀ c, Gen.Shutdown.thread_run_stops false true c = true)
    (hfixS : Gen.Shutdown.startup_closes_when_done true = true) : C17_quiet_run_full := by
  intro h0 bs1 bs2 hw0 hl0 hnb h o1 hr1 hret h' o2 hr2
  have hw : WF h := WF_run bs1 h0 h o1 hw0 hr1
  have hls : h.lateSockets = false := lateSockets_run hfixS bs1 h0 h o1 hl0 hr1
  obtain ⟨e, c, _, _⟩ := C17_quiet_run_closed_of_fixes hfixT hfixS bs2 hnb h hw (C17_returned_closed h hw hret) hls h' o2 hr2
  exact ⟨e, c⟩

/-- **C17, quiet (forever) — full strength on the current tree**: once any close call has returned — whenever it was made — nothing is
emitted and no callback starts, whatever blocks follow.  No `NoLateStart`, no `QueuesEmpty`: both repairs are read off the tree. -/
theorem C17_quiet_run : C17_quiet_run_full :=
  C17_quiet_run_of_fixes thread_run_stops_when_done startup_closes_when_done_on

/-- **datagrams can no longer even arrive** in a closed host of any run: `recv` is rejected, the cleanup timer cannot fire, and a
start-up still pending can only shut its endpoints down again (no emission, `running` stays off) — full strength on the current tree -/
theorem C17_no_input_after_close (h : Host) (hc : Closed h) (hls : h.lateSockets = false) (s q : Nat) (d u e : Bool) :
    step h (.recv s q d u) = none ∧ step h (.cleanupFire e) = none ∧
    (step h .startUp = none ∨ step h .startUp = some ({ h with startPending := false }, [])) := by
  obtain ⟨hd, ht, hcl, _⟩ := hc
  refine ⟨by simp [step, ht, hls], by simp [step, hcl], ?_⟩
  cases hsp : h.startPending with
  | false => left; simp [step, hsp, hd]
  | true => right; simp [step, hsp, hd, startup_closes_when_done_on]

/-- datagrams can no longer even arrive: a closed host rejects `recv`; nor can the cleanup timer fire, nor
can start-up complete — the form under `NoLateStart` (true on the unrepaired tree as well) -/
theorem C17_no_input_after_close_startup_partial (h : Host) (hc : Closed h) (hns : NoLateStart h) (s q : Nat) (d u e : Bool) :
    step h (.recv s q d u) = none ∧ step h (.cleanupFire e) = none ∧ step h .startUp = none := by
  obtain ⟨hd, ht, hcl, _⟩ := hc
  simp [step, ht, hcl, hd, hns.1, hns.2]

/-- the blocks of close calls (sync and async) and of start-up — everything a close does except being cancelled -/
def Block.plainClose : Block → Bool
  | .closeCall _ | .closeWake _ _ | .closeGoodbye _ | .closeMarkDone _ _ | .closeShutdown _ | .closeFinish _
  | .closeThreadsCheck _ | .closeThreadsStop _ | .closeBlocked _ | .startUp => true
  | _ => false

/-- **The raise sites.**  In any state, the only blocks that hand an exception to a caller are: an API call on a done
instance (`NotRunningException`); the cancellation, by its caller, of the task awaiting an async close (`CancelledError`);
`_close()` of a sync close running on the callback thread of a live browser of `Zeroconf.browsers` (`RuntimeError`, D30);
`shutdown_loop` of a sync close on a loop that no longer runs (`TimeoutError`, D34).
(Exceptions that reach the *loop* are a different outcome, `Out.loopError`; see `C17_loop_error_site`.) -/
theorem C17_raise_sites (h : Host) (b : Block) (h' : Host) (o : List Out) (hs : step h b = some (h', o))
    (e : Exc) (he : Out.raised e ∈ o) :
    (e = .notRunning ∧ ∃ k, b = .apiCall k) ∨ (e = .cancelled ∧ ∃ i, b = .closeAbort i) ∨
    (e = .runtimeError ∧ b.selfJoins h = true) ∨ (e = .timeout ∧ (∃ i, b = .closeThreadsStop i) ∧ h.loopRunning = false) ∨
    (e = .loopBlocked ∧ (∃ i c, b = .closeBlocked i ∧ h.closes[i]? = some c ∧ c.waitsOnLoop = true) ∧ h.loopRunning = false) := by
  have hgr : ∀ l : List Out, (∀ x ∈ l, ∀ e', x ≠ Out.raised e') → ∀ e', Out.raised e' ∉ gated h l := by
    intro l hl e' hm
    rcases gated_sub h l with g | g <;> rw [g] at hm
    · simp at hm
    · exact hl _ hm e' rfl
  have hrep : ∀ n e', Out.raised e' ∉ gated h (List.replicate n Out.send) := by
    intro n e'
    exact hgr _ (by intro x hx; simp only [List.mem_replicate] at hx; rw [hx.2]; intro e'' hh; cases hh) e'
  have hone : ∀ (y : Out) e', (∀ e'', y ≠ .raised e'') → Out.raised e' ∉ gated h [y] := by
    intro y e' hy
    exact hgr _ (by intro x hx; simp only [List.mem_singleton] at hx; rw [hx]; exact hy) e'
  have hnot : ∀ u e', Out.raised e' ∉ notify h u := by
    intro u e' hm
    unfold notify at hm
    split at hm
    · simp only [List.mem_append, List.mem_map, List.mem_replicate] at hm
      rcases hm with ⟨_, _, hh⟩ | ⟨_, hh⟩ <;> cases hh
    · simp at hm
  have hbody : ∀ s e', Out.raised e' ∉ (closeBody h s).2.1 := by
    intro s e' hm
    simp only [closeBody] at hm
    split at hm
    · simp at hm
    · exact hone .goodbye e' (by intro e'' hh; cases hh) hm
  have hzc : ∀ e', Out.raised e' ∉ (zcClose h).2 := by
    intro e' hm
    rcases (mem_zcClose_out hm).2 with hh | hh <;> cases hh
  have hcb : ∀ n e', Out.raised e' ∉ List.replicate n Out.callback := by
    intro n e' hm
    have := List.eq_of_mem_replicate hm
    cases this
  cases b with
  | apiCall k =>
    simp only [step] at hs
    split at hs
    · simp only [Option.some.injEq, Prod.mk.injEq] at hs
      obtain ⟨_, rfl⟩ := hs
      simp only [List.mem_singleton, Out.raised.injEq] at he
      exact Or.inl ⟨he, k, rfl⟩
    · split at hs
      · simp at hs
      · cases k <;>
        · simp only [Option.some.injEq, Prod.mk.injEq] at hs
          obtain ⟨_, rfl⟩ := hs
          simp at he
  | closeAbort i =>
    simp only [step] at hs
    split at hs
    all_goals first
      | (simp only [Option.some.injEq, Prod.mk.injEq] at hs
         obtain ⟨_, rfl⟩ := hs
         simp only [List.mem_singleton, Out.raised.injEq] at he
         exact Or.inr (Or.inl ⟨he, i, rfl⟩))
      | simp at hs
  | closeMarkDone i c =>
    simp only [step] at hs
    split at hs
    · split at hs
      · rename_i hsj
        simp only [Option.some.injEq, Prod.mk.injEq] at hs
        obtain ⟨_, rfl⟩ := hs
        simp only [List.mem_singleton, Out.raised.injEq] at he
        exact Or.inr (Or.inr (Or.inl ⟨he, by simpa [Block.selfJoins] using hsj⟩))
      · simp only [Option.some.injEq, Prod.mk.injEq] at hs
        obtain ⟨_, rfl⟩ := hs
        exact absurd he (hzc _)
    · simp at hs
  | closeThreadsStop i =>
    simp only [step] at hs
    split at hs
    · split at hs
      · rename_i hlr
        simp only [Option.some.injEq, Prod.mk.injEq] at hs
        obtain ⟨_, rfl⟩ := hs
        simp only [List.mem_singleton, Out.raised.injEq] at he
        exact Or.inr (Or.inr (Or.inr (Or.inl ⟨he, ⟨i, rfl⟩, by simpa using hlr⟩)))
      · simp only [Option.some.injEq, Prod.mk.injEq] at hs
        obtain ⟨_, rfl⟩ := hs
        simp at he
    · simp at hs
  | closeBlocked i =>
    simp only [step] at hs
    split at hs
    · rename_i c0 hi
      split at hs
      · rename_i hb
        simp only [Option.some.injEq, Prod.mk.injEq] at hs
        obtain ⟨_, rfl⟩ := hs
        simp only [List.mem_singleton, Out.raised.injEq] at he
        simp only [Bool.and_eq_true, Bool.not_eq_true'] at hb
        exact Or.inr (Or.inr (Or.inr (Or.inr ⟨he, ⟨i, c0, rfl, hi, hb.1⟩, hb.2⟩)))
      · simp at hs
    · simp at hs
  | closeWake i t =>
    simp only [step] at hs
    split at hs
    · split at hs
      · simp only [Option.some.injEq, Prod.mk.injEq] at hs
        obtain ⟨_, rfl⟩ := hs
        exact absurd he (hbody _ _)
      · split at hs
        · simp at hs
        · split at hs
          · rename_i hr
            rw [wakeRaises_suppressed] at hr
            exact absurd hr (by decide)
          · simp only [Option.some.injEq, Prod.mk.injEq] at hs
            obtain ⟨_, rfl⟩ := hs
            exact absurd he (hbody _ _)
    · simp at hs
  | _ =>
    exfalso
    simp only [step] at hs <;> (repeat' split at hs) <;>
      first
      | (simp at hs; done)
      | (simp only [Option.some.injEq, Prod.mk.injEq] at hs
         obtain ⟨_, rfl⟩ := hs
         first
         | (simp at he; done)
         | exact hrep _ _ he
         | exact hbody _ _ he
         | exact hzc _ he
         | exact hnot _ _ he
         | exact hcb _ _ he
         | exact hone _ _ (by intro e'' hh; cases hh) he
         | (rcases List.mem_append.mp he with hm | hm
            · exact hrep _ _ hm
            · exact hnot _ _ hm)
         | exact hgr [] (by simp) _ he
         | (split at he
            · exact hone .send e (by intro e'' hh; cases hh) he
            · exact hgr [] (by simp) e he)
         | (split at he
            · simp at he
            · exact hcb _ _ he)
         | (rw [timerOnFinished_eq] at he; simp at he; done)
         | (rw [notifyOnFinished_eq] at he; simp at he; done))

/-- full-strength statement: no step of any close call, sync or async, in any state, hands an exception to its caller -/
def C17_close_never_raises_full : Prop :=
  ∀ (h : Host) (b : Block), b.plainClose = true → ∀ (h' : Host) (o : List Out), step h b = some (h', o) → ∀ e, Out.raised e ∉ o

/-- **No close call ever hands an exception to its caller, partial (D30, D34)** (other than the `CancelledError` of its own
cancellation): every block of every `async_close()` — called on a running instance, during start-up, overlapping any number
of other closes, woken by the start-up event or by its own 1 s timeout, after another close has finished — and every block
of every sync `close()` from a non-loop thread, **provided** the block is not `_close()` running on the callback thread of a
live browser of `Zeroconf.browsers` (`selfJoins`: finding D30) and the loop-thread bookkeeping is intact (`LoopInv`: a remembered
loop thread runs its loop; **a sync close that has submitted a coroutine to the loop and blocks on it finds the loop running**; at
most one sync close is about to stop it -- preserved by every block except the two of `overlapsStop`: a sync close entering
`_shutdown_threads()` while another one is about to stop the loop, or *stopping the loop while another sync close waits on it* --
finding D34, both forms; `C17_loop_invariant`).  The `EventLoopBlocked` a sync close gets when the loop it waits on was stopped by
another close is the block `closeBlocked` (`C17_blocked_sync_close_raises`); a loop that runs but is *blocked* by the application
for longer than the safeguard is outside the model (no block of the machine takes time).
False before fix 25230c1 for the async wait: `C17_wake_raised_before_fix`. -/
theorem C17_close_never_raises_partial (h : Host) (b : Block) (hb : b.plainClose = true) (hnj : b.selfJoins h = false)
    (hl : LoopInv h) (h' : Host) (o : List Out) (hs : step h b = some (h', o)) (e : Exc) : Out.raised e ∉ o := by
  intro he
  rcases C17_raise_sites h b h' o hs e he with ⟨_, k, rfl⟩ | ⟨_, i, rfl⟩ | ⟨_, hj⟩ | ⟨_, ⟨i, rfl⟩, hlr⟩ | ⟨_, ⟨i, c, rfl, hi, hw⟩, hlr⟩
  · simp [Block.plainClose] at hb
  · simp [Block.plainClose] at hb
  · rw [hnj] at hj; cases hj
  · -- the stopping close sees a running loop
    simp only [step] at hs
    split at hs
    · rename_i hi
      have := hl.2.2.1 i _ hi rfl
      rw [hlr] at this
      cases this
    · simp at hs
  · -- a close blocked on the loop sees it running
    have := hl.2.1 i c hi hw
    rw [hlr] at this
    cases this

/-- `LoopInv` holds on an instance whose loop runs and on which no close is in `_shutdown_threads()`, and is preserved by
every block that is not in D34's class -/
theorem C17_loop_invariant :
    (∀ h : Host, h.loopRunning = true → (∀ c ∈ h.closes, c.stage ≠ .stopping) → LoopInv h) ∧
    (∀ (h h' : Host) (b : Block) (o : List Out), LoopInv h → b.overlapsStop h = false → step h b = some (h', o) → LoopInv h') :=
  ⟨fun h hl hn => ⟨fun _ => hl, fun _ _ _ _ => hl, fun _ _ _ _ => hl, fun i _ ci _ hi _ si _ => absurd si (hn ci (List.mem_of_getElem? hi))⟩,
   fun h h' b o hl hn hs => LoopInv_step h b h' o hl hn hs⟩

/-- a history none of whose blocks, in the state in which it occurs, is in the class of finding D30 (`_close()` on the
callback thread of a browser it must join) or of finding D34 (`_shutdown_threads()` entered while another sync close is
about to stop the loop) -/
def ClassFree : Host → List Block → Prop
  | _, [] => True
  | h, b :: rest => b.selfJoins h = false ∧ b.overlapsStop h = false ∧ ∀ h' o, step h b = some (h', o) → ClassFree h' rest

/-- the same for whole histories (partial: D30, D34): with no API call and no cancellation by a caller among the blocks,
nothing raises — whatever interleaving of any number of sync/async closes, start-up, timers, tasks and traffic -/
theorem C17_nothing_raises_run_partial (bs : List Block) (hapi : ∀ b ∈ bs, ∀ k, b ≠ .apiCall k) (hab : ∀ b ∈ bs, ∀ i, b ≠ .closeAbort i) :
    ∀ (h h' : Host) (o : List Out), LoopInv h → ClassFree h bs → run h bs = some (h', o) → ∀ e, Out.raised e ∉ o := by
  induction bs with
  | nil =>
    intro h h' o _ _ hr e
    simp only [run, Option.some.injEq, Prod.mk.injEq] at hr
    obtain ⟨_, rfl⟩ := hr
    simp
  | cons b rest ih =>
    intro h h' o hl hcf hr e he
    obtain ⟨s1, o1, o2, h1, h2, rfl⟩ := run_cons h b rest h' o hr
    obtain ⟨c1, c2, c3⟩ := hcf
    rcases List.mem_append.mp he with hm | hm
    · rcases C17_raise_sites h b s1 o1 h1 e hm with ⟨_, k, rfl⟩ | ⟨_, i, rfl⟩ | ⟨_, hj⟩ | ⟨_, ⟨i, rfl⟩, hlr⟩ | ⟨_, ⟨i, c, rfl, hi, hw⟩, hlr⟩
      · exact hapi _ (by simp) k rfl
      · exact hab _ (by simp) i rfl
      · rw [c1] at hj; cases hj
      · simp only [step] at h1
        split at h1
        · rename_i hi
          have := hl.2.2.1 i _ hi rfl
          rw [hlr] at this
          cases this
        · simp at h1
      · have := hl.2.1 i c hi hw
        rw [hlr] at this
        cases this
    · exact ih (fun x hx => hapi x (by simp [hx])) (fun x hx => hab x (by simp [hx])) s1 h' o2
        (LoopInv_step h b s1 o1 hl c2 h1) (c3 s1 o1 h1) h2 e hm

/-- a close that was parked waiting for start-up always proceeds when woken: it reaches its goodbye phase -/
theorem C17_wake_proceeds (h : Host) (i : Nat) (t : Bool) (h' : Host) (o : List Out)
    (hs : step h (.closeWake i t) = some (h', o)) : ∃ k, h'.closes[i]? = some ⟨false, .unregistering k⟩ := by
  simp only [step] at hs
  split at hs
  · rename_i hi
    have hlt : i < h.closes.length := (List.getElem?_eq_some_iff.mp hi).1
    have body : ∀ h2 o2, (let r := closeBody h false; some (r.1.setStage i false r.2.2, r.2.1)) = some (h2, o2) →
        ∃ k, h2.closes[i]? = some ⟨false, .unregistering k⟩ := by
      intro h2 o2 he
      simp only [Option.some.injEq, Prod.mk.injEq] at he
      obtain ⟨rfl, _⟩ := he
      obtain ⟨k, hk⟩ := closeBody_stage h false
      refine ⟨k, ?_⟩
      simp [Host.setStage, closeBody, hlt] at hk ⊢
      exact hk
    split at hs
    · exact body _ _ hs
    · split at hs
      · simp at hs
      · split at hs
        · rename_i hr
          rw [wakeRaises_suppressed] at hr
          exact absurd hr (by decide)
        · exact body _ _ hs
  · simp at hs

/-- the witness of finding D17, kept as a fact about the *old* `async_close` (whose `suppress` did not list
`NotRunningException`): a close woken by the start-up event raised exactly when the instance was no longer running or
already done -/
theorem C17_wake_raised_before_fix (r d : Bool) : wakeRaises false r d = true ↔ (r = false ∨ d = true) := by
  simp [wakeRaises, wait_raises_after_iff]

/-! ## timers that outlive the close

What the close path cancels, closes or leaves alone is read off the source by statement-level leaves
(`GenFacts.Shutdown.*_holds`) that the model's definitions use: `_async_close` cancels the cleanup timer; `_async_shutdown`
closes (not aborts) every transport and clears `running_event`; `async_close` cancels the tracked browsers, whose
`_async_cancel` stops the scheduler (which cancels its timer) and removes the listener; `_close()` cancels and joins the
browsers of `Zeroconf.browsers`; `connection_lost` — scheduled by `transport.close()` — does nothing.  What is *not*
cancelled — the listener's deferred-TC timers, the aggregation-queue timers, the scheduler timers of untracked browsers,
lookups and registration tasks in progress — keeps firing after the close; the theorems say what then happens. -/

/-- **`TcInv`** — every armed deferred-TC timer has a packet to answer — holds with no timer armed and is preserved by
every block, `connection_lost` included.  It is the flag-machine form of C16's `TimerInv`
(`C16_timer_invariant`, proved there for the listener over every handler). -/
theorem C17_tc_invariant :
    (∀ h : Host, h.tcs = [] → TcInv h) ∧
    (∀ (h h' : Host) (b : Block) (o : List Out), TcInv h → step h b = some (h', o) → TcInv h') ∧
    (∀ (bs : List Block) (h h' : Host) (o : List Out), TcInv h → run h bs = some (h', o) → TcInv h') :=
  ⟨fun h he n hn => by simp [he] at hn, fun h h' b o hi hs => TcInv_step h b h' o hi hs, TcInv_run⟩

/-- **`ZcInv`** — no browser of `Zeroconf.browsers` has been through `_async_cancel` — holds with no such browser and is
preserved by every block except the aborted `_close()` of finding D30 -/
theorem C17_zc_invariant :
    (∀ h : Host, (∀ b ∈ h.browsers, b.zcTracked = false) → ZcInv h) ∧
    (∀ (h h' : Host) (b : Block) (o : List Out), ZcInv h → b.selfJoins h = false → step h b = some (h', o) → ZcInv h') :=
  ⟨fun h hn b hb hz => (by rw [hn b hb] at hz; cases hz), fun h h' b o hz hn hs => ZcInv_step h b h' o hz hn hs⟩

/-- **the two places where something can raise into the loop**: a deferred-TC timer firing for an address with nothing
deferred (`packets[0]` on an empty list), and `_close()` cancelling a browser of `Zeroconf.browsers` whose `_async_cancel`
already ran (the `assert` in the second `_async_cancel`).  No other block — queue timers, scheduler timers, the cleanup
timer, `connection_lost`, task resumptions, browser threads, the other close steps — has a raising outcome in the code
paths modelled. -/
theorem C17_loop_error_site (h : Host) (b : Block) (h' : Host) (o : List Out) (hs : step h b = some (h', o))
    (he : Out.loopError ∈ o) :
    (∃ s q i, b = .tcFire s q i ∧ h.tcs[i]? = some 0) ∨
    (((∃ i c, b = .closeMarkDone i c) ∨ (∃ i, b = .closeShutdown i)) ∧ h.done = false ∧
      ∃ br ∈ h.browsers, br.zcTracked = true ∧ br.cancelled = true) :=
  loopError_site h b h' o hs he

/-- **No timer left behind raises.**  Under `TcInv` and `ZcInv` no block hands an exception to the event loop — before,
during or after the close.  It holds *because* nothing on the close path empties `_deferred` while leaving `_timers` armed
(`connection_lost` is a no-op: leaf `connection_lost_is_noop`; with any other body the model's `connectionLost` block drops
the packets and `TcInv_step` fails) and because a browser of `Zeroconf.browsers` is forgotten when it is cancelled. -/
theorem C17_no_timer_raises (h : Host) (hi : TcInv h) (hz : ZcInv h) (b : Block) (h' : Host) (o : List Out)
    (hs : step h b = some (h', o)) : Out.loopError ∉ o := by
  intro he
  rcases loopError_site h b h' o hs he with ⟨s, q, i, _, h0⟩ | ⟨_, _, br, hbr, hzt, hca⟩
  · exact absurd (hi 0 (List.mem_of_getElem? h0)) (by decide)
  · have := (hz br hbr hzt).1
    rw [hca] at this
    cases this

/-- a history none of whose blocks is in the class of finding D30 -/
def NoSelfJoin : Host → List Block → Prop
  | _, [] => True
  | h, b :: rest => b.selfJoins h = false ∧ ∀ h' o, step h b = some (h', o) → NoSelfJoin h' rest

/-- … for whole histories (partial: D30): from a host whose armed TC timers all have packets and whose tracked thread
browsers are uncancelled (in particular a fresh one), no sequence of blocks ever raises into the loop, and both invariants
still hold at the end -/
theorem C17_no_timer_raises_run_partial (bs : List Block) : ∀ (h h' : Host) (o : List Out), TcInv h → ZcInv h → NoSelfJoin h bs →
    run h bs = some (h', o) → Out.loopError ∉ o ∧ TcInv h' ∧ ZcInv h' := by
  induction bs with
  | nil =>
    intro h h' o hi hz _ hr
    simp only [run, Option.some.injEq, Prod.mk.injEq] at hr
    obtain ⟨rfl, rfl⟩ := hr
    exact ⟨by simp, hi, hz⟩
  | cons b rest ih =>
    intro h h' o hi hz hn hr
    obtain ⟨s1, o1, o2, h1, h2, rfl⟩ := run_cons h b rest h' o hr
    obtain ⟨e2, i2, z2⟩ := ih s1 h' o2 (TcInv_step h b s1 o1 hi h1) (ZcInv_step h b s1 o1 hz hn.1 h1) (hn.2 s1 o1 h1) h2
    refine ⟨?_, i2, z2⟩
    intro hm
    rcases List.mem_append.mp hm with hm | hm
    · exact C17_no_timer_raises h hi hz b s1 o1 h1 hm
    · exact e2 hm

/-- the invariant is what carries the proof: with a packet-less armed timer (what a `connection_lost` that clears
`_deferred` would leave behind) the timer does raise into the loop — closed host or not -/
theorem C17_timer_raises_without_invariant (h : Host) (rest : List Nat) (s q : Nat) :
    ∃ h', step { h with tcs := 0 :: rest } (.tcFire s q 0) = some (h', [.loopError]) :=
  ⟨_, rfl⟩

/-- the cleanup timer is cancelled by the close (`_async_close`: `self._cleanup_timer.cancel()`, leaf — awaited by the sync
`engine.close()` too: leaf `engine_close_awaits_async_close`), so it cannot fire afterwards; the transports are closed, so
nothing arrives -/
theorem C17_cancelled_timers_cannot_fire (h : Host) (hw : WF h) (hr : h.closes.any Close.isReturned = true) (hls : h.lateSockets = false)
    (e : Bool) (s q : Nat) (d u : Bool) (da : Nat) :
    step h (.cleanupFire e) = none ∧ step h (.recv s q d u da) = none := by
  obtain ⟨_, ht, hcl, _⟩ := C17_returned_closed h hw hr
  simp [step, ht, hcl, hls]

/-- the tracked browsers are cancelled by the close call itself: scheduler timer disarmed, listener removed — their
`schedFire` is not enabled afterwards and record updates no longer reach them -/
theorem C17_tracked_browsers_cancelled (h : Host) (hrun : h.running = true) (hlt : h.loopThread = false) (h' : Host) (o : List Out)
    (hs : step h (.closeCall false) = some (h', o)) : ∀ b ∈ h'.browsers, b.tracked = true → b.timer = false ∧ b.listening = false := by
  simp only [step, hrun, hlt, Bool.not_true, Bool.and_false, Bool.false_eq_true, ↓reduceIte, Bool.or_self, Bool.false_and,
    Option.some.injEq, Prod.mk.injEq] at hs
  obtain ⟨rfl, _⟩ := hs
  intro b hb ht
  simp only [closeBody, cancelTracked_eq, Bool.false_eq_true, ↓reduceIte, List.mem_map] at hb
  obtain ⟨b0, _, rfl⟩ := hb
  by_cases hb0 : b0.tracked = true <;> simp_all

/-- the scheduler timer of a browser that was *not* cancelled fires at most once more after `done`: the pass returns
without sending and without re-arming -/
theorem C17_untracked_scheduler_stops (h : Host) (hd : h.done = true) (i q : Nat) (h' : Host) (o : List Out)
    (hs : step h (.schedFire i q) = some (h', o)) : o = [] ∧ step h' (.schedFire i q) = none := by
  simp only [step] at hs
  split at hs
  · simp at hs
  · rename_i b hb
    split at hs
    · simp at hs
    · simp only [hd, sched_blocked_of_done, ↓reduceIte, Option.some.injEq, Prod.mk.injEq] at hs
      obtain ⟨rfl, rfl⟩ := hs
      refine ⟨rfl, ?_⟩
      have hlt : i < h.browsers.length := (List.getElem?_eq_some_iff.mp hb).1
      simp [step, setTimer, List.getElem?_mapIdx, hb]

/-! ## every close call ends -/

/-- **progress**: in any state, the next block of a close call that has not ended (sync or async; a parked call is
woken at the latest by its own 1 s timeout; a sync call is taken to come from a thread that is no browser's) is enabled,
and performing it moves the call strictly closer to its end (`Close.rank`) — whatever the other closes, timers and tasks
are doing -/
theorem C17_close_progress (h : Host) (k : Nat) (c : Close) (b : Block) (hc : h.closes[k]? = some c) (hn : c.next k h.loopRunning = some b) :
    ∃ h' o c', step h b = some (h', o) ∧ h'.closes[k]? = some c' ∧ c'.rank < c.rank :=
  close_progress h k c b hc hn

/-- **frame**: blocks that are not steps of close `k` — other closes' steps included — leave its program counter alone.
With `C17_close_progress` (rank ≤ 12) this gives: under any interleaving in which a close call gets its turn at most
twelve times, it has returned (or raised: cancelled by its caller, D30, D34); and by `C17_returned_closed` the block in
which it returns ends `Closed`. -/
theorem C17_close_frame (h : Host) (b : Block) (h' : Host) (o : List Out) (hs : step h b = some (h', o)) (k : Nat)
    (hb : b.closeIndex ≠ some k) (hk : k < h.closes.length) : h'.closes[k]? = h.closes[k]? :=
  closes_frame h b h' o hs k hb hk

/-! ## the goodbyes -/

/-- **C17, goodbyes first — every interleaving (partial).**  A close call (sync from a non-loop thread, or async) on a
running, not-done host with `n > 0` registered services and a running loop: the goodbye datagram for all of them is
transmitted **in that very block**, while the transports are open; and whatever follows — other close calls overlapping it
and shutting the instance down early, cancellations, timers, traffic — the registry is empty ever after,
*provided no registration completes meanwhile*.  The proviso is exactly the signature of finding D15
(`C17_goodbye_full_refuted`). -/
theorem C17_goodbye_once_partial (h : Host) (sync : Bool) (hnd : h.done = false) (hrun : h.running = true)
    (hopen : h.transportsClosed = false) (hreg : 0 < h.registry) (hloop : h.loopRunning = true)
    (hthr : sync = false → h.loopThread = false) (bs : List Block) (hb : ∀ b ∈ bs, b.noCompletion = true)
    (h' : Host) (o : List Out) (hr : run h (.closeCall sync :: bs) = some (h', o)) :
    (∃ h1 o1, step h (.closeCall sync) = some (h1, o1) ∧ count isGoodbye o1 = 1 ∧
        h1.transportsClosed = false ∧ h1.done = false) ∧
    h'.registry = 0 ∧ 1 ≤ count isGoodbye o := by
  have hreg' : h.registry ≠ 0 := by omega
  obtain ⟨s1, o1, o2, h1, h2, rfl⟩ := run_cons h (.closeCall sync) bs h' o hr
  have hstep := h1
  have hen : step h (.closeCall sync) = some ({ (closeBody h sync).1 with closes := h.closes ++ [⟨sync, (closeBody h sync).2.2⟩] }, (closeBody h sync).2.1) := by
    cases sync with
    | false => simp [step, hthr rfl, hrun]
    | true => simp [step, syncOrderOk_eq, syncUnregisters_eq, hloop]
  rw [hen] at h1
  simp only [Option.some.injEq, Prod.mk.injEq] at h1
  obtain ⟨rfl, rfl⟩ := h1
  have hc1 : count isGoodbye (closeBody h sync).2.1 = 1 := by
    simp only [closeBody, hreg', ↓reduceIte, gated_of_not_done h hnd]
    rfl
  refine ⟨⟨_, _, hstep, hc1, by simp [closeBody, hopen], by simp [closeBody, hnd]⟩, ?_, ?_⟩
  · exact noCompletion_run bs hb _ h' o2 h2 (by simp [closeBody])
  · rw [count_append, hc1]; omega

/-- **C17, goodbyes first — three of them (partial).**  The first close call (sync or async) on a running host
with `n > 0` registered services; anything may be interleaved — traffic, timers, tasks, browser threads, *further close
calls starting, waking, finishing or being cancelled* — except a completing registration (D15) and another close
reaching its shutdown before this one's goodbyes are out.  Then when this close is about to shut the transports
exactly three goodbye datagrams have been emitted, the transports are still open, the registry is empty. -/
theorem C17_goodbye_first_partial (h : Host) (sync : Bool) (hfirst : h.closes = []) (hnd : h.done = false)
    (hrun : h.running = true) (hopen : h.transportsClosed = false) (hreg : 0 < h.registry) (hloop : h.loopRunning = true)
    (hthr : sync = false → h.loopThread = false)
    (m1 m2 m3 : List Block) (hm1 : ∀ b ∈ m1, b.mid3 = true) (hm2 : ∀ b ∈ m2, b.mid3 = true) (hm3 : ∀ b ∈ m3, b.mid3 = true)
    (h' : Host) (o : List Out)
    (hr : run h (.closeCall sync :: m1 ++ (.closeGoodbye 0 :: m2 ++ .closeGoodbye 0 :: m3)) = some (h', o)) :
    count isGoodbye o = 3 ∧ h'.transportsClosed = false ∧ h'.registry = 0 ∧ h'.done = false ∧
      h'.closes[0]? = some ⟨sync, .unregistering 0⟩ := by
  have hreg' : h.registry ≠ 0 := by omega
  have hen : step h (.closeCall sync) = some ({ (closeBody h sync).1 with closes := h.closes ++ [⟨sync, (closeBody h sync).2.2⟩] }, (closeBody h sync).2.1) := by
    cases sync with
    | false => simp [step, hthr rfl, hrun]
    | true => simp [step, syncOrderOk_eq, syncUnregisters_eq, hloop]
  rw [run_append] at hr
  cases ha : run h (.closeCall sync :: m1) with
  | none => simp [ha] at hr
  | some va =>
    obtain ⟨ha', oa⟩ := va
    simp only [ha, Option.bind] at hr
    obtain ⟨s1, p1, q1, e1, r1, rfl⟩ := run_cons h (.closeCall sync) m1 ha' oa ha
    rw [hen] at e1
    simp only [Option.some.injEq, Prod.mk.injEq] at e1
    obtain ⟨rfl, rfl⟩ := e1
    have hc0 : ({ (closeBody h sync).1 with closes := h.closes ++ [⟨sync, (closeBody h sync).2.2⟩] } : Host).closes[0]?
        = some ⟨sync, .unregistering moreGoodbyes⟩ := by
      simp [hfirst, closeBody, hreg']
    obtain ⟨d1, t1, g1, k1, c1⟩ := mid_run m1 hm1 _ _ ha' q1 r1 hc0 (by simp [closeBody])
    simp only [closeBody] at d1 t1
    rw [run_append] at hr
    cases hb : run ha' (.closeGoodbye 0 :: m2) with
    | none => simp [hb] at hr
    | some vb =>
      obtain ⟨hb', ob⟩ := vb
      simp only [hb, Option.bind] at hr
      obtain ⟨s2, p2, q2, e2, r2, rfl⟩ := run_cons ha' (.closeGoodbye 0) m2 hb' ob hb
      have hlrA : ha'.loopRunning = true := by
        rw [mid_run_loopRunning m1 hm1 _ ha' q1 r1]; simpa [closeBody] using hloop
      simp only [step, k1, moreGoodbyes, register_broadcasts, hlrA, Bool.not_true, Bool.and_false, Bool.false_eq_true, ↓reduceIte] at e2
      obtain ⟨rfl, rfl⟩ := e2
      have hk2 : (ha'.setStage 0 sync (.unregistering 1)).closes[0]? = some ⟨sync, .unregistering 1⟩ := by
        simp only [Host.setStage]
        cases hl : ha'.closes with
        | nil => simp [hl] at k1
        | cons a r => simp [List.set]
      obtain ⟨d2, t2, g2, k2, c2⟩ := mid_run m2 hm2 _ _ hb' q2 r2 hk2 (by simpa [Host.setStage] using g1)
      simp only [Host.setStage] at d2 t2
      cases hc : run hb' (.closeGoodbye 0 :: m3) with
      | none => simp [hc] at hr
      | some vc =>
        obtain ⟨hc', oc⟩ := vc
        simp only [hc, Option.some.injEq, Prod.mk.injEq] at hr
        obtain ⟨rfl, rfl⟩ := hr
        obtain ⟨s3, p3, q3, e3, r3, rfl⟩ := run_cons hb' (.closeGoodbye 0) m3 hc' oc hc
        have hlrB : hb'.loopRunning = true := by
          rw [mid_run_loopRunning m2 hm2 _ hb' q2 r2]; simpa [Host.setStage] using hlrA
        simp only [step, k2, hlrB, Bool.not_true, Bool.and_false, Bool.false_eq_true, ↓reduceIte, Option.some.injEq, Prod.mk.injEq] at e3
        obtain ⟨rfl, rfl⟩ := e3
        have hk3 : (hb'.setStage 0 sync (.unregistering 0)).closes[0]? = some ⟨sync, .unregistering 0⟩ := by
          simp only [Host.setStage]
          cases hl : hb'.closes with
          | nil => simp [hl] at k2
          | cons a r => simp [List.set]
        obtain ⟨d3, t3, g3, k3, c3⟩ := mid_run m3 hm3 _ _ hc' q3 r3 hk3 (by simpa [Host.setStage] using g2)
        simp only [Host.setStage] at d3 t3
        have dA : ha'.done = false := d1.trans hnd
        have dB : hb'.done = false := d2.trans dA
        refine ⟨?_, ?_, g3, d3.trans dB, k3⟩
        · simp only [count_append, c1, c2, c3, closeBody, hreg', ↓reduceIte, gated_of_not_done h hnd,
            gated_of_not_done ha' dA, gated_of_not_done hb' dB]
          decide
        · rw [t3, t2, t1]; exact hopen

/-- the blocks in which a close call can return: an async one after its `sleep(0)`, a sync one in either half of
`_shutdown_threads()` -/
def Block.returning : Block → Bool
  | .closeFinish _ | .closeThreadsCheck _ | .closeThreadsStop _ => true
  | _ => false

/-- **C17, a returning close leaves the host closed** — whichever of the overlapping calls it is, sync or async, whatever
happened in between: if some call has returned after the block, the host is `Closed`; and a block in which a call can return
emits nothing. -/
theorem C17_close_returns_closed (h : Host) (hw : WF h) (b : Block) (hb : b.returning = true) (h' : Host) (o : List Out)
    (hs : step h b = some (h', o)) : (h'.closes.any Close.isReturned = true → Closed h') ∧ ∀ x ∈ o, x.isEmission = false := by
  refine ⟨fun hr => C17_returned_closed h' (WF_step h b h' o hw hs) hr, ?_⟩
  cases b <;> simp [Block.returning] at hb <;> simp only [step] at hs <;> (repeat' split at hs) <;>
    first
    | (simp at hs; done)
    | (simp only [Option.some.injEq, Prod.mk.injEq] at hs
       obtain ⟨_, rfl⟩ := hs
       simp [Out.isEmission])

/-- full-strength goodbye statement: *any* blocks may follow the close call (registrations completing
included) and the registry is still empty afterwards -/
def C17_goodbye_full : Prop :=
  ∀ (h : Host) (bs : List Block), h.closes = [] → h.done = false → h.running = true → 0 < h.registry →
    ∀ h' o, run h (.closeCall false :: bs) = some (h', o) → h'.registry = 0

/-- D15, machine-checked: one service registered, a second one finishing its probes between the first and
the second goodbye → it sits in the registry when the transports close -/
def d15Host : Host :=
  { done := false, running := true, transportsClosed := false, cleanupArmed := true, registry := 1, browsers := [],
    outq := 0, tcs := [], lookups := 0, probing := 1, announcing := 0, closes := [] }

theorem C17_goodbye_full_refuted : ¬ C17_goodbye_full := by
  intro hf
  have := hf d15Host [.probeStep true, .closeGoodbye 0, .closeGoodbye 0] rfl rfl rfl (by decide)
  exact absurd (this _ _ rfl) (by decide)

/-! ## closing again is a no-op -/

/-- the blocks of one more `async_close()` on a host on which `k` close calls were made so far -/
def reclose (h : Host) : List Block :=
  .closeCall false :: ((if h.registry = 0 then [] else [.closeGoodbye h.closes.length, .closeGoodbye h.closes.length]) ++
    [.closeShutdown h.closes.length, .closeFinish h.closes.length])

/-- what a further `async_close()` leaves behind on a closed host: tracked browsers added meanwhile are cancelled, the
registry is emptied (silently), one more returned call is on record; the flags are as they were -/
def recloseResult (h : Host) : Host :=
  { h with done := true, running := false, transportsClosed := true, cleanupArmed := false, registry := 0,
           browsers := cancelTracked h.browsers, closes := h.closes ++ [⟨false, .returned⟩] }

/-- **C17, closing again is a no-op (async)**: on a closed host a further `async_close()` runs through all its blocks,
emits nothing at all — no datagram, no callback, no exception — and leaves every flag as it was. -/
theorem C17_idempotent (h : Host) (hc : Closed h) (hlt : h.loopThread = false) :
    ∃ h', run h (reclose h) = some (h', []) ∧ Closed h' ∧ h'.done = h.done ∧ h'.transportsClosed = h.transportsClosed ∧
      h'.cleanupArmed = h.cleanupArmed := by
  obtain ⟨hd, ht, hcl, hret⟩ := hc
  have hcl' : Closed (recloseResult h) := by
    simp [Closed, recloseResult, hret]
  refine ⟨recloseResult h, ?_, hcl', by simp [recloseResult, hd], by simp [recloseResult, ht], by simp [recloseResult, hcl]⟩
  have hz : ∀ h2 : Host, h2.done = true → zcClose h2 = (h2, []) := zcClose_of_done
  by_cases hr : h.registry = 0
  · simp [reclose, recloseResult, hr, run, step, hlt, close_no_wait_of_done, transportsAfterShutdown_eq, runningAfterShutdown_eq,
      cleanupAfterClose_eq, closeBody, Host.setStage, bind, Option.bind, pure, hd, ht, hcl, zcClose_of_done]
  · simp [reclose, recloseResult, hr, run, step, hlt, close_no_wait_of_done, transportsAfterShutdown_eq, runningAfterShutdown_eq,
      cleanupAfterClose_eq, closeBody, Host.setStage, moreGoodbyes, register_broadcasts, bind,
      Option.bind, pure, gated, hd, ht, hcl, send_blocked_of_done, zcClose_of_done]

/-- the remaining blocks of an `async_close()` that was parked waiting for start-up as call `i` -/
def rewake (h : Host) (i : Nat) : List Block :=
  .closeWake i false :: ((if h.registry = 0 then [] else [.closeGoodbye i, .closeGoodbye i]) ++ [.closeShutdown i, .closeFinish i])

def rewakeResult (h : Host) (i : Nat) : Host :=
  { h with done := true, running := false, transportsClosed := true, cleanupArmed := false, registry := 0,
           browsers := cancelTracked h.browsers, closes := h.closes.set i ⟨false, .returned⟩ }

/-- **C17, closing again is a no-op — also for closes that overlapped start-up.**  A close call that was parked in
`wait_for(async_wait_for_start(), 1)` while another close finished (the D17 situation) wakes on a closed host, runs
through all its blocks, emits nothing — no datagram, no callback, **no exception** — returns, and leaves every flag as it
was.  Together with `C17_idempotent` (a close *called* on a closed host) this makes "closing again is a no-op" hold for
every async close, whenever it was called. -/
theorem C17_idempotent_waiting (h : Host) (hc : Closed h) (i : Nat) (hi : h.closes[i]? = some ⟨false, .waitingStart⟩) :
    ∃ h', run h (rewake h i) = some (h', []) ∧ Closed h' ∧ h'.done = h.done ∧ h'.transportsClosed = h.transportsClosed ∧
      h'.cleanupArmed = h.cleanupArmed := by
  obtain ⟨hd, ht, hcl, hret⟩ := hc
  obtain ⟨hlt, hget⟩ := List.getElem?_eq_some_iff.mp hi
  have hcl' : Closed (rewakeResult h i) := by
    refine ⟨rfl, rfl, rfl, ?_⟩
    simp only [rewakeResult]
    exact any_set_of_not _ i _ _ hi rfl hret
  refine ⟨rewakeResult h i, ?_, hcl', by simp [rewakeResult, hd], by simp [rewakeResult, ht], by simp [rewakeResult, hcl]⟩
  by_cases hr : h.registry = 0
  · simp [rewake, rewakeResult, hr, run, step, hget, wakeRaises_suppressed, transportsAfterShutdown_eq, runningAfterShutdown_eq,
      cleanupAfterClose_eq, closeBody, Host.setStage, bind, Option.bind, pure,
      hd, ht, hcl, hlt, zcClose_of_done]
  · simp [rewake, rewakeResult, hr, run, step, hget, wakeRaises_suppressed, transportsAfterShutdown_eq, runningAfterShutdown_eq,
      cleanupAfterClose_eq, closeBody, Host.setStage, moreGoodbyes,
      register_broadcasts, bind, Option.bind, pure, gated, hd, ht, hcl, hlt, send_blocked_of_done, zcClose_of_done]

/-- the blocks of one more sync `close()` from a thread that is no browser's, on a host on which `k` close calls were made
so far: goodbyes only while the loop runs; `_close()`; `engine.close()` (with its second half on the loop only while the loop
runs); `_shutdown_threads()` (with its second half only if the instance still has a loop thread) -/
def recloseSync (h : Host) : List Block :=
  let k := h.closes.length
  .closeCall true :: ((if h.loopRunning && h.registry != 0 then [.closeGoodbye k, .closeGoodbye k] else []) ++
    [.closeMarkDone k none, .closeShutdown k] ++ (if h.loopRunning then [.closeShutdown k, .closeFinish k] else []) ++
    [.closeThreadsCheck k] ++ (if h.loopThread then [.closeThreadsStop k] else []))

/-- **C17, closing again is a no-op (sync).**  On a closed host whose loop thread, if it has not been forgotten, still runs
its loop (`LoopInv`'s first clause: true after any history free of D34's class — `C17_loop_invariant` — and what the assignment
`self._loop_thread = None`, a translated leaf, is for), one more sync `close()` from a non-loop thread runs through all its
blocks, emits nothing — no datagram, no callback — **raises nothing**, returns, and leaves `done` / transports / cleanup timer
as they were. -/
theorem C17_idempotent_sync (h : Host) (hc : Closed h) (hl : h.loopThread = true → h.loopRunning = true) :
    ∃ h', run h (recloseSync h) = some (h', []) ∧ Closed h' ∧ h'.done = h.done ∧
      h'.transportsClosed = h.transportsClosed ∧ h'.cleanupArmed = h.cleanupArmed := by
  obtain ⟨hd, ht, hcl, hret⟩ := hc
  have hret' : ∀ (l : List Close), (h.closes ++ l).any Close.isReturned = true := by
    intro l; simp [List.any_append, hret]
  cases hlr : h.loopRunning with
  | false =>
    have hlt : h.loopThread = false := by
      cases hh : h.loopThread with
      | false => rfl
      | true => have := hl hh; rw [hlr] at this; cases this
    simp [recloseSync, hlr, hlt, run, step, syncOrderOk_eq, syncUnregisters_eq, selfJoin, zcClose_of_done, hd, Host.setStage,
      engine_close_off_loop, engine_close_skipped_iff, shutdown_threads_skipped_iff, bind, Option.bind, pure, Closed, ht, hcl, hret,
      close_skipped_iff]
    exact Or.inr rfl
  | true =>
    cases hlt : h.loopThread with
    | false =>
      by_cases hr : h.registry = 0
      · simp [recloseSync, hlr, hlt, hr, run, step, syncOrderOk_eq, syncUnregisters_eq, selfJoin, zcClose_of_done, hd, Host.setStage,
          engine_close_off_loop, engine_close_skipped_iff, engine_close_awaits_async_close_holds, shutdown_threads_skipped_iff,
          closeBody, bind, Option.bind, pure, Closed, ht, hcl, hret, transportsAfterShutdown_eq, cleanupAfterClose_eq, close_skipped_iff]
        exact Or.inr rfl
      · simp [recloseSync, hlr, hlt, hr, run, step, syncOrderOk_eq, syncUnregisters_eq, selfJoin, zcClose_of_done, hd, Host.setStage,
          engine_close_off_loop, engine_close_skipped_iff, engine_close_awaits_async_close_holds, shutdown_threads_skipped_iff,
          closeBody, moreGoodbyes, register_broadcasts, gated, send_blocked_of_done, bind, Option.bind, pure, Closed, ht, hcl, hret,
          transportsAfterShutdown_eq, cleanupAfterClose_eq, close_skipped_iff]
        exact Or.inr rfl
    | true =>
      by_cases hr : h.registry = 0
      · simp [recloseSync, hlr, hlt, hr, run, step, syncOrderOk_eq, syncUnregisters_eq, selfJoin, zcClose_of_done, hd, Host.setStage,
          engine_close_off_loop, engine_close_skipped_iff, engine_close_awaits_async_close_holds, shutdown_threads_skipped_iff,
          closeBody, bind, Option.bind, pure, Closed, ht, hcl, hret, transportsAfterShutdown_eq, cleanupAfterClose_eq, close_skipped_iff]
        exact Or.inr rfl
      · simp [recloseSync, hlr, hlt, hr, run, step, syncOrderOk_eq, syncUnregisters_eq, selfJoin, zcClose_of_done, hd, Host.setStage,
          engine_close_off_loop, engine_close_skipped_iff, engine_close_awaits_async_close_holds, shutdown_threads_skipped_iff,
          closeBody, moreGoodbyes, register_broadcasts, gated, send_blocked_of_done, bind, Option.bind, pure, Closed, ht, hcl, hret,
          transportsAfterShutdown_eq, cleanupAfterClose_eq, close_skipped_iff]
        exact Or.inr rfl

/-- `running` implies the transports are open — an invariant once start-up has completed (start-up sets `running` only on open
transports, the shutdown clears it when it closes them; a start-up completing after a shutdown breaks it: R3-C17-a) -/
theorem C17_running_open_invariant (h : Host) (b : Block) (h' : Host) (o : List Out) (hsp : h.startPending = false)
    (hi : h.running = true → h.transportsClosed = false) (hs : step h b = some (h', o)) :
    h'.running = true → h'.transportsClosed = false := by
  cases b with
  | startUp =>
    simp only [step, hsp, Bool.false_eq_true, ↓reduceIte] at hs
    split at hs
    · simp at hs
    · rename_i hc
      simp only [Option.some.injEq, Prod.mk.injEq] at hs
      obtain ⟨rfl, _⟩ := hs
      intro _
      simp only [Bool.or_eq_true, not_or, Bool.not_eq_true] at hc
      exact hc.2
  | _ =>
    simp only [step] at hs <;> (repeat' split at hs) <;>
      first
      | (simp at hs; done)
      | (simp only [Option.some.injEq, Prod.mk.injEq] at hs
         obtain ⟨rfl, _⟩ := hs
         first
         | exact hi
         | (split <;> exact hi)
         | (intro hh; simp [runningAfterShutdown_eq] at hh; done)
         | (simp only [closeBody, Host.setStage]; exact hi)
         | (simp only [Host.setStage, (zcClose_frame h).2.1, (zcClose_frame h).2.2.2.2.2.2.1]; exact hi))

/-! ## the findings, machine-checked -/

/-- two `async_close()` calls made before the engine finished starting (the D17 scenario) -/
def d17Host : Host :=
  { done := false, running := false, transportsClosed := false, cleanupArmed := true, registry := 0, browsers := [],
    outq := 0, tcs := [], lookups := 0, probing := 0, announcing := 0, closes := [] }

def d17Blocks : List Block :=
  [.closeCall false, .closeCall false, .startUp, .closeWake 0 false, .closeShutdown 0, .closeWake 1 false, .closeFinish 0,
   .closeShutdown 1, .closeFinish 1]

/-- an instance with its own loop thread, one service, and a thread-based browser made by `add_service_listener` whose
listener is being told about two services (two state changes queued) -/
def threadHost : Host :=
  { done := false, running := true, transportsClosed := false, cleanupArmed := true, registry := 1,
    browsers := [{ tracked := false, cancelled := false, timer := true, listening := true, threaded := true, zcTracked := true, queued := 2 }],
    outq := 0, tcs := [], lookups := 0, probing := 0, announcing := 0, closes := [], loopThread := true, loopRunning := true }

/-- a sync close from a plain thread, step by step -/
def syncSeq (k : Nat) : List Block :=
  [.closeCall true, .closeGoodbye k, .closeGoodbye k, .closeMarkDone k none, .closeShutdown k, .closeShutdown k, .closeFinish k,
   .closeThreadsCheck k, .closeThreadsStop k]

/-- **D30, machine-checked (for every state in its class).**  When `_close()` of a sync close runs on the callback thread of a
live browser of `Zeroconf.browsers` and `cancel()` does not test for that (`selfJoins`), `join()` raises `RuntimeError` out of
`close()`: nothing else happens in that call — `done` is not set, the transports stay open, the call has ended (`aborted`) — and
the browser has been through `_async_cancel` while still in `Zeroconf.browsers`. -/
theorem C17_close_from_browser_callback_raises (h : Host) (i : Nat) (c : Option Nat)
    (hi : h.closes[i]? = some ⟨true, .unregistering 0⟩) (hj : Block.selfJoins h (.closeMarkDone i c) = true) :
    ∃ h', step h (.closeMarkDone i c) = some (h', [.raised .runtimeError]) ∧ h'.done = h.done ∧
      h'.transportsClosed = h.transportsClosed ∧ h'.closes[i]? = some ⟨true, .aborted⟩ := by
  have hlt : i < h.closes.length := (List.getElem?_eq_some_iff.mp hi).1
  simp only [Block.selfJoins] at hj
  simp only [step, hi, hj, ↓reduceIte]
  exact ⟨_, rfl, rfl, rfl, by simp [Host.setStage, hlt]⟩

/-- the class is inhabited on a tree without the D30 repair (`threadHost`: the listener of its tracked browser calls `close()`),
and empty on a tree with it -/
theorem C17_selfJoins_unrepaired (hu : Gen.Shutdown.thread_cancel_guards_self_join = false) :
    Block.selfJoins { threadHost with closes := [⟨true, .unregistering 0⟩] } (.closeMarkDone 0 (some 0)) = true := by
  simp [Block.selfJoins, selfJoin, threadHost, cancelJoins_eq, hu, close_skipped_iff]

theorem C17_selfJoins_repaired (hg : Gen.Shutdown.thread_cancel_guards_self_join = true) (h : Host) (b : Block) :
    b.selfJoins h = false := by
  cases b <;> simp [Block.selfJoins]
  rename_i i c
  cases c with
  | none => simp [selfJoin]
  | some j =>
    simp only [selfJoin]
    split <;> simp [hg]

/-- after it, the next `close()` cancels that browser a second time and the `assert` of `_async_cancel` fails inside the loop -/
theorem C17_second_cancel_asserts (h : Host) (hd : h.done = false) (b : Browser) (hb : b ∈ h.browsers) (hz : b.zcTracked = true)
    (hc : b.cancelled = true) : Out.loopError ∈ (zcClose h).2 := by
  rw [zcClose_of_not_done h hd]
  simp only [syncCancelOuts, List.mem_flatMap]
  exact ⟨b, hb, by simp [hz, hc]⟩

/-- **No close call hands an exception to its caller — with the D30 repair in the tree** the class `selfJoins` is empty
(`GenFacts.Shutdown.thread_cancel_guards_self_join_holds`): what remains is `LoopInv` (finding D34). -/
theorem C17_close_never_raises_d34_partial (h : Host) (b : Block) (hb : b.plainClose = true)
    (hl : LoopInv h) (h' : Host) (o : List Out) (hs : step h b = some (h', o)) (e : Exc) : Out.raised e ∉ o :=
  C17_close_never_raises_partial h b hb (C17_selfJoins_repaired thread_cancel_guards_self_join_holds h b) hl h' o hs e

/-- **D34, machine-checked.**  Two sync closes from two threads on an instance with its own loop thread, both past
`engine.close()`: both pass the `if not self._loop_thread` test, the first stops the loop and forgets the thread, the second
calls `shutdown_loop` on a loop that no longer runs — `TimeoutError` out of `close()`.  The interleaving is not `ClassFree`
(its seventh block enters `_shutdown_threads()` while another close is about to stop the loop). -/
def d34Blocks : List Block :=
  [.closeCall true, .closeCall true, .closeMarkDone 0 none, .closeMarkDone 1 none, .closeShutdown 0, .closeShutdown 0, .closeFinish 0,
   .closeShutdown 1, .closeShutdown 1, .closeFinish 1, .closeThreadsCheck 0, .closeThreadsCheck 1, .closeThreadsStop 0, .closeThreadsStop 1]

theorem C17_overlapping_sync_closes_raise :
    (run { threadHost with registry := 0 } d34Blocks).map (fun r => (r.2.filter isRaised, r.1.closes.map (·.stage))) =
      some ([.raised .timeout], [.returned, .aborted]) := by decide

/-- **D34 in the form seen in practice, machine-checked.**  Close #0 (a service registered: three goodbyes) is still blocked in
`run_coro_with_timeout(async_unregister_all_services())` when close #1 — the registry already empty — runs straight through
`_close()`, `engine.close()` and `_shutdown_threads()` and **stops the loop**: close #0's coroutine makes no further step, its
caller gets `EventLoopBlocked` when the safeguard expires.  The eighth block (`closeThreadsStop 1`) is in the class `overlapsStop`:
it stops the loop while another sync close waits on it. -/
def d34BlockedBlocks : List Block :=
  [.closeCall true, .closeCall true, .closeMarkDone 1 none, .closeShutdown 1, .closeShutdown 1, .closeFinish 1,
   .closeThreadsCheck 1, .closeThreadsStop 1, .closeBlocked 0]

theorem C17_blocked_sync_close_raises :
    (run threadHost d34BlockedBlocks).map (fun r => (r.2.filter isRaised, r.1.closes.map (·.stage), count isGoodbye r.2)) =
      some ([.raised .loopBlocked], [.aborted, .returned], 1) ∧
    (run threadHost (d34BlockedBlocks.take 7)).map (fun r => Block.overlapsStop r.1 (.closeThreadsStop 1)) = some true ∧
    -- … and once the loop is stopped the blocked close can do nothing else: its goodbye coroutine is not enabled
    (run threadHost (d34BlockedBlocks.take 8 ++ [.closeGoodbye 0])) = none := by
  refine ⟨by decide, by decide, by decide⟩

/-- the full statement is false on every tree: the last block of the D34 interleaving is a step of a close and raises -/
theorem C17_close_never_raises_full_refuted : ¬ C17_close_never_raises_full := by
  intro hf
  cases hr : run { threadHost with registry := 0 } (d34Blocks.take 13) with
  | none => exact absurd hr (by decide)
  | some r =>
    cases hs : step r.1 (.closeThreadsStop 1) with
    | none =>
      have : ((run { threadHost with registry := 0 } (d34Blocks.take 13)).bind (fun r => step r.1 (.closeThreadsStop 1))).isSome = true := by decide
      rw [hr] at this
      simp [hs] at this
    | some r2 =>
      have h2 : ((run { threadHost with registry := 0 } (d34Blocks.take 13)).bind (fun r => step r.1 (.closeThreadsStop 1))).map (·.2)
          = some [.raised .timeout] := by decide
      rw [hr] at h2
      simp only [Option.bind, hs, Option.map, Option.some.injEq] at h2
      exact hf r.1 _ rfl r2.1 r2.2 (by rw [hs]) .timeout (by rw [h2]; simp)

/-- full-strength "quiet" is false on a tree without the D31 repair: **D31, machine-checked.**  A closed host with a thread-based
browser the instance does not track (the README's `ServiceBrowser(zc, type, listener)`) that still has two state changes in its queue: its thread
delivers them to the listener after the close has returned. -/
def d31Host : Host :=
  { done := true, running := false, transportsClosed := true, cleanupArmed := false, registry := 0,
    browsers := [{ tracked := false, cancelled := false, timer := false, listening := true, threaded := true, zcTracked := false, queued := 2 }],
    outq := 0, tcs := [], lookups := 0, probing := 0, announcing := 0, closes := [⟨true, .returned⟩], loopThread := false, loopRunning := false }

theorem C17_quiet_full_refuted_unrepaired (hu : ∀ z c, Gen.Shutdown.thread_run_stops false z c = false) : ¬ C17_quiet_full := by
  intro hf
  have hw : WF d31Host := by
    refine ⟨?_, fun _ => by decide⟩
    intro c hc
    simp only [d31Host, List.mem_singleton] at hc
    subst hc
    exact ⟨by simp, by simp, fun _ => by decide⟩
  cases hs : step d31Host (.browserThread 0) with
  | none => simp [step, d31Host, hu] at hs
  | some r =>
    have hr : r.2 = [.callback] := by
      simp [step, d31Host, hu] at hs
      rw [← hs]
    have := (hf d31Host hw (by decide) (.browserThread 0) rfl r.1 r.2 (by rw [hs])).1
    exact absurd (this .callback (by rw [hr]; simp)) (by decide)

/-- **R3-C17-a, machine-checked.**  A loop-backed instance, no service registered, is closed by a sync `close()` from another thread
while its endpoints are still being created (`startPending`): the close runs through and returns (`Closed`: `done`, nothing open,
cleanup timer cancelled).  Start-up then completes — on a tree whose `_async_setup` does not look at `done` it opens the sockets and
sets `running` —, a response arrives on them and an untracked browser's listener is called: after the close returned. -/
def lateStartHost : Host :=
  { done := false, running := false, transportsClosed := false, cleanupArmed := true, registry := 0,
    browsers := [{ tracked := false, cancelled := false, timer := false, listening := true }],
    outq := 0, tcs := [], lookups := 0, probing := 0, announcing := 0, closes := [], startPending := true }

def lateStartBlocks : List Block :=
  [.closeCall true, .closeMarkDone 0 none, .closeShutdown 0, .closeShutdown 0, .closeFinish 0, .closeThreadsCheck 0,
   .startUp, .recv 0 0 false true]

theorem C17_sync_close_during_startup_unrepaired (hu : Gen.Shutdown.startup_closes_when_done true = false) :
    (run lateStartHost (lateStartBlocks.take 6)).map (fun r => (decide (Closed r.1), r.2)) = some (true, []) ∧
    (run lateStartHost lateStartBlocks).map (fun r => (r.2, r.1.lateSockets, r.1.running)) = some ([.callback], true, true) := by
  constructor
  · decide
  · simp [run, step, lateStartBlocks, lateStartHost, hu, syncOrderOk_eq, syncUnregisters_eq, closeBody, Host.setStage, selfJoin, zcClose,
      close_skipped_iff, close_removes_service_listeners_holds, close_sets_done_holds, syncCancelOuts, engine_close_off_loop,
      engine_close_skipped_iff, engine_close_awaits_async_close_holds, transportsAfterShutdown_eq, runningAfterShutdown_eq,
      cleanupAfterClose_eq, shutdown_threads_skipped_iff, notify, enqueue, gated, send_blocked_of_done, bind, Option.bind, pure]

theorem C17_quiet_full_refuted_late_start (hu : Gen.Shutdown.startup_closes_when_done true = false) : ¬ C17_quiet_full := by
  intro hf
  -- the closed host the six close blocks leave behind, after the late start-up: a datagram arrives and the listener is called
  let h : Host := { lateStartHost with done := true, transportsClosed := true, cleanupArmed := false, running := true,
                                       closes := [⟨true, .returned⟩], startPending := false, lateSockets := true }
  have hw : WF h := by
    refine ⟨?_, fun hh => by simp [h, lateStartHost] at hh⟩
    intro c hc
    simp only [h, List.mem_singleton] at hc
    subst hc
    exact ⟨by simp, by simp, fun _ => by decide⟩
  cases hs : step h (.recv 0 0 false true) with
  | none => exact absurd hs (by decide)
  | some r =>
    have hr : r.2 = [.callback] := by
      have : (step h (.recv 0 0 false true)).map (·.2) = some [.callback] := by decide
      rw [hs] at this
      simpa using this
    have := (hf h hw (by decide) (.recv 0 0 false true) rfl r.1 r.2 (by rw [hs])).1
    exact absurd (this .callback (by rw [hr]; simp)) (by decide)

/-- the full run-level statement is **false of a tree without the repair**: the witness above is a run from a fresh host in which a close
has returned and a callback follows.  (On the current tree the hypothesis is false — `startup_closes_when_done_on` — and
`C17_quiet_run` holds.) -/
theorem C17_quiet_run_full_refuted_unrepaired (hu : Gen.Shutdown.startup_closes_when_done true = false) : ¬ C17_quiet_run_full := by
  intro hf
  obtain ⟨h1, h2⟩ := C17_sync_close_during_startup_unrepaired hu
  have hw0 : WF lateStartHost := C17_wf_invariant.1 lateStartHost rfl rfl
  have happ : lateStartBlocks = lateStartBlocks.take 6 ++ [.startUp, .recv 0 0 false true] := by decide
  rw [happ, run_append] at h2
  cases hr1 : run lateStartHost (lateStartBlocks.take 6) with
  | none => rw [hr1] at h1; simp at h1
  | some r1 =>
    rw [hr1] at h1 h2
    simp only [Option.map_some, Option.some.injEq, Prod.mk.injEq, decide_eq_true_eq] at h1
    obtain ⟨hcl, ho1⟩ := h1
    simp only [Option.bind] at h2
    cases hr2 : run r1.1 [.startUp, .recv 0 0 false true] with
    | none => rw [hr2] at h2; simp [Option.bind] at h2
    | some r2 =>
      rw [hr2] at h2
      simp only [Option.bind, Option.map_some, Option.some.injEq, Prod.mk.injEq, ho1, List.nil_append] at h2
      have hq := (hf lateStartHost (lateStartBlocks.take 6) [.startUp, .recv 0 0 false true] hw0 rfl (by decide) r1.1 r1.2
        (by rw [hr1]) hcl.2.2.2 r2.1 r2.2 (by rw [hr2])).1
      exact absurd (hq .callback (by rw [h2.1]; simp)) (by decide)

/-- **the same run on the repaired tree** (non-vacuity of `C17_quiet_run`: its hypotheses are met by a close *during start-up*): the
sync close runs through and returns while the endpoints are still being created; start-up then completes, finds the instance done and
shuts its endpoints down — `running` stays off, no socket is open, nothing is emitted —, and the response that follows cannot even
arrive (`run … = none`: `recv` is not enabled). -/
theorem C17_sync_close_during_startup_repaired (hfix : Gen.Shutdown.startup_closes_when_done true = true) :
    (run lateStartHost (lateStartBlocks.take 7)).map (fun r => (decide (Closed r.1), r.1.lateSockets, r.1.running, r.1.startPending, r.2))
      = some (true, false, false, false, []) ∧
    run lateStartHost lateStartBlocks = none := by
  constructor <;>
  simp [run, step, lateStartBlocks, lateStartHost, hfix, syncOrderOk_eq, syncUnregisters_eq, closeBody, Host.setStage, selfJoin, zcClose,
      close_skipped_iff, close_removes_service_listeners_holds, close_sets_done_holds, syncCancelOuts, engine_close_off_loop,
      engine_close_skipped_iff, engine_close_awaits_async_close_holds, transportsAfterShutdown_eq, runningAfterShutdown_eq,
      cleanupAfterClose_eq, shutdown_threads_skipped_iff, notify, enqueue, gated, send_blocked_of_done, bind, Option.bind, pure, Closed,
      Close.isReturned]

example : (run lateStartHost (lateStartBlocks.take 7)).map (fun r => (decide (Closed r.1), r.1.lateSockets, r.1.running, r.1.startPending, r.2))
      = some (true, false, false, false, []) ∧ run lateStartHost lateStartBlocks = none :=
  C17_sync_close_during_startup_repaired startup_closes_when_done_on

/-- … and `C17_quiet_run` applied to it: whatever follows the six blocks of that close emits nothing -/
example (bs : List Block) (hnb : ∀ b ∈ bs, b.isBrowse = false) (h h' : Host) (o1 o2 : List Out)
    (hr1 : run lateStartHost (lateStartBlocks.take 6) = some (h, o1)) (hret : h.closes.any Close.isReturned = true)
    (hr2 : run h bs = some (h', o2)) : ∀ x ∈ o2, x.isEmission = false :=
  (C17_quiet_run lateStartHost (lateStartBlocks.take 6) bs (C17_wf_invariant.1 lateStartHost rfl rfl) rfl hnb h o1 hr1 hret h' o2 hr2).1

/-! ### non-vacuity -/

/-- a busy host: a service registered, another being probed, one announcing, queued answers, a deferred TC
query, a tracked and an untracked browser with armed timers, a lookup -/
def busy : Host :=
  { done := false, running := true, transportsClosed := false, cleanupArmed := true, registry := 1,
    browsers := [{ tracked := true, cancelled := false, timer := true, listening := true },
                 { tracked := false, cancelled := false, timer := true, listening := true }], outq := 2, tcs := [1], lookups := 1,
    probing := 1, announcing := 1, closes := [] }

/-- one close with traffic interleaved -/
def closeSeq : List Block :=
  [.closeCall false, .recv 1 1 false true, .closeGoodbye 0, .outqFire true, .probeStep false, .closeGoodbye 0, .announceStep true,
   .closeShutdown 0, .closeFinish 0]

/-- three overlapping closes: async, sync (`close()` from an executor thread; the instance lives on the application's loop:
no loop thread), async; the third cuts in after the first goodbye and shuts the instance down; the first is cancelled while
it sleeps; the second returns last -/
def overlapSeq : List Block :=
  [.closeCall false, .closeCall true, .recv 1 0 false true, .closeCall false, .closeShutdown 2, .closeGoodbye 0, .closeAbort 0,
   .closeFinish 2, .outqFire true, .closeMarkDone 1 none, .closeShutdown 1, .closeShutdown 1, .closeFinish 1,
   .closeThreadsCheck 1]

-- the close sequence runs on `busy`, is not silent (goodbyes, an answer, callbacks, a probe, an announcement) …
example : (run busy closeSeq).map (fun r => count isGoodbye r.2) = some 3 := by decide
example : (run busy closeSeq).map (fun r => r.2.length) = some 9 := by decide
-- … and ends closed, with things still in flight (timers armed, tasks pending)
example : ∃ r, run busy closeSeq = some r ∧ Closed r.1 ∧ r.1.outq = 2 ∧ r.1.tcs = [1] ∧ r.1.probing = 1 ∧ r.1.lookups = 1 := by decide
-- after which the very same kinds of blocks are silent, and an API call raises to its caller only
example : (run busy (closeSeq ++ [.outqFire true, .tcFire 2 1 0, .schedFire 1 1, .probeStep true, .announceStep true,
    .lookupStep 1 true, .closeCall false, .apiCall .register])).map (fun r => r.2.drop 9) = some [.raised .notRunning] := by decide
-- before the close they are not
example : (run busy [.outqFire true, .tcFire 2 1 0, .schedFire 1 1, .probeStep true, .lookupStep 1 true]).map (fun r => r.2.length) = some 6 := by decide
-- overlapping closes: one goodbye reaches the wire (D-free: the others are gated), the cancelled close raises to its caller,
-- everything after the first return is silent, the host ends closed with two calls returned and one aborted
example : (run busy overlapSeq).map (fun r => (count isGoodbye r.2, r.2.contains (.raised .cancelled))) = some (1, true) := by decide
example : ∃ r, run busy overlapSeq = some r ∧ Closed r.1 ∧ WF r.1 ∧
    r.1.closes.map (·.stage) = [.aborted, .returned, .returned] := by
  refine ⟨_, rfl, by decide, ?_, by decide⟩
  exact (C17_wf_invariant.2.2 overlapSeq busy _ _ (C17_wf_invariant.1 busy rfl rfl) rfl)
-- the hypotheses of the goodbye theorems hold for `busy`, and the interleavable blocks include other closes' steps
example : busy.closes = [] ∧ busy.done = false ∧ busy.running = true ∧ busy.transportsClosed = false ∧ 0 < busy.registry
    ∧ busy.loopRunning = true ∧ busy.loopThread = false := by decide
example : Block.mid3 (.recv 1 1 false true) = true ∧ Block.mid3 (.closeCall true) = true ∧ Block.mid3 (.closeAbort 1) = true
    ∧ Block.mid3 (.browserThread 0) = true ∧ Block.mid3 (.closeThreadsCheck 1) = true
    ∧ Block.mid3 (.probeStep true) = false ∧ Block.mid3 (.closeShutdown 1) = false ∧ Block.mid3 (.closeAbort 0) = false := by decide
-- the D17 scenario on the repaired tree: the overtaken close wakes after the other one shut the instance down, proceeds,
-- and both return; nothing is emitted, nothing raises
example : (run d17Host d17Blocks).map (fun r => (r.2, r.1.closes.map (·.stage))) = some ([], [.returned, .returned]) := by decide
example : ∃ r, run d17Host d17Blocks = some r ∧ Closed r.1 := by decide

-- a sync `close()` from a plain thread on an instance with its own loop thread, a service and a tracked thread-based browser
-- with two state changes queued: three goodbyes, then the browser thread is joined — its two callbacks come out *inside*
-- `_close()`, before anything is shut —, the engine is closed on the loop and waited for, the loop is stopped, the thread
-- forgotten; the host ends `Closed` with every invariant intact and nothing left in any queue
example : (run threadHost (syncSeq 0)).map (fun r => (r.2, r.1.closes.map (·.stage), r.1.loopRunning, r.1.loopThread)) =
    some ([.goodbye, .goodbye, .goodbye, .callback, .callback], [.returned], false, false) := by decide
example : ∃ r, run threadHost (syncSeq 0) = some r ∧ Closed r.1 ∧ QueuesEmpty r.1 ∧ ZcInv r.1 := by decide
example : LoopInv threadHost := C17_loop_invariant.1 threadHost rfl (by simp [threadHost])
-- … and a second, sequential `close()` is the no-op `C17_idempotent_sync` promises (`recloseSync` on that state: the loop
-- no longer runs, so no goodbyes, no engine step, no thread to stop)
example : (run threadHost (syncSeq 0 ++ [.closeCall true, .closeMarkDone 1 none, .closeShutdown 1, .closeThreadsCheck 1])).map
    (fun r => (r.2.drop 5, r.1.closes.map (·.stage))) = some ([], [.returned, .returned]) := by decide
-- the first four blocks of the D34 interleaving are class-free, the tenth (the second `closeThreadsCheck`) is not
example : (run { threadHost with registry := 0 } (d34Blocks.take 11)).map (fun r => Block.overlapsStop r.1 (.closeThreadsCheck 1)) = some true := by decide
-- `_close()` from a plain thread is never in the class `selfJoins` (from the browser's own thread it is, on a tree without the
-- D30 repair: `C17_selfJoins_unrepaired`)
example : Block.selfJoins { threadHost with closes := [⟨true, .unregistering 0⟩] } (.closeMarkDone 0 none) = false := by
  simp [Block.selfJoins, selfJoin]

-- creating a browser on a closed host *does* call back (cache replay): the one block `C17_quiet_partial` excludes, and why
example : ∃ r, run busy (closeSeq ++ [.apiBrowse false 2]) = some r ∧ r.2.drop 9 = [.callback, .callback] := by decide
-- `TcInv` holds on `busy` (one armed TC timer with one packet); a second truncated query for the same address adds a packet,
-- the timer then answers — no exception — also after the close, and `connection_lost` in between changes nothing
example : TcInv busy := by decide
example : QueuesEmpty busy ∧ ZcInv busy := by decide
example : (run busy ([.recv 0 0 true false 0] ++ closeSeq ++ [.connectionLost, .tcFire 1 0 0])).map
    (fun r => (r.1.tcs, r.2.contains .loopError)) = some ([], false) := by decide
-- every close call of `overlapSeq` has ended, and `Close.next` says so
example : (run busy overlapSeq).map (fun r => r.1.closes.map (fun c => c.next 0)) = some [none, none, none] := by decide

/-! ## the timeout handle of a waiting task (seeded defect C17-w4-seed2)

A task waiting in `Zeroconf.async_wait` (between two probes of a registration) holds a `call_later` handle.  The last step of
every close resolves its future through `async_notify_all` — one loop iteration *after* the close returned — and the task cancels
the handle only when it is resumed, an iteration later still: if the handle is due in between it fires on a finished future. -/

/-- **the handle and the notification leave a finished future alone**: the two blocks in which a finished future is touched
emit nothing (no `InvalidStateError` into the loop) — because both go through `_set_future_none_if_not_done` (translated:
`waiter_timer_guarded`, `resolve_all_guarded`, and the test `not fut.done()` itself) -/
theorem C17_waiter_timer_never_raises (h : Host) (i : Nat) (h' : Host) (o : List Out) (hs : step h (.waitFire i) = some (h', o)) : o = [] := by
  simp only [step] at hs
  split at hs
  · simp only [Option.some.injEq, Prod.mk.injEq] at hs; exact hs.2.symm
  · simp only [Option.some.injEq, Prod.mk.injEq] at hs; rw [← hs.2]; exact timerOnFinished_eq
  · simp at hs

theorem C17_notification_never_raises (h : Host) (h' : Host) (o : List Out) (hs : step h .notifyAll = some (h', o)) : o = [] := by
  simp only [step, Option.some.injEq, Prod.mk.injEq] at hs
  rw [← hs.2]
  split
  · exact notifyOnFinished_eq
  · rfl

/-- … and it is the guard that carries this: a handle armed with `future.set_result` directly (the seeded defect), or a guard
that does not test `fut.done()`, raises into the loop in exactly the state a close produces — wait pending, close finished,
notification, handle due before the task is resumed -/
theorem C17_waiter_timer_raises_without_guard
    (hbad : (Gen.Shutdown.waiter_timer_guarded && !Gen.Shutdown.waiter_guard_sets true) = false) (h : Host) (rest : List Wait) :
    ∃ h', step { h with waits := .notified :: rest } (.waitFire 0) = some (h', [.loopError]) := by
  simp only [step, List.getElem?_cons_zero, timerOnFinished, hbad]
  exact ⟨_, rfl⟩

-- a registration is probing (a wait pending) when the instance is closed; the notification of the close's last step comes
-- after the return, the wait's handle is due before its task is resumed: nothing is emitted, nothing raises, the wait is gone
example : (run busy ([.waitStart] ++ closeSeq ++ [.notifyAll, .waitFire 0])).map (fun r => (r.2.drop 9, r.1.waits)) = some ([], []) := by decide
-- the other order: the handle fires first (the future is resolved by its timeout), then the notification finds it finished in the set
example : (run busy ([.waitStart] ++ closeSeq ++ [.waitFire 0, .notifyAll, .waitResume 0])).map (fun r => (r.2.drop 9, r.1.waits)) = some ([], []) := by decide

end Zc.Shutdown
