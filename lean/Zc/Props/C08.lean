import Zc.Proofs.Goodbye
import Zc.Proofs.GoodbyeClose
/-! # C08 — withdrawn services stay withdrawn: complete goodbyes, no resurrection

Model: `Zc.Goodbye.Host` (`Model/Goodbye.lean`) — registry, both outgoing queues, the broadcast tasks, the close
sequence, the `done` flag — stepped by atomic blocks (`Host.step`).  A run is **any** list of blocks that are
enabled one after the other from `Host.init` (`Host.run … = some …`): registrations, updates, unregistrations,
task steps, immediate answers and queue insertions offered by the query handler (any records of services that are
registered at that instant, any route, any draw), queue timer firings at any time, unregister-all, close.
The theorems are about the **repaired** code (D5: queued answers of a withdrawn service are dropped; D6: an
announcement task stops when its info is no longer the registered one); `GenFacts/Goodbye.lean` fails to build on
a tree without the repairs.  `lower` is `str.lower`, arbitrary.  Numbers (125, 3) are those of the English statement; in the code
they are the range and the interval of the two loops that send goodbyes (`C08_goodbye_loops`). -/
namespace Zc.Goodbye
open Zc Zc.Register Zc.GenFacts.Goodbye

variable (lower : String → String)

/-- the goodbye datagram of `s`: TTL-0 copies of PTR, SRV, TXT, and of the addresses and the NSEC record unless the
host name is shared -/
def goodbyePkt (s : Svc) (shared : Bool) : Pkt := broadcastPkt s (some 0) (!shared)

/-- the count and the spacing of the goodbyes are those of the code that sends them: `_async_send_repeatedly` (goodbyes of
`async_unregister_service` since the D27 repair) and the loop of `async_unregister_all_services` (close / unregister-all) iterate three
times, sleep before every transmission but the first, 125 ms; and they agree with the parameters (`broadcast_count`, `unregisterTime`) the
model's goodbye task (`Task.step`) and close sequence (`allStep`) are written with, so every theorem below speaks about those loops.
(Third review: the count used to be tied to `_async_broadcast_service` only, which no longer sends goodbyes.) -/
theorem C08_goodbye_loops :
    Gen.Register.goodbye_count = 3 ∧ Gen.Register.goodbye_all_count = 3 ∧ Gen.Register.goodbye_interval = 125 ∧
    Gen.Register.goodbye_all_interval = 125 ∧
    Gen.Register.goodbye_count = Gen.Register.broadcast_count ∧ Gen.Register.goodbye_all_count = Gen.Register.broadcast_count ∧
    (∀ i, Gen.Register.goodbye_sleeps i = Gen.Register.broadcast_sleeps i) ∧ (∀ i, Gen.Register.goodbye_all_sleeps i = Gen.Register.broadcast_sleeps i) ∧
    Gen.Register.goodbye_interval = Gen.unregisterTime ∧ Gen.Register.goodbye_all_interval = Gen.unregisterTime :=
  ⟨goodbye_loops_eq.1, goodbye_loops_eq.2.1, goodbye_loops_eq.2.2.1, goodbye_loops_eq.2.2.2,
   goodbye_loops.1, goodbye_loops.2.1, goodbye_loops.2.2.1, goodbye_loops.2.2.2.1, goodbye_loops.2.2.2.2.1, goodbye_loops.2.2.2.2.2⟩

/-- **Goodbyes.**  `async_unregister_service` at `now` removes the service, sends nothing itself and starts a task whose
three steps — at `now`, `now + 125`, `now + 250` — each multicast the goodbye datagram: TTL-0 copies of PTR, SRV and TXT,
and of every address and the NSEC record exactly when no service that is still registered uses the same host name. -/
theorem C08_goodbyes (h h' : Host) (s : Svc) (oid : Nat) (now : Int) (out : List Pkt)
    (hs : h.step lower (.unregister s oid now) = some (h', out)) :
    out = [] ∧ h'.reg = regRemove lower h.reg (key lower s) ∧
    ∃ t ∈ h'.tasks, t.schedule 3 =
        [(now, goodbyePkt s (hostShared lower h'.reg s)), (now + 125, goodbyePkt s (hostShared lower h'.reg s)),
         (now + 250, goodbyePkt s (hostShared lower h'.reg s))] ∧
      (goodbyePkt s (hostShared lower h'.reg s)).answers =
        [s.ptr (some 0), s.srv (some 0), s.txt (some 0)] ++ (if hostShared lower h'.reg s then [] else s.addrNsec (some 0)) ∧
      ∀ r ∈ (goodbyePkt s (hostShared lower h'.reg s)).answers, r.ttl = 0 := by
  simp only [Host.step, unregRemove_eq, Option.some.injEq, Prod.mk.injEq] at hs
  obtain ⟨rfl, rfl⟩ := hs
  refine ⟨rfl, rfl, _, List.mem_append_right _ (List.mem_singleton.2 rfl), ?_, ?_, ?_⟩
  · simp [Task.schedule, Task.step, Gen.Register.announce_stops, Zc.GenFacts.Register.broadcast_count_eq, unregisterTime_eq,
      goodbyePkt, goodbye_addresses_eq]
    omega
  · cases hsh : hostShared lower (regRemove lower h.reg (key lower s)) s <;>
      simp [goodbyePkt, broadcastPkt, broadcastAnswers, Zc.GenFacts.Register.add_addresses_eq]
  · intro r hr
    exact broadcast_ttl0 s _ r hr

/-- **Goodbyes, as a run.**  (`C08_goodbyes` speaks about the task the block creates; this is what a *run* puts on the wire.)
Unregister `s` on a host that is not closed, then the three steps of the task — due at `now`, `now + 125`, `now + 250` — with any
enabled blocks before and between them that are quiet for the object (`Block.quietFor`): the goodbye datagram of `s` — TTL-0 PTR, SRV,
TXT, and every address and the NSEC record iff no still-registered service uses the host name (contents: `C08_goodbyes`) — is multicast
by each of the three steps.  `_partial`; what is **assumed**, hypothesis by hypothesis:
* `hrun` already contains the three blocks `.task oid (some 0) … now / now+125 / now+250` and says they are enabled: that a due task step
  *is* executed at its due instant is the loop axiom (DESIGN §4; checked on every replayed trace, not proved) — proved here is what the
  steps emit, and that nothing quiet in between can remove, stop or alter the task;
* `hm*` (`Block.quietFor`) exclude (a) `_close` before the third goodbye — the input class of the known finding `C08:goodbyes-cut-by-close`
  (`done` makes `async_send` a no-op); (b) a second `async_unregister_service` of the *same object* and foreign steps of its goodbye tasks —
  not a finding: with two sequences of one object in flight the blocks `.task oid (some 0) ad due` do not say whose step they are (the
  machine identifies a task by object, TTL and due time); the harness generates double unregisters and pairs each goodbye with its call;
* `hfresh` (no goodbye task of this object pending at the call) — the same identification issue, not a finding;
* the run is a run of the *machine*, in which an object is never mutated under its tasks.  Over the extended machine `Host.xrun`, where a
  re-registration may rename the object meanwhile (D27), the full statement is `C08_goodbyes_run_full` (refuted for the code before the
  repair: `…_refuted_without_snapshot`). -/
theorem C08_goodbyes_run_partial (h0 : Host) (hnd : h0.done = false) (s : Svc) (oid : Nat) (now : Int)
    (hfresh : h0.tasks.filter (isBye oid) = []) (mid0 mid1 mid2 : List Block)
    (hm0 : ∀ b ∈ mid0, b.quietFor oid = true) (hm1 : ∀ b ∈ mid1, b.quietFor oid = true) (hm2 : ∀ b ∈ mid2, b.quietFor oid = true)
    (h3 : Host) (out : List Pkt)
    (hrun : h0.run lower (.unregister s oid now :: (mid0 ++ .task oid (some 0) (!hostShared lower (regRemove lower h0.reg (key lower s)) s) now ::
        (mid1 ++ .task oid (some 0) (!hostShared lower (regRemove lower h0.reg (key lower s)) s) (now + 125) ::
        (mid2 ++ [.task oid (some 0) (!hostShared lower (regRemove lower h0.reg (key lower s)) s) (now + 250)])))) = some (h3, out)) :
    ∃ o0 o1 o2, out = o0 ++ [goodbyePkt s (hostShared lower (regRemove lower h0.reg (key lower s)) s)] ++ o1 ++
      [goodbyePkt s (hostShared lower (regRemove lower h0.reg (key lower s)) s)] ++ o2 ++
      [goodbyePkt s (hostShared lower (regRemove lower h0.reg (key lower s)) s)] :=
  unregister_run_goodbyes lower h0 hnd s oid now hfresh mid0 mid1 mid2 hm0 hm1 hm2 h3 out _ rfl hrun

/-- the goodbye datagram names the service: its PTR record points to `s.name` -/
def namesService (p : Pkt) (name : String) : Bool := p.answers.any (fun r => r.type == 12 && r.ttl == 0 && r.rdata == .ptr name)

/-- full strength, over the extended machine (`Host.xrun`: blocks, and the mutation of an object under its tasks that a re-registration
of the same object performs; `snap` = the goodbye packet is built when `async_unregister_service` is called): after
`async_unregister_service` of `s`, whatever the application and the loop do before and between the three steps of the goodbye task —
short of closing the instance — three datagrams withdrawing `s.name` leave -/
def C08_goodbyes_run (snap : Bool) : Prop :=
  ∀ (h0 : Host) (s : Svc) (oid : Nat) (now : Int) (mid0 mid1 mid2 : List XBlock) (h3 : Host) (out : List Pkt),
    h0.done = false → h0.tasks.filter (isBye oid) = [] → (∀ x ∈ mid0 ++ mid1 ++ mid2, x.quietFor oid = true) →
    h0.xrun lower snap (.blk (.unregister s oid now) :: (mid0 ++ .blk (.task oid (some 0) (!hostShared lower (regRemove lower h0.reg (key lower s)) s) now) ::
      (mid1 ++ .blk (.task oid (some 0) (!hostShared lower (regRemove lower h0.reg (key lower s)) s) (now + 125)) ::
      (mid2 ++ [.blk (.task oid (some 0) (!hostShared lower (regRemove lower h0.reg (key lower s)) s) (now + 250))])))) = some (h3, out) →
    3 ≤ (out.filter (fun p => namesService p s.name)).length

theorem goodbye_names_service (s : Svc) (ad : Bool) : namesService (broadcastPkt s (some 0) ad) s.name = true := by
  simp [namesService, broadcastPkt, broadcastAnswers, Svc.ptr, mkRec, ttlOf, Zc.GenFacts.Register.typePtr_eq]

/-- **with the goodbye packet built at call time (the D27 repair) the full statement holds**: no mutation of the object reaches the
goodbye task.  (`GenFacts.Goodbye` ties `Host.mutate` — what the replayed tree does — to `snap = true` once the repair is in the tree.) -/
theorem C08_goodbyes_run_snapshot : C08_goodbyes_run lower true := by
  intro h0 s oid now mid0 mid1 mid2 h3 out hnd hfresh hq hrun
  obtain ⟨o0, o1, o2, rfl⟩ := unregister_xrun_goodbyes lower h0 hnd s oid now hfresh mid0 mid1 mid2
    (fun b hb => hq b (by simp [hb])) (fun b hb => hq b (by simp [hb])) (fun b hb => hq b (by simp [hb])) h3 out _ rfl hrun
  simp only [List.filter_append, List.length_append, List.filter_cons, goodbye_names_service, goodbyePkt, if_true, List.filter_nil,
    List.length_cons, List.length_nil]
  omega

/-- **Goodbyes in every run of the tree's own extended machine** (`Host.mutate` = what the checked tree does to a re-used object): with the
D27 repair in the tree (`GenFacts.Goodbye.unregister_builds_goodbye`) the full statement holds — whatever is mutated, registered, queued or
answered between the steps, short of a `_close`, three datagrams withdrawing `s.name` leave. -/
theorem C08_goodbyes_run_full : C08_goodbyes_run lower Gen.Register.unregister_builds_goodbye_at_call := by
  rw [unregister_builds_goodbye]
  exact C08_goodbyes_run_snapshot lower

/-- the same at close / `async_unregister_all_services`: one datagram with the TTL-0 records of every registered
service (addresses and NSEC always included), sent at `now`, and twice more by the sequence it starts, 125 ms apart;
the registry is emptied at once -/
theorem C08_goodbyes_all (h h' : Host) (now : Int) (out : List Pkt) (hne : h.reg ≠ []) (hd : h.done = false)
    (hs : h.step lower (.unregisterAll now) = some (h', out)) :
    h'.reg = [] ∧ out = [allPkt (h.reg.flatMap (fun e => broadcastAnswers e.svc (some 0) true))] ∧
    (∀ r ∈ h.reg.flatMap (fun e => broadcastAnswers e.svc (some 0) true), r.ttl = 0) ∧
    ∃ a ∈ h'.closing, a.answers = h.reg.flatMap (fun e => broadcastAnswers e.svc (some 0) true) ∧ a.i = 1 ∧ a.due = now + 125 := by
  simp only [Host.step] at hs
  split at hs
  · rename_i he; simp at he; exact absurd he hne
  · simp only [Option.some.injEq, Prod.mk.injEq] at hs
    obtain ⟨rfl, rfl⟩ := hs
    refine ⟨rfl, by simp [emit, send_is_noop_eq, hd], ?_, _, List.mem_append_right _ (List.mem_singleton.2 rfl), rfl, rfl, by simp [unregisterTime_eq]⟩
    intro r hr
    rw [List.mem_flatMap] at hr
    obtain ⟨e, _, hre⟩ := hr
    exact broadcast_ttl0 e.svc true r hre

/-- a later step of that sequence re-sends the same datagram, and the sequence ends after the third -/
theorem C08_goodbyes_all_step (h h' : Host) (due : Int) (out : List Pkt) (hd : h.done = false)
    (hs : h.step lower (.allStep due) = some (h', out)) :
    ∃ a ∈ h.closing, a.due = due ∧ out = [allPkt a.answers] ∧
      (a.i + 1 < 3 → ∃ a' ∈ h'.closing, a'.answers = a.answers ∧ a'.i = a.i + 1 ∧ a'.due = due + 125) := by
  simp only [Host.step] at hs
  split at hs
  · simp at hs
  rename_i a hf
  have hdue : a.due = due := by have := List.find?_some hf; simpa using this
  simp only [Option.some.injEq, Prod.mk.injEq] at hs
  obtain ⟨rfl, rfl⟩ := hs
  refine ⟨a, List.mem_of_find?_eq_some hf, hdue, by simp [emit, send_is_noop_eq, hd], ?_⟩
  intro hi
  have : a.i + 1 < Gen.Register.broadcast_count := by rw [Zc.GenFacts.Register.broadcast_count_eq]; exact hi
  simp only [this, if_true]
  exact ⟨_, List.mem_append_right _ (List.mem_singleton.2 rfl), rfl, rfl, by simp [unregisterTime_eq, hdue]⟩

/-! ### "… or its instance is closed"

`unregisterAll` / `allStep` above are the blocks of `async_unregister_all_services`; `.close` is the private `_close`, enabled in any
state.  The property's sentence is about the *public* close calls, `AsyncZeroconf.async_close` and `Zeroconf.close()` (from another
thread): `asyncClose` / `syncClose` (`Model/Goodbye.lean`) are those calls as programs of blocks, the order of their two calls read off
the source by the leaves `async_close_unregisters_all`, `async_close_goodbyes_before_done`, `sync_close_…`
(`GenFacts.Goodbye.close_says_goodbye_first`: dropping the call or swapping the two awaits breaks this file). -/

/-- the goodbye of a close carries, for every registered service, TTL-0 copies of its PTR, SRV, TXT, every address and the NSEC
record (nothing stays registered, so no host name is "still used") -/
theorem C08_close_goodbye_contents (h : Host) (e : Entry) (he : e ∈ h.reg) :
    (∀ r ∈ [e.svc.ptr (some 0), e.svc.srv (some 0), e.svc.txt (some 0)] ++ e.svc.addrNsec (some 0), r ∈ (closeGoodbye h).answers) ∧
    (∀ r ∈ (closeGoodbye h).answers, r.ttl = 0) ∧ (closeGoodbye h).additionals = [] ∧ (closeGoodbye h).authorities = [] := by
  refine ⟨?_, ?_, rfl, rfl⟩
  · intro r hr
    simp only [closeGoodbye, allPkt, List.mem_flatMap]
    exact ⟨e, he, by simpa [broadcastAnswers, Zc.GenFacts.Register.add_addresses_eq] using hr⟩
  · intro r hr
    simp only [closeGoodbye, allPkt, List.mem_flatMap] at hr
    obtain ⟨e', _, hre⟩ := hr
    exact broadcast_ttl0 e'.svc true r hre

/-- full strength: whenever a public close call runs on an instance that is not closed — whatever else the loop does meanwhile — the
goodbye of everything that was registered leaves three times -/
def C08_close_goodbyes : Prop :=
  ∀ (pre : List Block) (h0 : Host) (out0 : List Pkt), Host.init.run lower pre = some (h0, out0) → h0.done = false → h0.reg ≠ [] →
  ∀ (now : Int) (mid1 mid2 : List Block) (h3 : Host) (out : List Pkt), h0.run lower (asyncClose h0 now mid1 mid2) = some (h3, out) →
    3 ≤ (out.filter (· == closeGoodbye h0)).length

/-- **Close ⇒ three goodbyes** (`_partial`: no *other* shutdown call — a second close, an `async_unregister_all_services` of the
application — is in flight or interleaved (`hq`, `hm1`, `hm2`); overlapping closes are C17's subject, and a close racing an
unregister-all cuts that call's sequence: known finding `C08:goodbyes-cut-by-close`).  For every host that is not closed, any instant
and any blocks running between the goodbyes (queries answered, queue timers, task steps, registrations — a service registered *during*
the close is C17's finding D15 and is not in `h0.reg`): `AsyncZeroconf.async_close` sends the datagram with the TTL-0 copies of every
record of every registered service three times, then — and only then — sets `done`. -/
theorem C08_close_goodbyes_partial (h0 : Host) (hnd : h0.done = false) (hq : h0.closing = []) (now : Int) (mid1 mid2 : List Block)
    (hm1 : ∀ b ∈ mid1, b.isShutdown = false) (hm2 : ∀ b ∈ mid2, b.isShutdown = false) (h3 : Host) (out : List Pkt)
    (hrun : h0.run lower (asyncClose h0 now mid1 mid2) = some (h3, out)) :
    h3.done = true ∧ (h0.reg ≠ [] → ∃ o1 o2, out = [closeGoodbye h0] ++ o1 ++ [closeGoodbye h0] ++ o2 ++ [closeGoodbye h0]) := by
  simp only [asyncClose, close_says_goodbye_first.1, close_says_goodbye_first.2.1] at hrun
  exact closeCall_goodbyes lower h0 hnd hq now mid1 mid2 hm1 hm2 h3 out hrun

/-- the same for the synchronous `close()` called from another thread -/
theorem C08_sync_close_goodbyes_partial (h0 : Host) (hnd : h0.done = false) (hq : h0.closing = []) (now : Int) (mid1 mid2 : List Block)
    (hm1 : ∀ b ∈ mid1, b.isShutdown = false) (hm2 : ∀ b ∈ mid2, b.isShutdown = false) (h3 : Host) (out : List Pkt)
    (hrun : h0.run lower (syncClose h0 now mid1 mid2) = some (h3, out)) :
    h3.done = true ∧ (h0.reg ≠ [] → ∃ o1 o2, out = [closeGoodbye h0] ++ o1 ++ [closeGoodbye h0] ++ o2 ++ [closeGoodbye h0]) := by
  simp only [syncClose, close_says_goodbye_first.2.2.1, close_says_goodbye_first.2.2.2] at hrun
  exact closeCall_goodbyes lower h0 hnd hq now mid1 mid2 hm1 hm2 h3 out hrun

/-- the set form: for any sub-list `W'` of the withdrawn records, as long as no service defining one of *them* is registered again -/
theorem C08_no_resurrection_records (pre : List Block) (h0 : Host) (out0 : List Pkt) (hpre : Host.init.run lower pre = some (h0, out0))
    (s : Svc) (oid : Nat) (now : Int) (h1 : Host) (out1 : List Pkt) (hs : h0.step lower (.unregister s oid now) = some (h1, out1))
    (W' : List Rec) (hsub : ∀ w ∈ W', w ∈ withdrawn s (hostShared lower h1.reg s))
    (bs : List Block) (h2 : Host) (out2 : List Pkt) (hrun : h1.run lower bs = some (h2, out2))
    (hno : ∀ b ∈ bs, ¬ reRegisters lower W' b) :
    ∀ p ∈ out1 ++ out2, ∀ r ∈ p.answers ++ p.authorities ++ p.additionals,
      r.ttl = 0 ∨ hits lower W' r = false := by
  have hw := wf_run lower pre _ h0 out0 (wf_init lower) hpre
  have hreg : h1.reg = regRemove lower h0.reg (key lower s) := by
    simp only [Host.step, unregRemove_eq, Option.some.injEq, Prod.mk.injEq] at hs
    obtain ⟨rfl, _⟩ := hs
    rfl
  have hsep : ∀ e ∈ h1.reg, ¬ owns lower (withdrawn s (hostShared lower h1.reg s)) e.svc := by
    intro e he
    refine separated lower h1.reg s e he ?_
    rw [hreg] at he
    have := (List.mem_filter.1 he).2
    simpa using this
  obtain ⟨hc, rfl⟩ := unregister_clean lower h0 h1 s oid now out1 hw hs hsep
  have := run_clean lower W' bs h1 h2 out2 (clean_of_subset lower _ W' h1 hsub hc) hno hrun
  intro p hp
  exact this.2 p (by simpa using hp)

/-- **No resurrection**, record by record (`_partial`: "those records" = the records the goodbye carried, up to record identity *rdata
included*; the English-level reading by owner name and type is `C08_no_resurrection_by_name`, refuted below — known finding D20).
Take any reachable host (`hpre`: any history from the initial state), unregister `s`, take any one `w` of the records it withdraws
(PTR, SRV, TXT; address and NSEC records when no still-registered service uses the host name), and let anything happen afterwards
(`hrun`: any enabled blocks — task steps still pending, answers that were queued before, queue timers, new queries answered from the
registry, *other services coming and going, also on the same host name*, close) except registering again a service that defines
**this very record** (`hno`: `reRegisters [w]` — for the PTR / SRV / TXT only the same instance name with the same rdata qualifies; for an
address record, a service on that host with that address).  Then no datagram the host sends from the unregister block on — in
particular none after the third goodbye — carries `w` (up to record identity: name case-insensitively, type, class, rdata) with a
non-zero TTL.  The obligation of one record does not end because another record of the goodbye is defined again (second review). -/
theorem C08_no_resurrection_partial (pre : List Block) (h0 : Host) (out0 : List Pkt) (hpre : Host.init.run lower pre = some (h0, out0))
    (s : Svc) (oid : Nat) (now : Int) (h1 : Host) (out1 : List Pkt) (hs : h0.step lower (.unregister s oid now) = some (h1, out1))
    (w : Rec) (hw : w ∈ withdrawn s (hostShared lower h1.reg s))
    (bs : List Block) (h2 : Host) (out2 : List Pkt) (hrun : h1.run lower bs = some (h2, out2))
    (hno : ∀ b ∈ bs, ¬ reRegisters lower [w] b) :
    ∀ p ∈ out1 ++ out2, ∀ r ∈ p.answers ++ p.authorities ++ p.additionals, r.ttl = 0 ∨ r.beq lower w = false := by
  have key1 := C08_no_resurrection_records lower pre h0 out0 hpre s oid now h1 out1 hs [w] (by intro x hx; simp at hx; subst hx; exact hw) bs h2 out2 hrun hno
  intro p hp r hr
  rcases key1 p hp r hr with h | h
  · exact Or.inl h
  · right; simpa [hits] using h

/-- the same after `async_unregister_all_services` (also the first half of `async_close`): none of the records of any service
that was registered — any sub-list `W'` of them, e.g. one record — leaves with a non-zero TTL afterwards, as long as no service
defining one of *those* records is registered again -/
theorem C08_no_resurrection_all (pre : List Block) (h0 : Host) (out0 : List Pkt) (hpre : Host.init.run lower pre = some (h0, out0))
    (now : Int) (h1 : Host) (out1 : List Pkt) (hs : h0.step lower (.unregisterAll now) = some (h1, out1))
    (W' : List Rec) (hsub : ∀ w ∈ W', w ∈ h0.reg.flatMap (fun e => broadcastAnswers e.svc (some 0) true))
    (bs : List Block) (h2 : Host) (out2 : List Pkt) (hrun : h1.run lower bs = some (h2, out2))
    (hno : ∀ b ∈ bs, ¬ reRegisters lower W' b) :
    ∀ p ∈ out1 ++ out2, ∀ r ∈ p.answers ++ p.authorities ++ p.additionals,
      r.ttl = 0 ∨ hits lower W' r = false := by
  have hw := wf_run lower pre _ h0 out0 (wf_init lower) hpre
  have h0ttl : ∀ r ∈ h0.reg.flatMap (fun e => broadcastAnswers e.svc (some 0) true), r.ttl = 0 := by
    intro r hr
    rw [List.mem_flatMap] at hr
    obtain ⟨e, _, hre⟩ := hr
    exact broadcast_ttl0 e.svc true r hre
  simp only [Host.step, unregister_all_purges, if_true] at hs
  split at hs
  · -- nothing registered: nothing withdrawn
    rename_i hemp
    simp only [Option.some.injEq, Prod.mk.injEq] at hs
    obtain ⟨rfl, rfl⟩ := hs
    have : h0.reg = [] := by simpa using hemp
    have hW : W' = [] := by
      cases W' with
      | nil => rfl
      | cons a t => have := hsub a (by simp); simp [‹h0.reg = []›] at this
    intro p hp r _
    right
    simp [hW, hits]
  · simp only [Option.some.injEq, Prod.mk.injEq] at hs
    obtain ⟨rfl, rfl⟩ := hs
    have hc : Clean lower (h0.reg.flatMap (fun e => broadcastAnswers e.svc (some 0) true))
        { h0 with reg := [], outq := qpurge lower (h0.reg.flatMap (fun e => broadcastAnswers e.svc (some 0) true)) h0.outq,
                  delayq := qpurge lower (h0.reg.flatMap (fun e => broadcastAnswers e.svc (some 0) true)) h0.delayq,
                  closing := h0.closing ++ [{ answers := h0.reg.flatMap (fun e => broadcastAnswers e.svc (some 0) true), i := 1,
                                              due := now + Gen.unregisterTime }] } := by
      refine ⟨qpurge_clean lower _ _, qpurge_clean lower _ _, ?_, by simp, ?_⟩
      · intro t ht
        rcases hw.ttl t ht with hn | h0'
        · exact Or.inr ⟨hn, fun _ => by simp [registeredAs, regGet]⟩
        · exact Or.inl h0'
      · intro a ha
        simp only [List.mem_append, List.mem_singleton] at ha
        rcases ha with ha | rfl
        · exact hw.closing a ha
        · exact h0ttl
    have := run_clean lower W' bs _ h2 out2 (clean_of_subset lower _ W' _ hsub hc) hno hrun
    intro p hp
    rw [List.mem_append] at hp
    rcases hp with hp | hp
    · have := emit_mem _ _ _ hp
      subst this
      exact allPkt_ttl0 lower W' _ h0ttl
    · exact this.2 p hp

/-- after `_close` (`done`) nothing is sent at all, whatever blocks still run (`async_send` is a no-op) -/
theorem C08_closed_silent : ∀ (bs : List Block) (h h' : Host) (out : List Pkt), h.done = true →
    h.run lower bs = some (h', out) → out = [] ∧ h'.done = true := by
  have step : ∀ (b : Block) (h h' : Host) (out : List Pkt), h.done = true → h.step lower b = some (h', out) → out = [] ∧ h'.done = true := by
    intro b h h' out hd hs
    have hem : ∀ p, emit h p = [] := by intro p; simp [emit, send_is_noop_eq, hd]
    cases b with
    | register s oid now =>
      simp only [Host.step] at hs
      split at hs
      · simp at hs
      split at hs
      · simp at hs
      simp only [Option.some.injEq, Prod.mk.injEq] at hs
      obtain ⟨rfl, rfl⟩ := hs
      exact ⟨rfl, hd⟩
    | update s oid now =>
      simp only [Host.step] at hs
      split at hs
      · simp at hs
      simp only [Option.some.injEq, Prod.mk.injEq] at hs
      obtain ⟨rfl, rfl⟩ := hs
      exact ⟨rfl, hd⟩
    | unregister s oid now =>
      simp only [Host.step, unregRemove_eq, Option.some.injEq, Prod.mk.injEq] at hs
      obtain ⟨rfl, rfl⟩ := hs
      exact ⟨rfl, hd⟩
    | task oid ttl ad due =>
      simp only [Host.step] at hs
      split at hs
      · simp at hs
      generalize Task.step _ _ = st at hs
      obtain ⟨t', p⟩ := st
      simp only [Option.some.injEq, Prod.mk.injEq] at hs
      obtain ⟨rfl, rfl⟩ := hs
      exact ⟨by cases p <;> simp [hem], hd⟩
    | answer rs =>
      simp only [Host.step] at hs
      split at hs
      · simp only [Option.some.injEq, Prod.mk.injEq] at hs
        obtain ⟨rfl, rfl⟩ := hs
        exact ⟨hem _, hd⟩
      · simp at hs
    | enqueue delayed now draw answers =>
      simp only [Host.step] at hs
      split at hs
      · split at hs
        · simp only [Option.some.injEq, Prod.mk.injEq] at hs
          obtain ⟨rfl, rfl⟩ := hs
          exact ⟨rfl, hd⟩
        · simp only [Option.some.injEq, Prod.mk.injEq] at hs
          obtain ⟨rfl, rfl⟩ := hs
          exact ⟨rfl, hd⟩
      · simp at hs
    | ready delayed now =>
      simp only [Host.step] at hs
      split at hs
      · generalize qready lower _ _ = r at hs
        obtain ⟨q, p⟩ := r
        simp only [Option.some.injEq, Prod.mk.injEq] at hs
        obtain ⟨rfl, rfl⟩ := hs
        exact ⟨by cases p <;> simp [hem], hd⟩
      · generalize qready lower _ _ = r at hs
        obtain ⟨q, p⟩ := r
        simp only [Option.some.injEq, Prod.mk.injEq] at hs
        obtain ⟨rfl, rfl⟩ := hs
        exact ⟨by cases p <;> simp [hem], hd⟩
    | unregisterAll now =>
      simp only [Host.step] at hs
      split at hs
      · simp only [Option.some.injEq, Prod.mk.injEq] at hs
        obtain ⟨rfl, rfl⟩ := hs
        exact ⟨rfl, hd⟩
      · simp only [Option.some.injEq, Prod.mk.injEq] at hs
        obtain ⟨rfl, rfl⟩ := hs
        exact ⟨hem _, hd⟩
    | allStep due =>
      simp only [Host.step] at hs
      split at hs
      · simp at hs
      simp only [Option.some.injEq, Prod.mk.injEq] at hs
      obtain ⟨rfl, rfl⟩ := hs
      exact ⟨hem _, hd⟩
    | close =>
      simp only [Host.step, unregRemove_eq, Option.some.injEq, Prod.mk.injEq] at hs
      obtain ⟨rfl, rfl⟩ := hs
      exact ⟨rfl, rfl⟩
  intro bs
  induction bs with
  | nil => intro h h' out hd hr; simp only [Host.run, Option.some.injEq, Prod.mk.injEq] at hr; obtain ⟨rfl, rfl⟩ := hr; exact ⟨rfl, hd⟩
  | cons b bs ih =>
    intro h h' out hd hr
    simp only [Host.run] at hr
    split at hr
    · simp at hr
    rename_i h1 out1 hs
    split at hr
    · simp at hr
    rename_i h2 out2 hr2
    simp only [Option.some.injEq, Prod.mk.injEq] at hr
    obtain ⟨rfl, rfl⟩ := hr
    have s1 := step b h h1 out1 hd hs
    have s2 := ih h1 h2 out2 s1.2 hr2
    exact ⟨by simp [s1.1, s2.1], s2.2⟩

/-- the synchronous `unregister_service(info)` returns only after all three goodbyes were handed to `async_send` (D19 repair:
`await_awaitable`), so that the library's own shutdown sequence `unregister_service(info); close()` cannot cut them.  A statement
about the wrapper's shape (translated leaf); the threads are exercised by the harness' `sync` stream, not modelled. -/
theorem C08_sync_unregister_waits : syncUnregisterGoodbyesOnReturn = 3 := by
  simp [syncUnregisterGoodbyesOnReturn, sync_wrappers_await.1, Zc.GenFacts.Register.broadcast_count_eq]

/-- the context managers close through the public close calls — `AsyncZeroconf.__aexit__` awaits `async_close`, `Zeroconf.__exit__` calls
`close` — so `C08_close_goodbyes_partial` / `C08_sync_close_goodbyes_partial` also cover `async with` / `with`; and `async_unregister_service`
calls `set_server_if_missing` (a copy with `server=None` can be handed to it).  Translated call pins; the harness closes 30 % of its
instances through `AsyncZeroconf.__aexit__` and unregisters `server=None` services through fresh copies. -/
theorem C08_context_exit_closes :
    Gen.Register.aexit_calls_async_close = true ∧ Gen.Register.exit_calls_close = true ∧ Gen.Register.unregister_sets_server = true :=
  context_exit_closes

/-- an info whose records cannot be put on the wire never reaches the registry: `async_update_service` and `async_register_service` run the
dry-run encoding (which raises to the caller) before `registry.async_update` / `async_add`.  The blocks `update` / `register` of the machine
are the *accepted* calls; a refused one is no block at all — were the order the other way round (seeded defect C08-w5-seed2) the refused
info would sit in the registry and the goodbye of **every** service would raise in `packets()` at the next unregister-all / close.
A statement about the order of two calls (translated leaves); the harness attempts refused updates before closing (`gen_refused_update`). -/
theorem C08_refused_call_leaves_registry :
    Gen.Register.update_encodes_before_registry = true ∧ Gen.Register.register_encodes_before_registry = true :=
  refused_before_registry

/-! ### the English-level reading: "its PTR, SRV, TXT records" by owner name and type (known finding D20) -/

/-- `r` is one of "those records" of the service instance `s`, whatever its rdata: SRV / TXT owned by the instance name, a PTR to it,
and — unless another still-registered service uses the host name (`shared`) — the NSEC record of the instance name and the A / AAAA
records of the host name.  (The first version counted the NSEC record unconditionally, which the sentence does not: second review.) -/
def ofService (s : Svc) (shared : Bool) (r : Rec) : Bool :=
  ((r.type == 33 || r.type == 16 || (r.type == 47 && !shared)) && lower r.name == lower s.name) ||
  ((r.type == 1 || r.type == 28) && !shared && lower r.name == lower s.server) ||
  (r.type == 12 && (match r.rdata with | .ptr a => lower a == lower s.name | _ => false))

/-- a block that registers (or updates) a service of that name — or, for the address records, on that host name — again -/
def reRegistersName (s : Svc) : Block → Bool
  | .register s' _ _ => lower s'.name == lower s.name || lower s'.server == lower s.server
  | .update s' _ _ => lower s'.name == lower s.name || lower s'.server == lower s.server
  | _ => false

/-- is the host name of `s` still used by a registered service once `s` is unregistered after history `pre`? -/
def sharedAfter (pre : List Block) (s : Svc) : Bool :=
  match Host.init.run lower pre with
  | some (h0, _) => hostShared lower (regRemove lower h0.reg (key lower s)) s
  | none => false

/-- history, then the unregister block, then a continuation: everything sent from the unregister block on -/
def runThen (pre : List Block) (b : Block) (bs : List Block) : Option (List Pkt) :=
  match Host.init.run lower pre with
  | none => none
  | some (h0, _) =>
    match h0.step lower b with
    | none => none
    | some (h1, o1) =>
      match h1.run lower bs with
      | none => none
      | some (_, o2) => some (o1 ++ o2)

def cleanByName (s : Svc) (shared : Bool) (out : List Pkt) : Bool :=
  out.all (fun p => (p.answers ++ p.authorities ++ p.additionals).all (fun r => r.ttl == 0 || !ofService lower s shared r))

/-- full strength, as the English sentence reads to a peer whose cache keys unique records by owner name and type: after the
unregister block no SRV / TXT / PTR record *of that instance* — whatever its rdata — and, unless the host name is still used, no NSEC
record of the instance and no address record of the host, leaves with a non-zero TTL, unless that name (host name) is registered again -/
def C08_no_resurrection_by_name : Prop :=
  ∀ (pre : List Block) (s : Svc) (oid : Nat) (now : Int) (bs : List Block),
    (∀ b ∈ bs, reRegistersName lower s b = false) →
    (runThen lower pre (.unregister s oid now) bs).all (cleanByName lower s (sharedAfter lower pre s)) = true   -- `none` (a block not enabled): nothing to show

private def d20old : Svc :=
  { type := "_http._tcp.local.", name := "svc._http._tcp.local.", server := "host.local.", port := 80, weight := 0, priority := 0,
    text := [], v4 := [[10, 0, 0, 1]], v6 := [], hostTtl := 120, otherTtl := 4500 }
private def d20new : Svc := { d20old with port := 81 }

/-- **false of the code** (known finding D20, `C08:superseded-record-sent-after-goodbye`): register with port 80; an SRV answer is
queued (flood-delayed); `update_service` through a new object with port 81 — the update purges nothing; unregister: the purge list is
built from the *new* info, the port-80 SRV stays queued and is multicast with TTL 120 when the queue timer fires after the goodbyes -/
theorem C08_no_resurrection_by_name_refuted : ¬ C08_no_resurrection_by_name id := by
  intro h
  have := h [.register d20old 1 350, .enqueue true 1100 60 [(d20old.srv none, d20old.addrNsec none)], .update d20new 2 1110]
    d20new 2 1120 [.task 2 (some 0) true 1120, .task 2 (some 0) true 1245, .task 2 (some 0) true 1370, .ready true 2160] (by decide)
  exact absurd this (by decide)

/-! ### non-vacuity: a history in which an answer is queued when the service is withdrawn -/

private def exSvc : Svc :=
  { type := "_http._tcp.local.", name := "svc._http._tcp.local.", server := "host.local.", port := 80, weight := 0, priority := 0,
    text := [], v4 := [[10, 0, 0, 1]], v6 := [], hostTtl := 120, otherTtl := 4500 }

/-- register, queue a pointer answer (flood-delayed), unregister 30 ms later, fire the queue timer after the goodbyes:
the blocks are all enabled, and the timer sends nothing -/
example : ((Host.init.run id [.register exSvc 1 350, .task 1 none true 350, .task 1 none true 575, .task 1 none true 800,
      .enqueue true 1100 60 [(exSvc.ptr none, [exSvc.srv none, exSvc.txt none] ++ exSvc.addrNsec none)],
      .unregister exSvc 1 1130, .task 1 (some 0) true 1130, .task 1 (some 0) true 1255, .task 1 (some 0) true 1380,
      .ready true 2160]).map (fun r => (r.2.length, r.1.delayq.map (·.answers.length)))) = some (6, []) := by
  decide

/-- a close with one service registered, an answer waiting in the delay queue and the queue timer firing between the goodbyes: all
blocks are enabled, exactly the three goodbyes leave (the queued answer was purged), and the instance ends closed -/
example : ((Host.init.run id [.register exSvc 1 350, .task 1 none true 350, .task 1 none true 575, .task 1 none true 800,
      .enqueue true 1100 60 [(exSvc.ptr none, [exSvc.srv none, exSvc.txt none] ++ exSvc.addrNsec none)]]).bind (fun r =>
        (r.1.run id (asyncClose r.1 1130 [.ready true 1200] [.ready true 2160])).map (fun r2 =>
          (r2.2.map (fun p => decide (p = closeGoodbye r.1)), r2.1.done)))) = some ([true, true, true], true) := by
  decide

private def exH0 : Host :=
  { reg := [⟨exSvc, 1⟩], outq := [], delayq := [], tasks := [announceTask exSvc 1 350], closing := [], done := false }

/-- **false of the code at full strength** (known finding `C08:goodbyes-cut-by-close`, C07's `goodbyes-cut-by-close`): another
shutdown call's `_close` between the goodbyes (two overlapping closes; or, for `async_unregister_service`, a close that does not wait
for the running goodbye task) sets `done`, and the remaining goodbyes are dropped by `async_send` -/
theorem C08_close_goodbyes_refuted : ¬ C08_close_goodbyes id := by
  intro h
  have := h [.register exSvc 1 350] exH0 [] (by decide) rfl (by decide) 1000 [.close] [] ({ exH0 with reg := [], closing := [], done := true }) [closeGoodbye exH0] (by decide)
  revert this
  decide

private def exReg : Host := { reg := [⟨exSvc, 1⟩], outq := [], delayq := [], tasks := [], closing := [], done := false }
private def exProg : List XBlock :=
  [.blk (.unregister exSvc 1 1000), .mutate 1 { exSvc with name := "svc-2._http._tcp.local." },
   .blk (.task 1 (some 0) true 1000), .blk (.task 1 (some 0) true 1125), .blk (.task 1 (some 0) true 1250)]

/-- **false of the code before the D27 repair** (`C08:reused-info-renamed-before-goodbye`, now `kind: fixed`): the goodbye task reads the
object at each step; `async_unregister_service(info)` followed at once by `async_register_service(info, allow_name_change=True)` with
the same object renames it (`svc` → `svc-2`: the host's own announcement of `svc` is still in its cache) before the task's first step:
three goodbyes leave, all naming `svc-2`; `svc` is never withdrawn -/
theorem C08_goodbyes_run_refuted_without_snapshot : ¬ C08_goodbyes_run id false := by
  intro h
  have hc : (exReg.xrun id false exProg).map (fun r => ((r.2.filter (fun p => namesService p exSvc.name)).length,
      (r.2.filter (fun p => namesService p "svc-2._http._tcp.local.")).length)) = some (0, 3) := by decide
  cases hx : exReg.xrun id false exProg with
  | none => rw [hx] at hc; simp at hc
  | some r =>
    obtain ⟨h3, out⟩ := r
    rw [hx] at hc
    simp only [Option.map_some, Option.some.injEq, Prod.mk.injEq] at hc
    have := h exReg exSvc 1 1000 [.mutate 1 { exSvc with name := "svc-2._http._tcp.local." }] [] [] h3 out (by decide) (by decide) (by decide) hx
    omega

/-- the hypotheses of `C08_goodbyes_run_partial` / `C08_close_goodbyes_partial` are met by ordinary traffic: queue insertions, queue timers,
other objects' tasks and this object's announcement task are quiet for object 1 and are no shutdown blocks; `_close` and a step of the object's
own goodbye task are not -/
example : (Block.enqueue true 1100 60 []).quietFor 1 = true ∧ (Block.ready true 1200).quietFor 1 = true ∧
    (Block.task 2 (some 0) true 5).quietFor 1 = true ∧ (Block.task 1 none true 5).quietFor 1 = true ∧
    (Block.unregisterAll 7).quietFor 1 = true ∧ Block.close.quietFor 1 = false ∧ (Block.task 1 (some 0) true 5).quietFor 1 = false ∧
    (Block.ready true 1200).isShutdown = false ∧ (Block.unregister exSvc 1 3).isShutdown = false ∧ Block.close.isShutdown = true := by
  decide

/-- `C08_goodbyes_run_partial` is not vacuous: unregister, queue timers firing before and between the steps, the three steps -/
example : (exReg.run id [.unregister exSvc 1 1000, .ready true 1000, .task 1 (some 0) true 1000, .ready false 1100,
      .task 1 (some 0) true 1125, .ready true 1200, .task 1 (some 0) true 1250]).map
    (fun r => r.2.map (fun p => decide (p = goodbyePkt exSvc false))) = some [true, true, true] := by
  decide

/-- a service under another name on the same host keeps the address records out of the goodbye -/
example : hostShared id [⟨{ exSvc with name := "other._http._tcp.local." }, 2⟩] exSvc = true := by decide

end Zc.Goodbye
