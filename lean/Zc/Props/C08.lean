import Zc.Proofs.Goodbye
/-! # C08 — withdrawn services stay withdrawn: complete goodbyes, no resurrection

Model: `Zc.Goodbye.Host` (`Model/Goodbye.lean`) — registry, both outgoing queues, the broadcast tasks, the close
sequence, the `done` flag — stepped by atomic blocks (`Host.step`).  A run is **any** list of blocks that are
enabled one after the other from `Host.init` (`Host.run … = some …`): registrations, updates, unregistrations,
task steps, immediate answers and queue insertions offered by the query handler (any records of services that are
registered at that instant, any route, any draw), queue timer firings at any time, unregister-all, close.
The theorems are about the **repaired** code (D5: queued answers of a withdrawn service are dropped; D6: an
announcement task stops when its info is no longer the registered one); `GenFacts/Goodbye.lean` fails to build on
a tree without the repairs.  `lower` is `str.lower`, arbitrary.  Numbers (125, 3) are those of the English statement. -/
namespace Zc.Goodbye
open Zc Zc.Register Zc.GenFacts.Goodbye

variable (lower : String → String)

/-- the goodbye datagram of `s`: TTL-0 copies of PTR, SRV, TXT, and of the addresses and the NSEC record unless the
host name is shared -/
def goodbyePkt (s : Svc) (shared : Bool) : Pkt := broadcastPkt s (some 0) (!shared)

/-- **Goodbyes.**  `async_unregister_service` at `now` removes the service, sends nothing itself and starts a task whose
three steps — at `now`, `now + 125`, `now + 250` — each multicast the goodbye datagram: TTL-0 copies of PTR, SRV and TXT,
and of every address and the NSEC record exactly when no service that is still registered uses the same host name. -/
theorem C08_goodbyes (h h' : Host) (s : Svc) (oid : Nat) (now : Int) (out : List Pkt)
    (hs : h.step lower (.unregister s oid now) = some (h', out)) :
    out = [] ∧ h'.reg = regRemove lower h.reg (key lower s) ∧
    ∃ t ∈ h'.tasks, t.schedule 3 =
        [(now, goodbyePkt s (hostShared lower h'.reg s)), (now + 125, goodbyePkt s (hostShared lower h'.reg s)),
         (now + 250, goodbyePkt s (hostShared lower h'.reg s))] ∧
      (goodbyePkt s (hostShared lower h'.reg s)).answers =
        [s.ptr (some 0), s.srv (some 0), s.txt (some 0)] ++ (if hostShared lower h'.reg s then [] else s.addrNsec (some 0)) ∧
      ∀ r ∈ (goodbyePkt s (hostShared lower h'.reg s)).answers, r.ttl = 0 := by
  simp only [Host.step, unregRemove_eq, Option.some.injEq, Prod.mk.injEq] at hs
  obtain ⟨rfl, rfl⟩ := hs
  refine ⟨rfl, rfl, _, List.mem_append_right _ (List.mem_singleton.2 rfl), ?_, ?_, ?_⟩
  · simp [Task.schedule, Task.step, Gen.Register.announce_stops, Zc.GenFacts.Register.broadcast_count_eq, unregisterTime_eq,
      goodbyePkt, goodbye_addresses_eq]
    omega
  · cases hsh : hostShared lower (regRemove lower h.reg (key lower s)) s <;>
      simp [goodbyePkt, broadcastPkt, broadcastAnswers, Zc.GenFacts.Register.add_addresses_eq]
  · intro r hr
    exact broadcast_ttl0 s _ r hr

/-- the same at close / `async_unregister_all_services`: one datagram with the TTL-0 records of every registered
service (addresses and NSEC always included), sent at `now`, and twice more by the sequence it starts, 125 ms apart;
the registry is emptied at once -/
theorem C08_goodbyes_all (h h' : Host) (now : Int) (out : List Pkt) (hne : h.reg ≠ []) (hd : h.done = false)
    (hs : h.step lower (.unregisterAll now) = some (h', out)) :
    h'.reg = [] ∧ out = [allPkt (h.reg.flatMap (fun e => broadcastAnswers e.svc (some 0) true))] ∧
    (∀ r ∈ h.reg.flatMap (fun e => broadcastAnswers e.svc (some 0) true), r.ttl = 0) ∧
    ∃ a ∈ h'.closing, a.answers = h.reg.flatMap (fun e => broadcastAnswers e.svc (some 0) true) ∧ a.i = 1 ∧ a.due = now + 125 := by
  simp only [Host.step] at hs
  split at hs
  · rename_i he; simp at he; exact absurd he hne
  · simp only [Option.some.injEq, Prod.mk.injEq] at hs
    obtain ⟨rfl, rfl⟩ := hs
    refine ⟨rfl, by simp [emit, send_is_noop_eq, hd], ?_, _, List.mem_append_right _ (List.mem_singleton.2 rfl), rfl, rfl, by simp [unregisterTime_eq]⟩
    intro r hr
    rw [List.mem_flatMap] at hr
    obtain ⟨e, _, hre⟩ := hr
    exact broadcast_ttl0 e.svc true r hre

/-- a later step of that sequence re-sends the same datagram, and the sequence ends after the third -/
theorem C08_goodbyes_all_step (h h' : Host) (due : Int) (out : List Pkt) (hd : h.done = false)
    (hs : h.step lower (.allStep due) = some (h', out)) :
    ∃ a ∈ h.closing, a.due = due ∧ out = [allPkt a.answers] ∧
      (a.i + 1 < 3 → ∃ a' ∈ h'.closing, a'.answers = a.answers ∧ a'.i = a.i + 1 ∧ a'.due = due + 125) := by
  simp only [Host.step] at hs
  split at hs
  · simp at hs
  rename_i a hf
  have hdue : a.due = due := by have := List.find?_some hf; simpa using this
  simp only [Option.some.injEq, Prod.mk.injEq] at hs
  obtain ⟨rfl, rfl⟩ := hs
  refine ⟨a, List.mem_of_find?_eq_some hf, hdue, by simp [emit, send_is_noop_eq, hd], ?_⟩
  intro hi
  have : a.i + 1 < Gen.Register.broadcast_count := by rw [Zc.GenFacts.Register.broadcast_count_eq]; exact hi
  simp only [this, if_true]
  exact ⟨_, List.mem_append_right _ (List.mem_singleton.2 rfl), rfl, rfl, by simp [unregisterTime_eq, hdue]⟩

/-- **No resurrection** (`_partial`: "those records" = the records the goodbye carried, up to record identity *rdata included*;
the English-level reading by owner name and type is `C08_no_resurrection_by_name`, refuted below — known finding D20).
Take any reachable host (`hpre`: any history from the initial state), unregister `s`, and let
anything happen afterwards (`hrun`: any enabled blocks — task steps still pending, answers that were queued before,
queue timers, new queries answered from the registry, other services coming and going, close) except registering again
a service that defines one of the withdrawn records (`hno`).  Then no datagram the host sends from the unregister block
on — in particular none after the third goodbye — carries one of the withdrawn records (up to record identity: name
case-insensitively, type, class, rdata) with a non-zero TTL. -/
theorem C08_no_resurrection_partial (pre : List Block) (h0 : Host) (out0 : List Pkt) (hpre : Host.init.run lower pre = some (h0, out0))
    (s : Svc) (oid : Nat) (now : Int) (h1 : Host) (out1 : List Pkt) (hs : h0.step lower (.unregister s oid now) = some (h1, out1))
    (bs : List Block) (h2 : Host) (out2 : List Pkt) (hrun : h1.run lower bs = some (h2, out2))
    (hno : ∀ b ∈ bs, ¬ reRegisters lower (withdrawn s (hostShared lower h1.reg s)) b) :
    ∀ p ∈ out1 ++ out2, ∀ r ∈ p.answers ++ p.authorities ++ p.additionals,
      r.ttl = 0 ∨ hits lower (withdrawn s (hostShared lower h1.reg s)) r = false := by
  have hw := wf_run lower pre _ h0 out0 (wf_init lower) hpre
  have hreg : h1.reg = regRemove lower h0.reg (key lower s) := by
    simp only [Host.step, unregRemove_eq, Option.some.injEq, Prod.mk.injEq] at hs
    obtain ⟨rfl, _⟩ := hs
    rfl
  have hsep : ∀ e ∈ h1.reg, ¬ owns lower (withdrawn s (hostShared lower h1.reg s)) e.svc := by
    intro e he
    refine separated lower h1.reg s e he ?_
    rw [hreg] at he
    have := (List.mem_filter.1 he).2
    simpa using this
  obtain ⟨hc, rfl⟩ := unregister_clean lower h0 h1 s oid now out1 hw hs hsep
  have := run_clean lower _ bs h1 h2 out2 hc hno hrun
  intro p hp
  exact this.2 p (by simpa using hp)

/-- the same after `async_unregister_all_services` (also the first half of `async_close`): none of the records of any service
that was registered leaves with a non-zero TTL afterwards, as long as none is registered again -/
theorem C08_no_resurrection_all (pre : List Block) (h0 : Host) (out0 : List Pkt) (hpre : Host.init.run lower pre = some (h0, out0))
    (now : Int) (h1 : Host) (out1 : List Pkt) (hs : h0.step lower (.unregisterAll now) = some (h1, out1))
    (bs : List Block) (h2 : Host) (out2 : List Pkt) (hrun : h1.run lower bs = some (h2, out2))
    (hno : ∀ b ∈ bs, ¬ reRegisters lower (h0.reg.flatMap (fun e => broadcastAnswers e.svc (some 0) true)) b) :
    ∀ p ∈ out1 ++ out2, ∀ r ∈ p.answers ++ p.authorities ++ p.additionals,
      r.ttl = 0 ∨ hits lower (h0.reg.flatMap (fun e => broadcastAnswers e.svc (some 0) true)) r = false := by
  have hw := wf_run lower pre _ h0 out0 (wf_init lower) hpre
  have h0ttl : ∀ r ∈ h0.reg.flatMap (fun e => broadcastAnswers e.svc (some 0) true), r.ttl = 0 := by
    intro r hr
    rw [List.mem_flatMap] at hr
    obtain ⟨e, _, hre⟩ := hr
    exact broadcast_ttl0 e.svc true r hre
  simp only [Host.step, unregister_all_purges, if_true] at hs
  split at hs
  · -- nothing registered: nothing withdrawn
    rename_i hemp
    simp only [Option.some.injEq, Prod.mk.injEq] at hs
    obtain ⟨rfl, rfl⟩ := hs
    have : h0.reg = [] := by simpa using hemp
    intro p hp r _
    right
    simp [this, hits]
  · simp only [Option.some.injEq, Prod.mk.injEq] at hs
    obtain ⟨rfl, rfl⟩ := hs
    have hc : Clean lower (h0.reg.flatMap (fun e => broadcastAnswers e.svc (some 0) true))
        { h0 with reg := [], outq := qpurge lower (h0.reg.flatMap (fun e => broadcastAnswers e.svc (some 0) true)) h0.outq,
                  delayq := qpurge lower (h0.reg.flatMap (fun e => broadcastAnswers e.svc (some 0) true)) h0.delayq,
                  closing := h0.closing ++ [{ answers := h0.reg.flatMap (fun e => broadcastAnswers e.svc (some 0) true), i := 1,
                                              due := now + Gen.unregisterTime }] } := by
      refine ⟨qpurge_clean lower _ _, qpurge_clean lower _ _, ?_, by simp, ?_⟩
      · intro t ht
        rcases hw.ttl t ht with hn | h0'
        · exact Or.inr ⟨hn, fun _ => by simp [registeredAs, regGet]⟩
        · exact Or.inl h0'
      · intro a ha
        simp only [List.mem_append, List.mem_singleton] at ha
        rcases ha with ha | rfl
        · exact hw.closing a ha
        · exact h0ttl
    have := run_clean lower _ bs _ h2 out2 hc hno hrun
    intro p hp
    rw [List.mem_append] at hp
    rcases hp with hp | hp
    · have := emit_mem _ _ _ hp
      subst this
      exact allPkt_ttl0 lower _ _ h0ttl
    · exact this.2 p hp

/-- after `_close` (`done`) nothing is sent at all, whatever blocks still run (`async_send` is a no-op) -/
theorem C08_closed_silent : ∀ (bs : List Block) (h h' : Host) (out : List Pkt), h.done = true →
    h.run lower bs = some (h', out) → out = [] ∧ h'.done = true := by
  have step : ∀ (b : Block) (h h' : Host) (out : List Pkt), h.done = true → h.step lower b = some (h', out) → out = [] ∧ h'.done = true := by
    intro b h h' out hd hs
    have hem : ∀ p, emit h p = [] := by intro p; simp [emit, send_is_noop_eq, hd]
    cases b with
    | register s oid now =>
      simp only [Host.step] at hs
      split at hs
      · simp at hs
      split at hs
      · simp at hs
      simp only [Option.some.injEq, Prod.mk.injEq] at hs
      obtain ⟨rfl, rfl⟩ := hs
      exact ⟨rfl, hd⟩
    | update s oid now =>
      simp only [Host.step] at hs
      split at hs
      · simp at hs
      simp only [Option.some.injEq, Prod.mk.injEq] at hs
      obtain ⟨rfl, rfl⟩ := hs
      exact ⟨rfl, hd⟩
    | unregister s oid now =>
      simp only [Host.step, unregRemove_eq, Option.some.injEq, Prod.mk.injEq] at hs
      obtain ⟨rfl, rfl⟩ := hs
      exact ⟨rfl, hd⟩
    | task oid ttl ad due =>
      simp only [Host.step] at hs
      split at hs
      · simp at hs
      generalize Task.step _ _ = st at hs
      obtain ⟨t', p⟩ := st
      simp only [Option.some.injEq, Prod.mk.injEq] at hs
      obtain ⟨rfl, rfl⟩ := hs
      exact ⟨by cases p <;> simp [hem], hd⟩
    | answer rs =>
      simp only [Host.step] at hs
      split at hs
      · simp only [Option.some.injEq, Prod.mk.injEq] at hs
        obtain ⟨rfl, rfl⟩ := hs
        exact ⟨hem _, hd⟩
      · simp at hs
    | enqueue delayed now draw answers =>
      simp only [Host.step] at hs
      split at hs
      · split at hs
        · simp only [Option.some.injEq, Prod.mk.injEq] at hs
          obtain ⟨rfl, rfl⟩ := hs
          exact ⟨rfl, hd⟩
        · simp only [Option.some.injEq, Prod.mk.injEq] at hs
          obtain ⟨rfl, rfl⟩ := hs
          exact ⟨rfl, hd⟩
      · simp at hs
    | ready delayed now =>
      simp only [Host.step] at hs
      split at hs
      · generalize qready lower _ _ = r at hs
        obtain ⟨q, p⟩ := r
        simp only [Option.some.injEq, Prod.mk.injEq] at hs
        obtain ⟨rfl, rfl⟩ := hs
        exact ⟨by cases p <;> simp [hem], hd⟩
      · generalize qready lower _ _ = r at hs
        obtain ⟨q, p⟩ := r
        simp only [Option.some.injEq, Prod.mk.injEq] at hs
        obtain ⟨rfl, rfl⟩ := hs
        exact ⟨by cases p <;> simp [hem], hd⟩
    | unregisterAll now =>
      simp only [Host.step] at hs
      split at hs
      · simp only [Option.some.injEq, Prod.mk.injEq] at hs
        obtain ⟨rfl, rfl⟩ := hs
        exact ⟨rfl, hd⟩
      · simp only [Option.some.injEq, Prod.mk.injEq] at hs
        obtain ⟨rfl, rfl⟩ := hs
        exact ⟨hem _, hd⟩
    | allStep due =>
      simp only [Host.step] at hs
      split at hs
      · simp at hs
      simp only [Option.some.injEq, Prod.mk.injEq] at hs
      obtain ⟨rfl, rfl⟩ := hs
      exact ⟨hem _, hd⟩
    | close =>
      simp only [Host.step, unregRemove_eq, Option.some.injEq, Prod.mk.injEq] at hs
      obtain ⟨rfl, rfl⟩ := hs
      exact ⟨rfl, rfl⟩
  intro bs
  induction bs with
  | nil => intro h h' out hd hr; simp only [Host.run, Option.some.injEq, Prod.mk.injEq] at hr; obtain ⟨rfl, rfl⟩ := hr; exact ⟨rfl, hd⟩
  | cons b bs ih =>
    intro h h' out hd hr
    simp only [Host.run] at hr
    split at hr
    · simp at hr
    rename_i h1 out1 hs
    split at hr
    · simp at hr
    rename_i h2 out2 hr2
    simp only [Option.some.injEq, Prod.mk.injEq] at hr
    obtain ⟨rfl, rfl⟩ := hr
    have s1 := step b h h1 out1 hd hs
    have s2 := ih h1 h2 out2 s1.2 hr2
    exact ⟨by simp [s1.1, s2.1], s2.2⟩

/-- the synchronous `unregister_service(info)` returns only after all three goodbyes were handed to `async_send` (D19 repair:
`await_awaitable`), so that the library's own shutdown sequence `unregister_service(info); close()` cannot cut them.  A statement
about the wrapper's shape (translated leaf); the threads are exercised by the harness' `sync` stream, not modelled. -/
theorem C08_sync_unregister_waits : syncUnregisterGoodbyesOnReturn = 3 := by
  simp [syncUnregisterGoodbyesOnReturn, sync_wrappers_await.1, Zc.GenFacts.Register.broadcast_count_eq]

/-! ### the English-level reading: "its PTR, SRV, TXT records" by owner name and type (known finding D20) -/

/-- `r` is a record *of the service instance* `s` whatever its rdata: SRV / TXT / NSEC owned by the instance name, or a PTR to it -/
def ofService (s : Svc) (r : Rec) : Bool :=
  ((r.type == 33 || r.type == 16 || r.type == 47) && lower r.name == lower s.name) ||
  (r.type == 12 && (match r.rdata with | .ptr a => lower a == lower s.name | _ => false))

/-- a block that registers (or updates) a service of that name again -/
def reRegistersName (s : Svc) : Block → Bool
  | .register s' _ _ => lower s'.name == lower s.name
  | .update s' _ _ => lower s'.name == lower s.name
  | _ => false

/-- history, then the unregister block, then a continuation: everything sent from the unregister block on -/
def runThen (pre : List Block) (b : Block) (bs : List Block) : Option (List Pkt) :=
  match Host.init.run lower pre with
  | none => none
  | some (h0, _) =>
    match h0.step lower b with
    | none => none
    | some (h1, o1) =>
      match h1.run lower bs with
      | none => none
      | some (_, o2) => some (o1 ++ o2)

def cleanByName (s : Svc) (out : List Pkt) : Bool :=
  out.all (fun p => (p.answers ++ p.authorities ++ p.additionals).all (fun r => r.ttl == 0 || !ofService lower s r))

/-- full strength, as the English sentence reads to a peer whose cache keys unique records by owner name and type: after the
unregister block no SRV / TXT / NSEC / PTR record *of that instance* — whatever its rdata — leaves with a non-zero TTL, unless the
name is registered again -/
def C08_no_resurrection_by_name : Prop :=
  ∀ (pre : List Block) (s : Svc) (oid : Nat) (now : Int) (bs : List Block),
    (∀ b ∈ bs, reRegistersName lower s b = false) →
    (runThen lower pre (.unregister s oid now) bs).all (cleanByName lower s) = true   -- `none` (a block not enabled): nothing to show

private def d20old : Svc :=
  { type := "_http._tcp.local.", name := "svc._http._tcp.local.", server := "host.local.", port := 80, weight := 0, priority := 0,
    text := [], v4 := [[10, 0, 0, 1]], v6 := [], hostTtl := 120, otherTtl := 4500 }
private def d20new : Svc := { d20old with port := 81 }

/-- **false of the code** (known finding D20, `C08:superseded-record-sent-after-goodbye`): register with port 80; an SRV answer is
queued (flood-delayed); `update_service` through a new object with port 81 — the update purges nothing; unregister: the purge list is
built from the *new* info, the port-80 SRV stays queued and is multicast with TTL 120 when the queue timer fires after the goodbyes -/
theorem C08_no_resurrection_by_name_refuted : ¬ C08_no_resurrection_by_name id := by
  intro h
  have := h [.register d20old 1 350, .enqueue true 1100 60 [(d20old.srv none, d20old.addrNsec none)], .update d20new 2 1110]
    d20new 2 1120 [.task 2 (some 0) true 1120, .task 2 (some 0) true 1245, .task 2 (some 0) true 1370, .ready true 2160] (by decide)
  exact absurd this (by decide)

/-! ### non-vacuity: a history in which an answer is queued when the service is withdrawn -/

private def exSvc : Svc :=
  { type := "_http._tcp.local.", name := "svc._http._tcp.local.", server := "host.local.", port := 80, weight := 0, priority := 0,
    text := [], v4 := [[10, 0, 0, 1]], v6 := [], hostTtl := 120, otherTtl := 4500 }

/-- register, queue a pointer answer (flood-delayed), unregister 30 ms later, fire the queue timer after the goodbyes:
the blocks are all enabled, and the timer sends nothing -/
example : ((Host.init.run id [.register exSvc 1 350, .task 1 none true 350, .task 1 none true 575, .task 1 none true 800,
      .enqueue true 1100 60 [(exSvc.ptr none, [exSvc.srv none, exSvc.txt none] ++ exSvc.addrNsec none)],
      .unregister exSvc 1 1130, .task 1 (some 0) true 1130, .task 1 (some 0) true 1255, .task 1 (some 0) true 1380,
      .ready true 2160]).map (fun r => (r.2.length, r.1.delayq.map (·.answers.length)))) = some (6, []) := by
  decide

/-- a service under another name on the same host keeps the address records out of the goodbye -/
example : hostShared id [⟨{ exSvc with name := "other._http._tcp.local." }, 2⟩] exSvc = true := by decide

end Zc.Goodbye
