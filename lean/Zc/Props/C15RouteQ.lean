import Zc.Proofs.SurviveHost
import Zc.Proofs.SurviveRouteQ
import Zc.Model.RegHistory
/-! # C15 — the asked record reaches the set the routing rule names

`Zc.Props.C15`'s `C15_query_reaches_responder_partial` ends at "the answer computation has **offered** `r` to the routing":
the routing (`Rest.route`) is handed the answer map of all questions merged, so which question an entry answers — and with it
the QU/QM decision — is out of its sight.  Here the downstream is `Survive.RouteQ.downQ`: the same composition
(cache C05/C06, browsers C04, registry and answer computation C03, listeners/queues of `Survive.Route.rest`) except that
`answer` routes **per strategy of each question**, as `_QueryResponse` does (`Zc.Model.SurviveRouteQ`).  For it:

* `C15_downQ_ok` — `DownOK` (so all survival theorems hold of it: `C15_total_routedQ_partial`), assuming only `BaseOK`;
* `C15_query_reaches_responder_routed_partial` — after any history, a valid untruncated query one of whose questions asks for
  a record `r` of a registered service is answered inside the block, and a record **identical to `r`** (C20) is in one of the
  four routed sets; for a legacy source port it is in the unicast reply and in a multicast set; for a QU question from port
  5353 it is in the unicast reply if the cache saw it within a quarter of its TTL, in the immediate multicast otherwise.
  The unicast and immediate sets are sent in the block (`Sent`); the other two are handed to the queues, whose bounds are C12's
  (`C12_host_on_wire`). -/
namespace Zc
open Zc.Wire Zc.Wire.DecodeLib Zc.Survive Zc.Survive.Comp
open Zc.Listener (Addr alGet TcTimer)

section routedQ
variable (lower : String → String) (possible : String → List String) (ettl : Nat) (orc : Route.Oracle)
variable {ρ₀ ω' : Type} (B : Route.Base ρ₀ ω') (I₀ : ρ₀ → Prop)

/-- `DownOK` of the composition with per-question routing: only `BaseOK` is assumed -/
theorem C15_downQ_ok (hB : Route.BaseOK B I₀) :
    DownOK (RouteQ.downQ lower ettl possible orc B) (CInv lower ettl (Route.Inv I₀)) QASafe :=
  RouteQ.downQ_downOK lower possible ettl orc B I₀ hB

/-- survival, one block, per-question routing composed (`_partial`: `BaseOK` + the invariants) -/
theorem C15_total_routedQ_partial (hB : Route.BaseOK B I₀)
    (s : State (CState (ρ₀ × Route.RState))) (hI : CInv lower ettl (Route.Inv I₀) s.down) (hLi : LInv s)
    (data : Bytes) (addr : Addr) (port : Nat) (now : Ms) (draw : Nat) :
    ∃ s' out tag, recv (RouteQ.downQ lower ettl possible orc B) s data addr port now draw = .ok (s', out, tag) ∧
      CInv lower ettl (Route.Inv I₀) s'.down ∧ LInv s' :=
  recv_ok (C15_downQ_ok lower possible ettl orc B I₀ hB) sendOK_safe s data addr port now draw hI hLi

/-- **A well-formed query sent after any history reaches the responder, and the asked record reaches the set the routing rule
names** (`_partial`: assumes `BaseOK`, the invariant `CInv` initially and of the other blocks, and the loop facts implicit in
`run`).  `sel` are the four sets `_QueryResponse.answers()` returns, `qa` what `handle_assembled_query` does with them. -/
theorem C15_query_reaches_responder_routed_partial {β : Type} (hB : Route.BaseOK B I₀)
    (other : CState (ρ₀ × Route.RState) → β → Except PyExc (CState (ρ₀ × Route.RState) × List (COut ω')))
    (hO : ∀ d b, CInv lower ettl (Route.Inv I₀) d → ∃ d' o, other d b = .ok (d', o) ∧ CInv lower ettl (Route.Inv I₀) d')
    (d0 : CState (ρ₀ × Route.RState)) (h0 : CInv lower ettl (Route.Inv I₀) d0) (bs : List (Survive.Block β))
    (s1 : State (CState (ρ₀ × Route.RState))) (o1 : List (Out (COut ω')))
    (hrun : run (RouteQ.downQ lower ettl possible orc B) other (State.init d0) bs = .ok (s1, o1))
    (data : Bytes) (addr : Addr) (port : Nat) (now : Ms) (draw : Nat) (p : Parsed)
    (hsize : data.length ≤ 8966) (hg : guardHit s1 data now = false) (hp : (parse data).out = .ok p)
    (hv : p.valid = true) (hq : Gen.Listener.is_query p.hdr.flags = true) (htc : Gen.Listener.truncated p.hdr.flags = false)
    (he : s1.down.reg.hasEntries = true)
    {q : Question} (hqq : q ∈ (msgOf ⟨data, now, p, none⟩).questions) {s : Svc} (hs : s ∈ s1.down.reg.services) {r : Rec}
    (hr : r ∈ RespSpec.candidates lower ettl s q)
    (hk : RespSpec.isNsec r = true ∨
      suppresses lower (knownOf (((alGet addr s1.deferred).getD [] ++ [(⟨data, now, p, none⟩ : Pkt)]).map msgOf)) r = false) :
    ∃ (sel : Routed) (d1 : CState (ρ₀ × Route.RState)) (s' : State (CState (ρ₀ × Route.RState))) (out : List (Out (COut ω'))) (r'' : Rec),
      let ks := (alGet addr s1.deferred).getD [] ++ [(⟨data, now, p, none⟩ : Pkt)]
      let qa : Survive.QA := ⟨setOf lower sel.ucast, setOf lower sel.mcastNow, !sel.aggregate.isEmpty, !sel.aggregateLast.isEmpty⟩
      RouteQ.answerQ lower ettl s1.down ks (Gen.Listener.ucast_source port) = .ok (d1, some qa) ∧ d1.pending = some sel ∧
      recv (RouteQ.downQ lower ettl possible orc B) s1 data addr port now draw = .ok (s', out, .responded ks.length) ∧
      Sent addr port (some qa) out ∧
      r''.beq lower r = true ∧
      (r'' ∈ keysOf sel.ucast ∨ r'' ∈ keysOf sel.mcastNow ∨ r'' ∈ keysOf sel.aggregate ∨ r'' ∈ keysOf sel.aggregateLast) ∧
      (Gen.Listener.ucast_source port = true →
        r'' ∈ keysOf sel.ucast ∧ (r'' ∈ keysOf sel.mcastNow ∨ r'' ∈ keysOf sel.aggregate ∨ r'' ∈ keysOf sel.aggregateLast)) ∧
      (Gen.Listener.ucast_source port = false → q.unique = true →
        let items := ks.map (fun k => RouteQ.pureQ lower ettl s1.down.reg (knownOf (ks.map msgOf)) (msgOf k).questions)
        let tbl := Route.internAll lower s1.down.rest.2.recs
          (dictRecords (answerMap lower ettl s1.down.reg (ks.map msgOf)) ++ RouteQ.stratRecords items)
        (Reply.withinQuarter ((Route.seenOf lower s1.down.cache tbl).get (Route.idOf lower tbl r)) now = true → r'' ∈ keysOf sel.ucast) ∧
        (Reply.withinQuarter ((Route.seenOf lower s1.down.cache tbl).get (Route.idOf lower tbl r)) now = false → r'' ∈ keysOf sel.mcastNow)) := by
  have hD := C15_downQ_ok lower possible ettl orc B I₀ hB
  obtain ⟨hI1, hL1⟩ := run_inv hD sendOK_safe other hO bs (State.init d0) s1 o1 h0 (LInv.init d0) hrun
  obtain ⟨d1, qa, s', out, ha, hrecv, _, _, hsent⟩ :=
    recv_query_answered hD sendOK_safe s1 hI1 hL1 data addr port now draw p hsize hg hp hv hq htc he
  -- names
  generalize hks : (alGet addr s1.deferred).getD [] ++ [(⟨data, now, p, none⟩ : Pkt)] = ks at *
  have hk0 : (⟨data, now, p, none⟩ : Pkt) ∈ ks := by rw [← hks]; simp
  have hqmem : q ∈ questionsOf (ks.map msgOf) := by
    unfold questionsOf
    exact List.mem_flatMap.mpr ⟨msgOf ⟨data, now, p, none⟩, List.mem_map_of_mem hk0, hqq⟩
  -- C03: the strategy of `q` that answers `r`, and `r` in the merged map
  obtain ⟨st0, hst, a, haK, har⟩ := strategy_complete lower ettl (knownOf (ks.map msgOf)) hI1.reg hI1.fresh hs hr hk
  have hdict := answerMap_complete lower ettl hI1.reg hI1.fresh (ks.map msgOf) hqmem hs hr hk
  -- what `answerQ` computes
  have hans : ∃ x : Route.RState × Routed,
      x = RouteQ.routeQ lower s1.down.rest.2 s1.down.cache ks (Gen.Listener.ucast_source port)
            (answerMap lower ettl s1.down.reg (ks.map msgOf))
            (ks.map (fun k => RouteQ.pureQ lower ettl s1.down.reg (knownOf (ks.map msgOf)) (msgOf k).questions)) ∧
      RouteQ.answerQ lower ettl s1.down ks (Gen.Listener.ucast_source port) =
        .ok ({ s1.down with reg := warmed lower s1.down.reg (ks.map msgOf), rest := (s1.down.rest.1, x.1), pending := some x.2 },
             some ⟨setOf lower x.2.ucast, setOf lower x.2.mcastNow, !x.2.aggregate.isEmpty, !x.2.aggregateLast.isEmpty⟩) := by
    refine ⟨_, rfl, ?_⟩
    unfold RouteQ.answerQ
    rcases Zc.respond_ok lower ettl hI1.reg (ks.map msgOf) with ⟨hnil, _⟩ | ⟨_, hrsp⟩
    · exfalso
      have : st0 ∈ strategiesOf lower s1.down.reg (ks.map msgOf) := List.mem_flatMap.mpr ⟨q, hqmem, hst⟩
      rw [hnil] at this; cases this
    · rw [hrsp]
      dsimp only
      rw [RouteQ.perPacket_ok lower ettl hI1.reg]
  obtain ⟨x, hx, hans⟩ := hans
  have ha' : (RouteQ.downQ lower ettl possible orc B).answer s1.down ks (Gen.Listener.ucast_source port) = .ok (d1, qa) := ha
  have ha'' : RouteQ.answerQ lower ettl s1.down ks (Gen.Listener.ucast_source port) = .ok (d1, qa) := ha'
  rw [hans] at ha''
  simp only [Except.ok.injEq, Prod.mk.injEq] at ha''
  obtain ⟨hd1, hqa⟩ := ha''
  obtain ⟨r'', hbeq, hsets, hleg, hqu⟩ := RouteQ.routeQ_reaches lower ettl s1.down.rest.2 s1.down.cache ks (Gen.Listener.ucast_source port)
    (answerMap lower ettl s1.down.reg (ks.map msgOf)) s1.down.reg (knownOf (ks.map msgOf)) hk0 hqq hst haK har hdict
  rw [← hx] at hsets hleg hqu
  refine ⟨x.2, d1, s', out, r'', ?_, ?_, hrecv, ?_, hbeq, hsets, hleg, ?_⟩
  · rw [hans, hd1]
  · rw [← hd1]
  · rw [← hqa] at hsent; exact hsent
  · intro hu hquq
    have hlast : ks.getLast? = some (⟨data, now, p, none⟩ : Pkt) := by rw [← hks]; simp
    exact hqu hu hquq _ hlast

end routedQ

/-! ### non-vacuity: the routing really is per question

One registered service, an empty cache, one query from port 5353 with two questions — `_a._tcp.local. PTR` (QM) and
`x._a._tcp.local. SRV` (QU).  The PTR, answer of the QM question, is aggregated; the SRV, answer of the QU question and not
seen multicast within a quarter of its TTL, is multicast at once (where it also rides along as an additional of the PTR);
nothing is unicast.  With the merged answer map and an attribution that gives every entry to every question, both records
would have been routed by both questions. -/
def exSvcQ : Svc := { type := "_a._tcp.local.", name := "x._a._tcp.local.", server := "h1.local.", port := 80, weight := 0,
                      priority := 0, text := [], hostTtl := 120, otherTtl := 4500, v4 := [[10, 0, 0, 1]], v6 := [] }

def exQueryQ : Survive.Pkt :=
  ⟨[], 5000, ⟨true, { nq := 2 },
    [⟨[[95, 97], [95, 116, 99, 112], [108, 111, 99, 97, 108]], 12, 1⟩,
     ⟨[[120], [95, 97], [95, 116, 99, 112], [108, 111, 99, 97, 108]], 33, 0x8001⟩], []⟩, none⟩

def exStateQ : CState (Unit × Route.RState) := ⟨{}, [], [], [], Registry.run id 4500 [.register exSvcQ], [], [], none, ((), {})⟩

example :
    (match RouteQ.answerQ id 4500 exStateQ [exQueryQ] false with
     | .ok (d, some _) =>
       (match d.pending with
        | some sel => ((keysOf sel.ucast).map (·.type), (keysOf sel.mcastNow).map (·.type), (keysOf sel.aggregate).map (·.type),
                        (keysOf sel.aggregateLast).map (·.type))
        | none => ([], [], [], []))
     | _ => ([], [], [], [])) = ([], [33], [12], []) := by decide +kernel

end Zc
