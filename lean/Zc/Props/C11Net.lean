import Zc.Proofs.ReplyNet
/-! # C11 — the socket-level clauses

The five clauses of C11 that `Props/C11.lean` could not state on `Reply.Out` (one logical destination per datagram, no sockets,
no question list): the unicast reply leaves **on the receiving socket**; a multicast reply is written **to every socket**
(group address of the socket's family, port 5353); a multicast reply has **no question section**; the cache-flush bit is
written **exactly on the unique records, which are exactly the non-PTR ones**; the destination of the unicast reply is the
**complete source sockaddr**, flowinfo and scope id included.  They are theorems about `Model/ReplyNet.lean`
(`asyncSend` / `sendWith` mirror `_core.py::async_send` / `async_send_with_transport`, `mcastContent` / `ucastContent` the two
constructors of `answers.py`, `assemble` the send sites of `handle_assembled_query`), for every host (any number of sockets
of either family), every query, every cache state.  5353, 0x8400, 0x8000, PTR = 12 are the English statement's / RFC's numbers. -/
namespace Zc.Reply.Net
open Zc.Reply

/-- the query was received on a socket of the source address's family (an IPv6 socket hears IPv6 peers, an IPv4 socket IPv4
peers): what the operating system guarantees of `addrs`; without it `can_send_to` refuses the reply -/
def World.SameFamily (w : World) (addr : Nat) : Prop := w.rx.v6 = (w.peer addr).1.hasColon

instance (w : World) (addr : Nat) : Decidable (w.SameFamily addr) := by unfold World.SameFamily; infer_instance

/-! ## clause 1 — "on the receiving socket" (and clause 5, the complete destination) -/

/-- **The unicast reply of a query** (any number of packets and questions, any port, any cache state) is written exactly once,
on the socket the query was received on — whatever other sockets the host has — to the source's host and port (`port or 5353`)
with the source's flowinfo and scope id (the receiving socket's own if the source sockaddr carried none and the socket is IPv6);
it carries the id of the first packet, that packet's questions iff the source port is not 5353, and is not a multicast message. -/
theorem C11_unicast_receiving_socket (w : World) {pkts : List Pkt} {addr port : Nat} {seen : SeenMap} {first : Pkt} {qa : QA}
    (hf : pkts.head? = some first) (hqa : asyncResponse pkts (Gen.Reply.ucast_source port) seen = some qa)
    (hne : qa.ucast.isEmpty = false) (hfam : w.SameFamily addr) :
    (assemble w pkts addr port seen).filter (fun d => !d.packet.multicast) =
      [{ sock := w.rx.id
         dest := { ip := (w.peer addr).1, port := if port = 0 then 5353 else port,
                   fs := if w.rx.v6 && !(w.peer addr).2.isSome then some (w.rx.flow, w.rx.scope) else (w.peer addr).2 }
         packet := { flags := 0x8400, multicast := false, id := first.id
                     questions := if port ≠ 5353 then w.questions first.dataId else []
                     answers := qa.ucast.keys, adds := additionalsOf qa.ucast } }] := by
  have hus : Gen.Reply.ucast_source (port : Int) = decide (port ≠ 5353) := by
    have := Zc.Reply.GenFacts.ucast_source (port : Int)
    by_cases hp : port = 5353
    · subst hp; simp [Gen.Reply.ucast_source]
    · have h1 : Gen.Reply.ucast_source (port : Int) = true := this.mpr (by omega)
      simp [h1, hp]
  rw [assemble_eq w hf hqa, hne, List.filter_append]
  have h2 : (if qa.mcastNow.isEmpty = true then ([] : List (Sent Content)) else multicast w qa.mcastNow).filter
      (fun d => !d.packet.multicast) = [] := by
    rw [List.filter_eq_nil_iff]
    intro d hd
    split at hd
    · cases hd
    · obtain ⟨s, _, _, _, hp⟩ := mem_multicast hd
      simp [hp, mcastContent_multicast]
  rw [h2, List.append_nil]
  simp only [Bool.false_eq_true, if_false, unicast_eq]
  have hfam' : w.rx.v6 = (w.peer addr).1.hasColon := hfam
  rw [if_pos hfam']
  simp only [List.filter_cons, List.filter_nil, ucastContent_multicast, Bool.not_false, if_true]
  simp only [ucastContent, ucastReplyMulticast, Zc.Reply.GenFacts.ans_unicast_multicast_arg, replyDest,
    GenFacts.ans_unicast_flags, GenFacts.ans_unicast_id, Zc.Reply.GenFacts.ans_echo_questions, hus]
  by_cases hp : port = 5353 <;> simp [hp]

/-- whatever the families are: a datagram of the block that is not a multicast message is on the receiving socket -/
theorem C11_unicast_only_receiving_socket (w : World) (pkts : List Pkt) (addr port : Nat) (seen : SeenMap) :
    ∀ d ∈ assemble w pkts addr port seen, d.packet.multicast = false → d.sock = w.rx.id := by
  intro d hd hm
  obtain ⟨first, qa, _, _, ⟨_, hu⟩ | ⟨_, hmc⟩⟩ := mem_assemble hd
  · exact (mem_unicast hu).2.1
  · obtain ⟨s, _, _, _, hp⟩ := mem_multicast hmc
    rw [hp, mcastContent_multicast] at hm; cases hm

/-! ## clause 5 — flowinfo and scope id of the destination -/

/-- a query from a complete IPv6 sockaddr `(host, port, flowinfo, scope_id)` (usable source port): the unicast reply goes to
exactly that sockaddr — same flowinfo, same scope id, not the receiving socket's own -/
theorem C11_unicast_dest_is_source (w : World) {pkts : List Pkt} {addr port : Nat} {seen : SeenMap} {first : Pkt} {qa : QA}
    (hf : pkts.head? = some first) (hqa : asyncResponse pkts (Gen.Reply.ucast_source port) seen = some qa)
    (hne : qa.ucast.isEmpty = false) (hfam : w.SameFamily addr) (hport : port ≠ 0)
    (hfs : w.rx.v6 = true → (w.peer addr).2.isSome = true) :
    ∀ d ∈ assemble w pkts addr port seen, d.packet.multicast = false → d.dest = w.src addr port := by
  intro d hd hm
  have hin : d ∈ (assemble w pkts addr port seen).filter (fun d => !d.packet.multicast) := by
    rw [List.mem_filter]; exact ⟨hd, by simp [hm]⟩
  rw [C11_unicast_receiving_socket w hf hqa hne hfam, List.mem_singleton] at hin
  rw [hin]
  simp only [World.src, hport, if_false]
  cases hv : w.rx.v6
  · simp
  · simp [hfs hv]

/-! ## clause 2 — a multicast reply goes out on every socket -/

/-- **Fan-out.**  One multicast reply (sent at once for a query, or flushed from a queue) is written once on every socket of
`engine.senders`, in order: to the group address of that socket's family, port 5353, on an IPv6 socket with the socket's own
flowinfo and scope id; the same message on each. -/
theorem C11_mcast_fanout (w : World) (d : Dict) :
    multicast w d = w.senders.map (fun s =>
      { sock := s.id
        dest := { ip := if s.v6 then .group6 else .group4, port := 5353, fs := if s.v6 then some (s.flow, s.scope) else none }
        packet := mcastContent d.keys (additionalsOf d) }) := multicast_eq w d

/-- the multicast part of a query's block: every socket, each exactly once -/
theorem C11_mcast_now_every_socket (w : World) {pkts : List Pkt} {addr port : Nat} {seen : SeenMap} {first : Pkt} {qa : QA}
    (hf : pkts.head? = some first) (hqa : asyncResponse pkts (Gen.Reply.ucast_source port) seen = some qa)
    (hne : qa.mcastNow.isEmpty = false) :
    (assemble w pkts addr port seen).filter (fun d => d.packet.multicast) = w.senders.map (fun s =>
      { sock := s.id
        dest := { ip := if s.v6 then .group6 else .group4, port := 5353, fs := if s.v6 then some (s.flow, s.scope) else none }
        packet := mcastContent qa.mcastNow.keys (additionalsOf qa.mcastNow) }) := by
  rw [assemble_eq w hf hqa, hne, List.filter_append]
  have h1 : (if qa.ucast.isEmpty = true then ([] : List (Sent Content)) else unicast w first addr port (Gen.Reply.ucast_source port) qa.ucast).filter
      (fun d => d.packet.multicast) = [] := by
    rw [List.filter_eq_nil_iff]
    intro d hd
    split at hd
    · cases hd
    · rw [(mem_unicast hd).2.2.2, ucastContent_multicast]; simp
  rw [h1, List.nil_append]
  simp only [Bool.false_eq_true, if_false]
  rw [List.filter_eq_self.mpr]
  · exact C11_mcast_fanout w qa.mcastNow
  · intro d hd
    obtain ⟨s, _, _, _, hp⟩ := mem_multicast hd
    rw [hp, mcastContent_multicast]

/-! ## clause 3 — no question section in a multicast reply -/

/-- **Every multicast reply** — whichever records it carries — is built with the response + authoritative flags, as a multicast
message (so C01's encoder writes id 0), and **with an empty question list**: neither `construct_outgoing_multicast_answers` nor
`_add_answers_additionals` calls `add_question` -/
theorem C11_mcast_no_questions (answers adds : List RecId) :
    (mcastContent answers adds).questions = [] ∧ (mcastContent answers adds).flags = 0x8400 ∧
    (mcastContent answers adds).multicast = true ∧ wireId (mcastContent answers adds).multicast (mcastContent answers adds).id = 0 := by
  have hmc : mcastReplyMulticast = true := Zc.Reply.GenFacts.ans_multicast_multicast_arg
  refine ⟨?_, GenFacts.ans_multicast_flags, hmc, ?_⟩
  · simp only [mcastContent, GenFacts.ans_no_add_question, Bool.false_eq_true, if_false]
  · simp [mcastContent, hmc, wireId, Zc.Reply.GenFacts.out_id_zero]

/-- … and that is every multicast message a query's block writes to any socket -/
theorem C11_block_mcast_no_questions (w : World) (pkts : List Pkt) (addr port : Nat) (seen : SeenMap) :
    ∀ d ∈ assemble w pkts addr port seen, d.packet.multicast = true →
      d.packet.questions = [] ∧ d.packet.flags = 0x8400 ∧ wireId d.packet.multicast d.packet.id = 0 := by
  intro d hd hm
  obtain ⟨first, qa, _, _, ⟨_, hu⟩ | ⟨_, hmc⟩⟩ := mem_assemble hd
  · rw [(mem_unicast hu).2.2.2, ucastContent_multicast] at hm; cases hm
  · obtain ⟨s, _, _, _, hp⟩ := mem_multicast hmc
    rw [hp]
    obtain ⟨h1, h2, _, h4⟩ := C11_mcast_no_questions qa.mcastNow.keys (additionalsOf qa.mcastNow)
    exact ⟨h1, h2, h4⟩

/-- the same for a batch flushed from either queue -/
theorem C11_flush_mcast_no_questions (w : World) (b : Dict) :
    ∀ d ∈ multicast w b, d.packet.questions = [] ∧ d.packet.flags = 0x8400 ∧ d.packet.multicast = true ∧
      wireId d.packet.multicast d.packet.id = 0 := by
  intro d hd
  obtain ⟨s, _, _, _, hp⟩ := mem_multicast hd
  rw [hp]
  exact C11_mcast_no_questions b.keys (additionalsOf b)

/-! ## clause 4 — cache-flush bit exactly on the unique records, and those are exactly the non-PTR records -/

/-- **Every record the responder can answer with** (the seven constructor sites; class and `unique` as `DNSEntry._set_class`
stores them) is unique iff it is not a PTR record; its class is IN -/
theorem C11_unique_iff_not_ptr (k : RKind) : (k.unique = true ↔ k.ctorType ≠ 12) ∧ k.rclass = 1 ∧
    k.ctorType ∈ [12, 33, 16, 1, 28, 47] := by
  rw [GenFacts.kind_type, GenFacts.kind_unique, GenFacts.kind_class]
  cases k <;> simp

/-- … so the class field `_write_record_class` writes for it has the cache-flush bit (0x8000), in a multicast message, exactly
when the record is unique, i.e. exactly when it is not a PTR record; in a unicast message never; the class proper (IN) is unchanged -/
theorem C11_flush_bit_iff_not_ptr (k : RKind) :
    (wireClass k.rclass k.unique true ≥ 0x8000 ↔ k.unique = true) ∧
    (wireClass k.rclass k.unique true ≥ 0x8000 ↔ k.ctorType ≠ 12) ∧
    wireClass k.rclass k.unique true % 0x8000 = 1 ∧
    wireClass k.rclass k.unique false = 1 := by
  have hc := GenFacts.kind_class k
  have h1 : (wireClass k.rclass k.unique true ≥ 0x8000 ↔ k.unique = true) ∧ wireClass k.rclass k.unique true % 0x8000 = 1 ∧
      wireClass k.rclass k.unique false = 1 := by
    rw [hc]
    unfold wireClass
    rw [Zc.Reply.GenFacts.out_class_flush, Zc.Reply.GenFacts.out_class_flush, Zc.Reply.GenFacts.out_class_with_flush,
      Zc.Reply.GenFacts.out_class_plain]
    cases k.unique <;> simp
  refine ⟨h1.1, ?_, h1.2.1, h1.2.2⟩
  rw [h1.1]
  exact (C11_unique_iff_not_ptr k).1

/-- the same for any record object built at one of the seven sites (`builtBy`), whatever its name, TTL and rdata -/
theorem C11_record_flush_bit (k : RKind) (r : Wire.Encode.ERecord) (h : builtBy k r = true) :
    (wireClass r.rclass r.unique true ≥ 0x8000 ↔ r.rtype ≠ 12) ∧ wireClass r.rclass r.unique false < 0x8000 := by
  simp only [builtBy, Bool.and_eq_true, beq_iff_eq] at h
  obtain ⟨⟨h1, h2⟩, h3⟩ := h
  rw [h1, h2, h3]
  obtain ⟨_, hb, _, hd⟩ := C11_flush_bit_iff_not_ptr k
  exact ⟨hb, by rw [hd]; decide⟩

/-! ## every block of the host: the logical datagrams of `Host.step`, realised on the sockets

`Props/C11.lean` and `Props/C12*.lean` speak about the logical datagrams `r.outs` of `Host.step` (which records, when).  One equation
carries all of it to the sockets: in every accepted block, from every host state, what is written is exactly — in order — each
logical multicast once per socket of `engine.senders` (group address of the socket's family, port 5353, no questions, id 0,
flags 0x8400), and each logical unicast once on the receiving socket to the complete source sockaddr (`realize`). -/

/-- **Closed form of a block.**  (`QsOK`: the number of questions the routing model was told for the first packet is the length
of the question section the world holds for that datagram.) -/
theorem C11_host_physical (w : World) {h : Host} {e : Ev} {r : StepOut} {ds : List (Sent Content)}
    (hs : step w h e = .ok (r, ds)) (hq : ∀ p, blockFirst h e = some p → w.QsOK p) :
    h.step e = .ok r ∧ ds = r.outs.flatMap (realize w (blockFirst h e)) := step_physical w hs hq

/-- in particular nothing but the receiving socket ever carries a unicast reply, and every multicast message of every block —
immediate or flushed from a queue — is on every socket, without questions -/
theorem C11_host_sockets (w : World) {h : Host} {e : Ev} {r : StepOut} {ds : List (Sent Content)}
    (hs : step w h e = .ok (r, ds)) (hq : ∀ p, blockFirst h e = some p → w.QsOK p) :
    ∀ d ∈ ds, (d.packet.multicast = false → d.sock = w.rx.id) ∧
      (d.packet.multicast = true → d.packet.questions = [] ∧ d.packet.id = 0 ∧ d.packet.flags = 0x8400 ∧
        ∃ a b, Out.mcast a b ∈ r.outs ∧ d.packet.answers = a ∧ d.packet.adds = b ∧
          ∀ s ∈ w.senders, ∃ d' ∈ ds, d'.sock = s.id ∧ d'.dest = groupDest s ∧ d'.packet = d.packet) := by
  obtain ⟨_, rfl⟩ := step_physical w hs hq
  intro d hd
  rw [List.mem_flatMap] at hd
  obtain ⟨o, ho, hd⟩ := hd
  cases o with
  | mcast a b =>
    simp only [realize, List.mem_map] at hd
    obtain ⟨s, _, rfl⟩ := hd
    refine ⟨fun hh => by simp at hh, fun _ => ⟨rfl, rfl, rfl, a, b, ho, rfl, rfl, ?_⟩⟩
    intro s' hs'
    refine ⟨{ sock := s'.id, dest := groupDest s',
              packet := { flags := 0x8400, multicast := true, id := 0, questions := [], answers := a, adds := b } },
      List.mem_flatMap.mpr ⟨_, ho, ?_⟩, rfl, rfl, rfl⟩
    simp only [realize, List.mem_map]
    exact ⟨s', hs', rfl⟩
  | ucast addr port id nq a b =>
    simp only [realize] at hd
    split at hd
    · simp only [List.mem_singleton] at hd
      rw [hd]
      exact ⟨fun _ => rfl, fun hh => by simp at hh⟩
    · cases hd

/-! ## non-vacuity: a host with an IPv4 and two IPv6 sockets; a legacy query arrives on the second IPv6 socket from a
link-local peer with flowinfo 7, scope id 9 -/
def exWorld : World :=
  { senders := [⟨10, false, 0, 0⟩, ⟨11, true, 0, 3⟩, ⟨12, true, 0, 4⟩]
    rx := ⟨12, true, 0, 4⟩
    peer := fun _ => (.peer 1 true, some (7, 9))
    questions := fun _ => [⟨[[95, 97], [108]], 12, 1, false⟩]
    recOf := fun _ => default }

def exPkt : Pkt := { dataId := 1, now := 1000, id := 77, flags := 0, numAuth := 0, nq := 1, q0type := 12,
                     items := [{ qu := false, cands := [{ id := 5, ttl := 4500, adds := [6] }] }], known := [] }

example : exWorld.SameFamily 1 := by decide
example : exWorld.QsOK exPkt := by decide
/-- a whole block: the datagram arrives at a fresh host, is answered by unicast on socket 12 and queued for multicast (one draw) -/
example : (step exWorld {} (.rx 1000 1 40000 1 60 false (.query exPkt) [] [20])).toOption.map (fun x => (x.1.outs, x.2.map (fun d => (d.sock, d.dest)))) =
    some ([Out.ucast 1 40000 77 1 [5] [6]], [(12, ⟨.peer 1 true, 40000, some (7, 9)⟩)]) := by decide
/-- one unicast datagram on socket 12 to the complete source sockaddr with the question echoed; the multicast goes out queued
(PTR question, aggregated), so nothing else leaves in the block -/
example : assemble exWorld [exPkt] 1 40000 [] =
    [{ sock := 12, dest := ⟨.peer 1 true, 40000, some (7, 9)⟩,
       packet := { flags := 0x8400, multicast := false, id := 77, questions := [⟨[[95, 97], [108]], 12, 1, false⟩], answers := [5], adds := [6] } }] := by
  decide
/-- a flushed batch: three datagrams, one per socket, group address of the socket's family, the IPv6 ones with the socket's scope id -/
example : (multicast exWorld [(5, [6])]).map (fun d => (d.sock, d.dest)) =
    [(10, ⟨.group4, 5353, none⟩), (11, ⟨.group6, 5353, some (0, 3)⟩), (12, ⟨.group6, 5353, some (0, 4)⟩)] := by decide
/-- … each of them the same message: multicast format, no question, the batch's answer and its additional -/
example : (multicast exWorld [(5, [6])]).map (·.packet) =
    List.replicate 3 { flags := 0x8400, multicast := true, id := 0, questions := [], answers := [5], adds := [6] } := by decide
/-- a QM question for an address record from port 5353 (single question, type A, never seen): multicast at once on all three sockets,
nothing unicast — and no question section although the query had one -/
example : (assemble exWorld [{ exPkt with q0type := 1 }] 1 5353 []).map (fun d => (d.sock, d.packet.multicast, d.packet.questions.length)) =
    [(10, true, 0), (11, true, 0), (12, true, 0)] := by decide
example : RKind.all.map (fun k => (k.ctorType, k.unique)) = [(12, false), (33, true), (16, true), (1, true), (28, true), (47, true), (12, false)] := by
  decide
example : builtBy .srv { name := [[97]], rtype := 33, rclass := 1, unique := true, ttl := 120, created := 0, rdata := .srv 0 0 80 [[104]] } = true := by
  decide

end Zc.Reply.Net
