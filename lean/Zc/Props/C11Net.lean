import Zc.Proofs.ReplyNet
/-! # C11 — the socket-level clauses

The five clauses of C11 that `Props/C11.lean` could not state on `Reply.Out` (one logical destination per datagram, no sockets,
no question list): the unicast reply leaves **on the receiving socket**; a multicast reply is written **to every socket**
(group address of the socket's family, port 5353); a multicast reply has **no question section**; the cache-flush bit is
written **exactly on the unique records, which are exactly the non-PTR ones**; the destination of the unicast reply is the
**complete source sockaddr**, flowinfo and scope id included.  They are theorems about `Model/ReplyNet.lean`
(`asyncSend` / `sendWith` mirror `_core.py::async_send` / `async_send_with_transport`, `mcastContent` / `ucastContent` the two
constructors of `answers.py`, `assemble` the send sites of `handle_assembled_query`), for every host (any number of sockets
of either family), every query, every cache state.  5353, 0x8400, 0x8000, PTR = 12 are the English statement's / RFC's numbers. -/
namespace Zc.Reply.Net
open Zc.Reply

/-- the query was received on a socket of the source address's family (an IPv6 socket hears IPv6 peers, an IPv4 socket IPv4
peers): what the operating system guarantees of `addrs`; without it `can_send_to` refuses the reply -/
def World.SameFamily (w : World) (addr : Nat) : Prop := w.rx.v6 = (w.peer addr).1.hasColon

instance (w : World) (addr : Nat) : Decidable (w.SameFamily addr) := by unfold World.SameFamily; infer_instance

/-! ## clause 1 — "on the receiving socket" (and clause 5, the complete destination) -/

/-- **The unicast reply of a query** (any number of packets and questions, any port, any cache state) is written exactly once,
on the socket the query was received on — whatever other sockets the host has — to the source's host and port (`port or 5353`)
with the source's flowinfo and scope id (the receiving socket's own if the source sockaddr carried none and the socket is IPv6);
it carries the id of the first packet, that packet's questions iff the source port is not 5353, and is not a multicast message. -/
theorem C11_unicast_receiving_socket (w : World) {pkts : List Pkt} {addr port : Nat} {seen : SeenMap} {first : Pkt} {qa : QA}
    (hf : pkts.head? = some first) (hqa : asyncResponse pkts (Gen.Reply.ucast_source port) seen = some qa)
    (hne : qa.ucast.isEmpty = false) (hfam : w.SameFamily addr) :
    (assemble w pkts addr port seen).filter (fun d => !d.packet.multicast) =
      [{ sock := w.rx.id
         dest := { ip := (w.peer addr).1, port := if port = 0 then 5353 else port,
                   fs := if w.rx.v6 && !(w.peer addr).2.isSome then some (w.rx.flow, w.rx.scope) else (w.peer addr).2 }
         packet := { flags := 0x8400, multicast := false, id := first.id
                     questions := if port ≠ 5353 then w.questions first.dataId else []
                     answers := qa.ucast.keys, adds := additionalsOf qa.ucast } }] := by
  have hus : Gen.Reply.ucast_source (port : Int) = decide (port ≠ 5353) := by
    have := Zc.Reply.GenFacts.ucast_source (port : Int)
    by_cases hp : port = 5353
    · subst hp; simp [Gen.Reply.ucast_source]
    · have h1 : Gen.Reply.ucast_source (port : Int) = true := this.mpr (by omega)
      simp [h1, hp]
  rw [assemble_eq w hf hqa, hne, List.filter_append]
  have h2 : (if qa.mcastNow.isEmpty = true then ([] : List (Sent Content)) else multicast w qa.mcastNow).filter
      (fun d => !d.packet.multicast) = [] := by
    rw [List.filter_eq_nil_iff]
    intro d hd
    split at hd
    · cases hd
    · obtain ⟨s, _, _, _, hp⟩ := mem_multicast hd
      simp [hp, mcastContent_multicast]
  rw [h2, List.append_nil]
  simp only [Bool.false_eq_true, if_false, unicast_eq]
  have hfam' : w.rx.v6 = (w.peer addr).1.hasColon := hfam
  rw [if_pos hfam']
  simp only [List.filter_cons, List.filter_nil, ucastContent_multicast, Bool.not_false, if_true]
  simp only [ucastContent, ucastReplyMulticast, Zc.Reply.GenFacts.ans_unicast_multicast_arg, replyDest,
    GenFacts.ans_unicast_flags, GenFacts.ans_unicast_id, Zc.Reply.GenFacts.ans_echo_questions, hus]
  by_cases hp : port = 5353 <;> simp [hp]

/-- whatever the families are: a datagram of the block that is not a multicast message is on the receiving socket -/
theorem C11_unicast_only_receiving_socket (w : World) (pkts : List Pkt) (addr port : Nat) (seen : SeenMap) :
    ∀ d ∈ assemble w pkts addr port seen, d.packet.multicast = false → d.sock = w.rx.id := by
  intro d hd hm
  obtain ⟨first, qa, _, _, ⟨_, hu⟩ | ⟨_, hmc⟩⟩ := mem_assemble hd
  · exact (mem_unicast hu).2.1
  · obtain ⟨s, _, _, _, hp⟩ := mem_multicast hmc
    rw [hp, mcastContent_multicast] at hm; cases hm

/-! ## clause 5 — flowinfo and scope id of the destination -/

/-- a query from a complete IPv6 sockaddr `(host, port, flowinfo, scope_id)` (usable source port): the unicast reply goes to
exactly that sockaddr — same flowinfo, same scope id, not the receiving socket's own -/
theorem C11_unicast_dest_is_source (w : World) {pkts : List Pkt} {addr port : Nat} {seen : SeenMap} {first : Pkt} {qa : QA}
    (hf : pkts.head? = some first) (hqa : asyncResponse pkts (Gen.Reply.ucast_source port) seen = some qa)
    (hne : qa.ucast.isEmpty = false) (hfam : w.SameFamily addr) (hport : port ≠ 0)
    (hfs : w.rx.v6 = true → (w.peer addr).2.isSome = true) :
    ∀ d ∈ assemble w pkts addr port seen, d.packet.multicast = false → d.dest = w.src addr port := by
  intro d hd hm
  have hin : d ∈ (assemble w pkts addr port seen).filter (fun d => !d.packet.multicast) := by
    rw [List.mem_filter]; exact ⟨hd, by simp [hm]⟩
  rw [C11_unicast_receiving_socket w hf hqa hne hfam, List.mem_singleton] at hin
  rw [hin]
  simp only [World.src, hport, if_false]
  cases hv : w.rx.v6
  · simp
  · simp [hfs hv]

/-! ## clause 2 — a multicast reply goes out on every socket -/

/-- **Fan-out.**  One multicast reply (sent at once for a query, or flushed from a queue) is written once on every socket of
`engine.senders`, in order: to the group address of that socket's family, port 5353, on an IPv6 socket with the socket's own
flowinfo and scope id; the same message on each. -/
theorem C11_mcast_fanout (w : World) (d : Dict) :
    multicast w d = w.senders.map (fun s =>
      { sock := s.id
        dest := { ip := if s.v6 then .group6 else .group4, port := 5353, fs := if s.v6 then some (s.flow, s.scope) else none }
        packet := mcastContent d.keys (additionalsOf d) }) := multicast_eq w d

/-- the multicast part of a query's block: every socket, each exactly once -/
theorem C11_mcast_now_every_socket (w : World) {pkts : List Pkt} {addr port : Nat} {seen : SeenMap} {first : Pkt} {qa : QA}
    (hf : pkts.head? = some first) (hqa : asyncResponse pkts (Gen.Reply.ucast_source port) seen = some qa)
    (hne : qa.mcastNow.isEmpty = false) :
    (assemble w pkts addr port seen).filter (fun d => d.packet.multicast) = w.senders.map (fun s =>
      { sock := s.id
        dest := { ip := if s.v6 then .group6 else .group4, port := 5353, fs := if s.v6 then some (s.flow, s.scope) else none }
        packet := mcastContent qa.mcastNow.keys (additionalsOf qa.mcastNow) }) := by
  rw [assemble_eq w hf hqa, hne, List.filter_append]
  have h1 : (if qa.ucast.isEmpty = true then ([] : List (Sent Content)) else unicast w first addr port (Gen.Reply.ucast_source port) qa.ucast).filter
      (fun d => d.packet.multicast) = [] := by
    rw [List.filter_eq_nil_iff]
    intro d hd
    split at hd
    · cases hd
    · rw [(mem_unicast hd).2.2.2, ucastContent_multicast]; simp
  rw [h1, List.nil_append]
  simp only [Bool.false_eq_true, if_false]
  rw [List.filter_eq_self.mpr]
  · exact C11_mcast_fanout w qa.mcastNow
  · intro d hd
    obtain ⟨s, _, _, _, hp⟩ := mem_multicast hd
    rw [hp, mcastContent_multicast]

/-! ## clause 3 — no question section in a multicast reply -/

/-- **Every multicast reply** — whichever records it carries — is built with the response + authoritative flags, as a multicast
message (so C01's encoder writes id 0), and **with an empty question list**: neither `construct_outgoing_multicast_answers` nor
`_add_answers_additionals` calls `add_question` -/
theorem C11_mcast_no_questions (answers adds : List RecId) :
    (mcastContent answers adds).questions = [] ∧ (mcastContent answers adds).flags = 0x8400 ∧
    (mcastContent answers adds).multicast = true ∧ wireId (mcastContent answers adds).multicast (mcastContent answers adds).id = 0 := by
  have hmc : mcastReplyMulticast = true := Zc.Reply.GenFacts.ans_multicast_multicast_arg
  refine ⟨?_, GenFacts.ans_multicast_flags, hmc, ?_⟩
  · simp only [mcastContent, GenFacts.ans_no_add_question, Bool.false_eq_true, if_false]
  · simp [mcastContent, hmc, wireId, Zc.Reply.GenFacts.out_id_zero]

/-- … and that is every multicast message a query's block writes to any socket -/
theorem C11_block_mcast_no_questions (w : World) (pkts : List Pkt) (addr port : Nat) (seen : SeenMap) :
    ∀ d ∈ assemble w pkts addr port seen, d.packet.multicast = true →
      d.packet.questions = [] ∧ d.packet.flags = 0x8400 ∧ wireId d.packet.multicast d.packet.id = 0 := by
  intro d hd hm
  obtain ⟨first, qa, _, _, ⟨_, hu⟩ | ⟨_, hmc⟩⟩ := mem_assemble hd
  · rw [(mem_unicast hu).2.2.2, ucastContent_multicast] at hm; cases hm
  · obtain ⟨s, _, _, _, hp⟩ := mem_multicast hmc
    rw [hp]
    obtain ⟨h1, h2, _, h4⟩ := C11_mcast_no_questions qa.mcastNow.keys (additionalsOf qa.mcastNow)
    exact ⟨h1, h2, h4⟩

/-- the same for a batch flushed from either queue -/
theorem C11_flush_mcast_no_questions (w : World) (b : Dict) :
    ∀ d ∈ multicast w b, d.packet.questions = [] ∧ d.packet.flags = 0x8400 ∧ d.packet.multicast = true ∧
      wireId d.packet.multicast d.packet.id = 0 := by
  intro d hd
  obtain ⟨s, _, _, _, hp⟩ := mem_multicast hd
  rw [hp]
  exact C11_mcast_no_questions b.keys (additionalsOf b)

/-! ## clause 4 — cache-flush bit exactly on the unique records, and those are exactly the non-PTR records -/

/-- **Every record the responder can answer with** (the seven constructor sites; class and `unique` as `DNSEntry._set_class`
stores them) is unique iff it is not a PTR record; its class is IN -/
theorem C11_unique_iff_not_ptr (k : RKind) : (k.unique = true ↔ k.ctorType ≠ 12) ∧ k.rclass = 1 ∧
    k.ctorType ∈ [12, 33, 16, 1, 28, 47] := by
  rw [GenFacts.kind_type, GenFacts.kind_unique, GenFacts.kind_class]
  cases k <;> simp

/-- … so the class field `_write_record_class` writes for it has the cache-flush bit (0x8000), in a multicast message, exactly
when the record is unique, i.e. exactly when it is not a PTR record; in a unicast message never; the class proper (IN) is unchanged -/
theorem C11_flush_bit_iff_not_ptr (k : RKind) :
    (wireClass k.rclass k.unique true ≥ 0x8000 ↔ k.unique = true) ∧
    (wireClass k.rclass k.unique true ≥ 0x8000 ↔ k.ctorType ≠ 12) ∧
    wireClass k.rclass k.unique true % 0x8000 = 1 ∧
    wireClass k.rclass k.unique false = 1 := by
  have hc := GenFacts.kind_class k
  have h1 : (wireClass k.rclass k.unique true ≥ 0x8000 ↔ k.unique = true) ∧ wireClass k.rclass k.unique true % 0x8000 = 1 ∧
      wireClass k.rclass k.unique false = 1 := by
    rw [hc]
    unfold wireClass
    rw [Zc.Reply.GenFacts.out_class_flush, Zc.Reply.GenFacts.out_class_flush, Zc.Reply.GenFacts.out_class_with_flush,
      Zc.Reply.GenFacts.out_class_plain]
    cases k.unique <;> simp
  refine ⟨h1.1, ?_, h1.2.1, h1.2.2⟩
  rw [h1.1]
  exact (C11_unique_iff_not_ptr k).1

/-- the same for any record object built at one of the seven sites (`builtBy`), whatever its name, TTL and rdata -/
theorem C11_record_flush_bit (k : RKind) (r : Wire.Encode.ERecord) (h : builtBy k r = true) :
    (wireClass r.rclass r.unique true ≥ 0x8000 ↔ r.rtype ≠ 12) ∧ wireClass r.rclass r.unique false < 0x8000 := by
  simp only [builtBy, Bool.and_eq_true, beq_iff_eq] at h
  obtain ⟨⟨h1, h2⟩, h3⟩ := h
  rw [h1, h2, h3]
  obtain ⟨_, hb, _, hd⟩ := C11_flush_bit_iff_not_ptr k
  exact ⟨hb, by rw [hd]; decide⟩

/-! ## non-vacuity: a host with an IPv4 and two IPv6 sockets; a legacy query arrives on the second IPv6 socket from a
link-local peer with flowinfo 7, scope id 9 -/
def exWorld : World :=
  { senders := [⟨10, false, 0, 0⟩, ⟨11, true, 0, 3⟩, ⟨12, true, 0, 4⟩]
    rx := ⟨12, true, 0, 4⟩
    peer := fun _ => (.peer 1 true, some (7, 9))
    questions := fun _ => [⟨[[95, 97], [108]], 12, 1, false⟩]
    recOf := fun _ => default }

def exPkt : Pkt := { dataId := 1, now := 1000, id := 77, flags := 0, numAuth := 0, nq := 1, q0type := 12,
                     items := [{ qu := false, cands := [{ id := 5, ttl := 4500, adds := [6] }] }], known := [] }

example : exWorld.SameFamily 1 := by decide
/-- one unicast datagram on socket 12 to the complete source sockaddr with the question echoed; the multicast goes out queued
(PTR question, aggregated), so nothing else leaves in the block -/
example : assemble exWorld [exPkt] 1 40000 [] =
    [{ sock := 12, dest := ⟨.peer 1 true, 40000, some (7, 9)⟩,
       packet := { flags := 0x8400, multicast := false, id := 77, questions := [⟨[[95, 97], [108]], 12, 1, false⟩], answers := [5], adds := [6] } }] := by
  decide
/-- a flushed batch: three datagrams, one per socket, group address of the socket's family, the IPv6 ones with the socket's scope id -/
example : (multicast exWorld [(5, [6])]).map (fun d => (d.sock, d.dest)) =
    [(10, ⟨.group4, 5353, none⟩), (11, ⟨.group6, 5353, some (0, 3)⟩), (12, ⟨.group6, 5353, some (0, 4)⟩)] := by decide
example : RKind.all.map (fun k => (k.ctorType, k.unique)) = [(12, false), (33, true), (16, true), (1, true), (28, true), (47, true), (12, false)] := by
  decide
example : builtBy .srv { name := [[97]], rtype := 33, rclass := 1, unique := true, ttl := 120, created := 0, rdata := .srv 0 0 80 [[104]] } = true := by
  decide

end Zc.Reply.Net
