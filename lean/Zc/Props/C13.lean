import Zc.Proofs.QueryGen
import Zc.GenFacts.FnHistory
import Zc.GenFacts.FnHistoryRun
import Zc.GenFacts.FnDns
/-! # C13 — queries carry known answers and are not needlessly repeated

Model: `Zc.QueryGen` (`lean/Zc/Model/QueryGen.lean`): `generate_service_query`, the lookup's
`_add_question_with_known_answers` / `_generate_request_query`, `QuestionHistory`, the responder's recording
of QM questions, the bucket grouping, and the request loop of `ServiceInfo.async_request`.
`lower` is an arbitrary `str.lower`; record and question identity are those of C20.
Numbers (half TTL = 500 ms per second of TTL, 999 ms, 1 s, 20 ms jitter floor) are those of the English
property; `GenFacts/History.lean` proves today's constants imply them.

The QU-first / QM-later progression of *browsers* is `C10_startup_four`. -/
namespace Zc
open Zc.QueryGen Zc.GenFacts.History

variable (lower : String → String)

/-- **Known answers are exactly the fresh matching records.**  The known-answer list of a question
`(name, type, class)` at time `now` consists of exactly the cached records of that (case-insensitive) name, type
and class that still have more than half of their TTL left (`now < created + 500·ttl`). -/
theorem C13_known_exact (cache : List Rec) (name : String) (type cls : Nat) (now : Int) (r : Rec) :
    r ∈ knownAnswers lower cache name type cls now ↔
      r ∈ cache ∧ lower r.name = lower name ∧ r.type = type ∧ r.class_ = cls ∧ now < r.created + 500 * r.ttl :=
  mem_knownAnswers lower cache name type cls now r

/-- … each goes on the wire (it is not expired) with its remaining TTL `⌊(created + 1000·ttl − now)/1000⌋` -/
theorem C13_known_ttl (now : Int) (r : Rec) (h : now < r.created + 500 * r.ttl) :
    wireAnswer now r = some (r, ((r.created + 1000 * r.ttl - now) / 1000).toNat) :=
  wireAnswer_fresh now r h

/-- `askType` without its local definitions -/
theorem askType_eq (cache : List Rec) (h : History) (now : Int) (qu : Bool) (ty : String) :
    askType lower cache h now qu ty =
      if (!qu && h.suppresses lower { name := ty, type := 12, class_ := 1, unique := qu } now (knownAnswers lower cache ty 12 1 now)) = true
      then (none, h)
      else (some { q := { name := ty, type := 12, class_ := 1, unique := qu }, known := (knownAnswers lower cache ty 12 1 now), wire := (knownAnswers lower cache ty 12 1 now).filterMap (wireAnswerAt (browserAnswerTime now)) },
            if (!qu) = true then h.add lower { name := ty, type := 12, class_ := 1, unique := qu } now (knownAnswers lower cache ty 12 1 now) else h) := rfl

theorem addQuestion_eq (cache : List Rec) (h : History) (now : Int) (qu : Bool) (name : String) (type cls : Nat) (skip : Bool) :
    addQuestion lower cache h now qu name type cls skip =
      if (skip && !(knownAnswers lower cache name type cls now).isEmpty) = true then (none, h)
      else if qu = true then (some { q := { name, type, class_ := cls, unique := qu }, known := (knownAnswers lower cache name type cls now), wire := (knownAnswers lower cache name type cls now).filterMap (wireAnswerAt (lookupAnswerTime now)) }, h)
      else if h.suppresses lower { name, type, class_ := cls, unique := qu } now (knownAnswers lower cache name type cls now) = true then (none, h)
      else (some { q := { name, type, class_ := cls, unique := qu }, known := (knownAnswers lower cache name type cls now), wire := (knownAnswers lower cache name type cls now).filterMap (wireAnswerAt (lookupAnswerTime now)) },
            h.add lower { name, type, class_ := cls, unique := qu } now (knownAnswers lower cache name type cls now)) := rfl

/-- every question a browser query emits is the PTR/IN question of the type with the QU bit as computed, carries exactly
`knownAnswers`, and **each known answer is put on the wire with its remaining TTL** `⌊(created + 1000·ttl − now)/1000⌋`: the time
handed to `add_answer_at_time` (a translated leaf chain, `GenFacts.browser_answer_time_eq`) is the query time, the encoder's
accept/TTL-field decisions are the translated `answer_accepted` / `ttl_field` leaves (`now ≠ 0`: the clock is never 0) -/
theorem C13_browser_question (cache : List Rec) (h : History) (now : Int) (qu : Bool) (ty : String) (o : QOut)
    (ho : (askType lower cache h now qu ty).1 = some o) :
    o.q = { name := ty, type := 12, class_ := 1, unique := qu } ∧ o.known = knownAnswers lower cache ty 12 1 now ∧
    (now ≠ 0 → o.wire = o.known.map (fun r => (r, ((r.created + 1000 * r.ttl - now) / 1000).toNat))) := by
  rw [askType_eq] at ho
  split at ho
  · cases ho
  · have : some _ = some o := ho
    simp only [Option.some.injEq] at this
    rw [← this]
    exact ⟨rfl, rfl, fun hn => wire_of_known lower cache ty 12 1 now _ (browser_answer_time_eq now) hn⟩

/-- **Suppression, exactly — w.r.t. the history *state*.**  A browser question is omitted iff it is QM and this instance's history
holds the same question with a time at most 999 ms ago and a known-answer list of which every record is among the known answers we
would send.  In particular QU questions are never suppressed.
The history is a dict: it holds the **last** sighting of a question only.  The property's sentence speaks of *any* sighting within
the previous 999 ms; the link between the state and "asked it, or heard it" over whole runs is `C13_run_suppress_iff`
(`Props/C13Run.lean`), and the sentence itself is `C13.suppress_any_sighting_full` — false (finding D13b), proved outside the finding's
class as `C13_suppress_any_sighting_partial`.
Reading, named: "a known-answer list that contained nothing it does not know itself" is read as "nothing it would not list itself as a
known answer *to this question*" (RFC 6762 §7.3: "would not also put in its own Known-Answer Section") — a heard multi-question query
whose list holds records of another question is therefore not covered by our list for this question, although the cache holds them. -/
theorem C13_suppress_iff (cache : List Rec) (h : History) (now : Int) (qu : Bool) (ty : String) :
    (askType lower cache h now qu ty).1 = none ↔
      qu = false ∧ ∃ e, h.get lower { name := ty, type := 12, class_ := 1, unique := qu } = some e ∧ now - e.time ≤ 999 ∧
        ∀ r ∈ e.known, ∃ k ∈ knownAnswers lower cache ty 12 1 now, r.beq lower k = true := by
  rw [askType_eq]
  cases qu with
  | true => simp
  | false =>
    simp only [Bool.not_false, Bool.true_and, true_and]
    by_cases hs : h.suppresses lower { name := ty, type := 12, class_ := 1, unique := false } now (knownAnswers lower cache ty 12 1 now) = true
    · rw [if_pos hs]
      simp only [true_iff]
      exact (suppresses_iff lower h _ now _).1 hs
    · rw [if_neg hs]
      constructor
      · intro hh; cases hh
      · intro hex; exact absurd ((suppresses_iff lower h _ now _).2 hex) hs

theorem C13_qu_never_suppressed (cache : List Rec) (h : History) (now : Int) (ty : String) :
    (askType lower cache h now true ty).1 ≠ none := by
  intro hh
  have := (C13_suppress_iff lower cache h now true ty).1 hh
  simp at this

/-- the same for the questions of a service-info lookup (SRV/TXT are in addition skipped when a fresh answer is cached) -/
theorem C13_lookup_suppress_iff (cache : List Rec) (h : History) (now : Int) (qu : Bool) (name : String) (type cls : Nat) :
    (addQuestion lower cache h now qu name type cls false).1 = none ↔
      qu = false ∧ ∃ e, h.get lower { name, type, class_ := cls, unique := qu } = some e ∧ now - e.time ≤ 999 ∧
        ∀ r ∈ e.known, ∃ k ∈ knownAnswers lower cache name type cls now, r.beq lower k = true := by
  rw [addQuestion_eq]
  cases qu with
  | true => simp
  | false =>
    simp only [Bool.false_and, Bool.false_eq_true, if_false, true_and]
    by_cases hs : h.suppresses lower { name, type, class_ := cls, unique := false } now (knownAnswers lower cache name type cls now) = true
    · rw [if_pos hs]
      simp only [true_iff]
      exact (suppresses_iff lower h _ now _).1 hs
    · rw [if_neg hs]
      constructor
      · intro hh; cases hh
      · intro hex; exact absurd ((suppresses_iff lower h _ now _).2 hex) hs

theorem C13_lookup_question (cache : List Rec) (h : History) (now : Int) (qu : Bool) (name : String) (type cls : Nat)
    (skip : Bool) (o : QOut) (ho : (addQuestion lower cache h now qu name type cls skip).1 = some o) :
    o.q = { name, type, class_ := cls, unique := qu } ∧ o.known = knownAnswers lower cache name type cls now ∧
    (now ≠ 0 → o.wire = o.known.map (fun r => (r, ((r.created + 1000 * r.ttl - now) / 1000).toNat))) := by
  rw [addQuestion_eq] at ho
  split at ho
  · cases ho
  · split at ho
    · have : some _ = some o := ho
      simp only [Option.some.injEq] at this
      rw [← this]
      exact ⟨rfl, rfl, fun hn => wire_of_known lower cache name type cls now _ (lookup_answer_time_eq now) hn⟩
    · split at ho
      · cases ho
      · have : some _ = some o := ho
        simp only [Option.some.injEq] at this
        rw [← this]
        exact ⟨rfl, rfl, fun hn => wire_of_known lower cache name type cls now _ (lookup_answer_time_eq now) hn⟩

/-- **History update.**  Asking a QM question records `(now, known answers)` under that question; a QU question or
a suppressed one leaves the history untouched; a responder that hears a QM question it can answer
(`canAnswer = true`: it has an answer strategy, i.e. is authoritative) records it with the known answers of the query; a QU
question, or one it cannot answer, is not recorded. -/
theorem C13_history_upd (cache : List Rec) (h : History) (now : Int) (ty : String) :
    ((askType lower cache h now true ty).2 = h) ∧
    ((askType lower cache h now false ty).1 = none → (askType lower cache h now false ty).2 = h) ∧
    ((askType lower cache h now false ty).1 ≠ none →
      (askType lower cache h now false ty).2.get lower { name := ty, type := 12, class_ := 1, unique := false }
        = some { q := { name := ty, type := 12, class_ := 1, unique := false }, time := now,
                 known := knownAnswers lower cache ty 12 1 now }) ∧
    (∀ q known, q.unique = false → (responderHears lower true h q now known).get lower q = some { q, time := now, known }) ∧
    (∀ q known, q.unique = true → responderHears lower true h q now known = h) ∧
    (∀ q known, responderHears lower false h q now known = h) := by
  refine ⟨?_, ?_, ?_, ?_, ?_, fun q known => by simp [responderHears]⟩
  · rw [askType_eq]; simp
  · rw [askType_eq]
    by_cases hs : h.suppresses lower { name := ty, type := 12, class_ := 1, unique := false } now (knownAnswers lower cache ty 12 1 now) = true
    · simp [hs]
    · simp [hs]
  · rw [askType_eq]
    by_cases hs : h.suppresses lower { name := ty, type := 12, class_ := 1, unique := false } now (knownAnswers lower cache ty 12 1 now) = true
    · simp [hs]
    · intro _
      simp only [Bool.not_false, Bool.true_and, hs, if_false, if_true, Bool.false_eq_true]
      exact get_add lower h _ now _
  · intro q known hq
    simp only [responderHears, hq, Bool.not_false, Bool.and_self, if_true]
    exact get_add lower h q now known
  · intro q known hq
    simp [responderHears, hq]

/-- **Every QM ask (re)stamps the history, whatever was stored before.**  After a QM question was asked at `now` (not suppressed)
— also when the history already held it with the very same known answers — the same question asked at `now'` at most 999 ms later,
with a known-answer list covering the one sent at `now`, is suppressed.  (So asks at `T0`, `T0+1000` and `T0+1500` with equal
known answers: the third is suppressed by the second.) -/
theorem C13_repeat_suppressed (cache cache' : List Rec) (h : History) (now now' : Int) (ty : String)
    (hasked : (askType lower cache h now false ty).1 ≠ none) (hgap : now' - now ≤ 999)
    (hcov : ∀ r ∈ knownAnswers lower cache ty 12 1 now, ∃ k ∈ knownAnswers lower cache' ty 12 1 now', r.beq lower k = true) :
    (askType lower cache' (askType lower cache h now false ty).2 now' false ty).1 = none := by
  rw [C13_suppress_iff]
  exact ⟨rfl, _, (C13_history_upd lower cache h now ty).2.2.1 hasked, hgap, hcov⟩

/-- **A heard QM question is remembered regardless of what the responder answers.**  `responderHears` has no access to the
answer set: after hearing the PTR question of `ty` (QM) at `now` with the peer's known answers `known`, this instance's own QM
question at most 999 ms later is suppressed whenever it knows every record of `known` — in particular when the peer's list
suppressed every answer the responder had. -/
theorem C13_heard_suppressed (cache' : List Rec) (h : History) (now now' : Int) (ty : String) (known : List Rec)
    (hgap : now' - now ≤ 999)
    (hcov : ∀ r ∈ known, ∃ k ∈ knownAnswers lower cache' ty 12 1 now', r.beq lower k = true) :
    (askType lower cache' (responderHears lower true h { name := ty, type := 12, class_ := 1, unique := false } now known) now' false ty).1 = none := by
  rw [C13_suppress_iff]
  exact ⟨rfl, _, (C13_history_upd lower [] h now ty).2.2.2.1 _ known rfl, hgap, hcov⟩

/-- **The clean-up tick is invisible.**  `AsyncEngine._async_cache_cleanup` calls `question_history.async_expire(now)`
(`History.cleanupTick`; the call and its argument are a translated leaf), which deletes entries older
than 999 ms; for a history that is a dict (`History.Keyed`: one entry per question — kept by `add` and `expire`, true of the empty
history) expiring at any `t ≤ now` changes no later decision of `askType`: "asked at T, clean-up at T+500, asked at T+900 ⇒
suppressed" composes from `C13_repeat_suppressed` and this. -/
theorem C13_cleanup_invisible (cache : List Rec) (h : History) (t now : Int) (qu : Bool) (ty : String)
    (hk : History.Keyed lower h) (ht : t ≤ now) :
    (askType lower cache (h.expire t) now qu ty).1 = (askType lower cache h now qu ty).1 ∧
    History.Keyed lower (h.expire t) ∧
    (∀ q now' known, History.Keyed lower (h.add lower q now' known)) ∧ History.Keyed lower [] ∧
    h.cleanupTick t = h.expire t := by
  refine ⟨?_, keyed_expire lower hk t, fun q now' known => keyed_add lower hk q now' known, by simp [History.Keyed],
    by unfold History.cleanupTick; rw [cleanup_expire_time_eq]⟩
  rw [askType_eq, askType_eq, suppresses_expire lower hk t now ht]
  split <;> rfl

/-- every generated request — also one whose questions were all suppressed, so that nothing was transmitted — clears
`first_request`: "first QU, later QM" counts generated requests; the oracle counts transmitted datagrams (with a forced QM first
request that is silent, the first *transmitted* query is the second request; both readings agree that it is QM) -/
theorem C13_first_cleared (l : Loop) (forced : Option Bool) (now : Int) (d : Nat) (qu : Bool) (l1 : Loop)
    (h : l.iter forced now d = (.ask qu, l1)) : l1.first = false ∧ qu = iterQu forced l.first := by
  rcases iter_cases l forced now d with ⟨h1, _⟩ | ⟨h1, _⟩ | ⟨_, h1⟩
  · rw [h1] at h; cases h
  · rw [h1] at h; cases h
  · rw [h1] at h
    simp only [Prod.mk.injEq, Iter.ask.injEq] at h
    rw [← h.2]; exact ⟨rfl, h.1.symm⟩

/-- **Lookup progression.**  The first request of a lookup is QU unless a type is forced (then the forced type); every
later one is QM. -/
theorem C13_progression (forced : Option Bool) :
    iterQu forced true = forced.getD true ∧ iterQu forced false = false := by
  simp [iterQu]

/-- the state at the top of the loop, in numbers: 200 ms initial delay, deadline `now + timeout` -/
theorem C13_loop_init (now timeout : Int) :
    Loop.init now timeout = { first := true, delay := 200, next := now, last := now + timeout } := by
  simp [Loop.init, listenerTime_eq, Gen.LookupLoop.last_time]

/-- requests are spaced at least `gap` apart from the `k`-th one on (`k` counted from 0) -/
def C13.SpacedAfter (gap : Int) (k : Nat) (asks : List (Int × Bool)) : Prop :=
  ∀ i, k ≤ i → ∀ a b, asks[i]? = some a → asks[i + 1]? = some b → a.1 + gap ≤ b.1

/-- the full-strength spacing clause: every gap after the second request is at least one second -/
def C13.lookup_spacing_full : Prop :=
  ∀ (forced : Option Bool) (now timeout : Int) (es : List (Int × Nat)), (∀ e ∈ es, 20 ≤ e.2) →
    C13.SpacedAfter 1000 1 (Loop.asks forced (Loop.init now timeout) es)

/-- **false today (D13)**: `delay` is raised to 999 only after `next_` was computed from the old 200 ms, so the
third request can follow the second by 220 ms.  (Whether that request is *transmitted* depends on the question
history; the replay in `known_findings.json` shows a transmitted one: the SRV arrived in between.) -/
theorem C13_lookup_spacing_refuted : ¬ C13.lookup_spacing_full := by
  intro h
  have := h none 0 3000 [(0, 20), (220, 20), (440, 20)] (by decide) 1 (Nat.le_refl _) (220, false) (440, false)
    (by decide) (by decide)
  omega

theorem spacedFrom_spacedAfter {gap lo : Int} : ∀ {l : List (Int × Bool)}, SpacedFrom gap lo l → C13.SpacedAfter gap 0 l
  | [], _ => by intro i _ a b ha; simp at ha
  | [x], _ => by
    intro i _ a b _ hb
    cases i <;> simp at hb
  | x :: y :: rest, hs => by
    intro i hi a b ha hb
    cases i with
    | zero =>
      simp only [List.getElem?_cons_zero, Option.some.injEq, Nat.zero_add, List.getElem?_cons_succ] at ha hb
      rw [← ha, ← hb]; exact hs.2.1
    | succ j =>
      simp only [List.getElem?_cons_succ] at ha hb
      exact spacedFrom_spacedAfter (l := y :: rest) hs.2 j (Nat.zero_le _) a b ha hb

/-- **Lookup spacing (partial: D13).**  Once the loop has made its first QM request (`first = false`,
`delay = 999` — after the second request in general, after the first when QM is forced), every further request is
QM and at least 1019 ms ≥ 1 s after the previous one, whatever wakes the loop up (own timer or arriving records),
provided every jitter draw is ≥ 20 ms.  Missing for the full clause: the **whole** gap between the second and the third *generated*
request — the theorem is silent about every third request, which is generated 200 ms + jitter after the second whenever the lookup is not
forced to QM (`C13_lookup_spacing_refuted`).  Finding D13 is the part of that region that reaches the wire: a third request that is **not a
duplicate** of the second.  A duplicate third request is generated just as early but is silent: each question the second request
transmitted is dropped from the third unless its known-answer list shrank — `C13_lookup_repeat_suppressed` (`Props/C13Run.lean`), per
question; the composition of `Loop.asks` with `requestQuery` over whole requests is not proved, the oracle separates the two cases on the
decoded datagrams. -/
theorem C13_lookup_spacing_partial (forced : Option Bool) (es : List (Int × Nat)) (l : Loop)
    (hf : l.first = false) (hd : l.delay = 999) (hdr : ∀ e ∈ es, 20 ≤ e.2) :
    C13.SpacedAfter 1000 0 (Loop.asks forced l es) ∧ (∀ a ∈ Loop.asks forced l es, a.2 = false) ∧
    (∀ a ∈ Loop.asks forced l es, l.next ≤ a.1) := by
  have h := asks_regime forced es l hf hd hdr
  refine ⟨?_, h.2, ?_⟩
  · intro i hi a b ha hb
    have := spacedFrom_spacedAfter h.1 i hi a b ha hb
    omega
  · intro a ha
    have hs := h.1
    generalize Loop.asks forced l es = L at ha hs
    clear h
    induction L generalizing l with
    | nil => simp at ha
    | cons x rest ih =>
      rcases List.mem_cons.1 ha with rfl | ha
      · exact hs.1
      · have : SpacedFrom 1019 l.next rest := spacedFrom_mono (by have := hs.1; omega) hs.2
        exact ih l hf hd ha this

/-- the one-second regime is reached: after a QM request the loop state has `first = false`, `delay = 999`
(so `C13_lookup_spacing_partial` applies from then on) -/
theorem C13_regime_reached (l : Loop) (forced : Option Bool) (now : Int) (d : Nat) (l1 : Loop)
    (hd : l.delay = 200 ∨ l.delay = 999) (h : l.iter forced now d = (.ask false, l1)) :
    l1.first = false ∧ l1.delay = 999 := by
  rcases iter_cases l forced now d with ⟨h1, _⟩ | ⟨h1, _⟩ | ⟨_, h1⟩
  · rw [h1] at h; cases h
  · rw [h1] at h; cases h
  · rw [h1] at h
    simp only [Prod.mk.injEq, Iter.ask.injEq] at h
    rw [← h.2, h.1]
    refine ⟨rfl, ?_⟩
    simp only
    rcases hd with hd | hd <;> rw [hd] <;> simp

/-- **Split over packets (partial).**  The bucket grouping puts every question (with its known answers) into exactly
one outgoing message: the buckets' contents are a permutation of the input (true of any placement: the content of this theorem is only
that nothing is lost or doubled by the grouping).  "Partial" here is not a finding but an open clause: the size estimates are inputs, and
the TC bit and the packet boundaries inside one message are `DNSOutgoing.packets()` — C14's model, composed with the query messages of
browsers **and lookups** in `C13_split_on_wire_partial` (`Props/C13Run.lean`; its hypotheses are C14's well-formedness conditions on the
message).  The harness checks TC bits, sizes, completeness and TTLs on the real packets of browser queries (`svc`) and of lookup
queries (`req`, `loop` with 60–300 cached address records). -/
theorem C13_split_partial (m : Nat) (items : List (Nat × QOut)) :
    ((group m items).flatMap (·.items)).Perm items := by
  have := foldl_place_perm m items []
  simp only [List.flatMap_nil, List.append_nil] at this
  exact this.trans (List.reverse_perm items)

/-! ### non-vacuity -/

/-- a history entry 999 ms old with a covered known-answer list suppresses; 1000 ms old does not -/
example :
    let q : Question := { name := "_x._tcp.local.", type := 12, class_ := 1, unique := false }
    let r : Rec := { name := "_x._tcp.local.", type := 12, class_ := 1, unique := false, ttl := 4500, created := 0, rdata := .ptr "a._x._tcp.local." }
    (askType id [r] [{ q, time := 1000, known := [r] }] 1999 false "_x._tcp.local.").1.isNone = true ∧
    (askType id [r] [{ q, time := 1000, known := [r] }] 2000 false "_x._tcp.local.").1.isSome = true ∧
    (askType id [] [{ q, time := 1000, known := [r] }] 1999 false "_x._tcp.local.").1.isSome = true := by
  decide

/-- lookup side: with a fresh SRV cached the SRV question is not asked; with a stale one it is asked, with an empty known list;
known answers go out with their remaining TTL (4500 s record, 1000 s old: 3500) -/
example :
    let srv (created : Int) : Rec := { name := "d._x._tcp.local.", type := 33, class_ := 1, unique := true, ttl := 120, created, rdata := .srv 0 0 80 "h.local." }
    let a : Rec := { name := "h.local.", type := 1, class_ := 1, unique := true, ttl := 4500, created := 1000, rdata := .addr [10, 0, 0, 1] none }
    (addQuestion id [srv 1000000] [] 1001000 false "d._x._tcp.local." 33 1 true).1.isNone = true ∧
    ((addQuestion id [srv 900000] [] 1001000 false "d._x._tcp.local." 33 1 true).1.map (·.known.length)) = some 0 ∧
    ((addQuestion id [a] [] 1001000 false "h.local." 1 1 false).1.map (fun o => o.wire.map (·.2))) = some [3500] := by
  decide

/-- the hypotheses of `C13_heard_suppressed` are satisfiable: the peer lists one record we hold fresh -/
example :
    let r : Rec := { name := "_x._tcp.local.", type := 12, class_ := 1, unique := false, ttl := 4500, created := 0, rdata := .ptr "a._x._tcp.local." }
    (1500 : Int) - 1000 ≤ 999 ∧ (∀ x ∈ [r], ∃ k ∈ knownAnswers id [r] "_x._tcp.local." 12 1 1500, x.beq id k = true) ∧
    (askType id [r] (responderHears id true [] { name := "_x._tcp.local.", type := 12, class_ := 1, unique := false } 1000 [r]) 1500 false "_x._tcp.local.").1.isNone = true := by
  decide

example : Loop.asks none (Loop.init 0 3000) [(0, 20), (220, 20), (440, 20), (1459, 120)] = [(0, true), (220, false), (440, false), (1459, false)] := by
  decide

/-! ## Tie: the source of `_history.py`, translated statement by statement on every run

`Zc.GenFn.History` is regenerated from the *bodies* of `QuestionHistory`'s methods (`tools/gen_fn.py`);
`GenFacts/FnHistory.lean` proves that the hand-written `History` model above computes what those bodies compute.
**What this transports**: the suppression clause (the iff of `suppresses`) and the exactness facts below are stated of the
generated functions themselves, and `C13_history_is_source` says the model's history is the translated one along every sequence of
`add_question_at_time`/`async_expire`/`clear`; a change in a method body that changes what it computes breaks a named lemma of
`FnHistory` at stage P.  **Callers** (`GenFacts/FnHistoryRun.lean`): `askTypeG`, `serviceQueryG`, `serviceQuestionsG`, `addQuestionG`, `requestQueryG` are the
query generators with the *generated* `QuestionHistory` and the translated `suppresses` / `add_question_at_time`; under `Sim` they emit
what the model's emit and leave corresponding histories (`C13_generators_are_source`), hence `C13_ask_suppress_iff_source` here and
`C13_service_query_source`, `C13_request_query_source` in `Props/C13Run.lean`.  **What it does not**: the generators themselves (the loop
over the types, the four lookup questions, the known-answer selection) and the query handler's use of `suppresses` remain hand-written
models around the translated history. -/
section Tie
open Zc.Py Zc.GenFn.History Zc.GenFacts.FnHistory

/-- **Suppression, exactly — for the translated `QuestionHistory.suppresses`.**  On any dict `_history` the generated function
answers `True` iff the dict holds the question with a time at most 999 ms back and a known-answer set of which every
record is among the known answers offered now. -/
theorem C13_suppress_iff_source (s : QuestionHistory) (q : Question) (now : Int) (known : List Rec) :
    s.suppresses lower q now known = true ↔
      ∃ t prev, PyDict.get? (Question.beq lower) s.history q = some (t, prev) ∧ now - t ≤ 999 ∧
        ∀ r ∈ prev, ∃ k ∈ known, r.beq lower k = true := by
  rw [suppresses_eq, suppresses_iff, get?_eq_get]
  constructor
  · rintro ⟨e, he, h1, h2⟩
    exact ⟨e.time, e.known, by rw [he]; rfl, h1, h2⟩
  · rintro ⟨t, prev, he, h1, h2⟩
    cases hg : History.get lower (absH { history := s.history }) q with
    | none => rw [hg] at he; cases he
    | some e =>
      rw [hg] at he
      simp only [Option.map_some, Option.some.injEq, Prod.mk.injEq] at he
      exact ⟨e, rfl, by rw [he.1]; exact h1, by rw [he.2]; exact h2⟩

/-- **The model's history is the translated code's, along every sequence of calls** (`add_question_at_time`, `async_expire`,
`clear` in any order, from the empty history): the translated code never raises (`async_expire`'s `del` finds its key), the
model list has one entry per question, and every later `suppresses` decision of the model is the translated function's. -/
theorem C13_history_is_source (ops : List HOp) :
    ∃ s, runGen lower ops QuestionHistory.init = .ok s ∧ History.Keyed lower (runModel lower ops []) ∧
      ∀ q now known, s.suppresses lower q now known = (runModel lower ops []).suppresses lower q now known := by
  obtain ⟨s, h1, h2⟩ := run_sim lower ops (sim_init lower)
  exact ⟨s, h1, h2.2.1, fun q now known => sim_suppresses lower h2 q now known⟩

/-- **Known answers, with the translated `DNSRecord.is_stale`** (`GenFn/Dns.lean`, the whole method body): the known-answer
list consists of exactly the cached records of that name, type and class on which the translated `is_stale(now)` answers `False`. -/
theorem C13_known_exact_source (cache : List Rec) (name : String) (type cls : Nat) (now : Int) (r : Rec) :
    r ∈ knownAnswers lower cache name type cls now ↔
      r ∈ cache ∧ lower r.name = lower name ∧ r.type = type ∧ r.class_ = cls ∧ Zc.GenFn.Dns.DNSRecord.is_stale r now = false := by
  rw [C13_known_exact, Zc.GenFacts.FnDns.is_stale_eq]
  have : r.isStale now = false ↔ now < r.created + 500 * r.ttl := by
    rw [← Bool.not_eq_true, Rec.isStale, is_stale_iff]; omega
  rw [this]

/-- … and each goes on the wire with the floor of what the translated `get_remaining_ttl(now)` returns -/
theorem C13_known_ttl_source (now : Int) (r : Rec) (h : now < r.created + 500 * r.ttl) :
    wireAnswer now r = some (r, (Zc.GenFn.Dns.DNSRecord.get_remaining_ttl r now).toNat) := by
  rw [Zc.GenFacts.FnDns.get_remaining_ttl_eq, C13_known_ttl now r h, Rec.remainingTtl, remaining_ttl_eq _ _ _ (by omega)]

/-- non-vacuity: a question recorded 999 ms ago with a covered known-answer set suppresses, at 1000 ms it does not -/
example :
    let q : Question := { name := "_x._tcp.local.", type := 12, class_ := 1, unique := false }
    let r : Rec := { name := "_x._tcp.local.", type := 12, class_ := 1, unique := false, ttl := 4500, created := 0, rdata := .ptr "a._x._tcp.local." }
    let s := QuestionHistory.add_question_at_time id QuestionHistory.init q 1000 [r]
    s.suppresses id q 1999 [r] = true ∧ s.suppresses id q 2000 [r] = false ∧ s.suppresses id q 1999 [] = false := by
  decide

open Zc.GenFacts.FnHistoryRun in
/-- **C13_suppress_iff, for the query generator over the translated history.**  `askTypeG` is `askType` (the body of the type loop of
`generate_service_query`) with the generated `QuestionHistory` and the translated `suppresses` / `add_question_at_time`: on any
`_history` dict, a browser question is omitted iff it is QM and the dict holds the question with a time at most 999 ms back and a
known-answer set of which every record is among the known answers we would send -/
theorem C13_ask_suppress_iff_source (cache : List Rec) (s : QuestionHistory) (hwf : WFH lower s) (now : Int) (qu : Bool) (ty : String) :
    (askTypeG lower cache s now qu ty).1 = none ↔
      qu = false ∧ ∃ t prev, PyDict.get? (Question.beq lower) s.history { name := ty, type := 12, class_ := 1, unique := qu } = some (t, prev)
        ∧ now - t ≤ 999 ∧ ∀ r ∈ prev, ∃ k ∈ knownAnswers lower cache ty 12 1 now, r.beq lower k = true := by
  have hs := sim_absH lower s hwf
  rw [(askTypeG_sim lower hs cache now qu ty).1, C13_suppress_iff, get?_eq_get]
  constructor
  · rintro ⟨hq, e, he, h1, h2⟩
    exact ⟨hq, e.time, e.known, by rw [he]; rfl, h1, h2⟩
  · rintro ⟨hq, t, prev, he, h1, h2⟩
    cases hg : History.get lower (absH s) { name := ty, type := 12, class_ := 1, unique := qu } with
    | none => rw [hg] at he; cases he
    | some e =>
      rw [hg] at he
      simp only [Option.map_some, Option.some.injEq, Prod.mk.injEq] at he
      exact ⟨hq, e, rfl, by rw [he.1]; exact h1, by rw [he.2]; exact h2⟩

open Zc.GenFacts.FnHistoryRun in
/-- **The query generator over the translated history emits what the model emits and leaves the model's history**, for the browser
loop, the collected browser questions, one lookup question and the four lookup questions — under `Sim` (the generated dict holds the
model's entries; `C13_history_is_source`: true along every sequence of history calls from the empty history) -/
theorem C13_generators_are_source {s : QuestionHistory} {h : History} (hs : Sim lower s h) (cache : List Rec) (now : Int) (qu : Bool) :
    (∀ ty, (askTypeG lower cache s now qu ty).1 = (askType lower cache h now qu ty).1
        ∧ Sim lower (askTypeG lower cache s now qu ty).2 (askType lower cache h now qu ty).2)
    ∧ (∀ tys, (serviceQuestionsG lower cache now qu tys s).1 = (serviceQuestions lower cache now qu tys h).1
        ∧ (serviceQueryG lower cache now qu tys s).1 = (serviceQuery lower cache now qu tys h).1
        ∧ Sim lower (serviceQuestionsG lower cache now qu tys s).2 (serviceQuestions lower cache now qu tys h).2)
    ∧ (∀ name type cls skip, (addQuestionG lower cache s now qu name type cls skip).1 = (addQuestion lower cache h now qu name type cls skip).1
        ∧ Sim lower (addQuestionG lower cache s now qu name type cls skip).2 (addQuestion lower cache h now qu name type cls skip).2)
    ∧ (∀ name server, (requestQueryG lower cache s now qu name server).1 = (requestQuery lower cache h now qu name server).1
        ∧ Sim lower (requestQueryG lower cache s now qu name server).2 (requestQuery lower cache h now qu name server).2) :=
  ⟨fun ty => askTypeG_sim lower hs cache now qu ty,
   fun tys => ⟨(serviceQuestionsG_sim lower cache now qu tys hs).1, (serviceQueryG_sim lower cache now qu tys hs).1,
     (serviceQuestionsG_sim lower cache now qu tys hs).2⟩,
   fun name type cls skip => addQuestionG_sim lower hs cache now qu name type cls skip,
   fun name server => requestQueryG_sim lower hs cache now qu name server⟩

end Tie

end Zc
