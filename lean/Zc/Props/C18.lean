import Zc.Proofs.Lookup
import Zc.Proofs.LookupRead
/-! # C18 — service-info lookup: bounded, cache-first, never from expired data

The lookup (`AsyncServiceInfo.async_request`) is the block machine `Zc.Lookup.step`
(`lean/Zc/Model/Lookup.lean`): `start` (the call up to its first `await`/`return`), `update`
(`async_update_records` called by the record manager) and `resume` (after `await self.async_wait`).
Each block carries *everything it reads* as an input — the cache's key objects, the question
history, the clock, the jitter draw — so the theorems below quantify over **all** cache states,
histories, arriving record lists, arrival times and draws, not over what a generator reached.
`run` accepts a block sequence only if it respects the event-loop axioms (DESIGN §4.7): time does
not go backwards, a sleeping task is resumed no later than its timer's due time, and only at that
time unless an update woke it, draws lie in the interval the code requested.

`lower` is `str.lower`, an arbitrary function. -/
namespace Zc
open Zc.Lookup

variable (lower : String → String)

/-! ## returns no later than its timeout -/

/-- **Deadline.** A lookup started at `t0` with `timeout ≥ 0`: every block of every run — in
particular the one that returns — happens at a time `≤ t0 + timeout`; whenever it goes to sleep the
sleep is positive and ends by `t0 + timeout`; and a resumption at `t0 + timeout` returns.  (With the
loop axiom that the clock never passes a due timer this is "returns no later than its timeout".) -/
theorem C18_deadline (name : String) (timeout : Int) (forced : Nat) (h0 : 0 ≤ timeout)
    (t0 : Int) (c : Cache) (h : Hist) (d : Int) (rest : List Block) (s' : Req) (outs : List (Block × Out))
    (hrun : run lower (Req.init lower name timeout forced) (.start t0 c h d :: rest) = some (s', outs)) :
    ∀ p ∈ outs,
      p.1.now ≤ t0 + timeout ∧
      (∀ w, p.2.wait = some w → 0 < w ∧ p.1.now + w ≤ t0 + timeout) ∧
      (∀ n c' h' d', p.1 = .resume n c' h' d' → t0 + timeout ≤ n → p.2.ret ≠ none) := by
  rcases run_idle_cases lower _ rfl _ s' outs hrun with ⟨hb, -⟩ | ⟨t0', c', h', d', rest', s1, o1, outs', hb, hs1, hr1, ho⟩
  · exact absurd hb (by simp)
  · simp only [List.cons.injEq, Block.start.injEq] at hb
    obtain ⟨⟨rfl, rfl, rfl, rfl⟩, rfl⟩ := hb
    obtain ⟨i1, i2, -, i4⟩ := start_inv lower _ t0 c h d s1 o1 h0 hs1
    have hall := run_all lower (P := fun s => Inv t0 s ∧ s.timeout = timeout) (Q := SchedOk t0 timeout)
      (fun s b s2 o hp hs => by
        obtain ⟨j1, j2, -, j4⟩ := step_inv lower t0 s b s2 o hp.1 hs
        rw [hp.2] at j2 j4
        exact ⟨⟨j1, j2⟩, j4⟩) rest s1 s' outs' ⟨i1, i2⟩ hr1
    intro p hp
    rw [ho] at hp
    simp only [List.mem_cons] at hp
    rcases hp with rfl | hp
    · exact i4
    · exact hall.2 p hp

/-- the return itself is no later than the timeout -/
theorem C18_returns_by_timeout (name : String) (timeout : Int) (forced : Nat) (h0 : 0 ≤ timeout)
    (t0 : Int) (c : Cache) (h : Hist) (d : Int) (rest : List Block) (s' : Req) (outs : List (Block × Out))
    (hrun : run lower (Req.init lower name timeout forced) (.start t0 c h d :: rest) = some (s', outs))
    (b : Block) (o : Out) (r : Bool) (hb : (b, o) ∈ outs) (_hr : o.ret = some r) : b.now - t0 ≤ timeout := by
  have := (C18_deadline lower name timeout forced h0 t0 c h d rest s' outs hrun (b, o) hb).1
  simp only at this
  omega

/-! ## succeeds iff it knows an address -/

/-- **Success iff an address is known.** In every run from any state, the block that returns `r` has
`r = true` exactly when the info object then holds at least one address; nothing happens afterwards,
so these are the addresses the caller sees. -/
theorem C18_iff (s : Req) (bs : List Block) (s' : Req) (outs : List (Block × Out))
    (hrun : run lower s bs = some (s', outs)) (b : Block) (o : Out) (r : Bool)
    (hb : (b, o) ∈ outs) (hr : o.ret = some r) :
    (r = true ↔ o.info.v4 ≠ [] ∨ o.info.v6 ≠ []) ∧ s'.info = o.info ∧ s'.phase = .done r := by
  obtain ⟨h1, h2, h3⟩ := run_ret_final lower bs s s' outs hrun (b, o) hb r hr
  refine ⟨?_, h2, h3⟩
  simp only at h1
  rw [h1, Info.complete, GenFacts.Lookup.is_complete_iff]
  simp [List.length_eq_zero_iff]

/-! ## never from expired data -/

/-- **Freshness.** `Prov R i` (`Zc/Proofs/Lookup.lean`): host, port, priority and weight of `i` are
the constructor defaults or those of an SRV record of the instance, the TXT is empty or that of a TXT
record of the instance, and every address is that of an address record whose key is the SRV host's —
each of these records having been read (`R r t`: it was in the cache, or in the list handed to
`async_update_records`, of a block at time `t`) while **not expired at `t`**.  It holds of the info
object after every block of every run, in particular of what the caller sees at the return.
**This is the weak form** (second review): the existential ranges over all blocks of the run, so it does not say that the
field was assigned *in* the block that read the record.  The sentence's "when they were read" is `C18_block_fresh` /
`C18_fresh_when_read` below, which pin the read to the assigning block; `C18_fresh` is kept because `C18_success_prov` is stated with it. -/
theorem C18_fresh (name : String) (timeout : Int) (forced : Nat) (bs : List Block) (s' : Req) (outs : List (Block × Out))
    (hrun : run lower (Req.init lower name timeout forced) bs = some (s', outs)) :
    Prov lower (fun r t => ∃ b ∈ bs, b.now = t ∧ r ∈ b.reads) s'.info ∧
    ∀ p ∈ outs, Prov lower (fun r t => ∃ b ∈ bs, b.now = t ∧ r ∈ b.reads) p.2.info :=
  run_prov lower _ bs _ s' outs (fun b hb _ hx => ⟨b, hb, rfl, hx⟩) (Prov.fresh lower _ name) hrun

/-- **All of them when loaded from the cache.** After the `start` block (which loads from the cache),
every well-formed A/AAAA record (class IN) of the host the info object then names that is in the cache
and unexpired has its address in the info object. -/
theorem C18_cache_load_all (name : String) (timeout : Int) (forced : Nat) (now : Int) (c : Cache) (h : Hist) (d : Int)
    (s' : Req) (o : Out) (hs : step lower (Req.init lower name timeout forced) (.start now c h d) = some (s', o)) :
    ∀ k, o.info.serverKey = some k → ∀ x ∈ c, (x.type = 1 ∨ x.type = 28) → x.class_ = 1 → lower x.name = lower k →
      x.isExpired now = false → ∀ a, addrObj x = some a → a ∈ o.info.v4 ++ o.info.v6 := by
  have hall := loadFromCache_addrAll lower c (Info.fresh lower name) now (by intro k hk; exact absurd hk (by simp [Info.fresh]))
  have hinfo : o.info = (loadFromCache lower c (Info.fresh lower name) now).1 := start_info lower _ now c h d s' o hs
  rw [hinfo]
  exact hall

/-! ## cache first -/

/-- The full-strength sentence: whenever the cache suffices (`CacheSuffices`: an unexpired SRV of the
instance, and for every unexpired SRV of the instance an unexpired address of its host) the lookup
returns `true` in its first block without transmitting. -/
def CacheFirstFull : Prop :=
  ∀ (name : String) (timeout : Int) (forced : Nat) (now : Int) (c : Cache) (h : Hist) (d : Int),
    drawOk d = true → CacheSuffices lower c name now → SrvTyped c →
    ∃ s' o, step lower (Req.init lower name timeout forced) (.start now c h d) = some (s', o) ∧
      o.ret = some true ∧ o.sent = none ∧ o.asked = none ∧ o.wait = none ∧ s'.phase = .done true ∧
      (o.info.v4 ≠ [] ∨ o.info.v6 ≠ [])

/-- **Cache first** (full strength, about the code repaired by `notes/fixes/D14.diff`): a sufficient
cache is answered in the `start` block — returns `true`, generates and sends nothing, does not sleep —
whatever else the cache holds, in particular expired-but-unpurged records.

History (D14): before the repair `_load_from_cache` took the SRV `DNSCache.get_by_details` returns, the
newest-*inserted* key object, expired or not; with the cache `[SRV→h valid, SRV→g expired 4 s ago and
unpurged, A of h valid]` (the three records of the non-vacuity example below, in that order) it ignored
the expired SRV, never looked at the valid one, transmitted and timed out.  This theorem then only held
under the extra hypothesis "the newest SRV key object is unexpired" (`C18_cachefirst_partial`) and its
negation was proved at that witness (`C18_cachefirst_refuted`).  The repaired loader takes the newest
*unexpired* SRV/TXT (`newestLive`), which `CacheSuffices` guarantees to have an addressed host. -/
theorem C18_cachefirst : CacheFirstFull lower := by
  intro name timeout forced now c h d hd hsuf hty
  have hc : (loadFromCache lower c (Req.init lower name timeout forced).info now).2 = true :=
    loadInfo_cachefirst lower c name now hsuf hty
  refine ⟨_, _, step_start_complete lower _ now c h d rfl hd hc, rfl, rfl, rfl, rfl, rfl, ?_⟩
  have hc' : (loadInfo lower c (Info.fresh lower name) now).complete = true := hc
  simp only [Info.complete, GenFacts.Lookup.is_complete_iff] at hc'
  simpa [List.length_eq_zero_iff, loadFromCache, Req.init] using hc'

/-! ## QU then QM; questions already answered are omitted -/

/-- **QU then QM.** In every run: the `start` block either sends nothing or sends exactly the query
`_generate_request_query` builds with the forced type — QU (1) when none is forced; every later block
either sends nothing or sends exactly the query built with QM (2).  (`AskOk`, `QueryOf` in
`Zc/Proofs/Lookup.lean`; the query is not sent iff it has no question.) -/
theorem C18_qu_then_qm (name : String) (timeout : Int) (forced : Nat) (h0 : 0 ≤ timeout)
    (t0 : Int) (c : Cache) (h : Hist) (d : Int) (rest : List Block) (s' : Req) (outs : List (Block × Out))
    (hrun : run lower (Req.init lower name timeout forced) (.start t0 c h d :: rest) = some (s', outs)) :
    ∃ o1 outs', outs = (.start t0 c h d, o1) :: outs' ∧ AskOk lower true forced (.start t0 c h d) o1 ∧
      ∀ p ∈ outs', AskOk lower false forced p.1 p.2 := by
  rcases run_idle_cases lower _ rfl _ s' outs hrun with ⟨hb, -⟩ | ⟨t0', c', h', d', rest', s1, o1, outs', hb, hs1, hr1, ho⟩
  · exact absurd hb (by simp)
  · simp only [List.cons.injEq, Block.start.injEq] at hb
    obtain ⟨⟨rfl, rfl, rfl, rfl⟩, rfl⟩ := hb
    obtain ⟨i1, -, i3, -⟩ := start_inv lower _ t0 c h d s1 o1 h0 hs1
    have hall := run_all lower (P := fun s => Inv t0 s ∧ s.forced = forced) (Q := fun b o => AskOk lower false forced b o)
      (fun s b s2 o hp hs => by
        obtain ⟨j1, -, j3, -⟩ := step_inv lower t0 s b s2 o hp.1 hs
        have := step_ask_later lower t0 s b s2 o hp.1 hs
        rw [hp.2] at this j3
        exact ⟨⟨j1, j3⟩, this⟩) rest s1 s' outs' ⟨i1, i3⟩ hr1
    exact ⟨o1, outs', ho, step_ask_first lower _ t0 c h d s1 o1 hs1, hall.2⟩

/-- **What a query contains.** Every question of the query built from cache `c`, history `h` at `now`
for info `i`: has the QU bit exactly when the query type is QU; is of class IN; is the SRV or TXT
question of the instance name — and then **no unstale SRV resp. TXT record of the instance is cached**
(a held answer makes the question disappear) — or the A or AAAA question of `server or name`; carries
as known answers exactly the cached unstale records answering it; and under QM was not suppressed by
the question history. -/
theorem C18_query_shape (c : Cache) (h : Hist) (now : Int) (i : Info) (qu : Bool) (q : Question) (known : List Rec)
    (hq : (q, known) ∈ genQuery lower c h now i qu) :
    q.unique = qu ∧ q.class_ = 1 ∧
    (((q.type = 33 ∨ q.type = 16) ∧ q.name = i.name ∧
        ∀ r ∈ c, lower r.name = lower i.name → r.type = q.type → r.class_ = 1 → r.isStale now = true) ∨
     ((q.type = 1 ∨ q.type = 28) ∧ q.name = i.serverOrName)) ∧
    (∀ r, r ∈ known ↔ r ∈ c ∧ lower r.name = lower q.name ∧ r.type = q.type ∧ r.class_ = 1 ∧ r.isStale now = false) ∧
    (qu = false → histSuppresses lower h q now known = false) := by
  have key : ∀ (nm : String) (ty : Nat) (skip : Bool), addQuestion lower c h now nm ty skip qu = some (q, known) →
      q.unique = qu ∧ q.class_ = 1 ∧ q.type = ty ∧ q.name = nm ∧
      (skip = true → ∀ r ∈ c, lower r.name = lower nm → r.type = ty → r.class_ = 1 → r.isStale now = true) ∧
      (∀ r, r ∈ known ↔ r ∈ c ∧ lower r.name = lower q.name ∧ r.type = q.type ∧ r.class_ = 1 ∧ r.isStale now = false) ∧
      (qu = false → histSuppresses lower h q now known = false) := by
    intro nm ty skip ha
    obtain ⟨a1, a2, a3, a4⟩ := addQuestion_some lower ha
    subst a1
    refine ⟨rfl, rfl, rfl, rfl, ?_, ?_, a4⟩
    · intro hs
      have := a3 hs
      rw [a2, knownAnswers_nil_iff] at this
      exact this
    · intro r
      rw [a2]
      constructor
      · intro hr
        obtain ⟨m1, m2, m3, m4, m5⟩ := mem_knownAnswers lower hr
        exact ⟨m1, m2, m3, m4, m5⟩
      · rintro ⟨m1, m2, m3, m4, m5⟩
        unfold knownAnswers
        rw [List.mem_filter]
        exact ⟨(mem_getAll lower).mpr ⟨m1, m2, m3, m4⟩, by simp [m5]⟩
  rcases (mem_genQuery lower).mp hq with ha | ha | ha | ha
  · obtain ⟨b1, b2, b3, b4, b5, b6, b7⟩ := key _ _ _ ha
    exact ⟨b1, b2, Or.inl ⟨Or.inl b3, b4, by rw [b3]; exact b5 rfl⟩, b6, b7⟩
  · obtain ⟨b1, b2, b3, b4, b5, b6, b7⟩ := key _ _ _ ha
    exact ⟨b1, b2, Or.inl ⟨Or.inr b3, b4, by rw [b3]; exact b5 rfl⟩, b6, b7⟩
  · obtain ⟨b1, b2, b3, b4, b5, b6, b7⟩ := key _ _ _ ha
    exact ⟨b1, b2, Or.inr ⟨Or.inl b3, b4⟩, b6, b7⟩
  · obtain ⟨b1, b2, b3, b4, b5, b6, b7⟩ := key _ _ _ ha
    exact ⟨b1, b2, Or.inr ⟨Or.inr b3, b4⟩, b6, b7⟩

/-- **A QU query omits nothing else.** Built with QU, the query always contains the A and the AAAA
question of `server or name` (so it is never empty, and the first query of an unforced lookup is always
transmitted), and contains the SRV (TXT) question exactly when no unstale SRV (TXT) record of the
instance is cached. -/
theorem C18_qu_query (c : Cache) (h : Hist) (now : Int) (i : Info) :
    (∃ known, (({ name := i.serverOrName, type := 1, class_ := 1, unique := true } : Question), known) ∈ genQuery lower c h now i true) ∧
    (∃ known, (({ name := i.serverOrName, type := 28, class_ := 1, unique := true } : Question), known) ∈ genQuery lower c h now i true) ∧
    ((∃ known, (({ name := i.name, type := 33, class_ := 1, unique := true } : Question), known) ∈ genQuery lower c h now i true) ↔
      ∀ r ∈ c, lower r.name = lower i.name → r.type = 33 → r.class_ = 1 → r.isStale now = true) ∧
    ((∃ known, (({ name := i.name, type := 16, class_ := 1, unique := true } : Question), known) ∈ genQuery lower c h now i true) ↔
      ∀ r ∈ c, lower r.name = lower i.name → r.type = 16 → r.class_ = 1 → r.isStale now = true) := by
  refine ⟨⟨_, genQuery_qu_a lower c h now i⟩, ⟨_, genQuery_qu_aaaa lower c h now i⟩, ?_, ?_⟩
  · constructor
    · rintro ⟨known, hk⟩
      exact ((C18_query_shape lower c h now i true _ known hk).2.2.1.elim (fun x => x.2.2) (fun x => absurd x.1 (by simp)))
    · intro hall
      exact ⟨_, genQuery_qu_srv lower c h now i ((knownAnswers_nil_iff lower c now i.name 33).mpr hall)⟩
  · constructor
    · rintro ⟨known, hk⟩
      exact ((C18_query_shape lower c h now i true _ known hk).2.2.1.elim (fun x => x.2.2) (fun x => absurd x.1 (by simp)))
    · intro hall
      exact ⟨_, genQuery_qu_txt lower c h now i ((knownAnswers_nil_iff lower c now i.name 16).mpr hall)⟩

/-- **A question is omitted only when its answer is held** (or, under QM, when the question history
suppresses it as a duplicate — C13).  For `ty` = SRV (33) or TXT (16): the query built from cache `c`,
history `h` at `now` contains the question of the instance name **iff** no *unstale* record of that type
is cached for the instance — a stale or expired-but-unpurged one does not count as held — and the query
is QU or the history does not suppress the question. -/
theorem C18_question_asked_iff (c : Cache) (h : Hist) (now : Int) (i : Info) (qu : Bool) (ty : Nat) (hty : ty = 33 ∨ ty = 16) :
    (∃ known, (({ name := i.name, type := ty, class_ := 1, unique := qu } : Question), known) ∈ genQuery lower c h now i qu) ↔
      (∀ r ∈ c, lower r.name = lower i.name → r.type = ty → r.class_ = 1 → r.isStale now = true) ∧
      (qu = true ∨ histSuppresses lower h { name := i.name, type := ty, class_ := 1, unique := qu } now [] = false) := by
  constructor
  · rintro ⟨known, hk⟩
    have hall : ∀ r ∈ c, lower r.name = lower i.name → r.type = ty → r.class_ = 1 → r.isStale now = true := by
      have := (C18_query_shape lower c h now i qu _ known hk).2.2.1
      rcases this with ⟨-, -, h3⟩ | ⟨h1, -⟩
      · exact h3
      · simp only at h1
        rcases hty with rfl | rfl <;> omega
    refine ⟨hall, ?_⟩
    by_cases hq : qu = true
    · exact Or.inl hq
    · right
      have hnil : known = [] := by
        have hk' := (C18_query_shape lower c h now i qu _ known hk).2.2.2.1
        cases known with
        | nil => rfl
        | cons r rs =>
          have := (hk' r).mp (by simp)
          have hs := hall r this.1 this.2.1 this.2.2.1 this.2.2.2.1
          rw [this.2.2.2.2] at hs
          exact absurd hs (by simp)
      have := (C18_query_shape lower c h now i qu _ known hk).2.2.2.2 (by simpa using hq)
      rw [hnil] at this
      exact this
  · rintro ⟨hall, hs⟩
    have hnil : knownAnswers lower c now i.name ty = [] := (knownAnswers_nil_iff lower c now i.name ty).mpr hall
    have hadd := addQuestion_of lower c h now i.name ty true qu (by rw [hnil]; simp) (by rw [hnil]; exact hs)
    rw [hnil] at hadd
    refine ⟨[], (mem_genQuery lower).mpr ?_⟩
    rcases hty with rfl | rfl
    · exact Or.inl hadd
    · exact Or.inr (Or.inl hadd)

/-! ## "otherwise it asks": the obligation to transmit -/

/-- what is known of a state reached by a run that began with `start` at `t0` -/
theorem C18_reach (name : String) (timeout : Int) (forced : Nat) (h0 : 0 ≤ timeout)
    (t0 : Int) (c : Cache) (h : Hist) (d : Int) (rest : List Block) (s : Req) (outs : List (Block × Out))
    (hrun : run lower (Req.init lower name timeout forced) (.start t0 c h d :: rest) = some (s, outs)) :
    Inv t0 s ∧ WakeInv s ∧ s.forced = forced ∧ s.timeout = timeout := by
  rcases run_idle_cases lower _ rfl _ s outs hrun with ⟨hb, -⟩ | ⟨t0', c', h', d', rest', s1, o1, outs', hb, hs1, hr1, -⟩
  · exact absurd hb (by simp)
  · simp only [List.cons.injEq, Block.start.injEq] at hb
    obtain ⟨⟨rfl, rfl, rfl, rfl⟩, rfl⟩ := hb
    obtain ⟨i1, i2, i3, -⟩ := start_inv lower _ t0 c h d s1 o1 h0 hs1
    have iw : WakeInv s1 := step_wake lower _ _ s1 o1 (by intro w k hw; simp [Req.init] at hw) hs1
    have hall := run_all lower (P := fun s => Inv t0 s ∧ WakeInv s ∧ s.forced = forced ∧ s.timeout = timeout) (Q := fun _ _ => True)
      (fun s b s2 o hp hs => by
        obtain ⟨j1, j2, j3, -⟩ := step_inv lower t0 s b s2 o hp.1 hs
        exact ⟨⟨j1, step_wake lower s b s2 o hp.2.1 hs, j3.trans hp.2.2.1, j2.trans hp.2.2.2⟩, trivial⟩) rest s1 s outs' ⟨i1, iw, i3, i2⟩ hr1
    exact hall.1

/-- **Otherwise it asks — first query.** If loading from the cache did not complete the info (by
`C18_cachefirst` this means the cache did not suffice) and the timeout is positive, the `start` block
*does* generate the query `_generate_request_query` builds with the forced type — QU (1) when none is
forced — and transmits it unless it has no question; a QU query always has one, so an unforced (or
forced-QU) lookup always transmits in its first block. -/
theorem C18_asks_first (name : String) (timeout : Int) (forced : Nat) (htm : 0 < timeout)
    (t0 : Int) (c : Cache) (h : Hist) (d : Int) (s' : Req) (o : Out)
    (hs : step lower (Req.init lower name timeout forced) (.start t0 c h d) = some (s', o))
    (hload : (loadFromCache lower c (Info.fresh lower name) t0).2 = false) :
    QueryOf lower (if forced = 0 then 1 else forced) (.start t0 c h d) o ∧
    ((if forced = 0 then 1 else forced) = 1 → o.sent ≠ none) := by
  have hask := step_ask_first lower _ t0 c h d s' o hs
  have hasked : o.asked = some (if forced = 0 then 1 else forced) := by
    simp only [step] at hs
    split at hs
    · exact absurd hs (by simp)
    · rw [if_neg (by simp only [Req.init]; rw [hload]; simp)] at hs
      simp only [Option.some.injEq] at hs
      have := iter_asks lower ((Req.init lower name timeout forced).armed (loadFromCache lower c (Info.fresh lower name) t0).1 t0) t0 c h d
        (by simp only [Req.armed]; rw [← loadFromCache_snd]; exact hload)
        (by simp only [Req.armed, Req.init, GenFacts.Lookup.deadline_of_eq]; omega) (by simp [Req.armed])
      simp only [Req.init] at hs
      simp only [Req.init] at this
      rw [hs] at this
      simp only [Req.armed, quCode, qmCode, GenFacts.Lookup.this_question_type_first] at this
      exact this
  have hq : QueryOf lower (if forced = 0 then 1 else forced) (.start t0 c h d) o := by
    rcases hask with ⟨hn, -⟩ | hq
    · rw [hasked] at hn; exact absurd hn (by simp)
    · exact hq
  refine ⟨hq, ?_⟩
  intro ht
  rw [ht] at hq
  rcases hq.2 with ⟨-, hnil⟩ | ⟨hsent, -⟩
  · have := genQuery_qu_a lower (Block.start t0 c h d).cache (Block.start t0 c h d).hist (Block.start t0 c h d).now o.info
    have hq1 : ((1 : Nat) == quCode) = true := rfl
    rw [hq1] at hnil
    rw [hnil] at this
    exact absurd this (by simp)
  · rw [hsent]; simp

/-- **Otherwise it asks — later queries.** In a state `s` reached by any run: a `resume` block taken
when the next query is due (`s.next ≤ now`: in particular when the task is resumed by its own timer,
`s.phase = waiting now _`, since the wake-up time is `min(next_, last)`), before the deadline, the info
object still holding no address, *does* generate the QM query and transmits it unless every question
of it is omitted (held or suppressed, `C18_question_asked_iff`). -/
theorem C18_asks_later (name : String) (timeout : Int) (forced : Nat) (h0 : 0 ≤ timeout)
    (t0 : Int) (c0 : Cache) (hh0 : Hist) (d0 : Int) (rest : List Block) (s : Req) (outs : List (Block × Out))
    (hrun : run lower (Req.init lower name timeout forced) (.start t0 c0 hh0 d0 :: rest) = some (s, outs))
    (now : Int) (c : Cache) (h : Hist) (d : Int) (s' : Req) (o : Out)
    (hs : step lower s (.resume now c h d) = some (s', o))
    (hinc : o.info.v4 = [] ∧ o.info.v6 = []) (hnl : now < t0 + timeout)
    (hdue : s.next ≤ now ∨ ∃ k, s.phase = .waiting now k) :
    QueryOf lower 2 (.resume now c h d) o := by
  obtain ⟨hI, hW, -, htmo⟩ := C18_reach lower name timeout forced h0 t0 c0 hh0 d0 rest s outs hrun
  have hask := step_ask_later lower t0 s _ s' o hI hs
  simp only [step] at hs
  split at hs
  · rename_i w woken hph
    obtain ⟨hlast, -, -, -, hfirst⟩ := hI.2 w woken hph
    split at hs
    · simp only [Option.some.injEq] at hs
      have hi := iter_info lower s now c h d
      rw [hs] at hi
      have hnl' : now < s.last := by rw [hlast, htmo]; exact hnl
      have hdue' : s.next ≤ now := by
        rcases hdue with hd | ⟨k, hk⟩
        · exact hd
        · have := hW now k hk
          omega
      have hcomp : s.info.complete = false := by
        rw [← hi.2]
        cases hc : o.info.complete with
        | false => rfl
        | true =>
          rw [Info.complete, GenFacts.Lookup.is_complete_iff] at hc
          simp [hinc.1, hinc.2] at hc
      have := iter_asks lower s now c h d hcomp hnl' hdue'
      rw [hs] at this
      rcases hask with ⟨hn, -⟩ | hq
      · rw [this] at hn; exact absurd hn (by simp)
      · simpa using hq
    · exact absurd hs (by simp)
  · exact absurd hs (by simp)

/-! ## what success implies -/

/-- **Success ⇒ provenance** (the headline form of "never from expired data").  When a lookup started
on a fresh info object returns `true`: its host, port, priority and weight *are* those of an SRV record
of the instance that was unexpired when read (the "still the constructor default" case of `Prov` is
excluded); every address is that of an address record of that host, unexpired when read; and the TXT is
that of a TXT record of the instance, unexpired when read, **or still the constructor's empty value** —
named reading: `_is_complete` only tests `self.text is not None`, `text` is `b''` from `__init__` on, so a
lookup succeeds as soon as an address is known, whether or not a TXT record was ever read (the model's
`Info.complete` passes `text_set = true` for that reason; an empty text cannot be told from a received empty TXT). -/
theorem C18_success_prov (name : String) (timeout : Int) (forced : Nat) (bs : List Block) (s' : Req) (outs : List (Block × Out))
    (hrun : run lower (Req.init lower name timeout forced) bs = some (s', outs))
    (b : Block) (o : Out) (hb : (b, o) ∈ outs) (hr : o.ret = some true) :
    (∃ r t, (∃ b' ∈ bs, b'.now = t ∧ r ∈ b'.reads) ∧ r.isExpired t = false ∧ SrvFrom lower o.info r) ∧
    (o.info.v4 ≠ [] ∨ o.info.v6 ≠ []) ∧
    (∀ a ∈ o.info.v4 ++ o.info.v6, ∃ r t sc k, (∃ b' ∈ bs, b'.now = t ∧ r ∈ b'.reads) ∧ r.isExpired t = false ∧
        r.rdata = .addr a sc ∧ o.info.serverKey = some k ∧ (lower r.name = k ∨ lower r.name = lower k)) ∧
    (o.info.text = [] ∨ ∃ r t, (∃ b' ∈ bs, b'.now = t ∧ r ∈ b'.reads) ∧ r.isExpired t = false ∧
        lower r.name = o.info.key ∧ r.rdata = .txt o.info.text) := by
  have hp := (C18_fresh lower name timeout forced bs s' outs hrun).2 (b, o) hb
  have haddr := ((C18_iff lower _ bs s' outs hrun b o true hb hr).1).mp rfl
  refine ⟨?_, haddr, hp.addr, hp.txt⟩
  rcases hp.srv with ⟨-, hk, -⟩ | hsrv
  · exfalso
    have : ∃ a, a ∈ o.info.v4 ++ o.info.v6 := by
      rcases haddr with h4 | h6
      · obtain ⟨a, ha⟩ := List.exists_mem_of_ne_nil _ h4
        exact ⟨a, by simp [ha]⟩
      · obtain ⟨a, ha⟩ := List.exists_mem_of_ne_nil _ h6
        exact ⟨a, by simp [ha]⟩
    obtain ⟨a, ha⟩ := this
    obtain ⟨_, _, _, k, -, -, -, hk', -⟩ := hp.addr a ha
    rw [hk] at hk'
    exact absurd hk' (by simp)
  · exact hsrv

/-- **All of them when loaded from the cache — the SRV-triggered reload.** The other place addresses
are loaded from the cache is the `DNSService` branch of `_process_record_threadsafe` when the server key
changes.  From *any* state: after an `update` block that changed the info's server key, every well-formed
A/AAAA record (class IN) of the new host that is in that block's cache and unexpired has its address in
the info object (addresses delivered later in the same record list are added on top). -/
theorem C18_reload_all (s : Req) (now : Int) (recs : List Rec) (c : Cache) (s' : Req) (o : Out)
    (hs : step lower s (.update now recs c) = some (s', o)) (hchg : o.info.serverKey ≠ s.info.serverKey) :
    ∀ k, o.info.serverKey = some k → ∀ x ∈ c, (x.type = 1 ∨ x.type = 28) → x.class_ = 1 → lower x.name = lower k →
      x.isExpired now = false → ∀ a, addrObj x = some a → a ∈ o.info.v4 ++ o.info.v6 := by
  simp only [step] at hs
  split at hs
  · split at hs
    · simp only [Option.some.injEq, Prod.mk.injEq] at hs
      obtain ⟨-, hs2⟩ := hs
      subst hs2
      rcases processAll_key_or_all lower c now (addrLast recs) s.info with hk | hall
      · exact absurd hk hchg
      · exact hall
    · exact absurd hs (by simp)
  · exact absurd hs (by simp)

/-! ### the hypotheses are satisfiable: the former D14 witness -/

/-- a valid SRV (→ `h.local.`, TTL 120 s), an SRV inserted later (→ `g.local.`, TTL 1 s) and an address of `h.local.`, all created at 0 -/
def exSrvLive : Rec := ⟨"i._x._tcp.local.", 33, 1, true, 120, 0, .srv 0 0 80 "h.local."⟩
def exSrvDead : Rec := ⟨"i._x._tcp.local.", 33, 1, true, 1, 0, .srv 0 0 81 "g.local."⟩
def exAddr : Rec := ⟨"h.local.", 1, 1, true, 120, 0, .addr [10, 0, 0, 1] none⟩

theorem exSuffices (c : Cache) (hc : ∀ x, x ∈ c ↔ x = exSrvLive ∨ x = exSrvDead ∨ x = exAddr) :
    CacheSuffices id c "i._x._tcp.local." 5000 := by
  have haddr : HostHasAddr id c 5000 "h.local." :=
    ⟨exAddr, (hc _).mpr (Or.inr (Or.inr rfl)), Or.inl rfl, rfl, rfl, by decide, [10, 0, 0, 1], by decide⟩
  refine ⟨⟨exSrvLive, "h.local.", (hc _).mpr (Or.inl rfl), rfl, rfl, rfl, by decide, 0, 0, 80, rfl⟩, ?_⟩
  rintro r host ⟨hm, ht, -, -, he, p, w, port, hrd⟩
  rcases (hc r).mp hm with rfl | rfl | rfl
  · have : host = "h.local." := by simp [exSrvLive] at hrd; exact hrd.2.2.2.symm
    rw [this]; exact haddr
  · exact absurd he (by decide)
  · exact absurd ht (by decide)

/-- non-vacuity of `C18_cachefirst`: at time 5 s the cache `[SRV→h valid, SRV→g expired 4 s ago and
unpurged, A of h valid]` — the state that defeated the unrepaired loader — satisfies the hypotheses … -/
example : CacheSuffices id [exSrvLive, exSrvDead, exAddr] "i._x._tcp.local." 5000 ∧
    SrvTyped [exSrvLive, exSrvDead, exAddr] ∧ drawOk 20 = true := by
  refine ⟨exSuffices _ (by intro x; simp), ?_, by decide⟩
  intro x hx
  simp only [List.mem_cons, List.not_mem_nil, or_false] at hx
  rcases hx with rfl | rfl | rfl
  · exact ⟨fun _ => rfl, fun _ => ⟨0, 0, 80, "h.local.", rfl⟩⟩
  · exact ⟨fun _ => rfl, fun _ => ⟨0, 0, 81, "g.local.", rfl⟩⟩
  · exact ⟨fun ⟨_, _, _, _, h⟩ => by simp [exAddr] at h, fun h => absurd h (by decide)⟩

/-- … and the (repaired) lookup answers from it at once, with the valid SRV's data, sending nothing -/
example : (step id (Req.init id "i._x._tcp.local." 200 0) (.start 5000 [exSrvLive, exSrvDead, exAddr] [] 20)).map
    (fun p => (p.2.ret, p.2.sent.isSome, p.2.info.port, p.2.info.v4)) = some (some true, false, some 80, [[10, 0, 0, 1]]) := by decide

/-! ## "had not expired when they were read": the read is pinned to the block that assigned the field -/

/-- **One block** (from *any* state — a fresh object, one constructed with `server=`/`addresses=`, or one re-used for a second
request): across the block every field group of the info object — host/port/priority/weight, TXT, each address — is either
**unchanged**, or equals that of a record **this block read** (`b.reads`: the cache snapshot of a `start`/`update` block, or the list
handed to `async_update_records`) that was **unexpired at this block's time** (`AssignedIn`, `Proofs/LookupRead.lean`); an address that
stays requires the host key to have stayed.  This is the sentence's "when they were read": a record that was unexpired in the cache of
an *earlier* block no longer justifies a field assigned later (which `C18_fresh`'s existential over all blocks of the run allowed). -/
theorem C18_block_fresh (s : Req) (b : Block) (s' : Req) (o : Out) (hs : step lower s b = some (s', o)) :
    AssignedIn lower b.reads b.now s.info s'.info ∧ o.info = s'.info :=
  step_assigned lower s b s' o hs

/-- **Along a run, and at its end.**  `Chain`: every block of the run satisfies `C18_block_fresh` w.r.t. the info the previous block
reported.  Hence for a lookup on a fresh object that returns `true` (the last block's info is what the caller sees): host, port,
priority and weight were assigned **in a block of the run** from an SRV record of the instance which that block read, unexpired at
that block's time, and no later block changed them; and every address was put there **in a block of the run** from an address record
which that block read, unexpired at that block's time, whose owner is the host the object names at the end. -/
theorem C18_fresh_when_read (name : String) (timeout : Int) (forced : Nat) (bs : List Block) (s' : Req) (outs : List (Block × Out))
    (hrun : run lower (Req.init lower name timeout forced) bs = some (s', outs)) :
    Chain lower (Info.fresh lower name) outs ∧ s'.info = lastInfo (Info.fresh lower name) outs ∧
    ((s'.info.v4 ≠ [] ∨ s'.info.v6 ≠ []) →
      (∃ pre b o post r, outs = pre ++ (b, o) :: post ∧ r ∈ b.reads ∧ r.isExpired b.now = false ∧ SrvFrom lower o.info r ∧
        SrvSame o.info s'.info ∧ s'.info.key = o.info.key) ∧
      ∀ a ∈ s'.info.v4 ++ s'.info.v6, ∃ pre b o post r sc k, outs = pre ++ (b, o) :: post ∧ r ∈ b.reads ∧ r.isExpired b.now = false ∧
        r.rdata = .addr a sc ∧ s'.info.serverKey = some k ∧ (lower r.name = k ∨ lower r.name = lower k) ∧ a ∈ o.info.v4 ++ o.info.v6) := by
  obtain ⟨hc, hl⟩ := run_chain lower bs _ s' outs hrun
  have hc' : Chain lower (Info.fresh lower name) outs := hc
  have hl' : s'.info = lastInfo (Info.fresh lower name) outs := hl
  refine ⟨hc', hl', ?_⟩
  intro hne
  have haddr : ∀ a ∈ s'.info.v4 ++ s'.info.v6, ∃ pre b o post r sc k, outs = pre ++ (b, o) :: post ∧ r ∈ b.reads ∧
      r.isExpired b.now = false ∧ r.rdata = .addr a sc ∧ s'.info.serverKey = some k ∧ (lower r.name = k ∨ lower r.name = lower k) ∧
      a ∈ o.info.v4 ++ o.info.v6 := by
    intro a ha
    rw [hl'] at ha
    rcases chain_addr lower outs _ hc' a ha with ⟨h0, -⟩ | h1
    · simp [Info.fresh] at h0
    · rw [hl']; exact h1
  refine ⟨?_, haddr⟩
  rcases chain_srv lower outs _ hc' with ⟨hs, -⟩ | h1
  · exfalso
    have : ∃ a, a ∈ s'.info.v4 ++ s'.info.v6 := by
      rcases hne with h4 | h6
      · obtain ⟨a, ha⟩ := List.exists_mem_of_ne_nil _ h4
        exact ⟨a, by simp [ha]⟩
      · obtain ⟨a, ha⟩ := List.exists_mem_of_ne_nil _ h6
        exact ⟨a, by simp [ha]⟩
    obtain ⟨a, ha⟩ := this
    obtain ⟨_, _, _, _, _, _, k, -, -, -, -, hk, -⟩ := haddr a ha
    rw [hl', hs.2.1] at hk
    simp [Info.fresh] at hk
  · rw [hl']; exact h1

/-- non-vacuity of the pinning: the SRV/A response of the earlier example — the block that assigns the fields is the `update` block at
5100, and its record list holds the records, unexpired at 5100 -/
example : ∃ s' o, step id (Req.init id "i._x._tcp.local." 3000 0 |>.armed (Info.fresh id "i._x._tcp.local.") 5000 |> fun s => { s with phase := .waiting 5220 false, clock := 5000 })
    (.update 5100 [exSrvLive, { exAddr with created := 5100 }] []) = some (s', o) ∧ o.info.port = some 80 ∧ o.info.v4 = [[10, 0, 0, 1]] := by
  refine ⟨_, _, rfl, ?_, ?_⟩ <;> decide

/-! ## handed an address ⇒ success, in any record order (the "iff" for the cache reading; D22 repaired) -/

/-- **A lookup that is handed an unexpired address of its host succeeds — whatever the order of the
records in the datagram.**  From any state: if the list handed to `async_update_records` contains a
well-formed address record `x`, unexpired, whose key is the host the info object names *after* the block
(the host may have been learned from an SRV record that comes later in the same list), then its address
is in the info object after the block, and the next resumption of the task returns `true`.
Together with `C18_cache_load_all` / `C18_reload_all` (addresses that were already in the cache when the
host was learned) this is the "if" direction of "succeeds iff it knows an address" read over everything
the instance was told, not only over the object; the "only if" direction is `C18_iff` + `C18_success_prov`.
(Before the repair of D22 this was false: `[A, SRV]` in one datagram lost the address for good.) -/
theorem C18_handed_address (s : Req) (now : Int) (recs : List Rec) (c : Cache) (s' : Req) (o : Out)
    (hs : step lower s (.update now recs c) = some (s', o))
    (x : Rec) (a : Bytes) (hx : x ∈ recs) (ha : addrObj x = some a) (he : x.isExpired now = false)
    (hk : o.info.serverKey = some (lower x.name)) :
    a ∈ o.info.v4 ++ o.info.v6 ∧
    ∀ now2 c2 h2 d2 s2 o2, step lower s' (.resume now2 c2 h2 d2) = some (s2, o2) → o2.ret = some true := by
  simp only [step] at hs
  split at hs
  · split at hs
    · simp only [Option.some.injEq, Prod.mk.injEq] at hs
      obtain ⟨hs1, hs2⟩ := hs
      subst hs2
      have hin := update_keeps_address lower c now s.info recs x a hx hk he ha
      refine ⟨hin, ?_⟩
      intro now2 c2 h2 d2 s2 o2 hs2
      have hcomp : s'.info.complete = true := by
        rw [← hs1]
        simp only [Info.complete, GenFacts.Lookup.is_complete_iff]
        simp only [List.mem_append] at hin
        rcases hin with h | h
        · exact Or.inl (by intro h0; rw [List.length_eq_zero_iff] at h0; rw [h0] at h; exact absurd h (by simp))
        · exact Or.inr (by intro h0; rw [List.length_eq_zero_iff] at h0; rw [h0] at h; exact absurd h (by simp))
      simp only [step] at hs2
      split at hs2
      · split at hs2
        · simp only [Option.some.injEq] at hs2
          have hr : (iter lower s' now2 c2 h2 d2).2.ret = some true := by
            unfold iter
            rw [if_pos hcomp]
          rw [hs2] at hr
          exact hr
        · exact absurd hs2 (by simp)
      · exact absurd hs2 (by simp)
    · exact absurd hs (by simp)
  · exact absurd hs (by simp)

/-- non-vacuity: `[A, SRV]` in one datagram — the former D22 witness — now completes the lookup -/
example : (run id (Req.init id "i._x._tcp.local." 3000 0)
    [.start 5000 [] [] 20, .update 5100 [{ exAddr with created := 5100 }, { exSrvLive with created := 5100 }] [], .resume 5100 [] [] 20]).map
    (fun p => (p.1.phase, p.1.info.v4)) = some (.done true, [[10, 0, 0, 1]]) := by decide

/-- non-vacuity of `C18_asks_first` / `C18_asks_later`: an empty cache does not complete the info; the
`start` block transmits the QU query (4 questions), and the timer-resumed block at +220 ms the QM query -/
example : (loadFromCache id [] (Info.fresh id "i._x._tcp.local.") 1000).2 = false := by decide

example : (run id (Req.init id "i._x._tcp.local." 3000 0) [.start 1000 [] [] 20, .resume 1220 [] [] 20]).map
    (fun p => p.2.map (fun q => (q.2.asked, q.2.sent.map List.length))) =
    some [(some 1, some 4), (some 2, some 4)] := by decide

/-- non-vacuity of `C18_deadline` / `C18_iff` / `C18_qu_then_qm`: an empty cache, an SRV+A response at
+100 ms wakes the task, which returns `true` at +100 ms -/
example : ∃ s' outs, run id (Req.init id "i._x._tcp.local." 3000 0)
    [.start 5000 [] [] 20, .update 5100 [exSrvLive, { exAddr with created := 5100 }] [], .resume 5100 [] [] 20] = some (s', outs) ∧
    s'.phase = .done true ∧ s'.info.v4 = [[10, 0, 0, 1]] ∧ s'.info.port = some 80 := by
  refine ⟨_, _, rfl, ?_, ?_, ?_⟩ <;> decide

/-! non-vacuity: a run that sleeps and then times out, and one that is answered by an arriving address -/
example : ∃ s' outs, run id (Req.init id "i._x._tcp.local." 200 0)
    [.start 1000 [] [] 20, .resume 1200 [] [] 20] = some (s', outs) ∧ s'.phase = .done false := by
  refine ⟨_, _, rfl, ?_⟩
  decide

end Zc
