import Zc.Proofs.Lookup
/-! # C18 — service-info lookup: bounded, cache-first, never from expired data

The lookup (`AsyncServiceInfo.async_request`) is the block machine `Zc.Lookup.step`
(`lean/Zc/Model/Lookup.lean`): `start` (the call up to its first `await`/`return`), `update`
(`async_update_records` called by the record manager) and `resume` (after `await self.async_wait`).
Each block carries *everything it reads* as an input — the cache's key objects, the question
history, the clock, the jitter draw — so the theorems below quantify over **all** cache states,
histories, arriving record lists, arrival times and draws, not over what a generator reached.
`run` accepts a block sequence only if it respects the event-loop axioms (DESIGN §4.7): time does
not go backwards, a sleeping task is resumed no later than its timer's due time, and only at that
time unless an update woke it, draws lie in the interval the code requested.

`lower` is `str.lower`, an arbitrary function. -/
namespace Zc
open Zc.Lookup

variable (lower : String → String)

/-! ## returns no later than its timeout -/

/-- **Deadline.** A lookup started at `t0` with `timeout ≥ 0`: every block of every run — in
particular the one that returns — happens at a time `≤ t0 + timeout`; whenever it goes to sleep the
sleep is positive and ends by `t0 + timeout`; and a resumption at `t0 + timeout` returns.  (With the
loop axiom that the clock never passes a due timer this is "returns no later than its timeout".) -/
theorem C18_deadline (name : String) (timeout : Int) (forced : Nat) (h0 : 0 ≤ timeout)
    (t0 : Int) (c : Cache) (h : Hist) (d : Int) (rest : List Block) (s' : Req) (outs : List (Block × Out))
    (hrun : run lower (Req.init lower name timeout forced) (.start t0 c h d :: rest) = some (s', outs)) :
    ∀ p ∈ outs,
      p.1.now ≤ t0 + timeout ∧
      (∀ w, p.2.wait = some w → 0 < w ∧ p.1.now + w ≤ t0 + timeout) ∧
      (∀ n c' h' d', p.1 = .resume n c' h' d' → t0 + timeout ≤ n → p.2.ret ≠ none) := by
  rcases run_idle_cases lower _ rfl _ s' outs hrun with ⟨hb, -⟩ | ⟨t0', c', h', d', rest', s1, o1, outs', hb, hs1, hr1, ho⟩
  · exact absurd hb (by simp)
  · simp only [List.cons.injEq, Block.start.injEq] at hb
    obtain ⟨⟨rfl, rfl, rfl, rfl⟩, rfl⟩ := hb
    obtain ⟨i1, i2, -, i4⟩ := start_inv lower _ t0 c h d s1 o1 h0 hs1
    have hall := run_all lower (P := fun s => Inv t0 s ∧ s.timeout = timeout) (Q := SchedOk t0 timeout)
      (fun s b s2 o hp hs => by
        obtain ⟨j1, j2, -, j4⟩ := step_inv lower t0 s b s2 o hp.1 hs
        rw [hp.2] at j2 j4
        exact ⟨⟨j1, j2⟩, j4⟩) rest s1 s' outs' ⟨i1, i2⟩ hr1
    intro p hp
    rw [ho] at hp
    simp only [List.mem_cons] at hp
    rcases hp with rfl | hp
    · exact i4
    · exact hall.2 p hp

/-- the return itself is no later than the timeout -/
theorem C18_returns_by_timeout (name : String) (timeout : Int) (forced : Nat) (h0 : 0 ≤ timeout)
    (t0 : Int) (c : Cache) (h : Hist) (d : Int) (rest : List Block) (s' : Req) (outs : List (Block × Out))
    (hrun : run lower (Req.init lower name timeout forced) (.start t0 c h d :: rest) = some (s', outs))
    (b : Block) (o : Out) (r : Bool) (hb : (b, o) ∈ outs) (_hr : o.ret = some r) : b.now - t0 ≤ timeout := by
  have := (C18_deadline lower name timeout forced h0 t0 c h d rest s' outs hrun (b, o) hb).1
  simp only at this
  omega

/-! ## succeeds iff it knows an address -/

/-- **Success iff an address is known.** In every run from any state, the block that returns `r` has
`r = true` exactly when the info object then holds at least one address; nothing happens afterwards,
so these are the addresses the caller sees. -/
theorem C18_iff (s : Req) (bs : List Block) (s' : Req) (outs : List (Block × Out))
    (hrun : run lower s bs = some (s', outs)) (b : Block) (o : Out) (r : Bool)
    (hb : (b, o) ∈ outs) (hr : o.ret = some r) :
    (r = true ↔ o.info.v4 ≠ [] ∨ o.info.v6 ≠ []) ∧ s'.info = o.info ∧ s'.phase = .done r := by
  obtain ⟨h1, h2, h3⟩ := run_ret_final lower bs s s' outs hrun (b, o) hb r hr
  refine ⟨?_, h2, h3⟩
  simp only at h1
  rw [h1, Info.complete, GenFacts.Lookup.is_complete_iff]
  simp [List.length_eq_zero_iff]

/-! non-vacuity: a run that sleeps and then times out, and one that is answered by an arriving address -/
example : ∃ s' outs, run id (Req.init id "i._x._tcp.local." 200 0)
    [.start 1000 [] [] 20, .resume 1200 [] [] 20] = some (s', outs) ∧ s'.phase = .done false := by
  refine ⟨_, _, rfl, ?_⟩
  decide

end Zc
