import Zc.Proofs.PostState
import Zc.Props.C05
/-! # C06 — response ingestion and the record-update listener contract

`Zc.ingest` is `RecordManager.async_updates_from_response` line by line (PTR floor, unique set, the
`(expired?, cached?)` branch, flush mark, `async_updates`, address adds, other adds, removes,
`async_updates_complete`), run on the indexed cache of C05.  The theorems hold after **any** prior history
of datagrams and purges (`cacheAfter lower evs`), for any datagram `recs` arriving at any `now`, for any
`str.lower`.  Numbers (1125 s, 1000 ms, 1 s) are the property's; `Zc/GenFacts/Cache.lean` ties them to
`_DNS_PTR_MIN_TTL`, `_ONE_SECOND` and the generated leaves. -/
namespace Zc

section
variable (lower : String → String)

/-- **C06 (post-state; no `KeyError`).**  After any history, a response datagram `recs` arriving at `now` is
processed without raising, and for every record identity: a cached record with a zero-TTL copy in the datagram
is removed; any other cached record stays, with creation time = arrival time and the received TTL of its last
non-zero copy (pointer TTLs raised to the 1125 s floor) if there is one, else marked to expire one second later
iff the cache-flush rule applies to it, else untouched; an uncached record with a non-zero copy ends up cached
with creation time = arrival time and that (floored) TTL; nothing else is added. -/
theorem C06_post_state (evs : List Event) (now : Ms) (recs : List Rec) :
    ∃ out, ingest lower (Cache.ops lower) (cacheAfter lower evs) now recs = .ok out
      ∧ ∀ q, PostState lower now recs q ((cacheAfter lower evs).getUnique lower q) (out.cache.getUnique lower q) := by
  have href := ((Refines.empty lower).runEvents (by simp [Flat.WF]) evs).1
  obtain ⟨o, ho, hq⟩ := Flat.postState (lower := lower) (specAfter lower evs) now recs
  have hsim := href.ingest now recs
  unfold specAfter at ho
  unfold cacheAfter
  rw [ho] at hsim
  cases hc : ingest lower (Cache.ops lower) (runEvents lower (Cache.ops lower) {} evs) now recs with
  | error e => rw [hc] at hsim; exact absurd hsim (by simp)
  | ok co =>
    rw [hc] at hsim
    refine ⟨co, rfl, fun q => ?_⟩
    rw [href.getUnique q, hsim.1.getUnique q]
    exact hq q

/-- **C06 (flush exactness).**  A cached record none of whose copies is in the datagram is marked
(creation time = arrival, TTL 1 s) exactly when some cache-flush record of the datagram has its name
(case-insensitively), type and class and it was created more than 1000 ms before the arrival; otherwise it is
left exactly as it was. -/
theorem C06_flush_exact (evs : List Event) (now : Ms) (recs : List Rec) (q e : Rec)
    (hcached : (cacheAfter lower evs).getUnique lower q = some e)
    (habsent : ∀ r ∈ recs, r.ident lower ≠ q.ident lower) :
    ∃ out, ingest lower (Cache.ops lower) (cacheAfter lower evs) now recs = .ok out
      ∧ (((∃ u ∈ recs, u.unique = true ∧ lower u.name = lower e.name ∧ u.type = e.type ∧ u.class_ = e.class_) ∧ now - e.created > 1000)
            → out.cache.getUnique lower q = some (e.setLife now 1))
      ∧ (¬ ((∃ u ∈ recs, u.unique = true ∧ lower u.name = lower e.name ∧ u.type = e.type ∧ u.class_ = e.class_) ∧ now - e.created > 1000)
            → out.cache.getUnique lower q = some e) := by
  obtain ⟨out, hout, hq⟩ := C06_post_state lower evs now recs
  refine ⟨out, hout, ?_⟩
  have h := hq q
  have hcop : copiesOf lower recs q = [] := by
    unfold copiesOf
    rw [List.filter_eq_nil_iff]
    intro r hr; simpa using habsent r hr
  have hg : hasGoodbye lower recs q = false := by simp [hasGoodbye, hcop]
  have href := ((Refines.empty lower).runEvents (by simp [Flat.WF]) evs).1
  have hid : e.ident lower = q.ident lower := by
    have := href.getUnique q
    unfold cacheAfter at hcached
    rw [this] at hcached
    exact Flat.getUnique_ident hcached
  have hl : lastLive lower recs e = none := by
    rw [lastLive_congr recs hid]; simp [lastLive, hcop]
  unfold PostState at h
  rw [hcached] at h
  simp only [hg, Bool.false_eq_true, if_false] at h
  obtain ⟨e', he', hr⟩ := h
  unfold Refreshed at hr
  rw [hl] at hr
  simp only [] at hr
  have hfl : Flushed lower now recs e ↔ ((∃ u ∈ recs, u.unique = true ∧ lower u.name = lower e.name ∧ u.type = e.type ∧ u.class_ = e.class_) ∧ now - e.created > 1000) := by
    unfold Flushed
    constructor
    · rintro ⟨a, b, _⟩; exact ⟨a, b⟩
    · rintro ⟨a, b⟩; exact ⟨a, b, fun r hr => hid ▸ habsent r hr⟩
  rw [← hfl]
  exact ⟨fun hf => by rw [he', hr.1 hf], fun hf => by rw [he', hr.2 hf]⟩

/-! ### the listener contract -/

theorem flatMap_toList_eq_filterMap {α β} (l : List α) (f : α → Option β) : l.flatMap (fun a => (f a).toList) = l.filterMap f := by
  induction l with
  | nil => rfl
  | cons a t ih =>
    rw [List.flatMap_cons, List.filterMap_cons, ih]
    cases f a <;> rfl

/-- the pair a datagram record contributes to `async_update_records`: none for a goodbye of an uncached
record; otherwise the record as stored, with the cached copy `old` as the listener reads it during the call -/
def updatePair (now : Ms) (c c1 : Cache) (r : Rec) : Option (Rec × Option Rec) :=
  if r.ttl ≠ 0 ∨ (c.getUnique lower r).isSome then some (asStored now r, c1.getUnique lower (asStored now r)) else none

/-- **C06 (what the listeners are told, and when).**  After any history, for a datagram `recs` at `now`:
* `async_update_records` and `async_update_records_complete` are both called, or neither is; neither exactly
  when every record of the datagram is a goodbye for something that is not cached;
* the update list has, in datagram order, one `(new, old)` pair per record that is live or was cached; `new`
  carries the arrival time and the floored TTL; `old` is the cached copy if and only if one existed;
* at that moment the cache holds exactly the identities it held before the datagram — no new record has been
  added, no withdrawn record removed — and each cached record already shows its refreshed TTL or flush mark;
* at `async_update_records_complete` the cache is the post-state of `C06_post_state`. -/
theorem C06_calls (evs : List Event) (now : Ms) (recs : List Rec) :
    ∃ out, ingest lower (Cache.ops lower) (cacheAfter lower evs) now recs = .ok out
      ∧ out.call2 = out.call1.map (fun _ => out.cache)
      ∧ (out.call1 = none ↔ ∀ r ∈ recs, r.ttl = 0 ∧ (cacheAfter lower evs).getUnique lower r = none)
      ∧ ∀ pairs c1, out.call1 = some (pairs, c1) →
          pairs = recs.filterMap (updatePair lower now (cacheAfter lower evs) c1)
          ∧ ∀ q, match (cacheAfter lower evs).getUnique lower q with
                 | none => c1.getUnique lower q = none
                 | some e => ∃ e', c1.getUnique lower q = some e' ∧ Refreshed lower now recs e e' := by
  have href := ((Refines.empty lower).runEvents (by simp [Flat.WF]) evs).1
  obtain ⟨o, ho, _⟩ := Flat.postState (lower := lower) (specAfter lower evs) now recs
  have hsim := href.ingest now recs
  have hpre := href.ingestPre now recs
  obtain ⟨p1, p2, _, _, _⟩ := ingestPre_flat (lower := lower) (specAfter lower evs) now recs
  unfold specAfter at ho p1 p2
  unfold cacheAfter
  rw [ho] at hsim
  generalize hC : runEvents lower (Cache.ops lower) {} evs = C at *
  generalize hS : runEvents lower (Flat.ops lower) [] evs = S at *
  cases hc : ingest lower (Cache.ops lower) C now recs with
  | error e => rw [hc] at hsim; exact absurd hsim (by simp)
  | ok co =>
    refine ⟨co, rfl, ?_, ?_, ?_⟩
    · -- call2
      unfold Zc.ingest at hc
      simp only [] at hc
      cases hrm : removeAll (Cache.ops lower)
          (addAll (Cache.ops lower) (addAll (Cache.ops lower) (ingestPre lower (Cache.ops lower) C now recs).cache
            (ingestPre lower (Cache.ops lower) C now recs).addrAdds).1 (ingestPre lower (Cache.ops lower) C now recs).otherAdds).1
          (ingestPre lower (Cache.ops lower) C now recs).removes with
      | error e => rw [hrm] at hc; cases hc
      | ok c4 =>
        rw [hrm] at hc
        simp only [bind, Except.bind, pure, Except.pure, Except.ok.injEq] at hc
        subst hc
        simp only []
        split <;> rfl
    · -- nobody is called iff the update list is empty
      have hupd : (ingestPre lower (Cache.ops lower) C now recs).updates = (effective now recs).flatMap (fun r => (updOf lower now S r).toList) := by
        rw [hpre.updates, p2]
      have hcall : co.call1 = none ↔ (ingestPre lower (Cache.ops lower) C now recs).updates = [] := by
        unfold Zc.ingest at hc
        simp only [] at hc
        cases hrm : removeAll (Cache.ops lower)
            (addAll (Cache.ops lower) (addAll (Cache.ops lower) (ingestPre lower (Cache.ops lower) C now recs).cache
              (ingestPre lower (Cache.ops lower) C now recs).addrAdds).1 (ingestPre lower (Cache.ops lower) C now recs).otherAdds).1
            (ingestPre lower (Cache.ops lower) C now recs).removes with
        | error e => rw [hrm] at hc; cases hc
        | ok c4 =>
          rw [hrm] at hc
          simp only [bind, Except.bind, pure, Except.pure, Except.ok.injEq] at hc
          subst hc
          simp only []
          cases (ingestPre lower (Cache.ops lower) C now recs).updates <;> simp
      rw [hcall, hupd, effective_eq, List.flatMap_eq_nil_iff]
      constructor
      · intro h r hr
        have := h (asStored now r) (List.mem_map.2 ⟨r, hr, rfl⟩)
        unfold updOf at this
        rw [isExpired_asStored] at this
        by_cases hz : r.ttl = 0
        · simp only [hz, decide_true, Bool.not_true, Bool.false_eq_true, if_false] at this
          by_cases hp : Flat.pres lower S (asStored now r) = true
          · simp [hp] at this
          · refine ⟨hz, ?_⟩
            rw [href.getUnique r, Flat.getUnique_eq_none]
            rw [Flat.pres_congr S (ident_asStored now r).symm]
            simpa using hp
        · simp [hz] at this
      · intro h r' hr'
        obtain ⟨r, hr, rfl⟩ := List.mem_map.1 hr'
        obtain ⟨hz, hn⟩ := h r hr
        rw [href.getUnique r, Flat.getUnique_eq_none, Flat.pres_congr S (ident_asStored (lower := lower) now r).symm] at hn
        unfold updOf
        rw [isExpired_asStored]
        simp [hz, hn]
    · intro pairs c1 hcall
      rw [hc] at hsim
      obtain ⟨_, _, h3, _⟩ := hsim
      rw [hcall] at h3
      cases ho1 : o.call1 with
      | none => rw [ho1] at h3; exact absurd h3 (by simp)
      | some y =>
        rw [ho1] at h3
        simp only [] at h3
        obtain ⟨hp, hr1⟩ := h3
        -- the flat call
        have hy : y = (livePairs (Flat.ops lower) (ingestPre lower (Flat.ops lower) S now recs).cache (ingestPre lower (Flat.ops lower) S now recs).updates,
                       (ingestPre lower (Flat.ops lower) S now recs).cache) := by
          unfold Zc.ingest at ho
          simp only [] at ho
          cases hrm : removeAll (Flat.ops lower)
              (addAll (Flat.ops lower) (addAll (Flat.ops lower) (ingestPre lower (Flat.ops lower) S now recs).cache
                (ingestPre lower (Flat.ops lower) S now recs).addrAdds).1 (ingestPre lower (Flat.ops lower) S now recs).otherAdds).1
              (ingestPre lower (Flat.ops lower) S now recs).removes with
          | error e => rw [hrm] at ho; cases ho
          | ok c4 =>
            rw [hrm] at ho
            simp only [bind, Except.bind, pure, Except.pure, Except.ok.injEq] at ho
            subst ho
            simp only [] at ho1
            split at ho1
            · cases ho1
            · exact (Option.some.inj ho1).symm
        have hsnap : ∀ q, c1.getUnique lower q = (Flat.getUnique lower S q).map (fun e => markOne lower now (effective now recs) (refresh lower now (effective now recs) e)) := by
          intro q
          rw [hr1.getUnique q, hy]
          simp only []
          rw [p1, Flat.getUnique_map _ _ (fun e => ident_markOne now _ e), Flat.getUnique_map _ _ (fun e => ident_refresh now _ e), Option.map_map]
          rfl
        constructor
        · rw [hp, hy]
          simp only []
          rw [p2, effective_eq]
          unfold livePairs
          rw [← flatMap_toList_eq_filterMap, List.flatMap_map, List.map_flatMap]
          congr 1; funext r
          unfold updatePair updOf
          rw [isExpired_asStored, href.getUnique r, Flat.getUnique_isSome, Flat.pres_congr S (ident_asStored (lower := lower) now r)]
          have hc1 : c1.getUnique lower (asStored now r) = (Flat.ops lower).getUnique (ingestPre lower (Flat.ops lower) S now recs).cache (asStored now r) := by
            rw [hr1.getUnique, hy]; rfl
          by_cases hz : r.ttl = 0
          · by_cases hpr : Flat.pres lower S r = true
            · simp [hz, hpr, hc1]
            · simp [hz, hpr]
          · by_cases hpr : Flat.pres lower S r = true
            · simp [hz, hpr, hc1]
            · have hnone : c1.getUnique lower (asStored now r) = none := by
                rw [hsnap, (Flat.getUnique_eq_none S _).2 (by rw [Flat.pres_congr S (ident_asStored (lower := lower) now r)]; simpa using hpr)]; rfl
              simp [hz, hpr, hnone]
        · intro q
          rw [href.getUnique q, hsnap q]
          cases Flat.getUnique lower S q with
          | none => rfl
          | some e => exact ⟨_, rfl, refreshed_markOne_refresh now recs e⟩

/-! ### who is called -/

section
variable {catches : Bool}

/-- the live listener set stays a set under callbacks -/
theorem applyAct_nodup (ls : List Nat) (h : ls.Nodup) (a : ListenerAct) (ls' : List Nat) (ha : applyAct catches ls a = .ok ls') : ls'.Nodup := by
  cases a with
  | add l =>
    simp only [applyAct, Except.ok.injEq] at ha
    subst ha
    split
    · exact h
    · rename_i hc
      rw [List.nodup_append]
      refine ⟨h, by simp, ?_⟩
      intro a ha b hb
      simp only [List.mem_singleton] at hb; subst hb
      intro heq; subst heq
      exact hc (by simpa using ha)
  | remove l =>
    simp only [applyAct] at ha
    split at ha
    · cases ha; exact List.Nodup.sublist List.filter_sublist h
    · split at ha
      · cases ha; exact h
      · cases ha

theorem runActs_nodup (live : List Nat) (h : live.Nodup) (acts : List ListenerAct) : (runActs catches live acts).1.Nodup := by
  unfold runActs
  have gen : ∀ (st : List Nat × Option PyExc), st.1.Nodup →
      (acts.foldl (fun st a => match st.2 with
        | some _ => st
        | none => match applyAct catches st.1 a with
          | .ok l => (l, none)
          | .error e => (st.1, some e)) st).1.Nodup := by
    induction acts with
    | nil => intro st hs; exact hs
    | cons a t ih =>
      intro st hs
      simp only [List.foldl_cons]
      apply ih
      cases h2 : st.2 with
      | some e => simp only []; exact hs
      | none =>
        simp only []
        cases h3 : applyAct catches st.1 a with
        | ok l => exact applyAct_nodup st.1 hs a l h3
        | error e => exact hs
  exact gen (live, none) h

/-- the loop of `async_updates` / `async_updates_complete` from an arbitrary intermediate state -/
def roundFrom (catches : Bool) (react : Nat → List ListenerAct) (todo : List Nat) (st : Round) : Round :=
  todo.foldl (fun st l =>
    match st.err with
    | some _ => st
    | none =>
      let r := runActs catches st.live (react l)
      { called := st.called ++ [l], live := r.1, err := r.2 }) st

theorem roundFrom_err (react : Nat → List ListenerAct) (todo : List Nat) (st : Round) (e : PyExc) (h : st.err = some e) :
    roundFrom catches react todo st = st := by
  induction todo with
  | nil => rfl
  | cons l t ih =>
    unfold roundFrom at ih ⊢
    simp only [List.foldl_cons, h]
    exact ih

theorem roundFrom_spec (react : Nat → List ListenerAct) (todo : List Nat) (st : Round) (hn : st.live.Nodup) :
    ∃ k, (roundFrom catches react todo st).called = st.called ++ k ∧ k <+: todo
      ∧ ((roundFrom catches react todo st).err = none → st.err = none ∧ k = todo)
      ∧ (roundFrom catches react todo st).live.Nodup := by
  induction todo generalizing st with
  | nil => exact ⟨[], by simp [roundFrom], List.prefix_refl _, fun h => ⟨h, rfl⟩, hn⟩
  | cons l t ih =>
    cases he : st.err with
    | some e =>
      rw [roundFrom_err react (l :: t) st e he]
      exact ⟨[], by simp, List.nil_prefix, (fun h => by rw [he] at h; cases h), hn⟩
    | none =>
      have hstep : roundFrom catches react (l :: t) st
          = roundFrom catches react t { called := st.called ++ [l], live := (runActs catches st.live (react l)).1, err := (runActs catches st.live (react l)).2 } := by
        unfold roundFrom
        simp only [List.foldl_cons, he]
      rw [hstep]
      obtain ⟨k, h1, h2, h3, h4⟩ := ih { called := st.called ++ [l], live := (runActs catches st.live (react l)).1, err := (runActs catches st.live (react l)).2 }
        (runActs_nodup st.live hn (react l))
      refine ⟨l :: k, by rw [h1]; simp, ?_, fun h => ⟨rfl, by rw [(h3 h).2]⟩, h4⟩
      exact List.prefix_cons_inj l |>.2 h2

/-! ### the snapshot semantics, said out loud -/

theorem applyAct_mem_of_ne {live live' : List Nat} {a : ListenerAct} {x : Nat} (h : applyAct catches live a = .ok live')
    (hx : x ∈ live) (hne : a ≠ .remove x) : x ∈ live' := by
  cases a with
  | add l =>
    simp only [applyAct, Except.ok.injEq] at h; subst h
    split
    · exact hx
    · exact List.mem_append_left _ hx
  | remove l =>
    simp only [applyAct] at h
    split at h
    · cases h
      rw [List.mem_filter]
      refine ⟨hx, ?_⟩
      have : x ≠ l := fun e => hne (by rw [e])
      simpa using this
    · split at h
      · cases h; exact hx
      · cases h

theorem applyAct_not_mem_of_ne {live live' : List Nat} {a : ListenerAct} {x : Nat} (h : applyAct catches live a = .ok live')
    (hx : x ∉ live) (hne : a ≠ .add x) : x ∉ live' := by
  cases a with
  | add l =>
    simp only [applyAct, Except.ok.injEq] at h; subst h
    split
    · exact hx
    · intro hm
      rcases List.mem_append.1 hm with hm | hm
      · exact hx hm
      · simp only [List.mem_singleton] at hm; exact hne (by rw [hm])
  | remove l =>
    simp only [applyAct] at h
    split at h
    · cases h; intro hm; exact hx (List.mem_filter.1 hm).1
    · split at h
      · cases h; exact hx
      · cases h

/-- the body of one callback, from an intermediate state -/
def actsFrom (catches : Bool) (acts : List ListenerAct) (st : List Nat × Option PyExc) : List Nat × Option PyExc :=
  acts.foldl (fun st a =>
    match st.2 with
    | some _ => st
    | none => match applyAct catches st.1 a with
      | .ok l => (l, none)
      | .error e => (st.1, some e)) st

theorem runActs_eq (live : List Nat) (acts : List ListenerAct) : runActs catches live acts = actsFrom catches acts (live, none) := rfl

theorem actsFrom_err (acts : List ListenerAct) (st : List Nat × Option PyExc) (e : PyExc) (h : st.2 = some e) : actsFrom catches acts st = st := by
  induction acts with
  | nil => rfl
  | cons a t ih => unfold actsFrom at ih ⊢; simp only [List.foldl_cons, h]; exact ih

theorem actsFrom_persist (acts : List ListenerAct) (st : List Nat × Option PyExc) (x : Nat) (hx : x ∈ st.1)
    (hno : ListenerAct.remove x ∉ acts) : x ∈ (actsFrom catches acts st).1 := by
  induction acts generalizing st with
  | nil => exact hx
  | cons a t ih =>
    have hno' : ListenerAct.remove x ∉ t := fun h => hno (List.mem_cons_of_mem _ h)
    have hne : a ≠ .remove x := fun h => hno (by rw [h]; simp)
    unfold actsFrom at ih ⊢
    simp only [List.foldl_cons]
    apply ih _ _ hno'
    cases h2 : st.2 with
    | some e => exact hx
    | none =>
      simp only []
      cases h3 : applyAct catches st.1 a with
      | ok l => exact applyAct_mem_of_ne h3 hx hne
      | error e => exact hx

theorem actsFrom_absent (acts : List ListenerAct) (st : List Nat × Option PyExc) (x : Nat) (hx : x ∉ st.1)
    (hno : ListenerAct.add x ∉ acts) : x ∉ (actsFrom catches acts st).1 := by
  induction acts generalizing st with
  | nil => exact hx
  | cons a t ih =>
    have hno' : ListenerAct.add x ∉ t := fun h => hno (List.mem_cons_of_mem _ h)
    have hne : a ≠ .add x := fun h => hno (by rw [h]; simp)
    unfold actsFrom at ih ⊢
    simp only [List.foldl_cons]
    apply ih _ _ hno'
    cases h2 : st.2 with
    | some e => exact hx
    | none =>
      simp only []
      cases h3 : applyAct catches st.1 a with
      | ok l => exact applyAct_not_mem_of_ne h3 hx hne
      | error e => exact hx

theorem actsFrom_added (acts : List ListenerAct) (st : List Nat × Option PyExc) (x : Nat)
    (hadd : ListenerAct.add x ∈ acts) (hno : ListenerAct.remove x ∉ acts) (hok : (actsFrom catches acts st).2 = none) :
    x ∈ (actsFrom catches acts st).1 := by
  induction acts generalizing st with
  | nil => cases hadd
  | cons a t ih =>
    have hno' : ListenerAct.remove x ∉ t := fun h => hno (List.mem_cons_of_mem _ h)
    have hst : st.2 = none := by
      cases h2 : st.2 with
      | none => rfl
      | some e => rw [actsFrom_err _ st e h2, h2] at hok; cases hok
    have hstep : actsFrom catches (a :: t) st = actsFrom catches t (match applyAct catches st.1 a with | .ok l => (l, none) | .error e => (st.1, some e)) := by
      unfold actsFrom; simp only [List.foldl_cons, hst]
    rw [hstep] at hok ⊢
    cases h3 : applyAct catches st.1 a with
    | error e =>
      rw [h3] at hok; simp only [] at hok
      rw [actsFrom_err _ _ e rfl] at hok; cases hok
    | ok l =>
      rw [h3] at hok; simp only [] at hok ⊢
      rcases List.mem_cons.1 hadd with heq | hin
      · apply actsFrom_persist _ _ _ _ hno'
        rw [← heq] at h3
        simp only [applyAct, Except.ok.injEq] at h3; subst h3
        simp only []
        split
        · rename_i hc; simpa using hc
        · simp
      · exact ih _ hin hno' hok

theorem actsFrom_removed (acts : List ListenerAct) (st : List Nat × Option PyExc) (x : Nat)
    (hrem : ListenerAct.remove x ∈ acts) (hno : ListenerAct.add x ∉ acts) (hok : (actsFrom catches acts st).2 = none) :
    x ∉ (actsFrom catches acts st).1 := by
  induction acts generalizing st with
  | nil => cases hrem
  | cons a t ih =>
    have hno' : ListenerAct.add x ∉ t := fun h => hno (List.mem_cons_of_mem _ h)
    have hst : st.2 = none := by
      cases h2 : st.2 with
      | none => rfl
      | some e => rw [actsFrom_err _ st e h2, h2] at hok; cases hok
    have hstep : actsFrom catches (a :: t) st = actsFrom catches t (match applyAct catches st.1 a with | .ok l => (l, none) | .error e => (st.1, some e)) := by
      unfold actsFrom; simp only [List.foldl_cons, hst]
    rw [hstep] at hok ⊢
    cases h3 : applyAct catches st.1 a with
    | error e =>
      rw [h3] at hok; simp only [] at hok
      rw [actsFrom_err _ _ e rfl] at hok; cases hok
    | ok l =>
      rw [h3] at hok; simp only [] at hok ⊢
      rcases List.mem_cons.1 hrem with heq | hin
      · apply actsFrom_absent _ _ _ _ hno'
        rw [← heq] at h3
        simp only [applyAct] at h3
        split at h3
        · cases h3; simp
        · rename_i hnc
          split at h3
          · cases h3; simpa using hnc
          · cases h3
      · exact ih _ hin hno' hok

theorem roundFrom_ok_of_ok (react : Nat → List ListenerAct) (todo : List Nat) (st : Round)
    (h : (roundFrom catches react todo st).err = none) : st.err = none := by
  cases he : st.err with
  | none => rfl
  | some e => rw [roundFrom_err react todo st e he, he] at h; cases h

theorem roundFrom_cons (react : Nat → List ListenerAct) (l : Nat) (t : List Nat) (st : Round) (he : st.err = none) :
    roundFrom catches react (l :: t) st
      = roundFrom catches react t { called := st.called ++ [l], live := (runActs catches st.live (react l)).1, err := (runActs catches st.live (react l)).2 } := by
  unfold roundFrom; simp only [List.foldl_cons, he]

theorem roundFrom_persist (react : Nat → List ListenerAct) (todo : List Nat) (st : Round) (x : Nat) (hx : x ∈ st.live)
    (hno : ∀ l ∈ todo, ListenerAct.remove x ∉ react l) : x ∈ (roundFrom catches react todo st).live := by
  induction todo generalizing st with
  | nil => exact hx
  | cons l t ih =>
    cases he : st.err with
    | some e => rw [roundFrom_err react _ st e he]; exact hx
    | none =>
      rw [roundFrom_cons react l t st he]
      exact ih _ (by rw [runActs_eq]; exact actsFrom_persist _ _ x hx (hno l (by simp))) (fun l' hl' => hno l' (by simp [hl']))

theorem roundFrom_absent (react : Nat → List ListenerAct) (todo : List Nat) (st : Round) (x : Nat) (hx : x ∉ st.live)
    (hno : ∀ l ∈ todo, ListenerAct.add x ∉ react l) : x ∉ (roundFrom catches react todo st).live := by
  induction todo generalizing st with
  | nil => exact hx
  | cons l t ih =>
    cases he : st.err with
    | some e => rw [roundFrom_err react _ st e he]; exact hx
    | none =>
      rw [roundFrom_cons react l t st he]
      exact ih _ (by rw [runActs_eq]; exact actsFrom_absent _ _ x hx (hno l (by simp))) (fun l' hl' => hno l' (by simp [hl']))

/-- with the copy, the round is the plain loop over the snapshot -/
theorem notifyRoundWith_eq_roundFrom (ls : List Nat) (react : Nat → List ListenerAct) :
    notifyRoundWith true catches ls react = roundFrom catches react ls { called := [], live := ls, err := none } := by
  unfold notifyRoundWith roundFrom
  simp
  rfl

theorem roundFrom_called_ok (react : Nat → List ListenerAct) (todo : List Nat) (st : Round)
    (h : (roundFrom catches react todo st).err = none) : (roundFrom catches react todo st).called = st.called ++ todo := by
  induction todo generalizing st with
  | nil => simp [roundFrom]
  | cons l t ih =>
    have he := roundFrom_ok_of_ok react _ st h
    rw [roundFrom_cons react l t st he] at h ⊢
    rw [ih _ h]; simp

/-- whatever `async_remove_listener` catches: the listeners called are an initial segment of the snapshot taken at the start
of the round, each at most once; if the round does not raise it is the whole snapshot, each exactly once; the live set stays
duplicate-free -/
theorem round_general (ls : List Nat) (hnodup : ls.Nodup) (react : Nat → List ListenerAct) :
    (notifyRoundWith true catches ls react).called <+: ls
    ∧ (∀ l, (notifyRoundWith true catches ls react).called.count l ≤ 1)
    ∧ ((notifyRoundWith true catches ls react).err = none →
        (notifyRoundWith true catches ls react).called = ls
        ∧ ∀ l, (notifyRoundWith true catches ls react).called.count l = if l ∈ ls then 1 else 0)
    ∧ (notifyRoundWith true catches ls react).live.Nodup := by
  obtain ⟨k, h1, h2, h3, h4⟩ := roundFrom_spec (catches := catches) react ls { called := [], live := ls, err := none } hnodup
  rw [notifyRoundWith_eq_roundFrom]
  have hcalled : (roundFrom catches react ls { called := [], live := ls, err := none }).called = k := by
    rw [h1]; simp
  have hknodup : k.Nodup := List.Nodup.sublist h2.sublist hnodup
  refine ⟨hcalled ▸ h2, fun l => ?_, fun herr => ?_, h4⟩
  · rw [hcalled]; exact List.nodup_iff_count.1 hknodup l
  · have hk := (h3 herr).2
    rw [hcalled, hk]
    exact ⟨rfl, fun l => List.Nodup.count hnodup⟩

/-- snapshot semantics of a round, whatever `async_remove_listener` catches.  Whatever the callbacks do:
* a listener that is not in the snapshot is not called in this round, even if a callback adds it;
* if the round does not raise, a listener of the snapshot is called even if a callback removes it;
* afterwards (no raise): a listener some callback added and none removed is registered — it will be called from the next
  round on; a listener some callback removed and none added is not; a listener nobody touched is registered iff it was. -/
theorem snapshot_semantics_general (ls : List Nat) (react : Nat → List ListenerAct) (x : Nat) :
    (x ∉ ls → x ∉ (notifyRoundWith true catches ls react).called)
    ∧ ((notifyRoundWith true catches ls react).err = none → x ∈ ls → x ∈ (notifyRoundWith true catches ls react).called)
    ∧ ((notifyRoundWith true catches ls react).err = none → (∃ l ∈ ls, ListenerAct.add x ∈ react l) → (∀ l ∈ ls, ListenerAct.remove x ∉ react l) →
        x ∈ (notifyRoundWith true catches ls react).live)
    ∧ ((notifyRoundWith true catches ls react).err = none → (∃ l ∈ ls, ListenerAct.remove x ∈ react l) → (∀ l ∈ ls, ListenerAct.add x ∉ react l) →
        x ∉ (notifyRoundWith true catches ls react).live)
    ∧ ((∀ l ∈ ls, ListenerAct.add x ∉ react l ∧ ListenerAct.remove x ∉ react l) → (x ∈ (notifyRoundWith true catches ls react).live ↔ x ∈ ls)) := by
  rw [notifyRoundWith_eq_roundFrom]
  refine ⟨?_, ?_, ?_, ?_, ?_⟩
  · intro hx hc
    -- called is a prefix of the snapshot (no Nodup needed for this direction)
    have gen : ∀ (todo : List Nat) (st : Round), ∀ y ∈ (roundFrom catches react todo st).called, y ∈ st.called ∨ y ∈ todo := by
      intro todo
      induction todo with
      | nil => intro st y hy; exact Or.inl hy
      | cons l t ih =>
        intro st y hy
        cases he : st.err with
        | some e => rw [roundFrom_err react _ st e he] at hy; exact Or.inl hy
        | none =>
          rw [roundFrom_cons react l t st he] at hy
          rcases ih _ y hy with h | h
          · simp only [List.mem_append, List.mem_singleton] at h
            rcases h with h | h
            · exact Or.inl h
            · exact Or.inr (by simp [h])
          · exact Or.inr (List.mem_cons_of_mem _ h)
    rcases gen ls _ x hc with h | h
    · cases h
    · exact hx h
  · intro herr hx
    have gen : ∀ (todo : List Nat) (st : Round), (roundFrom catches react todo st).err = none → ∀ y ∈ todo, y ∈ (roundFrom catches react todo st).called := by
      intro todo
      induction todo with
      | nil => intro st _ y hy; cases hy
      | cons l t ih =>
        intro st hok y hy
        have he := roundFrom_ok_of_ok react _ st hok
        rw [roundFrom_cons react l t st he] at hok ⊢
        rcases List.mem_cons.1 hy with rfl | hy'
        · -- called only grows
          have grow : ∀ (todo : List Nat) (st : Round), ∀ z ∈ st.called, z ∈ (roundFrom catches react todo st).called := by
            intro todo
            induction todo with
            | nil => intro st z hz; exact hz
            | cons l' t' ih' =>
              intro st z hz
              cases he' : st.err with
              | some e => rw [roundFrom_err react _ st e he']; exact hz
              | none => rw [roundFrom_cons react l' t' st he']; exact ih' _ z (by simp [hz])
          exact grow t _ y (by simp)
        · exact ih _ hok y hy'
    exact gen ls _ herr x hx
  · intro herr ⟨l0, hl0, hadd⟩ hno
    have gen : ∀ (todo : List Nat) (st : Round), (roundFrom catches react todo st).err = none → l0 ∈ todo →
        (∀ l ∈ todo, ListenerAct.remove x ∉ react l) → x ∈ (roundFrom catches react todo st).live := by
      intro todo
      induction todo with
      | nil => intro st _ h; cases h
      | cons l t ih =>
        intro st hok hin hno
        have he := roundFrom_ok_of_ok react _ st hok
        rw [roundFrom_cons react l t st he] at hok ⊢
        rcases List.mem_cons.1 hin with heq | hin'
        · subst heq
          have hok2 := roundFrom_ok_of_ok react t _ hok
          simp only [] at hok2
          apply roundFrom_persist react t _ x _ (fun l' hl' => hno l' (by simp [hl']))
          rw [runActs_eq] at hok2 ⊢
          exact actsFrom_added _ _ x hadd (hno l0 (by simp)) hok2
        · exact ih _ hok hin' (fun l' hl' => hno l' (by simp [hl']))
    exact gen ls _ herr hl0 hno
  · intro herr ⟨l0, hl0, hrem⟩ hno
    have gen : ∀ (todo : List Nat) (st : Round), (roundFrom catches react todo st).err = none → l0 ∈ todo →
        (∀ l ∈ todo, ListenerAct.add x ∉ react l) → x ∉ (roundFrom catches react todo st).live := by
      intro todo
      induction todo with
      | nil => intro st _ h; cases h
      | cons l t ih =>
        intro st hok hin hno
        have he := roundFrom_ok_of_ok react _ st hok
        rw [roundFrom_cons react l t st he] at hok ⊢
        rcases List.mem_cons.1 hin with heq | hin'
        · subst heq
          have hok2 := roundFrom_ok_of_ok react t _ hok
          simp only [] at hok2
          apply roundFrom_absent react t _ x _ (fun l' hl' => hno l' (by simp [hl']))
          rw [runActs_eq] at hok2 ⊢
          exact actsFrom_removed _ _ x hrem (hno l0 (by simp)) hok2
        · exact ih _ hok hin' (fun l' hl' => hno l' (by simp [hl']))
    exact gen ls _ herr hl0 hno
  · intro hno
    constructor
    · intro hx
      by_cases hin : x ∈ ls
      · exact hin
      · exact absurd hx (roundFrom_absent react ls _ x hin (fun l hl => (hno l hl).1))
    · intro hx
      exact roundFrom_persist react ls _ x hx (fun l hl => (hno l hl).2)

end

/-! #### the code as it is (D18 repaired): a round never raises -/

theorem applyAct_true_ok (ls : List Nat) (a : ListenerAct) : ∃ l, applyAct true ls a = .ok l := by
  cases a with
  | add l => exact ⟨_, rfl⟩
  | remove l =>
    simp only [applyAct]
    split
    · exact ⟨_, rfl⟩
    · exact ⟨_, rfl⟩

theorem actsFrom_true_ok (acts : List ListenerAct) (st : List Nat × Option PyExc) (h : st.2 = none) :
    (actsFrom true acts st).2 = none := by
  induction acts generalizing st with
  | nil => exact h
  | cons a t ih =>
    unfold actsFrom at ih ⊢
    simp only [List.foldl_cons, h]
    obtain ⟨l, hl⟩ := applyAct_true_ok st.1 a
    rw [hl]
    exact ih _ rfl

theorem roundFrom_true_ok (react : Nat → List ListenerAct) (todo : List Nat) (st : Round) (h : st.err = none) :
    (roundFrom true react todo st).err = none := by
  induction todo generalizing st with
  | nil => exact h
  | cons l t ih =>
    rw [roundFrom_cons react l t st h]
    apply ih
    show (runActs true st.live (react l)).2 = none
    rw [runActs_eq]
    exact actsFrom_true_ok _ _ rfl

/-- removing a listener that is not registered is a logged no-op: no callback can make a round raise -/
theorem notifyRound_ok (ls : List Nat) (react : Nat → List ListenerAct) : (notifyRound ls react).err = none := by
  unfold notifyRound
  rw [notifyRoundWith_eq_roundFrom]
  exact roundFrom_true_ok react ls _ rfl

/-- **C06 (who is called), the sentence**: in a notification round every listener registered at its start (the snapshot) is
called exactly once, whatever the callbacks do to the listener set.  `catches`: does `async_remove_listener` catch the
`KeyError` of `set.remove`? -/
def C06_listeners_statement (catches : Bool) : Prop :=
  ∀ (ls : List Nat), ls.Nodup → ∀ react : Nat → List ListenerAct, ∀ l,
    (notifyRoundWith true catches ls react).called.count l = if l ∈ ls then 1 else 0

/-- **C06 (who is called).**  Listeners are notified on a copy of the listener set: in a round every listener registered
at its start is called exactly once, in the snapshot's order, whatever the callbacks do to the set — add listeners, remove
listeners (themselves, each other, twice, or ones that were never registered); the round never raises and the live set
stays a set.  (`notifyRound` is the round with the two facts the translator reads off the code: the set is copied, and
`async_remove_listener` catches `KeyError`.) -/
theorem C06_listeners (ls : List Nat) (hnodup : ls.Nodup) (react : Nat → List ListenerAct) :
    (notifyRound ls react).called = ls
    ∧ (∀ l, (notifyRound ls react).called.count l = if l ∈ ls then 1 else 0)
    ∧ (notifyRound ls react).err = none
    ∧ (notifyRound ls react).live.Nodup := by
  have hok := notifyRound_ok ls react
  obtain ⟨_, _, h3, h4⟩ := round_general (catches := true) ls hnodup react
  exact ⟨(h3 hok).1, (h3 hok).2, hok, h4⟩

theorem C06_listeners_full : C06_listeners_statement true :=
  fun ls hn react l => (C06_listeners ls hn react).2.1 l

/-- **D18, before the repair** (1ae3781): with `except ValueError` only, the sentence was false.  Listener 1 removes listener 2;
listener 2 — still called, the set was copied — removes itself, as a browser's `_async_cancel` or a lookup's `finally`
would: the round ended there and listener 3 was never called. -/
theorem C06_listeners_before_fix_refuted : ¬ C06_listeners_statement false := by
  intro h
  have := h [1, 2, 3] (by decide) (fun l => if l = 1 then [.remove 2] else if l = 2 then [.remove 2] else []) 3
  revert this
  decide

/-- … and the datagram was lost: its new record was never cached, no `async_update_records_complete` was delivered, and the
exception propagated out of `async_updates_from_response`; with the repair the same datagram is delivered completely -/
theorem C06_remove_absent_aborted_ingestion_before_fix :
    (∃ d, deliverWith true true false id id {} [1, 2, 3] 1000 [⟨"a.local.", 1, 1, false, 120, 0, .addr [10, 0, 0, 1] none⟩]
        (fun l => if l = 1 then [.remove 2] else if l = 2 then [.remove 2] else []) (fun _ => []) = .ok d
      ∧ d.err = some .keyError ∧ d.round1 = [1, 2] ∧ d.round2 = []
      ∧ d.cache.getUnique id ⟨"a.local.", 1, 1, false, 120, 0, .addr [10, 0, 0, 1] none⟩ = none)
    ∧ (∃ d, deliverWith true true true id id {} [1, 2, 3] 1000 [⟨"a.local.", 1, 1, false, 120, 0, .addr [10, 0, 0, 1] none⟩]
        (fun l => if l = 1 then [.remove 2] else if l = 2 then [.remove 2] else []) (fun _ => []) = .ok d
      ∧ d.err = none ∧ d.round1 = [1, 2, 3] ∧ d.round2 = [1, 3]
      ∧ (d.cache.getUnique id ⟨"a.local.", 1, 1, false, 120, 0, .addr [10, 0, 0, 1] none⟩).isSome = true) :=
  ⟨⟨_, rfl, by decide, by decide, by decide, by decide⟩, ⟨_, rfl, by decide, by decide, by decide, by decide⟩⟩

/-- **C06 (the two rounds of a datagram).**  If the datagram has updates, round 1 (`async_update_records`) is the snapshot of
the listener set at arrival, round 2 (`async_update_records_complete`) the snapshot of the set as round 1 left it — so a
listener added during round 1 gets the complete call only, one removed during round 1 the update call only — nothing
raises, and the cache at the end is the post-state; without updates nobody is called. -/
theorem C06_deliver_rounds (order : List Nat → List Nat) (c : Cache) (ls : List Nat) (now : Ms) (recs : List Rec)
    (react1 react2 : Nat → List ListenerAct) (d : Delivery) (hd : deliver lower order c ls now recs react1 react2 = .ok d) :
    d.err = none ∧ d.cache = d.out.cache
    ∧ match d.out.call1 with
      | none => d.round1 = [] ∧ d.round2 = []
      | some _ => d.round1 = order ls ∧ d.round2 = order (notifyRound (order ls) react1).live := by
  unfold deliver deliverWith at hd
  have hdef : ∀ (l : List Nat) (r : Nat → List ListenerAct), notifyRoundWith true true l r = notifyRound l r := fun _ _ => rfl
  simp only [updates_iterates_copy_eq, complete_iterates_copy_eq, remove_listener_catches_keyerror_eq, hdef] at hd
  have hcalled : ∀ (l : List Nat) (r : Nat → List ListenerAct), (notifyRound l r).called = l := by
    intro l r
    have h := notifyRound_ok l r
    unfold notifyRound at h ⊢
    rw [notifyRoundWith_eq_roundFrom] at h ⊢
    rw [roundFrom_called_ok r l _ h]; simp
  cases hi : ingest lower (Cache.ops lower) c now recs with
  | error e => rw [hi] at hd; cases hd
  | ok out =>
    rw [hi] at hd
    simp only [bind, Except.bind] at hd
    cases hc : out.call1 with
    | none =>
      rw [hc] at hd
      simp only [pure, Except.pure, Except.ok.injEq] at hd
      subst hd
      simp [hc]
    | some call =>
      rw [hc] at hd
      simp only [notifyRound_ok] at hd
      simp only [pure, Except.pure, Except.ok.injEq] at hd
      subst hd
      simp [hc, hcalled, notifyRound_ok]

/-- **C06 (snapshot semantics of a round).**  Whatever the callbacks do:
* a listener that is not in the snapshot is not called in this round, even if a callback adds it;
* a listener of the snapshot is called even if a callback removes it;
* afterwards a listener some callback added and none removed is registered — it will be called from the next round on; a
  listener some callback removed and none added is not; a listener nobody touched is registered iff it was. -/
theorem C06_snapshot_semantics (ls : List Nat) (react : Nat → List ListenerAct) (x : Nat) :
    (x ∉ ls → x ∉ (notifyRound ls react).called)
    ∧ (x ∈ ls → x ∈ (notifyRound ls react).called)
    ∧ ((∃ l ∈ ls, ListenerAct.add x ∈ react l) → (∀ l ∈ ls, ListenerAct.remove x ∉ react l) → x ∈ (notifyRound ls react).live)
    ∧ ((∃ l ∈ ls, ListenerAct.remove x ∈ react l) → (∀ l ∈ ls, ListenerAct.add x ∉ react l) → x ∉ (notifyRound ls react).live)
    ∧ ((∀ l ∈ ls, ListenerAct.add x ∉ react l ∧ ListenerAct.remove x ∉ react l) → (x ∈ (notifyRound ls react).live ↔ x ∈ ls)) := by
  have hok := notifyRound_ok ls react
  obtain ⟨h1, h2, h3, h4, h5⟩ := snapshot_semantics_general (catches := true) ls react x
  exact ⟨h1, h2 hok, h3 hok, h4 hok, h5⟩

/-- what a delivery shows the listeners is the one `ingest` of C06_post_state / C06_calls: every listener of round 1 is
handed `d.out.call1` (the pair list and the cache of `C06_calls`), every listener of round 2 sees `d.out.cache` -/
theorem C06_delivery_out (order : List Nat → List Nat) (c : Cache) (ls : List Nat) (now : Ms) (recs : List Rec)
    (react1 react2 : Nat → List ListenerAct) (d : Delivery) (hd : deliver lower order c ls now recs react1 react2 = .ok d) :
    ingest lower (Cache.ops lower) c now recs = .ok d.out := by
  unfold deliver deliverWith at hd
  cases hi : ingest lower (Cache.ops lower) c now recs with
  | error e => rw [hi] at hd; cases hd
  | ok out =>
    rw [hi] at hd
    simp only [bind, Except.bind] at hd
    cases hc : out.call1 with
    | none => rw [hc] at hd; cases hd; rfl
    | some call =>
      rw [hc] at hd
      simp only [] at hd
      split at hd
      · cases hd; rfl
      · cases hd; rfl

/-! non-vacuity -/

/-- the flush fires one millisecond after the second: an address cached at 1000 ms, a cache-flush sibling arriving at
2001 ms marks it `(2001, 1)`; arriving at 2000 ms it leaves it alone -/
example :
    let a1 : Rec := ⟨"h.local.", 1, 1, true, 120, 0, .addr [10, 0, 0, 1] none⟩
    let a2 : Rec := ⟨"h.local.", 1, 1, true, 120, 0, .addr [10, 0, 0, 2] none⟩
    (((ingest id (Cache.ops id) (cacheAfter id [.datagram 1000 [a1]]) 2001 [a2]).toOption.bind
        (fun o => o.cache.getUnique id a1)).map (fun e => (e.created, e.ttl)) = some (2001, 1))
    ∧ (((ingest id (Cache.ops id) (cacheAfter id [.datagram 1000 [a1]]) 2000 [a2]).toOption.bind
        (fun o => o.cache.getUnique id a1)).map (fun e => (e.created, e.ttl)) = some (1000, 120)) := by
  decide

/-- a goodbye, a refresh, a flush victim and a new record in one datagram: the TXT is withdrawn, the PTR refreshed (TTL
floored to 1125), the old address marked `(5000, 1)`, the new address stored -/
example :
    let txt : Rec := ⟨"h._x._tcp.local.", 16, 1, false, 4500, 0, .txt []⟩
    let ptr : Rec := ⟨"_x._tcp.local.", 12, 1, false, 4500, 0, .ptr "h._x._tcp.local."⟩
    let a1 : Rec := ⟨"a.local.", 1, 1, true, 120, 0, .addr [10, 0, 0, 1] none⟩
    let a2 : Rec := ⟨"a.local.", 1, 1, true, 120, 0, .addr [10, 0, 0, 2] none⟩
    let res := (ingest id (Cache.ops id) (cacheAfter id [.datagram 1000 [txt, ptr, a1]]) 5000
        [{ txt with ttl := 0 }, { ptr with ttl := 60 }, a2]).toOption
    (res.bind (fun o => o.cache.getUnique id txt)) = none
    ∧ (res.bind (fun o => o.cache.getUnique id ptr)).map (fun e => (e.created, e.ttl)) = some (5000, 1125)
    ∧ (res.bind (fun o => o.cache.getUnique id a1)).map (fun e => (e.created, e.ttl)) = some (5000, 1)
    ∧ (res.bind (fun o => o.cache.getUnique id a2)).map (fun e => (e.created, e.ttl)) = some (5000, 120)
    ∧ (res.map (fun o => o.call1.isSome)) = some true := by
  decide

end
end Zc
