import Zc.Proofs.PostState
import Zc.Proofs.Listeners
import Zc.Proofs.Reentrant
import Zc.Proofs.BrowserReentrant
import Zc.Props.C05
/-! # C06 — response ingestion and the record-update listener contract

`Zc.ingest` is `RecordManager.async_updates_from_response` line by line (PTR floor, unique set, the
`(expired?, cached?)` branch, flush mark, `async_updates`, address adds, other adds, removes,
`async_updates_complete`), run on the indexed cache of C05.  The theorems hold after **any** prior history
of datagrams and purges (`cacheAfter lower evs`), for any datagram `recs` arriving at any `now`, for any
`str.lower`.  Numbers (1125 s, 1000 ms, 1 s) are the property's; `Zc/GenFacts/Cache.lean` ties them to
`_DNS_PTR_MIN_TTL`, `_ONE_SECOND` and the generated leaves. -/
namespace Zc

section
variable (lower : String → String)

/-- **C06 (post-state; no `KeyError`).**  After any history, a response datagram `recs` arriving at `now` is
processed without raising, and for every record identity: a cached record with a zero-TTL copy in the datagram
is removed; any other cached record stays, with creation time = arrival time and the received TTL of its last
non-zero copy (pointer TTLs raised to the 1125 s floor) if there is one, else marked to expire one second later
iff the cache-flush rule applies to it, else untouched; an uncached record with a non-zero copy ends up cached
with creation time = arrival time and that (floored) TTL; nothing else is added. -/
theorem C06_post_state (evs : List Event) (now : Ms) (recs : List Rec) :
    ∃ out, ingest lower (Cache.ops lower) (cacheAfter lower evs) now recs = .ok out
      ∧ ∀ q, PostState lower now recs q ((cacheAfter lower evs).getUnique lower q) (out.cache.getUnique lower q) := by
  have href := ((Refines.empty lower).runEvents (by simp [Flat.WF]) evs).1
  obtain ⟨o, ho, hq⟩ := Flat.postState (lower := lower) (specAfter lower evs) now recs
  have hsim := href.ingest now recs
  unfold specAfter at ho
  unfold cacheAfter
  rw [ho] at hsim
  cases hc : ingest lower (Cache.ops lower) (runEvents lower (Cache.ops lower) {} evs) now recs with
  | error e => rw [hc] at hsim; exact absurd hsim (by simp)
  | ok co =>
    rw [hc] at hsim
    refine ⟨co, rfl, fun q => ?_⟩
    rw [href.getUnique q, hsim.1.getUnique q]
    exact hq q

/-- **C06 (flush exactness).**  A cached record none of whose copies is in the datagram is marked
(creation time = arrival, TTL 1 s) exactly when some cache-flush record of the datagram has its name
(case-insensitively), type and class and it was created more than 1000 ms before the arrival; otherwise it is
left exactly as it was. -/
theorem C06_flush_exact (evs : List Event) (now : Ms) (recs : List Rec) (q e : Rec)
    (hcached : (cacheAfter lower evs).getUnique lower q = some e)
    (habsent : ∀ r ∈ recs, r.ident lower ≠ q.ident lower) :
    ∃ out, ingest lower (Cache.ops lower) (cacheAfter lower evs) now recs = .ok out
      ∧ (((∃ u ∈ recs, u.unique = true ∧ lower u.name = lower e.name ∧ u.type = e.type ∧ u.class_ = e.class_) ∧ now - e.created > 1000)
            → out.cache.getUnique lower q = some (e.setLife now 1))
      ∧ (¬ ((∃ u ∈ recs, u.unique = true ∧ lower u.name = lower e.name ∧ u.type = e.type ∧ u.class_ = e.class_) ∧ now - e.created > 1000)
            → out.cache.getUnique lower q = some e) := by
  obtain ⟨out, hout, hq⟩ := C06_post_state lower evs now recs
  refine ⟨out, hout, ?_⟩
  have h := hq q
  have hcop : copiesOf lower recs q = [] := by
    unfold copiesOf
    rw [List.filter_eq_nil_iff]
    intro r hr; simpa using habsent r hr
  have hg : hasGoodbye lower recs q = false := by simp [hasGoodbye, hcop]
  have href := ((Refines.empty lower).runEvents (by simp [Flat.WF]) evs).1
  have hid : e.ident lower = q.ident lower := by
    have := href.getUnique q
    unfold cacheAfter at hcached
    rw [this] at hcached
    exact Flat.getUnique_ident hcached
  have hl : lastLive lower recs e = none := by
    rw [lastLive_congr recs hid]; simp [lastLive, hcop]
  unfold PostState at h
  rw [hcached] at h
  simp only [hg, Bool.false_eq_true, if_false] at h
  obtain ⟨e', he', hr⟩ := h
  unfold Refreshed at hr
  rw [hl] at hr
  simp only [] at hr
  have hfl : Flushed lower now recs e ↔ ((∃ u ∈ recs, u.unique = true ∧ lower u.name = lower e.name ∧ u.type = e.type ∧ u.class_ = e.class_) ∧ now - e.created > 1000) := by
    unfold Flushed
    constructor
    · rintro ⟨a, b, _⟩; exact ⟨a, b⟩
    · rintro ⟨a, b⟩; exact ⟨a, b, fun r hr => hid ▸ habsent r hr⟩
  rw [← hfl]
  exact ⟨fun hf => by rw [he', hr.1 hf], fun hf => by rw [he', hr.2 hf]⟩

/-! ### the listener contract -/

theorem flatMap_toList_eq_filterMap {α β} (l : List α) (f : α → Option β) : l.flatMap (fun a => (f a).toList) = l.filterMap f := by
  induction l with
  | nil => rfl
  | cons a t ih =>
    rw [List.flatMap_cons, List.filterMap_cons, ih]
    cases f a <;> rfl

/-- the pair a datagram record contributes to `async_update_records`: none for a goodbye of an uncached
record; otherwise the record as stored, with the cached copy `old` as the listener reads it during the call -/
def updatePair (now : Ms) (c c1 : Cache) (r : Rec) : Option (Rec × Option Rec) :=
  if r.ttl ≠ 0 ∨ (c.getUnique lower r).isSome then some (asStored now r, c1.getUnique lower (asStored now r)) else none

/-- **C06 (what the listeners are told, and when).**  After any history, for a datagram `recs` at `now`:
* `async_update_records` and `async_update_records_complete` are both called, or neither is; neither exactly
  when every record of the datagram is a goodbye for something that is not cached;
* the update list has, in datagram order, one `(new, old)` pair per record that is live or was cached; `new`
  carries the arrival time and the floored TTL; `old` is the cached copy if and only if one existed;
* at that moment the cache holds exactly the identities it held before the datagram — no new record has been
  added, no withdrawn record removed — and each cached record already shows its refreshed TTL or flush mark;
* at `async_update_records_complete` the cache is the post-state of `C06_post_state`. -/
theorem C06_calls (evs : List Event) (now : Ms) (recs : List Rec) :
    ∃ out, ingest lower (Cache.ops lower) (cacheAfter lower evs) now recs = .ok out
      ∧ out.call2 = out.call1.map (fun _ => out.cache)
      ∧ (out.call1 = none ↔ ∀ r ∈ recs, r.ttl = 0 ∧ (cacheAfter lower evs).getUnique lower r = none)
      ∧ ∀ pairs c1, out.call1 = some (pairs, c1) →
          pairs = recs.filterMap (updatePair lower now (cacheAfter lower evs) c1)
          ∧ ∀ q, match (cacheAfter lower evs).getUnique lower q with
                 | none => c1.getUnique lower q = none
                 | some e => ∃ e', c1.getUnique lower q = some e' ∧ Refreshed lower now recs e e' := by
  have href := ((Refines.empty lower).runEvents (by simp [Flat.WF]) evs).1
  obtain ⟨o, ho, _⟩ := Flat.postState (lower := lower) (specAfter lower evs) now recs
  have hsim := href.ingest now recs
  have hpre := href.ingestPre now recs
  obtain ⟨p1, p2, _, _, _⟩ := ingestPre_flat (lower := lower) (specAfter lower evs) now recs
  unfold specAfter at ho p1 p2
  unfold cacheAfter
  rw [ho] at hsim
  generalize hC : runEvents lower (Cache.ops lower) {} evs = C at *
  generalize hS : runEvents lower (Flat.ops lower) [] evs = S at *
  cases hc : ingest lower (Cache.ops lower) C now recs with
  | error e => rw [hc] at hsim; exact absurd hsim (by simp)
  | ok co =>
    refine ⟨co, rfl, ?_, ?_, ?_⟩
    · -- call2
      unfold Zc.ingest at hc
      simp only [] at hc
      cases hrm : removeAll (Cache.ops lower)
          (addAll (Cache.ops lower) (addAll (Cache.ops lower) (ingestPre lower (Cache.ops lower) C now recs).cache
            (ingestPre lower (Cache.ops lower) C now recs).addrAdds).1 (ingestPre lower (Cache.ops lower) C now recs).otherAdds).1
          (Zc.keptRemoves (Cache.ops lower)
            (addAll (Cache.ops lower) (addAll (Cache.ops lower) (ingestPre lower (Cache.ops lower) C now recs).cache
              (ingestPre lower (Cache.ops lower) C now recs).addrAdds).1 (ingestPre lower (Cache.ops lower) C now recs).otherAdds).1
            (ingestPre lower (Cache.ops lower) C now recs).removes) with
      | error e => rw [hrm] at hc; cases hc
      | ok c4 =>
        rw [hrm] at hc
        simp only [bind, Except.bind, pure, Except.pure, Except.ok.injEq] at hc
        subst hc
        simp only []
        split <;> rfl
    · -- nobody is called iff the update list is empty
      have hupd : (ingestPre lower (Cache.ops lower) C now recs).updates = (effective now recs).flatMap (fun r => (updOf lower now S r).toList) := by
        rw [hpre.updates, p2]
      have hcall : co.call1 = none ↔ (ingestPre lower (Cache.ops lower) C now recs).updates = [] := by
        unfold Zc.ingest at hc
        simp only [] at hc
        cases hrm : removeAll (Cache.ops lower)
            (addAll (Cache.ops lower) (addAll (Cache.ops lower) (ingestPre lower (Cache.ops lower) C now recs).cache
              (ingestPre lower (Cache.ops lower) C now recs).addrAdds).1 (ingestPre lower (Cache.ops lower) C now recs).otherAdds).1
            (Zc.keptRemoves (Cache.ops lower)
              (addAll (Cache.ops lower) (addAll (Cache.ops lower) (ingestPre lower (Cache.ops lower) C now recs).cache
                (ingestPre lower (Cache.ops lower) C now recs).addrAdds).1 (ingestPre lower (Cache.ops lower) C now recs).otherAdds).1
              (ingestPre lower (Cache.ops lower) C now recs).removes) with
        | error e => rw [hrm] at hc; cases hc
        | ok c4 =>
          rw [hrm] at hc
          simp only [bind, Except.bind, pure, Except.pure, Except.ok.injEq] at hc
          subst hc
          simp only []
          cases (ingestPre lower (Cache.ops lower) C now recs).updates <;> simp
      rw [hcall, hupd, effective_eq, List.flatMap_eq_nil_iff]
      constructor
      · intro h r hr
        have := h (asStored now r) (List.mem_map.2 ⟨r, hr, rfl⟩)
        unfold updOf at this
        rw [isExpired_asStored] at this
        by_cases hz : r.ttl = 0
        · simp only [hz, decide_true, Bool.not_true, Bool.false_eq_true, if_false] at this
          by_cases hp : Flat.pres lower S (asStored now r) = true
          · simp [hp] at this
          · refine ⟨hz, ?_⟩
            rw [href.getUnique r, Flat.getUnique_eq_none]
            rw [Flat.pres_congr S (ident_asStored now r).symm]
            simpa using hp
        · simp [hz] at this
      · intro h r' hr'
        obtain ⟨r, hr, rfl⟩ := List.mem_map.1 hr'
        obtain ⟨hz, hn⟩ := h r hr
        rw [href.getUnique r, Flat.getUnique_eq_none, Flat.pres_congr S (ident_asStored (lower := lower) now r).symm] at hn
        unfold updOf
        rw [isExpired_asStored]
        simp [hz, hn]
    · intro pairs c1 hcall
      rw [hc] at hsim
      obtain ⟨_, _, h3, _⟩ := hsim
      rw [hcall] at h3
      cases ho1 : o.call1 with
      | none => rw [ho1] at h3; exact absurd h3 (by simp)
      | some y =>
        rw [ho1] at h3
        simp only [] at h3
        obtain ⟨hp, hr1⟩ := h3
        -- the flat call
        have hy : y = (livePairs (Flat.ops lower) (ingestPre lower (Flat.ops lower) S now recs).cache (ingestPre lower (Flat.ops lower) S now recs).updates,
                       (ingestPre lower (Flat.ops lower) S now recs).cache) := by
          unfold Zc.ingest at ho
          simp only [] at ho
          cases hrm : removeAll (Flat.ops lower)
              (addAll (Flat.ops lower) (addAll (Flat.ops lower) (ingestPre lower (Flat.ops lower) S now recs).cache
                (ingestPre lower (Flat.ops lower) S now recs).addrAdds).1 (ingestPre lower (Flat.ops lower) S now recs).otherAdds).1
              (Zc.keptRemoves (Flat.ops lower)
                (addAll (Flat.ops lower) (addAll (Flat.ops lower) (ingestPre lower (Flat.ops lower) S now recs).cache
                  (ingestPre lower (Flat.ops lower) S now recs).addrAdds).1 (ingestPre lower (Flat.ops lower) S now recs).otherAdds).1
                (ingestPre lower (Flat.ops lower) S now recs).removes) with
          | error e => rw [hrm] at ho; cases ho
          | ok c4 =>
            rw [hrm] at ho
            simp only [bind, Except.bind, pure, Except.pure, Except.ok.injEq] at ho
            subst ho
            simp only [] at ho1
            split at ho1
            · cases ho1
            · exact (Option.some.inj ho1).symm
        have hsnap : ∀ q, c1.getUnique lower q = (Flat.getUnique lower S q).map (fun e => markOne lower now (effective now recs) (refresh lower now (effective now recs) e)) := by
          intro q
          rw [hr1.getUnique q, hy]
          simp only []
          rw [p1, Flat.getUnique_map _ _ (fun e => ident_markOne now _ e), Flat.getUnique_map _ _ (fun e => ident_refresh now _ e), Option.map_map]
          rfl
        constructor
        · rw [hp, hy]
          simp only []
          rw [p2, effective_eq]
          unfold livePairs
          rw [← flatMap_toList_eq_filterMap, List.flatMap_map, List.map_flatMap]
          congr 1; funext r
          unfold updatePair updOf
          rw [isExpired_asStored, href.getUnique r, Flat.getUnique_isSome, Flat.pres_congr S (ident_asStored (lower := lower) now r)]
          have hc1 : c1.getUnique lower (asStored now r) = (Flat.ops lower).getUnique (ingestPre lower (Flat.ops lower) S now recs).cache (asStored now r) := by
            rw [hr1.getUnique, hy]; rfl
          by_cases hz : r.ttl = 0
          · by_cases hpr : Flat.pres lower S r = true
            · simp [hz, hpr, hc1]
            · simp [hz, hpr]
          · by_cases hpr : Flat.pres lower S r = true
            · simp [hz, hpr, hc1]
            · have hnone : c1.getUnique lower (asStored now r) = none := by
                rw [hsnap, (Flat.getUnique_eq_none S _).2 (by rw [Flat.pres_congr S (ident_asStored (lower := lower) now r)]; simpa using hpr)]; rfl
              simp [hz, hpr, hnone]
        · intro q
          rw [href.getUnique q, hsnap q]
          cases Flat.getUnique lower S q with
          | none => rfl
          | some e => exact ⟨_, rfl, refreshed_markOne_refresh now recs e⟩

/-! ### "for every response datagram": the literal sentence and the reading

The English says *every* registered update listener is called exactly once before and once after the cache update **for every
response datagram**.  The code calls nobody when the update list is empty (`if updates:`), i.e. when every record of the datagram
is a goodbye for something that is not cached.  `C06_calls` is stated for that reading; here the literal sentence is written down
and refuted, and the reading gets its own name. -/

/-- the literal sentence: both calls are made for every response datagram -/
def C06_called_for_every_datagram_literal : Prop :=
  ∀ (evs : List Event) (now : Ms) (recs : List Rec) (out : IngestOut Cache),
    ingest lower (Cache.ops lower) (cacheAfter lower evs) now recs = .ok out → out.call1.isSome = true ∧ out.call2.isSome = true

/-- **the reading**: the listeners are called (both calls, or neither: `call2 = call1.map …`) exactly for the datagrams that have
something to tell — at least one record that is live or was cached; a datagram consisting only of goodbyes for uncached records
calls nobody.  (Such a datagram adds and removes nothing; if one of its goodbyes carries the cache-flush bit it still marks older
siblings — see the example below — which no update list reports either way.) -/
theorem C06_called_iff_effective (evs : List Event) (now : Ms) (recs : List Rec) :
    ∃ out, ingest lower (Cache.ops lower) (cacheAfter lower evs) now recs = .ok out
      ∧ (out.call1 = none ↔ out.call2 = none)
      ∧ (out.call1 = none ↔ ∀ r ∈ recs, r.ttl = 0 ∧ (cacheAfter lower evs).getUnique lower r = none) := by
  obtain ⟨out, ho, h2, h3, _⟩ := C06_calls lower evs now recs
  refine ⟨out, ho, ?_, h3⟩
  rw [h2]
  cases out.call1 <;> simp


/-- **C06 (who is called), the sentence**: in a notification round every listener registered at its start (the snapshot) is
called exactly once, whatever the callbacks do to the listener set.  `catches`: does `async_remove_listener` catch the
`KeyError` of `set.remove`? -/
def C06_listeners_statement (catches : Bool) : Prop :=
  ∀ (ls : List Nat), ls.Nodup → ∀ react : Nat → List ListenerAct, ∀ l,
    (notifyRoundWith true catches ls react).called.count l = if l ∈ ls then 1 else 0

/-- **C06 (who is called).**  Listeners are notified on a copy of the listener set: in a round every listener registered
at its start is called exactly once, in the snapshot's order, whatever the callbacks do to the set — add listeners, remove
listeners (themselves, each other, twice, or ones that were never registered); the round never raises and the live set
stays a set.  (`notifyRound` is the round with the two facts the translator reads off the code: the set is copied, and
`async_remove_listener` catches `KeyError`.) -/
theorem C06_listeners (ls : List Nat) (hnodup : ls.Nodup) (react : Nat → List ListenerAct) :
    (notifyRound ls react).called = ls
    ∧ (∀ l, (notifyRound ls react).called.count l = if l ∈ ls then 1 else 0)
    ∧ (notifyRound ls react).err = none
    ∧ (notifyRound ls react).live.Nodup := by
  have hok := notifyRound_ok ls react
  obtain ⟨_, _, h3, h4⟩ := round_general (catches := true) ls hnodup react
  exact ⟨(h3 hok).1, (h3 hok).2, hok, h4⟩

theorem C06_listeners_full : C06_listeners_statement true :=
  fun ls hn react l => (C06_listeners ls hn react).2.1 l

/-- **D18, before the repair** (1ae3781): with `except ValueError` only, the sentence was false.  Listener 1 removes listener 2;
listener 2 — still called, the set was copied — removes itself, as a browser's `_async_cancel` or a lookup's `finally`
would: the round ended there and listener 3 was never called. -/
theorem C06_listeners_before_fix_refuted : ¬ C06_listeners_statement false := by
  intro h
  have := h [1, 2, 3] (by decide) (fun l => if l = 1 then [.remove 2] else if l = 2 then [.remove 2] else []) 3
  revert this
  decide

/-- … and the datagram was lost: its new record was never cached, no `async_update_records_complete` was delivered, and the
exception propagated out of `async_updates_from_response`; with the repair the same datagram is delivered completely -/
theorem C06_remove_absent_aborted_ingestion_before_fix :
    (∃ d, deliverWith true true false id id {} [1, 2, 3] 1000 [⟨"a.local.", 1, 1, false, 120, 0, .addr [10, 0, 0, 1] none⟩]
        (fun l => if l = 1 then [.remove 2] else if l = 2 then [.remove 2] else []) (fun _ => []) = .ok d
      ∧ d.err = some .keyError ∧ d.round1 = [1, 2] ∧ d.round2 = []
      ∧ d.cache.getUnique id ⟨"a.local.", 1, 1, false, 120, 0, .addr [10, 0, 0, 1] none⟩ = none)
    ∧ (∃ d, deliverWith true true true id id {} [1, 2, 3] 1000 [⟨"a.local.", 1, 1, false, 120, 0, .addr [10, 0, 0, 1] none⟩]
        (fun l => if l = 1 then [.remove 2] else if l = 2 then [.remove 2] else []) (fun _ => []) = .ok d
      ∧ d.err = none ∧ d.round1 = [1, 2, 3] ∧ d.round2 = [1, 3]
      ∧ (d.cache.getUnique id ⟨"a.local.", 1, 1, false, 120, 0, .addr [10, 0, 0, 1] none⟩).isSome = true) :=
  ⟨⟨_, rfl, by decide, by decide, by decide, by decide⟩, ⟨_, rfl, by decide, by decide, by decide, by decide⟩⟩

/-- **C06 (the two rounds of a datagram).**  If the datagram has updates, round 1 (`async_update_records`) is the snapshot of
the listener set at arrival, round 2 (`async_update_records_complete`) the snapshot of the set as round 1 left it — so a
listener added during round 1 gets the complete call only, one removed during round 1 the update call only — nothing
raises, and the cache at the end is the post-state; without updates nobody is called. -/
theorem C06_deliver_rounds (order : List Nat → List Nat) (c : Cache) (ls : List Nat) (now : Ms) (recs : List Rec)
    (react1 react2 : Nat → List ListenerAct) (d : Delivery) (hd : deliver lower order c ls now recs react1 react2 = .ok d) :
    d.err = none ∧ d.cache = d.out.cache
    ∧ match d.out.call1 with
      | none => d.round1 = [] ∧ d.round2 = []
      | some _ => d.round1 = order ls ∧ d.round2 = order (notifyRound (order ls) react1).live := by
  unfold deliver deliverWith at hd
  have hdef : ∀ (l : List Nat) (r : Nat → List ListenerAct), notifyRoundWith true true l r = notifyRound l r := fun _ _ => rfl
  simp only [updates_iterates_copy_eq, complete_iterates_copy_eq, remove_listener_catches_keyerror_eq, hdef] at hd
  have hcalled : ∀ (l : List Nat) (r : Nat → List ListenerAct), (notifyRound l r).called = l := by
    intro l r
    have h := notifyRound_ok l r
    unfold notifyRound at h ⊢
    rw [notifyRoundWith_eq_roundFrom] at h ⊢
    rw [roundFrom_called_ok r l _ h]; simp
  cases hi : ingest lower (Cache.ops lower) c now recs with
  | error e => rw [hi] at hd; cases hd
  | ok out =>
    rw [hi] at hd
    simp only [bind, Except.bind] at hd
    cases hc : out.call1 with
    | none =>
      rw [hc] at hd
      simp only [pure, Except.pure, Except.ok.injEq] at hd
      subst hd
      simp [hc]
    | some call =>
      rw [hc] at hd
      simp only [notifyRound_ok] at hd
      simp only [pure, Except.pure, Except.ok.injEq] at hd
      subst hd
      simp [hc, hcalled, notifyRound_ok]

/-- **C06 (snapshot semantics of a round).**  Whatever the callbacks do:
* a listener that is not in the snapshot is not called in this round, even if a callback adds it;
* a listener of the snapshot is called even if a callback removes it;
* afterwards a listener some callback added and none removed is registered — it will be called from the next round on; a
  listener some callback removed and none added is not; a listener nobody touched is registered iff it was. -/
theorem C06_snapshot_semantics (ls : List Nat) (react : Nat → List ListenerAct) (x : Nat) :
    (x ∉ ls → x ∉ (notifyRound ls react).called)
    ∧ (x ∈ ls → x ∈ (notifyRound ls react).called)
    ∧ ((∃ l ∈ ls, ListenerAct.add x ∈ react l) → (∀ l ∈ ls, ListenerAct.remove x ∉ react l) → x ∈ (notifyRound ls react).live)
    ∧ ((∃ l ∈ ls, ListenerAct.remove x ∈ react l) → (∀ l ∈ ls, ListenerAct.add x ∉ react l) → x ∉ (notifyRound ls react).live)
    ∧ ((∀ l ∈ ls, ListenerAct.add x ∉ react l ∧ ListenerAct.remove x ∉ react l) → (x ∈ (notifyRound ls react).live ↔ x ∈ ls)) := by
  have hok := notifyRound_ok ls react
  obtain ⟨h1, h2, h3, h4, h5⟩ := snapshot_semantics_general (catches := true) ls react x
  exact ⟨h1, h2 hok, h3 hok, h4 hok, h5⟩

/-- what a delivery shows the listeners is the one `ingest` of C06_post_state / C06_calls: every listener of round 1 is
handed `d.out.call1` (the pair list and the cache of `C06_calls`), every listener of round 2 sees `d.out.cache` -/
theorem C06_delivery_out (order : List Nat → List Nat) (c : Cache) (ls : List Nat) (now : Ms) (recs : List Rec)
    (react1 react2 : Nat → List ListenerAct) (d : Delivery) (hd : deliver lower order c ls now recs react1 react2 = .ok d) :
    ingest lower (Cache.ops lower) c now recs = .ok d.out := by
  unfold deliver deliverWith at hd
  cases hi : ingest lower (Cache.ops lower) c now recs with
  | error e => rw [hi] at hd; cases hd
  | ok out =>
    rw [hi] at hd
    simp only [bind, Except.bind] at hd
    cases hc : out.call1 with
    | none => rw [hc] at hd; cases hd; rfl
    | some call =>
      rw [hc] at hd
      simp only [] at hd
      split at hd
      · cases hd; rfl
      · cases hd; rfl

/-- the literal sentence is false of the code (and of the model): a goodbye for a record that is not cached calls nobody -/
theorem C06_called_for_every_datagram_literal_refuted : ¬ C06_called_for_every_datagram_literal id := by
  intro h
  obtain ⟨out, ho, _, h3⟩ := C06_called_iff_effective id [] 1000 [⟨"a.local.", 16, 1, false, 0, 0, .txt [1]⟩]
  have hn : out.call1 = none := h3.2 (by
    intro r hr
    simp only [List.mem_singleton] at hr
    subst hr
    exact ⟨rfl, by decide⟩)
  have := (h [] 1000 _ out ho).1
  rw [hn] at this
  cases this


/-! ### callbacks that re-enter the record manager (D24)

`async_add_listener(listener, question)` called **from inside a callback**: since the D23 repair it purges the expired records at
its own reading of the clock — with the purge's own `async_updates` / `async_updates_complete(False)` rounds nested inside the
callback — before it adds the listener and replays the cache to it.  In the first round of a datagram that changes the cache
between the computation of the datagram's work lists and their application; before the D24 repair a goodbye for a record that had
run out unpurged then raised `KeyError` out of `async_updates_from_response`.  `deliverR` (`Zc/Model/Reentrant.lean`) is
`async_updates_from_response` with callbacks scripted by `react depth phase listener : List CbAct` (`add`, `remove`, `addQ` with
its clock reading and questions) for every nesting depth; the theorems below hold for every script, every iteration order
`order`, every nesting bound `fuel`, after every history. -/

/-- every history of datagrams and purges leaves a cache that is `Cache.Sound` (it refines a duplicate-free flat store) -/
theorem cacheAfter_sound (evs : List Event) : Cache.Sound lower (cacheAfter lower evs) := by
  have h := (Refines.empty lower).runEvents (by simp [Flat.WF]) evs
  exact ⟨_, h.1, h.2⟩

section
variable (order : List Nat → List Nat) (react : Nat → Nat → Nat → List CbAct) (fuel : Nat)

/-- **C06 (no exception escapes, whatever the callbacks do; D24 repaired).**  On a sound cache — in particular after any history —
a datagram is delivered without raising although callbacks add and remove listeners and register listeners with a question
(purge, nested rounds, replay) to any nesting depth; and the cache it leaves is sound again, so the statement covers histories
that contain such deliveries. -/
theorem C06_reentrant_never_raises {c : Cache} (hs : Cache.Sound lower c) (ls : List Nat) (now : Ms) (recs : List Rec) :
    (deliverR lower order react fuel c ls now recs).err = none
    ∧ Cache.Sound lower (deliverR lower order react fuel c ls now recs).cache := by
  obtain ⟨_, _, h1, h2, _⟩ := deliverR_post (lower := lower) order react fuel hs ls now recs
  exact ⟨h1, h2⟩

/-- **C06 (post-state with re-entrant callbacks).**  After any history, for a datagram `recs` at `now`, whatever the callbacks do:
nothing raises, and for every identity the cache ends up with the post-state of the statement (`PostState`: withdrawn, refreshed
with arrival time and floored TTL, flush-marked, stored, or untouched — `C06_post_state`) **unless** that record's TTL had fully
elapsed at the clock reading of a callback that registered a listener with a question, in which case it is gone (purged, D23): a
reading of either round for a record that was cached before the datagram, a reading of the second round for a record the datagram
added.  Without such callbacks (`reads1 = reads2 = []`) this is `C06_post_state`. -/
theorem C06_post_state_reentrant (evs : List Event) (ls : List Nat) (now : Ms) (recs : List Rec) :
    (deliverR lower order react fuel (cacheAfter lower evs) ls now recs).err = none
    ∧ ∀ q, ∃ after0, PostState lower now recs q ((cacheAfter lower evs).getUnique lower q) after0
        ∧ (deliverR lower order react fuel (cacheAfter lower evs) ls now recs).cache.getUnique lower q
            = after0.filter (aliveAt
                (if ((cacheAfter lower evs).getUnique lower q).isSome
                 then (deliverR lower order react fuel (cacheAfter lower evs) ls now recs).reads1
                        ++ (deliverR lower order react fuel (cacheAfter lower evs) ls now recs).reads2
                 else (deliverR lower order react fuel (cacheAfter lower evs) ls now recs).reads2)) := by
  obtain ⟨out, hout, herr, _, hq⟩ := deliverR_post (lower := lower) order react fuel (cacheAfter_sound lower evs) ls now recs
  obtain ⟨out', hout', hpost⟩ := C06_post_state lower evs now recs
  have : out' = out := by rw [hout] at hout'; exact (Except.ok.inj hout').symm
  subst this
  exact ⟨herr, fun q => ⟨_, hpost q, hq q⟩⟩

/-- **C06 (who is called, with re-entrant callbacks).**  On a sound cache: if the datagram has no updates nobody is called; else
round 1 (`async_update_records`) enters the callback of exactly the listeners registered at arrival, in the iteration order, round 2
(`async_update_records_complete`) of exactly the listeners registered when round 1 is over — whatever the callbacks of either round
do, including registering listeners with a question, whose purge rounds and replays are *nested* calls and not part of these two
rounds.  Neither round raises. -/
theorem C06_listeners_reentrant {c : Cache} (hs : Cache.Sound lower c) (ls : List Nat) (now : Ms) (recs : List Rec) :
    match (deliverR lower order react fuel c ls now recs).r1, (deliverR lower order react fuel c ls now recs).r2 with
    | none, none => (ingestPre lower (Cache.ops lower) c now recs).updates.isEmpty = true
        ∧ (deliverR lower order react fuel c ls now recs).listeners = ls
    | some r1, some r2 =>
        (ingestPre lower (Cache.ops lower) c now recs).updates.isEmpty = false
        ∧ r1.2.map Prod.fst = order ls ∧ r2.2.map Prod.fst = order r1.1.live
        ∧ r1.1.err = none ∧ r2.1.err = none
        ∧ (deliverR lower order react fuel c ls now recs).listeners = r2.1.live
    | _, _ => False := by
  obtain ⟨m1, m2⟩ := deliverR_shape (lower := lower) order react fuel hs ls now recs _ rfl
  cases he : (ingestPre lower (Cache.ops lower) c now recs).updates.isEmpty with
  | true =>
    obtain ⟨f, _, _, _, hd⟩ := m1 he
    rw [hd]; exact ⟨rfl, rfl⟩
  | false =>
    obtain ⟨r1, f, r2, _, _, _, hd, e1, c1, _, _, _, e2, c2, _⟩ := m2 he
    rw [hd]; exact ⟨rfl, c1, c2, e1.err, e2.err, rfl⟩

/-- **C06 (exactly once), the sentence with re-entrant callbacks**: when the iteration order is a permutation of the set, every
listener registered at the start of a round of the datagram is called exactly once in it, nobody else is -/
theorem C06_listeners_full_reentrant {c : Cache} (hs : Cache.Sound lower c) (ls : List Nat) (hnodup : ls.Nodup)
    (hperm : ∀ l : List Nat, (order l).Perm l) (now : Ms) (recs : List Rec)
    (r1 r2 : RSt × List (Nat × Cache)) (h1 : (deliverR lower order react fuel c ls now recs).r1 = some r1)
    (h2 : (deliverR lower order react fuel c ls now recs).r2 = some r2) (l : Nat) :
    (r1.2.map Prod.fst).count l = (if l ∈ ls then 1 else 0)
    ∧ (r2.2.map Prod.fst).count l = (if l ∈ r1.1.live then 1 else 0)
    ∧ r1.1.live.Nodup ∧ r2.1.live.Nodup := by
  obtain ⟨m1, m2⟩ := deliverR_shape (lower := lower) order react fuel hs ls now recs _ rfl
  cases he : (ingestPre lower (Cache.ops lower) c now recs).updates.isEmpty with
  | true =>
    obtain ⟨f, _, _, _, hd⟩ := m1 he
    rw [hd] at h1; cases h1
  | false =>
    obtain ⟨r1', f, r2', _, _, _, hd, e1, c1, _, _, _, e2, c2, _⟩ := m2 he
    rw [hd] at h1 h2
    simp only [Option.some.injEq] at h1 h2
    subst h1; subst h2
    -- the live set stays a set
    have live_nodup : ∀ {st st' : RSt}, Ext lower st st' → st.live.Nodup → st'.live.Nodup := by
      intro st st' e hn
      obtain ⟨tr, _, hl⟩ := e.live
      rw [hl, ← runActs_eq]
      exact runActs_nodup _ hn _
    have hn1 : r1'.1.live.Nodup := live_nodup e1 hnodup
    have hn2 : r2'.1.live.Nodup := live_nodup e2 hn1
    refine ⟨?_, ?_, hn1, hn2⟩
    · rw [c1, (hperm ls).count_eq]
      exact List.Nodup.count hnodup
    · rw [c2, (hperm _).count_eq]
      exact List.Nodup.count hn1

/-- **C06 (snapshot semantics of a round, with re-entrant callbacks).**  A round at any nesting depth, started on a sound cache,
with callbacks that do anything (to any depth):
* it does not raise;
* a listener that is not in the snapshot (the listener set when the round starts) is not called in this round, even if a callback
  adds it — with or without a question;
* a listener of the snapshot is called even if a callback removes it;
* afterwards the listener set is the old one with every executed change applied in execution order (`tr`; registering with a
  question counts as an add, the changes made inside nested rounds and replays included): a listener some callback added and none
  removed is registered — it is called from the next round on; one some callback removed and none added is not; one nobody touched
  is registered iff it was. -/
theorem C06_snapshot_semantics_reentrant (depth phase : Nat) {st : RSt} (h : st.err = none) (hs : Cache.Sound lower st.cache) (x : Nat) :
    (roundR RmCfg.code order (cbBody lower RmCfg.code order react fuel) depth phase st).1.err = none
    ∧ (x ∉ order st.live → x ∉ (roundR RmCfg.code order (cbBody lower RmCfg.code order react fuel) depth phase st).2.map Prod.fst)
    ∧ (x ∈ order st.live → x ∈ (roundR RmCfg.code order (cbBody lower RmCfg.code order react fuel) depth phase st).2.map Prod.fst)
    ∧ ∃ tr, (roundR RmCfg.code order (cbBody lower RmCfg.code order react fuel) depth phase st).1.trace = st.trace ++ tr
        ∧ (ListenerAct.add x ∈ tr → ListenerAct.remove x ∉ tr →
            x ∈ (roundR RmCfg.code order (cbBody lower RmCfg.code order react fuel) depth phase st).1.live)
        ∧ (ListenerAct.remove x ∈ tr → ListenerAct.add x ∉ tr →
            x ∉ (roundR RmCfg.code order (cbBody lower RmCfg.code order react fuel) depth phase st).1.live)
        ∧ (ListenerAct.add x ∉ tr → ListenerAct.remove x ∉ tr →
            (x ∈ (roundR RmCfg.code order (cbBody lower RmCfg.code order react fuel) depth phase st).1.live ↔ x ∈ st.live)) := by
  rw [RmCfg.code_eq]
  obtain ⟨e, hc, _⟩ := roundR_spec (lower := lower) order (cbBody_ok (lower := lower) order react fuel) depth phase h hs
  obtain ⟨tr, htr, hl⟩ := e.live
  have hok : (actsFrom true tr (st.live, none)).2 = none := actsFrom_true_ok _ _ rfl
  refine ⟨e.err, by rw [hc]; exact id, by rw [hc]; exact id, tr, htr, ?_, ?_, ?_⟩
  · intro ha hr; rw [hl]; exact actsFrom_added tr _ x ha hr hok
  · intro hr ha; rw [hl]; exact actsFrom_removed tr _ x hr ha hok
  · intro ha hr
    rw [hl]
    constructor
    · intro hx
      by_cases hin : x ∈ st.live
      · exact hin
      · exact absurd hx (actsFrom_absent tr (st.live, none) x hin ha)
    · intro hx; exact actsFrom_persist tr (st.live, none) x hx hr

/-- **C06 (what the listeners of the two rounds find in the cache, with re-entrant callbacks).**  The listeners of round 1 are all
handed the update list of `C06_calls` (`livePairs` on the cache `pre.cache` = the `c1` of `C06_calls`: no new record added, no
withdrawn record removed, refreshed TTLs and flush marks visible); the cache a listener of round 1 finds is `c1` minus the records
whose TTL had fully elapsed at a clock reading taken *earlier in the round* by a callback that registered a listener with a question
(`ts'`, an initial segment of the round's readings); a listener of round 2 finds the cache after the adds and removes (`fin`) minus,
likewise, what ran out at an earlier reading of round 2. -/
theorem C06_calls_reentrant {c : Cache} (hs : Cache.Sound lower c) (ls : List Nat) (now : Ms) (recs : List Rec) :
    (deliverR lower order react fuel c ls now recs).pre = ingestPre lower (Cache.ops lower) c now recs
    ∧ (∀ r1, (deliverR lower order react fuel c ls now recs).r1 = some r1 → ∀ lc ∈ r1.2,
        ∃ ts' ts'', (deliverR lower order react fuel c ls now recs).reads1 = ts' ++ ts''
          ∧ ∀ q, lc.2.getUnique lower q
              = (((deliverR lower order react fuel c ls now recs).pre.cache).getUnique lower q).filter (aliveAt ts'))
    ∧ (∀ r2, (deliverR lower order react fuel c ls now recs).r2 = some r2 → ∀ lc ∈ r2.2,
        ∃ f ts' ts'', (deliverR lower order react fuel c ls now recs).fin = some f
          ∧ (deliverR lower order react fuel c ls now recs).reads2 = ts' ++ ts''
          ∧ ∀ q, lc.2.getUnique lower q = (f.1.getUnique lower q).filter (aliveAt ts')) := by
  obtain ⟨m1, m2⟩ := deliverR_shape (lower := lower) order react fuel hs ls now recs _ rfl
  cases he : (ingestPre lower (Cache.ops lower) c now recs).updates.isEmpty with
  | true =>
    obtain ⟨f, _, _, _, hd⟩ := m1 he
    rw [hd]
    refine ⟨rfl, ?_, ?_⟩
    · intro r1 h; cases h
    · intro r2 h; cases h
  | false =>
    obtain ⟨r1, f, r2, _, _, _, hd, _, _, s1, _, _, _, _, s2⟩ := m2 he
    rw [hd]
    refine ⟨rfl, fun r1' h lc hlc => ?_, fun r2' h lc hlc => ?_⟩
    · simp only [Option.some.injEq] at h; subst h
      obtain ⟨ts', ts'', hr, hq⟩ := (s1 lc hlc).spec
      exact ⟨ts', ts'', by simpa [DeliveryR.reads1] using hr, hq⟩
    · simp only [Option.some.injEq] at h; subst h
      obtain ⟨ts', ts'', hr, hq⟩ := (s2 lc hlc).spec
      exact ⟨f, ts', ts'', rfl, by simpa [DeliveryR.reads2] using hr, hq⟩

end


/-- **D24, before the repair**: listener 1 is registered; a TXT record with TTL 1 s, cached at 1 000 000 ms, has run out — unpurged — when
its goodbye arrives at 1 003 000 ms.  Inside its update callback listener 1 registers listener 2 with a question; that call purges the
TXT.  Without the filter (`keepTest` constantly `true`) `async_remove_records(removes)` raised `KeyError` out of
`async_updates_from_response` and no completion round ran; with the repair the same datagram is delivered completely: both rounds
run (listener 2, added in round 1, gets the complete call), the record is gone, nothing raises. -/
theorem C06_reentrant_purge_aborted_ingestion_before_fix :
    let txt : Rec := ⟨"a._x._tcp.local.", 16, 1, false, 1, 0, .txt []⟩
    let q : Question := ⟨"_other._tcp.local.", 12, 1, false⟩
    let react : Nat → Nat → Nat → List CbAct := fun d p l => if d = 0 ∧ p = 1 ∧ l = 1 then [.addQ 2 1003000 [q]] else []
    let c := cacheAfter id [.datagram 1000000 [txt]]
    let before := deliverRWith id { RmCfg.ok with keepTest := fun _ => true } id react 2 c [1] 1003000 [{ txt with ttl := 0 }]
    let after := deliverRWith id RmCfg.ok id react 2 c [1] 1003000 [{ txt with ttl := 0 }]
    (c.getUnique id txt).isSome = true
    ∧ before.err = some .keyError ∧ before.r2.isNone = true ∧ before.reads1 = [1003000]
    ∧ after.err = none ∧ after.r2.map (fun r => r.2.map Prod.fst) = some [1, 2] ∧ after.reads1 = [1003000]
    ∧ after.cache.getUnique id txt = none := by
  decide

/-- `Cache.Sound` is met by a non-empty cache, and a re-entrant purge really happens in the theorems' scope: the delivery of the
witness above on the repaired code has one clock reading in round 1 and purges the record the datagram withdraws -/
example :
    let txt : Rec := ⟨"a._x._tcp.local.", 16, 1, false, 1, 0, .txt []⟩
    Cache.Sound id (cacheAfter id [.datagram 1000000 [txt]]) ∧ ((cacheAfter id [.datagram 1000000 [txt]]).getUnique id txt).isSome = true :=
  ⟨cacheAfter_sound id _, by decide⟩

/-- a record the datagram *adds* survives a round-1 purge at a reading at which it would have run out, and is purged by a round-2
reading: a TTL-1 address arrives at 5000; a round-1 callback registers a listener at clock 6000 (the address is not cached yet: kept),
a round-2 callback at clock 6000 (now it is cached and expired: purged) -/
example :
    let a1 : Rec := ⟨"h.local.", 1, 1, false, 1, 0, .addr [10, 0, 0, 1] none⟩
    let q : Question := ⟨"h.local.", 1, 1, false⟩
    let r1only : Nat → Nat → Nat → List CbAct := fun d p l => if d = 0 ∧ p = 1 ∧ l = 1 then [.addQ 2 6000 [q]] else []
    let r2too : Nat → Nat → Nat → List CbAct := fun d _ l => if d = 0 ∧ l = 1 then [.addQ 2 6000 [q]] else []
    ((deliverR id id r1only 2 {} [1] 5000 [a1]).cache.getUnique id a1).isSome = true
    ∧ (deliverR id id r2too 2 {} [1] 5000 [a1]).cache.getUnique id a1 = none
    ∧ (deliverR id id r2too 2 {} [1] 5000 [a1]).err = none := by
  decide


/-! ### browsers whose handlers re-enter the record manager (D24b; `Zc/Model/BrowserReentrant.lean`)

`_ServiceBrowserBase.async_update_records_complete` fires the pending changes; a handler (`add_service`, …) may create another
browser, whose `async_add_listener(browser, questions)` purges the expired records and runs nested `async_updates` +
`async_updates_complete(False)` over every listener, the creating browser included.  `completeLoop detach` is that loop, generic in
the state the handlers run on; `HostR` / `completeAllR` is the executable composite (record manager + browsers with handler plans +
nested rounds) the correspondence driver runs.  `Browser.detachesCode` is what the translator reads off the code (D24b repair: the
pending changes are detached before they are fired). -/

/-- **C06 / C04 (what the OUTER completion loop hands to `fire`).**  With the pending changes detached before they are fired (the code
since the D24b repair), for every state `σ` the handlers run on, every `get` / `set` (no lens law is assumed or needed: after the
detach the loop never reads `σ`'s pending changes again) and every non-raising `fire`: the changes **this run of the loop** hands to
`fire` are exactly the ones pending when it started, each once, in order, and the loop does not raise — whatever `fire` does to the
state, e.g. handlers that re-enter the record manager and have this very browser notified and completed again.
What this does **not** say: that no change is delivered a second time by such a *nested* completion (`tracedFire` counts the outer
loop's hand-overs only; a nested run fires whatever the nested update round queued — on the composite that is decided by stage C/O
against `completeAllR`, see siblings S1/S5/S6), nor alternation / live = cache for the composite (not proved; `C04_alternates` is about
`browserRunFrom`). -/
theorem C06_completion_detached_once {σ : Type} (get : σ → PendingCh) (set : σ → PendingCh → σ)
    (fire : σ → ((String × String) × Change) → σ × Option PyExc) (hfire : ∀ s ev, (fire s ev).2 = none) (s : σ) :
    Browser.detachesCode = true
    ∧ (completeLoop Browser.detachesCode (fun st : σ × PendingCh => get st.1) (fun st p => (set st.1 p, st.2)) (tracedFire fire) (s, [])).2 = none
    ∧ (completeLoop Browser.detachesCode (fun st : σ × PendingCh => get st.1) (fun st p => (set st.1 p, st.2)) (tracedFire fire) (s, [])).1.2 = get s := by
  have hd : Browser.detachesCode = true := by
    simp [Browser.detachesCode, complete_takes_pending_eq, complete_iterates_live_eq]
  rw [hd]
  exact ⟨rfl, completeLoop_detached_once get set fire hfire s⟩

/-- **C06 (no exception escapes when service handlers create browsers; D24b repaired).**  On a sound cache, for every set of
handler plans, every nesting depth and every bound `fuel`: the completion round over browsers whose handlers create browsers — each
creation purging the expired records and running its own rounds over every listener, the creating browser included — returns
without an exception, and the cache stays sound. -/
theorem C06_browser_handlers_never_raise (possible : String → List String) (fuel depth : Nat) (now : Ms) (S : HostR)
    (hs : Cache.Sound lower S.cache) (herr : S.err = none) :
    (completeAllR lower possible Browser.detachesCode fuel depth now S).err = none
    ∧ Cache.Sound lower (completeAllR lower possible Browser.detachesCode fuel depth now S).cache := by
  have hd : Browser.detachesCode = true := by
    simp [Browser.detachesCode, complete_takes_pending_eq, complete_iterates_live_eq]
  rw [hd]
  exact (hostR_ok (lower := lower) possible fuel).2.2.2 depth now S ⟨herr, hs⟩

/-- **D24b, before the repair**: browser 0 browses `_x._tcp`; Added(b) and Added(c) are pending; its `add_service` handler for `b`
creates browser 2 on `_y._udp`.  An address record cached 121 s earlier (TTL 120) has run out and is not purged yet.  Iterating the
live dict (`detach = false`): the creation's purge notifies every listener, browser 0's nested completion fires Added(b) **again**
and Added(c), clears the dict, and the outer loop raises (`RuntimeError: dictionary changed size during iteration`).  Detached: b and c
once each, no exception, browser 2 registered. -/
theorem C06_completion_reentered_before_fix :
    let X := "_x._tcp.local."
    let Y := "_y._udp.local."
    let possible : String → List String := fun n => if n = X then [X] else if n = Y then [Y] else []
    let a1 : Rec := ⟨"h.local.", 1, 1, false, 120, 0, .addr [10, 0, 0, 1] none⟩
    let pb : Rec := ⟨X, 12, 1, false, 4500, 0, .ptr "b._x._tcp.local."⟩
    let pc : Rec := ⟨X, 12, 1, false, 4500, 0, .ptr "c._x._tcp.local."⟩
    let c := cacheAfter id [.datagram 1000000 [a1], .datagram 1121000 [pb, pc]]
    let b0 : Browser := { types := [X], pending := [(("b._x._tcp.local.", X), .added), (("c._x._tcp.local.", X), .added)] }
    let S : HostR := { cache := c, listeners := [], browsers := [(0, b0)], plans := [⟨0, .added, "b._x._tcp.local.", 2, [Y]⟩] }
    let before := completeAllR id possible false 8 0 1121000 S
    let after := completeAllR id possible true 8 0 1121000 S
    before.err = some .other
    ∧ before.cbs.map (fun x => (x.1, x.2.name)) = [(0, "b._x._tcp.local."), (0, "b._x._tcp.local."), (0, "c._x._tcp.local.")]
    ∧ after.err = none
    ∧ after.cbs.map (fun x => (x.1, x.2.name)) = [(0, "b._x._tcp.local."), (0, "c._x._tcp.local.")]
    ∧ after.browsers.map Prod.fst = [0, 2]
    ∧ (after.cache.getUnique id a1).isNone = true := by
  decide +kernel

/-! non-vacuity -/

/-- a datagram that calls nobody can still change lifetimes: the goodbye of an *uncached* address with the cache-flush bit marks the
cached sibling `(5000, 1)` although `call1 = none` -/
example :
    let a1 : Rec := ⟨"h.local.", 1, 1, true, 120, 0, .addr [10, 0, 0, 1] none⟩
    let bye2 : Rec := ⟨"h.local.", 1, 1, true, 0, 0, .addr [10, 0, 0, 2] none⟩
    let res := (ingest id (Cache.ops id) (cacheAfter id [.datagram 1000 [a1]]) 5000 [bye2]).toOption
    res.map (fun o => o.call1.isNone) = some true
    ∧ (res.bind (fun o => o.cache.getUnique id a1)).map (fun e => (e.created, e.ttl)) = some (5000, 1) := by
  decide

/-- the flush fires one millisecond after the second: an address cached at 1000 ms, a cache-flush sibling arriving at
2001 ms marks it `(2001, 1)`; arriving at 2000 ms it leaves it alone -/
example :
    let a1 : Rec := ⟨"h.local.", 1, 1, true, 120, 0, .addr [10, 0, 0, 1] none⟩
    let a2 : Rec := ⟨"h.local.", 1, 1, true, 120, 0, .addr [10, 0, 0, 2] none⟩
    (((ingest id (Cache.ops id) (cacheAfter id [.datagram 1000 [a1]]) 2001 [a2]).toOption.bind
        (fun o => o.cache.getUnique id a1)).map (fun e => (e.created, e.ttl)) = some (2001, 1))
    ∧ (((ingest id (Cache.ops id) (cacheAfter id [.datagram 1000 [a1]]) 2000 [a2]).toOption.bind
        (fun o => o.cache.getUnique id a1)).map (fun e => (e.created, e.ttl)) = some (1000, 120)) := by
  decide

/-- a goodbye, a refresh, a flush victim and a new record in one datagram: the TXT is withdrawn, the PTR refreshed (TTL
floored to 1125), the old address marked `(5000, 1)`, the new address stored -/
example :
    let txt : Rec := ⟨"h._x._tcp.local.", 16, 1, false, 4500, 0, .txt []⟩
    let ptr : Rec := ⟨"_x._tcp.local.", 12, 1, false, 4500, 0, .ptr "h._x._tcp.local."⟩
    let a1 : Rec := ⟨"a.local.", 1, 1, true, 120, 0, .addr [10, 0, 0, 1] none⟩
    let a2 : Rec := ⟨"a.local.", 1, 1, true, 120, 0, .addr [10, 0, 0, 2] none⟩
    let res := (ingest id (Cache.ops id) (cacheAfter id [.datagram 1000 [txt, ptr, a1]]) 5000
        [{ txt with ttl := 0 }, { ptr with ttl := 60 }, a2]).toOption
    (res.bind (fun o => o.cache.getUnique id txt)) = none
    ∧ (res.bind (fun o => o.cache.getUnique id ptr)).map (fun e => (e.created, e.ttl)) = some (5000, 1125)
    ∧ (res.bind (fun o => o.cache.getUnique id a1)).map (fun e => (e.created, e.ttl)) = some (5000, 1)
    ∧ (res.bind (fun o => o.cache.getUnique id a2)).map (fun e => (e.created, e.ttl)) = some (5000, 120)
    ∧ (res.map (fun o => o.call1.isSome)) = some true := by
  decide

end

/-! ## Tie: the record manager over the translated cache operations, along every history

`srcCacheAfter lower evs` (`GenFacts/FnCacheRun.lean`) is the *generated* `DNSCache` after the datagrams and purges `evs`, stepped by
`ingest` / `expire` over `srcOps` (the translated `_async_add`, `_async_remove`, `async_get_unique`, store iteration; `resetTtl` /
`markFlush` hand-modelled on the generated representation and proved to keep `CInv`).  The twins below restate `C06_post_state` and
`C06_flush_exact` for it, read through the translated `async_get_unique`.  `ingest` itself remains the hand-written model of
`async_updates_from_response`. -/
section Tie
variable (lower : String → String)
open Zc.Py Zc.GenFn.Cache Zc.GenFacts.FnCache Zc.GenFacts.FnCacheRun

/-- the datagram step over the translated operations succeeds whenever the model's does, with corresponding results -/
theorem ingest_source_ok (evs : List Event) (now : Ms) (recs : List Rec) (outm : IngestOut Cache)
    (hm : ingest lower (Cache.ops lower) (cacheAfter lower evs) now recs = .ok outm) :
    ∃ out, ingest lower (srcOps lower) (srcCacheAfter lower evs) now recs = .ok out ∧ absC out.cache = outm.cache ∧ CInv lower out.cache := by
  obtain ⟨ha, hi⟩ := srcCacheAfter_abs lower evs
  have h1 := ingest_gen lower (residual_ok lower) (srcCacheAfter lower evs) hi now recs
  unfold cacheAfter at hm
  rw [ha, hm] at h1
  cases hr : ingest lower (genOps lower (resetTtlG lower) (markFlushG lower)) (srcCacheAfter lower evs) now recs with
  | error e => rw [hr] at h1; cases h1
  | ok out =>
    rw [hr] at h1
    simp only [Except.map, Except.ok.injEq] at h1
    refine ⟨out, hr, ?_, ingest_inv lower (genOps_sim lower (residual_ok lower)) _ now recs hi out hr⟩
    rw [← h1]
    rfl

/-- **C06 (post-state), for the generated cache**: after any history and any datagram, stepped through the translated operations, the
translated `async_get_unique` of every record before and after the datagram satisfies `PostState` -/
theorem C06_post_state_source (evs : List Event) (now : Ms) (recs : List Rec) :
    ∃ out, ingest lower (srcOps lower) (srcCacheAfter lower evs) now recs = .ok out
      ∧ ∀ q, PostState lower now recs q ((srcCacheAfter lower evs).async_get_unique lower q) (out.cache.async_get_unique lower q) := by
  obtain ⟨outm, hm, hq⟩ := C06_post_state lower evs now recs
  obtain ⟨out, ho, ha, hi⟩ := ingest_source_ok lower evs now recs outm hm
  obtain ⟨hb, hj⟩ := srcCacheAfter_abs lower evs
  refine ⟨out, ho, fun q => ?_⟩
  rw [async_get_unique_eq lower _ q hj, async_get_unique_eq lower _ q hi, hb, ha]
  exact hq q

/-- **C06 (flush), for the generated cache** -/
theorem C06_flush_exact_source (evs : List Event) (now : Ms) (recs : List Rec) (q e : Rec)
    (hcached : (srcCacheAfter lower evs).async_get_unique lower q = some e)
    (habsent : ∀ r ∈ recs, r.ident lower ≠ q.ident lower) :
    ∃ out, ingest lower (srcOps lower) (srcCacheAfter lower evs) now recs = .ok out
      ∧ (((∃ u ∈ recs, u.unique = true ∧ lower u.name = lower e.name ∧ u.type = e.type ∧ u.class_ = e.class_) ∧ now - e.created > 1000)
            → out.cache.async_get_unique lower q = some (e.setLife now 1))
      ∧ (¬ ((∃ u ∈ recs, u.unique = true ∧ lower u.name = lower e.name ∧ u.type = e.type ∧ u.class_ = e.class_) ∧ now - e.created > 1000)
            → out.cache.async_get_unique lower q = some e) := by
  obtain ⟨hb, hj⟩ := srcCacheAfter_abs lower evs
  have hc : (cacheAfter lower evs).getUnique lower q = some e := by
    rw [async_get_unique_eq lower _ q hj, hb] at hcached
    exact hcached
  obtain ⟨outm, hm, h1, h2⟩ := C06_flush_exact lower evs now recs q e hc habsent
  obtain ⟨out, ho, ha, hi⟩ := ingest_source_ok lower evs now recs outm hm
  refine ⟨out, ho, ?_, ?_⟩
  · intro h; rw [async_get_unique_eq lower _ q hi, ha]; exact h1 h
  · intro h; rw [async_get_unique_eq lower _ q hi, ha]; exact h2 h

end Tie
end Zc
