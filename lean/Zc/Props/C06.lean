import Zc.Proofs.PostState
import Zc.Proofs.Listeners
import Zc.Props.C05
/-! # C06 — response ingestion and the record-update listener contract

`Zc.ingest` is `RecordManager.async_updates_from_response` line by line (PTR floor, unique set, the
`(expired?, cached?)` branch, flush mark, `async_updates`, address adds, other adds, removes,
`async_updates_complete`), run on the indexed cache of C05.  The theorems hold after **any** prior history
of datagrams and purges (`cacheAfter lower evs`), for any datagram `recs` arriving at any `now`, for any
`str.lower`.  Numbers (1125 s, 1000 ms, 1 s) are the property's; `Zc/GenFacts/Cache.lean` ties them to
`_DNS_PTR_MIN_TTL`, `_ONE_SECOND` and the generated leaves. -/
namespace Zc

section
variable (lower : String → String)

/-- **C06 (post-state; no `KeyError`).**  After any history, a response datagram `recs` arriving at `now` is
processed without raising, and for every record identity: a cached record with a zero-TTL copy in the datagram
is removed; any other cached record stays, with creation time = arrival time and the received TTL of its last
non-zero copy (pointer TTLs raised to the 1125 s floor) if there is one, else marked to expire one second later
iff the cache-flush rule applies to it, else untouched; an uncached record with a non-zero copy ends up cached
with creation time = arrival time and that (floored) TTL; nothing else is added. -/
theorem C06_post_state (evs : List Event) (now : Ms) (recs : List Rec) :
    ∃ out, ingest lower (Cache.ops lower) (cacheAfter lower evs) now recs = .ok out
      ∧ ∀ q, PostState lower now recs q ((cacheAfter lower evs).getUnique lower q) (out.cache.getUnique lower q) := by
  have href := ((Refines.empty lower).runEvents (by simp [Flat.WF]) evs).1
  obtain ⟨o, ho, hq⟩ := Flat.postState (lower := lower) (specAfter lower evs) now recs
  have hsim := href.ingest now recs
  unfold specAfter at ho
  unfold cacheAfter
  rw [ho] at hsim
  cases hc : ingest lower (Cache.ops lower) (runEvents lower (Cache.ops lower) {} evs) now recs with
  | error e => rw [hc] at hsim; exact absurd hsim (by simp)
  | ok co =>
    rw [hc] at hsim
    refine ⟨co, rfl, fun q => ?_⟩
    rw [href.getUnique q, hsim.1.getUnique q]
    exact hq q

/-- **C06 (flush exactness).**  A cached record none of whose copies is in the datagram is marked
(creation time = arrival, TTL 1 s) exactly when some cache-flush record of the datagram has its name
(case-insensitively), type and class and it was created more than 1000 ms before the arrival; otherwise it is
left exactly as it was. -/
theorem C06_flush_exact (evs : List Event) (now : Ms) (recs : List Rec) (q e : Rec)
    (hcached : (cacheAfter lower evs).getUnique lower q = some e)
    (habsent : ∀ r ∈ recs, r.ident lower ≠ q.ident lower) :
    ∃ out, ingest lower (Cache.ops lower) (cacheAfter lower evs) now recs = .ok out
      ∧ (((∃ u ∈ recs, u.unique = true ∧ lower u.name = lower e.name ∧ u.type = e.type ∧ u.class_ = e.class_) ∧ now - e.created > 1000)
            → out.cache.getUnique lower q = some (e.setLife now 1))
      ∧ (¬ ((∃ u ∈ recs, u.unique = true ∧ lower u.name = lower e.name ∧ u.type = e.type ∧ u.class_ = e.class_) ∧ now - e.created > 1000)
            → out.cache.getUnique lower q = some e) := by
  obtain ⟨out, hout, hq⟩ := C06_post_state lower evs now recs
  refine ⟨out, hout, ?_⟩
  have h := hq q
  have hcop : copiesOf lower recs q = [] := by
    unfold copiesOf
    rw [List.filter_eq_nil_iff]
    intro r hr; simpa using habsent r hr
  have hg : hasGoodbye lower recs q = false := by simp [hasGoodbye, hcop]
  have href := ((Refines.empty lower).runEvents (by simp [Flat.WF]) evs).1
  have hid : e.ident lower = q.ident lower := by
    have := href.getUnique q
    unfold cacheAfter at hcached
    rw [this] at hcached
    exact Flat.getUnique_ident hcached
  have hl : lastLive lower recs e = none := by
    rw [lastLive_congr recs hid]; simp [lastLive, hcop]
  unfold PostState at h
  rw [hcached] at h
  simp only [hg, Bool.false_eq_true, if_false] at h
  obtain ⟨e', he', hr⟩ := h
  unfold Refreshed at hr
  rw [hl] at hr
  simp only [] at hr
  have hfl : Flushed lower now recs e ↔ ((∃ u ∈ recs, u.unique = true ∧ lower u.name = lower e.name ∧ u.type = e.type ∧ u.class_ = e.class_) ∧ now - e.created > 1000) := by
    unfold Flushed
    constructor
    · rintro ⟨a, b, _⟩; exact ⟨a, b⟩
    · rintro ⟨a, b⟩; exact ⟨a, b, fun r hr => hid ▸ habsent r hr⟩
  rw [← hfl]
  exact ⟨fun hf => by rw [he', hr.1 hf], fun hf => by rw [he', hr.2 hf]⟩

/-! ### the listener contract -/

theorem flatMap_toList_eq_filterMap {α β} (l : List α) (f : α → Option β) : l.flatMap (fun a => (f a).toList) = l.filterMap f := by
  induction l with
  | nil => rfl
  | cons a t ih =>
    rw [List.flatMap_cons, List.filterMap_cons, ih]
    cases f a <;> rfl

/-- the pair a datagram record contributes to `async_update_records`: none for a goodbye of an uncached
record; otherwise the record as stored, with the cached copy `old` as the listener reads it during the call -/
def updatePair (now : Ms) (c c1 : Cache) (r : Rec) : Option (Rec × Option Rec) :=
  if r.ttl ≠ 0 ∨ (c.getUnique lower r).isSome then some (asStored now r, c1.getUnique lower (asStored now r)) else none

/-- **C06 (what the listeners are told, and when).**  After any history, for a datagram `recs` at `now`:
* `async_update_records` and `async_update_records_complete` are both called, or neither is; neither exactly
  when every record of the datagram is a goodbye for something that is not cached;
* the update list has, in datagram order, one `(new, old)` pair per record that is live or was cached; `new`
  carries the arrival time and the floored TTL; `old` is the cached copy if and only if one existed;
* at that moment the cache holds exactly the identities it held before the datagram — no new record has been
  added, no withdrawn record removed — and each cached record already shows its refreshed TTL or flush mark;
* at `async_update_records_complete` the cache is the post-state of `C06_post_state`. -/
theorem C06_calls (evs : List Event) (now : Ms) (recs : List Rec) :
    ∃ out, ingest lower (Cache.ops lower) (cacheAfter lower evs) now recs = .ok out
      ∧ out.call2 = out.call1.map (fun _ => out.cache)
      ∧ (out.call1 = none ↔ ∀ r ∈ recs, r.ttl = 0 ∧ (cacheAfter lower evs).getUnique lower r = none)
      ∧ ∀ pairs c1, out.call1 = some (pairs, c1) →
          pairs = recs.filterMap (updatePair lower now (cacheAfter lower evs) c1)
          ∧ ∀ q, match (cacheAfter lower evs).getUnique lower q with
                 | none => c1.getUnique lower q = none
                 | some e => ∃ e', c1.getUnique lower q = some e' ∧ Refreshed lower now recs e e' := by
  have href := ((Refines.empty lower).runEvents (by simp [Flat.WF]) evs).1
  obtain ⟨o, ho, _⟩ := Flat.postState (lower := lower) (specAfter lower evs) now recs
  have hsim := href.ingest now recs
  have hpre := href.ingestPre now recs
  obtain ⟨p1, p2, _, _, _⟩ := ingestPre_flat (lower := lower) (specAfter lower evs) now recs
  unfold specAfter at ho p1 p2
  unfold cacheAfter
  rw [ho] at hsim
  generalize hC : runEvents lower (Cache.ops lower) {} evs = C at *
  generalize hS : runEvents lower (Flat.ops lower) [] evs = S at *
  cases hc : ingest lower (Cache.ops lower) C now recs with
  | error e => rw [hc] at hsim; exact absurd hsim (by simp)
  | ok co =>
    refine ⟨co, rfl, ?_, ?_, ?_⟩
    · -- call2
      unfold Zc.ingest at hc
      simp only [] at hc
      cases hrm : removeAll (Cache.ops lower)
          (addAll (Cache.ops lower) (addAll (Cache.ops lower) (ingestPre lower (Cache.ops lower) C now recs).cache
            (ingestPre lower (Cache.ops lower) C now recs).addrAdds).1 (ingestPre lower (Cache.ops lower) C now recs).otherAdds).1
          (ingestPre lower (Cache.ops lower) C now recs).removes with
      | error e => rw [hrm] at hc; cases hc
      | ok c4 =>
        rw [hrm] at hc
        simp only [bind, Except.bind, pure, Except.pure, Except.ok.injEq] at hc
        subst hc
        simp only []
        split <;> rfl
    · -- nobody is called iff the update list is empty
      have hupd : (ingestPre lower (Cache.ops lower) C now recs).updates = (effective now recs).flatMap (fun r => (updOf lower now S r).toList) := by
        rw [hpre.updates, p2]
      have hcall : co.call1 = none ↔ (ingestPre lower (Cache.ops lower) C now recs).updates = [] := by
        unfold Zc.ingest at hc
        simp only [] at hc
        cases hrm : removeAll (Cache.ops lower)
            (addAll (Cache.ops lower) (addAll (Cache.ops lower) (ingestPre lower (Cache.ops lower) C now recs).cache
              (ingestPre lower (Cache.ops lower) C now recs).addrAdds).1 (ingestPre lower (Cache.ops lower) C now recs).otherAdds).1
            (ingestPre lower (Cache.ops lower) C now recs).removes with
        | error e => rw [hrm] at hc; cases hc
        | ok c4 =>
          rw [hrm] at hc
          simp only [bind, Except.bind, pure, Except.pure, Except.ok.injEq] at hc
          subst hc
          simp only []
          cases (ingestPre lower (Cache.ops lower) C now recs).updates <;> simp
      rw [hcall, hupd, effective_eq, List.flatMap_eq_nil_iff]
      constructor
      · intro h r hr
        have := h (asStored now r) (List.mem_map.2 ⟨r, hr, rfl⟩)
        unfold updOf at this
        rw [isExpired_asStored] at this
        by_cases hz : r.ttl = 0
        · simp only [hz, decide_true, Bool.not_true, Bool.false_eq_true, if_false] at this
          by_cases hp : Flat.pres lower S (asStored now r) = true
          · simp [hp] at this
          · refine ⟨hz, ?_⟩
            rw [href.getUnique r, Flat.getUnique_eq_none]
            rw [Flat.pres_congr S (ident_asStored now r).symm]
            simpa using hp
        · simp [hz] at this
      · intro h r' hr'
        obtain ⟨r, hr, rfl⟩ := List.mem_map.1 hr'
        obtain ⟨hz, hn⟩ := h r hr
        rw [href.getUnique r, Flat.getUnique_eq_none, Flat.pres_congr S (ident_asStored (lower := lower) now r).symm] at hn
        unfold updOf
        rw [isExpired_asStored]
        simp [hz, hn]
    · intro pairs c1 hcall
      rw [hc] at hsim
      obtain ⟨_, _, h3, _⟩ := hsim
      rw [hcall] at h3
      cases ho1 : o.call1 with
      | none => rw [ho1] at h3; exact absurd h3 (by simp)
      | some y =>
        rw [ho1] at h3
        simp only [] at h3
        obtain ⟨hp, hr1⟩ := h3
        -- the flat call
        have hy : y = (livePairs (Flat.ops lower) (ingestPre lower (Flat.ops lower) S now recs).cache (ingestPre lower (Flat.ops lower) S now recs).updates,
                       (ingestPre lower (Flat.ops lower) S now recs).cache) := by
          unfold Zc.ingest at ho
          simp only [] at ho
          cases hrm : removeAll (Flat.ops lower)
              (addAll (Flat.ops lower) (addAll (Flat.ops lower) (ingestPre lower (Flat.ops lower) S now recs).cache
                (ingestPre lower (Flat.ops lower) S now recs).addrAdds).1 (ingestPre lower (Flat.ops lower) S now recs).otherAdds).1
              (ingestPre lower (Flat.ops lower) S now recs).removes with
          | error e => rw [hrm] at ho; cases ho
          | ok c4 =>
            rw [hrm] at ho
            simp only [bind, Except.bind, pure, Except.pure, Except.ok.injEq] at ho
            subst ho
            simp only [] at ho1
            split at ho1
            · cases ho1
            · exact (Option.some.inj ho1).symm
        have hsnap : ∀ q, c1.getUnique lower q = (Flat.getUnique lower S q).map (fun e => markOne lower now (effective now recs) (refresh lower now (effective now recs) e)) := by
          intro q
          rw [hr1.getUnique q, hy]
          simp only []
          rw [p1, Flat.getUnique_map _ _ (fun e => ident_markOne now _ e), Flat.getUnique_map _ _ (fun e => ident_refresh now _ e), Option.map_map]
          rfl
        constructor
        · rw [hp, hy]
          simp only []
          rw [p2, effective_eq]
          unfold livePairs
          rw [← flatMap_toList_eq_filterMap, List.flatMap_map, List.map_flatMap]
          congr 1; funext r
          unfold updatePair updOf
          rw [isExpired_asStored, href.getUnique r, Flat.getUnique_isSome, Flat.pres_congr S (ident_asStored (lower := lower) now r)]
          have hc1 : c1.getUnique lower (asStored now r) = (Flat.ops lower).getUnique (ingestPre lower (Flat.ops lower) S now recs).cache (asStored now r) := by
            rw [hr1.getUnique, hy]; rfl
          by_cases hz : r.ttl = 0
          · by_cases hpr : Flat.pres lower S r = true
            · simp [hz, hpr, hc1]
            · simp [hz, hpr]
          · by_cases hpr : Flat.pres lower S r = true
            · simp [hz, hpr, hc1]
            · have hnone : c1.getUnique lower (asStored now r) = none := by
                rw [hsnap, (Flat.getUnique_eq_none S _).2 (by rw [Flat.pres_congr S (ident_asStored (lower := lower) now r)]; simpa using hpr)]; rfl
              simp [hz, hpr, hnone]
        · intro q
          rw [href.getUnique q, hsnap q]
          cases Flat.getUnique lower S q with
          | none => rfl
          | some e => exact ⟨_, rfl, refreshed_markOne_refresh now recs e⟩

/-! ### "for every response datagram": the literal sentence and the reading

The English says *every* registered update listener is called exactly once before and once after the cache update **for every
response datagram**.  The code calls nobody when the update list is empty (`if updates:`), i.e. when every record of the datagram
is a goodbye for something that is not cached.  `C06_calls` is stated for that reading; here the literal sentence is written down
and refuted, and the reading gets its own name. -/

/-- the literal sentence: both calls are made for every response datagram -/
def C06_called_for_every_datagram_literal : Prop :=
  ∀ (evs : List Event) (now : Ms) (recs : List Rec) (out : IngestOut Cache),
    ingest lower (Cache.ops lower) (cacheAfter lower evs) now recs = .ok out → out.call1.isSome = true ∧ out.call2.isSome = true

/-- **the reading**: the listeners are called (both calls, or neither: `call2 = call1.map …`) exactly for the datagrams that have
something to tell — at least one record that is live or was cached; a datagram consisting only of goodbyes for uncached records
calls nobody.  (Such a datagram adds and removes nothing; if one of its goodbyes carries the cache-flush bit it still marks older
siblings — see the example below — which no update list reports either way.) -/
theorem C06_called_iff_effective (evs : List Event) (now : Ms) (recs : List Rec) :
    ∃ out, ingest lower (Cache.ops lower) (cacheAfter lower evs) now recs = .ok out
      ∧ (out.call1 = none ↔ out.call2 = none)
      ∧ (out.call1 = none ↔ ∀ r ∈ recs, r.ttl = 0 ∧ (cacheAfter lower evs).getUnique lower r = none) := by
  obtain ⟨out, ho, h2, h3, _⟩ := C06_calls lower evs now recs
  refine ⟨out, ho, ?_, h3⟩
  rw [h2]
  cases out.call1 <;> simp


/-- **C06 (who is called), the sentence**: in a notification round every listener registered at its start (the snapshot) is
called exactly once, whatever the callbacks do to the listener set.  `catches`: does `async_remove_listener` catch the
`KeyError` of `set.remove`? -/
def C06_listeners_statement (catches : Bool) : Prop :=
  ∀ (ls : List Nat), ls.Nodup → ∀ react : Nat → List ListenerAct, ∀ l,
    (notifyRoundWith true catches ls react).called.count l = if l ∈ ls then 1 else 0

/-- **C06 (who is called).**  Listeners are notified on a copy of the listener set: in a round every listener registered
at its start is called exactly once, in the snapshot's order, whatever the callbacks do to the set — add listeners, remove
listeners (themselves, each other, twice, or ones that were never registered); the round never raises and the live set
stays a set.  (`notifyRound` is the round with the two facts the translator reads off the code: the set is copied, and
`async_remove_listener` catches `KeyError`.) -/
theorem C06_listeners (ls : List Nat) (hnodup : ls.Nodup) (react : Nat → List ListenerAct) :
    (notifyRound ls react).called = ls
    ∧ (∀ l, (notifyRound ls react).called.count l = if l ∈ ls then 1 else 0)
    ∧ (notifyRound ls react).err = none
    ∧ (notifyRound ls react).live.Nodup := by
  have hok := notifyRound_ok ls react
  obtain ⟨_, _, h3, h4⟩ := round_general (catches := true) ls hnodup react
  exact ⟨(h3 hok).1, (h3 hok).2, hok, h4⟩

theorem C06_listeners_full : C06_listeners_statement true :=
  fun ls hn react l => (C06_listeners ls hn react).2.1 l

/-- **D18, before the repair** (1ae3781): with `except ValueError` only, the sentence was false.  Listener 1 removes listener 2;
listener 2 — still called, the set was copied — removes itself, as a browser's `_async_cancel` or a lookup's `finally`
would: the round ended there and listener 3 was never called. -/
theorem C06_listeners_before_fix_refuted : ¬ C06_listeners_statement false := by
  intro h
  have := h [1, 2, 3] (by decide) (fun l => if l = 1 then [.remove 2] else if l = 2 then [.remove 2] else []) 3
  revert this
  decide

/-- … and the datagram was lost: its new record was never cached, no `async_update_records_complete` was delivered, and the
exception propagated out of `async_updates_from_response`; with the repair the same datagram is delivered completely -/
theorem C06_remove_absent_aborted_ingestion_before_fix :
    (∃ d, deliverWith true true false id id {} [1, 2, 3] 1000 [⟨"a.local.", 1, 1, false, 120, 0, .addr [10, 0, 0, 1] none⟩]
        (fun l => if l = 1 then [.remove 2] else if l = 2 then [.remove 2] else []) (fun _ => []) = .ok d
      ∧ d.err = some .keyError ∧ d.round1 = [1, 2] ∧ d.round2 = []
      ∧ d.cache.getUnique id ⟨"a.local.", 1, 1, false, 120, 0, .addr [10, 0, 0, 1] none⟩ = none)
    ∧ (∃ d, deliverWith true true true id id {} [1, 2, 3] 1000 [⟨"a.local.", 1, 1, false, 120, 0, .addr [10, 0, 0, 1] none⟩]
        (fun l => if l = 1 then [.remove 2] else if l = 2 then [.remove 2] else []) (fun _ => []) = .ok d
      ∧ d.err = none ∧ d.round1 = [1, 2, 3] ∧ d.round2 = [1, 3]
      ∧ (d.cache.getUnique id ⟨"a.local.", 1, 1, false, 120, 0, .addr [10, 0, 0, 1] none⟩).isSome = true) :=
  ⟨⟨_, rfl, by decide, by decide, by decide, by decide⟩, ⟨_, rfl, by decide, by decide, by decide, by decide⟩⟩

/-- **C06 (the two rounds of a datagram).**  If the datagram has updates, round 1 (`async_update_records`) is the snapshot of
the listener set at arrival, round 2 (`async_update_records_complete`) the snapshot of the set as round 1 left it — so a
listener added during round 1 gets the complete call only, one removed during round 1 the update call only — nothing
raises, and the cache at the end is the post-state; without updates nobody is called. -/
theorem C06_deliver_rounds (order : List Nat → List Nat) (c : Cache) (ls : List Nat) (now : Ms) (recs : List Rec)
    (react1 react2 : Nat → List ListenerAct) (d : Delivery) (hd : deliver lower order c ls now recs react1 react2 = .ok d) :
    d.err = none ∧ d.cache = d.out.cache
    ∧ match d.out.call1 with
      | none => d.round1 = [] ∧ d.round2 = []
      | some _ => d.round1 = order ls ∧ d.round2 = order (notifyRound (order ls) react1).live := by
  unfold deliver deliverWith at hd
  have hdef : ∀ (l : List Nat) (r : Nat → List ListenerAct), notifyRoundWith true true l r = notifyRound l r := fun _ _ => rfl
  simp only [updates_iterates_copy_eq, complete_iterates_copy_eq, remove_listener_catches_keyerror_eq, hdef] at hd
  have hcalled : ∀ (l : List Nat) (r : Nat → List ListenerAct), (notifyRound l r).called = l := by
    intro l r
    have h := notifyRound_ok l r
    unfold notifyRound at h ⊢
    rw [notifyRoundWith_eq_roundFrom] at h ⊢
    rw [roundFrom_called_ok r l _ h]; simp
  cases hi : ingest lower (Cache.ops lower) c now recs with
  | error e => rw [hi] at hd; cases hd
  | ok out =>
    rw [hi] at hd
    simp only [bind, Except.bind] at hd
    cases hc : out.call1 with
    | none =>
      rw [hc] at hd
      simp only [pure, Except.pure, Except.ok.injEq] at hd
      subst hd
      simp [hc]
    | some call =>
      rw [hc] at hd
      simp only [notifyRound_ok] at hd
      simp only [pure, Except.pure, Except.ok.injEq] at hd
      subst hd
      simp [hc, hcalled, notifyRound_ok]

/-- **C06 (snapshot semantics of a round).**  Whatever the callbacks do:
* a listener that is not in the snapshot is not called in this round, even if a callback adds it;
* a listener of the snapshot is called even if a callback removes it;
* afterwards a listener some callback added and none removed is registered — it will be called from the next round on; a
  listener some callback removed and none added is not; a listener nobody touched is registered iff it was. -/
theorem C06_snapshot_semantics (ls : List Nat) (react : Nat → List ListenerAct) (x : Nat) :
    (x ∉ ls → x ∉ (notifyRound ls react).called)
    ∧ (x ∈ ls → x ∈ (notifyRound ls react).called)
    ∧ ((∃ l ∈ ls, ListenerAct.add x ∈ react l) → (∀ l ∈ ls, ListenerAct.remove x ∉ react l) → x ∈ (notifyRound ls react).live)
    ∧ ((∃ l ∈ ls, ListenerAct.remove x ∈ react l) → (∀ l ∈ ls, ListenerAct.add x ∉ react l) → x ∉ (notifyRound ls react).live)
    ∧ ((∀ l ∈ ls, ListenerAct.add x ∉ react l ∧ ListenerAct.remove x ∉ react l) → (x ∈ (notifyRound ls react).live ↔ x ∈ ls)) := by
  have hok := notifyRound_ok ls react
  obtain ⟨h1, h2, h3, h4, h5⟩ := snapshot_semantics_general (catches := true) ls react x
  exact ⟨h1, h2 hok, h3 hok, h4 hok, h5⟩

/-- what a delivery shows the listeners is the one `ingest` of C06_post_state / C06_calls: every listener of round 1 is
handed `d.out.call1` (the pair list and the cache of `C06_calls`), every listener of round 2 sees `d.out.cache` -/
theorem C06_delivery_out (order : List Nat → List Nat) (c : Cache) (ls : List Nat) (now : Ms) (recs : List Rec)
    (react1 react2 : Nat → List ListenerAct) (d : Delivery) (hd : deliver lower order c ls now recs react1 react2 = .ok d) :
    ingest lower (Cache.ops lower) c now recs = .ok d.out := by
  unfold deliver deliverWith at hd
  cases hi : ingest lower (Cache.ops lower) c now recs with
  | error e => rw [hi] at hd; cases hd
  | ok out =>
    rw [hi] at hd
    simp only [bind, Except.bind] at hd
    cases hc : out.call1 with
    | none => rw [hc] at hd; cases hd; rfl
    | some call =>
      rw [hc] at hd
      simp only [] at hd
      split at hd
      · cases hd; rfl
      · cases hd; rfl

/-- the literal sentence is false of the code (and of the model): a goodbye for a record that is not cached calls nobody -/
theorem C06_called_for_every_datagram_literal_refuted : ¬ C06_called_for_every_datagram_literal id := by
  intro h
  obtain ⟨out, ho, _, h3⟩ := C06_called_iff_effective id [] 1000 [⟨"a.local.", 16, 1, false, 0, 0, .txt [1]⟩]
  have hn : out.call1 = none := h3.2 (by
    intro r hr
    simp only [List.mem_singleton] at hr
    subst hr
    exact ⟨rfl, by decide⟩)
  have := (h [] 1000 _ out ho).1
  rw [hn] at this
  cases this

/-! non-vacuity -/

/-- a datagram that calls nobody can still change lifetimes: the goodbye of an *uncached* address with the cache-flush bit marks the
cached sibling `(5000, 1)` although `call1 = none` -/
example :
    let a1 : Rec := ⟨"h.local.", 1, 1, true, 120, 0, .addr [10, 0, 0, 1] none⟩
    let bye2 : Rec := ⟨"h.local.", 1, 1, true, 0, 0, .addr [10, 0, 0, 2] none⟩
    let res := (ingest id (Cache.ops id) (cacheAfter id [.datagram 1000 [a1]]) 5000 [bye2]).toOption
    res.map (fun o => o.call1.isNone) = some true
    ∧ (res.bind (fun o => o.cache.getUnique id a1)).map (fun e => (e.created, e.ttl)) = some (5000, 1) := by
  decide

/-- the flush fires one millisecond after the second: an address cached at 1000 ms, a cache-flush sibling arriving at
2001 ms marks it `(2001, 1)`; arriving at 2000 ms it leaves it alone -/
example :
    let a1 : Rec := ⟨"h.local.", 1, 1, true, 120, 0, .addr [10, 0, 0, 1] none⟩
    let a2 : Rec := ⟨"h.local.", 1, 1, true, 120, 0, .addr [10, 0, 0, 2] none⟩
    (((ingest id (Cache.ops id) (cacheAfter id [.datagram 1000 [a1]]) 2001 [a2]).toOption.bind
        (fun o => o.cache.getUnique id a1)).map (fun e => (e.created, e.ttl)) = some (2001, 1))
    ∧ (((ingest id (Cache.ops id) (cacheAfter id [.datagram 1000 [a1]]) 2000 [a2]).toOption.bind
        (fun o => o.cache.getUnique id a1)).map (fun e => (e.created, e.ttl)) = some (1000, 120)) := by
  decide

/-- a goodbye, a refresh, a flush victim and a new record in one datagram: the TXT is withdrawn, the PTR refreshed (TTL
floored to 1125), the old address marked `(5000, 1)`, the new address stored -/
example :
    let txt : Rec := ⟨"h._x._tcp.local.", 16, 1, false, 4500, 0, .txt []⟩
    let ptr : Rec := ⟨"_x._tcp.local.", 12, 1, false, 4500, 0, .ptr "h._x._tcp.local."⟩
    let a1 : Rec := ⟨"a.local.", 1, 1, true, 120, 0, .addr [10, 0, 0, 1] none⟩
    let a2 : Rec := ⟨"a.local.", 1, 1, true, 120, 0, .addr [10, 0, 0, 2] none⟩
    let res := (ingest id (Cache.ops id) (cacheAfter id [.datagram 1000 [txt, ptr, a1]]) 5000
        [{ txt with ttl := 0 }, { ptr with ttl := 60 }, a2]).toOption
    (res.bind (fun o => o.cache.getUnique id txt)) = none
    ∧ (res.bind (fun o => o.cache.getUnique id ptr)).map (fun e => (e.created, e.ttl)) = some (5000, 1125)
    ∧ (res.bind (fun o => o.cache.getUnique id a1)).map (fun e => (e.created, e.ttl)) = some (5000, 1)
    ∧ (res.bind (fun o => o.cache.getUnique id a2)).map (fun e => (e.created, e.ttl)) = some (5000, 120)
    ∧ (res.map (fun o => o.call1.isSome)) = some true := by
  decide

end
end Zc
