import Zc.Proofs.SurviveHost
import Zc.Proofs.SurviveComp
import Zc.Proofs.SurviveRoute
import Zc.Props.C15RouteQ
/-! # C15 — survival with the routing and the outgoing queues composed in (C12/C11's reply model)

`Zc.Props.C15`'s composed theorems assume three things about the uninterpreted residue `Rest`:
`ListenersOK`, `RouteOK` and `QueueOK`.  Here the residue is the instance `Survive.Route.rest`, whose
`route` is `_QueryResponse` + `QueryHandler.async_response`'s loop + the question history and whose
`enqueue` is the two `MulticastOutgoingQueue.async_add` calls, both taken from the reply model of
C12/C11 and run against the real cache model.  **`RouteOK` and `QueueOK` are theorems of that instance**
(`C15_routeOK`, `C15_queueOK`), so the survival theorems below assume only

* `BaseOK` — the listeners that are neither browsers nor lookups (user `RecordUpdateListener`s, the
  waking of lookup futures, `async_notify_all`; the browsers' scheduler bookkeeping is now C10's `Sched2` inside `Comp.ingest`) return normally and keep their invariant `I₀`;
* the composite invariant `CInv` (cache refines a duplicate-free store, C03's `IndexInv`, the data
  invariant `RegSafe` of what the application registered, no browser callback pending) with the residue
  invariant `Route.Inv` (`I₀`, and each queue has a timer iff it is non-empty and strictly increasing `send_after`s);
* `LInv` of the listener.

They hold for every case folding `lower`, every attribution `attrib` of answer-map entries to questions and
every oracle `orc` for the random draws and the loop time of `async_add`. -/
namespace Zc
open Zc.Wire Zc.Wire.DecodeLib Zc.Survive Zc.Survive.Comp
open Zc.Listener (Addr alGet TcTimer)

section routed
variable (lower : String → String) (possible : String → List String) (ettl : Nat)
variable (attrib : Question → Rec → Bool) (orc : Route.Oracle)
variable {ρ₀ ω' : Type} (B : Route.Base ρ₀ ω') (I₀ : ρ₀ → Prop)

/-- **C15's residual assumption 2, discharged.**  `_QueryResponse` routing and the question history return
normally, keep the invariant, and put into the unicast reply and the immediate multicast only records of
the answer map they were given. -/
theorem C15_routeOK : RouteOK (Route.rest lower attrib orc B) (Route.Inv I₀) :=
  Route.routeOK lower attrib orc B I₀

/-- **C15's residual assumption 3, discharged.**  The two `async_add` calls keep the invariant for every draw,
stamp and loop time. -/
theorem C15_queueOK : QueueOK (Route.rest lower attrib orc B) (Route.Inv I₀) :=
  Route.queueOK lower attrib orc B I₀

/-- "returns normally" is not an artefact of totalised definitions: the one `KeyError` site of the routing
(`self._additionals[r]` in `_QueryResponse.answers()`) is unreachable — every record of the four answer sets has
its additionals — for every number of strategies, cache state and question mix -/
theorem C15_route_no_keyerror (us probe : Bool) (seen : Reply.SeenMap) (now : Int) (nq q0 : Nat) (known : List (Reply.RecId × Nat))
    (items : List Reply.QItem) (r : Reply.RecId) :
    let qr := items.foldl (fun (qr : Reply.QR) it => qr.route us probe seen now nq q0 it.qu (Reply.answerSet known it)) {}
    (r ∈ qr.ucast ∨ r ∈ qr.mcastNow ∨ r ∈ qr.mcastAgg ∨ r ∈ qr.mcastLast) → r ∈ qr.additionals.keys :=
  fun h => Route.answers_wf us probe seen now nq q0 known items r h

/-- … and every id the routing hands out — answer or additional — is the id of a record of the block's answer map,
so decoding the reply model's result back to record objects drops nothing -/
theorem C15_route_decodes {tbl : List Rec} {dict : DictRS} {ks : List Survive.Pkt} {u : Bool} {seen : Reply.SeenMap} {qa : Reply.QA}
    (h : Reply.asyncResponse (ks.map (Route.toPkt lower attrib tbl dict)) u seen = some qa) (e : Nat × List Nat)
    (he : e ∈ qa.ucast ∨ e ∈ qa.mcastNow ∨ e ∈ qa.mcastAgg ∨ e ∈ qa.mcastLast) :
    (Route.recOfId lower tbl dict e.1).isSome = true ∧ ∀ a ∈ e.2, (Route.recOfId lower tbl dict a).isSome = true := by
  refine ⟨?_, Route.route_adds_decoded lower attrib h e he⟩
  apply Route.route_keys_decoded lower attrib h
  rcases he with he | he | he | he
  · exact Or.inl (List.mem_map_of_mem he)
  · exact Or.inr (Or.inl (List.mem_map_of_mem he))
  · exact Or.inr (Or.inr (Or.inl (List.mem_map_of_mem he)))
  · exact Or.inr (Or.inr (Or.inr (List.mem_map_of_mem he)))

/-- `DownOK` of the composition with routing and queues interpreted: only `BaseOK` is assumed -/
theorem C15_down_routed (hB : Route.BaseOK B I₀) :
    DownOK (Comp.down lower possible ettl (Route.rest lower attrib orc B)) (CInv lower ettl (Route.Inv I₀)) QASafe :=
  comp_downOK lower possible ettl _ _ (Route.listenersOK lower attrib orc B I₀ hB)
    (C15_routeOK lower attrib orc B I₀) (C15_queueOK lower attrib orc B I₀)

/-- **Survival, one block, routing and queues composed** (`_partial`: assumes `BaseOK` and the invariant `CInv` —
no longer `RouteOK`/`QueueOK`).  `datagram_received` returns normally for every byte string, source, port, clock
reading and draw, and re-establishes the invariant, including the shape of both outgoing queues. -/
theorem C15_total_routed_partial (hB : Route.BaseOK B I₀)
    (s : State (CState (ρ₀ × Route.RState))) (hI : CInv lower ettl (Route.Inv I₀) s.down) (hLi : LInv s)
    (data : Bytes) (addr : Addr) (port : Nat) (now : Ms) (draw : Nat) :
    ∃ s' out tag, recv (Comp.down lower possible ettl (Route.rest lower attrib orc B)) s data addr port now draw = .ok (s', out, tag) ∧
      CInv lower ettl (Route.Inv I₀) s'.down ∧ LInv s' :=
  recv_ok (C15_down_routed lower possible ettl attrib orc B I₀ hB) sendOK_safe s data addr port now draw hI hLi

/-- the deferred-query timer likewise -/
theorem C15_timer_routed_partial (hB : Route.BaseOK B I₀)
    (s : State (CState (ρ₀ × Route.RState))) (hI : CInv lower ettl (Route.Inv I₀) s.down) (hLi : LInv s)
    (addr : Addr) (t : TcTimer) (ht : alGet addr s.timers = some t) :
    ∃ s' out tag, tcFire (Comp.down lower possible ettl (Route.rest lower attrib orc B)) s addr = .ok (s', out, tag) ∧
      CInv lower ettl (Route.Inv I₀) s'.down ∧ LInv s' :=
  tcFire_ok (C15_down_routed lower possible ettl attrib orc B I₀ hB) sendOK_safe s addr t ht hI hLi

/-- **Survival, every history, routing and queues composed** (`_partial`, same hypotheses, plus: every other block of
the host — registration API, browser start/stop, cache purge, the queues' own timers — preserves `CInv` without raising) -/
theorem C15_history_routed_partial {β : Type} (hB : Route.BaseOK B I₀)
    (other : CState (ρ₀ × Route.RState) → β → Except PyExc (CState (ρ₀ × Route.RState) × List (COut ω')))
    (hO : ∀ d b, CInv lower ettl (Route.Inv I₀) d → ∃ d' o, other d b = .ok (d', o) ∧ CInv lower ettl (Route.Inv I₀) d')
    (d0 : CState (ρ₀ × Route.RState)) (h0 : CInv lower ettl (Route.Inv I₀) d0) (bs : List (Survive.Block β)) :
    (∃ s' out, run (Comp.down lower possible ettl (Route.rest lower attrib orc B)) other (State.init d0) bs = .ok (s', out) ∧
        CInv lower ettl (Route.Inv I₀) s'.down ∧ LInv s') ∨
      run (Comp.down lower possible ettl (Route.rest lower attrib orc B)) other (State.init d0) bs = .error .keyError :=
  run_ok (C15_down_routed lower possible ettl attrib orc B I₀ hB) sendOK_safe other hO bs (State.init d0) h0 (LInv.init d0)

/-- one of the "other blocks": a queue's own timer (`async_ready`) keeps the queue shape — it can only drop groups from
the front and re-arms exactly when groups remain (stated for the reachable, timed states of C12: `QInv`) -/
theorem C15_queue_timer_shape {p : Reply.QP} {hist : List Reply.AddRec} {clock now : Int} {q : Reply.Queue}
    (hI : Reply.QInv p hist clock q) (hc : clock ≤ now) (ht : q.timer = some now) :
    ∃ hist', Reply.QInv p hist' now (q.ready now).1 := by
  have h := Reply.QInv.ready hI hc ht
  exact ⟨hist, h.1⟩

/-! ### non-vacuity -/

/-- a base with no further listeners -/
def exBase : Route.Base Unit String where
  listeners r _ _ _ _ _ := .ok (r, [])

example : Route.BaseOK exBase (fun _ => True) := fun r0 _ _ _ _ _ _ => ⟨r0, [], rfl, trivial⟩

/-- the initial composite state (empty cache, registry, history and queues) satisfies the invariant -/
example : CInv lower ettl (Route.Inv (fun _ : Unit => True)) ⟨{}, [], [], [], {}, [], [], none, ((), {})⟩ :=
  CInv.init lower ettl (Route.Inv (fun _ : Unit => True)) ((), {})
    (show Route.Inv (fun _ : Unit => True) ((), {}) from ⟨trivial, Route.QShape.init, Route.QShape.init⟩)

/-- the instance really routes: a QM PTR question whose answer the host has not multicast in the last second goes to
the aggregation queue, which then holds one group and an armed timer; a QU question for the same record, which the (empty) cache has not seen
multicast within a quarter of its TTL, is multicast at once -/
def exPtr : Rec := ⟨"_a._tcp.local.", 12, 1, false, 4500, 0, .ptr "s._a._tcp.local."⟩
def exSrv : Rec := ⟨"s._a._tcp.local.", 33, 1, true, 120, 0, .srv 0 0 80 "h.local."⟩
def exQuery (qclass : Nat) : Survive.Pkt :=
  ⟨[], 5000, ⟨true, { nq := 1 }, [⟨[[95, 97], [95, 116, 99, 112], [108, 111, 99, 97, 108]], 12, qclass⟩], []⟩, none⟩

example :
    let r := Route.route id (fun _ _ => true) {} {} [exQuery 1] false [(exPtr, [exSrv])]
    r.2.aggregate = [(exPtr, [exSrv])] ∧ r.2.ucast = [] ∧ r.2.mcastNow = [] ∧
    ((Route.enqueue id (fun _ _ => (20, 20, 5000)) r.1 5000 r.2).outQ.groups.map (fun g => (g.sa, g.sb))) = [(5020, 5500)] ∧
    (Route.enqueue id (fun _ _ => (20, 20, 5000)) r.1 5000 r.2).outQ.timer = some 5020 := by decide +kernel

example :
    (Route.route id (fun _ _ => true) {} {} [exQuery 0x8001] false [(exPtr, [exSrv])]).2.mcastNow = [(exPtr, [exSrv])] := by decide +kernel

end routed

end Zc
