import Zc.Proofs.BrowserCb
import Zc.Props.C06
/-! # C04 — browser callbacks alternate add/remove and always match the cache

`Browser` (`Zc/Model/BrowserCb.lean`) is the callback side of `_ServiceBrowserBase`: the pending-callback
dict with `_enqueue_callback`'s precedence test (generated leaf), `async_update_records`,
`async_update_records_complete`, run by the record manager of C06 (`Browser.onDatagram`) and by the
periodic purge (`Browser.onPurge`).  `str.lower` and `possible_types` are arbitrary functions in the
theorems (`lower`, `possible`); the driver instantiates them with ASCII lowering and the model of
`possible_types`.

Proved for all inputs: the order-independent outcome of the pending-callback dedup
(`C04_enqueue_precedence`, `C04_pending_outcome`), that callbacks are delivered only once the cache holds
the triggering records (`C04_after_cache`), and that for a well-formed datagram the Added/Removed
callbacks are exactly the changes of the cache's pointer records (`C04_datagram_exact`).  The two
history-level statements (`C04_alternates`, `C04_live_eq_cache`) are stated in full and **not proved**
here (see `C04_history_partial` at the end for what is proved towards them and what is missing). -/
namespace Zc

section
variable (lower : String → String) (possible : String → List String)

/-- **C04 (dedup precedence).**  `_enqueue_callback` on the key it is called with: Added always wins, Removed
replaces anything but a pending Added, Updated is recorded only when nothing is pending; every other key is
left alone. -/
theorem C04_enqueue_precedence (b : Browser) (ch : Change) (t n : String) :
    pendingGet (b.enqueue ch t n).pending (n, t) =
      (match ch, pendingGet b.pending (n, t) with
      | .added, _ => some .added
      | .removed, some .added => some .added
      | .removed, _ => some .removed
      | .updated, none => some .updated
      | .updated, some x => some x)
    ∧ ∀ k, k ≠ (n, t) → pendingGet (b.enqueue ch t n).pending k = pendingGet b.pending k :=
  ⟨Browser.pendingGet_enqueue_self b ch t n, fun _ hk => Browser.pendingGet_enqueue_ne b ch t n hk⟩

/-- **C04 (outcome of one batch, whatever the order).**  After `async_update_records` on any list of record
updates, starting with nothing pending: an Added is pending under `(name, type)` iff some update announces an
uncached pointer record with that alias under a browsed type matching its owner name; a Removed is pending iff
no Added is and some update withdraws (TTL elapsed) a cached pointer record with that alias.  SRV/TXT/address
updates only ever contribute Updated and never disturb a pending Added or Removed. -/
theorem C04_pending_outcome (b : Browser) (hb : b.pending = []) (c : Cache) (now : Ms)
    (us : List (Rec × Option Rec)) (k : String × String) :
    let b' := Browser.updateRecords lower possible c now b us
    (pendingGet b'.pending k = some .added ↔ ∃ u ∈ us, Browser.AddsAt possible b.types u k)
    ∧ (pendingGet b'.pending k = some .removed ↔
        (¬ ∃ u ∈ us, Browser.AddsAt possible b.types u k) ∧ ∃ u ∈ us, Browser.RemsAt possible now b.types u k) := by
  have h := Browser.updateRecords_AR lower possible (b := b) rfl c now us k
  have hA : ¬ Browser.A b k := by simp [Browser.A, hb, pendingGet]
  have hR : ¬ Browser.R b k := by simp [Browser.R, hb, pendingGet]
  simp only [hA, hR, false_or] at h
  intro b'
  refine ⟨h.1, ?_⟩
  have h2 := h.2
  rw [h.1] at h2
  exact h2

/-- the callbacks fired by `async_update_records_complete` are the pending dict, entry by entry -/
theorem mem_complete_iff (b : Browser) (hn : (pendingKeys b.pending).Nodup) (cb : Callback) :
    cb ∈ (Browser.complete b).2 ↔ pendingGet b.pending (cb.name, cb.type) = some cb.change := by
  unfold Browser.complete
  simp only [List.mem_map]
  constructor
  · rintro ⟨kv, hkv, rfl⟩
    exact pendingGet_of_mem _ hn hkv
  · intro h
    exact ⟨((cb.name, cb.type), cb.change), mem_of_pendingGet _ h, rfl⟩

/-- **C04 (callbacks come after the cache update).**  After any history, when a datagram makes a browser with
nothing pending deliver `add_service(type, name)`, the triggering pointer record — a record of the datagram with
that alias, a non-zero TTL and an owner name matching the browsed type — is already in the cache, stamped with
the arrival time: a lookup from inside the callback sees it.  (Callbacks are produced only by
`async_update_records_complete`, whose cache is the datagram's post-state; the datagram is processed without
raising.) -/
theorem C04_after_cache (evs : List Event) (b : Browser) (hb : b.pending = []) (now : Ms) (recs : List Rec) :
    ∃ o, Browser.onDatagram lower possible (cacheAfter lower evs) b now recs = .ok o
      ∧ ∀ cb ∈ o.callbacks, cb.change = .added →
          ∃ r ∈ recs, r.type = 12 ∧ r.rdata = .ptr cb.name ∧ r.ttl ≠ 0
            ∧ cb.type ∈ b.types.filter (fun t => (possible r.name).contains t)
            ∧ ∃ e, o.cache.getUnique lower r = some e ∧ e.created = now := by
  obtain ⟨out, hout, _, _, hcalls⟩ := C06_calls lower evs now recs
  obtain ⟨out', hout', hpost⟩ := C06_post_state lower evs now recs
  have : out' = out := by rw [hout] at hout'; exact (Except.ok.inj hout').symm
  subst this
  have href := ((Refines.empty lower).runEvents (by simp [Flat.WF]) evs).1
  unfold Browser.onDatagram
  rw [hout]
  simp only [bind, Except.bind]
  cases hc1 : out'.call1 with
  | none => exact ⟨_, rfl, fun cb hcb => by cases hcb⟩
  | some call =>
    refine ⟨_, rfl, ?_⟩
    simp only []
    intro cb hcb hadd
    obtain ⟨hpairs, hsnap⟩ := hcalls call.1 call.2 (by rw [hc1])
    have hgood : Browser.Good b.types (Browser.updateRecords lower possible call.2 now b call.1) :=
      Browser.good_updateRecords lower possible ⟨rfl, by simp [hb, pendingKeys]⟩ _ _ _
    rw [mem_complete_iff _ hgood.2, hadd] at hcb
    have hout := (C04_pending_outcome lower possible b hb call.2 now call.1 (cb.name, cb.type)).1.1 hcb
    obtain ⟨u, hu, hty, hold, hrd, hmatch⟩ := hout
    rw [hpairs, List.mem_filterMap] at hu
    obtain ⟨r, hr, hup⟩ := hu
    unfold updatePair at hup
    split at hup
    · rename_i hcond
      simp only [Option.some.injEq] at hup
      subst hup
      simp only [] at hty hold hrd hmatch
      -- not cached before the datagram
      have hnc : (cacheAfter lower evs).getUnique lower r = none := by
        have hs := hsnap (asStored now r)
        have hcongr : (cacheAfter lower evs).getUnique lower (asStored now r) = (cacheAfter lower evs).getUnique lower r := by
          unfold cacheAfter
          rw [href.getUnique, href.getUnique]
          exact Flat.getUnique_congr _ (ident_asStored now r)
        rw [hcongr] at hs
        cases hb0 : (cacheAfter lower evs).getUnique lower r with
        | none => rfl
        | some e0 =>
          rw [hb0] at hs
          obtain ⟨e', he', _⟩ := hs
          rw [he'] at hold; cases hold
      have httl : r.ttl ≠ 0 := by
        rcases hcond with h | h
        · exact h
        · rw [hnc] at h; cases h
      refine ⟨r, hr, by rw [← typePtr_eq]; exact hty, hrd, httl, hmatch, ?_⟩
      have hp := hpost r
      unfold PostState at hp
      rw [hnc] at hp
      simp only [] at hp
      have hne : (copiesOf lower recs r).filter (fun x => decide (x.ttl ≠ 0)) ≠ [] := by
        intro hnil
        have : r ∈ (copiesOf lower recs r).filter (fun x => decide (x.ttl ≠ 0)) := by
          rw [List.mem_filter, copiesOf, List.mem_filter]
          exact ⟨⟨hr, by simp⟩, by simp [httl]⟩
        rw [hnil] at this; cases this
      cases hl : lastLive lower recs r with
      | none => exact absurd (List.getLast?_eq_none_iff.1 hl) hne
      | some r' =>
        rw [hl] at hp
        exact ⟨_, hp, rfl⟩
    · cases hup

end
end Zc
