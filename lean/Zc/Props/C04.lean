import Zc.Proofs.BrowserCb
import Zc.GenFacts.BrowserCb
import Zc.Props.C06
/-! # C04 — browser callbacks alternate add/remove and always match the cache

`Browser` (`Zc/Model/BrowserCb.lean`) is the callback side of `_ServiceBrowserBase`: the pending-callback
dict with `_enqueue_callback`'s precedence test (generated leaf), `async_update_records`,
`async_update_records_complete`, run by the record manager of C06 (`Browser.onDatagram`) and by the
periodic purge (`Browser.onPurge`).  `str.lower` and `possible_types` are arbitrary functions in the
theorems (`lower`, `possible`); the driver instantiates them with ASCII lowering and the model of
`possible_types`.

Proved, all at full strength: the order-independent outcome of the pending-callback dedup
(`C04_enqueue_precedence`, `C04_pending_outcome`); callbacks are delivered only once the cache holds the
triggering records (`C04_after_cache`); each kind of step — a well-formed datagram (`C04_datagram_exact`), the
periodic purge (`purge_step_exact`), the initial replay at browser creation (`start_exact`) — fires exactly the
Added/Removed callbacks that correspond to the change of the cache's pointer records; and, by induction over the
history, the two sentences of the property: `C04_alternates` and `C04_live_eq_cache`, for every history whose browsed types
and datagrams satisfy the quantifier's restrictions (`WFHistory`: well-formed browsed types, every datagram before and after the
browser's creation well-formed — own pointer records exact, foreign pointer records allowed) and **for a browser created at any
time**: since the D23 repair (/repo 1a6b142) the creation purges the expired records before it registers and replays
(`Browser.createWith`, generated leaf `add_listener_purges_first`), so the quantifier's "no expired-but-unpurged pointer record at
creation" is a fact about the code (`fresh_after_creation_purge`), not a hypothesis; purge and replay use one reading of the clock
(D23b repair, c7503f0; generated leaf `add_listener_replay_now`; the two-readings window is kept as a before-fix `example`).  The purge step uses the provenance invariant `CachedWF` (every cached pointer record is spelled as
some datagram record was), itself proved along every history (`cachedWF_after`). -/
namespace Zc

section
variable (lower : String → String) (possible : String → List String)

/-- **C04 (dedup precedence).**  `_enqueue_callback` on the key it is called with: Added always wins, Removed
replaces anything but a pending Added, Updated is recorded only when nothing is pending; every other key is
left alone. -/
theorem C04_enqueue_precedence (b : Browser) (ch : Change) (t n : String) :
    pendingGet (b.enqueue ch t n).pending (n, t) =
      (match ch, pendingGet b.pending (n, t) with
      | .added, _ => some .added
      | .removed, some .added => some .added
      | .removed, _ => some .removed
      | .updated, none => some .updated
      | .updated, some x => some x)
    ∧ ∀ k, k ≠ (n, t) → pendingGet (b.enqueue ch t n).pending k = pendingGet b.pending k :=
  ⟨Browser.pendingGet_enqueue_self b ch t n, fun _ hk => Browser.pendingGet_enqueue_ne b ch t n hk⟩

/-- **C04 (outcome of one batch, whatever the order).**  After `async_update_records` on any list of record
updates, starting with nothing pending: an Added is pending under `(name, type)` iff some update announces an
uncached pointer record with that alias under a browsed type matching its owner name; a Removed is pending iff
no Added is and some update withdraws (TTL elapsed) a cached pointer record with that alias.  SRV/TXT/address
updates only ever contribute Updated and never disturb a pending Added or Removed. -/
theorem C04_pending_outcome (b : Browser) (hb : b.pending = []) (c : Cache) (now : Ms)
    (us : List (Rec × Option Rec)) (k : String × String) :
    let b' := Browser.updateRecords lower possible c now b us
    (pendingGet b'.pending k = some .added ↔ ∃ u ∈ us, Browser.AddsAt possible b.types u k)
    ∧ (pendingGet b'.pending k = some .removed ↔
        (¬ ∃ u ∈ us, Browser.AddsAt possible b.types u k) ∧ ∃ u ∈ us, Browser.RemsAt possible now b.types u k) := by
  have h := Browser.updateRecords_AR lower possible (b := b) rfl c now us k
  have hA : ¬ Browser.A b k := by simp [Browser.A, hb, pendingGet]
  have hR : ¬ Browser.R b k := by simp [Browser.R, hb, pendingGet]
  simp only [hA, hR, false_or] at h
  intro b'
  refine ⟨h.1, ?_⟩
  have h2 := h.2
  rw [h.1] at h2
  exact h2

/-- the callbacks fired by `async_update_records_complete` are the pending dict, entry by entry -/
theorem mem_complete_iff (b : Browser) (hn : (pendingKeys b.pending).Nodup) (cb : Callback) :
    cb ∈ (Browser.complete b).2 ↔ pendingGet b.pending (cb.name, cb.type) = some cb.change := by
  unfold Browser.complete
  simp only [List.mem_map]
  constructor
  · rintro ⟨kv, hkv, rfl⟩
    exact pendingGet_of_mem _ hn hkv
  · intro h
    exact ⟨((cb.name, cb.type), cb.change), mem_of_pendingGet _ h, rfl⟩

/-- … and no callback is fired twice -/
theorem complete_nodup (b : Browser) (hn : (pendingKeys b.pending).Nodup) : (Browser.complete b).2.Nodup := by
  unfold Browser.complete
  simp only []
  unfold pendingKeys at hn
  rw [List.Nodup, List.pairwise_map] at hn ⊢
  exact hn.imp (fun hab heq => hab (by
    have h1 := congrArg Callback.name heq
    have h2 := congrArg Callback.type heq
    simp only [] at h1 h2
    exact Prod.ext h1 h2))

/-- **C04 (callbacks come after the cache update).**  After any history, when a datagram makes a browser with
nothing pending deliver `add_service(type, name)`, the triggering pointer record — a record of the datagram with
that alias, a non-zero TTL and an owner name matching the browsed type — is already in the cache, stamped with
the arrival time: a lookup from inside the callback sees it.  (Callbacks are produced only by
`async_update_records_complete`, whose cache is the datagram's post-state; the datagram is processed without
raising.) -/
theorem C04_after_cache (evs : List Event) (b : Browser) (hb : b.pending = []) (now : Ms) (recs : List Rec) :
    ∃ o, Browser.onDatagram lower possible (cacheAfter lower evs) b now recs = .ok o
      ∧ ∀ cb ∈ o.callbacks, cb.change = .added →
          ∃ r ∈ recs, r.type = 12 ∧ r.rdata = .ptr cb.name ∧ r.ttl ≠ 0
            ∧ cb.type ∈ b.types.filter (fun t => (possible r.name).contains t)
            ∧ ∃ e, o.cache.getUnique lower r = some e ∧ e.created = now := by
  obtain ⟨out, hout, _, _, hcalls⟩ := C06_calls lower evs now recs
  obtain ⟨out', hout', hpost⟩ := C06_post_state lower evs now recs
  have : out' = out := by rw [hout] at hout'; exact (Except.ok.inj hout').symm
  subst this
  have href := ((Refines.empty lower).runEvents (by simp [Flat.WF]) evs).1
  unfold Browser.onDatagram
  rw [hout]
  simp only [bind, Except.bind]
  cases hc1 : out'.call1 with
  | none => exact ⟨_, rfl, fun cb hcb => by cases hcb⟩
  | some call =>
    refine ⟨_, rfl, ?_⟩
    simp only []
    intro cb hcb hadd
    obtain ⟨hpairs, hsnap⟩ := hcalls call.1 call.2 (by rw [hc1])
    have hgood : Browser.Good b.types (Browser.updateRecords lower possible call.2 now b call.1) :=
      Browser.good_updateRecords lower possible ⟨rfl, by simp [hb, pendingKeys]⟩ _ _ _
    rw [mem_complete_iff _ hgood.2, hadd] at hcb
    have hout := (C04_pending_outcome lower possible b hb call.2 now call.1 (cb.name, cb.type)).1.1 hcb
    obtain ⟨u, hu, hty, hold, hrd, hmatch⟩ := hout
    rw [hpairs, List.mem_filterMap] at hu
    obtain ⟨r, hr, hup⟩ := hu
    unfold updatePair at hup
    split at hup
    · rename_i hcond
      simp only [Option.some.injEq] at hup
      subst hup
      simp only [] at hty hold hrd hmatch
      -- not cached before the datagram
      have hnc : (cacheAfter lower evs).getUnique lower r = none := by
        have hs := hsnap (asStored now r)
        have hcongr : (cacheAfter lower evs).getUnique lower (asStored now r) = (cacheAfter lower evs).getUnique lower r := by
          unfold cacheAfter
          rw [href.getUnique, href.getUnique]
          exact Flat.getUnique_congr _ (ident_asStored now r)
        rw [hcongr] at hs
        cases hb0 : (cacheAfter lower evs).getUnique lower r with
        | none => rfl
        | some e0 =>
          rw [hb0] at hs
          obtain ⟨e', he', _⟩ := hs
          rw [he'] at hold; cases hold
      have httl : r.ttl ≠ 0 := by
        rcases hcond with h | h
        · exact h
        · rw [hnc] at h; cases h
      refine ⟨r, hr, by rw [← typePtr_eq]; exact hty, hrd, httl, hmatch, ?_⟩
      have hp := hpost r
      unfold PostState at hp
      rw [hnc] at hp
      simp only [] at hp
      have hne : (copiesOf lower recs r).filter (fun x => decide (x.ttl ≠ 0)) ≠ [] := by
        intro hnil
        have : r ∈ (copiesOf lower recs r).filter (fun x => decide (x.ttl ≠ 0)) := by
          rw [List.mem_filter, copiesOf, List.mem_filter]
          exact ⟨⟨hr, by simp⟩, by simp [httl]⟩
        rw [hnil] at this; cases this
      cases hl : lastLive lower recs r with
      | none => exact absurd (List.getLast?_eq_none_iff.1 hl) hne
      | some r' =>
        rw [hl] at hp
        exact ⟨_, hp, rfl⟩
    · cases hup

/-! ### one well-formed datagram: callbacks = changes of the cached pointer records -/

/-- the quantifier's restriction on the browsed types: a type matches only itself among the browsed types
(not sub/super-types of one another), and no two differ only in letter case -/
structure WFTypes (types : List String) : Prop where
  exact : ∀ t ∈ types, types.filter (fun t' => (possible t).contains t') = [t]
  caseDistinct : ∀ t ∈ types, ∀ t' ∈ types, lower t = lower t' → t = t'

/-- a type-PTR record of this browser: a pointer record of class IN whose owner name is exactly a browsed type -/
def PtrShape (types : List String) (r : Rec) : Prop := (∃ a, r.rdata = .ptr a) ∧ r.class_ = 1 ∧ r.name ∈ types

/-- a type-PTR record that has nothing to do with this browser (another browser's type, a `_services._dns-sd._udp`
enumeration pointer, …): no browsed type matches its owner name, not even up to letter case -/
def ForeignPtr (types : List String) (r : Rec) : Prop :=
  types.filter (fun t => (possible r.name).contains t) = [] ∧ ∀ t ∈ types, lower r.name ≠ lower t

/-- the quantifier's restriction on a datagram: every type-PTR record either belongs to this browser — then it is a pointer
record of class IN whose owner name is *exactly* a browsed type — or is foreign to it; and no two aliases differ only in
letter case -/
structure WFDatagram (types : List String) (recs : List Rec) : Prop where
  ptr : ∀ r ∈ recs, r.type = 12 → PtrShape types r ∨ ForeignPtr lower possible types r
  oneSpelling : ∀ r ∈ recs, ∀ r' ∈ recs, ∀ a a', r.rdata = .ptr a → r'.rdata = .ptr a' → lower a = lower a' → a = a'

/-- the pointer record `type → alias` (class IN), as a lookup probe -/
def ptrRec (t a : String) : Rec := ⟨t, 12, 1, false, 0, 0, .ptr a⟩

variable {lower} {possible}

theorem shape_of_match {types : List String} {r : Rec} (h : PtrShape types r ∨ ForeignPtr lower possible types r) {t : String}
    (hm : t ∈ types.filter (fun t' => (possible r.name).contains t')) : PtrShape types r := by
  rcases h with h | h
  · exact h
  · rw [h.1] at hm; cases hm

theorem shape_of_name {types : List String} {r : Rec} (h : PtrShape types r ∨ ForeignPtr lower possible types r) {t : String}
    (ht : t ∈ types) (hl : lower r.name = lower t) : PtrShape types r := by
  rcases h with h | h
  · exact h
  · exact absurd hl (h.2 t ht)

theorem Cache.getUnique_congr (c : Cache) {r r' : Rec} (h : r.ident lower = r'.ident lower) :
    c.getUnique lower r = c.getUnique lower r' := by
  unfold Cache.getUnique Bucket.lookup
  rw [ident_name lower h]
  congr 1; funext b; congr 1; funext e
  rw [beq_eq_decide, beq_eq_decide, h]

theorem ident_ptrRec_of {r : Rec} {t a a' : String} (hty : r.type = 12) (hc : r.class_ = 1) (hn : r.name = t)
    (hrd : r.rdata = .ptr a') (hl : lower a' = lower a) : r.ident lower = (ptrRec t a).ident lower := by
  simp [Rec.ident, Rec.specIdent, ptrRec, hty, hc, hn, hrd, RData.kind, RData.ident, hl]

theorem of_ident_ptrRec {r : Rec} {t a : String} (h : r.ident lower = (ptrRec t a).ident lower) :
    r.type = 12 ∧ r.class_ = 1 ∧ lower r.name = lower t ∧ ((∃ a', r.rdata = .ptr a' ∧ lower a' = lower a) ∨ ¬ ∃ a', r.rdata = .ptr a') := by
  have h1 := ident_type lower h
  have h2 := ident_class lower h
  have h3 := ident_name lower h
  refine ⟨h1, h2, h3, ?_⟩
  cases hrd : r.rdata with
  | ptr a' =>
    left
    simp only [Rec.ident, Rec.specIdent, ptrRec, hrd, RData.ident, Prod.mk.injEq, RData.ptr.injEq] at h
    exact ⟨a', rfl, h.2.2.2.2⟩
  | _ => right; rintro ⟨a', ha'⟩; cases ha'

variable (lower) (possible)

/-- **C04 (one datagram, exact).**  After any history, for a browser with nothing pending whose browsed types
and the arriving datagram satisfy the quantifier's restrictions: the datagram is processed without raising, and
for every browsed type `t` and instance `a` (compared case-insensitively)
* `add_service(t, a)` is delivered iff the pointer record `t → a` was not cached before the datagram and is
  cached after it;
* `remove_service(t, a)` is delivered iff it was cached before and is not cached after;
* at most one Added/Removed callback is delivered per (type, instance).
So within a datagram the callbacks are exactly the changes of the cache's pointer-record set. -/
theorem C04_datagram_exact (evs : List Event) (b : Browser) (hb : b.pending = [])
    (hwt : WFTypes lower possible b.types) (now : Ms) (recs : List Rec) (hwd : WFDatagram lower possible b.types recs) :
    ∃ o, Browser.onDatagram lower possible (cacheAfter lower evs) b now recs = .ok o
      ∧ (∀ t ∈ b.types, ∀ a : String,
          ((∃ cb ∈ o.callbacks, cb.change = .added ∧ cb.type = t ∧ lower cb.name = lower a)
              ↔ ((cacheAfter lower evs).getUnique lower (ptrRec t a) = none ∧ (o.cache.getUnique lower (ptrRec t a)).isSome = true))
          ∧ ((∃ cb ∈ o.callbacks, cb.change = .removed ∧ cb.type = t ∧ lower cb.name = lower a)
              ↔ (((cacheAfter lower evs).getUnique lower (ptrRec t a)).isSome = true ∧ o.cache.getUnique lower (ptrRec t a) = none)))
      ∧ (∀ cb ∈ o.callbacks, ∀ cb' ∈ o.callbacks, cb.change ≠ .updated → cb'.change ≠ .updated →
          cb.type = cb'.type → lower cb.name = lower cb'.name → cb = cb')
      ∧ o.callbacks.Nodup := by
  obtain ⟨out, hout, _, hnone, hcalls⟩ := C06_calls lower evs now recs
  obtain ⟨out', hout', hpost⟩ := C06_post_state lower evs now recs
  have : out' = out := by rw [hout] at hout'; exact (Except.ok.inj hout').symm
  subst this
  unfold Browser.onDatagram
  rw [hout]
  simp only [bind, Except.bind]
  cases hc1 : out'.call1 with
  | none =>
    refine ⟨_, rfl, ?_, (fun cb hcb => by cases hcb), List.nodup_nil⟩
    have hall := hnone.1 hc1
    intro t ht a
    have hp := hpost (ptrRec t a)
    have hcop : ∀ r ∈ copiesOf lower recs (ptrRec t a), r.ttl = 0 ∧ (cacheAfter lower evs).getUnique lower (ptrRec t a) = none := by
      intro r hr
      have hr' := List.mem_filter.1 hr
      have := hall r hr'.1
      exact ⟨this.1, by rw [← Cache.getUnique_congr _ (of_decide_eq_true hr'.2)]; exact this.2⟩
    have hlive : lastLive lower recs (ptrRec t a) = none := by
      unfold lastLive
      rw [List.getLast?_eq_none_iff, List.filter_eq_nil_iff]
      intro r hr; simp [(hcop r hr).1]
    simp only [List.not_mem_nil, false_and, exists_false, false_iff, not_and]
    unfold PostState at hp
    cases hb0 : (cacheAfter lower evs).getUnique lower (ptrRec t a) with
    | none =>
      rw [hb0, hlive] at hp
      simp only [Option.map_none] at hp
      simp [hp]
    | some e =>
      rw [hb0] at hp
      simp only [] at hp
      have hng : hasGoodbye lower recs (ptrRec t a) = false := by
        rw [Bool.eq_false_iff]; intro hg
        obtain ⟨r, hr, _⟩ := List.any_eq_true.1 hg
        have := (hcop r hr).2
        rw [hb0] at this; cases this
      rw [hng] at hp
      simp only [Bool.false_eq_true, if_false] at hp
      obtain ⟨e', he', _⟩ := hp
      simp [he']
  | some call =>
    obtain ⟨hpairs, hsnap⟩ := hcalls call.1 call.2 (by rw [hc1])
    have hgood : Browser.Good b.types (Browser.updateRecords lower possible call.2 now b call.1) :=
      Browser.good_updateRecords lower possible ⟨rfl, by simp [hb, pendingKeys]⟩ _ _ _
    have hpend := fun k => C04_pending_outcome lower possible b hb call.2 now call.1 k
    -- the pairs, record by record
    have hpair : ∀ u, u ∈ call.1 ↔ ∃ r ∈ recs, (r.ttl ≠ 0 ∨ ((cacheAfter lower evs).getUnique lower r).isSome = true)
        ∧ u = (asStored now r, call.2.getUnique lower (asStored now r)) := by
      intro u
      rw [hpairs, List.mem_filterMap]
      constructor
      · rintro ⟨r, hr, hup⟩
        unfold updatePair at hup
        split at hup
        · rename_i hcond; exact ⟨r, hr, hcond, (Option.some.inj hup).symm⟩
        · cases hup
      · rintro ⟨r, hr, hcond, rfl⟩
        exact ⟨r, hr, by unfold updatePair; rw [if_pos hcond]⟩
    -- `old` is none exactly for records that were not cached
    have hold : ∀ r, call.2.getUnique lower (asStored now r) = none ↔ (cacheAfter lower evs).getUnique lower r = none := by
      intro r
      have hs := hsnap (asStored now r)
      rw [Cache.getUnique_congr (cacheAfter lower evs) (ident_asStored (lower := lower) now r)] at hs
      cases hb0 : (cacheAfter lower evs).getUnique lower r with
      | none => rw [hb0] at hs; simp [hs]
      | some e0 => rw [hb0] at hs; obtain ⟨e', he', _⟩ := hs; simp [he']
    -- adds and removes at a key, in terms of the datagram
    have hadds : ∀ n t, t ∈ b.types → ((∃ u ∈ call.1, Browser.AddsAt possible b.types u (n, t)) ↔
        ∃ r ∈ recs, r.type = 12 ∧ r.rdata = .ptr n ∧ r.name = t ∧ r.ttl ≠ 0 ∧ (cacheAfter lower evs).getUnique lower r = none) := by
      intro n t htt
      constructor
      · rintro ⟨u, hu, hty, ho, hrd, hm⟩
        obtain ⟨r, hr, hcond, rfl⟩ := (hpair u).1 hu
        simp only [] at hty ho hrd hm
        have hty' : r.type = 12 := by rw [← typePtr_eq]; exact hty
        have hnc := (hold r).1 ho
        have hnm : r.name = t := by
          change t ∈ b.types.filter (fun t' => (possible r.name).contains t') at hm
          have := hwt.exact r.name (shape_of_match (hwd.ptr r hr hty') hm).2.2
          rw [this] at hm; exact (List.mem_singleton.1 hm).symm
        refine ⟨r, hr, hty', hrd, hnm, ?_, hnc⟩
        rcases hcond with h | h
        · exact h
        · rw [hnc] at h; cases h
      · rintro ⟨r, hr, hty, hrd, hnm, httl, hnc⟩
        refine ⟨_, (hpair _).2 ⟨r, hr, Or.inl httl, rfl⟩, by rw [typePtr_eq]; exact hty, (hold r).2 hnc, hrd, ?_⟩
        change t ∈ b.types.filter (fun t' => (possible r.name).contains t')
        rw [hwt.exact r.name (shape_of_name (hwd.ptr r hr hty) htt (by rw [hnm])).2.2]; simp [hnm]
    have hrems : ∀ n t, t ∈ b.types → ((∃ u ∈ call.1, Browser.RemsAt possible now b.types u (n, t)) ↔
        ∃ r ∈ recs, r.type = 12 ∧ r.rdata = .ptr n ∧ r.name = t ∧ r.ttl = 0 ∧ ((cacheAfter lower evs).getUnique lower r).isSome = true) := by
      intro n t htt
      constructor
      · rintro ⟨u, hu, hty, ho, hx, hrd, hm⟩
        obtain ⟨r, hr, hcond, rfl⟩ := (hpair u).1 hu
        simp only [] at hty ho hrd hm hx
        have hty' : r.type = 12 := by rw [← typePtr_eq]; exact hty
        have hz : r.ttl = 0 := by rw [isExpired_asStored] at hx; exact of_decide_eq_true hx
        have hnm : r.name = t := by
          change t ∈ b.types.filter (fun t' => (possible r.name).contains t') at hm
          have := hwt.exact r.name (shape_of_match (hwd.ptr r hr hty') hm).2.2
          rw [this] at hm; exact (List.mem_singleton.1 hm).symm
        refine ⟨r, hr, hty', hrd, hnm, hz, ?_⟩
        cases hb0 : (cacheAfter lower evs).getUnique lower r with
        | none => exact absurd ((hold r).2 hb0) ho
        | some _ => rfl
      · rintro ⟨r, hr, hty, hrd, hnm, hz, hc⟩
        refine ⟨_, (hpair _).2 ⟨r, hr, Or.inr hc, rfl⟩, by rw [typePtr_eq]; exact hty, ?_, ?_, hrd, ?_⟩
        · intro hn; rw [(hold r).1 hn] at hc; cases hc
        · simp only []; rw [isExpired_asStored]; simp [hz]
        · change t ∈ b.types.filter (fun t' => (possible r.name).contains t')
          rw [hwt.exact r.name (shape_of_name (hwd.ptr r hr hty) htt (by rw [hnm])).2.2]; simp [hnm]
    refine ⟨_, rfl, ?_, ?_, complete_nodup _ hgood.2⟩
    · intro t ht a
      simp only []
      have hp := hpost (ptrRec t a)
      unfold PostState at hp
      -- shape of a datagram record with the probe's identity
      have hshape : ∀ r ∈ recs, r.ident lower = (ptrRec t a).ident lower →
          r.type = 12 ∧ r.name = t ∧ ∃ a', r.rdata = .ptr a' ∧ lower a' = lower a := by
        intro r hr hid
        obtain ⟨h1, h2, h3, h4⟩ := of_ident_ptrRec hid
        obtain ⟨⟨a0, ha0⟩, _, hnt⟩ := shape_of_name (hwd.ptr r hr h1) ht h3
        refine ⟨h1, hwt.caseDistinct _ hnt _ ht h3, ?_⟩
        rcases h4 with h4 | h4
        · exact h4
        · exact absurd ⟨a0, ha0⟩ h4
      constructor
      · constructor
        · rintro ⟨cb, hcb, hch, hct, hcn⟩
          rw [mem_complete_iff _ hgood.2, hch] at hcb
          obtain ⟨r, hr, hty, hrd, hnm, httl, hnc⟩ := (hadds cb.name cb.type (hct ▸ ht)).1 ((hpend (cb.name, cb.type)).1.1 hcb)
          have hid : r.ident lower = (ptrRec t a).ident lower :=
            ident_ptrRec_of hty (shape_of_name (hwd.ptr r hr hty) ht (by rw [hnm, hct])).2.1 (hnm.trans hct) hrd hcn
          rw [← Cache.getUnique_congr _ hid, ← Cache.getUnique_congr _ hid]
          refine ⟨hnc, ?_⟩
          have hp' := hpost r
          unfold PostState at hp'
          rw [hnc] at hp'
          simp only [] at hp'
          have hne : (copiesOf lower recs r).filter (fun x => decide (x.ttl ≠ 0)) ≠ [] := by
            intro hnil
            have : r ∈ (copiesOf lower recs r).filter (fun x => decide (x.ttl ≠ 0)) := by
              rw [List.mem_filter, copiesOf, List.mem_filter]
              exact ⟨⟨hr, by simp⟩, by simp [httl]⟩
            rw [hnil] at this; cases this
          cases hl : lastLive lower recs r with
          | none => exact absurd (List.getLast?_eq_none_iff.1 hl) hne
          | some r' => rw [hl] at hp'; rw [hp']; rfl
        · rintro ⟨hbn, haft⟩
          rw [hbn] at hp
          simp only [] at hp
          cases hl : lastLive lower recs (ptrRec t a) with
          | none => rw [hl] at hp; rw [hp] at haft; cases haft
          | some r =>
            have hmem : r ∈ (copiesOf lower recs (ptrRec t a)).filter (fun x => decide (x.ttl ≠ 0)) := List.mem_of_getLast? hl
            rw [List.mem_filter, copiesOf, List.mem_filter] at hmem
            obtain ⟨⟨hr, hid⟩, httl⟩ := hmem
            have hid' := of_decide_eq_true hid
            obtain ⟨hty, hnm, a', hrd, hla⟩ := hshape r hr hid'
            have hnc : (cacheAfter lower evs).getUnique lower r = none := by rw [Cache.getUnique_congr _ hid']; exact hbn
            have hA := (hpend (a', t)).1.2 ((hadds a' t ht).2 ⟨r, hr, hty, hrd, hnm, of_decide_eq_true httl, hnc⟩)
            exact ⟨⟨.added, t, a'⟩, (mem_complete_iff _ hgood.2 _).2 hA, rfl, rfl, hla⟩
      · constructor
        · rintro ⟨cb, hcb, hch, hct, hcn⟩
          rw [mem_complete_iff _ hgood.2, hch] at hcb
          obtain ⟨r, hr, hty, hrd, hnm, hz, hc⟩ := (hrems cb.name cb.type (hct ▸ ht)).1 ((hpend (cb.name, cb.type)).2.1 hcb).2
          have hid : r.ident lower = (ptrRec t a).ident lower :=
            ident_ptrRec_of hty (shape_of_name (hwd.ptr r hr hty) ht (by rw [hnm, hct])).2.1 (hnm.trans hct) hrd hcn
          rw [← Cache.getUnique_congr _ hid, ← Cache.getUnique_congr _ hid]
          refine ⟨hc, ?_⟩
          have hp' := hpost r
          unfold PostState at hp'
          cases hb0 : (cacheAfter lower evs).getUnique lower r with
          | none => rw [hb0] at hc; cases hc
          | some e0 =>
            rw [hb0] at hp'
            simp only [] at hp'
            have hg : hasGoodbye lower recs r = true := by
              unfold hasGoodbye copiesOf
              exact List.any_eq_true.2 ⟨r, List.mem_filter.2 ⟨hr, by simp⟩, by simp [hz]⟩
            rw [hg] at hp'
            simpa using hp'
        · rintro ⟨hbs, haft⟩
          cases hb0 : (cacheAfter lower evs).getUnique lower (ptrRec t a) with
          | none => rw [hb0] at hbs; cases hbs
          | some e0 =>
            rw [hb0] at hp
            simp only [] at hp
            by_cases hg : hasGoodbye lower recs (ptrRec t a) = true
            · obtain ⟨r, hr, hz⟩ := List.any_eq_true.1 hg
              rw [copiesOf, List.mem_filter] at hr
              have hid' := of_decide_eq_true hr.2
              obtain ⟨hty, hnm, a', hrd, hla⟩ := hshape r hr.1 hid'
              have hc : ((cacheAfter lower evs).getUnique lower r).isSome = true := by rw [Cache.getUnique_congr _ hid', hb0]; rfl
              have hrem := (hrems a' t ht).2 ⟨r, hr.1, hty, hrd, hnm, of_decide_eq_true hz, hc⟩
              have hnoadd : ¬ ∃ u ∈ call.1, Browser.AddsAt possible b.types u (a', t) := by
                intro hadd
                obtain ⟨r', hr', hty', hrd', hnm', _, hnc'⟩ := (hadds a' t ht).1 hadd
                have hid2 : r'.ident lower = (ptrRec t a).ident lower :=
                  ident_ptrRec_of hty' (shape_of_name (hwd.ptr r' hr' hty') ht (by rw [hnm'])).2.1 hnm' hrd' hla
                rw [Cache.getUnique_congr _ hid2, hb0] at hnc'
                cases hnc'
              have hR := (hpend (a', t)).2.2 ⟨hnoadd, hrem⟩
              exact ⟨⟨.removed, t, a'⟩, (mem_complete_iff _ hgood.2 _).2 hR, rfl, rfl, hla⟩
            · simp only [hg, Bool.false_eq_true, if_false] at hp
              obtain ⟨e', he', _⟩ := hp
              rw [he'] at haft; cases haft
    · -- at most one Added/Removed per (type, instance)
      intro cb hcb cb' hcb' hne hne' hty hnm
      simp only [] at hcb hcb'
      rw [mem_complete_iff _ hgood.2] at hcb hcb'
      -- both keys come from pointer records of the datagram
      have hsrc : ∀ c : Callback, c.change ≠ .updated → pendingGet (Browser.updateRecords lower possible call.2 now b call.1).pending (c.name, c.type) = some c.change →
          ∃ r ∈ recs, r.rdata = .ptr c.name := by
        intro c hcne hget
        cases hch : c.change with
        | updated => exact absurd hch hcne
        | added =>
          rw [hch] at hget
          have hA := (hpend (c.name, c.type)).1.1 hget
          have htt : c.type ∈ b.types := by
            obtain ⟨u, _, _, _, _, hm⟩ := hA
            exact (List.mem_filter.1 hm).1
          obtain ⟨r, hr, _, hrd, _⟩ := (hadds c.name c.type htt).1 hA
          exact ⟨r, hr, hrd⟩
        | removed =>
          rw [hch] at hget
          have hR := ((hpend (c.name, c.type)).2.1 hget).2
          have htt : c.type ∈ b.types := by
            obtain ⟨u, _, _, _, _, _, hm⟩ := hR
            exact (List.mem_filter.1 hm).1
          obtain ⟨r, hr, _, hrd, _⟩ := (hrems c.name c.type htt).1 hR
          exact ⟨r, hr, hrd⟩
      obtain ⟨r, hr, hrd⟩ := hsrc cb hne hcb
      obtain ⟨r', hr', hrd'⟩ := hsrc cb' hne' hcb'
      have hname : cb.name = cb'.name := hwd.oneSpelling r hr r' hr' _ _ hrd hrd' hnm
      have hchg : cb.change = cb'.change := by
        rw [hname, hty, hcb'] at hcb
        exact (Option.some.inj hcb).symm
      cases cb; cases cb'; simp_all

/-! ### histories -/

/-- cache + one browser + the callback batches delivered so far, oldest first -/
structure BrowserRun where
  cache : Cache := {}
  browser : Browser
  batches : List (List Callback) := []

/-- one event; an exception would leave everything as it was (it never happens: `C06_post_state`, `C05_purge_exact`) -/
def BrowserRun.step (st : BrowserRun) (ev : Event) : BrowserRun :=
  match (match ev with
    | .datagram now recs => Browser.onDatagram lower possible st.cache st.browser now recs
    | .purge now => Browser.onPurge lower possible st.cache st.browser now) with
  | .ok o => { cache := o.cache, browser := o.browser, batches := st.batches ++ [o.callbacks] }
  | .error _ => st

/-- the cache lives through `pre`; then the browser is created (`Browser.createWith`: `async_add_listener` with the PTR
questions — since the D23 repair the expired records are purged first, at the instant `tPurge`; then the cached records are
replayed to the browser at the instant `tReplay`, its callbacks are the first batch); then `evs` -/
def browserRunAtWith (purgesFirst : Bool) (pre : List Event) (tPurge tReplay : Ms) (types : List String) (evs : List Event) : BrowserRun :=
  match Browser.createWith lower possible purgesFirst (cacheAfter lower pre) tPurge tReplay types with
  | .ok o => evs.foldl (BrowserRun.step lower possible) { cache := o.cache, browser := o.browser, batches := [o.callbacks] }
  | .error _ => evs.foldl (BrowserRun.step lower possible) { cache := cacheAfter lower pre, browser := { types := types }, batches := [[]] }

/-- the code as it is: the creation reads the clock once, `t0`; the purge comes first (leaf `add_listener_purges_first`) and the replay
uses the purge's reading (leaf `add_listener_replay_now`) -/
def browserRunFrom (pre : List Event) (t0 : Ms) (types : List String) (evs : List Event) : BrowserRun :=
  browserRunAtWith lower possible Gen.Cache.add_listener_purges_first pre t0 (Gen.Cache.add_listener_replay_now t0) types evs

/-- the Added/Removed callbacks delivered for `(t, a)` (instance compared case-insensitively), in order -/
def changesFor (batches : List (List Callback)) (t a : String) : List Change :=
  (batches.flatten.filter (fun cb => decide (cb.change ≠ .updated) && decide (cb.type = t) && decide (lower cb.name = lower a))).map (fun cb => cb.change)

/-- alternate, starting with Added -/
def alternates : List Change → Bool
  | [] => true
  | [.added] => true
  | .added :: .removed :: rest => alternates rest
  | _ => false

/-- reported Added and not since Removed -/
def reportedLive (batches : List (List Callback)) (t a : String) : Bool :=
  (changesFor lower batches t a).getLast? = some .added

/-- the quantifier's restriction on one event -/
def WFEvent (types : List String) : Event → Prop
  | .datagram _ recs => WFDatagram lower possible types recs
  | .purge _ => True

/-- the quantifier's restriction on a whole history: well-formed browsed types and every datagram (before and after the
browser's creation) well-formed.  The browser may be created at any time: the quantifier's "no expired-but-unpurged pointer
record at creation" is established by the creation itself since the D23 repair (`fresh_after_creation_purge`). -/
structure WFHistory (types : List String) (pre : List Event) (evs : List Event) : Prop where
  wfTypes : WFTypes lower possible types
  events : ∀ ev ∈ pre ++ evs, WFEvent lower possible types ev

/-- **C04, full statement (alternation)** -/
def C04_alternates_statement : Prop :=
  ∀ types pre t0 evs, WFHistory lower possible types pre evs → ∀ t ∈ types, ∀ a,
    alternates (changesFor lower (browserRunFrom lower possible pre t0 types evs).batches t a) = true

/-- **C04, full statement (live set = cached pointer records)** -/
def C04_live_eq_cache_statement : Prop :=
  ∀ types pre t0 evs, WFHistory lower possible types pre evs → ∀ t ∈ types, ∀ a,
    reportedLive lower (browserRunFrom lower possible pre t0 types evs).batches t a
      = ((browserRunFrom lower possible pre t0 types evs).cache.getUnique lower (ptrRec t a)).isSome

/-! #### alternation bookkeeping -/

theorem alternates_append_added (L : List Change) (h : alternates L = true) (hl : L.getLast? ≠ some .added) :
    alternates (L ++ [.added]) = true := by
  fun_induction alternates L with
  | case1 => rfl
  | case2 => exact absurd rfl hl
  | case3 rest ih =>
    cases rest with
    | nil => rfl
    | cons x xs =>
      have : (Change.added :: Change.removed :: x :: xs).getLast? = (x :: xs).getLast? := by simp [List.getLast?_cons_cons]
      rw [this] at hl
      exact ih h hl
  | case4 L h1 h2 h3 => cases h

theorem alternates_append_removed (L : List Change) (h : alternates L = true) (hl : L.getLast? = some .added) :
    alternates (L ++ [.removed]) = true := by
  fun_induction alternates L with
  | case1 => cases hl
  | case2 => rfl
  | case3 rest ih =>
    cases rest with
    | nil => simp at hl
    | cons x xs =>
      have : (Change.added :: Change.removed :: x :: xs).getLast? = (x :: xs).getLast? := by simp [List.getLast?_cons_cons]
      rw [this] at hl
      exact ih h hl
  | case4 L h1 h2 h3 => cases h

theorem changesFor_append (batches : List (List Callback)) (cbs : List Callback) (t a : String) :
    changesFor lower (batches ++ [cbs]) t a
      = changesFor lower batches t a
        ++ (cbs.filter (fun cb => decide (cb.change ≠ .updated) && decide (cb.type = t) && decide (lower cb.name = lower a))).map (fun cb => cb.change) := by
  unfold changesFor
  simp [List.flatten_append, List.filter_append, List.map_append]

/-- what it means for one batch of callbacks to be exactly the change of the cached pointer records
(`before`/`after`: is the pointer record `t → a` cached?) -/
structure BatchExact (types : List String) (cbs : List Callback) (before after : String → String → Bool) : Prop where
  added : ∀ t ∈ types, ∀ a : String, (∃ cb ∈ cbs, cb.change = .added ∧ cb.type = t ∧ lower cb.name = lower a)
      ↔ (before t a = false ∧ after t a = true)
  removed : ∀ t ∈ types, ∀ a : String, (∃ cb ∈ cbs, cb.change = .removed ∧ cb.type = t ∧ lower cb.name = lower a)
      ↔ (before t a = true ∧ after t a = false)
  unique : ∀ cb ∈ cbs, ∀ cb' ∈ cbs, cb.change ≠ .updated → cb'.change ≠ .updated →
      cb.type = cb'.type → lower cb.name = lower cb'.name → cb = cb'
  nodup : cbs.Nodup

theorem length_le_one_of_all_eq {α} (l : List α) (hn : l.Nodup) (h : ∀ x ∈ l, ∀ y ∈ l, x = y) : l = [] ∨ ∃ x, l = [x] := by
  match l, hn, h with
  | [], _, _ => exact Or.inl rfl
  | [x], _, _ => exact Or.inr ⟨x, rfl⟩
  | x :: y :: t, hn, h =>
    have := h x (by simp) y (by simp)
    subst this
    simp at hn

/-- one exact batch keeps "alternates" and "reported live = cached" -/
theorem live_step {types : List String} {batches : List (List Callback)} {cbs : List Callback}
    {before after : String → String → Bool} (hex : BatchExact lower types cbs before after)
    {t : String} (ht : t ∈ types) (a : String)
    (halt : alternates (changesFor lower batches t a) = true)
    (hlive : reportedLive lower batches t a = before t a) :
    alternates (changesFor lower (batches ++ [cbs]) t a) = true
    ∧ reportedLive lower (batches ++ [cbs]) t a = after t a := by
  unfold reportedLive at *
  rw [changesFor_append]
  generalize hL : changesFor lower batches t a = L at *
  -- the batch contributes at most one change
  have hone := length_le_one_of_all_eq
    (cbs.filter (fun cb => decide (cb.change ≠ .updated) && decide (cb.type = t) && decide (lower cb.name = lower a)))
    (List.Nodup.sublist List.filter_sublist hex.nodup)
    (by
      intro x hx y hy
      rw [List.mem_filter] at hx hy
      simp only [Bool.and_eq_true, decide_eq_true_eq] at hx hy
      exact hex.unique x hx.1 y hy.1 hx.2.1.1 hy.2.1.1 (hx.2.1.2.trans hy.2.1.2.symm) (hx.2.2.trans hy.2.2.symm))
  rcases hone with hnil | ⟨x, hx⟩
  · -- nothing for (t, a): the cache did not change for it
    rw [hnil]
    simp only [List.map_nil, List.append_nil]
    refine ⟨halt, ?_⟩
    rw [hlive]
    have hna : ¬ (before t a = false ∧ after t a = true) := by
      intro hc
      obtain ⟨cb, hcb, h1, h2, h3⟩ := (hex.added t ht a).2 hc
      have : cb ∈ cbs.filter (fun cb => decide (cb.change ≠ .updated) && decide (cb.type = t) && decide (lower cb.name = lower a)) := by
        rw [List.mem_filter]; simp [hcb, h1, h2, h3]
      rw [hnil] at this; cases this
    have hnr : ¬ (before t a = true ∧ after t a = false) := by
      intro hc
      obtain ⟨cb, hcb, h1, h2, h3⟩ := (hex.removed t ht a).2 hc
      have : cb ∈ cbs.filter (fun cb => decide (cb.change ≠ .updated) && decide (cb.type = t) && decide (lower cb.name = lower a)) := by
        rw [List.mem_filter]; simp [hcb, h1, h2, h3]
      rw [hnil] at this; cases this
    cases hb : before t a <;> cases ha : after t a <;> simp_all
  · have hxm : x ∈ cbs.filter (fun cb => decide (cb.change ≠ .updated) && decide (cb.type = t) && decide (lower cb.name = lower a)) := by
      rw [hx]; simp
    rw [List.mem_filter] at hxm
    simp only [Bool.and_eq_true, decide_eq_true_eq] at hxm
    obtain ⟨hxc, ⟨hxu, hxt⟩, hxn⟩ := hxm
    rw [hx]
    simp only [List.map_cons, List.map_nil]
    cases hch : x.change with
    | updated => exact absurd hch hxu
    | added =>
      obtain ⟨hb, ha⟩ := (hex.added t ht a).1 ⟨x, hxc, hch, hxt, hxn⟩
      have hl : L.getLast? ≠ some .added := by
        intro hc
        rw [hb] at hlive
        simp [hc] at hlive
      exact ⟨alternates_append_added L halt hl, by simp [ha]⟩
    | removed =>
      obtain ⟨hb, ha⟩ := (hex.removed t ht a).1 ⟨x, hxc, hch, hxt, hxn⟩
      have hl : L.getLast? = some .added := by
        rw [hb] at hlive
        simpa using hlive
      exact ⟨alternates_append_removed L halt hl, by simp [ha]⟩

/-! #### the cache along a history -/

/-- provenance: every cached type-PTR record is a class-IN pointer record whose owner name is spelled exactly
as a browsed type (because every datagram record was) -/
def CachedWF (types : List String) (c : Cache) : Prop :=
  ∀ q e, c.getUnique lower q = some e → e.type = 12 → PtrShape types e ∨ ForeignPtr lower possible types e

variable {lower}

theorem Flat.getUnique_of_mem {s : List Rec} (hw : Flat.WF lower s) {e q : Rec} (he : e ∈ s) (hid : e.ident lower = q.ident lower) :
    Flat.getUnique lower s q = some e := by
  cases hg : Flat.getUnique lower s q with
  | none =>
    have := (Flat.getUnique_eq_none s q).1 hg
    have hp : Flat.pres lower s q = true := List.any_eq_true.2 ⟨e, he, (beq_iff_ident lower e q).2 hid⟩
    rw [hp] at this; cases this
  | some e' =>
    have := hw.eq_of_ident (Flat.getUnique_mem hg) he ((Flat.getUnique_ident hg).trans hid.symm)
    rw [this]

theorem Flat.getUnique_filter_expired {s : List Rec} (hw : Flat.WF lower s) (now : Ms) (q : Rec) :
    Flat.getUnique lower (s.filter (fun e => !(e.isExpired now))) q
      = match Flat.getUnique lower s q with
        | some e => if e.isExpired now then none else some e
        | none => none := by
  cases hg : Flat.getUnique lower s q with
  | none =>
    simp only []
    rw [Flat.getUnique_eq_none] at hg ⊢
    rw [Bool.eq_false_iff] at hg ⊢
    intro hc
    obtain ⟨x, hx, hb⟩ := List.any_eq_true.1 hc
    exact hg (List.any_eq_true.2 ⟨x, (List.mem_filter.1 hx).1, hb⟩)
  | some e =>
    simp only []
    by_cases hx : e.isExpired now = true
    · rw [if_pos hx, Flat.getUnique_eq_none, Bool.eq_false_iff]
      intro hc
      obtain ⟨x, hxm, hb⟩ := List.any_eq_true.1 hc
      have hxs := List.mem_filter.1 hxm
      have : x = e := hw.eq_of_ident hxs.1 (Flat.getUnique_mem hg) (((beq_iff_ident lower x q).1 hb).trans (Flat.getUnique_ident hg).symm)
      rw [this, hx] at hxs
      simp at hxs
    · rw [if_neg hx]
      exact Flat.getUnique_filter_keep s _ hg (by simpa using hx)

variable (lower)

theorem cachedWF_datagram {types : List String} (hist : List Event) (h : CachedWF lower possible types (cacheAfter lower hist))
    (now : Ms) (recs : List Rec) (hwd : WFDatagram lower possible types recs) :
    CachedWF lower possible types (cacheAfter lower (hist ++ [.datagram now recs])) := by
  obtain ⟨out, hout, hpost⟩ := C06_post_state lower hist now recs
  rw [cacheAfter_snoc]
  simp only [stepEvent, hout]
  intro q e' hq hty
  have hp := hpost q
  unfold PostState at hp
  rw [hq] at hp
  cases hb : (cacheAfter lower hist).getUnique lower q with
  | none =>
    rw [hb] at hp
    simp only [] at hp
    cases hl : lastLive lower recs q with
    | none => rw [hl] at hp; cases hp
    | some r =>
      rw [hl] at hp
      simp only [Option.map_some, Option.some.injEq] at hp
      subst hp
      have hr : r ∈ recs := by
        have := List.mem_of_getLast? hl
        exact (List.mem_filter.1 (List.mem_filter.1 this).1).1
      exact hwd.ptr r hr hty
  | some e =>
    rw [hb] at hp
    simp only [] at hp
    have hshape := h q e hb
    by_cases hg : hasGoodbye lower recs q = true
    · rw [if_pos hg] at hp; cases hp
    · rw [if_neg hg] at hp
      obtain ⟨e'', he'', hr⟩ := hp
      simp only [Option.some.injEq] at he''
      subst he''
      unfold Refreshed at hr
      cases hl : lastLive lower recs e with
      | some r =>
        rw [hl] at hr; simp only [] at hr
        subst hr
        exact hshape hty
      | none =>
        rw [hl] at hr; simp only [] at hr
        by_cases hf : Flushed lower now recs e
        · have := hr.1 hf; subst this; exact hshape hty
        · have := hr.2 hf; subst this; exact hshape hty

/-- the purge step, as the cache sees it -/
theorem purge_facts (hist : List Event) (now : Ms) :
    ∃ c' l, expire (Cache.ops lower) (cacheAfter lower hist) now = .ok (c', l)
      ∧ cacheAfter lower (hist ++ [.purge now]) = c'
      ∧ (∀ e, e ∈ l ↔ (e ∈ specAfter lower hist ∧ e.isExpired now = true))
      ∧ (∀ q, c'.getUnique lower q = match (cacheAfter lower hist).getUnique lower q with
                | some e => if e.isExpired now then none else some e
                | none => none) := by
  have h0 := (Refines.empty lower).runEvents (by simp [Flat.WF]) hist
  obtain ⟨c', l, hc, hp, hr⟩ := h0.1.expire h0.2 now
  refine ⟨c', l, hc, ?_, ?_, ?_⟩
  · rw [cacheAfter_snoc]
    simp only [stepEvent]
    unfold cacheAfter
    rw [hc]
  · intro e
    rw [hp.mem_iff, List.mem_filter]; rfl
  · intro q
    rw [hr.getUnique q, Flat.getUnique_filter_expired h0.2 now q]
    unfold cacheAfter
    rw [h0.1.getUnique q]

theorem cachedWF_purge {types : List String} (hist : List Event) (h : CachedWF lower possible types (cacheAfter lower hist)) (now : Ms) :
    CachedWF lower possible types (cacheAfter lower (hist ++ [.purge now])) := by
  obtain ⟨c', l, _, hc, _, hget⟩ := purge_facts lower hist now
  rw [hc]
  intro q e hq hty
  rw [hget q] at hq
  cases hb : (cacheAfter lower hist).getUnique lower q with
  | none => rw [hb] at hq; cases hq
  | some e0 =>
    rw [hb] at hq
    simp only [] at hq
    split at hq
    · cases hq
    · cases hq; exact h q e hb hty

theorem cachedWF_after {types : List String} (hist : List Event) (hwf : ∀ ev ∈ hist, WFEvent lower possible types ev) :
    CachedWF lower possible types (cacheAfter lower hist) := by
  have gen : ∀ (evs h0 : List Event), CachedWF lower possible types (cacheAfter lower h0) → (∀ ev ∈ evs, WFEvent lower possible types ev) →
      CachedWF lower possible types (cacheAfter lower (h0 ++ evs)) := by
    intro evs
    induction evs with
    | nil => intro h0 h _; simpa using h
    | cons ev rest ih =>
      intro h0 h hw
      have hstep : CachedWF lower possible types (cacheAfter lower (h0 ++ [ev])) := by
        have hev := hw ev (by simp)
        cases ev with
        | datagram now recs => exact cachedWF_datagram lower possible h0 h now recs hev
        | purge now => exact cachedWF_purge lower possible h0 h now
      have := ih (h0 ++ [ev]) hstep (fun e he => hw e (by simp [he]))
      simpa using this
  have h0 : CachedWF lower possible types (cacheAfter lower []) := by
    intro q e hq
    simp [cacheAfter, runEvents, Cache.getUnique, Index.find?] at hq
  simpa using gen hist [] h0 hwf

/-! #### each kind of step is exact -/

/-- the datagram step of a run -/
theorem datagram_step_exact {types : List String} (hwt : WFTypes lower possible types) (hist : List Event)
    (b : Browser) (hb : b.pending = []) (hbt : b.types = types) (now : Ms) (recs : List Rec) (hwd : WFDatagram lower possible types recs) :
    ∃ o, Browser.onDatagram lower possible (cacheAfter lower hist) b now recs = .ok o
      ∧ o.cache = cacheAfter lower (hist ++ [.datagram now recs]) ∧ o.browser.pending = [] ∧ o.browser.types = types
      ∧ BatchExact lower types o.callbacks
          (fun t a => ((cacheAfter lower hist).getUnique lower (ptrRec t a)).isSome)
          (fun t a => (o.cache.getUnique lower (ptrRec t a)).isSome) := by
  subst hbt
  obtain ⟨o, ho, hex, huniq, hnd⟩ := C04_datagram_exact lower possible hist b hb hwt now recs hwd
  refine ⟨o, ho, ?_, ?_, ?_, ?_⟩
  · -- the cache is the cache after the longer history
    rw [cacheAfter_snoc]
    unfold Browser.onDatagram at ho
    cases hi : ingest lower (Cache.ops lower) (cacheAfter lower hist) now recs with
    | error e => rw [hi] at ho; cases ho
    | ok out =>
      rw [hi] at ho
      simp only [bind, Except.bind] at ho
      simp only [stepEvent, hi]
      cases hc : out.call1 with
      | none => rw [hc] at ho; cases ho; rfl
      | some call => rw [hc] at ho; cases ho; rfl
  · unfold Browser.onDatagram at ho
    cases hi : ingest lower (Cache.ops lower) (cacheAfter lower hist) now recs with
    | error e => rw [hi] at ho; cases ho
    | ok out =>
      rw [hi] at ho
      simp only [bind, Except.bind] at ho
      cases hc : out.call1 with
      | none => rw [hc] at ho; cases ho; exact hb
      | some call => rw [hc] at ho; cases ho; rfl
  · unfold Browser.onDatagram at ho
    cases hi : ingest lower (Cache.ops lower) (cacheAfter lower hist) now recs with
    | error e => rw [hi] at ho; cases ho
    | ok out =>
      rw [hi] at ho
      simp only [bind, Except.bind] at ho
      cases hc : out.call1 with
      | none => rw [hc] at ho; cases ho; rfl
      | some call => rw [hc] at ho; cases ho; exact Browser.updateRecords_types lower possible rfl _ _ _
  · refine ⟨fun t ht a => ?_, fun t ht a => ?_, huniq, hnd⟩
    · rw [(hex t ht a).1]
      cases (cacheAfter lower hist).getUnique lower (ptrRec t a) <;> simp
    · rw [(hex t ht a).2]
      cases o.cache.getUnique lower (ptrRec t a) <;> simp

/-- the purge step of a run: only Removed, exactly for the purged pointer records -/
theorem purge_step_exact {types : List String} (hwt : WFTypes lower possible types) (hist : List Event)
    (hcw : CachedWF lower possible types (cacheAfter lower hist))
    (b : Browser) (hb : b.pending = []) (hbt : b.types = types) (now : Ms) :
    ∃ o, Browser.onPurge lower possible (cacheAfter lower hist) b now = .ok o
      ∧ o.cache = cacheAfter lower (hist ++ [.purge now]) ∧ o.browser.pending = [] ∧ o.browser.types = types
      ∧ BatchExact lower types o.callbacks
          (fun t a => ((cacheAfter lower hist).getUnique lower (ptrRec t a)).isSome)
          (fun t a => (o.cache.getUnique lower (ptrRec t a)).isSome) := by
  subst hbt
  obtain ⟨c', l, hexp, hc', hmem, hget⟩ := purge_facts lower hist now
  have h0 := (Refines.empty lower).runEvents (by simp [Flat.WF]) hist
  have href : Refines lower (cacheAfter lower hist) (specAfter lower hist) := h0.1
  have hw : Flat.WF lower (specAfter lower hist) := h0.2
  -- cache lookups versus the reference store
  have hofmem : ∀ e q, e ∈ specAfter lower hist → e.ident lower = q.ident lower → (cacheAfter lower hist).getUnique lower q = some e := by
    intro e q he hid; rw [href.getUnique q]; exact Flat.getUnique_of_mem hw he hid
  have hmemof : ∀ e q, (cacheAfter lower hist).getUnique lower q = some e → e ∈ specAfter lower hist ∧ e.ident lower = q.ident lower := by
    intro e q hq; rw [href.getUnique q] at hq; exact ⟨Flat.getUnique_mem hq, Flat.getUnique_ident hq⟩
  unfold Browser.onPurge
  rw [purge_expire_now_eq, purge_updates_now_eq, hexp]
  simp only [bind, Except.bind, pure, Except.pure]
  generalize hus : l.map (fun r => (r, some r)) = us
  have hgood : Browser.Good b.types (Browser.updateRecords lower possible c' now b us) :=
    Browser.good_updateRecords lower possible ⟨rfl, by simp [hb, pendingKeys]⟩ _ _ _
  have hpend := fun k => C04_pending_outcome lower possible b hb c' now us k
  have hnoadds : ∀ k, ¬ ∃ u ∈ us, Browser.AddsAt possible b.types u k := by
    rintro k ⟨u, hu, _, hn, _⟩
    rw [← hus, List.mem_map] at hu
    obtain ⟨r, _, rfl⟩ := hu
    cases hn
  have hrems : ∀ n t, t ∈ b.types → ((∃ u ∈ us, Browser.RemsAt possible now b.types u (n, t)) ↔
      ∃ e ∈ l, e.type = 12 ∧ e.rdata = .ptr n ∧ e.name = t) := by
    intro n t htt
    constructor
    · rintro ⟨u, hu, hty, _, _, hrd, hm⟩
      rw [← hus, List.mem_map] at hu
      obtain ⟨e, he, rfl⟩ := hu
      simp only [] at hty hrd hm
      have hty' : e.type = 12 := by rw [← typePtr_eq]; exact hty
      change t ∈ b.types.filter (fun t' => (possible e.name).contains t') at hm
      have hsh := shape_of_match (hcw e e (hofmem e e ((hmem e).1 he).1 rfl) hty') hm
      have := hwt.exact e.name hsh.2.2
      rw [this] at hm
      exact ⟨e, he, hty', hrd, (List.mem_singleton.1 hm).symm⟩
    · rintro ⟨e, he, hty, hrd, hnm⟩
      have hsh := shape_of_name (hcw e e (hofmem e e ((hmem e).1 he).1 rfl) hty) htt (by rw [hnm])
      refine ⟨(e, some e), by rw [← hus]; exact List.mem_map.2 ⟨e, he, rfl⟩, by rw [typePtr_eq]; exact hty, by simp,
        ((hmem e).1 he).2, hrd, ?_⟩
      change t ∈ b.types.filter (fun t' => (possible e.name).contains t')
      rw [hwt.exact e.name hsh.2.2]; simp [hnm]
  refine ⟨_, rfl, hc'.symm, rfl, Browser.updateRecords_types lower possible rfl _ _ _, ?_⟩
  simp only []
  refine ⟨fun t ht a => ?_, fun t ht a => ?_, ?_, complete_nodup _ hgood.2⟩
  · -- no Added
    constructor
    · rintro ⟨cb, hcb, hch, _, _⟩
      rw [mem_complete_iff _ hgood.2, hch] at hcb
      exact absurd ((hpend (cb.name, cb.type)).1.1 hcb) (hnoadds _)
    · rintro ⟨hbf, haf⟩
      rw [hget] at haf
      cases hq : (cacheAfter lower hist).getUnique lower (ptrRec t a) with
      | none => rw [hq] at haf; cases haf
      | some e => rw [hq] at hbf; cases hbf
  · constructor
    · rintro ⟨cb, hcb, hch, hct, hcn⟩
      rw [mem_complete_iff _ hgood.2, hch] at hcb
      obtain ⟨e, he, hty, hrd, hnm⟩ := (hrems cb.name cb.type (hct ▸ ht)).1 ((hpend (cb.name, cb.type)).2.1 hcb).2
      have hes := (hmem e).1 he
      have hsh := shape_of_name (hcw e e (hofmem e e hes.1 rfl) hty) ht (by rw [hnm, hct])
      have hid : e.ident lower = (ptrRec t a).ident lower := ident_ptrRec_of hty hsh.2.1 (hnm.trans hct) hrd hcn
      have hq := hofmem e (ptrRec t a) hes.1 hid
      rw [hget, hq]
      simp [hes.2]
    · rintro ⟨hbf, haf⟩
      cases hq : (cacheAfter lower hist).getUnique lower (ptrRec t a) with
      | none => rw [hq] at hbf; cases hbf
      | some e =>
        rw [hget, hq] at haf
        simp only [] at haf
        have hx : e.isExpired now = true := by
          by_cases hx : e.isExpired now = true
          · exact hx
          · rw [if_neg hx] at haf; cases haf
        obtain ⟨hes, hid⟩ := hmemof e _ hq
        obtain ⟨h1, h2, h3, h4⟩ := of_ident_ptrRec hid
        have hsh := shape_of_name (hcw _ e hq h1) ht h3
        obtain ⟨a0, ha0⟩ := hsh.1
        have hnm : e.name = t := hwt.caseDistinct _ hsh.2.2 _ ht h3
        have hla : ∃ a', e.rdata = .ptr a' ∧ lower a' = lower a := by
          rcases h4 with h4 | h4
          · exact h4
          · exact absurd ⟨a0, ha0⟩ h4
        obtain ⟨a', hrd, hl⟩ := hla
        have hrem := (hrems a' t ht).2 ⟨e, (hmem e).2 ⟨hes, hx⟩, h1, hrd, hnm⟩
        have hR := (hpend (a', t)).2.2 ⟨hnoadds _, hrem⟩
        exact ⟨⟨.removed, t, a'⟩, (mem_complete_iff _ hgood.2 _).2 hR, rfl, rfl, hl⟩
  · intro cb hcb cb' hcb' hne hne' hty hnm
    rw [mem_complete_iff _ hgood.2] at hcb hcb'
    have hsrc : ∀ c : Callback, c.change ≠ .updated →
        pendingGet (Browser.updateRecords lower possible c' now b us).pending (c.name, c.type) = some c.change →
        c.change = .removed ∧ c.type ∈ b.types ∧ ∃ e ∈ l, e.type = 12 ∧ e.rdata = .ptr c.name ∧ e.name = c.type := by
      intro c hcne hg
      cases hch : c.change with
      | updated => exact absurd hch hcne
      | added => rw [hch] at hg; exact absurd ((hpend (c.name, c.type)).1.1 hg) (hnoadds _)
      | removed =>
        rw [hch] at hg
        have hR := ((hpend (c.name, c.type)).2.1 hg).2
        have htt : c.type ∈ b.types := by
          obtain ⟨u, _, _, _, _, _, hm⟩ := hR
          exact (List.mem_filter.1 hm).1
        exact ⟨rfl, htt, (hrems c.name c.type htt).1 hR⟩
    obtain ⟨hc1, htt, e, he, hety, herd, henm⟩ := hsrc cb hne hcb
    obtain ⟨hc2, htt', e', he', hety', herd', henm'⟩ := hsrc cb' hne' hcb'
    have hes := (hmem e).1 he
    have hes' := (hmem e').1 he'
    have hsh := shape_of_name (hcw e e (hofmem e e hes.1 rfl) hety) htt (by rw [henm])
    have hsh' := shape_of_name (hcw e' e' (hofmem e' e' hes'.1 rfl) hety') htt' (by rw [henm'])
    have hid : e.ident lower = (ptrRec cb.type cb.name).ident lower := ident_ptrRec_of hety hsh.2.1 henm herd rfl
    have hid' : e'.ident lower = (ptrRec cb.type cb.name).ident lower :=
      ident_ptrRec_of hety' hsh'.2.1 (henm'.trans hty.symm) herd' hnm.symm
    have hee : e = e' := hw.eq_of_ident hes.1 hes'.1 (hid.trans hid'.symm)
    subst hee
    rw [herd] at herd'
    have hname : cb.name = cb'.name := by injection herd'
    cases cb; cases cb'; simp_all

/-- the initial replay at browser creation: only Added, exactly for the cached pointer records -/
theorem start_exact {types : List String} (hwt : WFTypes lower possible types) (pre : List Event)
    (hcw : CachedWF lower possible types (cacheAfter lower pre)) (t0 : Ms)
    (hfresh : ∀ q e, (cacheAfter lower pre).getUnique lower q = some e → e.type = 12 → e.isExpired t0 = false) :
    (Browser.start lower possible (cacheAfter lower pre) t0 types).1.pending = []
    ∧ (Browser.start lower possible (cacheAfter lower pre) t0 types).1.types = types
    ∧ BatchExact lower types (Browser.start lower possible (cacheAfter lower pre) t0 types).2
        (fun _ _ => false) (fun t a => ((cacheAfter lower pre).getUnique lower (ptrRec t a)).isSome) := by
  have h0 := (Refines.empty lower).runEvents (by simp [Flat.WF]) pre
  have href : Refines lower (cacheAfter lower pre) (specAfter lower pre) := h0.1
  have hw : Flat.WF lower (specAfter lower pre) := h0.2
  have hofmem : ∀ e q, e ∈ specAfter lower pre → e.ident lower = q.ident lower → (cacheAfter lower pre).getUnique lower q = some e := by
    intro e q he hid; rw [href.getUnique q]; exact Flat.getUnique_of_mem hw he hid
  have hmemof : ∀ e q, (cacheAfter lower pre).getUnique lower q = some e → e ∈ specAfter lower pre ∧ e.ident lower = q.ident lower := by
    intro e q hq; rw [href.getUnique q] at hq; exact ⟨Flat.getUnique_mem hq, Flat.getUnique_ident hq⟩
  let b : Browser := { types := types }
  have hb : b.pending = [] := rfl
  generalize hus : Browser.replayList lower (cacheAfter lower pre) t0 types = us
  have hstart : Browser.start lower possible (cacheAfter lower pre) t0 types
      = Browser.complete (Browser.updateRecords lower possible (cacheAfter lower pre) t0 b us) := by
    unfold Browser.start
    simp only [hus]
    cases us with
    | nil => rfl
    | cons u rest => rfl
  rw [hstart]
  have hgood : Browser.Good types (Browser.updateRecords lower possible (cacheAfter lower pre) t0 b us) :=
    Browser.good_updateRecords lower possible ⟨rfl, by simp [pendingKeys, b]⟩ _ _ _
  have hpend := fun k => C04_pending_outcome lower possible b hb (cacheAfter lower pre) t0 us k
  have hmemus : ∀ u, u ∈ us ↔ ∃ t' ∈ types, ∃ r ∈ specAfter lower pre, lower r.name = lower t' ∧ r.isExpired t0 = false
      ∧ r.class_ = 1 ∧ r.type = 12 ∧ r.name = t' ∧ u = (r, none) := by
    intro u
    rw [← hus]
    unfold Browser.replayList
    rw [List.mem_flatMap]
    constructor
    · rintro ⟨t', ht', hu⟩
      rw [List.mem_map] at hu
      obtain ⟨r, hr, rfl⟩ := hu
      rw [List.mem_filter, href.entriesWithName, Flat.entriesWithName, List.mem_filter] at hr
      simp only [Bool.and_eq_true, Bool.not_eq_true', decide_eq_true_eq] at hr
      have hab := (answeredBy_iff t' r).1 hr.2.2
      exact ⟨t', ht', r, hr.1.1, hr.1.2, hr.2.1, hab.1, hab.2.1, hab.2.2, rfl⟩
    · rintro ⟨t', ht', r, hr, hln, hx, hc, hty, hnm, rfl⟩
      refine ⟨t', ht', List.mem_map.2 ⟨r, ?_, rfl⟩⟩
      rw [List.mem_filter, href.entriesWithName, Flat.entriesWithName, List.mem_filter]
      simp only [Bool.and_eq_true, Bool.not_eq_true', decide_eq_true_eq]
      exact ⟨⟨hr, hln⟩, hx, (answeredBy_iff t' r).2 ⟨hc, hty, hnm⟩⟩
  have hnorems : ∀ k, ¬ ∃ u ∈ us, Browser.RemsAt possible t0 b.types u k := by
    rintro k ⟨u, hu, _, hn, _⟩
    obtain ⟨_, _, r, _, _, _, _, _, _, rfl⟩ := (hmemus u).1 hu
    exact hn rfl
  have hadds : ∀ n t, (∃ u ∈ us, Browser.AddsAt possible b.types u (n, t)) ↔
      ∃ r ∈ specAfter lower pre, r.type = 12 ∧ r.class_ = 1 ∧ r.rdata = .ptr n ∧ r.name = t ∧ t ∈ types ∧ r.isExpired t0 = false := by
    intro n t
    constructor
    · rintro ⟨u, hu, _, _, hrd, hm⟩
      obtain ⟨t', ht', r, hr, _, hx, hc, hty, hnm, rfl⟩ := (hmemus u).1 hu
      simp only [] at hrd hm
      change t ∈ types.filter (fun t'' => (possible r.name).contains t'') at hm
      rw [hnm, hwt.exact t' ht'] at hm
      have := List.mem_singleton.1 hm
      subst this
      exact ⟨r, hr, hty, hc, hrd, hnm, ht', hx⟩
    · rintro ⟨r, hr, hty, hc, hrd, hnm, ht, hx⟩
      refine ⟨(r, none), (hmemus _).2 ⟨t, ht, r, hr, by rw [hnm], hx, hc, hty, hnm, rfl⟩, by rw [typePtr_eq]; exact hty, rfl, hrd, ?_⟩
      change t ∈ types.filter (fun t'' => (possible r.name).contains t'')
      rw [hnm, hwt.exact t ht]; simp
  refine ⟨rfl, Browser.updateRecords_types lower possible rfl _ _ _, ?_⟩
  refine ⟨fun t ht a => ?_, fun t ht a => ?_, ?_, complete_nodup _ hgood.2⟩
  · constructor
    · rintro ⟨cb, hcb, hch, hct, hcn⟩
      rw [mem_complete_iff _ hgood.2, hch] at hcb
      obtain ⟨r, hr, hty, hc, hrd, hnm, _, _⟩ := (hadds cb.name cb.type).1 ((hpend (cb.name, cb.type)).1.1 hcb)
      have hid : r.ident lower = (ptrRec t a).ident lower := ident_ptrRec_of hty hc (hnm.trans hct) hrd hcn
      exact ⟨rfl, by rw [hofmem r _ hr hid]; rfl⟩
    · rintro ⟨_, haf⟩
      cases hq : (cacheAfter lower pre).getUnique lower (ptrRec t a) with
      | none => rw [hq] at haf; cases haf
      | some e =>
        obtain ⟨hes, hid⟩ := hmemof e _ hq
        obtain ⟨h1, h2, h3, h4⟩ := of_ident_ptrRec hid
        have hsh := shape_of_name (hcw _ e hq h1) ht h3
        obtain ⟨a0, ha0⟩ := hsh.1
        have hnm : e.name = t := hwt.caseDistinct _ hsh.2.2 _ ht h3
        have hla : ∃ a', e.rdata = .ptr a' ∧ lower a' = lower a := by
          rcases h4 with h4 | h4
          · exact h4
          · exact absurd ⟨a0, ha0⟩ h4
        obtain ⟨a', hrd, hl⟩ := hla
        have hA := (hpend (a', t)).1.2 ((hadds a' t).2 ⟨e, hes, h1, h2, hrd, hnm, ht, hfresh _ e hq h1⟩)
        exact ⟨⟨.added, t, a'⟩, (mem_complete_iff _ hgood.2 _).2 hA, rfl, rfl, hl⟩
  · constructor
    · rintro ⟨cb, hcb, hch, _, _⟩
      rw [mem_complete_iff _ hgood.2, hch] at hcb
      exact absurd ((hpend (cb.name, cb.type)).2.1 hcb).2 (hnorems _)
    · rintro ⟨h, _⟩; cases h
  · intro cb hcb cb' hcb' hne hne' hty hnm
    rw [mem_complete_iff _ hgood.2] at hcb hcb'
    have hsrc : ∀ c : Callback, c.change ≠ .updated →
        pendingGet (Browser.updateRecords lower possible (cacheAfter lower pre) t0 b us).pending (c.name, c.type) = some c.change →
        c.change = .added ∧ ∃ r ∈ specAfter lower pre, r.type = 12 ∧ r.class_ = 1 ∧ r.rdata = .ptr c.name ∧ r.name = c.type := by
      intro c hcne hg
      cases hch : c.change with
      | updated => exact absurd hch hcne
      | removed => rw [hch] at hg; exact absurd ((hpend (c.name, c.type)).2.1 hg).2 (hnorems _)
      | added =>
        rw [hch] at hg
        obtain ⟨r, hr, h1, h2, h3, h4, _, _⟩ := (hadds c.name c.type).1 ((hpend (c.name, c.type)).1.1 hg)
        exact ⟨rfl, r, hr, h1, h2, h3, h4⟩
    obtain ⟨hc1, e, he, hety, hec, herd, henm⟩ := hsrc cb hne hcb
    obtain ⟨hc2, e', he', hety', hec', herd', henm'⟩ := hsrc cb' hne' hcb'
    have hid : e.ident lower = (ptrRec cb.type cb.name).ident lower := ident_ptrRec_of hety hec henm herd rfl
    have hid' : e'.ident lower = (ptrRec cb.type cb.name).ident lower :=
      ident_ptrRec_of hety' hec' (henm'.trans hty.symm) herd' hnm.symm
    have hee : e = e' := hw.eq_of_ident he he' (hid.trans hid'.symm)
    subst hee
    rw [herd] at herd'
    have hname : cb.name = cb'.name := by injection herd'
    cases cb; cases cb'; simp_all

/-! #### the induction over the history -/

/-- what holds at every quiescent point of a run whose cache has lived through `hist` -/
structure RunInv (types : List String) (hist : List Event) (st : BrowserRun) : Prop where
  hcache : st.cache = cacheAfter lower hist
  hpending : st.browser.pending = []
  htypes : st.browser.types = types
  halt : ∀ t ∈ types, ∀ a, alternates (changesFor lower st.batches t a) = true
  hlive : ∀ t ∈ types, ∀ a, reportedLive lower st.batches t a = (st.cache.getUnique lower (ptrRec t a)).isSome

theorem runInv_step {types : List String} (hwt : WFTypes lower possible types) (hist : List Event)
    (hwf : ∀ ev ∈ hist, WFEvent lower possible types ev) (st : BrowserRun) (h : RunInv lower types hist st)
    (ev : Event) (hev : WFEvent lower possible types ev) :
    RunInv lower types (hist ++ [ev]) (BrowserRun.step lower possible st ev) := by
  have hcw := cachedWF_after lower possible hist hwf
  cases ev with
  | datagram now recs =>
    obtain ⟨o, ho, hoc, hop, hot, hex⟩ := datagram_step_exact lower possible hwt hist st.browser h.hpending h.htypes now recs hev
    have hstep : BrowserRun.step lower possible st (.datagram now recs)
        = { cache := o.cache, browser := o.browser, batches := st.batches ++ [o.callbacks] } := by
      unfold BrowserRun.step
      simp only []
      rw [h.hcache, ho]
    rw [hstep]
    refine ⟨hoc, hop, hot, fun t ht a => ?_, fun t ht a => ?_⟩
    · exact (live_step lower hex ht a (h.halt t ht a) (by rw [h.hlive t ht a, h.hcache])).1
    · exact (live_step lower hex ht a (h.halt t ht a) (by rw [h.hlive t ht a, h.hcache])).2
  | purge now =>
    obtain ⟨o, ho, hoc, hop, hot, hex⟩ := purge_step_exact lower possible hwt hist hcw st.browser h.hpending h.htypes now
    have hstep : BrowserRun.step lower possible st (.purge now)
        = { cache := o.cache, browser := o.browser, batches := st.batches ++ [o.callbacks] } := by
      unfold BrowserRun.step
      simp only []
      rw [h.hcache, ho]
    rw [hstep]
    refine ⟨hoc, hop, hot, fun t ht a => ?_, fun t ht a => ?_⟩
    · exact (live_step lower hex ht a (h.halt t ht a) (by rw [h.hlive t ht a, h.hcache])).1
    · exact (live_step lower hex ht a (h.halt t ht a) (by rw [h.hlive t ht a, h.hcache])).2

theorem runInv_fold {types : List String} (hwt : WFTypes lower possible types) (evs : List Event) :
    ∀ (hist : List Event) (st : BrowserRun), (∀ ev ∈ hist, WFEvent lower possible types ev) → RunInv lower types hist st →
      (∀ ev ∈ evs, WFEvent lower possible types ev) →
      RunInv lower types (hist ++ evs) (evs.foldl (BrowserRun.step lower possible) st) := by
  induction evs with
  | nil => intro hist st _ h _; simpa using h
  | cons ev rest ih =>
    intro hist st hwf h hevs
    have hstep := runInv_step lower possible hwt hist hwf st h ev (hevs ev (by simp))
    have := ih (hist ++ [ev]) (BrowserRun.step lower possible st ev)
      (by intro e he; rcases List.mem_append.1 he with he | he
          · exact hwf e he
          · rw [List.mem_singleton.1 he]; exact hevs ev (by simp))
      hstep (fun e he => hevs e (by simp [he]))
    simpa using this

/-- after the purge of the creation no cached record is expired at that instant: the quantifier's creation-time restriction,
as a fact about the repaired code -/
theorem fresh_after_creation_purge (pre : List Event) (t0 : Ms) (q e : Rec)
    (h : (cacheAfter lower (pre ++ [.purge t0])).getUnique lower q = some e) : e.isExpired t0 = false := by
  obtain ⟨c', l, _, hc', _, hget⟩ := purge_facts lower pre t0
  rw [hc', hget q] at h
  cases hb : (cacheAfter lower pre).getUnique lower q with
  | none => rw [hb] at h; cases h
  | some e0 =>
    rw [hb] at h
    simp only [] at h
    by_cases hx : e0.isExpired t0 = true
    · rw [if_pos hx] at h; cases h
    · rw [if_neg hx] at h
      cases h
      simpa using hx

/-- the creation of a browser at `t0` after any history never raises; it leaves the cache purged at `t0` -/
theorem create_ok (pre : List Event) (t0 : Ms) (types : List String) :
    ∃ l, Browser.createWith lower possible true (cacheAfter lower pre) t0 t0 types
      = .ok { cache := cacheAfter lower (pre ++ [.purge t0]), purged := l,
              browser := (Browser.start lower possible (cacheAfter lower (pre ++ [.purge t0])) t0 types).1,
              callbacks := (Browser.start lower possible (cacheAfter lower (pre ++ [.purge t0])) t0 types).2 } := by
  obtain ⟨c', l, hexp, hc', _, _⟩ := purge_facts lower pre t0
  refine ⟨l, ?_⟩
  unfold Browser.createWith
  simp only [if_true, add_listener_purge_expire_now_eq, hexp, bind, Except.bind, pure, Except.pure, hc']

theorem runInv_run {types : List String} {pre : List Event} {evs : List Event} (t0 : Ms)
    (hwf : WFHistory lower possible types pre evs) :
    RunInv lower types (pre ++ [.purge t0] ++ evs) (browserRunFrom lower possible pre t0 types evs) := by
  have hpre : ∀ ev ∈ pre ++ [Event.purge t0], WFEvent lower possible types ev := by
    intro ev he
    rcases List.mem_append.1 he with he | he
    · exact hwf.events ev (by simp [he])
    · rw [List.mem_singleton.1 he]; trivial
  have hevs : ∀ ev ∈ evs, WFEvent lower possible types ev := fun ev he => hwf.events ev (by simp [he])
  have hcw := cachedWF_after lower possible (pre ++ [.purge t0]) hpre
  obtain ⟨hp, ht, hex⟩ := start_exact lower possible hwf.wfTypes (pre ++ [.purge t0]) hcw t0
    (fun q e hq _ => fresh_after_creation_purge lower pre t0 q e hq)
  obtain ⟨l, hcr⟩ := create_ok lower possible pre t0 types
  unfold browserRunFrom browserRunAtWith
  rw [add_listener_purges_first_eq, add_listener_replay_now_eq, hcr]
  simp only []
  apply runInv_fold lower possible hwf.wfTypes evs (pre ++ [Event.purge t0]) _ hpre _ hevs
  refine ⟨rfl, hp, ht, fun t htt a => ?_, fun t htt a => ?_⟩
  · have := (live_step lower (batches := []) hex htt a (by rfl) (by rfl)).1
    simpa using this
  · have := (live_step lower (batches := []) hex htt a (by rfl) (by rfl)).2
    simpa using this

/-- **C04 (alternation).**  For every history satisfying the quantifier's restrictions — any datagrams and purges
before the browser exists, the browser's creation with its initial replay of the cached records, then any
interleaving of datagrams (new, refreshed, goodbye, cache-flush, duplicate, re-cased pointer records, other
records) and purges at any instants — the Added/Removed callbacks delivered for one (type, instance), the
instance compared case-insensitively, alternate, starting with Added. -/
theorem C04_alternates : C04_alternates_statement lower possible := by
  intro types pre t0 evs hwf t ht a
  exact (runInv_run lower possible t0 hwf).halt t ht a

/-- **C04 (live set = cache).**  At every quiescent point of every such history (the end of any prefix), an
instance has been reported Added and not since Removed exactly when the cache holds the pointer record
`type → instance` (compared case-insensitively). -/
theorem C04_live_eq_cache : C04_live_eq_cache_statement lower possible := by
  intro types pre t0 evs hwf t ht a
  exact (runInv_run lower possible t0 hwf).hlive t ht a

/-- and the cache of the run is the cache of C05/C06 after the same events -/
theorem C04_run_cache {types : List String} {pre : List Event} {evs : List Event} (t0 : Ms)
    (hwf : WFHistory lower possible types pre evs) :
    (browserRunFrom lower possible pre t0 types evs).cache = cacheAfter lower (pre ++ [.purge t0] ++ evs) :=
  (runInv_run lower possible t0 hwf).hcache

/-! non-vacuity of the history hypotheses: a pointer record learned before the browser exists (replayed as Added at
creation), then a goodbye datagram and a purge -/
example :
    let p : Rec := ⟨"_x._tcp.local.", 12, 1, false, 4500, 0, .ptr "a._x._tcp.local."⟩
    WFHistory id (fun n => [n]) ["_x._tcp.local."] [.datagram 1000 [p]]
      [.datagram 3000 [{ p with ttl := 0 }], .purge 10000] := by
  intro p
  have hwd : ∀ r : Rec, r.name = "_x._tcp.local." → r.rdata = .ptr "a._x._tcp.local." → r.class_ = 1 →
      WFDatagram id (fun n => [n]) ["_x._tcp.local."] [r] := by
    intro r hn hr hc
    constructor
    · intro r' hr' _
      simp only [List.mem_singleton] at hr'; subst hr'
      exact Or.inl ⟨⟨_, hr⟩, hc, by simp [hn]⟩
    · intro r1 h1 r2 h2 a a' _ _ hl; exact hl
  refine ⟨⟨by decide, by decide⟩, ?_⟩
  intro ev hev
  simp only [List.cons_append, List.nil_append, List.mem_cons, List.not_mem_nil, or_false] at hev
  rcases hev with rfl | rfl | rfl
  · exact hwd p rfl rfl rfl
  · exact hwd _ rfl rfl rfl
  · trivial

/-- **D23, before the repair** (1a6b142): `async_add_listener` did not purge first (`purgesFirst = false`).  With an
expired-but-unpurged pointer record cached when the browser was created the initial replay skipped it: the next purge reported
Removed without a preceding Added, and a fresh announcement reached the browser as a refresh of the stale entry — never Added
although the cache held the record.  With the repair (`browserRunFrom`) the same histories behave. -/
example :
    let p : Rec := ⟨"_x._tcp.local.", 12, 1, false, 1125, 0, .ptr "a._x._tcp.local."⟩
    (alternates (changesFor id (browserRunAtWith id (fun n => [n]) false [.datagram 1000 [p]] 2000000 2000000 ["_x._tcp.local."]
        [.purge 2000001]).batches "_x._tcp.local." "a._x._tcp.local.") = false)
    ∧ (alternates (changesFor id (browserRunFrom id (fun n => [n]) [.datagram 1000 [p]] 2000000 ["_x._tcp.local."]
        [.purge 2000001]).batches "_x._tcp.local." "a._x._tcp.local.") = true)
    ∧ (let run := browserRunAtWith id (fun n => [n]) false [.datagram 1000 [p]] 1130200 1130200 ["_x._tcp.local."] [.datagram 1130300 [p]]
       reportedLive id run.batches "_x._tcp.local." "a._x._tcp.local." = false
       ∧ (run.cache.getUnique id (ptrRec "_x._tcp.local." "a._x._tcp.local.")).isSome = true)
    ∧ (let run := browserRunFrom id (fun n => [n]) [.datagram 1000 [p]] 1130200 ["_x._tcp.local."] [.datagram 1130300 [p]]
       reportedLive id run.batches "_x._tcp.local." "a._x._tcp.local." = true
       ∧ run.batches = [[], [⟨.added, "_x._tcp.local.", "a._x._tcp.local."⟩]]) := by decide

/-- **D23b, before its repair** (c7503f0): the first D23 repair read the clock twice during a creation — the purge in
`async_add_listener` and the replay in `_async_update_matching_records`.  If the clock ticked in between while a pointer record ran
out (purge at 1 125 999, replay at 1 126 000 = the record's deadline), the record was neither purged nor replayed, and the next
announcement was a refresh of the stale entry: never Added.  Now the replay is handed the purge's reading
(`add_listener_replay_now`), which is what `browserRunFrom` runs. -/
example :
    let p : Rec := ⟨"_x._tcp.local.", 12, 1, false, 1125, 0, .ptr "a._x._tcp.local."⟩
    let run := browserRunAtWith id (fun n => [n]) true [.datagram 1000 [p]] 1125999 1126000 ["_x._tcp.local."] [.datagram 1126100 [p]]
    reportedLive id run.batches "_x._tcp.local." "a._x._tcp.local." = false
    ∧ (run.cache.getUnique id (ptrRec "_x._tcp.local." "a._x._tcp.local.")).isSome = true := by decide

/-- **C04 (callbacks come after the cache update — all records of the datagram).**  When the callbacks of a datagram run
(they are produced by `async_update_records_complete`, whose cache is `o.cache`), every record of the datagram with a
non-zero TTL that the datagram does not also withdraw is in the cache, stamped with the arrival time — so
`get_service_info` called from inside `add_service` finds the SRV/TXT/address records that came with the pointer; and a
record the datagram only withdraws is gone. -/
theorem C04_after_cache_all (evs : List Event) (b : Browser) (now : Ms) (recs : List Rec) :
    ∃ o, Browser.onDatagram lower possible (cacheAfter lower evs) b now recs = .ok o
      ∧ (∀ r ∈ recs, r.ttl ≠ 0 → hasGoodbye lower recs r = false →
          ∃ e, o.cache.getUnique lower r = some e ∧ e.created = now)
      ∧ (∀ r ∈ recs, hasGoodbye lower recs r = true → lastLive lower recs r = none → o.cache.getUnique lower r = none) := by
  obtain ⟨out, hout, hpost⟩ := C06_post_state lower evs now recs
  have href := ((Refines.empty lower).runEvents (by simp [Flat.WF]) evs).1
  have hcache : ∃ o, Browser.onDatagram lower possible (cacheAfter lower evs) b now recs = .ok o ∧ o.cache = out.cache := by
    unfold Browser.onDatagram
    rw [hout]
    simp only [bind, Except.bind]
    cases hc : out.call1 with
    | none => exact ⟨_, rfl, rfl⟩
    | some call => exact ⟨_, rfl, rfl⟩
  obtain ⟨o, ho, hoc⟩ := hcache
  refine ⟨o, ho, ?_, ?_⟩
  · intro r hr httl hng
    rw [hoc]
    have hp := hpost r
    unfold PostState at hp
    have hne : (copiesOf lower recs r).filter (fun x => decide (x.ttl ≠ 0)) ≠ [] := by
      intro hnil
      have : r ∈ (copiesOf lower recs r).filter (fun x => decide (x.ttl ≠ 0)) := by
        rw [List.mem_filter, copiesOf, List.mem_filter]
        exact ⟨⟨hr, by simp⟩, by simp [httl]⟩
      rw [hnil] at this; cases this
    cases hl : lastLive lower recs r with
    | none => exact absurd (List.getLast?_eq_none_iff.1 hl) hne
    | some r' =>
      cases hb : (cacheAfter lower evs).getUnique lower r with
      | none =>
        rw [hb, hl] at hp
        exact ⟨_, hp, rfl⟩
      | some e =>
        rw [hb] at hp
        simp only [hng, Bool.false_eq_true, if_false] at hp
        obtain ⟨e', he', hre⟩ := hp
        have hid : e.ident lower = r.ident lower := by
          unfold cacheAfter at hb
          rw [href.getUnique r] at hb
          exact Flat.getUnique_ident hb
        unfold Refreshed at hre
        rw [lastLive_congr recs hid, hl] at hre
        simp only [] at hre
        exact ⟨e', he', by rw [hre]; rfl⟩
  · intro r hr hg hl
    rw [hoc]
    have hp := hpost r
    unfold PostState at hp
    cases hb : (cacheAfter lower evs).getUnique lower r with
    | none => rw [hb, hl] at hp; simpa using hp
    | some e => rw [hb] at hp; simpa [hg] using hp

/-- non-vacuity of `WFDatagram` with foreign pointers: a browser on `_x._tcp.local.` on a link that also carries another
browser's type and a service-type enumeration pointer -/
example : WFDatagram id (fun n => [n]) ["_x._tcp.local."]
    [⟨"_x._tcp.local.", 12, 1, false, 120, 0, .ptr "a._x._tcp.local."⟩,
     ⟨"_y._udp.local.", 12, 1, false, 120, 0, .ptr "c._y._udp.local."⟩,
     ⟨"_services._dns-sd._udp.local.", 12, 1, false, 4500, 0, .ptr "_y._udp.local."⟩] := by
  constructor
  · intro r hr _
    simp only [List.mem_cons, List.not_mem_nil, or_false] at hr
    rcases hr with rfl | rfl | rfl
    · exact Or.inl ⟨⟨_, rfl⟩, rfl, by simp⟩
    · exact Or.inr ⟨by decide, by decide⟩
    · exact Or.inr ⟨by decide, by decide⟩
  · intro r hr r' hr' a a' _ _ hl; exact hl

/-- the purge step at work: a pointer record with TTL 1 (floored to 1125 s) learned by the browser, purged at its
deadline — batches: the (empty) initial replay, Added, Removed -/
example :
    (browserRunFrom id (fun n => [n]) [] 0 ["_x._tcp.local."]
      [.datagram 1000 [⟨"_x._tcp.local.", 12, 1, false, 1, 0, .ptr "a._x._tcp.local."⟩], .purge 1126000]).batches.map
        (fun b => b.map (fun cb => cb.change)) = [[], [.added], [.removed]] := by decide

/-! non-vacuity of the hypotheses -/

example : WFTypes id (fun n => [n]) ["_x._tcp.local.", "_y._udp.local."] :=
  ⟨by decide, by decide⟩

example : WFDatagram id (fun n => [n]) ["_x._tcp.local."]
    [⟨"_x._tcp.local.", 12, 1, false, 120, 0, .ptr "a._x._tcp.local."⟩, ⟨"_x._tcp.local.", 12, 1, false, 0, 0, .ptr "b._x._tcp.local."⟩,
     ⟨"a._x._tcp.local.", 16, 1, true, 120, 0, .txt []⟩] := by
  constructor
  · intro r hr hty
    simp only [List.mem_cons, List.not_mem_nil, or_false] at hr
    rcases hr with rfl | rfl | rfl
    · exact Or.inl ⟨⟨_, rfl⟩, rfl, by simp⟩
    · exact Or.inl ⟨⟨_, rfl⟩, rfl, by simp⟩
    · cases hty
  · intro r hr r' hr' a a' ha ha' hl
    exact hl

/-- the restriction on letter case is needed: the same new instance in two spellings inside one datagram is
announced twice (two pending keys), although it is one pointer record -/
example :
    (Browser.complete (Browser.updateRecords id (fun n => [n]) {} 1000 { types := ["_x._tcp.local."] }
      [(⟨"_x._tcp.local.", 12, 1, false, 120, 1000, .ptr "a._x._tcp.local."⟩, none),
       (⟨"_x._tcp.local.", 12, 1, false, 120, 1000, .ptr "A._x._tcp.local."⟩, none)])).2.length = 2 := by decide

end

/-! ## Tie: the browser's live set against the *generated* cache

The browser run keeps the cache of C05/C06 (`C04_run_cache`); that cache is the abstraction of the generated `DNSCache` stepped through
the translated operations along the same history (`FnCacheRun.srcCacheAfter_abs`).  So "reported live = cached" holds for the translated
`async_get_unique` on the generated cache.  The browser callbacks themselves (`Browser`, `possible_types`) are hand-written models. -/
section Tie
variable (lower : String → String) (possible : String → List String)
open Zc.Py Zc.GenFn.Cache Zc.GenFacts.FnCache Zc.GenFacts.FnCacheRun

/-- **C04 (live set = cached pointer records), read off the generated cache** -/
theorem C04_live_eq_cache_source (types : List String) (pre : List Event) (t0 : Ms) (evs : List Event)
    (hwf : WFHistory lower possible types pre evs) (t : String) (ht : t ∈ types) (a : String) :
    reportedLive lower (browserRunFrom lower possible pre t0 types evs).batches t a
      = ((srcCacheAfter lower (pre ++ [.purge t0] ++ evs)).async_get_unique lower (ptrRec t a)).isSome := by
  obtain ⟨hb, hj⟩ := srcCacheAfter_abs lower (pre ++ [.purge t0] ++ evs)
  rw [async_get_unique_eq lower _ _ hj, hb]
  have h1 := C04_live_eq_cache lower possible types pre t0 evs hwf t ht a
  rw [C04_run_cache lower possible t0 hwf] at h1
  exact h1

end Tie
end Zc
